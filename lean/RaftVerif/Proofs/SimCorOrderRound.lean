import RaftVerif.Proofs.SimCorOrderStep
import RaftVerif.Proofs.SimReady
/-!
# Proofs/SimCorOrderRound — what a `syncRound` does to the apply cursors
-/
namespace RaftVerif.Sim
open Raft

theorem RaftLog.appliedTo_cur {l l' : RaftLog} {i sz : Nat} (h : l.appliedTo i sz = .ok l') :
    l'.cur = (max l.applying i, i) := by
  unfold RaftLog.appliedTo at h
  split at h
  · cases h
  · injection h with h; subst h; rfl

/-- **MsgStorageApplyResp** (term 0, not empty): the cursors are those of `RaftLog.appliedTo` -/
theorem step_applyResp_cursors {m : Message} {r r' : Raft} {e : Option StepErr} (ht : m.typ = .storageApplyResp)
    (hterm : m.term = 0) {last : Entry} (hg : m.entries.getLast? = some last)
    (hrun : (Raft.step Raft.stepFuel m).run r = .ok (e, r')) :
    r'.log.cur = (max r.log.applying (max last.index r.log.applied), max last.index r.log.applied) := by
  rw [show Raft.stepFuel = 2 + 1 from rfl, Raft.step] at hrun
  simp only [hterm, ht, StateT.run_bind, StateT.run_get, P_pure_eq, P_ok_bind, beq_self_eq_true, ↓reduceIte,
    StateT.run_pure] at hrun
  simp only [hg, StateT.run_bind] at hrun
  obtain ⟨⟨u, r1⟩, h1, hrun⟩ := bind_eq_ok.1 hrun
  obtain ⟨l, hl, hc⟩ := appliedTo_cursors _ _ _ _ _ _ h1
  rw [← RaftLog.appliedTo_cur hl, ← hc]
  simp only [P_ok_bind, StateT.run_get, P_pure_eq, Raft.reduceUncommittedSize_run, StateT.run_pure, Except.ok.injEq,
    Prod.mk.injEq] at hrun
  obtain ⟨_, rfl⟩ := hrun
  rfl

theorem runSteps_cue (ms : List Message)
    (hms : ∀ m ∈ ms, m.typ ≠ .storageAppendResp ∧ m.typ ≠ .storageApplyResp) {r r' : Raft}
    (h : Next.runSteps ms r = .ok r') : r'.log.cur = r.log.cur := by
  induction ms generalizing r with
  | nil => simp only [Next.runSteps, Except.ok.injEq] at h; subst h; rfl
  | cons m ms ih =>
    simp only [Next.runSteps] at h
    obtain ⟨⟨e, r1⟩, hstep, h⟩ := bind_eq_ok.1 h
    have h1 := hms m (List.mem_cons_self ..)
    have c1 : r1.log.cur = r.log.cur := (step_cue' _ m r h1.1 h1.2).elim hstep
    exact (ih (fun x hx => hms x (List.mem_cons_of_mem _ hx)) h).trans c1

theorem promise_not_storage {t : MsgType} (h : isPromise t = true) :
    t ≠ .storageAppendResp ∧ t ≠ .storageApplyResp := by
  constructor <;> (intro h'; subst h'; revert h; decide)

/-- **the apply cursors after a round** (sync mode, last `Ready` advanced, well-formed log without a pending snapshot,
only promises queued behind the storage write): without a hand-out both cursors stay; with a hand-out ending in
`last` both are `last.index` -/
theorem round_cursors {rn rn' : RawNode} {rd : Ready} {draws : List Nat} (ha : rn.async = false)
    (hso : rn.stepsOnAdvance = []) (hwf : rn.raft.log.WF) (hsn : rn.raft.log.unstable.snapshot = none)
    (hprom : ∀ m ∈ rn.raft.msgsAfterAppend, isPromise m.typ = true)
    (h : syncRound rn draws = .ok (rd, rn')) :
    (rd.committedEntries = [] → rn'.raft.log.cur = rn.raft.log.cur) ∧
    (∀ last, rd.committedEntries.getLast? = some last → rn'.raft.log.cur = (last.index, last.index)) := by
  unfold syncRound at h
  obtain ⟨⟨rd0, rn1⟩, hready, h⟩ := bind_eq_ok.1 h
  dsimp only at h
  obtain ⟨rn2, hpers, h⟩ := bind_eq_ok.1 h
  obtain ⟨rn3, hadv, h⟩ := bind_eq_ok.1 h
  simp only [pure, Except.pure, Except.ok.injEq, Prod.mk.injEq] at h
  obtain ⟨e1, e2⟩ := h
  subst e1 e2
  obtain ⟨_, _, wf1, _, _, hnil, hlastA, _, _, _, happlied, _, _⟩ :=
    C08R.ready_accept_applying rn rn1 rd0 hwf hready
  obtain ⟨eid, l2, _, _, _, _, hsoa1, _, _⟩ := ready_sync_inv ha hso hwf hsn hready
  obtain ⟨ms, ms', _, _, hrn2⟩ := persistReady_inv hpers
  obtain ⟨r3, hsteps, hrn3⟩ := advance_inv hadv
  subst hrn2
  simp only [hsoa1] at hsteps
  subst hrn3
  unfold Next.soaOf at hsteps
  rw [runSteps_append, runSteps_append] at hsteps
  obtain ⟨rb, hsteps, hstepC⟩ := bind_eq_ok.1 hsteps
  obtain ⟨ra, hstepA, hstepB⟩ := bind_eq_ok.1 hsteps
  have cA : ra.log.cur = rn1.raft.log.cur := by
    have := runSteps_cue _ (fun m hm => promise_not_storage (hprom m (List.mem_filter.1 hm).1)) hstepA
    exact this
  have cB : rb.log.cur = ra.log.cur := by
    split at hstepB
    · obtain ⟨e, hstep⟩ := runSteps_single hstepB
      exact (step_appendResp_cue _ _ _ rfl rfl).elim hstep
    · simp only [Next.runSteps, Except.ok.injEq] at hstepB
      subst hstepB; rfl
  have c1 : rn1.raft.log.cur = (rn1.raft.log.applying, rn.raft.log.applied) := by
    simp only [RaftLog.cur, happlied]
  constructor
  · intro h0
    have : r3 = rb := by
      simp only [h0, List.length_nil, gt_iff_lt, Nat.lt_irrefl, ↓reduceIte, Next.runSteps, Except.ok.injEq] at hstepC
      exact hstepC.symm
    subst this
    show r3.log.cur = rn.raft.log.cur
    rw [cB, cA, c1, hnil h0]; rfl
  · intro last hl
    have hne : rd0.committedEntries.length > 0 := by
      cases hc : rd0.committedEntries with
      | nil => rw [hc] at hl; cases hl
      | cons a t => simp
    rw [if_pos hne] at hstepC
    obtain ⟨e, hstep⟩ := runSteps_single hstepC
    have c3 := step_applyResp_cursors (m := RawNode.newStorageApplyRespMsg rn.raft rd0.committedEntries) rfl rfl hl hstep
    show r3.log.cur = (last.index, last.index)
    have hb : rb.log.cur = (last.index, rn.raft.log.applied) := by rw [cB, cA, c1, hlastA last hl]
    have hb1 : rb.log.applying = last.index := congrArg Prod.fst hb
    have hb2 : rb.log.applied = rn.raft.log.applied := congrArg Prod.snd hb
    have hle : rn.raft.log.applied ≤ last.index := by
      have := wf1.appliedLeApplying
      rw [happlied, hlastA last hl] at this
      exact this
    rw [c3, hb1, hb2, Nat.max_eq_left hle, Nat.max_self]

end RaftVerif.Sim
