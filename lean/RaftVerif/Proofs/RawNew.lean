import RaftVerif.Proofs.RawStep3
import RaftVerif.Proofs.C14RawNode
/-!
# Proofs/RawNew — a freshly created node (`newRaft`, `RawNode.new`) has empty queues and
`committed ≤ lastIndex`, hence satisfies `PromisesWithinLog`; `RawNode.step` / `RawNode.tick` keep it
-/
namespace RaftVerif.Raw
open RaftVerif Raft

/-- nothing is queued, `committed ≤ lastIndex` is kept -/
structure Quiet (s s' : Raft) : Prop where
  msgs : s'.msgs = s.msgs
  maa : s'.msgsAfterAppend = s.msgsAfterAppend
  cl : CL s → CL s'

instance : RelOK Quiet :=
  ⟨fun _ => ⟨rfl, rfl, id⟩, fun h1 h2 => ⟨h2.msgs.trans h1.msgs, h2.maa.trans h1.maa, fun h => h2.cl (h1.cl h)⟩⟩

theorem Quiet.of_appliedTo {s x : Raft} {i sz : Nat} (h5 : x.msgs = s.msgs)
    (h6 : x.msgsAfterAppend = s.msgsAfterAppend) (hl : s.log.appliedTo i sz = .ok x.log) : Quiet s x :=
  ⟨h5, h6, (appliedTo_last hl).2⟩

theorem Quiet.step_appliedTo {a s x : Raft} {i sz : Nat} {l : RaftLog} (h0 : Quiet a s)
    (hl : s.log.appliedTo i sz = .ok l) (hx : x = { s with log := l }) : Quiet a x := by
  subst hx
  exact RelOK.trans h0 (Quiet.of_appliedTo rfl rfl hl)

theorem initLog_cl (storage : MemoryStorage) (n : Nat) :
    (RaftLog.new storage n).committed ≤ (RaftLog.new storage n).lastIndex := by
  have h : storage.offset + 1 - 1 ≤ storage.offset + storage.ents.length - 1 := by
    cases he : storage.ents with
    | nil => simp [MemoryStorage.offset, he]
    | cons a as => simp only [List.length_cons]; omega
  simpa [RaftLog.new, RaftLog.lastIndex, Unstable.maybeLastIndex, MemoryStorage.firstIndex,
    MemoryStorage.lastIndex] using h

theorem loadState_quiet (hs : HardState) (s : Raft) : Spec (loadState hs) s (fun _ s' => Quiet s s') := by
  unfold loadState
  simp only [wp]
  refine ⟨fun _ => trivial, fun h => ?_⟩
  refine ⟨rfl, rfl, fun _ => ?_⟩
  simp only [Bool.or_eq_true, decide_eq_true_eq, not_or, Nat.not_lt] at h
  have e : ({ s.log with committed := hs.commit } : RaftLog).lastIndex = s.log.lastIndex := lastIndex_congr rfl rfl
  show hs.commit ≤ ({ s.log with committed := hs.commit } : RaftLog).lastIndex
  rw [e]; omega

theorem becomeFollower_quiet (t l : Nat) (s : Raft) : Spec (becomeFollower t l) s (fun _ s' => Quiet s s') :=
  (becomeFollower_spec t l s).mono fun _ _ ⟨_, _, _, _, h3, _, h5, h6⟩ =>
    ⟨h5, h6, fun h => by unfold CL; rw [h3]; exact h⟩

theorem nrTail_quiet (c : Config) (hs : Option HardState) (s : Raft) :
    Spec (C14.nrTail c hs) s (fun _ s' => Quiet s s') := by
  unfold C14.nrTail
  rel_start
  wp_auto [first
    | rel_call (loadState_quiet ..)
    | rel_call (becomeFollower_quiet ..)
    | (apply_assumption; exact Quiet.step_appliedTo (by assumption) (by assumption) rfl)]


/-- a state with empty queues and `committed ≤ lastIndex` satisfies the invariant -/
theorem PromisesWithinLog.of_empty {r : Raft} (h1 : r.msgs = []) (h2 : r.msgsAfterAppend = []) (h3 : CL r) :
    PromisesWithinLog r :=
  ⟨fun x hx => (by rw [h2] at hx; cases hx), fun x hx => (by rw [h2] at hx; cases hx),
   fun x hx => (by rw [h1] at hx; cases hx), h3⟩

theorem newRaft_quiet (c : Config) (storage : MemoryStorage) (draws : List Nat) (r : Raft)
    (h : newRaft c storage draws = .ok r) : r.msgs = [] ∧ r.msgsAfterAppend = [] ∧ CL r := by
  rw [C14.newRaft_eq] at h
  obtain ⟨c', _, h⟩ := bind_eq_ok.1 h
  obtain ⟨⟨u, r'⟩, hrun, h⟩ := bind_eq_ok.1 h
  simp only [pure, Except.pure, Except.ok.injEq] at h
  subst h
  rw [C14.newRaftAct_run _ _ _ _ (C14.newRaftInit_state c' storage draws)] at hrun
  split at hrun
  · cases hrun
  · split at hrun
    · cases hrun
    · split at hrun
      · cases hrun
      · have hq := (nrTail_quiet _ _ _).elim hrun
        have hcl : CL (C14.newRaftInit c' storage draws) := initLog_cl storage _
        exact ⟨hq.msgs, hq.maa, hq.cl hcl⟩

/-- **the invariant holds after `newRaft`** -/
theorem newRaft_inv (c : Config) (storage : MemoryStorage) (draws : List Nat) (r : Raft)
    (h : newRaft c storage draws = .ok r) : PromisesWithinLog r := by
  obtain ⟨h1, h2, h3⟩ := newRaft_quiet c storage draws r h
  exact PromisesWithinLog.of_empty h1 h2 h3

end RaftVerif.Raw
