import RaftVerif.Model.ConfChange
/-!
# Proofs/ConfChangeSets — lemmas about the sorted-list representation of Go sets / maps

`setInsert / setErase / mapInsert / mapErase / mapGet / nilAdd / nilDelete` from `Model/Tracker.lean`.
Core Lean only.
-/
namespace RaftVerif

/-- `omega` does not look through the abbreviation `Id := Nat`; unfold it first -/
macro "omegaId" : tactic => `(tactic| ((try simp only [RaftVerif.Id] at *); omega))

/-- strictly ascending list of ids (the canonical representation of a Go `map[uint64]struct{}`) -/
def Sorted (l : List Id) : Prop := l.Pairwise (· < ·)

instance (l : List Id) : Decidable (Sorted l) := by unfold Sorted; exact inferInstance

theorem Sorted.nodup {l : List Id} (h : Sorted l) : l.Nodup :=
  List.Pairwise.imp (fun h => Nat.ne_of_lt h) h

theorem sorted_nil : Sorted [] := List.Pairwise.nil

theorem Sorted.tail {a : Id} {l : List Id} (h : Sorted (a :: l)) : Sorted l :=
  (List.pairwise_cons.mp h).2

theorem Sorted.head_lt {a : Id} {l : List Id} (h : Sorted (a :: l)) : ∀ x ∈ l, a < x :=
  (List.pairwise_cons.mp h).1

/-- two strictly ascending lists with the same members are equal -/
theorem sorted_ext : ∀ {a b : List Id}, Sorted a → Sorted b → (∀ x, x ∈ a ↔ x ∈ b) → a = b
  | [], [], _, _, _ => rfl
  | [], y :: ys, _, _, h => by have := (h y).mpr (by simp); simp at this
  | x :: xs, [], _, _, h => by have := (h x).mp (by simp); simp at this
  | x :: xs, y :: ys, ha, hb, h => by
    have hxa := ha.head_lt
    have hyb := hb.head_lt
    have hxy : x = y := by
      have h1 : x ∈ y :: ys := (h x).mp (by simp)
      have h2 : y ∈ x :: xs := (h y).mpr (by simp)
      rcases List.mem_cons.mp h1 with e | m1
      · exact e
      · rcases List.mem_cons.mp h2 with e | m2
        · exact e.symm
        · have := hxa y m2; have := hyb x m1; omegaId
    subst hxy
    have : xs = ys := by
      apply sorted_ext ha.tail hb.tail
      intro z
      constructor
      · intro hz
        have := (h z).mp (List.mem_cons_of_mem _ hz)
        rcases List.mem_cons.mp this with e | m
        · subst e; have := hxa z hz; omegaId
        · exact m
      · intro hz
        have := (h z).mpr (List.mem_cons_of_mem _ hz)
        rcases List.mem_cons.mp this with e | m
        · subst e; have := hyb z hz; omegaId
        · exact m
    rw [this]

/-! ### setInsert / setErase -/

theorem mem_setInsert {x a : Id} {l : List Id} : x ∈ setInsert a l ↔ x = a ∨ x ∈ l := by
  induction l with
  | nil => simp [setInsert]
  | cons y ys ih =>
    unfold setInsert
    split
    · simp
    · split
      · rename_i h; have : a = y := by simpa using h
        subst this; simp
      · simp [ih]; constructor <;> (intro h; rcases h with h | h | h <;> simp [h])

theorem setInsert_ne_nil (a : Id) (l : List Id) : setInsert a l ≠ [] := by
  cases l with
  | nil => simp [setInsert]
  | cons y ys =>
    unfold setInsert
    split
    · simp
    · split <;> simp

theorem sorted_setInsert {a : Id} {l : List Id} (h : Sorted l) : Sorted (setInsert a l) := by
  induction l with
  | nil => simp [setInsert, Sorted]
  | cons y ys ih =>
    have hy := h.head_lt
    unfold setInsert
    split
    · rename_i hlt
      refine List.pairwise_cons.mpr ⟨?_, h⟩
      intro z hz
      rcases List.mem_cons.mp hz with e | m
      · omegaId
      · have := hy z m; omegaId
    · split
      · exact h
      · rename_i h1 h2
        have hne : a ≠ y := by simpa using h2
        refine List.pairwise_cons.mpr ⟨?_, ih h.tail⟩
        intro z hz
        rcases mem_setInsert.mp hz with e | m
        · omegaId
        · exact hy z m

theorem setInsert_of_mem {a : Id} {l : List Id} (hs : Sorted l) (h : a ∈ l) : setInsert a l = l :=
  sorted_ext (sorted_setInsert hs) hs (by intro x; rw [mem_setInsert]; constructor
                                          · rintro (e | m); exact e ▸ h; exact m
                                          · exact Or.inr)

theorem mem_setErase {x a : Id} {l : List Id} : x ∈ setErase a l ↔ x ∈ l ∧ x ≠ a := by
  simp [setErase]

theorem sorted_setErase {a : Id} {l : List Id} (h : Sorted l) : Sorted (setErase a l) :=
  List.Pairwise.filter _ h

theorem setErase_of_not_mem {a : Id} {l : List Id} (h : a ∉ l) : setErase a l = l := by
  unfold setErase
  apply List.filter_eq_self.mpr
  intro x hx
  have : x ≠ a := fun e => h (e ▸ hx)
  simpa using this

theorem setErase_length_le (a : Id) (l : List Id) : (setErase a l).length ≤ l.length :=
  List.length_filter_le _ _

/-! ### maps -/

/-- key list of an association list (iteration order of the modelled Go map) -/
def keys {β : Type} (m : List (Id × β)) : List Id := m.map (·.1)

@[simp] theorem keys_nil {β : Type} : keys ([] : List (Id × β)) = [] := rfl
@[simp] theorem keys_cons {β : Type} (p : Id × β) (m : List (Id × β)) : keys (p :: m) = p.1 :: keys m := rfl

theorem mapGet_nil {β : Type} (j : Id) : mapGet ([] : List (Id × β)) j = none := rfl

theorem mapGet_cons {β : Type} (k : Id) (v : β) (m : List (Id × β)) (j : Id) :
    mapGet ((k, v) :: m) j = if k = j then some v else mapGet m j := by
  unfold mapGet
  simp [Quorum.lookup]

theorem mapGet_mapInsert {β : Type} (k : Id) (v : β) (m : List (Id × β)) (j : Id) :
    mapGet (mapInsert k v m) j = if j = k then some v else mapGet m j := by
  induction m with
  | nil => simp [mapInsert, mapGet_cons, mapGet_nil, eq_comm]
  | cons p rest ih =>
    obtain ⟨k', v'⟩ := p
    unfold mapInsert
    split
    · simp [mapGet_cons, eq_comm]
    · split
      · rename_i h; have : k = k' := by simpa using h
        subst this
        simp only [mapGet_cons]
        by_cases hj : k = j <;> simp [hj, eq_comm]
      · rename_i h1 h2
        have hne : k ≠ k' := by simpa using h2
        simp only [mapGet_cons, ih]
        by_cases hj : j = k
        · subst hj; simp [Ne.symm hne]
        · simp [hj]

theorem mapGet_mapErase {β : Type} (k : Id) (m : List (Id × β)) (j : Id) :
    mapGet (mapErase k m) j = if j = k then none else mapGet m j := by
  induction m with
  | nil => simp [mapErase, mapGet_nil]
  | cons p rest ih =>
    obtain ⟨k', v'⟩ := p
    unfold mapErase at ih ⊢
    by_cases hk : k' = k
    · subst hk
      simp only [List.filter_cons, bne_self_eq_false, Bool.false_eq_true, ↓reduceIte, ih, mapGet_cons]
      by_cases hj : j = k' <;> simp [hj]
      intro h; exact absurd h.symm hj
    · have : (k' != k) = true := by simpa using hk
      simp only [List.filter_cons, this, ↓reduceIte, mapGet_cons, ih]
      by_cases hj : j = k
      · subst hj; simp [hk]
      · simp [hj]

theorem keys_mapInsert {β : Type} (k : Id) (v : β) (m : List (Id × β)) :
    keys (mapInsert k v m) = setInsert k (keys m) := by
  induction m with
  | nil => rfl
  | cons p rest ih =>
    obtain ⟨k', v'⟩ := p
    unfold mapInsert
    simp only [keys_cons, setInsert]
    split
    · rfl
    · split
      · rename_i h; have : k = k' := by simpa using h
        subst this; rfl
      · simp [ih]

theorem keys_mapErase {β : Type} (k : Id) (m : List (Id × β)) :
    keys (mapErase k m) = setErase k (keys m) := by
  unfold keys mapErase setErase
  rw [List.filter_map]
  rfl

theorem mapGet_isSome_iff {β : Type} (m : List (Id × β)) (j : Id) :
    (mapGet m j).isSome = true ↔ j ∈ keys m := by
  induction m with
  | nil => simp [mapGet_nil]
  | cons p rest ih =>
    obtain ⟨k, v⟩ := p
    rw [mapGet_cons]
    by_cases h : k = j
    · simp [h]
    · simp only [h, ↓reduceIte, ih, keys_cons, List.mem_cons]
      constructor
      · exact Or.inr
      · rintro (e | m); exact absurd e.symm h; exact m

theorem mapGet_eq_none_iff {β : Type} (m : List (Id × β)) (j : Id) :
    mapGet m j = none ↔ j ∉ keys m := by
  rw [← mapGet_isSome_iff]
  cases mapGet m j <;> simp

theorem mapGet_some_mem_keys {β : Type} {m : List (Id × β)} {j : Id} {v : β}
    (h : mapGet m j = some v) : j ∈ keys m := by
  rw [← mapGet_isSome_iff, h]; rfl

theorem exists_mapGet_of_mem_keys {β : Type} {m : List (Id × β)} {j : Id}
    (h : j ∈ keys m) : ∃ v, mapGet m j = some v := by
  have := (mapGet_isSome_iff m j).mpr h
  cases hm : mapGet m j with
  | none => rw [hm] at this; simp at this
  | some v => exact ⟨v, rfl⟩

/-- a found record is an element of the association list -/
theorem mapGet_some_mem {β : Type} {m : List (Id × β)} {j : Id} {v : β}
    (h : mapGet m j = some v) : (j, v) ∈ m := by
  induction m with
  | nil => simp [mapGet_nil] at h
  | cons p rest ih =>
    obtain ⟨k, w⟩ := p
    rw [mapGet_cons] at h
    by_cases hk : k = j
    · subst hk; simp at h; subst h; simp
    · simp [hk] at h; exact List.mem_cons_of_mem _ (ih h)

/-- with duplicate-free keys, every element of the association list is what `mapGet` finds -/
theorem mapGet_of_mem {β : Type} {m : List (Id × β)} (hs : Sorted (keys m)) {j : Id} {v : β}
    (h : (j, v) ∈ m) : mapGet m j = some v := by
  induction m with
  | nil => simp at h
  | cons p rest ih =>
    obtain ⟨k, w⟩ := p
    rw [mapGet_cons]
    rcases List.mem_cons.mp h with e | hm
    · cases e; simp
    · have hlt := hs.head_lt j (List.mem_map.mpr ⟨(j, v), hm, rfl⟩)
      have : k ≠ j := by simp at hlt; omegaId
      simp [this, ih hs.tail hm]

/-! ### nil-aware optional sets -/

/-- membership in an optional set (`nil` map = empty) -/
def optMem (id : Id) (m : Option (List Id)) : Prop := id ∈ m.getD []

theorem optContains_iff {m : Option (List Id)} {id : Id} : optContains m id = true ↔ id ∈ m.getD [] := by
  simp [optContains]

theorem mem_nilAdd {x a : Id} {m : Option (List Id)} :
    x ∈ (nilAdd m a).getD [] ↔ x = a ∨ x ∈ m.getD [] := by
  simp [nilAdd, mem_setInsert]

theorem mem_nilDelete {x a : Id} {m : Option (List Id)} :
    x ∈ (nilDelete m a).getD [] ↔ x ∈ m.getD [] ∧ x ≠ a := by
  cases m with
  | none => simp [nilDelete]
  | some l =>
    simp only [nilDelete, Option.getD_some]
    split
    · rename_i h
      have : setErase a l = [] := by simpa using h
      have h2 := @mem_setErase x a l
      rw [this] at h2
      simp at h2 ⊢
      intro hx; exact h2 hx
    · simp [mem_setErase]

theorem nilDelete_none (a : Id) : nilDelete none a = none := rfl

/-- well-represented optional set: never `some []`, and strictly ascending -/
def OptWF (m : Option (List Id)) : Prop := m ≠ some [] ∧ Sorted (m.getD [])

instance (m : Option (List Id)) : Decidable (OptWF m) := by unfold OptWF; exact inferInstance

theorem optWF_none : OptWF none := ⟨by simp, sorted_nil⟩

theorem optWF_nilAdd {m : Option (List Id)} (a : Id) (h : OptWF m) : OptWF (nilAdd m a) := by
  refine ⟨?_, ?_⟩
  · simp [nilAdd, setInsert_ne_nil]
  · simp only [nilAdd, Option.getD_some]; exact sorted_setInsert h.2

theorem optWF_nilDelete {m : Option (List Id)} (a : Id) (h : OptWF m) : OptWF (nilDelete m a) := by
  cases m with
  | none => exact optWF_none
  | some l =>
    simp only [nilDelete]
    split
    · exact optWF_none
    · rename_i hne
      refine ⟨?_, ?_⟩
      · intro e; simp at e; simp [e] at hne
      · simp only [Option.getD_some]; exact sorted_setErase h.2

theorem optWF_getD_nil {m : Option (List Id)} (h : OptWF m) (he : m.getD [] = []) : m = none := by
  cases m with
  | none => rfl
  | some l => simp at he; subst he; exact absurd rfl h.1

/-- two well-represented optional sets with the same members are equal -/
theorem optWF_ext {a b : Option (List Id)} (ha : OptWF a) (hb : OptWF b)
    (h : ∀ x, x ∈ a.getD [] ↔ x ∈ b.getD []) : a = b := by
  have e := sorted_ext ha.2 hb.2 h
  cases a with
  | none =>
    cases b with
    | none => rfl
    | some lb => simp at e; subst e; exact absurd rfl hb.1
  | some la =>
    cases b with
    | none => simp at e; subst e; exact absurd rfl ha.1
    | some lb => simp at e; rw [e]

theorem nilDelete_of_not_mem {m : Option (List Id)} {a : Id} (hw : OptWF m) (h : a ∉ m.getD []) :
    nilDelete m a = m := by
  apply optWF_ext (optWF_nilDelete a hw) hw
  intro x
  rw [mem_nilDelete]
  constructor
  · exact fun h => h.1
  · intro hx; exact ⟨hx, fun e => h (e ▸ hx)⟩

end RaftVerif
