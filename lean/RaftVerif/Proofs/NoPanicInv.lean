import RaftVerif.Proofs.NoPanicDeliver
import RaftVerif.Proofs.NoPanicKeep
/-!
# Proofs/NoPanicInv — the additional node invariant `NPInv` needed by the leader-side operations, and the
operations that are total under it (conditional theorems: `NPInv` is an assumption here)
-/
set_option linter.unusedSimpArgs false
namespace RaftVerif.NoPanicP
open Raft C14 Sim Refine Simulation

/-- a proposal as created by `RawNode.propose`: one entry of the default (normal) type -/
def PropEntries (x : Message) : Prop := x.typ = .prop → ∃ d, x.entries = [{ data := d }]

/-- a heartbeat response on the wire is not self-addressed -/
def HbRespFrom (x : Message) : Prop := x.typ = .heartbeatResp → x.from ≠ x.to

/-- **the additional invariant of node `n`** (model only): a node that believes itself to be the leader is in the
leader role; queued proposals are forwarded `propose` calls; a leader's progress table points into its log -/
structure NPInv (n : Nat) (r : Raft) : Prop where
  lead : r.lead = n → r.state = .leader
  props : ∀ x ∈ r.msgs, PropEntries x
  hbr : ∀ x ∈ r.msgs, x.typ = .heartbeatResp → x.from = n ∧ x.to ≠ n
  prog : r.state = .leader → ProgWF r

/-- `NPInv` does not look at the draws -/
theorem NPInv.withDraws {n : Nat} {r : Raft} (h : NPInv n r) (draws : List Nat) :
    NPInv n ({ r with draws := draws } : Raft) := ⟨h.lead, h.props, h.hbr, h.prog⟩

/-- **MsgHeartbeatResp** (any term) never throws at a node whose progress table is well-formed (if it leads) -/
theorem noErr_deliver_hbResp {val : Val} {voters : List Id} {n : Nat} {s : Spec.State} {r : Raft} {m : Message}
    {fuel : Nat} (hinv : RaftInv val voters n r (s.nodes n) s.msgs) (hreach : Spec.Reachable (cfgOf voters) s)
    (ht : m.typ = .heartbeatResp) (hnet : NetOK val s.msgs m) (hfrom : m.from ≠ n)
    (hprog : r.state = .leader → ProgWF r) (hd : r.draws ≠ []) : NoErr (Raft.step (fuel + 1) m) r := by
  have hc : Deliverable m.typ := Or.inr (Or.inr (Or.inr (Or.inr (Or.inr ht))))
  have h0 := netOK_term_ne hc hnet
  have hnet' := hnet
  unfold NetOK at hnet'
  simp only [ht] at hnet'
  refine noErr_by_term hinv hreach hc h0 hd (fun s1 r1 _ _ _ hinv1 ht1 _ _ hr1 => ?_)
  refine noErr_step_hbResp_same hinv1 fuel m ht ht1.symm h0 hnet'.2 (fun hl pr hg _ => ?_)
  have hp1 : ProgWF r1 := by
    rcases hr1 with rfl | hf
    · exact hprog hl
    · rw [hf] at hl; cases hl
  have hb := hp1 m.from pr hg
  refine noErr_sendAppend _ m.from hinv1.wf hinv1.unc
    (ProgOK.setProgress hp1.ok m.from _ (Nat.lt_of_le_of_lt (Nat.zero_le _) hb.1) hb.2) ?_
    (by show m.from ≠ r1.cfg.id; rw [hinv1.st.id]; exact hfrom)
  show (Tracker.getProgress (r1.trk.setProgress m.from _) m.from).isSome = true
  rw [getProgress_setProgress]; simp

/-- lifting of a same-term `KeepsProg` lemma to a delivered message of any term -/
theorem keepsProg_by_term {val : Val} {voters : List Id} {n : Nat} {s : Spec.State} {r : Raft} {m : Message}
    {fuel : Nat} (hinv : RaftInv val voters n r (s.nodes n) s.msgs)
    (hreach : Spec.Reachable (cfgOf voters) s) (hty : Deliverable m.typ) (h0 : m.term ≠ 0) (hp : KeepsProg r)
    (hsame : ∀ s1 r1, Spec.Reachable (cfgOf voters) s1 → s1.msgs = s.msgs →
      RaftInv val voters n r1 (s1.nodes n) s1.msgs → r1.term = m.term → KeepsProg r1 →
      Spec (Raft.step (fuel + 1) m) r1 (fun _ r' => KeepsProg r')) :
    Spec (Raft.step (fuel + 1) m) r (fun _ r' => KeepsProg r') :=
  spec_by_term hinv hreach hty h0 hp (fun _ => hp) (fun s1 r1 hreach1 hmsgs _ hinv1 ht1 _ hr1 =>
    hsame s1 r1 hreach1 hmsgs hinv1 ht1 (by
      rcases hr1 with rfl | hf
      · exact hp
      · intro hl; rw [hf] at hl; cases hl))

/-- **acknowledgements are honest**: the index acknowledged by a MsgAppResp of the leader's own term that may be
stepped into it (from the network, or its own durable promise) lies within the leader's log -/
theorem inOK_ack_le {val : Val} {voters : List Id} {n : Nat} {s : Spec.State} {r : Raft} {m : Message}
    (hinv : RaftInv val voters n r (s.nodes n) s.msgs) (hreach : Spec.Reachable (cfgOf voters) s)
    (hcfg : (cfgOf voters).OK) (ht : m.typ = .appResp) (hin : InOK val n (s.nodes n) s.msgs m)
    (hterm : m.term = r.term) (hl : r.state = .leader) (hrej : m.reject = false) :
    m.index ≤ r.log.lastIndex := by
  unfold InOK at hin
  simp only [ht] at hin
  have hrole : (s.nodes n).role = .leader := by rw [hinv.abs.role, hl]; rfl
  have hvt : (s.nodes n).vol.term = m.term := hinv.abs.term.trans hterm.symm
  rcases hin.2 hrej with h | ⟨_, h⟩ | ⟨_, h⟩
  · omega
  · exact hb_commit_le hinv (Spec.durAck_within_leader_log hcfg hreach (by rw [hvt]; exact h))
  · exact hb_commit_le hinv (Spec.ack_within_leader_log hcfg hreach hrole (by rw [hvt]; exact h))

/-! ### the cluster invariant -/

/-- every node satisfies `NPInv`; proposals and heartbeat responses on the wire are well-shaped -/
def NPC (c : Cluster) : Prop :=
  (∀ n rn, c.nodes n = some rn → NPInv n rn.raft) ∧ ∀ x ∈ c.net, PropEntries x ∧ HbRespFrom x

theorem NPC.lift {c : Cluster} (h : NPC c) (n : Nat) (rn' : RawNode) (out : List Message)
    (hn : NPInv n rn'.raft) (hout : ∀ x ∈ out, PropEntries x ∧ HbRespFrom x) :
    NPC { (c.setNode n rn') with net := c.net ++ out } := by
  refine ⟨fun k rk hk => ?_, fun x hx => ?_⟩
  · by_cases hkn : k = n
    · subst hkn
      have : rk = rn' := by simpa [Cluster.setNode] using hk.symm
      subst this; exact hn
    · exact h.1 k rk (by simpa [Cluster.setNode, hkn] using hk)
  · rcases List.mem_append.1 hx with h1 | h1
    · exact h.2 x h1
    · exact hout x h1

theorem NPC.lift0 {c : Cluster} (h : NPC c) (n : Nat) (rn' : RawNode) (hn : NPInv n rn'.raft) :
    NPC (c.setNode n rn') := by
  have := h.lift n rn' [] hn (by simp)
  have e : ({ (c.setNode n rn') with net := c.net ++ [] } : Cluster) = c.setNode n rn' := by
    simp [Cluster.setNode]
  rw [e] at this; exact this

/-- a node that was just (re)built from storage: follower without leader, nothing queued -/
theorem NPInv.of_fresh {n : Nat} {r : Raft} (hn : n ≠ 0) (hl : r.lead = 0) (hs : r.state = .follower)
    (hm : r.msgs = []) : NPInv n r :=
  ⟨fun h => absurd (hl.symm.trans h) (fun h0 => hn h0.symm), by rw [hm]; simp, by rw [hm]; simp,
    fun h => by rw [hs] at h; cases h⟩

/-- the node built by `RawNode.new` on the bootstrap storage -/
theorem npinv_init {voters : List Id} {c : Config} {draws : List Nat} {rn : RawNode} {n : Nat} (hn : n ≠ 0)
    (hsorted : voters.Pairwise (· < ·)) (h0 : 0 ∉ voters) (happ : c.applied = 0)
    (h : RawNode.new c (initStorage voters) draws = .ok rn) : NPInv n rn.raft := by
  unfold RawNode.new at h
  obtain ⟨r, hr, h⟩ := bind_eq_ok.1 h
  simp only [pure, Except.pure, Except.ok.injEq] at h
  subst h
  obtain ⟨_, trk, d, rest, _, hr', _, _⟩ := newRaft_init hsorted h0 happ hr
  subst hr'
  exact NPInv.of_fresh hn rfl rfl (by simp [initRaft, Next.resetSt, C14.swCfg, C14.newRaftInit])

/-- the node rebuilt by `RawNode.new` from its own storage after a crash -/
theorem npinv_restart {val : Val} {voters : List Id} {n : Nat} {rn rn' : RawNode} {nd : Spec.Node}
    {msgs : List Spec.Msg} {c : Config} {draws : List Nat}
    (hinv : NodeInv val voters n rn nd msgs) (hset : Settled rn.raft) (hdur : DurInv val voters rn nd)
    (hsorted : voters.Pairwise (· < ·)) (h0 : 0 ∉ voters) (happ : c.applied = 0)
    (h : RawNode.new c rn.raft.log.storage draws = .ok rn') : NPInv n rn'.raft := by
  unfold RawNode.new at h
  obtain ⟨r, hr, h⟩ := bind_eq_ok.1 h
  simp only [pure, Except.pure, Except.ok.injEq] at h
  subst h
  obtain ⟨hoff, _⟩ := storage_of_uncompacted hinv.inv.unc hset.1
  have hsn : rn.raft.log.storage.snapshot.conf = { voters := voters } := by rw [hdur.snap]; rfl
  obtain ⟨_, trk, _, hrun, _, _⟩ := newRaft_restart hsn hoff hsorted h0 happ hr
  obtain ⟨d, rest, _, hr'⟩ := becomeFollower_run_exact hrun
  subst hr'
  exact NPInv.of_fresh hinv.inv.st.idnz rfl rfl rfl

end RaftVerif.NoPanicP
