import RaftVerif.Proofs.StepRoles
/-!
# Proofs/StepMain — `Raft.step` (any fuel, any message) keeps `Good`; so do `tick`,
`applyConfChange` and the replay loop of `RawNode.advance`

The single hypothesis on the message, `TermOK m`, excludes a MsgApp / MsgHeartbeat / MsgSnap that
carries term 0: `Step` treats term 0 as "local message" and skips the term comparison, and
`stepCandidate` then calls `becomeFollower(m.Term = 0, …)`, which *lowers* the term
(see `Props/LocalStep.lean`, `step_term_regress_example`).
-/
namespace RaftVerif
namespace Raft

/-- MsgApp, MsgHeartbeat, MsgSnap -/
abbrev AppLike (m : Message) : Prop := m.typ = .app ∨ m.typ = .heartbeat ∨ m.typ = .snap

instance (m : Message) : Decidable (AppLike m) := by unfold AppLike; infer_instance

/-- a message with term 0 is not a MsgApp / MsgHeartbeat / MsgSnap -/
abbrev TermOK (m : Message) : Prop := m.term = 0 → ¬ AppLike m

instance (m : Message) : Decidable (TermOK m) := by unfold TermOK; infer_instance

theorem send_good' (m : Message) (s : Raft) :
    Spec (send m) s (fun _ s' => Good s s' ∧ s'.vote = s.vote ∧ s'.term = s.term) :=
  (send_sf m s).mono fun _ _ h => ⟨h.good, h.vote, h.term⟩

abbrev StepGoodAt (fuel : Nat) : Prop :=
  ∀ (m : Message) (s : Raft), TermOK m → Spec (step fuel m) s (fun _ s' => Good s s')

theorem appliedTo_good (fuel : Nat) (ih : StepGoodAt fuel) (i sz : Nat) (s : Raft) :
    Spec (appliedTo fuel i sz) s (fun _ s' => Good s s') := by
  rw [appliedTo]
  rel_start
  wp_auto [first | good_step | rel_call (ih _ _ (by intro _; simp [AppLike]))]

theorem appliedSnap_good (fuel : Nat) (ih : StepGoodAt fuel) (snap : Snapshot) (s : Raft) :
    Spec (appliedSnap fuel snap) s (fun _ s' => Good s s') := by
  rw [appliedSnap]
  rel_start
  wp_auto [first | good_step | rel_call (appliedTo_good _ ih ..)]

theorem step_good_succ (fuel : Nat) (ih : StepGoodAt fuel) : StepGoodAt (fuel + 1) := by
  intro m s hm
  rw [step]
  rel_start
  simp (config := {zeta := false}) only [wp]
  spec_jp (fun mid => Good s mid ∧ (AppLike m → mid.term ≤ m.term))
  · intro u mid hpre
    obtain ⟨hG, hT⟩ := hpre
    wp_auto [first
      | rel_call' (send_good' ..)
      | good_step
      | rel_call (appliedTo_good _ ih ..)
      | rel_call (appliedSnap_good _ ih ..)
      | rel_call (stepLeader_good ..)
      | rel_call (stepFollower_good ..)
      | rel_call (stepCandidate_good _ _ _ hT)]
    all_goals (
      apply_assumption
      rename_i hcv _ mid2 hG2 hF htyp
      refine ⟨hG2.cfg, hG2.term, ?_, hG2.commit, hG2.msgs, hG2.maa⟩
      have hv := hG.vote
      intro he
      simp only [Bool.and_eq_true, Bool.or_eq_true, beq_iff_eq, decide_eq_true_eq] at *
      simp_all
      first | done | omega)
  · intro body hbody
    have hb : ∀ cur, Good s cur → (AppLike m → cur.term ≤ m.term) →
        Spec (body ()) cur (fun _ s' => Good s s') := fun cur h1 h2 => hbody () cur ⟨h1, h2⟩
    simp (config := {zeta := false}) only [wp]
    refine ⟨fun h0 => ?_, fun h0 => ⟨fun hgt => ?_, fun hgt => ⟨fun hlt => ?_, fun hlt => ?_⟩⟩⟩
    · -- local message (term 0)
      refine hb _ (by assumption) (fun ha => ?_)
      have : m.term = 0 := by simpa using h0
      exact absurd ha (hm this)
    · -- higher term
      spec_jp (fun mid => mid = s)
      · intro _ mid hmid
        subst hmid
        wp_auto [first
          | rel_call' (becomeFollower_good _ _ _ (by pre_tac))
          | good_step]
        all_goals (refine hbody _ _ ⟨by assumption, fun _ => by omega⟩)
      · intro jp1 hjp1
        wp_auto [first | exact hjp1 _ _ rfl | good_step]
    · -- lower term
      wp_auto [first | good_step | rel_call (appliedSnap_good _ ih ..)]
    · -- same term
      exact hb _ (by assumption) (fun _ => by omega)

/-- **`Step` keeps `Good`** for every fuel, every state and every message satisfying `TermOK` -/
theorem step_good : ∀ fuel, StepGoodAt fuel
  | 0 => by
    intro m s _
    rw [step]
    simp only [wp]
  | fuel + 1 => step_good_succ fuel (step_good fuel)

theorem step_good' (fuel : Nat) (m : Message) (s : Raft) (hm : TermOK m) :
    Spec (step fuel m) s (fun _ s' => Good s s') := step_good fuel m s hm

end Raft
end RaftVerif
