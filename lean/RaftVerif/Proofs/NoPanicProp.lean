import RaftVerif.Proofs.NoPanicSend
/-!
# Proofs/NoPanicProp — a MsgProp of term 0 never throws

A proposal of the shape produced by `RawNode.propose` (one normal entry), stepped locally or delivered as a forwarded
proposal: candidates drop it, a follower drops or forwards it (`lead ≠ self`), a leader appends it and broadcasts
(`ProgOK`).
-/
namespace RaftVerif.NoPanicP
open Raft C14 Sim Refine
set_option linter.unusedSimpArgs false

/-- the shape of the proposals of `RawNode.propose`: exactly one normal entry -/
def PropShape (m : Message) : Prop := ∃ d, m.entries = [{ data := d }]

/-! ### pieces -/

theorem noErr_send_of (m : Message) (r : Raft) (h1 : isVoteTyp m.typ = true ↔ m.term ≠ 0)
    (h2 : isAfterAppendTyp m.typ = false → m.to ≠ r.cfg.id) : NoErr (send m) r := by
  obtain ⟨r', hr⟩ := (C14.send_ok_iff m r).2 ⟨h1, h2⟩
  exact NoErr.of_ok hr

/-- appending freshly stamped entries (`lastIndex + 1 …`) to a well-formed log succeeds -/
theorem append_cloned_ok (s : Raft) (es : List Entry) (hwf : s.log.WF) :
    ∃ p, s.log.append (cloned s es) = .ok p := by
  cases hx : s.log.append (cloned s es) with
  | ok p => exact ⟨p, rfl⟩
  | error e =>
    exfalso
    obtain ⟨e0, rest, heq, hcase⟩ := (panic_append_iff _ _ e).mp hx
    have hc := cloned_contig s es
    rw [heq] at hc
    have h0 : e0.index = s.log.lastIndex + 1 := (contig_cons.mp hc).1
    have hu : usub e0.index 1 = s.log.lastIndex := by
      rw [h0, usub_one_pos (by omega)]; omega
    have hcl := hwf.committedLeLast
    have hnext := RaftLog.abs_last_succ hwf
    rw [← RaftLog.lastIndex_abs hwf] at hnext
    unfold Unstable.next at hnext
    simp only [hu] at hcase
    rcases hcase with ⟨_, hc⟩ | ⟨_, _, hc⟩ <;> omega

/-- **`appendEntry` never throws** on a well-formed log -/
theorem noErr_appendEntry (es : List Entry) (s : Raft) (hwf : s.log.WF) : NoErr (appendEntry es) s := by
  unfold appendEntry increaseUncommittedSize
  have hsend : ∀ (r : Raft) (to i : Nat), NoErr (send { typ := .appResp, to := to, index := i }) r := fun r to i =>
    noErr_send_of _ r (by simp [isVoteTyp]) (by simp [isAfterAppendTyp])
  have happ := append_cloned_ok s es hwf
  unfold cloned at happ
  simp only [np, wp, true_and, implies_true, and_true, Bool.not_false, Bool.not_true, Bool.false_eq_true,
    not_true_eq_false, not_false_eq_true, false_implies, true_implies, happ, hsend, Spec.trivial]

theorem decodeCC_normal (d : Option Bytes) : decodeCC { data := d } = pure none := rfl

/-- the state after a successful `appendEntry`: log well-formed, uncompacted, one entry per proposal longer;
tracker untouched -/
theorem appendEntry_after (es : List Entry) (s : Raft) (hwf : s.log.WF) (hu : Uncompacted s.log) :
    Spec (appendEntry es) s (fun ok s' => ok = true → s'.log.WF ∧ Uncompacted s'.log ∧
      s'.log.lastIndex = s.log.lastIndex + es.length ∧ s'.trk = s.trk ∧ s'.cfg = s.cfg) := by
  refine (appendEntry_spec_st es s).mono ?_
  rintro ok s' (⟨rfl, rfl⟩ | ⟨rfl, p, hp, rfl⟩)
  · intro h; cases h
  · intro _
    obtain ⟨a1, a2, _, _, a5, _⟩ := append_at_end (fun _ _ => 0) hwf hu _ (cloned_contig s es) hp
    rw [cloned_length] at a5
    exact ⟨a1, a2, a5, rfl, rfl⟩

/-- **a leader's MsgProp of one normal entry never throws** -/
theorem noErr_stepLeader_prop (fuel : Nat) (m : Message) (s : Raft) (ht : m.typ = .prop) (hshape : PropShape m)
    (hwf : s.log.WF) (hu : Uncompacted s.log) (hp : ProgOK s) : NoErr (stepLeader fuel m) s := by
  obtain ⟨d, hd⟩ := hshape
  obtain ⟨typ, to, frm, term, logTerm, index, entries, commit, vote, snapshot, reject, rejectHint, context, responses⟩ := m
  simp only at ht hd
  subst ht; subst hd
  rw [stepLeader]
  simp only [np, wp, List.zipIdx_cons, List.zipIdx_nil, List.forIn_cons, List.forIn_nil, decodeCC_normal]
  refine ⟨trivial, fun h => absurd h (by simp), fun _ => ⟨fun _ => trivial, fun _ => ⟨fun _ => trivial, fun _ =>
    ⟨⟨⟨trivial, trivial⟩, trivial⟩, noErr_appendEntry _ s hwf, ?_⟩⟩⟩⟩
  refine (appendEntry_after _ s hwf hu).mono ?_
  intro b mid hb
  refine ⟨fun _ => trivial, fun hnb => ?_⟩
  have hbt : b = true := by cases b <;> simp_all
  obtain ⟨a1, a2, a3, a4, _⟩ := hb hbt
  refine ⟨noErr_bcastAppend mid a1 a2 ?_, Spec.trivial _ _⟩
  intro id pr hpr
  rw [a4] at hpr
  have := hp id pr hpr
  omega

/-- a candidate drops the proposal -/
theorem noErr_stepCandidate_prop (fuel : Nat) (m : Message) (s : Raft) (ht : m.typ = .prop) :
    NoErr (stepCandidate fuel m) s := by
  obtain ⟨typ, to, frm, term, logTerm, index, entries, commit, vote, snapshot, reject, rejectHint, context, responses⟩ := m
  simp only at ht
  subst ht
  rw [stepCandidate]
  simp only [np, wp]
  exact ⟨trivial, trivial⟩

/-- a follower drops the proposal or forwards it to its leader, which is not the node itself -/
theorem noErr_stepFollower_prop (fuel : Nat) (m : Message) (s : Raft) (ht : m.typ = .prop) (h0 : m.term = 0)
    (hlead : s.lead ≠ s.cfg.id) : NoErr (stepFollower fuel m) s := by
  obtain ⟨typ, to, frm, term, logTerm, index, entries, commit, vote, snapshot, reject, rejectHint, context, responses⟩ := m
  simp only at ht h0
  subst ht; subst h0
  rw [stepFollower]
  simp only [np, wp]
  refine ⟨trivial, fun _ => trivial, fun _ => ⟨fun _ => trivial, fun _ => ⟨?_, Spec.trivial _ _⟩⟩⟩
  exact noErr_send_of _ s (by simp [isVoteTyp]) (fun _ => hlead)

/-- **a MsgProp of term 0 never throws** (model-level form: well-formed uncompacted log, `lead ≠ self` at a
follower, `ProgOK` at a leader) -/
theorem noErr_step_prop' {r : Raft} (hwf : r.log.WF) (hu : Uncompacted r.log) (fuel : Nat) (m : Message)
    (ht : m.typ = .prop) (h0 : m.term = 0) (hshape : PropShape m)
    (hlead : r.state = .follower → r.lead ≠ r.cfg.id) (hprog : r.state = .leader → ProgOK r) :
    NoErr (Raft.step (fuel + 1) m) r := by
  have hrun := step_same_term_dispatch fuel m r (Or.inl h0) (by rw [ht]; decide)
  intro e he
  rw [hrun] at he
  revert e
  change NoErr (dispatch fuel m r) r
  unfold dispatch
  split
  · exact noErr_stepLeader_prop fuel m r ht hshape hwf hu (hprog (by assumption))
  · exact noErr_stepCandidate_prop fuel m r ht
  · exact noErr_stepCandidate_prop fuel m r ht
  · exact noErr_stepFollower_prop fuel m r ht h0 (hlead (by assumption))

/-- **a MsgProp of term 0 never throws** in a state of the simulation invariant -/
theorem noErr_step_prop {val : Val} {voters : List Id} {n : Nat} {r : Raft} {nd : Spec.Node} {msgs : List Spec.Msg}
    (hinv : RaftInv val voters n r nd msgs) (fuel : Nat) (m : Message) (ht : m.typ = .prop) (h0 : m.term = 0)
    (hshape : PropShape m) (hlead : r.state = .follower → r.lead ≠ n) (hprog : r.state = .leader → ProgOK r) :
    NoErr (Raft.step (fuel + 1) m) r :=
  noErr_step_prop' hinv.wf hinv.unc fuel m ht h0 hshape (fun h => by rw [hinv.st.id]; exact hlead h) hprog

/-- **`RawNode.propose` completes** under the node invariant (no draw is needed) -/
theorem propose_done {val : Val} {voters : List Id} {n : Nat} {rn : RawNode} {nd : Spec.Node} {msgs : List Spec.Msg}
    (hnode : NodeInv val voters n rn nd msgs) (draws : List Nat) (data : Option Bytes)
    (hlead : rn.raft.state = .follower → rn.raft.lead ≠ n) (hprog : rn.raft.state = .leader → ProgOK rn.raft) :
    Done (rn.propose draws data) :=
  rstep_done rn draws _ (noErr_step_prop (hnode.inv.withDraws draws) 2 _ rfl rfl ⟨data, rfl⟩ hlead hprog)

/-! ### frame: what a MsgProp of term 0 keeps -/

/-- role and `lead` are kept, a leader's progress stays well-formed, and every queued message is old, not a MsgProp,
or carries the entries of `m` (the forwarded proposal) -/
def PropQ (r : Raft) (m : Message) : Option StepErr → Raft → Prop := fun _ r' =>
  r'.state = r.state ∧ r'.lead = r.lead ∧ (r'.state = .leader → ProgWF r') ∧
  ∀ x ∈ r'.msgs, x ∈ r.msgs ∨ x.typ ≠ .prop ∨ x.entries = m.entries

theorem stepLeader_prop_frame (fuel : Nat) (m : Message) (s : Raft) (ht : m.typ = .prop) (hwf : s.log.WF)
    (hu : Uncompacted s.log) (hp : ProgWF s) : Spec (stepLeader fuel m) s (PropQ s m) := by
  refine (stepLeader_prop_spec_maa fuel m s ht).mono ?_
  rintro e s' (⟨_, h1⟩ | ⟨_, s1, ents, p, h1, _, happ, hsf, _, hbc⟩)
  · unfold OnlyPCI at h1
    refine ⟨by rw [h1], by rw [h1], fun _ => hp.congr (by rw [h1]) (by rw [h1]; exact Nat.le_refl _),
      fun x hx => Or.inl ?_⟩
    rw [h1] at hx; exact hx
  · unfold OnlyPCI at h1
    have hlog : s1.log = s.log := by rw [h1]
    have hterm : s1.term = s.term := by rw [h1]
    have hcl : cloned s1 ents = cloned s ents := by unfold cloned; rw [hlog, hterm]
    rw [hcl, hlog] at happ
    obtain ⟨a1, a2, _, _, a5, _⟩ := append_at_end (fun _ _ => 0) hwf hu _ (cloned_contig s ents) happ
    have hp2 : ProgWF (afterAppend s1 ents p) :=
      hp.congr (by simp only [afterAppend]; rw [h1]) (by show s.log.lastIndex ≤ p.1.lastIndex; omega)
    have hw := (bcastAppend_keepWF _ a1 a2 hp2).elim hbc
    obtain ⟨_, _, _, _, _, added, b6, b7⟩ := (bcastAppend_sendsOK (fun _ _ => 0) _ a1 a2).elim hbc
    have e1 : (afterAppend s1 ents p).msgs = s.msgs := by simp only [afterAppend]; rw [h1]
    refine ⟨hsf.state.trans (by simp only [afterAppend]; rw [h1]),
      hsf.lead.trans (by simp only [afterAppend]; rw [h1]), fun _ => hw, fun x hx => ?_⟩
    rw [b6, e1] at hx
    rcases List.mem_append.1 hx with hx | hx
    · exact Or.inl hx
    · refine Or.inr (Or.inl ?_)
      rcases b7 x hx with h | h
      · rw [h]; decide
      · rw [h.typ]; decide

/-- the frame of a MsgProp of term 0 (model-level form) -/
theorem prop_frame' {r : Raft} (hwf : r.log.WF) (hu : Uncompacted r.log) (fuel : Nat) (m : Message)
    (ht : m.typ = .prop) (h0 : m.term = 0) (hprog : r.state = .leader → ProgWF r) :
    Spec (Raft.step (fuel + 1) m) r (PropQ r m) := by
  refine step_prop_local fuel m r _ ht h0 (fun hL => stepLeader_prop_frame fuel m r ht hwf hu (hprog hL))
    (fun _ => ?_) (fun _ => ?_)
  · refine (stepCandidate_prop_spec fuel m r ht).mono ?_
    rintro _ _ ⟨_, rfl⟩
    exact ⟨rfl, rfl, hprog, fun x hx => Or.inl hx⟩
  · refine (stepFollower_prop_spec fuel m r ht).mono ?_
    intro e s' hsp
    split at hsp
    · obtain ⟨_, rfl⟩ := hsp
      exact ⟨rfl, rfl, hprog, fun x hx => Or.inl hx⟩
    · obtain ⟨_, _, rfl⟩ := hsp
      refine ⟨rfl, rfl, fun hl => (hprog hl).congr rfl (Nat.le_refl _), fun x hx => ?_⟩
      rcases List.mem_append.1 hx with hx | hx
      · exact Or.inl hx
      · simp only [List.mem_singleton] at hx
        subst hx
        exact Or.inr (Or.inr rfl)

/-- **frame of a MsgProp of term 0** in a state of the simulation invariant: role and `lead` are kept, a leader's
progress table stays well-formed, the only MsgProp queued carries the entries of `m` -/
theorem prop_frame {val : Val} {voters : List Id} {n : Nat} {r : Raft} {nd : Spec.Node} {msgs : List Spec.Msg}
    (hinv : RaftInv val voters n r nd msgs) (fuel : Nat) (m : Message) (ht : m.typ = .prop) (h0 : m.term = 0)
    (_hshape : PropShape m) (_hlead : r.state = .follower → r.lead ≠ n) (hprog : r.state = .leader → ProgWF r) :
    Spec (Raft.step (fuel + 1) m) r (fun _ r' => r'.state = r.state ∧ r'.lead = r.lead ∧
      (r'.state = .leader → ProgWF r') ∧ ∀ x ∈ r'.msgs, x ∈ r.msgs ∨ x.typ ≠ .prop ∨ x.entries = m.entries) :=
  prop_frame' hinv.wf hinv.unc fuel m ht h0 hprog

end RaftVerif.NoPanicP
