import RaftVerif.Model.Raft
import RaftVerif.Proofs.FlowTracker
/-!
# Proofs/FlowMonad — "run" equations for the state monad `M = StateT Raft (Except String)` and for
the small building blocks of raft.go (`getPr`, `setPr`, `send`, `liftP`).  Core Lean only.
-/
namespace RaftVerif

@[simp] theorem P_pure_eq {ε α : Type} (a : α) : (pure a : Except ε α) = .ok a := rfl
@[simp] theorem P_ok_bind {ε α β : Type} (a : α) (f : α → Except ε β) :
    ((Except.ok a : Except ε α) >>= f) = f a := rfl
@[simp] theorem P_error_bind {ε α β : Type} (e : ε) (f : α → Except ε β) :
    ((Except.error e : Except ε α) >>= f) = .error e := rfl
@[simp] theorem P_throw_eq {α : Type} (e : String) : (throw e : Except String α) = .error e := rfl

@[simp] theorem M_run_throw {α : Type} (e : String) (r : Raft) : (throw e : M α).run r = .error e := rfl

theorem M_run_ite {α : Type} (c : Prop) [Decidable c] (x y : M α) (r : Raft) :
    (if c then x else y).run r = if c then x.run r else y.run r := by
  split <;> rfl

@[simp] theorem liftP_run_ok {α : Type} (a : α) (r : Raft) : (liftP (.ok a) : M α).run r = .ok (a, r) := rfl
@[simp] theorem liftP_run_error {α : Type} (e : String) (r : Raft) :
    (liftP (.error e) : M α).run r = .error e := rfl

theorem liftP_run {α : Type} (x : P α) (r : Raft) :
    (liftP x).run r = match x with | .ok a => .ok (a, r) | .error e => .error e := by
  cases x <;> rfl

/-- a `for` loop over a list preserves any reflexive-transitive relation between the state before
and after that each iteration preserves -/
theorem forIn_run_rel {α : Type} (R : Raft → Raft → Prop) (hrefl : ∀ r, R r r)
    (htrans : ∀ r1 r2 r3, R r1 r2 → R r2 r3 → R r1 r3)
    (f : α → PUnit → M (ForInStep PUnit))
    (hstep : ∀ a r s r', (f a PUnit.unit).run r = .ok (s, r') → R r r')
    (l : List α) (r r' : Raft) (u : PUnit)
    (h : (forIn l PUnit.unit f).run r = .ok (u, r')) : R r r' := by
  induction l generalizing r with
  | nil =>
    simp only [List.forIn_nil, StateT.run_pure, P_pure_eq] at h
    injection h with h; injection h with _ h; subst h
    exact hrefl r
  | cons a t ih =>
    rw [List.forIn_cons] at h
    simp only [StateT.run_bind] at h
    cases hf : (f a PUnit.unit).run r with
    | error e => rw [hf] at h; cases h
    | ok p =>
      rw [hf] at h
      obtain ⟨s, r''⟩ := p
      simp only [P_ok_bind] at h
      have h1 := hstep a r s r'' hf
      cases s with
      | done b =>
        simp only [StateT.run_pure, P_pure_eq] at h
        injection h with h; injection h with _ h; subst h
        exact h1
      | yield b =>
        exact htrans _ _ _ h1 (ih r'' h)

namespace Raft

theorem getPr_run (id : Id) (r : Raft) :
    (getPr id).run r = match r.trk.getProgress id with
      | some pr => .ok (pr, r)
      | none => .error "nil Progress dereference" := by
  unfold getPr
  simp only [StateT.run_bind, StateT.run_get, P_pure_eq, P_ok_bind]
  cases r.trk.getProgress id <;> rfl

theorem getPr_run_some (id : Id) (r : Raft) (pr : Progress) (h : r.trk.getProgress id = some pr) :
    (getPr id).run r = .ok (pr, r) := by
  rw [getPr_run, h]

theorem setPr_run (id : Id) (pr : Progress) (r : Raft) :
    (setPr id pr).run r = .ok ((), { r with trk := r.trk.setProgress id pr }) := rfl

/-- what `send` stamps on a non-vote message -/
def stamp (r : Raft) (m : Message) : Message :=
  let m := if m.from == 0 then { m with «from» := r.cfg.id } else m
  if m.typ != .prop && m.typ != .readIndex then { m with term := r.term } else m

theorem send_run_nonvote (m : Message) (r : Raft)
    (h1 : m.typ ≠ .vote) (h2 : m.typ ≠ .voteResp) (h3 : m.typ ≠ .preVote) (h4 : m.typ ≠ .preVoteResp)
    (ht : m.term = 0) :
    (send m).run r =
      if m.typ = .appResp then .ok ((), { r with msgsAfterAppend := r.msgsAfterAppend ++ [stamp r m] })
      else if m.to = r.cfg.id then .error "send: message should not be self-addressed"
      else .ok ((), { r with msgs := r.msgs ++ [stamp r m] }) := by
  unfold send
  simp only [StateT.run_bind, StateT.run_get, P_pure_eq, P_ok_bind]
  have e1 : (m.typ == MsgType.vote) = false := by simpa using h1
  have e2 : (m.typ == MsgType.voteResp) = false := by simpa using h2
  have e3 : (m.typ == MsgType.preVote) = false := by simpa using h3
  have e4 : (m.typ == MsgType.preVoteResp) = false := by simpa using h4
  by_cases hf : (m.from == 0) = true <;>
  by_cases hp : (m.typ != MsgType.prop && m.typ != MsgType.readIndex) = true <;>
  by_cases ha : m.typ = MsgType.appResp <;>
  by_cases hto : m.to = r.cfg.id <;>
  simp only [hf, hp, ha, hto, ↓reduceIte, e1, e2, e3, e4, ht, Bool.or_self, Bool.false_eq_true,
    bne_self_eq_false, stamp, Bool.or_false, pure_bind, beq_self_eq_true,
    beq_iff_eq, StateT.run_modify, P_pure_eq, StateT.run_bind, M_run_throw, P_error_bind] <;> rfl

@[simp] theorem stamp_typ (r : Raft) (m : Message) : (stamp r m).typ = m.typ := by
  unfold stamp; simp only; split <;> split <;> rfl
@[simp] theorem stamp_to (r : Raft) (m : Message) : (stamp r m).to = m.to := by
  unfold stamp; simp only; split <;> split <;> rfl
@[simp] theorem stamp_entries (r : Raft) (m : Message) : (stamp r m).entries = m.entries := by
  unfold stamp; simp only; split <;> split <;> rfl
@[simp] theorem stamp_index (r : Raft) (m : Message) : (stamp r m).index = m.index := by
  unfold stamp; simp only; split <;> split <;> rfl
@[simp] theorem stamp_snapshot (r : Raft) (m : Message) : (stamp r m).snapshot = m.snapshot := by
  unfold stamp; simp only; split <;> split <;> rfl

theorem increaseUncommittedSize_run (r : Raft) (ents : List Entry) :
    (increaseUncommittedSize ents).run r =
      if r.uncommittedSize > 0 ∧ payloadsSize ents > 0 ∧
          r.uncommittedSize + payloadsSize ents > r.cfg.maxUncommittedSize
      then .ok (false, r)
      else .ok (true, { r with uncommittedSize := r.uncommittedSize + payloadsSize ents }) := by
  unfold increaseUncommittedSize
  simp only [StateT.run_bind, StateT.run_get, P_pure_eq, P_ok_bind]
  by_cases h : r.uncommittedSize > 0 ∧ payloadsSize ents > 0 ∧
          r.uncommittedSize + payloadsSize ents > r.cfg.maxUncommittedSize
  · rw [if_pos h, if_pos (by simpa [and_assoc] using h)]; rfl
  · rw [if_neg h, if_neg (by simpa [and_assoc] using h)]; rfl

theorem reduceUncommittedSize_run (r : Raft) (s : Nat) :
    (reduceUncommittedSize s).run r =
      .ok ((), { r with uncommittedSize := if s > r.uncommittedSize then 0 else r.uncommittedSize - s }) := rfl

/-- the entries `appendEntry` writes: `es` re-stamped with the leader's term and consecutive indexes -/
def cloneEntries (r : Raft) (es : List Entry) : List Entry :=
  es.zipIdx.map fun p => { p.1 with term := r.term, index := r.log.lastIndex + 1 + p.2 }

theorem payloadsSize_zipIdx_map (f : Entry × Nat → Entry) (hf : ∀ p, (f p).data = p.1.data)
    (es : List Entry) (k : Nat) :
    payloadsSize ((es.zipIdx k).map f) = payloadsSize es := by
  induction es generalizing k with
  | nil => rfl
  | cons a t ih =>
    simp only [List.zipIdx_cons, List.map_cons, payloadsSize_cons, ih]
    congr 1
    simp [Entry.dataLen, hf]

theorem payloadsSize_cloneEntries (r : Raft) (es : List Entry) :
    payloadsSize (cloneEntries r es) = payloadsSize es := by
  unfold cloneEntries
  exact payloadsSize_zipIdx_map
    (fun p => { p.1 with term := r.term, index := r.log.lastIndex + 1 + p.2 }) (fun _ => rfl) es 0

theorem setLog_run (l : RaftLog) (r : Raft) : (setLog l).run r = .ok ((), { r with log := l }) := rfl

theorem appendEntry_run (r : Raft) (es : List Entry) :
    (appendEntry es).run r =
      if r.uncommittedSize > 0 ∧ payloadsSize es > 0 ∧
          r.uncommittedSize + payloadsSize es > r.cfg.maxUncommittedSize
      then .ok (false, r)
      else match r.log.append (cloneEntries r es) with
        | .error e => .error e
        | .ok (l, li) => .ok (true, { r with
            uncommittedSize := r.uncommittedSize + payloadsSize es, log := l,
            msgsAfterAppend := r.msgsAfterAppend ++
              [{ to := r.cfg.id, «from» := r.cfg.id, typ := .appResp, index := li, term := r.term }] }) := by
  unfold appendEntry
  simp only [StateT.run_bind, StateT.run_get, P_pure_eq, P_ok_bind]
  have hc : (List.map (fun x : Entry × Nat =>
      ({ term := r.term, index := r.log.lastIndex + 1 + x.snd, typ := x.fst.typ, data := x.fst.data } : Entry))
      es.zipIdx) = cloneEntries r es := rfl
  rw [hc, increaseUncommittedSize_run, payloadsSize_cloneEntries]
  by_cases h : r.uncommittedSize > 0 ∧ payloadsSize es > 0 ∧
          r.uncommittedSize + payloadsSize es > r.cfg.maxUncommittedSize
  · simp only [h, and_self, ↓reduceIte, P_ok_bind, Bool.not_false, StateT.run_pure, P_pure_eq]
  · simp only [h, ↓reduceIte, P_ok_bind, Bool.not_true, Bool.false_eq_true, StateT.run_bind,
      StateT.run_get, P_pure_eq, liftP_run]
    cases r.log.append (cloneEntries r es) with
    | error e => rfl
    | ok p =>
      simp only [P_ok_bind, setLog_run]
      rw [send_run_nonvote _ _ (by simp) (by simp) (by simp) (by simp) rfl]
      simp [stamp]

end Raft
end RaftVerif
