import RaftVerif.Proofs.SimBoth
import RaftVerif.Proofs.SimClusterAux
import RaftVerif.Proofs.SimVoteLog
import RaftVerif.Proofs.SimTermLog
import RaftVerif.Proofs.SimAppLog
import RaftVerif.Proofs.SimAppRespLog
import RaftVerif.Proofs.SimVoteRespLog
import RaftVerif.Proofs.SimHbLog
import RaftVerif.Proofs.SimCampaignLog
import RaftVerif.Proofs.SimPropLog
import RaftVerif.Proofs.SimReadyAll
/-!
# Proofs/SimAll — `Settled` across a delivered message of any term; the final relation `RS`
-/
namespace RaftVerif.Sim
open Refine

/-- a delivered message of the node's own term keeps `Settled` -/
theorem settled_same {val : Val} {voters : List Id} {n : Nat} {s : Spec.State} {r r' : Raft} {m : Message}
    {e : Option StepErr} {fuel : Nat} (hinv : RaftInv val voters n r (s.nodes n) s.msgs) (hs : Settled r)
    (hty : Deliverable m.typ) (hterm : m.term = r.term) (hctx : m.typ = .heartbeatResp → m.context = none)
    (h : (Raft.step (fuel + 1) m).run r = .ok (e, r')) : Settled r' := by
  rcases hty with ht | ht | ht | ht | ht | ht
  · exact settled_vote_same hinv hs ht hterm h
  · exact settled_voteResp_same hinv hs ht hterm h
  · exact settled_app_same hs ht hterm h
  · exact settled_appResp_same hinv hs ht hterm h
  · exact settled_hb_same hinv hs ht hterm h
  · exact settled_hbResp_same hinv hs ht hterm (hctx ht) h

/-- a delivered message of any term keeps `Settled` -/
theorem settled_deliver {val : Val} {voters : List Id} {n : Nat} {s : Spec.State} {r r' : Raft} {m : Message}
    {e : Option StepErr} {fuel : Nat} (hinv : RaftInv val voters n r (s.nodes n) s.msgs) (hs : Settled r)
    (hty : Deliverable m.typ) (h0 : m.term ≠ 0) (hctx : m.typ = .heartbeatResp → m.context = none)
    (h : (Raft.step (fuel + 1) m).run r = .ok (e, r')) : Settled r' := by
  rcases Nat.lt_trichotomy m.term r.term with hlt | heq | hgt
  · rcases lower_term_cases h0 hlt hty h with rfl | ⟨_, _, rfl⟩
    · exact hs
    · exact hs
  · exact settled_same hinv hs hty heq hctx h
  · rcases raise_term_run hinv hgt hty h with rfl | ⟨r1, hbf, h1⟩
    · exact hs
    obtain ⟨s1, _, _, _, hinv1, ht1, _⟩ := sim_raise_term' hinv hgt hbf
    exact settled_same hinv1 (settled_becomeFollower hs hbf) hty ht1.symm hctx h1

/-- only promises are queued behind the storage write -/
def MaaProm (r : Raft) : Prop := ∀ m ∈ r.msgsAfterAppend, isPromise m.typ = true

/-- **the final simulation relation**: `RA`, every node's log is `Settled`, and `msgsAfterAppend` holds only promises -/
structure RS (val : Val) (voters : List Id) (c : Cluster) (s : Spec.State) : Prop where
  ra : RA val voters c s
  settled : ∀ n rn, c.nodes n = some rn → Settled rn.raft
  prom : ∀ n rn, c.nodes n = some rn → MaaProm rn.raft

/-- lifting for `RS` -/
theorem RS.lift {val : Val} {voters : List Id} {c : Cluster} {s : Spec.State} (hR : RS val voters c s)
    (n : Nat) (rn' : RawNode) (out : List Message)
    (hsim : ∃ as s', RunL (cfgOf voters) s as s' ∧ (∀ a ∈ as, a.actor = n) ∧
      NodeInv val voters n rn' (s'.nodes n) s'.msgs ∧ ∀ m ∈ out, NetOK val s'.msgs m)
    (haux : AuxInv n rn'.raft) (hout : ∀ m ∈ out, NetFrom m) (hset : Settled rn'.raft)
    (hprom : MaaProm rn'.raft) :
    ∃ s', Steps (cfgOf voters) s s' ∧ RS val voters { (c.setNode n rn') with net := c.net ++ out } s' := by
  obtain ⟨s', h1, h2⟩ := hR.ra.lift n rn' out hsim haux hout
  refine ⟨s', h1, h2, ?_, ?_⟩
  · intro k rk hk
    by_cases hkn : k = n
    · subst hkn
      have : rk = rn' := by simpa [Cluster.setNode] using hk.symm
      subst this
      exact hset
    · exact hR.settled k rk (by simpa [Cluster.setNode, hkn] using hk)
  · intro k rk hk
    by_cases hkn : k = n
    · subst hkn
      have : rk = rn' := by simpa [Cluster.setNode] using hk.symm
      subst this
      exact hprom
    · exact hR.prom k rk (by simpa [Cluster.setNode, hkn] using hk)

theorem RS.lift0 {val : Val} {voters : List Id} {c : Cluster} {s : Spec.State} (hR : RS val voters c s)
    (n : Nat) (rn' : RawNode)
    (hsim : ∃ as s', RunL (cfgOf voters) s as s' ∧ (∀ a ∈ as, a.actor = n) ∧
      NodeInv val voters n rn' (s'.nodes n) s'.msgs)
    (haux : AuxInv n rn'.raft) (hset : Settled rn'.raft) (hprom : MaaProm rn'.raft) :
    ∃ s', Steps (cfgOf voters) s s' ∧ RS val voters (c.setNode n rn') s' := by
  obtain ⟨as, s1, a1, a2, a3⟩ := hsim
  obtain ⟨s', h1, h2⟩ := hR.lift n rn' [] ⟨as, s1, a1, a2, a3, by simp⟩ haux (by simp) hset hprom
  refine ⟨s', h1, ?_⟩
  have e : ({ (c.setNode n rn') with net := c.net ++ [] } : Cluster) = c.setNode n rn' := by
    simp [Cluster.setNode]
  rw [e] at h2
  exact h2

end RaftVerif.Sim
