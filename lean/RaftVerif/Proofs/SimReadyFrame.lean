import RaftVerif.Proofs.SimBoth
import RaftVerif.Proofs.SimReady
/-!
# Proofs/SimReadyFrame — the step of a node's own promise leaves the storage side of the log alone

`LogGrow l l'`: storage, the pending snapshot and the cursors of `unstable` are untouched; entries may have been
appended at the end of `unstable` (`becomeLeader`'s empty entry).  Proved for a MsgVoteResp / MsgAppResp whose term is
not ahead of the node (`SelfOK`), together with `r'.term = r.term`.
-/
namespace RaftVerif.Sim
open Refine Raft
set_option linter.unusedSimpArgs false

/-- storage and the cursors of `unstable` are untouched; `unstable.entries` may have grown at the end -/
structure LogGrow (l l' : RaftLog) : Prop where
  storage : l'.storage = l.storage
  snap : l'.unstable.snapshot = l.unstable.snapshot
  offset : l'.unstable.offset = l.unstable.offset
  oip : l'.unstable.offsetInProgress = l.unstable.offsetInProgress
  ents : ∃ extra, l'.unstable.entries = l.unstable.entries ++ extra

theorem LogGrow.refl (l : RaftLog) : LogGrow l l := ⟨rfl, rfl, rfl, rfl, [], by simp⟩

theorem LogGrow.of_eq {l l' : RaftLog} (h : l' = l) : LogGrow l l' := h ▸ LogGrow.refl l

theorem LogGrow.trans {a b c : RaftLog} (h1 : LogGrow a b) (h2 : LogGrow b c) : LogGrow a c := by
  obtain ⟨x1, hx1⟩ := h1.ents
  obtain ⟨x2, hx2⟩ := h2.ents
  exact ⟨h2.storage.trans h1.storage, h2.snap.trans h1.snap, h2.offset.trans h1.offset, h2.oip.trans h1.oip,
    x1 ++ x2, by rw [hx2, hx1, List.append_assoc]⟩

/-- `raftLog.append` of entries that continue the log appends them to `unstable` -/
theorem append_at_end_grow {l : RaftLog} (hwf : l.WF) {ents : List Entry} (hc : Contig (l.lastIndex + 1) ents)
    {p : RaftLog × Nat} (hp : l.append ents = .ok p) : LogGrow l p.1 := by
  unfold RaftLog.append at hp
  cases ents with
  | nil =>
    simp only [pure, Except.pure, Except.ok.injEq] at hp
    subst hp
    exact LogGrow.refl l
  | cons e0 rest =>
    simp only at hp
    split at hp
    · cases hp
    · obtain ⟨u, hu, hp⟩ := bind_eq_ok.1 hp
      simp only [pure, Except.pure, Except.ok.injEq] at hp
      subst hp
      have h0 : e0.index = l.lastIndex + 1 := hc.head_index
      have hnext : l.lastIndex + 1 = l.unstable.offset + l.unstable.entries.length := by
        rw [RaftLog.lastIndex_abs hwf, RaftLog.abs_last_succ hwf]; rfl
      unfold Unstable.truncateAndAppend at hu
      simp only [h0, hnext, beq_self_eq_true, ↓reduceIte, pure, Except.pure, Except.ok.injEq] at hu
      subst hu
      exact ⟨rfl, rfl, rfl, rfl, _, rfl⟩

theorem appendEntry_grow (es : List Entry) (s : Raft) (hwf : s.log.WF) :
    Spec (appendEntry es) s (fun _ s' => LogGrow s.log s'.log ∧ s'.term = s.term) := by
  refine (appendEntry_spec_st es s).mono ?_
  rintro ok s' (⟨rfl, rfl⟩ | ⟨rfl, p, hp, rfl⟩)
  · exact ⟨LogGrow.refl _, rfl⟩
  · exact ⟨append_at_end_grow hwf (cloned_contig s es) hp, rfl⟩

theorem becomeLeader_grow (s : Raft) (hwf : s.log.WF) :
    Spec becomeLeader s (fun _ s' => LogGrow s.log s'.log ∧ s'.term = s.term) := by
  unfold becomeLeader
  simp only [wp]
  refine ⟨fun _ => trivial, fun _ => ?_⟩
  refine (reset_spec_st s.term s).mono ?_
  intro _ mid ⟨h1, _, _, _, h3, _⟩
  intro pr _
  refine (appendEntry_grow _ _ (by rw [show _ = mid.log from rfl, h3]; exact hwf)).mono ?_
  rintro ok s' ⟨hg, ht⟩
  have hg' : LogGrow s.log s'.log := by
    have : LogGrow mid.log s'.log := hg
    rw [h3] at this; exact this
  have ht' : s'.term = s.term := ht.trans h1
  cases ok
  · exact ⟨fun _ => trivial, fun h => absurd h (by simp)⟩
  · exact ⟨fun h => absurd h (by simp), fun _ => ⟨hg', ht'⟩⟩

/-- a MsgVoteResp of the node's own term -/
theorem grow_voteResp_same {val : Val} {voters : List Id} {n : Nat} {s : Spec.State} {r r' : Raft} {m : Message}
    {e : Option StepErr} {fuel : Nat} (hinv : RaftInv val voters n r (s.nodes n) s.msgs)
    (ht : m.typ = .voteResp) (hterm : m.term = r.term)
    (h : (Raft.step (fuel + 1) m).run r = .ok (e, r')) : LogGrow r.log r'.log ∧ r'.term = r.term := by
  by_cases hs : r.state = .candidate
  · rw [step_same_term_dispatch fuel m r (Or.inr hterm) (by rw [ht]; decide)] at h
    have hd : dispatch fuel m r = Raft.stepCandidate fuel m := by unfold dispatch; rw [hs]
    rw [hd] at h
    rcases (vr_stepCandidate_cases fuel m r hs ht).elim h with rfl | hlost | ⟨_, _, s1, h1, h2⟩
    · exact ⟨LogGrow.refl _, rfl⟩
    · obtain ⟨d, rest, _, rfl⟩ := vr_becomeFollower_run_exact hlost
      exact ⟨LogGrow.refl _, rfl⟩
    · obtain ⟨hg, ht1⟩ := (becomeLeader_grow (polled r m) hinv.wf).elim h1
      have hsf := (bcastAppend_sf s1).elim h2
      exact ⟨by rw [hsf.log]; exact hg, hsf.term.trans ht1⟩
  · have := vr_ignored fuel m r r' e hs ht hterm h
    subst this
    exact ⟨LogGrow.refl _, rfl⟩

/-- a MsgAppResp of the node's own term -/
theorem grow_appResp_same {val : Val} {voters : List Id} {n : Nat} {s : Spec.State} {r r' : Raft} {m : Message}
    {e : Option StepErr} {fuel : Nat} (hinv : RaftInv val voters n r (s.nodes n) s.msgs)
    (ht : m.typ = .appResp) (hterm : m.term = r.term)
    (h : (Raft.step (fuel + 1) m).run r = .ok (e, r')) : LogGrow r.log r'.log ∧ r'.term = r.term := by
  by_cases hl : r.state = .leader
  · rw [Live.step_leader_dispatch fuel m r hl (Or.inr hterm) (Or.inr (Or.inr (Or.inl ht)))] at h
    cases hg : r.trk.getProgress m.from with
    | none =>
      rw [Live.stepLeader_noProgress_run fuel m r (Or.inr (Or.inr (Or.inr (Or.inl ht)))) hg] at h
      injection h with h; injection h with _ h; subst h
      exact ⟨LogGrow.refl _, rfl⟩
    | some pr =>
      obtain ⟨X, a, _, ha, hs⟩ := appResp_leader_shape val hinv.wf hinv.unc hinv.st.pri ht hg h
      have sf := hs.sf
      rcases ha with rfl | ⟨idx, rfl⟩
      · exact ⟨LogGrow.of_eq sf.log, sf.term⟩
      · refine ⟨?_, sf.term⟩
        rw [sf.log]
        exact ⟨rfl, rfl, rfl, rfl, [], by simp⟩
  · rw [step_appResp_nonleader_run fuel m r ht hterm hl] at h
    injection h with h; injection h with _ h; subst h
    exact ⟨LogGrow.refl _, rfl⟩

/-- **a node's own promise** whose term is not ahead of the node: the storage side of the log is left alone and the
term is kept -/
theorem grow_self {val : Val} {voters : List Id} {n : Nat} {s : Spec.State} {r r' : Raft} {m : Message}
    {e : Option StepErr} {fuel : Nat} (hinv : RaftInv val voters n r (s.nodes n) s.msgs)
    (hk : m.typ = .voteResp ∨ m.typ = .appResp) (h0 : m.term ≠ 0) (hle : m.term ≤ r.term)
    (h : (Raft.step (fuel + 1) m).run r = .ok (e, r')) : LogGrow r.log r'.log ∧ r'.term = r.term := by
  rcases Nat.lt_or_ge m.term r.term with hlt | hge
  · have hty : Deliverable m.typ := by
      unfold Deliverable
      rcases hk with hk | hk <;> simp [hk]
    have := sim_lower_term h0 hlt hty (by rcases hk with hk | hk <;> simp [hk]) h
    subst this
    exact ⟨LogGrow.refl _, rfl⟩
  · have hterm : m.term = r.term := Nat.le_antisymm hle hge
    rcases hk with hk | hk
    · exact grow_voteResp_same hinv hk hterm h
    · exact grow_appResp_same hinv hk hterm h

/-! ### the auxiliary invariant across steps that keep state, tracker, term and the end of the log -/

theorem SelfOK.transfer {n : Nat} {r r' : Raft} {m : Message} (h : SelfOK n r m) (hstate : r'.state = r.state)
    (hterm : r'.term = r.term) (hlast : r'.log.lastIndex = r.log.lastIndex) : SelfOK n r' m := by
  unfold SelfOK at h ⊢
  rw [hstate, hterm, hlast]; exact h

theorem AuxInv.transfer {n : Nat} {r r' : Raft} (h : AuxInv n r) (hstate : r'.state = r.state)
    (htrk : r'.trk = r.trk) (hterm : r'.term = r.term) (hlast : r'.log.lastIndex = r.log.lastIndex)
    (hmsgs : ∀ m ∈ r'.msgs, m ∈ r.msgs) (hmaa : ∀ m ∈ r'.msgsAfterAppend, m ∈ r.msgsAfterAppend) :
    AuxInv n r' where
  matchLe := by rw [hstate, htrk, hlast]; exact h.matchLe
  self := fun m hm => (h.self m (hmaa m hm)).transfer hstate hterm hlast
  outFrom := fun m hm => h.outFrom m (hmsgs m hm)

/-- two model states described by the same Spec node have the same last index -/
theorem lastIndex_of_inv {val : Val} {voters : List Id} {n : Nat} {r r' : Raft} {nd : Spec.Node}
    {msgs msgs' : List Spec.Msg} (h1 : RaftInv val voters n r nd msgs) (h2 : RaftInv val voters n r' nd msgs') :
    r'.log.lastIndex = r.log.lastIndex := by
  have e1 := absLogL_length_eq val h1.wf h1.unc
  have e2 := absLogL_length_eq val h2.wf h2.unc
  have hl : absLog val r' = absLog val r := h2.abs.log.symm.trans h1.abs.log
  unfold absLog at hl
  rw [← e1, ← e2, hl]

/-! ### the node's own promises, with the auxiliary invariant -/

/-- **the self-addressed promises** of a `Ready`, stepped one after the other by `Advance` (both invariants) -/
theorem self_steps2 {val : Val} {voters : List Id} {n : Nat} (dur0 : Spec.Ver) (ms : List Message)
    (hms : ∀ m ∈ ms, m.to = n ∧ PromOK n dur0 m)
    (s : Spec.State) (r r' : Raft) (hinv : RaftInv val voters n r (s.nodes n) s.msgs) (haux : AuxInv n r)
    (hok : ∀ m ∈ ms, SelfOK n r m)
    (hreach : Spec.Reachable (cfgOf voters) s) (hdur : Spec.VerLe dur0 (s.nodes n).dur)
    (hrun : Next.runSteps ms r = .ok r') :
    ∃ as s', RunL (cfgOf voters) s as s' ∧ (∀ a ∈ as, a.actor = n) ∧
      RaftInv val voters n r' (s'.nodes n) s'.msgs ∧ AuxInv n r' ∧ LogGrow r.log r'.log ∧ r'.term = r.term := by
  induction ms generalizing s r with
  | nil =>
    simp only [Next.runSteps, Except.ok.injEq] at hrun
    subst hrun
    exact ⟨[], s, .nil s, by simp, hinv, haux, LogGrow.refl _, rfl⟩
  | cons m ms ih =>
    simp only [Next.runSteps] at hrun
    obtain ⟨⟨e, r1⟩, hstep, hrest⟩ := bind_eq_ok.1 hrun
    obtain ⟨hto, hprom⟩ := hms m List.mem_cons_self
    have hself := hok m List.mem_cons_self
    obtain ⟨ht, _, hfrom, hle, _⟩ := hself hto
    have hin : InOK val n (s.nodes n) s.msgs m := inOK_of_prom ht hto hprom hdur
    obtain ⟨⟨as1, s1, hrun1, hact1, hinv1⟩, haux1, hfr1⟩ :=
      selfStepOK2 val voters n s r r1 m e hinv haux hreach ht hfrom hto hin hself hstep
    obtain ⟨hg1, ht1⟩ := grow_self (fuel := 2) hinv ht hprom.2.1 hle hstep
    obtain ⟨as2, s2, hrun2, hact2, hinv2, haux2, hg2, ht2⟩ :=
      ih (fun x hx => hms x (List.mem_cons_of_mem _ hx)) s1 r1 hinv1 haux1
        (fun x hx => (hok x (List.mem_cons_of_mem _ hx)).frame hfr1)
        (hrun1.reachable hreach) (hdur.trans (hrun1.dur_le hreach n)) hrest
    refine ⟨as1 ++ as2, s2, hrun1.append hrun2, ?_, hinv2, haux2, hg1.trans hg2, ht2.trans ht1⟩
    intro a ha
    rcases List.mem_append.1 ha with h | h
    · exact hact1 a h
    · exact hact2 a h

theorem runSteps_routed (ms : List Message) (r r' : Raft) (h : Next.runSteps ms r = .ok r') : Routed r r' := by
  induction ms generalizing r with
  | nil =>
    simp only [Next.runSteps, Except.ok.injEq] at h
    subst h; exact Routed.refl _
  | cons m ms ih =>
    simp only [Next.runSteps] at h
    obtain ⟨⟨e, r1⟩, hstep, hrest⟩ := bind_eq_ok.1 h
    exact ((Raft.step_routed' _ m r).elim hstep).trans (ih r1 hrest)

theorem AuxInv.same {n : Nat} {r r' : Raft} (h : AuxInv n r) (hs : Same r r')
    (hlast : r'.log.lastIndex = r.log.lastIndex) : AuxInv n r' :=
  h.transfer hs.state hs.trk hs.term hlast (by rw [hs.msgs]; exact fun _ h => h) (by rw [hs.maa]; exact fun _ h => h)

/-- the model invariants of a node between two rounds that are not part of `NodeInv`: the auxiliary invariant,
nothing pending in `unstable`, and only promises in the promise queue -/
structure RoundAux (n : Nat) (r : Raft) : Prop where
  aux : AuxInv n r
  settled : LogSettled r.log
  prom : ∀ m ∈ r.msgsAfterAppend, isPromise m.typ = true

end RaftVerif.Sim
