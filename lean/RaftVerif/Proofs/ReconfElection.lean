import RaftVerif.Proofs.ReconfBasic
/-!
# Stage 1: the election invariant `Inv1`

Votes recorded in a version are consistent with its `(term, vote)`; the versions of a node are
ordered (`dur` oldest, then `pending` in FIFO order, then `vol`); released votes are durable;
an elected `(T, n)` has a quorum of durable votes and `n` can never again be candidate in `T`.
-/
namespace RaftVerif.SpecR

theorem nodup_map_fst_unique {α β : Type} (l : List (α × β)) (h : (l.map (·.1)).Nodup)
    (a : α) (b b' : β) (h1 : (a, b) ∈ l) (h2 : (a, b') ∈ l) : b = b' := by
  induction l with
  | nil => simp at h1
  | cons x xs ih =>
    simp only [List.map_cons, List.nodup_cons, List.mem_map, not_exists, not_and] at h
    simp only [List.mem_cons] at h1 h2
    rcases h1 with h1 | h1 <;> rcases h2 with h2 | h2
    · have := h1.trans h2.symm
      simp only [Prod.mk.injEq, true_and] at this
      exact this
    · subst h1; exact absurd rfl (h.1 (a, b') h2)
    · subst h2; exact absurd rfl (h.1 (a, b) h1)
    · exact ih h.2 h1 h2

/-- facts about one version of a node's persistent state -/
structure VerOK (v : Ver) : Prop where
  votes_le : ∀ t c, (t, c) ∈ v.votes → t ≤ v.term
  votes_cur : ∀ c, (v.term, c) ∈ v.votes → v.vote = c
  votes_uniq : ∀ t c c', (t, c) ∈ v.votes → (t, c') ∈ v.votes → c = c'
  votes_nz : ∀ t c, (t, c) ∈ v.votes → c ≠ 0
  acks_le : ∀ t k, (t, k) ∈ v.acks → t ≤ v.term

/-- `a` is an older version than `b` -/
structure VerLe (a b : Ver) : Prop where
  term_le : a.term ≤ b.term
  votes_sub : ∀ p, p ∈ a.votes → p ∈ b.votes
  acks_sub : ∀ p, p ∈ a.acks → p ∈ b.acks

theorem VerLe.refl (a : Ver) : VerLe a a := ⟨Nat.le_refl _, fun _ h => h, fun _ h => h⟩

theorem VerLe.trans {a b c : Ver} (h1 : VerLe a b) (h2 : VerLe b c) : VerLe a c :=
  ⟨Nat.le_trans h1.term_le h2.term_le, fun p h => h2.votes_sub p (h1.votes_sub p h),
    fun p h => h2.acks_sub p (h1.acks_sub p h)⟩

/-- the versions of a node in chronological order -/
def chainOf (nd : Node) : List Ver := nd.dur :: nd.pending ++ [nd.vol]

theorem chain_iff (nd : Node) : (chainOf nd).Pairwise VerLe ↔
    (∀ p ∈ nd.pending, VerLe nd.dur p) ∧ nd.pending.Pairwise VerLe ∧ VerLe nd.dur nd.vol ∧
      ∀ p ∈ nd.pending, VerLe p nd.vol := by
  simp only [chainOf, List.pairwise_append, List.pairwise_cons, List.mem_cons,
    List.Pairwise.nil, List.not_mem_nil, false_imp_iff, implies_true, and_true, true_and,
    forall_eq_or_imp]
  constructor
  · rintro ⟨⟨h1, h2⟩, h3, h4⟩; exact ⟨h1, h2, h3, h4⟩
  · rintro ⟨h1, h2, h3, h4⟩; exact ⟨⟨h1, h2⟩, h3, h4⟩

structure NodeOK (nd : Node) : Prop where
  vers : ∀ v ∈ versions nd, VerOK v
  chain : (chainOf nd).Pairwise VerLe
  leader_dur : nd.role = .leader → nd.dur.term = nd.vol.term
  active_term : nd.role ≠ .follower → 1 ≤ nd.vol.term

theorem NodeOK.dur_le_vol {nd : Node} (h : NodeOK nd) : VerLe nd.dur nd.vol :=
  ((chain_iff nd).mp h.chain).2.2.1

theorem NodeOK.le_vol {nd : Node} (h : NodeOK nd) (v : Ver) (hv : v ∈ versions nd) : VerLe v nd.vol := by
  simp only [versions, List.mem_cons] at hv
  rcases hv with rfl | rfl | hv
  · exact VerLe.refl _
  · exact h.dur_le_vol
  · exact ((chain_iff nd).mp h.chain).2.2.2 v hv

theorem NodeOK.dur_le {nd : Node} (h : NodeOK nd) (v : Ver) (hv : v ∈ versions nd) : VerLe nd.dur v := by
  simp only [versions, List.mem_cons] at hv
  rcases hv with rfl | rfl | hv
  · exact h.dur_le_vol
  · exact VerLe.refl _
  · exact ((chain_iff nd).mp h.chain).1 v hv

/-- replacing the volatile version by a newer one -/
theorem NodeOK.setVol {nd : Node} (h : NodeOK nd) (v' : Ver) (r : Role) (hv : VerOK v')
    (hle : VerLe nd.vol v') (hr1 : r = .leader → nd.dur.term = v'.term)
    (hr2 : r ≠ .follower → 1 ≤ v'.term) : NodeOK { nd with vol := v', role := r } := by
  have hc := (chain_iff nd).mp h.chain
  constructor
  · intro v hv'
    simp only [versions, List.mem_cons] at hv'
    rcases hv' with rfl | hv'
    · exact hv
    · exact h.vers v (by simp only [versions, List.mem_cons]; exact Or.inr hv')
  · rw [chain_iff]
    exact ⟨hc.1, hc.2.1, hc.2.2.1.trans hle, fun p hp => (hc.2.2.2 p hp).trans hle⟩
  · exact hr1
  · exact hr2


/-- a version that differs only in log / commit / acknowledgements (of the current term) -/
theorem VerOK.data {v v' : Ver} (h : VerOK v) (ht : v'.term = v.term) (hvote : v'.vote = v.vote)
    (hvotes : v'.votes = v.votes)
    (hacks : ∀ t k, (t, k) ∈ v'.acks → (t, k) ∈ v.acks ∨ t = v.term) : VerOK v' := by
  constructor
  · intro t c hc; rw [hvotes] at hc; rw [ht]; exact h.votes_le t c hc
  · intro c hc; rw [hvotes, ht] at hc; rw [hvote]; exact h.votes_cur c hc
  · intro t c c' hc hc'; rw [hvotes] at hc hc'; exact h.votes_uniq t c c' hc hc'
  · intro t c hc; rw [hvotes] at hc; exact h.votes_nz t c hc
  · intro t k hk
    rw [ht]
    rcases hacks t k hk with h' | h'
    · exact h.acks_le t k h'
    · omega

theorem VerLe.data {v v' : Ver} (ht : v'.term = v.term) (hvotes : v'.votes = v.votes)
    (hacks : ∀ p, p ∈ v.acks → p ∈ v'.acks) : VerLe v v' :=
  ⟨by omega, fun p hp => by rw [hvotes]; exact hp, hacks⟩

/-- actions that touch `(term, vote, votes)` of the volatile version -/
def Action.isVoteStep : Action → Bool
  | .campaign _ | .updateTerm _ _ | .grant .. | .crash _ _ => true
  | _ => false

/-- every other action leaves `(term, vote, votes)` alone -/
theorem volAfter_votes (s : State) (a : Action) (h : a.isVoteStep = false) :
    (volAfter s a).term = (s.nodes a.actor).vol.term ∧ (volAfter s a).vote = (s.nodes a.actor).vol.vote ∧
      (volAfter s a).votes = (s.nodes a.actor).vol.votes := by
  cases a <;> simp only [Action.isVoteStep, Bool.true_eq_false] at h <;>
    simp only [volAfter, Action.actor, and_self]
  case handleApp n t prev pt ents c => split <;> simp
  case handleSnap n t pre => (repeat' split) <;> simp

def Action.isCrash : Action → Bool
  | .crash _ _ => true
  | _ => false

theorem volAfter_acks_sub (s : State) (a : Action) (h : a.isCrash = false) :
    ∀ p, p ∈ (s.nodes a.actor).vol.acks → p ∈ (volAfter s a).acks := by
  intro p hp
  cases a <;> simp only [Action.isCrash, Bool.true_eq_false] at h <;>
    simp only [volAfter, Action.actor] at hp ⊢ <;> try exact hp
  case leaderAppend n val => exact List.mem_cons_of_mem _ hp
  case leaderAppendCfg n val c => exact List.mem_cons_of_mem _ hp
  case handleApp n t prev pt ents c => split <;> simp [hp]
  case handleSnap n t pre => (repeat' split) <;> simp [hp]
  case ackCommit n t => exact List.mem_cons_of_mem _ hp

theorem volAfter_acks_new (c0 : Conf) (s : State) (a : Action) (he : enabled c0 s a)
    (h : a.isCrash = false) :
    ∀ t k, (t, k) ∈ (volAfter s a).acks →
      (t, k) ∈ (s.nodes a.actor).vol.acks ∨ t = (s.nodes a.actor).vol.term := by
  intro t k hp
  cases a <;> simp only [Action.isCrash, Bool.true_eq_false] at h <;>
    simp only [volAfter, Action.actor, enabled] at hp he ⊢ <;> try exact Or.inl hp
  case leaderAppend n val =>
    simp only [List.mem_cons, Prod.mk.injEq] at hp
    rcases hp with hp | hp
    · exact Or.inr hp.1
    · exact Or.inl hp
  case leaderAppendCfg n val c =>
    simp only [List.mem_cons, Prod.mk.injEq] at hp
    rcases hp with hp | hp
    · exact Or.inr hp.1
    · exact Or.inl hp
  case handleApp n t' prev pt ents c =>
    split at hp
    · exact Or.inl hp
    · simp only [List.mem_cons, Prod.mk.injEq] at hp
      rcases hp with hp | hp
      · exact Or.inr (hp.1.trans he.2.1)
      · exact Or.inl hp
  case handleSnap n t' pre =>
    (repeat' split at hp) <;> try exact Or.inl hp
    simp only [List.mem_cons, Prod.mk.injEq] at hp
    rcases hp with hp | hp
    · exact Or.inr (hp.1.trans he.2.1)
    · exact Or.inl hp
  case ackCommit n t' =>
    simp only [List.mem_cons, Prod.mk.injEq] at hp
    rcases hp with hp | hp
    · exact Or.inr (hp.1.trans he.1)
    · exact Or.inl hp

theorem volAfter_ok (c0 : Conf) (s : State) (a : Action) (h : NodeOK (s.nodes a.actor))
    (he : enabled c0 s a) : VerOK (volAfter s a) := by
  have hv : VerOK (s.nodes a.actor).vol := h.vers _ (by simp [versions])
  by_cases hvs : a.isVoteStep = false
  · obtain ⟨h1, h2, h3⟩ := volAfter_votes s a hvs
    have hcr : a.isCrash = false := by cases a <;> simp_all [Action.isVoteStep, Action.isCrash]
    exact hv.data h1 h2 h3 (volAfter_acks_new c0 s a he hcr)
  · cases a <;> simp only [Action.isVoteStep, not_true_eq_false, Bool.true_eq_false,
      not_false_eq_true] at hvs <;>
      simp only [volAfter, Action.actor, enabled] at hv he ⊢
    case campaign n =>
      constructor
      · intro t c hc
        simp only [List.mem_cons, Prod.mk.injEq] at hc
        rcases hc with hc | hc
        · simp [hc.1]
        · have := hv.votes_le t c hc; simp; omega
      · intro c hc
        simp only [List.mem_cons, Prod.mk.injEq, true_and] at hc
        rcases hc with hc | hc
        · exact hc.symm
        · have := hv.votes_le _ c hc; omega
      · intro t c c' hc hc'
        simp only [List.mem_cons, Prod.mk.injEq] at hc hc'
        rcases hc with hc | hc <;> rcases hc' with hc' | hc'
        · rw [hc.2, hc'.2]
        · have := hv.votes_le _ _ hc'; omega
        · have := hv.votes_le _ _ hc; omega
        · exact hv.votes_uniq t c c' hc hc'
      · intro t c hc
        simp only [List.mem_cons, Prod.mk.injEq] at hc
        rcases hc with hc | hc
        · rw [hc.2]; exact he.2.1
        · exact hv.votes_nz t c hc
      · intro t k hk
        have := hv.acks_le t k hk
        simp; omega
    case updateTerm n t' =>
      constructor
      · intro t c hc; have := hv.votes_le t c hc; simp; omega
      · intro c hc; have := hv.votes_le _ c hc; simp at this; omega
      · exact hv.votes_uniq
      · exact hv.votes_nz
      · intro t k hk; have := hv.acks_le t k hk; simp; omega
    case grant n c lt li =>
      constructor
      · intro t c' hc
        simp only [List.mem_cons, Prod.mk.injEq] at hc
        rcases hc with hc | hc
        · simp [hc.1]
        · exact hv.votes_le t c' hc
      · intro c' hc
        simp only [List.mem_cons, Prod.mk.injEq, true_and] at hc
        rcases hc with hc | hc
        · exact hc.symm
        · have h1 := hv.votes_cur c' hc
          have h2 := hv.votes_nz _ _ hc
          rcases he.2.2.1 with h3 | h3
          · exact absurd (h1.symm.trans h3) h2
          · exact h3.symm.trans h1
      · intro t c1 c2 hc1 hc2
        simp only [List.mem_cons, Prod.mk.injEq] at hc1 hc2
        have key : ∀ c', ((s.nodes n).vol.term, c') ∈ (s.nodes n).vol.votes → c' = c := by
          intro c' hc'
          have h1 := hv.votes_cur c' hc'
          have h2 := hv.votes_nz _ _ hc'
          rcases he.2.2.1 with h3 | h3
          · exact absurd (h1.symm.trans h3) h2
          · exact h1.symm.trans h3
        rcases hc1 with hc1 | hc1 <;> rcases hc2 with hc2 | hc2
        · rw [hc1.2, hc2.2]
        · rw [hc1.2]; rw [hc1.1] at hc2; exact (key c2 hc2).symm
        · rw [hc2.2]; rw [hc2.1] at hc1; exact key c1 hc1
        · exact hv.votes_uniq t c1 c2 hc1 hc2
      · intro t c' hc
        simp only [List.mem_cons, Prod.mk.injEq] at hc
        rcases hc with hc | hc
        · rw [hc.2]; exact he.1
        · exact hv.votes_nz t c' hc
      · exact hv.acks_le
    case crash n => exact h.vers _ (by simp [versions, Action.actor])

theorem volAfter_le (c0 : Conf) (s : State) (a : Action) (hcr : a.isCrash = false)
    (he : enabled c0 s a) : VerLe (s.nodes a.actor).vol (volAfter s a) := by
  by_cases hvs : a.isVoteStep = false
  · obtain ⟨h1, _, h3⟩ := volAfter_votes s a hvs
    exact VerLe.data h1 h3 (volAfter_acks_sub s a hcr)
  · cases a <;> simp only [Action.isVoteStep, not_true_eq_false, Bool.true_eq_false,
      not_false_eq_true] at hvs <;>
      simp only [volAfter, Action.actor, enabled] at he ⊢
    case campaign n => exact ⟨by simp, fun p hp => List.mem_cons_of_mem _ hp, fun p hp => hp⟩
    case updateTerm n t => exact ⟨by simp; omega, fun p hp => hp, fun p hp => hp⟩
    case grant n c lt li => exact ⟨by simp, fun p hp => List.mem_cons_of_mem _ hp, fun p hp => hp⟩
    case crash n => simp [Action.isCrash] at hcr

theorem volAfter_term_le (c0 : Conf) (s : State) (a : Action) (h : NodeOK (s.nodes a.actor))
    (he : enabled c0 s a) : (s.nodes a.actor).dur.term ≤ (volAfter s a).term := by
  by_cases hcr : a.isCrash = false
  · exact Nat.le_trans h.dur_le_vol.term_le (volAfter_le c0 s a hcr he).term_le
  · cases a <;> simp [Action.isCrash] at hcr
    simp [volAfter, Action.actor]

/-- actions whose effect on the acting node is `vol := volAfter`, `role := roleAfter` -/
def Action.isStorage : Action → Bool
  | .write _ | .persist _ | .crash _ _ => true
  | _ => false

theorem nodeAfter_eq (s : State) (a : Action) (h : a.isStorage = false) :
    nodeAfter s a = { s.nodes a.actor with vol := volAfter s a, role := roleAfter s a,
                                           applied := appliedAfter s a, pendingConf := pendingAfter s a } := by
  cases a <;> simp [Action.isStorage] at h <;> rfl

/-- `NodeOK` does not look at the applied index or `pendingConfIndex` -/
theorem NodeOK.setAux {nd : Node} (h : NodeOK nd) (x y : Nat) :
    NodeOK { nd with applied := x, pendingConf := y } :=
  ⟨h.vers, h.chain, h.leader_dur, h.active_term⟩

theorem nodeOK_step (c0 : Conf) (s : State) (a : Action) (h : NodeOK (s.nodes a.actor))
    (he : enabled c0 s a) : NodeOK (nodeAfter s a) := by
  have hc := (chain_iff _).mp h.chain
  by_cases hst : a.isStorage = false
  · rw [nodeAfter_eq s a hst]
    have hcr : a.isCrash = false := by cases a <;> simp_all [Action.isStorage, Action.isCrash]
    refine (h.setVol _ _ (volAfter_ok c0 s a h he) (volAfter_le c0 s a hcr he) ?_ ?_).setAux _ _
    · intro hr
      by_cases hvs : a.isVoteStep = false
      · rw [(volAfter_votes s a hvs).1]
        cases a <;> simp [roleAfter, Action.isVoteStep, Action.isStorage] at hr hvs hst
        case becomeLeader n q =>
          simp only [enabled, Action.actor] at he h ⊢
          have h1 := (h.vers _ (by simp [versions])).votes_le _ _ he.2.2.1
          have h2 := h.dur_le_vol.term_le
          omega
        all_goals exact h.leader_dur hr
      · cases a <;> simp [roleAfter, Action.isVoteStep, Action.isStorage] at hr hvs hst
        case grant n c lt li => simp only [enabled] at he; exact absurd hr he.2.2.2.2
    · intro hr
      by_cases hvs : a.isVoteStep = false
      · rw [(volAfter_votes s a hvs).1]
        cases a <;> simp [roleAfter, Action.isVoteStep, Action.isStorage] at hr hvs hst
        case becomeLeader n q =>
          simp only [enabled, Action.actor] at he h ⊢
          exact h.active_term (by rw [he.1]; simp)
        all_goals exact h.active_term hr
      · cases a <;> simp [roleAfter, Action.isVoteStep, Action.isStorage] at hr hvs hst
        case campaign n => simp [volAfter]
        case grant n c lt li => simp only [volAfter]; exact h.active_term hr
  · cases a <;> simp [Action.isStorage] at hst <;> simp only [Action.actor, nodeAfter, enabled] at *
    case write n =>
      constructor
      · intro v hv
        simp only [versions, List.mem_cons, List.mem_append, List.not_mem_nil, or_false] at hv
        apply h.vers v
        simp only [versions, List.mem_cons]
        rcases hv with hv | hv | hv | hv
        · exact Or.inl hv
        · exact Or.inr (Or.inl hv)
        · exact Or.inr (Or.inr hv)
        · exact Or.inl hv
      · rw [chain_iff]
        simp only [List.mem_append, List.mem_singleton, List.pairwise_append, List.pairwise_cons,
          List.not_mem_nil, false_imp_iff, implies_true, List.Pairwise.nil, and_true, true_and]
        refine ⟨?_, ⟨hc.2.1, ?_⟩, hc.2.2.1, ?_⟩
        · rintro p (hp | rfl)
          · exact hc.1 p hp
          · exact hc.2.2.1
        · intro a ha b hb; subst hb; exact hc.2.2.2 a ha
        · rintro p (hp | rfl)
          · exact hc.2.2.2 p hp
          · exact VerLe.refl _
      · exact h.leader_dur
      · exact h.active_term
    case persist n =>
      cases hp : (s.nodes n).pending with
      | nil => exact absurd hp he
      | cons w rest =>
        rw [hp] at hc
        simp only [List.mem_cons, forall_eq_or_imp, List.pairwise_cons] at hc
        constructor
        · intro v hv
          apply h.vers v
          simp only [versions, List.mem_cons, hp] at hv ⊢
          rcases hv with hv | hv | hv <;> simp [hv]
        · rw [chain_iff]
          exact ⟨hc.2.1.1, hc.2.1.2, hc.2.2.2.1, hc.2.2.2.2⟩
        · intro hr
          have h1 := h.leader_dur hr
          have h2 := hc.1.1.term_le
          have h3 := hc.2.2.2.1.term_le
          simp only at *
          omega
        · exact h.active_term
    case crash n =>
      constructor
      · intro v hv
        apply h.vers v
        simp only [versions, List.mem_cons, List.not_mem_nil, or_false, or_self] at hv ⊢
        simp [hv]
      · rw [chain_iff]; simp [VerLe.refl]
      · simp
      · simp


/-! ### How one step changes a node -/

theorem apply_nodes_self (s : State) (a : Action) : (apply s a).nodes a.actor = nodeAfter s a := by
  rw [apply_nodes]; simp

theorem apply_nodes_at (s : State) (a : Action) (n : NodeId) (h : a.actor = n) :
    (apply s a).nodes n = nodeAfter s a := by
  subst h; exact apply_nodes_self s a

theorem apply_nodes_ne (s : State) (a : Action) (m : NodeId) (h : m ≠ a.actor) :
    (apply s a).nodes m = s.nodes m := by
  rw [apply_nodes]; simp [h]

/-- the only version a step can create is the new volatile version of the acting node -/
theorem versions_nodeAfter (s : State) (a : Action) (w : Ver) (hw : w ∈ versions (nodeAfter s a)) :
    w ∈ versions (s.nodes a.actor) ∨ (a.isStorage = false ∧ w = volAfter s a) := by
  by_cases hst : a.isStorage = false
  · rw [nodeAfter_eq s a hst] at hw
    simp only [versions, List.mem_cons] at hw ⊢
    rcases hw with hw | hw | hw
    · exact Or.inr ⟨hst, hw⟩
    · exact Or.inl (Or.inr (Or.inl hw))
    · exact Or.inl (Or.inr (Or.inr hw))
  · left
    cases a <;> simp [Action.isStorage] at hst <;> simp only [Action.actor, nodeAfter] at *
    case write n =>
      simp only [versions, List.mem_cons, List.mem_append, List.not_mem_nil, or_false] at hw ⊢
      rcases hw with hw | hw | hw | hw <;> simp [hw]
    case persist n =>
      cases hp : (s.nodes n).pending with
      | nil => rw [hp] at hw; exact hw
      | cons w' rest =>
        rw [hp] at hw
        simp only [versions, List.mem_cons, hp] at hw ⊢
        rcases hw with hw | hw | hw <;> simp [hw]
    case crash n =>
      simp only [versions, List.mem_cons, List.not_mem_nil, or_false, or_self] at hw ⊢
      simp [hw]

theorem versions_step (s : State) (a : Action) (m : NodeId) (w : Ver)
    (hw : w ∈ versions ((apply s a).nodes m)) :
    w ∈ versions (s.nodes m) ∨ (m = a.actor ∧ a.isStorage = false ∧ w = volAfter s a) := by
  by_cases hm : m = a.actor
  · subst hm
    rw [apply_nodes_self] at hw
    rcases versions_nodeAfter s a w hw with h | h
    · exact Or.inl h
    · exact Or.inr ⟨rfl, h⟩
  · rw [apply_nodes_ne s a m hm] at hw; exact Or.inl hw

/-- the durable version after a step is one of the old versions, and not older than the old one -/
theorem dur_nodeAfter (s : State) (a : Action) (h : NodeOK (s.nodes a.actor)) :
    (nodeAfter s a).dur ∈ versions (s.nodes a.actor) ∧ VerLe (s.nodes a.actor).dur (nodeAfter s a).dur := by
  by_cases hst : a.isStorage = false
  · rw [nodeAfter_eq s a hst]
    exact ⟨by simp [versions], VerLe.refl _⟩
  · cases a <;> simp [Action.isStorage] at hst <;> simp only [Action.actor, nodeAfter] at *
    case write n => exact ⟨by simp [versions], VerLe.refl _⟩
    case persist n =>
      cases hp : (s.nodes n).pending with
      | nil => exact ⟨by simp [versions], VerLe.refl _⟩
      | cons w' rest =>
        simp only
        refine ⟨by simp [versions, hp], ?_⟩
        exact ((chain_iff _).mp h.chain).1 w' (by simp [hp])
    case crash n => exact ⟨by simp [versions], VerLe.refl _⟩

theorem dur_step (s : State) (a : Action) (m : NodeId) (h : NodeOK (s.nodes m)) :
    ((apply s a).nodes m).dur ∈ versions (s.nodes m) ∧ VerLe (s.nodes m).dur ((apply s a).nodes m).dur := by
  by_cases hm : m = a.actor
  · subst hm; rw [apply_nodes_self]; exact dur_nodeAfter s a h
  · rw [apply_nodes_ne s a m hm]; exact ⟨by simp [versions], VerLe.refl _⟩

theorem mem_apply_msgs (s : State) (a : Action) (x : Msg) :
    x ∈ (apply s a).msgs ↔ x ∈ newMsgs s a ∨ x ∈ s.msgs := by
  rw [apply_msgs, List.mem_append]

theorem mem_apply_elected (s : State) (a : Action) (x : Nat × NodeId) :
    x ∈ (apply s a).elected ↔ x ∈ newElected s a ∨ x ∈ s.elected := by
  rw [apply_elected, List.mem_append]

theorem mem_newElected (s : State) (a : Action) (T : Nat) (n : NodeId) (h : (T, n) ∈ newElected s a) :
    ∃ q, a = .becomeLeader n q ∧ T = (s.nodes n).vol.term := by
  cases a <;> simp [newElected] at h
  case becomeLeader n' q => exact ⟨q, by rw [h.2], by rw [h.1, h.2]⟩

theorem vote_mem_newMsgs (s : State) (a : Action) (t v c : Nat) (h : Msg.vote t v c ∈ newMsgs s a) :
    a = .sendVote v t c := by
  cases a <;> simp [newMsgs] at h
  case sendVote n t' c' => rw [h.1, h.2.1, h.2.2]


/-- a node that is not a follower after a step either just campaigned, was just elected, or had
the same role and term before -/
theorem role_step (c0 : Conf) (s : State) (a : Action) (m : NodeId) (he : enabled c0 s a)
    (hr : ((apply s a).nodes m).role ≠ .follower) :
    a = .campaign m ∨ (∃ q, a = .becomeLeader m q) ∨
      (((apply s a).nodes m).role = (s.nodes m).role ∧
        ((apply s a).nodes m).vol.term = (s.nodes m).vol.term) := by
  by_cases hm : m = a.actor
  · rw [hm, apply_nodes_self] at hr
    rw [hm, apply_nodes_self]
    cases a <;> simp only [Action.actor] at hm <;> subst hm <;>
      simp only [nodeAfter, roleAfter, Action.actor, ne_eq, not_true_eq_false] at hr ⊢
    case campaign => exact Or.inl trivial
    case becomeLeader q => exact Or.inr (Or.inl ⟨q, rfl⟩)
    case persist =>
      right; right
      cases (s.nodes m).pending <;> simp
    all_goals
      right; right
      simp [volAfter, Action.actor]
  · rw [apply_nodes_ne s a m hm]; exact Or.inr (Or.inr ⟨rfl, rfl⟩)

/-- **Stage 1 invariant** -/
structure Inv1 (c0 : Conf) (s : State) : Prop where
  nodes : ∀ n, NodeOK (s.nodes n)
  vote_msg : ∀ t v c, Msg.vote t v c ∈ s.msgs → (t, c) ∈ (s.nodes v).dur.votes
  elected_dur : ∀ T n, (T, n) ∈ s.elected → T ≤ (s.nodes n).dur.term
  elected_notcand : ∀ T n, (T, n) ∈ s.elected → (s.nodes n).vol.term = T →
    (s.nodes n).role ≠ .candidate
  leader_elected : ∀ n, (s.nodes n).role = .leader → ((s.nodes n).vol.term, n) ∈ s.elected

theorem inv1_init (c0 : Conf) : Inv1 c0 State.init := by
  have hv : VerOK ({} : Ver) := by constructor <;> simp
  constructor
  · intro n
    constructor
    · intro v hv'
      simp [versions, State.init] at hv'
      rw [hv']; exact hv
    · rw [chain_iff]; simp [State.init, VerLe.refl]
    · simp [State.init]
    · simp [State.init]
  all_goals simp [State.init]


/-- the step does not elect a leader for a term somebody was already elected in.  With membership
changes this is part of the joint induction (`Proofs/ReconfFresh.lean`); the lower invariants take it
as a hypothesis on the step. -/
def Fresh (s : State) (a : Action) : Prop :=
  ∀ n q, a = .becomeLeader n q → ∀ n', ((s.nodes n).vol.term, n') ∉ s.elected

theorem inv1_step (c0 : Conf) (s : State) (a : Action) (h : Inv1 c0 s)
    (he : enabled c0 s a) : Inv1 c0 (apply s a) := by
  have hdur : ∀ m, VerLe (s.nodes m).dur ((apply s a).nodes m).dur :=
    fun m => (dur_step s a m (h.nodes m)).2
  have hnodes : ∀ n, NodeOK ((apply s a).nodes n) := by
    intro n
    by_cases hn : n = a.actor
    · subst hn; rw [apply_nodes_self]; exact nodeOK_step c0 s a (h.nodes _) he
    · rw [apply_nodes_ne _ _ _ hn]; exact h.nodes n
  constructor
  · exact hnodes
  · intro t v c hm
    rw [mem_apply_msgs] at hm
    apply (hdur v).votes_sub
    rcases hm with hm | hm
    · have := vote_mem_newMsgs s a t v c hm
      subst this
      exact he
    · exact h.vote_msg t v c hm
  · intro T n hel
    rw [mem_apply_elected] at hel
    refine Nat.le_trans ?_ (hdur n).term_le
    rcases hel with hel | hel
    · obtain ⟨q, rfl, rfl⟩ := mem_newElected s _ T n hel
      simp only [enabled] at he
      exact ((h.nodes n).vers _ (by simp [versions])).votes_le _ _ he.2.2.1
    · exact h.elected_dur T n hel
  · intro T n hel hT hr
    have hr' : ((apply s a).nodes n).role ≠ .follower := by rw [hr]; simp
    rcases role_step c0 s a n he hr' with rfl | ⟨q, rfl⟩ | ⟨h1, h2⟩
    · -- campaign: the new term is above every term `n` was elected in
      rw [mem_apply_elected] at hel
      simp only [newElected, List.not_mem_nil, false_or] at hel
      have h1 := h.elected_dur T n hel
      have h2 := (h.nodes n).dur_le_vol.term_le
      simp only [apply_nodes, Action.actor, ↓reduceIte, nodeAfter, volAfter] at hT
      omega
    · simp [apply_nodes, Action.actor, nodeAfter, roleAfter] at hr
    · rw [mem_apply_elected] at hel
      rcases hel with hel | hel
      · obtain ⟨q, rfl, rfl⟩ := mem_newElected s _ T n hel
        simp [apply_nodes, Action.actor, nodeAfter, roleAfter] at hr
      · rw [h1] at hr; rw [h2] at hT
        exact h.elected_notcand T n hel hT hr
  · intro n hr
    have hr' : ((apply s a).nodes n).role ≠ .follower := by rw [hr]; simp
    rw [mem_apply_elected]
    rcases role_step c0 s a n he hr' with rfl | ⟨q, rfl⟩ | ⟨h1, h2⟩
    · simp [apply_nodes, Action.actor, nodeAfter, roleAfter] at hr
    · left
      simp [apply_nodes, nodeAfter, volAfter, newElected, Action.actor]
    · right
      rw [h2]; rw [h1] at hr
      exact h.leader_elected n hr

theorem inv1_reachable (c0 : Conf) (s : State) (h : Reachable c0 s) : Inv1 c0 s := by
  induction h with
  | init => exact inv1_init c0
  | step s a _ he ih => exact inv1_step c0 s a ih he

/-- no term is won twice -/
def ElectedNodup (s : State) : Prop := (s.elected.map (·.1)).Nodup

theorem electedNodup_init : ElectedNodup State.init := by simp [ElectedNodup, State.init]

theorem electedNodup_step (s : State) (a : Action) (h : ElectedNodup s) (hf : Fresh s a) :
    ElectedNodup (apply s a) := by
  unfold ElectedNodup
  rw [apply_elected]
  cases a <;> simp only [newElected, List.nil_append] <;> try exact h
  case becomeLeader n q =>
    simp only [List.cons_append, List.nil_append, List.map_cons, List.nodup_cons]
    refine ⟨?_, h⟩
    intro hmem
    obtain ⟨⟨T, n'⟩, hx, hT⟩ := List.mem_map.mp hmem
    simp only at hT
    subst hT
    exact hf n q rfl n' hx

/-- two elected pairs of the same term are the same pair -/
theorem ElectedNodup.unique {s : State} (h : ElectedNodup s) {T : Nat} {n n' : NodeId}
    (h1 : (T, n) ∈ s.elected) (h2 : (T, n') ∈ s.elected) : n = n' :=
  nodup_map_fst_unique _ h T n n' h1 h2

end RaftVerif.SpecR
