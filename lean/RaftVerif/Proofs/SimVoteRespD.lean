import RaftVerif.Proofs.SimVoteResp
import RaftVerif.Proofs.SimDur
/-!
# Proofs/SimVoteRespD — `sim_voteResp_same` with the durable frame exposed (`RaftSimD`)
-/
namespace RaftVerif.Sim
open Refine Raft

/-- `becomeFollower r.term l` (same term): Spec `stepDown`; `dur` and the soup are untouched -/
theorem vr_stepDownD {val : Val} {voters : List Id} {n : Nat} {s : Spec.State} {r : Raft} {l : Nat} {r1 : Raft}
    (hinv : RaftInv val voters n r (s.nodes n) s.msgs)
    (h : (Raft.becomeFollower r.term l).run r = .ok ((), r1)) : RaftSimD val voters n s r1 := by
  obtain ⟨hen, habs, _, _, _, _, _⟩ := Refinement.stepDown_refines val (cfgOf voters) l r r1 s n hinv.abs h
  have hn : (Spec.apply s (.stepDown n)).nodes n = { (s.nodes n) with role := .follower } := by
    simp [Spec.apply, Spec.setNode]
  refine ⟨[.stepDown n], _, .single hen, by simp [Spec.Action.actor], ?_, by rw [hn], fun _ _ _ hx => hx⟩
  show RaftInv val voters n r1 ((Spec.apply s (.stepDown n)).nodes n) s.msgs
  obtain ⟨d, rest, _, rfl⟩ := vr_becomeFollower_run_exact h
  rw [hn] at habs ⊢
  exact {
    abs := habs
    st := (vr_static_resetSt hinv.st r.term d rest).congr rfl rfl rfl rfl rfl rfl
    wf := hinv.wf
    unc := hinv.unc
    leadInv := fun hl => by cases hl
    candVote := fun hl => by cases hl
    termPos := fun hl => absurd rfl hl
    logLe := hinv.logLe
    candLt := fun hl => by cases hl
    pend := hinv.pend
    durV := hinv.durV
    durA := hinv.durA
    out := hinv.out
    prom := hinv.prom
    rvTerm := hinv.rvTerm
    rvCov := fun hl => by cases hl
    votes := fun hl => by cases hl
    selfVote := fun hl => by cases hl
    matchO := fun hl => by cases hl
    matchS := fun hl => by cases hl }

/-- **a leader queues MsgApp / MsgSnap** (`bcastAppend`, `sendAppend`, …): one Spec `sendApp` per MsgApp;
`dur` untouched, no new vote request -/
theorem vr_sends_simD {val : Val} {voters : List Id} {n : Nat} {s : Spec.State} {r1 r' : Raft}
    (hinv : RaftInv val voters n r1 (s.nodes n) s.msgs) (hl : r1.state = .leader)
    (hok : SendsOK val r1 r') (hsf : SendFrame r1 r') (hpk : Live.PrKeep r1 r') : RaftSimD val voters n s r' := by
  obtain ⟨added, hmsgs, hadd⟩ := hok.msgs
  obtain ⟨as, s', hrun, hact, hnodes, hsub, happ, hrv⟩ :=
    vr_sendApps (voters := voters) hl added s hinv.abs hadd
  refine ⟨as, s', hrun, hact, ?_, by rw [hnodes], fun t lt li hx => hrv t n lt li hx⟩
  rw [hnodes]
  have hI := hinv.frame hsub (fun t lt li h => hrv t n lt li h)
  have hlog : absLog val r' = absLog val r1 := by unfold absLog; rw [hok.log]
  have hst : r'.state = r1.state := hok.state
  have htp : r1.term ≠ 0 := hinv.termPos (by rw [hl]; intro h; cases h)
  exact {
    abs := hI.abs.congr hok.term hsf.vote hok.log (by rw [hst])
    st := {
      id := by rw [hok.cfg]; exact hI.st.id
      idnz := hI.st.idnz
      pv := by rw [hok.cfg]; exact hI.st.pv
      xfer := hsf.leadTransferee.trans hI.st.xfer
      pri := hsf.pendingReadIndexMessages.trans hI.st.pri
      ro := by rw [hsf.readOnly]; exact hI.st.ro
      tvoters := by rw [hsf.trkCfg]; exact hI.st.tvoters
      tout := by rw [hsf.trkCfg]; exact hI.st.tout
      tauto := by rw [hsf.trkCfg]; exact hI.st.tauto
      prog := fun v => by rw [vr_pk_isSome hpk]; exact hI.st.prog v
      nolearn := fun v pr hp => by
        obtain ⟨pr0, h1, _, h3⟩ := vr_pk_get hpk v pr hp
        rw [h3]; exact hI.st.nolearn v pr0 h1
      self := hI.st.self }
    wf := by rw [hok.log]; exact hI.wf
    unc := by rw [hok.log]; exact hI.unc
    leadInv := by rw [hst, hsf.lead, hsf.vote]; exact hI.leadInv
    candVote := by rw [hst, hsf.vote]; exact hI.candVote
    termPos := by rw [hst, hok.term]; exact hI.termPos
    logLe := by rw [hlog, hok.term]; exact hI.logLe
    candLt := by rw [hlog, hok.term, hst]; exact hI.candLt
    pend := hI.pend
    durV := hI.durV
    durA := hI.durA
    out := by
      intro x hx
      rw [hmsgs] at hx
      rcases List.mem_append.1 hx with hx | hx
      · exact hI.out x hx
      · rcases hadd x hx with h1 | h1
        · unfold NetOK; rw [h1]; trivial
        · unfold NetOK
          rw [h1.typ]
          refine ⟨by rw [h1.term]; exact htp, happ x hx h1.typ, h1.contig, ?_⟩
          intro e he
          have := hinv.logLe _ (vr_sendApp_ents h1 e he)
          rw [h1.term]; exact this
    prom := by rw [hok.maa]; exact hI.prom
    rvTerm := by rw [hok.term]; exact hI.rvTerm
    rvCov := by rw [hlog, hok.term, hst]; exact hI.rvCov
    votes := by rw [hst, hl]; intro h; cases h
    selfVote := by rw [hst, hl]; intro h; cases h
    matchO := by
      intro _ v pr c hv hp h0 hc
      obtain ⟨pr0, h1, h2, _⟩ := vr_pk_get hpk v pr hp
      rw [hok.term]
      exact hI.matchO hl v pr0 c hv h1 h0 (by rw [← h2]; exact hc)
    matchS := by
      intro _ pr c hp hc hterm
      obtain ⟨pr0, h1, h2, _⟩ := vr_pk_get hpk n pr hp
      rw [hok.term]
      rw [hlog, hok.term] at hterm
      exact hI.matchS hl pr0 c h1 (by rw [← h2]; exact hc) hterm }

/-- `vr_won_sim` with the durable frame exposed: `becomeLeader`, `leaderAppend` change `role`, `vol.log`, `vol.acks`
and ghost fields only -/
theorem vr_won_simD {val : Val} {voters : List Id} {n : Nat} {s : Spec.State} {p s1 r' : Raft}
    (hinv : RaftInv val voters n p (s.nodes n) s.msgs) (hs : p.state = .candidate)
    (hwon : p.trk.tallyVotes.2.2 = .won) (hown : (mapGet p.trk.votes n).isSome = true)
    (h1 : Raft.becomeLeader.run p = .ok ((), s1)) (h2 : Raft.bcastAppend.run s1 = .ok ((), r')) :
    RaftSimD val voters n s r' := by
  have hp := (becomeLeader_refine val p hinv.wf hinv.unc).elim h1
  have hf := (vr_becomeLeader_frame p).elim h1
  have hen := vr_becomeLeader_enabled hinv hs hwon hown
  have hI := vr_becomeLeader_inv (grantedBy p.trk) hinv hs hp hf
  have hrun : RunL (cfgOf voters) s [.becomeLeader n (grantedBy p.trk), .leaderAppend n (val none none)]
      (Spec.apply (Spec.apply s (.becomeLeader n (grantedBy p.trk))) (.leaderAppend n (val none none))) :=
    .cons hen (.single (leaderAppend_enabled_after _ s n _ _))
  have hdur : ((Spec.apply (Spec.apply s (.becomeLeader n (grantedBy p.trk)))
      (.leaderAppend n (val none none))).nodes n).dur = (s.nodes n).dur := by
    rw [leaderAppend_nodes, becomeLeader_nodes]
  refine RaftSimD.trans hrun (by simp [Spec.Action.actor]) hdur (fun _ _ _ hx => hx) ?_
  exact vr_sends_simD (s := Spec.apply (Spec.apply s (.becomeLeader n (grantedBy p.trk))) (.leaderAppend n (val none none)))
    hI hp.state ((bcastAppend_sendsOK val s1 hp.wf hp.unc).elim h2) ((bcastAppend_sf s1).elim h2)
    ((Live.bcastAppend_pk s1).elim h2)

/-- **MsgVoteResp at the node's own term**, with the durable frame exposed (`RaftSimD`); same hypotheses as
`sim_voteResp_same` (`hself`: the node's own response is always a grant; `hreach` unused) -/
theorem simD_voteResp_same {val : Val} {voters : List Id} {n : Nat} {s : Spec.State} {r r' : Raft} {m : Message}
    {e : Option StepErr} {fuel : Nat} (hinv : RaftInv val voters n r (s.nodes n) s.msgs)
    (_hreach : Spec.Reachable (cfgOf voters) s)
    (ht : m.typ = .voteResp) (hterm : m.term = r.term) (hin : InOK val n (s.nodes n) s.msgs m)
    (hself : m.from = n → m.reject = false)
    (h : (Raft.step (fuel + 1) m).run r = .ok (e, r')) : RaftSimD val voters n s r' := by
  by_cases hs : r.state = .candidate
  · rw [step_same_term_dispatch fuel m r (Or.inr hterm) (by rw [ht]; decide)] at h
    have hd : dispatch fuel m r = Raft.stepCandidate fuel m := by unfold dispatch; rw [hs]
    rw [hd] at h
    have hpi := vr_polled_inv hinv hs ht hterm hin hself
    rcases (vr_stepCandidate_cases fuel m r hs ht).elim h with rfl | hlost | ⟨hwon, hown, s1, h1, h2⟩
    · exact RaftSimD.refl hpi
    · exact vr_stepDownD hpi hlost
    · exact vr_won_simD hpi hs hwon (by rw [← hinv.st.id]; exact hown) h1 h2
  · have := vr_ignored fuel m r r' e hs ht hterm h
    subst this
    exact RaftSimD.refl hinv

end RaftVerif.Sim
