import RaftVerif.Proofs.ConfChangeSteps
/-!
# Proofs/ConfChangeProgress — what happens to progress records under configuration changes
-/
namespace RaftVerif
set_option linter.unusedSimpArgs false
set_option linter.unusedVariables false

/-- `p'` agrees with `p` in every field except possibly `isLearner` -/
def sameButLearner (p p' : Progress) : Prop := p' = { p with isLearner := p'.isLearner }

theorem sameButLearner_refl (p : Progress) : sameButLearner p p := by cases p; rfl
theorem sameButLearner_set (p : Progress) (b : Bool) : sameButLearner p { p with isLearner := b } := rfl
theorem sameButLearner_trans {p q r : Progress} (h1 : sameButLearner p q) (h2 : sameButLearner q r) :
    sameButLearner p r := by
  unfold sameButLearner at *
  rw [h2, h1]
theorem sameButLearner_fresh {c : Changer} {b : Bool} {q : Progress}
    (h : sameButLearner (freshProgress c b) q) : q = freshProgress c q.isLearner := by
  unfold sameButLearner at h
  rw [h]; rfl

/-- where a progress record of the result comes from: an old record (up to `isLearner`) or a fresh one -/
def ProgOrigin (c : Changer) (trk : ProgressMap) (x : Id) (p' : Progress) : Prop :=
  (∃ p, mapGet trk x = some p ∧ sameButLearner p p') ∨ p' = freshProgress c p'.isLearner

theorem op_origin (c : Changer) (cfg : TrackerConfig) (trk : ProgressMap) (id : Id) :
    let Q : CS → Prop := fun r => ∀ x p', mapGet r.2 x = some p' →
      (∃ p, mapGet trk x = some p ∧ sameButLearner p p') ∨
      (mapGet trk x = none ∧ x = id ∧ p' = freshProgress c p'.isLearner)
    Q (c.remove cfg trk id) ∧ Q (c.makeVoter cfg trk id) ∧ Q (c.makeLearner cfg trk id) := by
  intro Q
  apply op_cases c cfg trk id Q <;> intros <;> simp only [Q] <;> intro x p' hp' <;>
    (try simp only [mapGet_mapInsert, mapGet_mapErase] at hp') <;>
    (by_cases e : x = id
     · subst e
       (try simp only [↓reduceIte, Option.some.injEq, reduceCtorEq] at hp') <;>
       (try subst hp') <;>
       first
        | exact Or.inr ⟨‹_›, rfl, rfl⟩
        | exact Or.inl ⟨_, ‹_›, sameButLearner_set _ _⟩
        | exact Or.inl ⟨_, ‹_›, sameButLearner_refl _⟩
        | exact Or.inl ⟨_, hp', sameButLearner_refl _⟩
     · (try simp only [e, ↓reduceIte] at hp')
       exact Or.inl ⟨_, hp', sameButLearner_refl _⟩)

/-- records of ids other than the one operated on are untouched -/
theorem op_other (c : Changer) (cfg : TrackerConfig) (trk : ProgressMap) (id : Id) :
    let Q : CS → Prop := fun r => ∀ x, x ≠ id → mapGet r.2 x = mapGet trk x
    Q (c.remove cfg trk id) ∧ Q (c.makeVoter cfg trk id) ∧ Q (c.makeLearner cfg trk id) := by
  intro Q
  apply op_cases c cfg trk id Q <;> intros <;> simp only [Q] <;> intro x hx <;>
    simp [mapGet_mapInsert, mapGet_mapErase, hx]

theorem makeVoter_kept (c : Changer) {cfg : TrackerConfig} {trk : ProgressMap} {id : Id} {p : Progress}
    (h : mapGet trk id = some p) :
    ∃ p', mapGet (c.makeVoter cfg trk id).2 id = some p' ∧ sameButLearner p p' := by
  rw [makeVoter_some c h]
  exact ⟨{ p with isLearner := false }, by simp [mapGet_mapInsert], sameButLearner_set _ _⟩

theorem makeLearner_kept (c : Changer) {cfg : TrackerConfig} {trk : ProgressMap} {id : Id} {p : Progress}
    (h : mapGet trk id = some p) :
    ∃ p', mapGet (c.makeLearner cfg trk id).2 id = some p' ∧ sameButLearner p p' := by
  cases hl : p.isLearner with
  | true => rw [makeLearner_learner c h hl]; exact ⟨p, h, sameButLearner_refl _⟩
  | false =>
    by_cases ho : id ∈ cfg.outgoing.getD []
    · rw [makeLearner_out c h hl ho]
      exact ⟨p, by simp [mapGet_mapInsert], sameButLearner_refl _⟩
    · rw [makeLearner_not_out c h hl ho]
      exact ⟨{ p with isLearner := true }, by simp [mapGet_mapInsert], sameButLearner_set _ _⟩

theorem applyStep_origin (c : Changer) (s : CS) (cc : ConfChangeSingle) (x : Id) (p' : Progress)
    (h : mapGet (applyStep c s cc).2 x = some p') : ProgOrigin c s.2 x p' := by
  revert h
  apply applyStep_cases c s cc (fun r => mapGet r.2 x = some p' → ProgOrigin c s.2 x p')
  · intro h; exact Or.inl ⟨_, h, sameButLearner_refl _⟩
  · intro _
    have := op_origin c s.1 s.2 cc.nodeId
    refine ⟨?_, ?_, ?_⟩ <;> intro h
    · rcases this.1 x p' h with h | h; exact Or.inl h; exact Or.inr h.2.2
    · rcases this.2.1 x p' h with h | h; exact Or.inl h; exact Or.inr h.2.2
    · rcases this.2.2 x p' h with h | h; exact Or.inl h; exact Or.inr h.2.2

theorem progOrigin_step {c : Changer} {trk trk1 : ProgressMap} {x : Id} {p' : Progress}
    (h1 : ∀ q, mapGet trk1 x = some q → ProgOrigin c trk x q) (h2 : ProgOrigin c trk1 x p') :
    ProgOrigin c trk x p' := by
  rcases h2 with ⟨q, hq, hs⟩ | hf
  · rcases h1 q hq with ⟨p, hp, hs'⟩ | hf
    · exact Or.inl ⟨p, hp, sameButLearner_trans hs' hs⟩
    · right
      rw [hf] at hs
      exact sameButLearner_fresh hs
  · exact Or.inr hf

/-- every record after the fold is an old record or a fresh one, up to `isLearner` -/
theorem fold_origin (c : Changer) (ccs : List ConfChangeSingle) (s : CS) (x : Id) (p' : Progress)
    (h : mapGet (ccs.foldl (applyStep c) s).2 x = some p') : ProgOrigin c s.2 x p' := by
  induction ccs generalizing s with
  | nil => exact Or.inl ⟨_, h, sameButLearner_refl _⟩
  | cons a t ih =>
    have := ih (applyStep c s a) h
    exact progOrigin_step (fun q hq => applyStep_origin c s a x q hq) this

theorem applyStep_kept (c : Changer) (s : CS) (cc : ConfChangeSingle) (x : Id) (p : Progress)
    (hcc : ¬ (cc.typ = .removeNode ∧ cc.nodeId = x))
    (h : mapGet s.2 x = some p) :
    ∃ p', mapGet (applyStep c s cc).2 x = some p' ∧ sameButLearner p p' := by
  unfold applyStep
  by_cases h0 : cc.nodeId = 0
  · rw [if_pos h0]; exact ⟨p, h, sameButLearner_refl _⟩
  · rw [if_neg h0]
    have hoth := op_other c s.1 s.2 cc.nodeId
    by_cases e : x = cc.nodeId
    · subst e
      cases ht : cc.typ with
      | addNode => exact makeVoter_kept c h
      | addLearnerNode => exact makeLearner_kept c h
      | removeNode => exact absurd ⟨ht, rfl⟩ hcc
      | updateNode => exact ⟨p, h, sameButLearner_refl _⟩
    · cases cc.typ with
      | addNode => exact ⟨p, by simp only []; rw [hoth.2.1 x e]; exact h, sameButLearner_refl _⟩
      | addLearnerNode => exact ⟨p, by simp only []; rw [hoth.2.2 x e]; exact h, sameButLearner_refl _⟩
      | removeNode => exact ⟨p, by simp only []; rw [hoth.1 x e]; exact h, sameButLearner_refl _⟩
      | updateNode => exact ⟨p, h, sameButLearner_refl _⟩

/-- an id that is not the target of a `removeNode` keeps its record, up to `isLearner` -/
theorem fold_kept (c : Changer) (ccs : List ConfChangeSingle) (s : CS) (x : Id) (p : Progress)
    (hcc : ∀ cc ∈ ccs, ¬ (cc.typ = .removeNode ∧ cc.nodeId = x))
    (h : mapGet s.2 x = some p) :
    ∃ p', mapGet (ccs.foldl (applyStep c) s).2 x = some p' ∧ sameButLearner p p' := by
  induction ccs generalizing s p with
  | nil => exact ⟨p, h, sameButLearner_refl _⟩
  | cons a t ih =>
    obtain ⟨q, hq, hs⟩ := applyStep_kept c s a x p (hcc a (by simp)) h
    obtain ⟨r, hr, hs'⟩ := ih (applyStep c s a) q (fun cc hm => hcc cc (List.mem_cons_of_mem _ hm)) hq
    exact ⟨r, hr, sameButLearner_trans hs hs'⟩

end RaftVerif
