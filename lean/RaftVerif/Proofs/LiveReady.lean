import RaftVerif.Proofs.LogRawNode
import RaftVerif.Proofs.StepLog
/-!
# Proofs/LiveReady — the storage acknowledgement attached by `RawNode.readyWithoutAccept` (C15)

In async-storage mode, whenever unstable entries exist (handed out now or still in progress), every
`MsgStorageAppend` that `readyWithoutAccept` emits carries — as its **last** response — a
`MsgStorageAppendResp` addressed to the node itself with the node's term and the `(index, term)` of the
last log entry.

The proof follows the join points of the `do` block (`extract_lets`), so that the four independent
`if … then rd := …` updates at the beginning do not multiply the case analysis.
-/
namespace RaftVerif.Live
open RawNode
set_option linter.unusedSimpArgs false

theorem needResp_of_unstable (r : Raft) (rd : Ready) (h : r.log.hasNextOrInProgressUnstableEnts = true) :
    needStorageAppendRespMsg r rd = true := by
  simp [needStorageAppendRespMsg, h]

/-- `resp` is the acknowledgement `newStorageAppendRespMsg` builds when unstable entries exist -/
structure IsAppendAck (r : Raft) (resp : Message) : Prop where
  typ : resp.typ = .storageAppendResp
  to : resp.to = r.cfg.id
  frm : resp.from = localAppendThread
  term : resp.term = r.term
  last : ∃ last, r.log.lastEntryID = .ok last ∧ resp.index = last.index ∧ resp.logTerm = last.term

theorem newStorageAppendRespMsg_spec (r : Raft) (rd : Ready) (resp : Message)
    (h : r.log.hasNextOrInProgressUnstableEnts = true) (hr : newStorageAppendRespMsg r rd = .ok resp) :
    IsAppendAck r resp := by
  unfold newStorageAppendRespMsg at hr
  simp only [h, ↓reduceIte, bind, Except.bind, pure, Except.pure] at hr
  cases hl : r.log.lastEntryID with
  | error e => rw [hl] at hr; cases hr
  | ok last =>
    rw [hl] at hr
    simp only at hr
    injection hr with hr
    subst hr
    split <;> exact ⟨rfl, rfl, rfl, rfl, last, hl, rfl, rfl⟩

/-- the last response of `msg` is the storage acknowledgement, preceded by exactly `msgsAfterAppend` -/
def AckLast (r : Raft) (msg : Message) : Prop :=
  ∃ resp, msg.responses = r.msgsAfterAppend ++ [resp] ∧ IsAppendAck r resp

/-- the messages a `Ready` adds to `raft.msgs` -/
def newMsgs (rn : RawNode) (rd : Ready) : List Message := rd.messages.drop rn.raft.msgs.length

theorem mem_drop_snoc {α : Type} (l : List α) (n : Nat) (x a : α) (h : a ∈ (l ++ [x]).drop n) :
    a ∈ l.drop n ∨ a = x := by
  induction l generalizing n with
  | nil =>
    have := List.mem_of_mem_drop h
    simp only [List.nil_append, List.mem_singleton] at this
    exact Or.inr this
  | cons y t ih =>
    cases n with
    | zero =>
      simp only [List.drop_zero, List.mem_append, List.mem_singleton] at h ⊢
      exact h
    | succ k =>
      simp only [List.cons_append, List.drop_succ_cons] at h ⊢
      exact ih k h

/-- every `MsgStorageAppend` among the new messages carries the acknowledgement last -/
def AckGood (rn : RawNode) (x : Ready) : Prop :=
  ∀ msg ∈ newMsgs rn x, msg.typ = .storageAppend → AckLast rn.raft msg

/-- both branches of an `if` call the same continuation on arguments satisfying `Q` -/
theorem ite_same_fn {α β : Type} {c : Prop} [Decidable c] {f : α → Except String β} {a b : α} {r : β}
    (Q : α → Prop) (h : (if c then f a else f b) = .ok r) (ha : Q a) (hb : Q b) : ∃ x, Q x ∧ f x = .ok r := by
  split at h
  · exact ⟨a, ha, h⟩
  · exact ⟨b, hb, h⟩

theorem readyWithoutAccept_append_ack (rn : RawNode) (rd : Ready) (ha : rn.async = true)
    (hne : rn.raft.log.hasNextOrInProgressUnstableEnts = true) (h : rn.readyWithoutAccept = .ok rd) :
    ∀ msg ∈ newMsgs rn rd, msg.typ = .storageAppend → AckLast rn.raft msg := by
  unfold RawNode.readyWithoutAccept at h
  obtain ⟨cents, hc, h⟩ := bind_eq_ok.1 h
  extract_lets rd0 jEnd jApply jAsync jRS jSnap jHard at h
  -- the four independent updates of `rd`: only `messages = raft.msgs` matters
  obtain ⟨x1, hx1, h⟩ := ite_same_fn (f := jHard ()) (fun x => x.messages = rn.raft.msgs) h rfl rfl
  simp only [jHard] at h
  obtain ⟨x2, hx2, h⟩ := ite_same_fn (f := jSnap ()) (fun x => x.messages = rn.raft.msgs) h hx1 hx1
  simp only [jSnap] at h
  obtain ⟨x3, hx3, h⟩ := ite_same_fn (f := jRS ()) (fun x => x.messages = rn.raft.msgs) h hx2 hx2
  simp only [jRS] at h
  obtain ⟨x4, hx4, h⟩ := ite_same_fn (f := jAsync ()) (fun x => x.messages = rn.raft.msgs) h hx3 hx3
  -- the final part: maybe a MsgStorageApply is appended
  have hfin : ∀ y : Ready, AckGood rn y → jApply () y = .ok rd → AckGood rn rd := by
    intro y hy hj
    simp only [jApply, jEnd] at hj
    split at hj
    · injection hj with hj
      subst hj
      intro msg hmem ht
      rcases mem_drop_snoc _ _ _ _ hmem with hm | hm
      · exact hy msg hm ht
      · subst hm
        simp at ht
    · injection hj with hj
      subst hj
      exact hy
  have hx0 : ∀ y : Ready, y.messages = rn.raft.msgs → AckGood rn y := by
    intro y hy msg hm
    simp [newMsgs, hy] at hm
  simp only [jAsync, ha, needResp_of_unstable _ _ hne, ↓reduceIte] at h
  split at h
  · repeat' (split at h)
    all_goals (
      obtain ⟨resp, hresp, h⟩ := bind_eq_ok.1 h
      refine hfin _ ?_ h
      intro msg hmem _
      simp only [newMsgs, hx4, List.drop_left, List.mem_singleton] at hmem
      subst hmem
      exact ⟨resp, rfl, newStorageAppendRespMsg_spec _ _ _ hne hresp⟩)
  · refine hfin _ ?_ h
    exact hx0 _ hx4

theorem mem_drop_snoc_of_mem {α : Type} (l : List α) (n : Nat) (x a : α) (h : a ∈ l.drop n) :
    a ∈ (l ++ [x]).drop n := by
  induction l generalizing n with
  | nil => simp at h
  | cons y t ih =>
    cases n with
    | zero =>
      simp only [List.drop_zero] at h ⊢
      exact List.mem_append_left _ h
    | succ k =>
      simp only [List.cons_append, List.drop_succ_cons] at h ⊢
      exact ih k h

/-- a `MsgStorageAppend` with the new unstable entries is among the new messages -/
def AppendSent (rn : RawNode) (x : Ready) : Prop :=
  ∃ msg ∈ newMsgs rn x, msg.typ = .storageAppend ∧ msg.to = localAppendThread ∧
    msg.entries = rn.raft.log.nextUnstableEnts

/-- whenever there are new unstable entries to hand out, a `MsgStorageAppend` carrying exactly them is
emitted (addressed to the append thread) -/
theorem readyWithoutAccept_append_emitted (rn : RawNode) (rd : Ready) (ha : rn.async = true)
    (hents : rn.raft.log.nextUnstableEnts ≠ []) (h : rn.readyWithoutAccept = .ok rd) :
    AppendSent rn rd := by
  have hlen : decide (rn.raft.log.nextUnstableEnts.length > 0) = true := by
    simpa using List.length_pos_iff.mpr hents
  unfold RawNode.readyWithoutAccept at h
  obtain ⟨cents, hc, h⟩ := bind_eq_ok.1 h
  extract_lets rd0 jEnd jApply jAsync jRS jSnap jHard at h
  obtain ⟨x1, hx1, h⟩ := ite_same_fn (f := jHard ())
    (fun x => x.messages = rn.raft.msgs ∧ x.entries = rn.raft.log.nextUnstableEnts) h ⟨rfl, rfl⟩ ⟨rfl, rfl⟩
  simp only [jHard] at h
  obtain ⟨x2, hx2, h⟩ := ite_same_fn (f := jSnap ())
    (fun x => x.messages = rn.raft.msgs ∧ x.entries = rn.raft.log.nextUnstableEnts) h hx1 hx1
  simp only [jSnap] at h
  obtain ⟨x3, hx3, h⟩ := ite_same_fn (f := jRS ())
    (fun x => x.messages = rn.raft.msgs ∧ x.entries = rn.raft.log.nextUnstableEnts) h hx2 hx2
  simp only [jRS] at h
  obtain ⟨x4, ⟨hx4, hx4e⟩, h⟩ := ite_same_fn (f := jAsync ())
    (fun x => x.messages = rn.raft.msgs ∧ x.entries = rn.raft.log.nextUnstableEnts) h hx3 hx3
  have hfin : ∀ y : Ready, AppendSent rn y → jApply () y = .ok rd → AppendSent rn rd := by
    intro y hy hj
    simp only [jApply, jEnd] at hj
    split at hj
    · injection hj with hj
      subst hj
      obtain ⟨msg, hm, hp⟩ := hy
      exact ⟨msg, mem_drop_snoc_of_mem _ _ _ _ hm, hp⟩
    · injection hj with hj
      subst hj
      exact hy
  simp only [jAsync, ha, hx4e, hlen, Bool.true_or, ↓reduceIte] at h
  repeat' (split at h)
  all_goals (
    first
      | (obtain ⟨resp, hresp, h⟩ := bind_eq_ok.1 h
         refine hfin _ ?_ h
         simp [AppendSent, newMsgs, hx4, List.drop_left])
      | (refine hfin _ ?_ h
         simp [AppendSent, newMsgs, hx4, List.drop_left]))

end RaftVerif.Live
