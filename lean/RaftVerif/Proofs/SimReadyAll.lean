import RaftVerif.Proofs.SimReadyRound
import RaftVerif.Proofs.SimLog
/-!
# Proofs/SimReadyAll — the environment step `syncRound`, final form (no abstract hypotheses)

`sim_syncRound_all`: from `NodeInv`, `AuxInv`, `Settled` and "only promises in `msgsAfterAppend`" the sync-mode round
`Ready; persist; Advance` is simulated by Spec actions of the node, all four are re-established, and the released
messages satisfy `NetOK` and `NetFrom`.  `maa_isPromise_step` / `maa_isPromise_tick`: the last invariant is kept by
every `Raft.step` and by `Raft.tick`.
-/
namespace RaftVerif.Sim
open Refine Raft
set_option linter.unusedSimpArgs false

/-- a `Routed` transition keeps "only promises in `msgsAfterAppend`" -/
theorem maa_isPromise_routed {r r' : Raft} (hr : Routed r r')
    (h : ∀ m ∈ r.msgsAfterAppend, isPromise m.typ = true) : ∀ m ∈ r'.msgsAfterAppend, isPromise m.typ = true := by
  obtain ⟨suf, hsuf, hp⟩ := hr.maa
  intro m hm
  rw [hsuf] at hm
  rcases List.mem_append.1 hm with h1 | h1
  · exact h m h1
  · exact hp m h1

/-- **every `Raft.step`** keeps "only promises in `msgsAfterAppend`" -/
theorem maa_isPromise_step {r r' : Raft} {m : Message} {e : Option StepErr} {fuel : Nat}
    (h : ∀ x ∈ r.msgsAfterAppend, isPromise x.typ = true) (hrun : (Raft.step fuel m).run r = .ok (e, r')) :
    ∀ x ∈ r'.msgsAfterAppend, isPromise x.typ = true :=
  maa_isPromise_routed ((Raft.step_routed' fuel m r).elim hrun) h

/-- **`Raft.tick`** keeps "only promises in `msgsAfterAppend`" -/
theorem maa_isPromise_tick {r r' : Raft} (h : ∀ x ∈ r.msgsAfterAppend, isPromise x.typ = true)
    (hrun : Raft.tick.run r = .ok ((), r')) : ∀ x ∈ r'.msgsAfterAppend, isPromise x.typ = true :=
  maa_isPromise_routed ((Raft.tick_routed r).elim hrun) h

/-- supplying draws does not touch the promise queue -/
theorem maa_isPromise_withDraws {r : Raft} (draws : List Nat)
    (h : ∀ x ∈ r.msgsAfterAppend, isPromise x.typ = true) :
    ∀ x ∈ ({ r with draws := draws } : Raft).msgsAfterAppend, isPromise x.typ = true := h

/-- **the environment step `syncRound`** (sync-mode `Ready`; persist entries and hard state; `Advance`) is simulated
by Spec `write n; persist n`, one `sendVote` / `sendAck` per released non-rejecting promise, and the actions of the
node's own promises stepped by `Advance`; `NodeInv`, `AuxInv`, `Settled` and the shape of the promise queue are kept;
the released messages are justified by the new soup and are not self-addressed appends / heartbeats / vote requests -/
theorem sim_syncRound_all {val : Val} {voters : List Id} {n : Nat} {s : Spec.State} {rn rn' : RawNode} {rd : Ready}
    {draws : List Nat} (hinv : NodeInv val voters n rn (s.nodes n) s.msgs) (haux : AuxInv n rn.raft)
    (hset : Settled rn.raft) (hprom : ∀ m ∈ rn.raft.msgsAfterAppend, isPromise m.typ = true)
    (hreach : Spec.Reachable (cfgOf voters) s) (h : syncRound rn draws = .ok (rd, rn')) :
    ∃ as s', RunL (cfgOf voters) s as s' ∧ (∀ a ∈ as, a.actor = n) ∧
      NodeInv val voters n rn' (s'.nodes n) s'.msgs ∧ (∀ m ∈ rd.messages, NetOK val s'.msgs m) ∧
      AuxInv n rn'.raft ∧ Settled rn'.raft ∧ (∀ m ∈ rn'.raft.msgsAfterAppend, isPromise m.typ = true) ∧
      (∀ m ∈ rd.messages, NetFrom m) := by
  obtain ⟨as, s', h1, h2, h3, h4, ⟨h5, h6, h7⟩, h8⟩ := sim_syncRound2 hinv ⟨haux, hset, hprom⟩ hreach h
  exact ⟨as, s', h1, h2, h3, h4, h5, h6, h7, h8⟩

end RaftVerif.Sim
