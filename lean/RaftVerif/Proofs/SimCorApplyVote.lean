import RaftVerif.Proofs.SimCorCommit
import RaftVerif.Props.SpecSafety
/-!
# Proofs/SimCorApplyVote — C02: a live leader was elected by a majority of *stored* votes
-/
namespace RaftVerif.SimCorP
open Sim Refine Simulation

/-- a live leader `l` of term `T`: there is a strict majority `q` of the voters such that the stored hard state of
every present member of `q` is beyond `T`, or is at `T` with the vote for `l` -/
theorem leader_stored_votes {voters : List Id} {c0 c : Cluster} (h : Setting voters c0 c)
    {l : Nat} {rl : RawNode} (hl : c.nodes l = some rl) (hlead : rl.raft.state = .leader) :
    ∃ q : List Nat, q.Sublist voters ∧ voters.length < 2 * q.length ∧
      ∀ v ∈ q, ∀ rv, c.nodes v = some rv →
        (hsOf rv true).term > rl.raft.term ∨
          ((hsOf rv true).term = rl.raft.term ∧ (hsOf rv true).vote = l) := by
  obtain ⟨s, hs, hR⟩ := h.related (fun _ _ => 0)
  have hi := Spec.inv1_reachable _ h.cfgOK s hs
  obtain ⟨hel, _⟩ := leader_facts h hs hR hl hlead
  obtain ⟨A, hA, hall⟩ := hi.elected_quorum _ _ hel
  refine ⟨voters.filter (fun v => A.contains v), List.filter_sublist, quorum_filter h.ne hA,
    fun v hv rv hrv => ?_⟩
  have hvA : v ∈ A := by
    have := (List.mem_filter.mp hv).2
    simpa using this
  have h1 := hall v hvA
  have V := viewOK hR hrv true
  have hok : Spec.VerOK (s.nodes v).dur := (hi.nodes v).vers _ (by simp [Spec.versions])
  have h2 := hok.votes_le _ _ h1
  have Vt : (s.nodes v).dur.term = (hsOf rv true).term := V.term
  have Vv : (s.nodes v).dur.vote = (hsOf rv true).vote := V.vote
  rw [← Vt, ← Vv]
  rcases Nat.lt_or_ge rl.raft.term (s.nodes v).dur.term with h3 | h3
  · exact Or.inl h3
  · have h4 : (s.nodes v).dur.term = rl.raft.term := by omega
    refine Or.inr ⟨h4, ?_⟩
    rw [← h4] at h1
    exact hok.votes_cur l h1

end RaftVerif.SimCorP
