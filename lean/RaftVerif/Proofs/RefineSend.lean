import RaftVerif.Proofs.RefineStep
import RaftVerif.Proofs.FlowSend
import RaftVerif.Props.C06Local
/-!
# Proofs/RefineSend — what a leader puts on the wire refines Spec `sendApp` / `sendHb`

`maybeSendAppend` (raft.go:590-654) either sends nothing, a snapshot, or one MsgApp.  For a well-formed
uncompacted log the MsgApp is **exactly** the message Spec `sendApp n prev cnt commit` creates:
`prev = Next - 1`, `logTerm = termAt prev`, the entries are `(log.drop prev).take cnt` for some `cnt` with
`prev + cnt ≤ length`, `commit = committed`.
-/
namespace RaftVerif.Refine
open Raft
set_option linter.unusedSimpArgs false

/-- the MsgApp `maybeSendAppend` queues, as it leaves `send` -/
def appMsgOut (to : Id) (r : Raft) (prev prevTerm : Nat) (ents : List Entry) : Message :=
  { typ := .app, to := to, «from» := r.cfg.id, term := r.term, index := prev, logTerm := prevTerm,
    entries := ents, commit := r.log.committed }

theorem stamp_appMsg (to : Id) (r : Raft) (pr : Progress) (prevTerm : Nat) (ents : List Entry) :
    stamp r (appMsg to r pr prevTerm ents) = appMsgOut to r (usub pr.next 1) prevTerm ents := by
  simp [stamp, appMsg, appMsgOut]

/-- sharper form of `maybeSendAppend_outcome`: where the entries of the MsgApp come from -/
theorem maybeSendAppend_outcome_ents (to : Id) (b : Bool) (r r' : Raft) (res : Bool)
    (h : (maybeSendAppend to b).run r = .ok (res, r')) :
    ∃ pr, r.trk.getProgress to = some pr ∧
      ((res = false ∧ r' = r) ∨
       (res = true ∧ to ≠ r.cfg.id ∧ r' = afterSnap to r pr) ∨
       (res = true ∧ to ≠ r.cfg.id ∧
         ∃ prevTerm ents pr', r.log.term (usub pr.next 1) = .ok prevTerm ∧
           (ents = [] ∨ r.log.entries pr.next r.cfg.maxMsgSize = .ok (.ok ents)) ∧
           r' = afterApp to r pr pr' prevTerm ents)) := by
  rw [maybeSendAppend_run] at h
  cases hg : r.trk.getProgress to with
  | none => rw [hg] at h; cases h
  | some pr =>
    rw [hg] at h
    refine ⟨pr, rfl, ?_⟩
    simp only at h
    split at h
    · injection h with h; injection h with h1 h2; exact Or.inl ⟨h1.symm, h2.symm⟩
    · cases hterm : r.log.term (usub pr.next 1) with
      | error e =>
        rw [hterm] at h
        rcases maybeSendSnapshot_outcome to pr r r' res h with h' | ⟨h1, h2, h3⟩
        · exact Or.inl h'
        · exact Or.inr (Or.inl ⟨h1, h2, h3⟩)
      | ok prevTerm =>
        rw [hterm] at h
        simp only at h
        split at h
        · cases hents : r.log.entries pr.next r.cfg.maxMsgSize with
          | error e => rw [hents] at h; cases h
          | ok v =>
            rw [hents] at h
            cases v with
            | error e =>
              rcases appTail_err_outcome to b r r' pr prevTerm res h with h' | ⟨h1, h2, h3⟩
              · exact Or.inl h'
              · exact Or.inr (Or.inl ⟨h1, h2, h3⟩)
            | ok es =>
              rcases appTail_outcome to b r r' pr prevTerm es res h with h' | ⟨h1, h2, _, pr', _, h5⟩
              · exact Or.inl h'
              · exact Or.inr (Or.inr ⟨h1, h2, prevTerm, es, pr', rfl, Or.inr rfl, h5⟩)
        · rcases appTail_outcome to b r r' pr prevTerm [] res h with h' | ⟨h1, h2, _, pr', _, h5⟩
          · exact Or.inl h'
          · exact Or.inr (Or.inr ⟨h1, h2, prevTerm, [], pr', rfl, Or.inl rfl, h5⟩)

/-- the message is the one Spec `sendApp n prev cnt commit` puts into the soup -/
structure SendAppOK (val : Val) (r : Raft) (x : Message) : Prop where
  typ : x.typ = .app
  frm : x.from = r.cfg.id
  term : x.term = r.term
  commit : x.commit ≤ r.log.committed
  bound : x.index + x.entries.length ≤ (absLog val r).length
  logTerm : (absLog val r).termAt x.index = some x.logTerm
  ents : x.entries.map (absEnt val) = ((absLog val r).drop x.index).take x.entries.length
  contig : Contig (x.index + 1) x.entries

/-- the entries `raftLog.entries(next, max)` returns are a prefix of the log from `next` on -/
theorem entries_prefix (val : Val) {l : RaftLog} (hwf : l.WF) (hu : Uncompacted l) {i mx : Nat} {es : List Entry}
    (h : l.entries i mx = .ok (.ok es)) (hi : 1 ≤ i) :
    es.map (absEnt val) = ((absLogL val l).drop (i - 1)).take es.length ∧
    (i - 1) + es.length ≤ (absLogL val l).length ∨ es = [] := by
  rw [RaftLog.entries_eq hwf] at h
  have hb := hu.base
  split at h
  · injection h with h; injection h with h
    exact Or.inr h.symm
  · split at h
    · injection h with h; cases h
    · rename_i h1 h2
      injection h with h; injection h with h
      left
      have hpre := limitSize_prefix (l.abs.slice i (l.abs.last + 1)) mx
      rw [h] at hpre
      have hsl : l.abs.slice i (l.abs.last + 1) = l.abs.ents.drop (i - 1) := by
        unfold ALog.slice ALog.last
        rw [hb.1]
        simp only [Nat.zero_add]
        rw [List.take_of_length_le (by simp only [List.length_drop]; omega)]
      rw [hsl] at hpre
      have hlen := hpre.length_le
      simp only [List.length_drop] at hlen
      have heq : es = (l.abs.ents.drop (i - 1)).take es.length := List.prefix_iff_eq_take.mp hpre
      refine ⟨?_, ?_⟩
      · unfold absLogL
        rw [← List.map_drop, ← List.map_take, ← heq]
      · simp only [absLogL_length]
        unfold ALog.last ALog.first at *
        omega

theorem entries_contig {l : RaftLog} (hwf : l.WF) {i mx : Nat} {es : List Entry}
    (h : l.entries i mx = .ok (.ok es)) : Contig i es := by
  rw [RaftLog.entries_eq hwf] at h
  split at h
  · injection h with h; injection h with h
    subst h; exact Contig.nil _
  · split at h
    · injection h with h; cases h
    · rename_i h1 h2
      injection h with h; injection h with h
      have hc := ALog.slice_contig hwf.abs_wf (lo := i) (hi := l.abs.last + 1) (Nat.le_of_not_lt h2)
      have hpre := limitSize_prefix (l.abs.slice i (l.abs.last + 1)) mx
      rw [h] at hpre
      rw [List.prefix_iff_eq_take.mp hpre]
      exact hc.take _

/-- **`maybeSendAppend`**: nothing but `msgs` and `trk.progress` changes, and a MsgApp that is queued is a
Spec `sendApp` message of the sender's current log -/
theorem maybeSendAppend_refine (val : Val) (to : Id) (b : Bool) (r r' : Raft) (res : Bool)
    (hwf : r.log.WF) (hu : Uncompacted r.log)
    (h : (maybeSendAppend to b).run r = .ok (res, r')) :
    r'.msgs = r.msgs ∨
    (∃ x, r'.msgs = r.msgs ++ [x] ∧ x.typ = .snap) ∨
    (∃ x, r'.msgs = r.msgs ++ [x] ∧ x.to = to ∧ to ≠ r.cfg.id ∧ SendAppOK val r x) := by
  obtain ⟨pr, _, hcase⟩ := maybeSendAppend_outcome_ents to b r r' res h
  rcases hcase with ⟨_, rfl⟩ | ⟨_, _, rfl⟩ | ⟨_, hto, prevTerm, ents, pr', hterm, hents, rfl⟩
  · exact Or.inl rfl
  · exact Or.inr (Or.inl ⟨_, rfl, by simp⟩)
  · refine Or.inr (Or.inr ⟨_, rfl, by simp [appMsg], hto, ?_⟩)
    rw [stamp_appMsg]
    have hta : (absLog val r).termAt (usub pr.next 1) = some prevTerm :=
      (term_ok_iff_termAt val hwf hu _ _).1 hterm
    have hle := Spec.Log.termAt_le hta
    rcases hents with rfl | hents
    · exact ⟨rfl, rfl, rfl, Nat.le_refl _, by simpa [appMsgOut] using hle, hta, by simp [appMsgOut],
        Contig.nil _⟩
    · -- `next ≥ 1`: otherwise `entries 0` is below the first index
      by_cases hn : 1 ≤ pr.next
      · have hus : usub pr.next 1 = pr.next - 1 := by unfold usub; rw [if_pos hn]
        have hcontig := entries_contig hwf hents
        rcases entries_prefix val hwf hu hents hn with ⟨h1, h2⟩ | rfl
        · refine ⟨rfl, rfl, rfl, Nat.le_refl _, ?_, hta, ?_, ?_⟩
          · show usub pr.next 1 + ents.length ≤ (absLogL val r.log).length
            rw [hus]; exact h2
          · show ents.map (absEnt val) = ((absLogL val r.log).drop (usub pr.next 1)).take ents.length
            rw [hus]; exact h1
          · simp only [appMsgOut, hus]
            rw [show pr.next - 1 + 1 = pr.next by omega]; exact hcontig
        · exact ⟨rfl, rfl, rfl, Nat.le_refl _, by simpa [appMsgOut] using hle, hta, by simp [appMsgOut],
            Contig.nil _⟩
      · have hn0 : pr.next = 0 := by omega
        rw [hn0, RaftLog.entries_eq hwf] at hents
        have hb := hu.base
        split at hents
        · rename_i hgt; omega
        · split at hents
          · injection hents with hents; cases hents
          · rename_i h2; unfold ALog.first at h2; omega

/-! ### loops of sends -/

/-- log, term and configuration are kept and everything appended to `msgs` is a snapshot or a Spec `sendApp`
message of that log -/
structure SendsOK (val : Val) (s s' : Raft) : Prop where
  log : s'.log = s.log
  term : s'.term = s.term
  cfg : s'.cfg = s.cfg
  state : s'.state = s.state
  maa : s'.msgsAfterAppend = s.msgsAfterAppend
  msgs : ∃ added, s'.msgs = s.msgs ++ added ∧ ∀ x ∈ added, x.typ = .snap ∨ SendAppOK val s x

theorem SendAppOK.congr {val : Val} {a b : Raft} {x : Message} (h : SendAppOK val b x) (h1 : b.log = a.log)
    (h2 : b.term = a.term) (h3 : b.cfg = a.cfg) : SendAppOK val a x := by
  obtain ⟨c1, c2, c3, c4, c5, c6, c7, c8⟩ := h
  unfold absLog at *
  rw [h1] at c4 c5 c6 c7
  exact ⟨c1, c2.trans (by rw [h3]), c3.trans h2, c4, c5, c6, c7, c8⟩

instance (val : Val) : RelOK (SendsOK val) where
  refl s := ⟨rfl, rfl, rfl, rfl, rfl, [], by simp, by simp⟩
  trans := by
    rintro a b c ⟨l1, t1, c1, s1, q1, ad1, m1, p1⟩ ⟨l2, t2, c2, s2, q2, ad2, m2, p2⟩
    refine ⟨l2.trans l1, t2.trans t1, c2.trans c1, s2.trans s1, q2.trans q1, ad1 ++ ad2, by rw [m2, m1, List.append_assoc], ?_⟩
    intro x hx
    rcases List.mem_append.1 hx with hx | hx
    · exact p1 x hx
    · exact (p2 x hx).imp id (fun h => h.congr l1 t1 c1)

theorem maybeSendAppend_sendsOK (val : Val) (to : Id) (b : Bool) (s : Raft) (hwf : s.log.WF)
    (hu : Uncompacted s.log) : Spec (maybeSendAppend to b) s (fun _ s' => SendsOK val s s') := by
  rw [Spec.iff_runs]
  intro res s' hr
  have hsf := (maybeSendAppend_sf to b s).elim hr
  refine ⟨hsf.log, hsf.term, hsf.cfg, hsf.state, ?_, ?_⟩
  · obtain ⟨pr, _, hcase⟩ := maybeSendAppend_outcome_ents to b s s' res hr
    rcases hcase with ⟨_, rfl⟩ | ⟨_, _, rfl⟩ | ⟨_, _, _, _, _, _, _, rfl⟩ <;> rfl
  · rcases maybeSendAppend_refine val to b s s' res hwf hu hr with h | ⟨x, h, hx⟩ | ⟨x, h, _, _, hx⟩
    · exact ⟨[], by simpa using h, by simp⟩
    · exact ⟨[x], h, by simpa using Or.inl hx⟩
    · exact ⟨[x], h, by simpa using Or.inr hx⟩

/-- the same from a state reached from the anchor `a` by sends -/
theorem maybeSendAppend_sendsOK' (val : Val) (to : Id) (b : Bool) (a s : Raft) (hwf : a.log.WF)
    (hu : Uncompacted a.log) (ha : SendsOK val a s) :
    Spec (maybeSendAppend to b) s (fun _ s' => SendsOK val s s') :=
  maybeSendAppend_sendsOK val to b s (by rw [ha.log]; exact hwf) (by rw [ha.log]; exact hu)

/-- **`bcastAppend`**: everything it queues is a snapshot or a Spec `sendApp` message of the (unchanged) log -/
theorem bcastAppend_sendsOK (val : Val) (s : Raft) (hwf : s.log.WF) (hu : Uncompacted s.log) :
    Spec bcastAppend s (fun _ s' => SendsOK val s s') := by
  unfold bcastAppend progressIds sendAppend
  simp only [wp]
  refine Spec.forIn_list _ _ _ (fun _ s' => SendsOK val s s') s (RelOK.refl s) ?_
  intro id _ u mid hmid
  simp only [wp]
  refine ⟨fun _ => ?_, fun _ => hmid⟩
  exact (maybeSendAppend_sendsOK' val id true s mid hwf hu hmid).mono (fun _ s' h => RelOK.trans hmid h)

/-! ### the Spec side -/

/-- the soup message of a model MsgApp -/
def absApp (val : Val) (x : Message) : Spec.Msg :=
  .app x.term x.index x.logTerm (x.entries.map (absEnt val)) x.commit

/-- a `SendAppOK` message is the one Spec `sendApp n x.index |x.entries| x.commit` sends, and that action
is enabled at a leader -/
theorem sendApp_abs (val : Val) (cfg : Spec.Cfg) {r : Raft} {x : Message} {s : Spec.State} {n : Nat}
    (ha : Abs val r (s.nodes n)) (hs : r.state = .leader) (hx : SendAppOK val r x) :
    Spec.enabled cfg s (.sendApp n x.index x.entries.length x.commit) ∧
    (Spec.apply s (.sendApp n x.index x.entries.length x.commit)).msgs = absApp val x :: s.msgs ∧
    (Spec.apply s (.sendApp n x.index x.entries.length x.commit)).nodes = s.nodes := by
  refine ⟨⟨by rw [ha.role, hs]; rfl, by rw [ha.log]; exact hx.bound, by rw [ha.commit]; exact hx.commit⟩, ?_, rfl⟩
  show Spec.Msg.app _ _ _ _ _ :: s.msgs = _
  unfold absApp
  rw [ha.log, ha.term, hx.logTerm, hx.ents, hx.term]
  rfl

/-- **`sendHeartbeat`**: the heartbeat carries `min(Match, committed)`: the local conjuncts of Spec
`sendHb n to c` (`role = leader`, `c ≤ commit`) hold; `c = 0 ∨ hasAck msgs term to c` — the follower really
acknowledged `c` — is the environment's (it is what `Match` records) -/
theorem sendHeartbeat_refine (val : Val) (cfg : Spec.Cfg) (to : Id) (ctx : Option Bytes) (r r' : Raft)
    (pr : Progress) (s : Spec.State) (n : Nat) (ha : Abs val r (s.nodes n)) (hs : r.state = .leader)
    (hg : r.trk.getProgress to = some pr) (h : (sendHeartbeat to ctx).run r = .ok ((), r')) :
    ∃ x, r'.msgs = r.msgs ++ [x] ∧ x.typ = .heartbeat ∧ x.to = to ∧ x.commit = min pr.match_ r.log.committed ∧
      ((x.commit = 0 ∨ Spec.hasAck s.msgs r.term to x.commit = true) →
        Spec.enabled cfg s (.sendHb n to x.commit)) := by
  obtain ⟨x, h1, h2, h3, h4⟩ := C06L.sendHeartbeat_commit_clamped to ctx r r' pr hg h
  refine ⟨x, h1, h2, h3, h4, fun hsoup => ⟨by rw [ha.role, hs]; rfl, ?_, ?_⟩⟩
  · rw [ha.commit, h4]; exact Nat.min_le_right _ _
  · rw [ha.term]; exact hsoup

end RaftVerif.Refine
