import RaftVerif.Proofs.StepTick
/-!
# Proofs/StepVote — the vote / pre-vote paths of `Step` (C17, C02)
-/
namespace RaftVerif
namespace Raft
set_option linter.unusedSimpArgs false

/-- symbolic execution that also evaluates conditions on constructors (`m.typ` known) -/
macro "wp_auto_ev" "[" step:tactic "]" : tactic =>
  `(tactic| repeat' (first
      | simp (config := {zeta := false, decide := true}) only
          [wp, beq_iff_eq, bne_iff_ne, ne_eq, Bool.or_eq_true, Bool.and_eq_true, Bool.not_eq_true', reduceCtorEq,
           false_or, or_false, true_or, or_true, false_and, and_false, true_and, and_true, not_true_eq_false,
           not_false_eq_true, false_implies, true_implies, implies_true]
      | refine And.intro ?_ ?_ | trivial | rel_acc
      | intro _ | spec_match | spec_let | jp_use
      | ($step:tactic) | fail "wp_auto: stuck"))

/-- a MsgPreVote (any term, any content) only makes the node send: nothing but the queues changes -/
theorem step_preVote_sf (fuel : Nat) (m : Message) (s : Raft) (h : m.typ = .preVote) :
    Spec (step fuel m) s (fun _ s' => SendFrame s s') := by
  cases fuel with
  | zero => rw [step]; simp only [wp]
  | succ fuel =>
    obtain ⟨typ, to, frm, term, logTerm, index, entries, commit, vote, snapshot, reject, rejectHint, context, responses⟩ := m
    simp only at h
    subst h
    rw [step]
    rel_start
    wp_auto_ev [sf_step]

/-- in-lease vote / pre-vote requests of a higher term are dropped without any effect -/
theorem step_inLease_tot (fuel : Nat) (m : Message) (s : Raft)
    (hq : s.cfg.checkQuorum = true) (hl : s.lead ≠ 0) (he : s.electionElapsed < s.cfg.electionTimeout)
    (ht : m.typ = .vote ∨ m.typ = .preVote) (hterm : m.term > s.term)
    (hc : m.context ≠ some campaignTransferCtx) :
    Tot (step (fuel + 1) m) s (fun e s' => e = none ∧ s' = s) := by
  rw [step]
  simp only [tot]
  have h0 : ¬ (m.term == 0) = true := by simp; omega
  have h1 : (m.typ == MsgType.vote || m.typ == MsgType.preVote) = true := by
    rcases ht with h | h <;> simp [h]
  have h2 : (!(m.context == some campaignTransferCtx) &&
      (s.cfg.checkQuorum && s.lead != 0 && decide (s.electionElapsed < s.cfg.electionTimeout))) = true := by
    simp [hq, hl, he, hc]
  simp only [h0, h1, h2, hterm, true_and, false_and, not_true_eq_false, or_false, false_or, not_false_eq_true,
    Bool.false_eq_true, and_self]

/-- the response to a vote request -/
def voteResp (s : Raft) (m : Message) (reject : Bool) : Message :=
  stamped s { to := m.from, term := if reject then s.term else m.term, typ := .voteResp, reject := reject }

theorem step_vote_same_term_spec (fuel : Nat) (m : Message) (s : Raft) (ht : m.typ = .vote)
    (hterm : m.term = s.term) :
    Spec (step (fuel + 1) m) s (fun e s' => e = none ∧
      ∃ b, s.log.isUpToDate { term := m.logTerm, index := m.index } = .ok b ∧
        ((((s.vote == m.from || (s.vote == 0 && s.lead == 0)) && b) = true ∧
            s' = { s with msgsAfterAppend := s.msgsAfterAppend ++ [voteResp s m false],
                          electionElapsed := 0, vote := m.from }) ∨
         (((s.vote == m.from || (s.vote == 0 && s.lead == 0)) && b) = false ∧
            s' = { s with msgsAfterAppend := s.msgsAfterAppend ++ [voteResp s m true] }))) := by
  obtain ⟨typ, to, frm, term, logTerm, index, entries, commit, vote, snapshot, reject, rejectHint, context, responses⟩ := m
  simp only at ht hterm
  subst ht; subst hterm
  rw [step]
  simp (config := {decide := true}) only
          [wp, beq_iff_eq, bne_iff_ne, ne_eq, Bool.or_eq_true, Bool.and_eq_true, Bool.not_eq_true', reduceCtorEq,
           false_or, or_false, true_or, or_true, false_and, and_false, true_and, and_true, not_true_eq_false,
           not_false_eq_true, false_implies, true_implies, implies_true, gt_iff_lt, Nat.lt_irrefl, voteRespMsgType]
  refine ⟨fun h0 e he a ha => ⟨fun hc => ?_, fun hc => ?_⟩, fun h0 e he a ha => ⟨fun hc => ?_, fun hc => ?_⟩⟩
  all_goals (refine (send_spec _ s).mono ?_; rintro _ mid (⟨_, rfl⟩ | ⟨hp, _⟩))
  all_goals first
    | (simp [isPromise] at hp; done)
    | (refine ⟨a, ha, ?_⟩; simp [voteResp, hc]; first | done | (intro h; cases a <;> simp_all))


theorem stamped_voteResp (s : Raft) (m : Message) (h : m.typ = .voteResp) :
    (stamped s m).typ = .voteResp ∧ (stamped s m).to = m.to ∧ (stamped s m).reject = m.reject ∧
    (stamped s m).term = m.term := by
  obtain ⟨typ, to, frm, term, logTerm, index, entries, commit, vote, snapshot, reject, rejectHint, context, responses⟩ := m
  simp only at h
  subst h
  unfold stamped
  by_cases hf : frm = 0 <;> simp [hf]

end Raft
end RaftVerif
