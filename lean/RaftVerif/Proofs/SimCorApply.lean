import RaftVerif.Proofs.SimCorApplyVote
import RaftVerif.Props.C08Raw
/-!
# Proofs/SimCorApply — what a `syncRound` hands to the application is a piece of the committed log
-/
namespace RaftVerif.SimCorP
open Sim Refine Simulation

/-- the `Ready` of a round is the `Ready` computed from the state *before* the round -/
theorem syncRound_ready {rn rn' : RawNode} {rd : Ready} {draws : List Nat}
    (h : syncRound rn draws = .ok (rd, rn')) : rn.readyWithoutAccept = .ok rd := by
  unfold syncRound at h
  obtain ⟨⟨rd1, rn1⟩, hr, h⟩ := bind_eq_ok.1 h
  obtain ⟨rn2, _, h⟩ := bind_eq_ok.1 h
  obtain ⟨rn3, _, h⟩ := bind_eq_ok.1 h
  simp only [pure, Except.pure, Except.ok.injEq, Prod.mk.injEq] at h
  obtain ⟨rfl, _⟩ := h
  exact (Raw.apply_ready_split rn rn1 rd1 hr).1

/-- the entries handed out by a round of a node with a well-formed, uncompacted log -/
theorem handed_out_of_wf {rn rn' : RawNode} {rd : Ready} {draws : List Nat} (hwf : rn.raft.log.WF)
    (hb : rn.raft.log.abs.base = 0) (h : syncRound rn draws = .ok (rd, rn')) {e : Entry}
    (he : e ∈ rd.committedEntries) :
    1 ≤ e.index ∧ rn.raft.log.applying < e.index ∧ e.index ≤ rn.raft.log.committed ∧
      rn.raft.log.abs.ents[e.index - 1]? = some e := by
  obtain ⟨_, _, _, _, _, _, hall⟩ := C08R.ready_committed_contiguous rn rd hwf (syncRound_ready h)
  obtain ⟨h1, h2, h3⟩ := hall e he
  refine ⟨by omega, h1, h2, ?_⟩
  unfold ALog.entry? at h3
  rw [hb] at h3
  have : 0 < e.index := by omega
  simpa [this] using h3

/-- for a node of a reachable cluster -/
theorem handed_out_views {voters : List Id} {c0 c : Cluster} (h : Setting voters c0 c)
    {n : Nat} {rn rn' : RawNode} (hn : c.nodes n = some rn) {rd : Ready} {draws : List Nat}
    (hr : syncRound rn draws = .ok (rd, rn')) {e : Entry} (he : e ∈ rd.committedEntries) :
    1 ≤ e.index ∧ rn.raft.log.applying < e.index ∧ e.index ≤ rn.raft.log.committed ∧
      rn.raft.log.abs.ents[e.index - 1]? = some e := by
  obtain ⟨s, _, hR⟩ := h.related (fun _ _ => 0)
  exact handed_out_of_wf (hR.rs.ra.base.nodes n rn hn).inv.wf (base_zero hR hn).1 hr he

/-- the hand-out of a round is a run of consecutive indexes starting right after the `applying` cursor -/
theorem handed_out_contig {voters : List Id} {c0 c : Cluster} (h : Setting voters c0 c)
    {n : Nat} {rn rn' : RawNode} (hn : c.nodes n = some rn) {rd : Ready} {draws : List Nat}
    (hr : syncRound rn draws = .ok (rd, rn')) (k : Nat) (hk : k < rd.committedEntries.length) :
    rd.committedEntries[k].index = rn.raft.log.applying + 1 + k := by
  obtain ⟨s, _, hR⟩ := h.related (fun _ _ => 0)
  obtain ⟨_, _, _, _, _, hall, _⟩ :=
    C08R.ready_committed_contiguous rn rd (hR.rs.ra.base.nodes n rn hn).inv.wf (syncRound_ready hr)
  exact (hall k hk).1

end RaftVerif.SimCorP
