import RaftVerif.Proofs.NoPanicVoteResp
import RaftVerif.Proofs.NoPanicHb
/-!
# Proofs/NoPanicKeep — "a leader's progress table stays well-formed" for the cheap steps

`KeepsProg r' := r'.state = .leader → ProgWF r'`.  For a message of the node's own term (or a local message), from
`RaftInv` and `r.state = .leader → ProgWF r`, the state after the step satisfies `KeepsProg`.
-/
set_option linter.unusedSimpArgs false
namespace RaftVerif.NoPanicP
open Raft C14 Sim Refine Live

/-- the invariant kept: a leader's progress table is well-formed -/
def KeepsProg (r : Raft) : Prop := r.state = .leader → ProgWF r

/-- a run equation `= .ok (a, r)` gives any postcondition that holds of `r` -/
theorem spec_of_run_eq {α} {act : M α} {r : Raft} {a : α} {Q : α → Raft → Prop}
    (h : act.run r = .ok (a, r)) (hq : Q a r) : Spec act r Q := by
  rw [Spec.iff_runs]
  intro b r' hb
  unfold Runs at hb
  rw [h] at hb
  injection hb with hb; injection hb with e1 e2; subst e1 e2; exact hq

/-- transport a `Spec` along a run equation -/
theorem spec_of_run_congr {α} {act act' : M α} {r : Raft} {Q : α → Raft → Prop}
    (h : act.run r = act'.run r) (hs : Spec act' r Q) : Spec act r Q := by
  rw [Spec.iff_runs]
  intro b r' hb
  unfold Runs at hb
  rw [h] at hb
  exact hs.elim hb

/-! ### 1. MsgHeartbeatResp -/

theorem hbResp_keeps_prog' {r : Raft} (fuel : Nat) (m : Message) (ht : m.typ = .heartbeatResp)
    (hterm : m.term = r.term) (hctx : m.context = none) (hwf : r.log.WF) (hunc : Uncompacted r.log)
    (hp : r.state = .leader → ProgWF r) :
    Spec (Raft.step (fuel + 1) m) r (fun _ r' => r'.state = .leader → ProgWF r') := by
  by_cases hs : r.state = .leader
  · refine spec_of_run_congr
      (step_leader_dispatch fuel m r hs (Or.inr hterm) (Or.inr (Or.inr (Or.inr (Or.inl ht))))) ?_
    cases hg : r.trk.getProgress m.from with
    | none =>
      exact spec_of_run_eq (stepLeader_noProgress_run fuel m r (Or.inr (Or.inr (Or.inl ht))) hg) hp
    | some pr =>
      have hpr := hp hs m.from pr hg
      have hmid : ProgWF (hbMid r m pr) := (hp hs).setProgress m.from _ hpr.1 hpr.2
      rw [Spec.iff_runs]
      intro res r' h
      intro _
      rcases hbResp_stepLeader_inv fuel m r r' res pr ht hctx hg h with rfl | ⟨b, hb⟩
      · exact hmid
      · exact (maybeSendAppend_keepWF (hbMid r m pr) m.from true hwf hunc hmid).elim hb
  · refine spec_of_run_congr (step_same_term_dispatch fuel m r (Or.inr hterm) (by rw [ht]; decide)) ?_
    unfold dispatch
    cases hstt : r.state with
    | leader => exact absurd hstt hs
    | candidate => exact spec_of_run_eq (hbResp_stepCandidate_run fuel m r ht) hp
    | preCandidate => exact spec_of_run_eq (hbResp_stepCandidate_run fuel m r ht) hp
    | follower => exact spec_of_run_eq (hbResp_stepFollower_run fuel m r ht) hp

/-- **MsgHeartbeatResp of the node's own term keeps a leader's progress table well-formed** -/
theorem hbResp_keeps_prog {val : Val} {voters : List Id} {n : Nat} {r : Raft} {nd : Spec.Node} {msgs}
    (hinv : RaftInv val voters n r nd msgs) (fuel : Nat) (m : Message) (ht : m.typ = .heartbeatResp)
    (hterm : m.term = r.term) (hctx : m.context = none) (hp : r.state = .leader → ProgWF r) :
    Spec (Raft.step (fuel + 1) m) r (fun _ r' => r'.state = .leader → ProgWF r') :=
  hbResp_keeps_prog' fuel m ht hterm hctx hinv.wf hinv.unc hp

/-! ### 2. MsgVoteResp -/

/-- every progress has `match_ < next` after `becomeLeader` -/
theorem becomeLeader_match (p : Raft) :
    Spec Raft.becomeLeader p (fun _ s1 => ∀ v pr, s1.trk.getProgress v = some pr → pr.match_ < pr.next) := by
  unfold Raft.becomeLeader
  simp only [wp]
  refine ⟨fun _ => trivial, fun hne => ?_⟩
  refine (Spec.runs (Raft.reset p.term) p).mono ?_
  intro _ mid hrun
  obtain ⟨d, rest, _, rfl⟩ := vr_reset_run_exact hrun
  intro pr hpr
  have hcid : (Next.resetSt p p.term d rest).cfg.id = p.cfg.id := rfl
  rw [vr_resetSt_getProgress, hcid] at hpr
  rw [hcid]
  refine (appendEntry_spec_st _ _).mono ?_
  rintro ok s' (⟨rfl, rfl⟩ | ⟨rfl, q, _, rfl⟩)
  · exact ⟨fun _ => trivial, fun h => absurd h (by simp)⟩
  · refine ⟨fun h => absurd h (by simp), fun _ => ?_⟩
    cases hq : p.trk.getProgress p.cfg.id with
    | none => rw [hq] at hpr; cases hpr
    | some pr0 =>
      rw [hq] at hpr
      injection hpr with hpr
      intro v pv hv
      change Tracker.getProgress (Tracker.setProgress _ _ _) v = some pv at hv
      rw [getProgress_setProgress] at hv
      by_cases he : p.cfg.id = v
      · rw [if_pos he] at hv
        injection hv with hv
        rw [← hv, ← hpr]
        simp [Progress.becomeReplicate, Progress.resetState, vrResetPr]
      · rw [if_neg he, vr_resetSt_getProgress] at hv
        cases hq2 : p.trk.getProgress v with
        | none => rw [hq2] at hv; cases hv
        | some pv0 =>
          rw [hq2] at hv
          injection hv with hv
          rw [← hv]
          have hne : (v == p.cfg.id) = false := by
            rw [beq_eq_false_iff_ne]; exact fun h => he h.symm
          simp [vrResetPr, hne]

/-- the fresh leader's progress table is well-formed -/
theorem becomeLeader_progWF (p : Raft) (hwf : p.log.WF) (hu : Uncompacted p.log) :
    Spec Raft.becomeLeader p (fun _ s1 => s1.log.WF ∧ Uncompacted s1.log ∧ ProgWF s1) := by
  refine ((becomeLeader_ready p hwf hu).and (becomeLeader_match p)).mono ?_
  rintro _ s1 ⟨hr, hm⟩
  exact ⟨hr.wf, hr.unc, fun id pr hg => ⟨hm id pr hg, (hr.prog id pr hg).2⟩⟩

theorem voteResp_keeps_prog' {r : Raft} (fuel : Nat) (m : Message) (ht : m.typ = .voteResp)
    (hterm : m.term = r.term) (hwf : r.log.WF) (hunc : Uncompacted r.log)
    (hp : r.state = .leader → ProgWF r) :
    Spec (Raft.step (fuel + 1) m) r (fun _ r' => r'.state = .leader → ProgWF r') := by
  refine spec_of_run_congr (step_same_term_dispatch fuel m r (Or.inr hterm) (by rw [ht]; decide)) ?_
  by_cases hs : r.state = .candidate
  · have hdd : dispatch fuel m r = Raft.stepCandidate fuel m := by unfold dispatch; rw [hs]
    rw [hdd]
    refine (stepCandidate_voteResp_leader fuel m r hs ht).mono ?_
    intro e r' h hl
    obtain ⟨_, _, _, s1, h1, _, _, h2⟩ := h hl
    obtain ⟨w1, u1, p1⟩ := (becomeLeader_progWF (polled r m) hwf hunc).elim h1
    exact (bcastAppend_keepWF s1 w1 u1 p1).elim h2
  · exact spec_of_run_eq (dispatch_voteResp_ignored fuel m r hs ht) hp

/-- **MsgVoteResp of the node's own term keeps (establishes) a leader's well-formed progress table** -/
theorem voteResp_keeps_prog {val : Val} {voters : List Id} {n : Nat} {r : Raft} {nd : Spec.Node} {msgs}
    (hinv : RaftInv val voters n r nd msgs) (fuel : Nat) (m : Message) (ht : m.typ = .voteResp)
    (hterm : m.term = r.term) (hp : r.state = .leader → ProgWF r) :
    Spec (Raft.step (fuel + 1) m) r (fun _ r' => r'.state = .leader → ProgWF r') :=
  voteResp_keeps_prog' fuel m ht hterm hinv.wf hinv.unc hp

/-! ### 3. tick -/

theorem sendHeartbeat_keepWF (to : Id) (ctx : Option Bytes) (r : Raft) (hp : ProgWF r) :
    Spec (sendHeartbeat to ctx) r (fun _ r' => ProgWF r' ∧ r'.log = r.log) := by
  rw [Spec.iff_runs]
  intro u s' h
  unfold Runs sendHeartbeat at h
  obtain ⟨pr, r1, h1, hA⟩ := bind_ok h
  obtain ⟨e1, hg⟩ := getPr_ok h1; subst e1
  obtain ⟨r0, r2, h2, hB⟩ := bind_ok hA
  obtain ⟨e0, e2⟩ := get_ok h2; subst e0 e2
  obtain ⟨u3, r3, h3, hC⟩ := bind_ok hB
  obtain ⟨k1, k2, _⟩ := send_keeps _ _ _ _ h3
  have e4 := setPr_ok hC; subst e4
  have hp3 : ProgWF r3 := hp.congr (by rw [k1]) (by rw [k2]; exact Nat.le_refl _)
  have hpr := hp to pr hg
  refine ⟨hp3.setProgress to _ hpr.1 ?_, k2⟩
  show pr.next ≤ r3.log.lastIndex + 1
  rw [k2]; exact hpr.2

theorem bcastHeartbeatWithCtx_keepWF (ctx : Option Bytes) (r : Raft) (hp : ProgWF r) :
    Spec (bcastHeartbeatWithCtx ctx) r (fun _ r' => ProgWF r' ∧ r'.log = r.log) := by
  unfold bcastHeartbeatWithCtx progressIds
  simp only [wp]
  refine Spec.forIn_list _ _ _ (fun _ r2 => ProgWF r2 ∧ r2.log = r.log) r ⟨hp, rfl⟩ ?_
  intro id hmem b r2 ⟨hw, hl⟩
  simp only [wp]
  refine ⟨fun _ => ?_, fun _ => ⟨hw, hl⟩⟩
  exact (sendHeartbeat_keepWF id ctx r2 hw).mono (fun _ _ h => ⟨h.1, h.2.trans hl⟩)

theorem bcastHeartbeat_keepWF (r : Raft) (hp : ProgWF r) :
    Spec bcastHeartbeat r (fun _ r' => ProgWF r' ∧ r'.log = r.log) := by
  unfold bcastHeartbeat
  simp only [wp]
  exact bcastHeartbeatWithCtx_keepWF _ r hp

theorem stepLeader_beat_keepWF (fuel : Nat) (m : Message) (r : Raft) (hm : m.typ = .beat) (hp : ProgWF r) :
    Spec (stepLeader fuel m) r (fun _ r' => ProgWF r') := by
  rw [Spec.iff_runs]
  intro res r' h
  unfold Runs stepLeader at h
  simp only [hm] at h
  obtain ⟨u1, r1, h1, hA⟩ := bind_ok h
  obtain ⟨_, e⟩ := pure_ok hA; subst e
  exact ((bcastHeartbeat_keepWF r hp).elim h1).1

/-- the `MsgBeat` a leader's tick steps -/
theorem step_beat_keepWF {r : Raft} (hs : r.state = .leader) (hp : ProgWF r) (i : Id) :
    Spec (step stepFuel { typ := .beat, «from» := i }) r (fun _ r' => ProgWF r') := by
  rw [show stepFuel = 2 + 1 from rfl]
  exact spec_of_run_congr (Live.step_leader_dispatch 2 _ r hs (Or.inl rfl) (Or.inr (Or.inl rfl)))
    (stepLeader_beat_keepWF 2 _ r rfl hp)

/-- marking the peers inactive keeps the progress table well-formed -/
theorem ProgWF.clearRA {r : Raft} (hp : ProgWF r) : ProgWF (Live.clearRA r) := by
  intro id pr hg
  rw [Live.getProgress_clearRA] at hg
  cases hq : r.trk.getProgress id with
  | none => rw [hq] at hg; cases hg
  | some pr0 =>
    rw [hq] at hg
    injection hg with hg
    subst hg
    have := hp id pr0 hq
    show (if id = r.cfg.id then pr0 else { pr0 with recentActive := false }).match_ <
        (if id = r.cfg.id then pr0 else { pr0 with recentActive := false }).next ∧
      (if id = r.cfg.id then pr0 else { pr0 with recentActive := false }).next ≤ r.log.lastIndex + 1
    split <;> exact this

theorem tickHeartbeat_keepWF {r : Raft} (hs : r.state = .leader) (hx : r.leadTransferee = 0)
    (hp : ProgWF r) : Spec tickHeartbeat r (fun _ r' => r'.state = .leader → ProgWF r') := by
  rw [Spec.iff_runs]
  intro u r' h
  unfold Runs at h
  obtain ⟨ra, ⟨he, ee, rfl⟩, hcase⟩ := Sim.tickHeartbeat_leader_inv r r' hs hx h
  have hra : ProgWF { r with heartbeatElapsed := he, electionElapsed := ee } :=
    hp.congr rfl (Nat.le_refl _)
  rcases hcase with ⟨rb, hrb, hcase⟩ | ⟨r1, hbf, rfl⟩
  · have hrb' : ProgWF rb := by
      rcases hrb with rfl | rfl
      · exact hra
      · exact hra.clearRA
    rcases hcase with rfl | ⟨res, hb⟩
    · exact fun _ => hrb'
    · exact fun _ => (stepLeader_beat_keepWF 2 _ rb rfl hrb').elim hb
  · intro hl
    have hf : r1.state = .follower := ((Live.becomeFollower_live _ 0 _).elim hbf).2.2.2.1
    have hl' : r1.state = .leader := hl
    rw [hf] at hl'; cases hl'

/-! ### 4. MsgHup -/

/-- `hup` (election or pre-election) never produces a leader: nothing happens, or the node is a (pre-)candidate -/
theorem hup_leader_same (t : CampaignType) (ht : t = .election ∨ t = .preElection) (s : Raft) :
    Spec (hup t) s (fun _ s' => s'.state = .leader → s' = s) := by
  rw [Spec.iff_runs]
  intro u s' h
  unfold Runs at h
  rw [Live.hup_run] at h
  split at h
  · injection h with h; injection h with _ e; subst e; intro _; rfl
  · split at h
    · injection h with h; injection h with _ e; subst e; intro _; rfl
    · cases hu : hasUnappliedConfChanges.run s with
      | error e => rw [hu] at h; simp only [P_error_bind] at h; cases h
      | ok p =>
        obtain ⟨b, s1⟩ := p
        have e1 := (hasUnappliedConfChanges_same s).elim hu; subst e1
        rw [hu] at h
        simp only [P_ok_bind] at h
        split at h
        · injection h with h; injection h with _ e; subst e; intro _; rfl
        · intro hl
          exfalso
          rcases ht with rfl | rfl
          · have := ((Live.campaign_election_spec s1).elim h).1
            rw [this] at hl; cases hl
          · have := ((Live.campaign_preElection_spec s1).elim h).1
            rw [this] at hl; cases hl

/-- a local MsgHup never produces a new leader -/
theorem step_hup_leader_same (fuel : Nat) (m : Message) (r : Raft) (hm : m.typ = .hup) (h0 : m.term = 0) :
    Spec (Raft.step (fuel + 1) m) r (fun _ r' => r'.state = .leader → r' = r) := by
  rw [Spec.iff_runs]
  intro res r' h
  unfold Runs at h
  rw [Live.step_hup_run fuel m r hm h0] at h
  cases hh : (hup (if r.cfg.preVote = true then .preElection else .election)).run r with
  | error e => rw [hh] at h; simp only [P_error_bind] at h; cases h
  | ok p =>
    obtain ⟨u, r1⟩ := p
    rw [hh] at h
    simp only [P_ok_bind] at h
    injection h with h; injection h with _ e; subst e
    refine (hup_leader_same _ ?_ r).elim hh
    split
    · exact Or.inr rfl
    · exact Or.inl rfl

theorem hup_keeps_prog' {r : Raft} (fuel : Nat) (m : Message) (hm : m.typ = .hup) (h0 : m.term = 0)
    (hp : r.state = .leader → ProgWF r) :
    Spec (Raft.step (fuel + 1) m) r (fun _ r' => r'.state = .leader → ProgWF r') := by
  refine (step_hup_leader_same fuel m r hm h0).mono ?_
  intro _ r' h hl
  have e := h hl
  subst e
  exact hp hl

/-- **a local MsgHup keeps a leader's progress table well-formed** (it never makes a leader) -/
theorem hup_keeps_prog {val : Val} {voters : List Id} {n : Nat} {r : Raft} {nd : Spec.Node} {msgs}
    (_hinv : RaftInv val voters n r nd msgs) (fuel : Nat) (m : Message) (hm : m.typ = .hup) (h0 : m.term = 0)
    (hp : r.state = .leader → ProgWF r) :
    Spec (Raft.step (fuel + 1) m) r (fun _ r' => r'.state = .leader → ProgWF r') :=
  hup_keeps_prog' fuel m hm h0 hp

/-! ### 3b. the election tick, and `tick` -/

/-- the election tick of a non-leader never produces a leader -/
theorem tickElection_not_leader (r : Raft) (hs : r.state ≠ .leader) :
    Spec tickElection r (fun _ r' => r'.state ≠ .leader) := by
  rw [Spec.iff_runs]
  intro u r' h
  unfold Runs at h
  by_cases hf : Live.promotableB r = true ∧ r.randomizedElectionTimeout ≤ r.electionElapsed + 1
  · rw [Live.tickElection_run_fire r hf.1 hf.2] at h
    cases hh : (step stepFuel (Live.hupMsg r)).run { r with electionElapsed := 0 } with
    | error e => rw [hh] at h; simp only [P_error_bind] at h; cases h
    | ok p =>
      obtain ⟨res, r1⟩ := p
      rw [hh] at h
      simp only [P_ok_bind] at h
      injection h with h; injection h with _ e; subst e
      intro hl
      have e := (step_hup_leader_same 2 (Live.hupMsg r) { r with electionElapsed := 0 } rfl rfl).elim hh hl
      rw [e] at hl
      exact hs hl
  · have hi : Live.promotableB r = false ∨ r.electionElapsed + 1 < r.randomizedElectionTimeout := by
      cases hp : Live.promotableB r with
      | false => exact Or.inl rfl
      | true => exact Or.inr (Nat.lt_of_not_le (fun h2 => hf ⟨hp, h2⟩))
    rw [Live.tickElection_run_idle r hi] at h
    injection h with h; injection h with _ e; subst e
    exact hs

theorem tick_keeps_prog' {r : Raft} (hx : r.leadTransferee = 0) (hp : r.state = .leader → ProgWF r) :
    Spec Raft.tick r (fun _ r' => r'.state = .leader → ProgWF r') := by
  unfold Raft.tick
  simp only [wp]
  constructor
  · intro hs
    have hs' : r.state = .leader := by simpa using hs
    exact tickHeartbeat_keepWF hs' hx (hp hs')
  · intro hs
    have hs' : r.state ≠ .leader := by simpa using hs
    exact (tickElection_not_leader r hs').mono (fun _ _ h hl => absurd hl h)

/-- **a tick keeps a leader's progress table well-formed** -/
theorem tick_keeps_prog {val : Val} {voters : List Id} {n : Nat} {r : Raft} {nd : Spec.Node} {msgs}
    (hinv : RaftInv val voters n r nd msgs) (hp : r.state = .leader → ProgWF r) :
    Spec Raft.tick r (fun _ r' => r'.state = .leader → ProgWF r') :=
  tick_keeps_prog' hinv.st.xfer hp

/-! ### 5. MsgVote -/

theorem vote_keeps_prog' {r : Raft} (fuel : Nat) (m : Message) (ht : m.typ = .vote) (hterm : m.term = r.term)
    (hp : r.state = .leader → ProgWF r) :
    Spec (Raft.step (fuel + 1) m) r (fun _ r' => r'.state = .leader → ProgWF r') := by
  refine (step_vote_same_term_spec fuel m r ht hterm).mono ?_
  rintro _ r' ⟨_, b, _, ⟨_, rfl⟩ | ⟨_, rfl⟩⟩ hl
  · exact (hp hl).congr rfl (Nat.le_refl _)
  · exact (hp hl).congr rfl (Nat.le_refl _)

/-- **MsgVote of the node's own term keeps a leader's progress table well-formed** (state, tracker and log are
untouched) -/
theorem vote_keeps_prog {val : Val} {voters : List Id} {n : Nat} {r : Raft} {nd : Spec.Node} {msgs}
    (_hinv : RaftInv val voters n r nd msgs) (fuel : Nat) (m : Message) (ht : m.typ = .vote)
    (hterm : m.term = r.term) (_h0 : m.term ≠ 0) (hp : r.state = .leader → ProgWF r) :
    Spec (Raft.step (fuel + 1) m) r (fun _ r' => r'.state = .leader → ProgWF r') :=
  vote_keeps_prog' fuel m ht hterm hp

/-! ### 6. MsgApp / MsgHeartbeat -/

theorem app_keeps_prog' {r : Raft} (fuel : Nat) (m : Message) (ht : m.typ = .app) (hterm : m.term = r.term)
    (hp : r.state = .leader → ProgWF r) :
    Spec (Raft.step (fuel + 1) m) r (fun _ r' => r'.state = .leader → ProgWF r') := by
  by_cases hs : r.state = .leader
  · refine spec_of_run_congr (step_same_term_dispatch fuel m r (Or.inr hterm) (by rw [ht]; decide)) ?_
    unfold dispatch
    rw [hs]
    exact spec_of_run_eq (app_stepLeader_run fuel m r ht) (fun _ => hp hs)
  · rw [Spec.iff_runs]
    intro e r' h hl
    exfalso
    obtain ⟨_, mid, hv, hrun⟩ := step_applike_factors fuel m r r' e handleAppendEntries
      (stepFollower_app_run fuel m ht) (stepCandidate_app_run fuel m ht) (by rw [ht]; decide) hterm hs h
    exact (handleAppendEntries_nl m mid).elim hrun (by rw [hv.state]; intro h; cases h) hl

theorem hb_keeps_prog' {r : Raft} (fuel : Nat) (m : Message) (ht : m.typ = .heartbeat) (hterm : m.term = r.term)
    (hp : r.state = .leader → ProgWF r) :
    Spec (Raft.step (fuel + 1) m) r (fun _ r' => r'.state = .leader → ProgWF r') := by
  by_cases hs : r.state = .leader
  · refine spec_of_run_congr (step_same_term_dispatch fuel m r (Or.inr hterm) (by rw [ht]; decide)) ?_
    unfold dispatch
    rw [hs]
    exact spec_of_run_eq (hb_stepLeader_run fuel m r ht) (fun _ => hp hs)
  · rw [Spec.iff_runs]
    intro e r' h hl
    exfalso
    obtain ⟨_, mid, hv, hrun⟩ := step_applike_factors fuel m r r' e handleHeartbeat
      (stepFollower_hb_run fuel m ht) (stepCandidate_hb_run fuel m ht) (by rw [ht]; decide) hterm hs h
    exact (handleHeartbeat_nl m mid).elim hrun (by rw [hv.state]; intro h; cases h) hl

/-- **MsgApp of the node's own term**: ignored by a leader; a non-leader ends as a non-leader -/
theorem app_keeps_prog {val : Val} {voters : List Id} {n : Nat} {r : Raft} {nd : Spec.Node} {msgs}
    (_hinv : RaftInv val voters n r nd msgs) (fuel : Nat) (m : Message) (ht : m.typ = .app)
    (hterm : m.term = r.term) (hp : r.state = .leader → ProgWF r) :
    Spec (Raft.step (fuel + 1) m) r (fun _ r' => r'.state = .leader → ProgWF r') :=
  app_keeps_prog' fuel m ht hterm hp

/-- **MsgHeartbeat of the node's own term**: ignored by a leader; a non-leader ends as a non-leader -/
theorem hb_keeps_prog {val : Val} {voters : List Id} {n : Nat} {r : Raft} {nd : Spec.Node} {msgs}
    (_hinv : RaftInv val voters n r nd msgs) (fuel : Nat) (m : Message) (ht : m.typ = .heartbeat)
    (hterm : m.term = r.term) (hp : r.state = .leader → ProgWF r) :
    Spec (Raft.step (fuel + 1) m) r (fun _ r' => r'.state = .leader → ProgWF r') :=
  hb_keeps_prog' fuel m ht hterm hp

end RaftVerif.NoPanicP
