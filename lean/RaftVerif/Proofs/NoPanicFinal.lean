import RaftVerif.Proofs.NoPanicSyncLP
import RaftVerif.Proofs.NoPanicSyncKeep
import RaftVerif.Proofs.NoPanicSelf
/-!
# Proofs/NoPanicFinal — `NPInv` is preserved by a successful sync round (any draw list); `NPKeeps` instantiated
-/
set_option linter.unusedSimpArgs false
namespace RaftVerif.NoPanicP
open Raft C14 Sim Refine Simulation

/-- stepping a node's own durable promise keeps `KeepsProg` (no hypothesis on draws) -/
theorem selfStepKeep_keepsProg (val : Val) (voters : List Id) (n : Nat) (hcfg : (cfgOf voters).OK) :
    SelfStepKeep val voters n KeepsProg := by
  intro s r m hinv hreach hty _ _ hrej hin hle _ _ hJ
  have h0 : m.term ≠ 0 := inOK_term_ne hty hin
  have hdel : Deliverable m.typ := by
    unfold Deliverable; rcases hty with h | h <;> simp [h]
  rcases Nat.lt_or_eq_of_le hle with hlt | heq
  · have key := step_lower_run 2 m r h0 hlt hdel (by rcases hty with h | h <;> simp [h])
    rw [Spec.iff_runs]
    intro e r' hr
    unfold Runs at hr
    rw [show Raft.stepFuel = 2 + 1 from rfl, key] at hr
    injection hr with hr; injection hr with _ hr
    subst hr
    exact hJ
  · rcases hty with ht | ht
    · exact voteResp_keeps_prog hinv 2 m ht heq hJ
    · exact appResp_keeps_prog hinv 2 m ht heq h0 hJ
        (fun hl hr => inOK_ack_le hinv hreach hcfg ht hin heq hl hr)
        (fun _ hr => by rw [hrej] at hr; cases hr)

/-- **`NPInv` is preserved by a successful sync round** (any draw list), and the messages handed to the network are
well-shaped -/
theorem npinv_sync {val : Val} {voters : List Id} {n : Nat} {s : Spec.State} {rn rn' : RawNode} {rd : Ready}
    {draws : List Nat} (hcfg : (cfgOf voters).OK) (hnode : NodeInv val voters n rn (s.nodes n) s.msgs)
    (haux : AuxInv n rn.raft) (hset : Settled rn.raft) (hprom : MaaProm rn.raft)
    (hreach : Spec.Reachable (cfgOf voters) s) (hnp : NPInv n rn.raft)
    (h : syncRound rn draws = .ok (rd, rn')) :
    NPInv n rn'.raft ∧ ∀ x ∈ rd.messages, PropEntries x ∧ HbRespFrom x := by
  obtain ⟨a, b, c, d⟩ := sync_lp hnode hset hprom hnp h
  have hp : KeepsProg rn'.raft :=
    syncRound_keeps' KeepsProg (selfStepKeep_keepsProg val voters n hcfg) hnode haux hset hprom hreach
      (fun r2 hs ht _ _ _ _ _ hli => keepsProg_frame rn.raft r2 hs ht hli hnp.prog) keepsProg_frame draws h
  exact ⟨⟨a, b, c, hp⟩, d⟩

/-- **the five preservation statements** -/
theorem npKeeps (val : Val) (voters : List Id) (hnd : voters.Nodup) : NPKeeps val voters where
  deliver := fun hinv reach hc hnet hto hnf hpe _ hnp h =>
    npinv_deliver (Spec.jointCfg_ok voters [] (List.ne_nil_of_mem hinv.st.self) hnd (by simp)) hinv reach hc hnet
      hto hnf hpe hnp h
  hup := fun hinv hnp h => npinv_hup hinv hnp h
  tick := fun hinv hnp h => npinv_tick hinv hnp h
  propose := fun data hinv hnp h => npinv_propose data hinv hnp h
  sync := fun hnode haux hset hprom hreach hnp h =>
    npinv_sync (Spec.jointCfg_ok voters [] (List.ne_nil_of_mem hnode.inv.st.self) hnd (by simp)) hnode haux hset
      hprom hreach hnp h

end RaftVerif.NoPanicP
