import RaftVerif.Proofs.LogApply
/-!
# Proofs/LogMutate — `raftLog` mutators against the abstract log

`append`, `findConflict`, `findConflictByTerm`, `maybeAppend`, `restore`, `stableTo`, `stableSnapTo`,
`acceptUnstable`.  Core Lean only.
-/
namespace RaftVerif
namespace RaftLog

theorem usub_one_of_pos' {n : Nat} (h : 0 < n) : usub n 1 = n - 1 := by
  unfold usub; rw [if_pos (by omega)]

theorem commitTo_eq' (l : RaftLog) (c : Nat) :
    l.commitTo c =
      if l.committed < c ∧ l.lastIndex < c then .error "commitTo: tocommit out of range"
      else .ok { l with committed := max l.committed c } := by
  unfold commitTo
  by_cases h1 : l.committed < c
  · rw [if_pos h1]
    by_cases h2 : l.lastIndex < c
    · rw [if_pos h2, if_pos ⟨h1, h2⟩]; rfl
    · rw [if_neg h2, if_neg (by omega)]
      have : max l.committed c = c := by omega
      rw [this]; rfl
  · rw [if_neg h1, if_neg (by omega)]
    have : max l.committed c = l.committed := by omega
    rw [this]; rfl

/-! ### findConflict -/

/-- the entry agrees with the log: the log has an entry (or its base) at that index with that term -/
def Agrees (a : ALog) (e : Entry) : Prop := a.term? e.index = some e.term

instance (a : ALog) (e : Entry) : Decidable (Agrees a e) := by unfold Agrees; infer_instance

/-- **findConflict**: the index of the first entry whose term differs from the log's or that the log
does not have; `0` if every entry agrees -/
theorem findConflict_spec {l : RaftLog} (h : l.WF) (ents : List Entry) :
    ((∀ e ∈ ents, Agrees l.abs e) ∧ l.findConflict ents = 0) ∨
    (∃ pre e post, ents = pre ++ e :: post ∧ (∀ x ∈ pre, Agrees l.abs x) ∧ ¬ Agrees l.abs e ∧
      l.findConflict ents = e.index) := by
  induction ents with
  | nil => left; exact ⟨by simp, rfl⟩
  | cons e ents ih =>
    unfold findConflict
    by_cases hm : l.matchTerm { term := e.term, index := e.index } = true
    · have hag : Agrees l.abs e := (matchTerm_iff h _).mp hm
      rw [if_neg (by simp [hm])]
      rcases ih with ⟨hall, h0⟩ | ⟨pre, e', post, heq, hpre, hne, hr⟩
      · left
        refine ⟨?_, h0⟩
        intro x hx
        rcases List.mem_cons.mp hx with rfl | hx
        · exact hag
        · exact hall x hx
      · right
        refine ⟨e :: pre, e', post, by rw [heq]; rfl, ?_, hne, hr⟩
        intro x hx
        rcases List.mem_cons.mp hx with rfl | hx
        · exact hag
        · exact hpre x hx
    · right
      rw [if_pos (by simp [hm])]
      refine ⟨[], e, ents, rfl, by simp, ?_, rfl⟩
      intro hag
      exact hm ((matchTerm_iff h _).mpr hag)

/-! ### findConflictByTerm -/

/-- **findConflictByTerm(index, term)**: walking down from `index`, stop at the first index that is `0`,
or whose term is unknown (answer term 0), or whose term is `≤ term` (answer that term).  Everything
above the result up to `index` has a known term `> term`; this determines the result uniquely. -/
theorem findConflictByTerm_spec {l : RaftLog} (h : l.WF) (index term : Nat) :
    (l.findConflictByTerm index term).1 ≤ index ∧
    (∀ j, (l.findConflictByTerm index term).1 < j → j ≤ index → ∃ t, l.abs.term? j = some t ∧ term < t) ∧
    ((l.findConflictByTerm index term).1 = 0 → (l.findConflictByTerm index term).2 = 0) ∧
    (0 < (l.findConflictByTerm index term).1 →
      (l.abs.term? (l.findConflictByTerm index term).1 = none ∧ (l.findConflictByTerm index term).2 = 0) ∨
      (l.abs.term? (l.findConflictByTerm index term).1 = some (l.findConflictByTerm index term).2 ∧
        (l.findConflictByTerm index term).2 ≤ term)) := by
  induction index with
  | zero =>
    simp only [findConflictByTerm]
    refine ⟨Nat.le_refl _, ?_, fun _ => trivial, fun hh => absurd hh (by omega)⟩
    intro j h1 h2; omega
  | succ i ih =>
    simp only [findConflictByTerm]
    cases ht : l.term (i + 1) with
    | error e =>
      simp only
      have hnone : l.abs.term? (i + 1) = none := by
        cases hq : l.abs.term? (i + 1) with
        | none => rfl
        | some t => rw [(term_ok_iff h _ _).mpr hq] at ht; cases ht
      refine ⟨Nat.le_refl _, ?_, fun hh => absurd hh (by omega), fun _ => Or.inl ⟨hnone, trivial⟩⟩
      intro j h1 h2; omega
    | ok t =>
      have hsome := (term_ok_iff h _ _).mp ht
      simp only
      by_cases hle : t ≤ term
      · rw [if_pos hle]
        refine ⟨Nat.le_refl _, ?_, fun hh => absurd hh (by omega), fun _ => Or.inr ⟨hsome, hle⟩⟩
        intro j h1 h2; omega
      · rw [if_neg hle]
        obtain ⟨h1, h2, h3, h4⟩ := ih
        refine ⟨by omega, ?_, h3, h4⟩
        intro j hj1 hj2
        by_cases hj : j = i + 1
        · subst hj; exact ⟨t, hsome, by omega⟩
        · exact h2 j hj1 (by omega)

/-! ### append -/

/-- overwriting the unstable log from `e0.index` overwrites the abstract log from `e0.index` -/
theorem overwritten_abs {l : RaftLog} (h : l.WF) (e0 : Entry) (rest : List Entry)
    (hb : l.abs.base < e0.index) :
    ({ l with unstable := l.unstable.overwritten (e0 :: rest) e0.index } : RaftLog).abs =
      l.abs.overwrite (e0 :: rest) := by
  obtain ⟨pre, he, hlen, hn, hs⟩ := h.shape
  have hso := h.snapOK
  unfold SnapOK at hso
  cases hsn : l.unstable.snapshot with
  | some s =>
    obtain ⟨hp, hbase, hbt⟩ := hs s hsn
    subst hp
    simp only [List.length_nil, Nat.add_zero] at hlen
    simp only [List.nil_append] at he
    simp only [abs, Unstable.overwritten, hsn, ALog.overwrite, ALog.truncateFrom, ALog.extend]
    rw [hbase] at hlen
    rw [← hlen]
  | none =>
    obtain ⟨hp, hbase, hbt⟩ := hn hsn
    rw [hsn] at hso
    simp only at hso
    have hsl := MemoryStorage.lastIndex_abs h.storage
    have hsb : l.storage.abs.base = l.storage.offset := rfl
    simp only [ALog.last] at hsl
    simp only [abs, Unstable.overwritten, hsn, ALog.overwrite, ALog.truncateFrom, ALog.extend, hsb]
    rw [hbase] at hb
    congr 1
    rw [List.take_append, List.take_take, List.length_take, ← List.append_assoc]
    congr 1
    congr 1
    · congr 1; omega
    · congr 1; omega

/-- **append(e0 :: rest)** (contiguous entries, `e0.index > 0`): panics iff `e0.index ≤ committed`
("after out of range") or there is a gap after the last index; otherwise the abstract log is
overwritten from `e0.index`, the invariant is kept and the new last index is returned. -/
theorem append_spec {l : RaftLog} (h : l.WF) (e0 : Entry) (rest : List Entry)
    (hc : Contig e0.index (e0 :: rest)) (hpos : 0 < e0.index) :
    (e0.index ≤ l.committed ∧ l.append (e0 :: rest) = .error "append: after out of range (committed)") ∨
    (l.committed < e0.index ∧ l.abs.last + 1 < e0.index ∧
      l.append (e0 :: rest) = .error "unstable.slice: out of bound") ∨
    (l.committed < e0.index ∧ e0.index ≤ l.abs.last + 1 ∧ ∃ l',
      l.append (e0 :: rest) = .ok (l', e0.index + rest.length) ∧ l'.WF ∧
      l'.abs = l.abs.overwrite (e0 :: rest) ∧ l'.lastIndex = e0.index + rest.length ∧
      l'.unstable = l.unstable.overwritten (e0 :: rest) e0.index ∧
      l'.storage = l.storage ∧ l'.committed = l.committed ∧ l'.applying = l.applying ∧
      l'.applied = l.applied ∧ l'.applyingEntsSize = l.applyingEntsSize ∧
      l'.applyingEntsPaused = l.applyingEntsPaused ∧ l'.maxApplyingEntsSize = l.maxApplyingEntsSize) := by
  have hus : usub e0.index 1 = e0.index - 1 := usub_one_of_pos' hpos
  have hls := abs_last_succ h
  unfold Unstable.next at hls
  unfold append
  simp only
  rw [hus]
  by_cases h1 : e0.index - 1 < l.committed
  · left; exact ⟨by omega, by rw [if_pos h1]; rfl⟩
  right
  rw [if_neg h1]
  rcases Unstable.truncateAndAppend_spec h.unstable e0 rest with ⟨hle, hok⟩ | ⟨hgt, herr⟩
  · right
    rw [hok]
    unfold Unstable.next at hle
    have hso := h.snapOK
    unfold SnapOK at hso
    have hwfu : (l.unstable.overwritten (e0 :: rest) e0.index).WF := by
      apply Unstable.overwritten_wf h.unstable hc (by unfold Unstable.next; exact hle)
      intro hsome
      have hsnap := h.unstable.snap
      cases hsn : l.unstable.snapshot with
      | none => rw [hsn] at hsome; cases hsome
      | some s =>
        rw [hsn] at hso hsnap
        simp only at hso hsnap
        omega
    have hbase : l.abs.base < e0.index := by
      obtain ⟨pre, he, hlen, hn, hs⟩ := h.shape
      cases hsn : l.unstable.snapshot with
      | none =>
        rw [hsn] at hso
        have := (hn hsn).2.1
        have := h.appliedLeApplying
        have := h.applyingLeCommitted
        omega
      | some s =>
        rw [hsn] at hso
        have := (hs s hsn).2.1
        simp only at hso
        omega
    have hlast : ({ l with unstable := l.unstable.overwritten (e0 :: rest) e0.index } : RaftLog).lastIndex =
        e0.index + rest.length := by
      simp only [lastIndex, Unstable.maybeLastIndex, Unstable.overwritten, List.length_append, List.length_take,
        List.length_cons]
      rw [if_pos (by simp)]
      simp only [Option.getD_some]
      omega
    refine ⟨by omega, by omega, _, ?_, ?_, overwritten_abs h e0 rest hbase, hlast, rfl, rfl, rfl, rfl, rfl, rfl,
      rfl, rfl⟩
    · simp only [bind, Except.bind, pure, Except.pure]
      rw [hlast]
    · refine ⟨h.storage, hwfu, ?_, h.appliedLeApplying, h.applyingLeCommitted, ?_, h.budget⟩
      · unfold SnapOK
        simp only
        have e : (l.unstable.overwritten (e0 :: rest) e0.index).snapshot = l.unstable.snapshot := rfl
        rw [e]
        cases hsn : l.unstable.snapshot with
        | some s => rw [hsn] at hso; exact hso
        | none =>
          rw [hsn] at hso
          simp only at hso ⊢
          have := h.appliedLeApplying
          have := h.applyingLeCommitted
          refine ⟨?_, ?_, ?_, hso.2.2.2⟩
          · simp only [Unstable.overwritten]; omega
          · simp only [Unstable.overwritten]; omega
          · intro hnil; simp [Unstable.overwritten] at hnil
      · rw [hlast]; simp only; omega
  · left
    unfold Unstable.next at hgt
    refine ⟨by omega, by omega, ?_⟩
    rw [herr]; rfl

theorem append_nil (l : RaftLog) : l.append [] = .ok (l, l.lastIndex) := rfl

end RaftLog

/-! ### what an overwrite does to the abstract log -/
namespace ALog

theorem overwrite_base (a : ALog) (es : List Entry) :
    (a.overwrite es).base = a.base ∧ (a.overwrite es).baseTerm = a.baseTerm := by
  cases es <;> exact ⟨rfl, rfl⟩

theorem overwrite_ents (a : ALog) (e0 : Entry) (rest : List Entry) :
    (a.overwrite (e0 :: rest)).ents = a.ents.take (e0.index - (a.base + 1)) ++ e0 :: rest := rfl

theorem overwrite_last (a : ALog) (e0 : Entry) (rest : List Entry) (h1 : a.base < e0.index)
    (h2 : e0.index ≤ a.last + 1) : (a.overwrite (e0 :: rest)).last = e0.index + rest.length := by
  unfold last at *
  rw [(overwrite_base a _).1, overwrite_ents, List.length_append, List.length_take, List.length_cons]
  omega

/-- below the overwrite point nothing changes -/
theorem overwrite_entry?_lt (a : ALog) (e0 : Entry) (rest : List Entry) (h2 : e0.index ≤ a.last + 1)
    {i : Nat} (hi : i < e0.index) : (a.overwrite (e0 :: rest)).entry? i = a.entry? i := by
  unfold last at h2
  unfold entry?
  rw [(overwrite_base a _).1, overwrite_ents]
  split
  · rw [List.getElem?_append_left (by rw [List.length_take]; omega), List.getElem?_take, if_pos (by omega)]
  · rfl

theorem overwrite_term?_lt (a : ALog) (e0 : Entry) (rest : List Entry) (h2 : e0.index ≤ a.last + 1)
    {i : Nat} (hi : i < e0.index) : (a.overwrite (e0 :: rest)).term? i = a.term? i := by
  unfold term?
  rw [(overwrite_base a _).1, (overwrite_base a _).2, overwrite_entry?_lt a e0 rest h2 hi]

/-- at and above the overwrite point the log holds exactly the new entries -/
theorem overwrite_entry?_ge (a : ALog) (e0 : Entry) (rest : List Entry) (h1 : a.base < e0.index)
    (h2 : e0.index ≤ a.last + 1) (k : Nat) :
    (a.overwrite (e0 :: rest)).entry? (e0.index + k) = (e0 :: rest)[k]? := by
  unfold last at h2
  unfold entry?
  rw [(overwrite_base a _).1, overwrite_ents, if_pos (by omega)]
  rw [List.getElem?_append_right (by rw [List.length_take]; omega), List.length_take]
  congr 1; omega

/-- **no overwritten entry is exposed**: whatever the log answers at an index at or above the overwrite
point is one of the new entries -/
theorem overwrite_hides_old (a : ALog) (e0 : Entry) (rest : List Entry) (h1 : a.base < e0.index)
    (h2 : e0.index ≤ a.last + 1) {i : Nat} (hi : e0.index ≤ i) {x : Entry}
    (hx : (a.overwrite (e0 :: rest)).entry? i = some x) : x ∈ e0 :: rest := by
  have := overwrite_entry?_ge a e0 rest h1 h2 (i - e0.index)
  have e : e0.index + (i - e0.index) = i := by omega
  rw [e, hx] at this
  exact List.mem_of_getElem? this.symm

theorem overwrite_wf {a : ALog} (h : a.WF) (e0 : Entry) (rest : List Entry) (hc : Contig e0.index (e0 :: rest))
    (h1 : a.base < e0.index) (h2 : e0.index ≤ a.last + 1) : (a.overwrite (e0 :: rest)).WF := by
  unfold last at h2
  unfold WF
  rw [(overwrite_base a _).1, overwrite_ents, contig_append]
  refine ⟨Contig.take h _, ?_⟩
  have : a.base + 1 + (a.ents.take (e0.index - (a.base + 1))).length = e0.index := by
    rw [List.length_take]; omega
  rw [this]; exact hc

end ALog

namespace RaftLog

/-! ### maybeAppend -/

theorem commitTo_ok_of_le {l : RaftLog} {c : Nat} (hc : c ≤ l.lastIndex) :
    l.commitTo c = .ok { l with committed := max l.committed c } := by
  rw [commitTo_eq', if_neg (by omega)]

/-- the log contains the entry with the same term (or its base has that index and term) -/
theorem agrees_index_le_last {a : ALog} {e : Entry} (h : Agrees a e) : a.base ≤ e.index ∧ e.index ≤ a.last := by
  have : (a.term? e.index).isSome := by unfold Agrees at h; rw [h]; rfl
  exact (a.term?_isSome_iff _).mp this

/-- **maybeAppend(prev, ents, mc)** for `ents` contiguous from `prev.index + 1`:
* rejected (`none`, log unchanged) iff the log does not have `prev` with that term;
* otherwise let `e` be the first entry of `ents` that disagrees with the log (`ents = pre ++ e :: post`):
  - none: the entries are untouched;
  - `e.index ≤ committed`: panic "conflict with committed entry";
  - else the log is overwritten from `e.index` with `e :: post` (the matching prefix `pre` stays);
  and `committed := max committed (min mc lastnew)` with `lastnew = prev.index + ents.length`; the
  invariant is kept, `lastnew ≤ lastIndex'`, and afterwards every entry of `ents` agrees with the log. -/
theorem maybeAppend_spec {l : RaftLog} (h : l.WF) (prev : EntryID) (ents : List Entry) (mc : Nat)
    (hc : Contig (prev.index + 1) ents) :
    (l.abs.term? prev.index ≠ some prev.term ∧ l.maybeAppend prev ents mc = .ok (l, none)) ∨
    (l.abs.term? prev.index = some prev.term ∧
      (((∀ e ∈ ents, Agrees l.abs e) ∧
          l.maybeAppend prev ents mc =
            .ok ({ l with committed := max l.committed (min mc (prev.index + ents.length)) },
                 some (prev.index + ents.length)) ∧
          prev.index + ents.length ≤ l.abs.last) ∨
       (∃ pre e post, ents = pre ++ e :: post ∧ (∀ x ∈ pre, Agrees l.abs x) ∧ ¬ Agrees l.abs e ∧
          ((e.index ≤ l.committed ∧
              l.maybeAppend prev ents mc = .error "maybeAppend: conflict with committed entry") ∨
           (l.committed < e.index ∧ ∃ l', l.maybeAppend prev ents mc = .ok (l', some (prev.index + ents.length)) ∧
              l'.WF ∧ l'.abs = l.abs.overwrite (e :: post) ∧
              l'.abs.last = prev.index + ents.length ∧
              l'.committed = max l.committed (min mc (prev.index + ents.length)) ∧
              l'.storage = l.storage ∧ l'.applying = l.applying ∧ l'.applied = l.applied ∧
              (∀ x ∈ ents, Agrees l'.abs x)))))) := by
  by_cases hm' : ¬ l.matchTerm prev = true
  · left
    refine ⟨fun hx => hm' ((matchTerm_iff h prev).mpr hx), ?_⟩
    unfold maybeAppend
    rw [if_pos (by simp [hm'])]; rfl
  have hm : l.matchTerm prev = true := by simpa using hm'
  right
  have hprev := (matchTerm_iff h prev).mp hm
  refine ⟨hprev, ?_⟩
  have hprevle : l.abs.base ≤ prev.index ∧ prev.index ≤ l.abs.last :=
    (l.abs.term?_isSome_iff _).mp (by rw [hprev]; rfl)
  have hli := lastIndex_abs h
  unfold maybeAppend
  rw [if_neg (by simp [hm])]
  simp only [bind, Except.bind, pure, Except.pure]
  rcases findConflict_spec h ents with ⟨hall, h0⟩ | ⟨pre, e, post, heq, hpre, hne, hr⟩
  · left
    have hlast : prev.index + ents.length ≤ l.abs.last := by
      cases hl : ents.getLast? with
      | none =>
        have : ents = [] := List.getLast?_eq_none_iff.mp hl
        subst this; simp; omega
      | some last =>
        have hi := hc.getLast?_index hl
        have := agrees_index_le_last (hall last (List.mem_of_getLast? hl))
        omega
    refine ⟨hall, ?_, hlast⟩
    rw [h0, if_pos (by simp)]
    rw [commitTo_ok_of_le (by rw [hli]; omega)]
  · right
    refine ⟨pre, e, post, heq, hpre, hne, ?_⟩
    have hcs := hc
    rw [heq, contig_append] at hcs
    obtain ⟨hcpre, hcpost⟩ := hcs
    have hei : e.index = prev.index + 1 + pre.length := hcpost.head_index
    have hlen : ents.length = pre.length + (post.length + 1) := by rw [heq]; simp
    rw [hr, if_neg (by simp; omega)]
    by_cases hcm : e.index ≤ l.committed
    · left
      refine ⟨hcm, ?_⟩
      rw [if_pos hcm]; rfl
    · right
      refine ⟨by omega, ?_⟩
      rw [if_neg hcm]
      have hus : usub e.index (prev.index + 1) = pre.length := by
        unfold usub; rw [if_pos (by omega)]; omega
      rw [hus, if_neg (by omega)]
      have hd : ents.drop (e.index - (prev.index + 1)) = e :: post := by
        have : e.index - (prev.index + 1) = pre.length := by omega
        rw [this, heq, List.drop_left]
      rw [hd]
      -- no gap: the matching prefix (or `prev`) ends right below `e`
      have hnogap : e.index ≤ l.abs.last + 1 := by
        cases hl : pre.getLast? with
        | none =>
          have : pre = [] := List.getLast?_eq_none_iff.mp hl
          subst this; simp at hei; omega
        | some last =>
          have hi := hcpre.getLast?_index hl
          have := agrees_index_le_last (hpre last (List.mem_of_getLast? hl))
          omega
      have hce : Contig e.index (e :: post) := by rw [hei]; exact hcpost
      rcases append_spec h e post hce (by omega) with ⟨h1, _⟩ | ⟨_, h1, _⟩ | ⟨_, _, l1, hok, hwf1, habs1, hlast1, hu1, hs1, hc1, hag1, hap1, _⟩
      · omega
      · omega
      · rw [hok]
        simp only
        have hln : prev.index + ents.length = e.index + post.length := by omega
        rw [commitTo_ok_of_le (by rw [hlast1]; omega)]
        have hbase : l.abs.base < e.index := by omega
        have hlast' : (l.abs.overwrite (e :: post)).last = prev.index + ents.length := by
          rw [ALog.overwrite_last _ _ _ hbase hnogap]; omega
        refine ⟨_, rfl, ?_, ?_, ?_, by simp only [hc1], hs1, hag1, hap1, ?_⟩
        · -- WF of the committed-advanced log
          have hw := commitTo_wf hwf1 (commitTo_ok_of_le (c := min mc (prev.index + ents.length))
            (by rw [hlast1]; omega))
          exact hw.1
        · show ({ l1 with committed := _ } : RaftLog).abs = _
          rw [← habs1]; rfl
        · show ({ l1 with committed := _ } : RaftLog).abs.last = _
          have : ({ l1 with committed := max l1.committed (min mc (prev.index + ents.length)) } : RaftLog).abs = l1.abs := rfl
          rw [this, habs1, hlast']
        · intro x hx
          have : ({ l1 with committed := max l1.committed (min mc (prev.index + ents.length)) } : RaftLog).abs = l1.abs := rfl
          unfold Agrees
          rw [this, habs1]
          rw [heq] at hx
          rcases List.mem_append.mp hx with hx | hx
          · have := hcpre.mem hx
            rw [ALog.overwrite_term?_lt _ _ _ hnogap (by omega)]
            exact hpre x hx
          · obtain ⟨k, hk, rfl⟩ := List.getElem_of_mem hx
            have hidx := hce k hk
            rw [ALog.term?_of_base_lt _ (by rw [(ALog.overwrite_base _ _).1]; omega), hidx,
              ALog.overwrite_entry?_ge _ _ _ hbase hnogap k, List.getElem?_eq_getElem hk]
            rfl

/-! ### never expose an overwritten entry -/

theorem _root_.RaftVerif.ALog.overwrite_mem_ge {a : ALog} (h : a.WF) (e0 : Entry) (rest : List Entry)
    {x : Entry} (hx : x ∈ (a.overwrite (e0 :: rest)).ents) (hi : e0.index ≤ x.index) : x ∈ e0 :: rest := by
  rw [ALog.overwrite_ents] at hx
  rcases List.mem_append.mp hx with hx | hx
  · exfalso
    have := (Contig.take h (e0.index - (a.base + 1))).mem hx
    rw [List.length_take] at this
    omega
  · exact hx

theorem _root_.RaftVerif.ALog.slice_subset (a : ALog) (lo hi : Nat) {x : Entry} (hx : x ∈ a.slice lo hi) :
    x ∈ a.ents := by
  unfold ALog.slice at hx
  exact List.mem_of_mem_drop (List.mem_of_mem_take hx)

/-- **no query exposes an overwritten entry**: let `l'` be a well-formed log whose abstract log is
`a.overwrite (e0 :: rest)` (the state after `truncateAndAppend` / `append` / `maybeAppend` overwrote from
`e0.index`).  Then `term`, `slice`, `entries` and `nextUnstableEnts` answer, at every index `≥ e0.index`,
only with the new entries. -/
theorem overwritten_not_exposed {l' : RaftLog} (h' : l'.WF) {a : ALog} (e0 : Entry) (rest : List Entry)
    (habs : l'.abs = a.overwrite (e0 :: rest)) (ha : a.WF) (h1 : a.base < e0.index) (h2 : e0.index ≤ a.last + 1) :
    (∀ i t, e0.index ≤ i → l'.term i = .ok t → ∃ x ∈ e0 :: rest, x.index = i ∧ x.term = t) ∧
    (∀ lo hi m es, l'.slice lo hi m = .ok (.ok es) → ∀ x ∈ es, e0.index ≤ x.index → x ∈ e0 :: rest) ∧
    (∀ i m es, l'.entries i m = .ok (.ok es) → ∀ x ∈ es, e0.index ≤ x.index → x ∈ e0 :: rest) ∧
    (∀ x ∈ l'.nextUnstableEnts, e0.index ≤ x.index → x ∈ e0 :: rest) := by
  have hsl : ∀ lo hi m es, l'.slice lo hi m = .ok (.ok es) → ∀ x ∈ es, e0.index ≤ x.index → x ∈ e0 :: rest := by
    intro lo hi m es hs x hx hi'
    rw [slice_eq h'] at hs
    unfold ALog.sliceResult at hs
    split at hs
    · cases hs
    · split at hs
      · cases hs
      · split at hs
        · cases hs
        · simp only [pure, Except.pure, Except.ok.injEq] at hs
          subst hs
          have hx1 := (limitSize_prefix _ _).subset hx
          have hx2 := ALog.slice_subset _ _ _ hx1
          rw [habs] at hx2
          exact ALog.overwrite_mem_ge ha e0 rest hx2 hi'
  refine ⟨?_, hsl, ?_, ?_⟩
  · intro i t hi ht
    have := (term_ok_iff h' i t).mp ht
    rw [habs, ALog.term?_of_base_lt _ (by rw [(ALog.overwrite_base _ _).1]; omega)] at this
    cases he : (a.overwrite (e0 :: rest)).entry? i with
    | none => rw [he] at this; cases this
    | some x =>
      rw [he] at this
      have hxi := (ALog.entry?_eq_some (ALog.overwrite_wf ha e0 rest (by
        -- contiguity of the new entries follows from well-formedness of the result
        have hw := h'.abs_wf
        rw [habs] at hw
        unfold ALog.WF at hw
        rw [(ALog.overwrite_base _ _).1, ALog.overwrite_ents, contig_append] at hw
        have hl : a.base + 1 + (a.ents.take (e0.index - (a.base + 1))).length = e0.index := by
          unfold ALog.last at h2
          rw [List.length_take]; omega
        rw [hl] at hw
        exact hw.2) h1 h2) he).1
      exact ⟨x, ALog.overwrite_hides_old a e0 rest h1 h2 hi he, hxi, by simpa using this⟩
  · intro i m es hs x hx hi'
    unfold entries at hs
    split at hs
    · simp only [pure, Except.pure, Except.ok.injEq] at hs
      subst hs; simp at hx
    · exact hsl _ _ _ _ hs x hx hi'
  · intro x hx hi'
    unfold nextUnstableEnts at hx
    rw [Unstable.nextEntries_eq h'.unstable] at hx
    have hxm := (List.mem_filter.mp hx).1
    -- an unstable entry is an entry of the abstract log
    obtain ⟨pre, he, _, _, _⟩ := h'.shape
    have : x ∈ l'.abs.ents := by rw [he]; exact List.mem_append_right _ hxm
    rw [habs] at this
    exact ALog.overwrite_mem_ge ha e0 rest this hi'

/-! ### restore, stableTo, stableSnapTo, acceptUnstable -/

/-- **restore(s)** for a snapshot beyond `committed` (the only case in which `raft.restore` calls it):
the abstract log becomes empty with the snapshot as base, `committed := s.index`, invariant kept -/
theorem restore_spec {l : RaftLog} (h : l.WF) (s : Snapshot) (hs : l.committed < s.index) :
    (l.restore s).WF ∧ (l.restore s).abs = { base := s.index, baseTerm := s.term, ents := [] } ∧
    (l.restore s).committed = s.index ∧ (l.restore s).applying = l.applying ∧
    (l.restore s).applied = l.applied ∧ (l.restore s).storage = l.storage := by
  have h1 := h.applyingLeCommitted
  refine ⟨⟨h.storage, Unstable.restore_wf l.unstable s, ?_, h.appliedLeApplying, ?_, ?_, h.budget⟩, ?_, rfl, rfl, rfl, rfl⟩
  · simp [SnapOK, restore, Unstable.restore]
  · show l.applying ≤ s.index
    omega
  · simp [restore, Unstable.restore, lastIndex, Unstable.maybeLastIndex]
  · simp [abs, restore, Unstable.restore]

/-- **acceptUnstable**: the abstract log and the invariant are untouched; nothing is left to hand out -/
theorem acceptUnstable_spec {l : RaftLog} (h : l.WF) :
    l.acceptUnstable.WF ∧ l.acceptUnstable.abs = l.abs ∧ l.acceptUnstable.nextUnstableEnts = [] ∧
    l.acceptUnstable.hasNextUnstableSnapshot = false := by
  have hu := Unstable.acceptInProgress_eq h.unstable
  have hli : l.acceptUnstable.lastIndex = l.lastIndex := by
    simp [acceptUnstable, lastIndex, Unstable.maybeLastIndex, hu]
  refine ⟨⟨h.storage, Unstable.acceptInProgress_wf h.unstable, ?_, h.appliedLeApplying, h.applyingLeCommitted,
    ?_, h.budget⟩, ?_, Unstable.acceptInProgress_nextEntries h.unstable, ?_⟩
  · have := h.snapOK
    unfold SnapOK at this ⊢
    simp only [acceptUnstable, hu]
    exact this
  · rw [hli]; exact h.committedLeLast
  · simp only [abs, acceptUnstable, hu]
  · simp only [hasNextUnstableSnapshot, acceptUnstable, Unstable.acceptInProgress_nextSnapshot h.unstable]
    rfl

/-- storage holds the unstable entries up to `index` (and, if that is all of them, nothing beyond) -/
def StorageHolds (l : RaftLog) (index : Nat) : Prop :=
  (∀ e ∈ l.unstable.entries, e.index ≤ index → l.storage.abs.entry? e.index = some e) ∧
  (index + 1 = l.unstable.next → l.storage.lastIndex = index)

instance (l : RaftLog) (index : Nat) : Decidable (l.StorageHolds index) := by
  unfold StorageHolds; infer_instance

/-- **stableTo(index, term)**: a non-matching acknowledgement changes nothing; a matching one (with no
snapshot pending, and storage holding the acknowledged entries) moves the seam between storage and
unstable but leaves the abstract log — hence every query — unchanged, and keeps the invariant -/
theorem stableTo_spec {l : RaftLog} (h : l.WF) (id : EntryID) :
    (¬ l.unstable.Matches id → l.stableTo id = l) ∧
    (l.unstable.Matches id → l.unstable.snapshot = none → l.StorageHolds id.index →
      (l.stableTo id).WF ∧ (l.stableTo id).abs = l.abs ∧ (l.stableTo id).unstable.offset = id.index + 1) := by
  constructor
  · intro hm
    unfold stableTo
    rw [Unstable.stableTo_of_not_matches h.unstable hm]
  · intro hm hsn ⟨hst, hlast⟩
    have heq := Unstable.stableTo_of_matches h.unstable hm
    obtain ⟨e, hmem, hei, het⟩ := hm
    have hrange := h.unstable.contig.mem hmem
    have hso := h.snapOK
    unfold SnapOK at hso
    rw [hsn] at hso
    simp only at hso
    obtain ⟨hs1, hs2, hs3, hs4⟩ := hso
    have hsl := MemoryStorage.lastIndex_abs h.storage
    have hsb : l.storage.abs.base = l.storage.offset := rfl
    have hfilter := h.unstable.contig.filter_gt id.index
    -- the matched entry is in storage, so storage reaches `id.index`
    have hin := hst e hmem (by omega)
    have hle : id.index ≤ l.storage.lastIndex := by
      have := (ALog.entry?_isSome_iff l.storage.abs e.index).mp (by rw [hin]; rfl)
      omega
    have hu' : (l.stableTo id).unstable =
        { l.unstable with entries := l.unstable.entries.drop (id.index + 1 - l.unstable.offset),
                          offset := id.index + 1,
                          offsetInProgress := max l.unstable.offsetInProgress (id.index + 1) } := by
      unfold stableTo; rw [heq, hfilter]
    have hli : (l.stableTo id).lastIndex = l.lastIndex := by
      unfold lastIndex Unstable.maybeLastIndex
      rw [hu']
      simp only [List.length_drop, hsn]
      have : (l.stableTo id).storage = l.storage := rfl
      rw [this]
      unfold Unstable.next at hlast
      by_cases hall : id.index + 1 = l.unstable.offset + l.unstable.entries.length
      · have hl0 := hlast hall
        have e1 : l.unstable.entries.length - (id.index + 1 - l.unstable.offset) = 0 := by omega
        have e2 : l.unstable.entries.length ≠ 0 := by omega
        simp only [e1, bne_self_eq_false, Bool.false_eq_true, ↓reduceIte, Option.map_none, Option.getD_none,
          bne_iff_ne, ne_eq, e2, not_false_eq_true, Option.getD_some]
        omega
      · have e1 : l.unstable.entries.length - (id.index + 1 - l.unstable.offset) ≠ 0 := by omega
        have e2 : l.unstable.entries.length ≠ 0 := by omega
        simp only [bne_iff_ne, ne_eq, e1, not_false_eq_true, ↓reduceIte, Option.getD_some, e2]
        omega
    refine ⟨⟨h.storage, ?_, ?_, h.appliedLeApplying, h.applyingLeCommitted, ?_, h.budget⟩, ?_, by rw [hu']⟩
    · unfold stableTo
      exact Unstable.stableTo_wf h.unstable id (fun _ => hsn)
    · unfold SnapOK
      rw [hu']
      simp only [hsn]
      have : (l.stableTo id).storage = l.storage := rfl
      have hap : (l.stableTo id).applied = l.applied := rfl
      rw [this, hap]
      refine ⟨by omega, by omega, ?_, hs4⟩
      intro hnil
      have := List.drop_eq_nil_iff.mp hnil
      unfold Unstable.next at hlast
      have := hlast (by omega)
      omega
    · rw [hli]; exact h.committedLeLast
    · -- the abstract log is unchanged
      unfold abs
      rw [hu']
      simp only [hsn]
      have : (l.stableTo id).storage = l.storage := rfl
      rw [this]
      simp only [ALog.extend, ALog.truncateFrom, hsb]
      congr 1
      apply List.ext_getElem?
      intro k
      have hsl' : l.storage.lastIndex = l.storage.offset + l.storage.abs.ents.length := by
        rw [hsl]; rfl
      by_cases hk1 : k < l.unstable.offset - (l.storage.offset + 1)
      · rw [List.getElem?_append_left (by rw [List.length_take]; omega), List.getElem?_take, if_pos (by omega)]
        rw [List.getElem?_append_left (by rw [List.length_take]; omega), List.getElem?_take, if_pos hk1]
      · have hlenL : (l.storage.abs.ents.take (l.unstable.offset - (l.storage.offset + 1))).length =
            l.unstable.offset - (l.storage.offset + 1) := by rw [List.length_take]; omega
        rw [List.getElem?_append_right (l₁ := l.storage.abs.ents.take (l.unstable.offset - (l.storage.offset + 1)))
          (by omega), hlenL]
        by_cases hk2 : k < id.index + 1 - (l.storage.offset + 1)
        · rw [List.getElem?_append_left (by rw [List.length_take]; omega), List.getElem?_take, if_pos hk2]
          -- index `l.storage.offset + 1 + k` is in `[offset, id.index]`: storage holds the unstable entry
          have hkk : k - (l.unstable.offset - (l.storage.offset + 1)) < l.unstable.entries.length := by omega
          have hidx := h.unstable.contig _ hkk
          have hmem' : l.unstable.entries[k - (l.unstable.offset - (l.storage.offset + 1))] ∈ l.unstable.entries :=
            List.getElem_mem hkk
          have := hst _ hmem' (by omega)
          unfold ALog.entry? at this
          rw [hsb, if_pos (by omega), hidx] at this
          have e2 : l.unstable.offset + (k - (l.unstable.offset - (l.storage.offset + 1))) - (l.storage.offset + 1) = k := by
            omega
          rw [e2] at this
          rw [this, List.getElem?_eq_getElem hkk]
        · have hlenL2 : (l.storage.abs.ents.take (id.index + 1 - (l.storage.offset + 1))).length =
              id.index + 1 - (l.storage.offset + 1) := by rw [List.length_take]; omega
          rw [List.getElem?_append_right (by omega), hlenL2, List.getElem?_drop]
          congr 1; omega

/-- **appliedSnap** (`stableSnapTo(s.index)` then `appliedTo(s.index, 0)`, as `raft.appliedSnap` does) once
storage has installed the pending snapshot `s`: the abstract log is unchanged, the snapshot is no longer
pending, `applied = s.index`, and the invariant holds again -/
theorem appliedSnap_spec {l : RaftLog} (h : l.WF) {s : Snapshot} (hsn : l.unstable.snapshot = some s)
    (hoff : l.storage.offset = s.index) (hterm : l.storage.dummyTerm = s.term)
    (hempty : l.unstable.entries = [] → l.storage.lastIndex = s.index)
    (happ : l.applied ≤ s.index) :
    ∃ l', (l.stableSnapTo s.index).appliedTo s.index 0 = .ok l' ∧ l'.WF ∧ l'.abs = l.abs ∧
      l'.unstable.snapshot = none ∧ l'.applied = s.index ∧ l'.applying = max l.applying s.index ∧
      l'.committed = l.committed := by
  have hso := h.snapOK
  unfold SnapOK at hso
  rw [hsn] at hso
  simp only at hso
  have hus := h.unstable.snap
  rw [hsn] at hus
  simp only at hus
  have hac := h.applyingLeCommitted
  have hcl := h.committedLeLast
  have key : (l.stableSnapTo s.index).appliedTo s.index 0 = .ok
      { l with unstable := { l.unstable with snapshot := none, snapshotInProgress := false },
               applied := s.index, applying := max l.applying s.index,
               applyingEntsSize := l.applyingEntsSize - 0,
               applyingEntsPaused := decide (l.applyingEntsSize - 0 ≥ l.maxApplyingEntsSize) } := by
    rw [appliedTo_eq]
    have hc : (l.stableSnapTo s.index).committed = l.committed := rfl
    have ha : (l.stableSnapTo s.index).applied = l.applied := rfl
    rw [hc, ha, if_neg (by omega)]
    simp [stableSnapTo, Unstable.stableSnapTo, hsn]
  refine ⟨_, key, ?_, ?_, rfl, rfl, rfl, rfl⟩
  · have hsl := MemoryStorage.lastIndex_abs h.storage
    simp only [ALog.last] at hsl
    have hsb : l.storage.abs.base = l.storage.offset := rfl
    refine ⟨h.storage, ?_, ?_, ?_, ?_, ?_, ?_⟩
    · exact ⟨h.unstable.contig, h.unstable.inProgLo, h.unstable.inProgHi, trivial⟩
    · unfold SnapOK
      simp only
      refine ⟨by omega, by omega, ?_, by omega⟩
      intro hnil; have := hempty hnil; omega
    · simp only; omega
    · simp only; omega
    · have hcl' := hcl
      unfold lastIndex Unstable.maybeLastIndex at hcl' ⊢
      simp only [hsn] at hcl' ⊢
      by_cases hnil : l.unstable.entries.length = 0
      · have := hempty (List.length_eq_zero_iff.mp hnil)
        simp [hnil] at hcl' ⊢; omega
      · simp [hnil] at hcl' ⊢; omega
    · simp only [decide_eq_false_iff_not]
      intro hh; omega
  · unfold abs
    simp only [hsn]
    simp only [ALog.extend, ALog.truncateFrom, MemoryStorage.abs, hoff, hterm, hus]
    simp

/-! ### lastEntryID, isUpToDate, maybeCommit -/

/-- **lastEntryID** never panics under the invariant: it is the last index with its term -/
theorem lastEntryID_spec {l : RaftLog} (h : l.WF) :
    ∃ t, l.abs.term? l.abs.last = some t ∧ l.lastEntryID = .ok { term := t, index := l.abs.last } := by
  have hs : (l.abs.term? l.abs.last).isSome := by
    rw [ALog.term?_isSome_iff]; simp [ALog.last]
  obtain ⟨t, ht⟩ := Option.isSome_iff_exists.mp hs
  refine ⟨t, ht, ?_⟩
  unfold lastEntryID
  simp only [lastIndex_abs h, (term_ok_iff h _ _).mpr ht]
  rfl

/-- **isUpToDate**: the candidate's last entry is at least as up to date as ours -/
theorem isUpToDate_spec {l : RaftLog} (h : l.WF) (their : EntryID) :
    ∃ t, l.abs.term? l.abs.last = some t ∧
      l.isUpToDate their = .ok (decide (their.term > t) || (their.term == t && decide (their.index ≥ l.abs.last))) := by
  obtain ⟨t, ht, hl⟩ := lastEntryID_spec h
  refine ⟨t, ht, ?_⟩
  unfold isUpToDate
  rw [hl]
  rfl

/-- **maybeCommit(at)**: advances `committed` to `at.index` iff `at.term ≠ 0`, `at.index > committed` and
the log has `at.index` with term `at.term`; never panics under the invariant -/
theorem maybeCommit_spec {l : RaftLog} (h : l.WF) (at_ : EntryID) :
    (at_.term ≠ 0 ∧ l.committed < at_.index ∧ l.abs.term? at_.index = some at_.term ∧
      l.maybeCommit at_ = .ok ({ l with committed := at_.index }, true) ∧
      ({ l with committed := at_.index } : RaftLog).WF) ∨
    (¬ (at_.term ≠ 0 ∧ l.committed < at_.index ∧ l.abs.term? at_.index = some at_.term) ∧
      l.maybeCommit at_ = .ok (l, false)) := by
  by_cases hc : at_.term ≠ 0 ∧ l.committed < at_.index ∧ l.abs.term? at_.index = some at_.term
  · left
    obtain ⟨h1, h2, h3⟩ := hc
    have hm := (matchTerm_iff h at_).mpr h3
    have hle : at_.index ≤ l.lastIndex := by
      rw [lastIndex_abs h]
      exact ((l.abs.term?_isSome_iff _).mp (by rw [h3]; rfl)).2
    have hct : l.commitTo at_.index = .ok { l with committed := at_.index } := by
      rw [commitTo_ok_of_le hle]
      have : max l.committed at_.index = at_.index := by omega
      rw [this]
    refine ⟨h1, h2, h3, ?_, (commitTo_wf h hct).1⟩
    unfold maybeCommit
    rw [if_pos (by simp [h1, h2, hm])]
    simp only [bind, Except.bind, hct]
    rfl
  · right
    refine ⟨hc, ?_⟩
    unfold maybeCommit
    rw [if_neg]
    · rfl
    · simp only [Bool.and_eq_true, bne_iff_ne, ne_eq, decide_eq_true_eq, not_and]
      intro h1 hm
      exact hc ⟨h1.1, h1.2, (matchTerm_iff h at_).mp hm⟩

end RaftLog
end RaftVerif
