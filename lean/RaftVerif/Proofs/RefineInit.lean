import RaftVerif.Proofs.C14RawNode
import RaftVerif.Proofs.StepRouted
/-!
# Proofs/RefineInit — the node id of a `raft` built by `newRaft` is not 0

The Spec's `campaign n` has the guard conjunct `n ≠ 0` (0 encodes "no vote").  The model never checks it in
`Step`; it is established once, by `Config.validate` ("cannot use none as id"), and `cfg` never changes
afterwards (`Good.cfg` / `Routed.cfg` for `Step`, `tick`, `advance`).
-/
namespace RaftVerif.Refine
open Raft C14

/-- `cfg` is what it was -/
def CfgE (s s' : Raft) : Prop := s'.cfg = s.cfg

instance : RelOK CfgE := ⟨fun _ => rfl, fun h1 h2 => Eq.trans h2 h1⟩

macro_rules | `(tactic| rel_fields) => `(tactic| exact (rfl : CfgE _ _))

theorem switchToConfig_cfgE (cfg : TrackerConfig) (trk : ProgressMap) (s : Raft) :
    Spec (switchToConfig cfg trk) s (fun _ s' => CfgE s s') :=
  (switchToConfig_routed cfg trk s).mono fun _ _ h => h.cfg

theorem becomeFollower_cfgE (t l : Nat) (s : Raft) : Spec (becomeFollower t l) s (fun _ s' => CfgE s s') :=
  (becomeFollower_routed t l s).mono fun _ _ h => h.cfg

theorem newRaftAct_cfg (c : Config) (hs : Option HardState) (cs : ConfState) (r0 : Raft) :
    Spec (newRaftAct c hs cs) r0 (fun _ s' => CfgE r0 s') := by
  unfold newRaftAct Raft.loadState
  rel_start
  wp_auto [first | rel_call (switchToConfig_cfgE ..) | rel_call (becomeFollower_cfgE ..)]

theorem cfgFill_id (c : Config) : (cfgFill c).id = c.id := by
  unfold cfgFill cfgFill0
  simp only
  repeat' split
  all_goals rfl

/-- **the id of a node built by `newRaft` is the configured one, and it is not 0** -/
theorem newRaft_id_ne_zero (c : Config) (storage : MemoryStorage) (draws : List Nat) (r : Raft)
    (h : newRaft c storage draws = .ok r) : r.cfg.id = c.id ∧ r.cfg.id ≠ 0 := by
  rw [newRaft_eq] at h
  obtain ⟨c', hv, h⟩ := bind_eq_ok.1 h
  obtain ⟨p, hrun, h⟩ := bind_eq_ok.1 h
  obtain ⟨u, r1⟩ := p
  simp only [pure, Except.pure, Except.ok.injEq] at h
  subst h
  have hc : r1.cfg = (newRaftInit c' storage draws).cfg := (newRaftAct_cfg _ _ _ _).elim hrun
  have hid : r1.cfg.id = c'.id := by rw [hc]; rfl
  rw [validate_eq] at hv
  by_cases h0 : c.id = 0
  · rw [if_pos h0] at hv; cases hv
  · have hc' : c' = cfgFill c := by
      repeat' (split at hv)
      all_goals first | (cases hv; done) | (injection hv with hv; exact hv.symm)
    rw [hid, hc', cfgFill_id]
    exact ⟨rfl, h0⟩

end RaftVerif.Refine
