import RaftVerif.Proofs.SimInv
/-!
# Proofs/SimAppResp — a MsgAppResp of the node's own term

* non-leader, or leader without a progress for the sender: ignored;
* leader, acknowledging: `Progress.Match` of the sender may move (no Spec action: justified by the incoming
  acknowledgement), `maybeCommit` is Spec `leaderCommit`, every MsgApp queued afterwards is a Spec `sendApp`;
* leader, rejecting: at most one MsgApp (Spec `sendApp`).
-/
namespace RaftVerif.Sim
open Refine
open Raft
set_option linter.unusedSimpArgs false
set_option linter.unusedVariables false

/-! ### acknowledgements are monotone in the index -/

theorem hasAck_le {msgs : List Spec.Msg} {t v k c : Nat} (h : Spec.hasAck msgs t v k = true) (hc : c ≤ k) :
    Spec.hasAck msgs t v c = true := by
  unfold Spec.hasAck at h ⊢
  rw [List.any_eq_true] at h ⊢
  obtain ⟨x, hx, hp⟩ := h
  refine ⟨x, hx, ?_⟩
  cases x <;> simp only [Bool.and_eq_true, decide_eq_true_eq] at hp ⊢ <;> first | exact hp | skip
  exact ⟨hp.1, by omega⟩

theorem hasDurAck_le {acks : List (Nat × Nat)} {t k c : Nat} (h : Spec.hasDurAck acks t k = true) (hc : c ≤ k) :
    Spec.hasDurAck acks t c = true := by
  unfold Spec.hasDurAck at h ⊢
  rw [List.any_eq_true] at h ⊢
  obtain ⟨x, hx, hp⟩ := h
  refine ⟨x, hx, ?_⟩
  simp only [Bool.and_eq_true, decide_eq_true_eq] at hp ⊢
  exact ⟨hp.1, by omega⟩

/-! ### ignored: the node is not leader -/

theorem appResp_dispatched {m : Message} (ht : m.typ = .appResp) : Dispatched m.typ := by
  rw [ht]; unfold Dispatched; simp

theorem stepFollower_appResp_run (fuel : Nat) (m : Message) (ht : m.typ = .appResp) (r : Raft) :
    (stepFollower fuel m).run r = .ok (none, r) := by
  rw [stepFollower]
  simp only [ht, StateT.run_bind, StateT.run_get, P_pure_eq, P_ok_bind, StateT.run_pure]

theorem stepCandidate_appResp_run (fuel : Nat) (m : Message) (ht : m.typ = .appResp) (r : Raft) :
    (stepCandidate fuel m).run r = .ok (none, r) := by
  rw [stepCandidate]
  have e1 : (MsgType.appResp == MsgType.preVoteResp) = false := rfl
  have e2 : (MsgType.appResp == MsgType.voteResp) = false := rfl
  simp only [ht, StateT.run_bind, StateT.run_get, P_pure_eq, P_ok_bind, StateT.run_pure]
  split <;> simp only [e1, e2, Bool.false_eq_true, ↓reduceIte, StateT.run_pure, P_pure_eq]

/-- a non-leader ignores a MsgAppResp of its own term -/
theorem step_appResp_nonleader_run (fuel : Nat) (m : Message) (r : Raft) (ht : m.typ = .appResp)
    (hterm : m.term = r.term) (hs : r.state ≠ .leader) : (step (fuel + 1) m).run r = .ok (none, r) := by
  rw [step_same_term_dispatch fuel m r (Or.inr hterm) (appResp_dispatched ht)]
  unfold dispatch
  cases hst : r.state with
  | leader => exact absurd hst hs
  | candidate => exact stepCandidate_appResp_run fuel m ht r
  | preCandidate => exact stepCandidate_appResp_run fuel m ht r
  | follower => exact stepFollower_appResp_run fuel m ht r

/-! ### installing a new progress for one peer -/

/-- overwriting the progress of a tracked peer `v` at a leader: the invariant survives if the learner flag is
kept and every index newly covered by `Match` is backed by an acknowledgement of `v` -/
theorem RaftInv.setPr {val : Val} {voters : List Id} {n : Nat} {r : Raft} {nd : Spec.Node} {msgs : List Spec.Msg}
    (hinv : RaftInv val voters n r nd msgs) {v : Id} {pr X : Progress}
    (hg : r.trk.getProgress v = some pr) (hlearn : X.isLearner = pr.isLearner)
    (hO : v ≠ n → ∀ c, 0 < c → pr.match_ < c → c ≤ X.match_ → Spec.hasAck msgs r.term v c = true)
    (hS : v = n → ∀ c, pr.match_ < c → c ≤ X.match_ → (absLog val r).termAt c = some r.term →
      Spec.hasDurAck nd.dur.acks r.term c = true) :
    RaftInv val voters n { r with trk := r.trk.setProgress v X } nd msgs := by
  have hget : ∀ w, ({ r with trk := r.trk.setProgress v X } : Raft).trk.getProgress w =
      if v = w then some X else r.trk.getProgress w := fun w => getProgress_setProgress _ _ _ _
  exact {
    abs := hinv.abs.congr rfl rfl rfl rfl
    st := {
      id := hinv.st.id, idnz := hinv.st.idnz, pv := hinv.st.pv, xfer := hinv.st.xfer,
      pri := hinv.st.pri, ro := hinv.st.ro, tvoters := hinv.st.tvoters, tout := hinv.st.tout,
      tauto := hinv.st.tauto, self := hinv.st.self
      prog := by
        intro w
        rw [hget]
        by_cases hw : v = w
        · subst hw
          rw [if_pos rfl, hinv.st.prog v, hg]; rfl
        · rw [if_neg hw]; exact hinv.st.prog w
      nolearn := by
        intro w p hp
        rw [hget] at hp
        by_cases hw : v = w
        · rw [if_pos hw] at hp
          injection hp with hp
          subst hp
          rw [hlearn]; exact hinv.st.nolearn v pr hg
        · rw [if_neg hw] at hp; exact hinv.st.nolearn w p hp }
    wf := hinv.wf
    unc := hinv.unc
    leadInv := hinv.leadInv
    candVote := hinv.candVote
    termPos := hinv.termPos
    logLe := hinv.logLe
    candLt := hinv.candLt
    pend := hinv.pend
    durV := hinv.durV
    durA := hinv.durA
    out := hinv.out
    prom := hinv.prom
    rvTerm := hinv.rvTerm
    rvCov := hinv.rvCov
    votes := hinv.votes
    selfVote := hinv.selfVote
    matchO := by
      intro hl w p c hwn hp h0 hc
      rw [hget] at hp
      by_cases hw : v = w
      · rw [if_pos hw] at hp
        injection hp with hp
        subst hp; subst hw
        by_cases hold : c ≤ pr.match_
        · exact hinv.matchO hl v pr c hwn hg h0 hold
        · exact hO hwn c h0 (by omega) hc
      · rw [if_neg hw] at hp
        exact hinv.matchO hl w p c hwn hp h0 hc
    matchS := by
      intro hl p c hp hc hta
      rw [hget] at hp
      by_cases hw : v = n
      · rw [if_pos hw] at hp
        injection hp with hp
        subst hp
        by_cases hold : c ≤ pr.match_
        · exact hinv.matchS hl pr c (hw ▸ hg) hold hta
        · exact hS hw c (by omega) hc hta
      · rw [if_neg hw] at hp
        exact hinv.matchS hl p c hp hc hta }

/-! ### `maybeCommit` is Spec `leaderCommit` -/

/-- the peers with `Match ≥ idx` are a quorum when `idx` is the tracker's quorum index -/
theorem ackedBy_quorum {voters : List Id} {n : Nat} {a : Raft} (hst : RaftStatic voters n a) {idx : Nat}
    (hq : a.trk.committed = some idx) (hpos : 0 < idx) : (cfgOf voters).isQuorum (ackedBy a idx) = true := by
  have hout : a.trk.outgoingL = [] := by unfold Tracker.outgoingL; rw [hst.tout]; rfl
  rw [C06L.trk_committed_eq] at hq
  obtain ⟨b0, b1⟩ := Quorum.joint_committed_backed _ _ _ _ hq
  have hj : (Spec.jointCfg a.trk.cfg.voters a.trk.outgoingL).isQuorum (ackedBy a idx) = true := by
    rw [Spec.jointCfg_isQuorum_iff]
    unfold ackedBy
    rw [countP_filter_contains _ _ _ (fun x hx => List.mem_append_left _ hx),
      countP_filter_contains _ _ _ (fun x hx => List.mem_append_right _ hx),
      ← ackedAtLeast_eq _ _ _ hpos, ← ackedAtLeast_eq _ _ _ hpos]
    refine ⟨?_, ?_⟩
    · by_cases h0 : a.trk.cfg.voters = []
      · exact Or.inl h0
      · exact Or.inr (b0 h0)
    · by_cases h0 : a.trk.outgoingL = []
      · exact Or.inl h0
      · exact Or.inr (b1 h0)
  rw [hst.tvoters, hout] at hj
  exact hj

/-- **the leader's `maybeCommit` that advances the commit index** is Spec `leaderCommit` -/
theorem sim_commitAt {val : Val} {voters : List Id} {n : Nat} {s : Spec.State} {a : Raft} {idx : Nat}
    (hinv : RaftInv val voters n a (s.nodes n) s.msgs) (hl : a.state = .leader)
    (hq : a.trk.committed = some idx) (h1 : a.log.committed < idx) (h2 : idx ≤ a.log.lastIndex)
    (h3 : a.log.term idx = .ok a.term) : RaftSim val voters n s (Next.committedAt a idx) := by
  have hta : (absLog val a).termAt idx = some a.term := (term_ok_iff_termAt val hinv.wf hinv.unc _ _).1 h3
  have hen : Spec.enabled (cfgOf voters) s (.leaderCommit n idx (ackedBy a idx)) := by
    refine ⟨by rw [hinv.abs.role, hl]; rfl, by rw [hinv.abs.commit]; exact h1,
      by rw [hinv.abs.log, hinv.abs.term]; exact hta, ackedBy_quorum hinv.st hq (by omega), ?_⟩
    intro v hv
    obtain ⟨_, pr, hg, hc⟩ := mem_ackedBy.1 hv
    rw [hinv.abs.term]
    by_cases hvn : v = n
    · subst hvn
      exact Or.inl ⟨rfl, hinv.matchS hl pr idx hg hc hta⟩
    · exact Or.inr (hinv.matchO hl v pr idx hvn hg (by omega) hc)
  refine ⟨[.leaderCommit n idx (ackedBy a idx)], _, .single hen, by simp [Spec.Action.actor], ?_⟩
  have hm : (Spec.apply s (.leaderCommit n idx (ackedBy a idx))).msgs = s.msgs := rfl
  rw [hm, leaderCommit_nodes]
  exact {
    abs := ⟨hinv.abs.term, hinv.abs.vote, rfl, hinv.abs.log, hinv.abs.role⟩
    st := hinv.st.congr rfl rfl rfl rfl rfl rfl
    wf := wf_commit hinv.wf (Nat.le_of_lt h1) h2
    unc := hinv.unc.of_abs rfl rfl
    leadInv := hinv.leadInv
    candVote := hinv.candVote
    termPos := hinv.termPos
    logLe := hinv.logLe
    candLt := hinv.candLt
    pend := hinv.pend
    durV := hinv.durV
    durA := hinv.durA
    out := hinv.out
    prom := hinv.prom
    rvTerm := hinv.rvTerm
    rvCov := hinv.rvCov
    votes := hinv.votes
    selfVote := hinv.selfVote
    matchO := hinv.matchO
    matchS := hinv.matchS }

/-! ### a leader that only sends: every queued MsgApp is a Spec `sendApp` -/

/-- what the sending tail of a leader's handler does: `SendFrame`, `PrKeep`, no promise queued, and every message
appended to `msgs` is a snapshot, a MsgTimeoutNow, or a Spec `sendApp` message of the (unchanged) log -/
structure Sends (val : Val) (a s' : Raft) : Prop where
  sf : SendFrame a s'
  pk : Live.PrKeep a s'
  maa : s'.msgsAfterAppend = a.msgsAfterAppend
  out : ∃ added, s'.msgs = a.msgs ++ added ∧ ∀ x ∈ added, x.typ = .snap ∨ x.typ = .timeoutNow ∨ SendAppOK val a x

theorem Sends.refl (val : Val) (a : Raft) : Sends val a a :=
  ⟨RelOK.refl a, RelOK.refl a, rfl, [], by simp, by simp⟩

theorem Sends.trans {val : Val} {a b c : Raft} (h1 : Sends val a b) (h2 : Sends val b c) : Sends val a c := by
  obtain ⟨ad1, m1, p1⟩ := h1.out
  obtain ⟨ad2, m2, p2⟩ := h2.out
  refine ⟨RelOK.trans h1.sf h2.sf, RelOK.trans h1.pk h2.pk, h2.maa.trans h1.maa, ad1 ++ ad2,
    by rw [m2, m1, List.append_assoc], ?_⟩
  intro x hx
  rcases List.mem_append.1 hx with hx | hx
  · exact p1 x hx
  · exact (p2 x hx).imp id (fun h => h.imp id (fun h => h.congr h1.sf.log h1.sf.term h1.sf.cfg))

instance (val : Val) : RelOK (Sends val) := ⟨Sends.refl val, Sends.trans⟩

/-- a `SendAppOK` message whose soup image is in `msgs` is justified -/
theorem sendAppOK_netOK {val : Val} {a : Raft} {x : Message} {msgs : List Spec.Msg} (hx : SendAppOK val a x)
    (ht : a.term ≠ 0) (hle : ∀ e ∈ absLog val a, e.term ≤ a.term) (hmem : absApp val x ∈ msgs) :
    NetOK val msgs x := by
  unfold NetOK
  simp only [hx.typ]
  refine ⟨by rw [hx.term]; exact ht, hmem, hx.contig, ?_⟩
  intro e he
  have h1 : absEnt val e ∈ x.entries.map (absEnt val) := List.mem_map_of_mem he
  rw [hx.ents] at h1
  have h2 := hle _ (List.mem_of_mem_drop (List.mem_of_mem_take h1))
  rw [hx.term]
  exact h2

/-- the Spec performs one `sendApp` per queued MsgApp -/
theorem run_sendApps {val : Val} {voters : List Id} {n : Nat} {a : Raft} (hl : a.state = .leader)
    (added : List Message) (hadd : ∀ x ∈ added, x.typ = .snap ∨ x.typ = .timeoutNow ∨ SendAppOK val a x)
    (s : Spec.State) (ha : Abs val a (s.nodes n)) :
    ∃ as s', RunL (cfgOf voters) s as s' ∧ (∀ b ∈ as, b.actor = n) ∧ s'.nodes = s.nodes ∧
      (∀ x ∈ s.msgs, x ∈ s'.msgs) ∧
      (∀ t c lt li, Spec.Msg.reqVote t c lt li ∈ s'.msgs → Spec.Msg.reqVote t c lt li ∈ s.msgs) ∧
      (∀ x ∈ added, SendAppOK val a x → absApp val x ∈ s'.msgs) := by
  induction added generalizing s with
  | nil => exact ⟨[], s, .nil s, by simp, rfl, fun _ h => h, fun _ _ _ _ h => h, by simp⟩
  | cons x xs ih =>
    have hxs : ∀ y ∈ xs, y.typ = .snap ∨ y.typ = .timeoutNow ∨ SendAppOK val a y :=
      fun y hy => hadd y (List.mem_cons_of_mem _ hy)
    have hcase : x.typ ≠ .app ∨ SendAppOK val a x := by
      rcases hadd x List.mem_cons_self with hx | hx | hx
      · exact Or.inl (by rw [hx]; simp)
      · exact Or.inl (by rw [hx]; simp)
      · exact Or.inr hx
    rcases hcase with hne | hx
    · obtain ⟨as, s', h1, h2, h3, h4, h5, h6⟩ := ih hxs s ha
      refine ⟨as, s', h1, h2, h3, h4, h5, ?_⟩
      intro y hy hok
      rcases List.mem_cons.1 hy with rfl | hy
      · exact absurd hok.typ hne
      · exact h6 y hy hok
    · obtain ⟨hen, hmsgs, hnodes⟩ := sendApp_abs val (cfgOf voters) ha hl hx
      obtain ⟨as, s', h1, h2, h3, h4, h5, h6⟩ := ih hxs (Spec.apply s (.sendApp n x.index x.entries.length x.commit))
        (by rw [hnodes]; exact ha)
      refine ⟨_ :: as, s', .cons hen h1, ?_, h3.trans hnodes, ?_, ?_, ?_⟩
      · intro b hb
        rcases List.mem_cons.1 hb with rfl | hb
        · rfl
        · exact h2 b hb
      · intro y hy
        exact h4 y (by rw [hmsgs]; exact List.mem_cons_of_mem _ hy)
      · intro t c lt li hy
        have := h5 t c lt li hy
        rw [hmsgs] at this
        rcases List.mem_cons.1 this with h | h
        · unfold absApp at h; cases h
        · exact h
      · intro y hy hok
        rcases List.mem_cons.1 hy with rfl | hy
        · exact h4 _ (by rw [hmsgs]; exact List.mem_cons_self)
        · exact h6 y hy hok

/-- what `PrKeep` says backwards: a progress of the new state comes from one of the old state -/
theorem prKeep_back {a r' : Raft} (hk : Live.PrKeep a r') {v : Id} {pr' : Progress}
    (hg : r'.trk.getProgress v = some pr') :
    ∃ pr, a.trk.getProgress v = some pr ∧ pr'.match_ = pr.match_ ∧ pr'.isLearner = pr.isLearner := by
  obtain ⟨_, _, hk⟩ := hk
  cases hga : a.trk.getProgress v with
  | none => rw [(hk v).1 hga] at hg; cases hg
  | some pr =>
    obtain ⟨p, hp, e1, _, e3, _⟩ := (hk v).2 pr hga
    rw [hp] at hg
    injection hg with hg
    subst hg
    exact ⟨pr, rfl, e1, e3⟩

theorem prKeep_isSome {a r' : Raft} (hk : Live.PrKeep a r') (v : Id) :
    (r'.trk.getProgress v).isSome = (a.trk.getProgress v).isSome := by
  obtain ⟨_, _, hk⟩ := hk
  cases hga : a.trk.getProgress v with
  | none => rw [(hk v).1 hga]
  | some pr =>
    obtain ⟨p, hp, _⟩ := (hk v).2 pr hga
    rw [hp]; rfl

/-- **a leader that only sends** (`Sends`) is simulated by one Spec `sendApp` per queued MsgApp -/
theorem sim_sends {val : Val} {voters : List Id} {n : Nat} {s : Spec.State} {a r' : Raft}
    (hinv : RaftInv val voters n a (s.nodes n) s.msgs) (hl : a.state = .leader) (hs : Sends val a r') :
    RaftSim val voters n s r' := by
  obtain ⟨added, hmsgs, hadd⟩ := hs.out
  obtain ⟨as, s', hrun, hact, hnodes, hsub, hrv, hnew⟩ :=
    run_sendApps (voters := voters) (n := n) hl added hadd s hinv.abs
  refine ⟨as, s', hrun, hact, ?_⟩
  rw [hnodes]
  have hi := hinv.frame hsub (fun t lt li => hrv t n lt li)
  have sf := hs.sf
  have hlog : absLog val r' = absLog val a := by unfold absLog; rw [sf.log]
  have hst' : r'.state = .leader := sf.state.trans hl
  have hnc : r'.state ≠ .candidate := by rw [hst']; simp
  have htp : a.term ≠ 0 := hinv.termPos (by rw [hl]; simp)
  exact {
    abs := hi.abs.congr sf.term sf.vote sf.log (by rw [sf.state])
    st := {
      id := by rw [sf.cfg]; exact hi.st.id
      idnz := hi.st.idnz
      pv := by rw [sf.cfg]; exact hi.st.pv
      xfer := sf.leadTransferee.trans hi.st.xfer
      pri := sf.pendingReadIndexMessages.trans hi.st.pri
      ro := by rw [sf.readOnly]; exact hi.st.ro
      tvoters := by rw [sf.trkCfg]; exact hi.st.tvoters
      tout := by rw [sf.trkCfg]; exact hi.st.tout
      tauto := by rw [sf.trkCfg]; exact hi.st.tauto
      prog := fun v => by rw [prKeep_isSome hs.pk]; exact hi.st.prog v
      nolearn := fun v pr' hp => by
        obtain ⟨pr, hg, _, e⟩ := prKeep_back hs.pk hp
        rw [e]; exact hi.st.nolearn v pr hg
      self := hi.st.self }
    wf := by rw [sf.log]; exact hi.wf
    unc := by rw [sf.log]; exact hi.unc
    leadInv := by rw [sf.state, sf.lead, sf.vote]; exact hi.leadInv
    candVote := fun hc => absurd hc hnc
    termPos := by rw [sf.state, sf.term]; exact hi.termPos
    logLe := by rw [hlog, sf.term]; exact hi.logLe
    candLt := fun hc => absurd hc hnc
    pend := hi.pend
    durV := hi.durV
    durA := hi.durA
    out := by
      intro x hx
      rw [hmsgs] at hx
      rcases List.mem_append.1 hx with hx | hx
      · exact hi.out x hx
      · rcases hadd x hx with h | h | h
        · unfold NetOK; simp only [h]
        · unfold NetOK; simp only [h]
        · exact sendAppOK_netOK h htp hinv.logLe (hnew x hx h)
    prom := by rw [hs.maa]; exact hi.prom
    rvTerm := by rw [sf.term]; exact hi.rvTerm
    rvCov := fun hc => absurd hc hnc
    votes := fun hc => absurd hc hnc
    selfVote := fun hc => absurd hc hnc
    matchO := by
      intro _ v pr' c hv hp h0 hc
      obtain ⟨pr, hg, e, _⟩ := prKeep_back hs.pk hp
      rw [sf.term]
      exact hi.matchO hl v pr c hv hg h0 (by rw [← e]; exact hc)
    matchS := by
      intro _ pr' c hp hc hta
      obtain ⟨pr, hg, e, _⟩ := prKeep_back hs.pk hp
      rw [sf.term]
      rw [hlog, sf.term] at hta
      exact hi.matchS hl pr c hg (by rw [← e]; exact hc) hta }

/-! ### the sending functions keep `Sends` -/

theorem maybeSendAppend_sends (val : Val) (to : Id) (b : Bool) (s : Raft) (hwf : s.log.WF)
    (hu : Uncompacted s.log) : Spec (maybeSendAppend to b) s (fun _ s' => Sends val s s') := by
  refine (((maybeSendAppend_sf to b s).and (Live.maybeSendAppend_pk to b s)).and
    (maybeSendAppend_sendsOK val to b s hwf hu)).mono ?_
  rintro _ s' ⟨⟨h1, h2⟩, h3⟩
  obtain ⟨added, hm, hp⟩ := h3.msgs
  exact ⟨h1, h2, h3.maa, added, hm, fun x hx => (hp x hx).imp id Or.inr⟩

theorem releasePRIM_same (s : Raft) (h : s.pendingReadIndexMessages = []) :
    Spec releasePendingReadIndexMessages s (fun _ s' => s' = s) := by
  unfold releasePendingReadIndexMessages
  simp only [wp, h, List.length_nil, beq_self_eq_true, ↓reduceIte]
  exact ⟨fun _ => trivial, fun h => absurd trivial h⟩

theorem bcastAppend_sends (val : Val) (s : Raft) (hwf : s.log.WF) (hu : Uncompacted s.log) :
    Spec bcastAppend s (fun _ s' => Sends val s s') := by
  refine (((bcastAppend_sf s).and (Live.bcastAppend_pk s)).and (bcastAppend_sendsOK val s hwf hu)).mono ?_
  rintro _ s' ⟨⟨h1, h2⟩, h3⟩
  obtain ⟨added, hm, hp⟩ := h3.msgs
  exact ⟨h1, h2, h3.maa, added, hm, fun x hx => (hp x hx).imp id Or.inr⟩

theorem sendAppend_sends (val : Val) (to : Id) (s : Raft) (hwf : s.log.WF) (hu : Uncompacted s.log) :
    Spec (sendAppend to) s (fun _ s' => Sends val s s') := by
  unfold sendAppend
  simp only [wp]
  exact (maybeSendAppend_sends val to true s hwf hu).mono (fun _ _ h => h)

theorem sendAppendLoop_sends (val : Val) (fuel : Nat) (to : Id) (s : Raft) (hwf : s.log.WF)
    (hu : Uncompacted s.log) : Spec (sendAppendLoop fuel to) s (fun _ s' => Sends val s s') := by
  induction fuel generalizing s with
  | zero => unfold sendAppendLoop; simp only [wp]; exact Sends.refl val s
  | succ k ih =>
    unfold sendAppendLoop
    simp only [wp]
    refine (maybeSendAppend_sends val to false s hwf hu).mono ?_
    intro b mid hmid
    refine ⟨fun _ => ?_, fun _ => hmid⟩
    exact (ih mid (by rw [hmid.sf.log]; exact hwf) (by rw [hmid.sf.log]; exact hu)).mono
      (fun _ _ h => hmid.trans h)

theorem sendTimeoutNow_sends (val : Val) (to : Id) (s : Raft) :
    Spec (sendTimeoutNow to) s (fun _ s' => Sends val s s') := by
  unfold sendTimeoutNow
  refine (((send_sf _ s).and (Live.send_pk _ s)).and (send_spec _ s)).mono ?_
  rintro _ s' ⟨⟨h1, h2⟩, h3⟩
  rcases h3 with ⟨hp, _⟩ | ⟨_, rfl⟩
  · simp [isPromise] at hp
  · exact ⟨h1, h2, rfl, [_], rfl, by simp [stamped_typ]⟩

/-- `Sends` from a state with a well-formed, uncompacted log and no pending read-index request -/
def SendsP (val : Val) (a b : Raft) : Prop :=
  a.log.WF → Uncompacted a.log → a.pendingReadIndexMessages = [] → Sends val a b

theorem SendsP.refl (val : Val) (a : Raft) : SendsP val a a := fun _ _ _ => Sends.refl val a

theorem SendsP.trans {val : Val} {a b c : Raft} (h1 : SendsP val a b) (h2 : SendsP val b c) : SendsP val a c := by
  intro hwf hu hp
  have hab := h1 hwf hu hp
  exact hab.trans (h2 (by rw [hab.sf.log]; exact hwf) (by rw [hab.sf.log]; exact hu)
    (hab.sf.pendingReadIndexMessages.trans hp))

theorem sp_step_and {val : Val} {cur mid r' : Raft} {P : Prop} (h1 : SendsP val cur mid)
    (h2 : P ∧ SendsP val mid r') : P ∧ SendsP val cur r' := ⟨h2.1, h1.trans h2.2⟩

theorem sendTimeoutNow_sp (val : Val) (to : Id) (s : Raft) :
    Spec (sendTimeoutNow to) s (fun _ s' => SendsP val s s') :=
  (sendTimeoutNow_sends val to s).mono (fun _ _ h _ _ _ => h)

theorem sendAppend_sp (val : Val) (to : Id) (s : Raft) :
    Spec (sendAppend to) s (fun _ s' => SendsP val s s') := by
  rw [Spec.iff_runs]
  intro _ s' hr hwf hu _
  exact (sendAppend_sends val to s hwf hu).elim hr

theorem sendAppendLoop_sp (val : Val) (fuel : Nat) (to : Id) (s : Raft) :
    Spec (sendAppendLoop fuel to) s (fun _ s' => SendsP val s s') := by
  rw [Spec.iff_runs]
  intro _ s' hr hwf hu _
  exact (sendAppendLoop_sends val fuel to s hwf hu).elim hr

theorem bcastAppend_sp (val : Val) (s : Raft) : Spec bcastAppend s (fun _ s' => SendsP val s s') := by
  rw [Spec.iff_runs]
  intro _ s' hr hwf hu _
  exact (bcastAppend_sends val s hwf hu).elim hr

theorem releasePRIM_sp (val : Val) (s : Raft) :
    Spec releasePendingReadIndexMessages s (fun _ s' => SendsP val s s') := by
  rw [Spec.iff_runs]
  intro _ s' hr _ _ hp
  rw [(releasePRIM_same s hp).elim hr]
  exact Sends.refl val s

/-! ### the acknowledging MsgAppResp: `maybeCommit` in `ackMid`, then only sends -/

/-- the common tail of the `MsgAppResp` handler: maybe tell the transferee to campaign -/
macro "sp_tl1 " h:ident : tactic => `(tactic| (
  obtain ⟨_, _, hq1, hq2⟩ := bind_ok $h
  obtain ⟨eq0, eq1⟩ := get_ok hq1; subst eq0 eq1
  obtain ⟨_, _, hq3, hq4⟩ := bind_ok hq2
  obtain ⟨eq2, _⟩ := getPr_ok hq3; subst eq2
  split at hq4
  · obtain ⟨_, _, hq5, hq6⟩ := bind_ok hq4
    obtain ⟨eq3a, eq3⟩ := pure_ok hq6; subst eq3
    exact ⟨eq3a, (sendTimeoutNow_sp _ _ _).elim hq5⟩
  · obtain ⟨eq3a, eq3⟩ := pure_ok hq4; subst eq3; exact ⟨eq3a, SendsP.refl _ _⟩))

macro "sp_tl2 " h:ident : tactic => `(tactic| (
  split at $h:ident
  · obtain ⟨_, _, hp1, hp2⟩ := bind_ok $h
    obtain ⟨ep0, ep1⟩ := get_ok hp1; subst ep0 ep1
    obtain ⟨_, _, hp3, hp4⟩ := bind_ok hp2
    refine sp_step_and ((sendAppendLoop_sp _ _ _ _).elim hp3) ?_
    sp_tl1 hp4
  · sp_tl1 $h))

/-- **acknowledging `MsgAppResp`**: when the acknowledgement is processed further (`ackCond`), `maybeCommit` runs in
the state `ackMid` and everything after it only sends (`SendsP`) -/
theorem stepLeader_appResp_ack_sends (val : Val) (fuel : Nat) (m : Message) (r r' : Raft) (res : Option StepErr)
    (pr : Progress) (hm : m.typ = .appResp) (hg : r.trk.getProgress m.from = some pr)
    (hrej : m.reject = false) (hc : Live.ackCond pr m.index) (h : (stepLeader fuel m).run r = .ok (res, r')) :
    ∃ b mid, maybeCommit.run (Live.ackMid r m pr) = .ok (b, mid) ∧ SendsP val mid r' := by
  rw [← Live.ackMid3_eq]
  unfold stepLeader at h
  simp only [hm] at h
  obtain ⟨r0, r1, h1, hA⟩ := bind_ok h
  obtain ⟨e0, e1⟩ := get_ok h1; subst r0 r1
  split at hA
  case h_2 hnone => rw [hg] at hnone; cases hnone
  rename_i pr' hg'
  have epr : pr' = pr := by rw [hg] at hg'; injection hg' with hg'; exact hg'.symm
  subst pr'
  obtain ⟨pr'', r2, h2, hB⟩ := bind_ok hA
  obtain ⟨e0, e1⟩ := pure_ok h2; subst pr'' r2
  obtain ⟨u3, r3, h3, hC⟩ := bind_ok hB
  have e := setPr_ok h3; subst r3
  simp only [hrej, Bool.false_eq_true, ↓reduceIte] at hC
  obtain ⟨u4, r4, h4, hD⟩ := bind_ok hC
  have e := setPr_ok h4; subst r4
  split at hD
  case isFalse hcond =>
    exact absurd (by simpa [Live.ackCond, Live.ackUpd] using hc) hcond
  obtain ⟨r0, r5, h5, hE⟩ := bind_ok hD
  obtain ⟨e0, e1⟩ := get_ok h5; subst r0 r5
  obtain ⟨u6, r6, h6, hF⟩ := bind_ok hE
  have e := setPr_ok h6; subst r6
  obtain ⟨b7, r7, h7, hG⟩ := bind_ok hF
  refine ⟨b7, r7, h7, ?_⟩
  suffices hk : res = none ∧ SendsP val r7 r' from hk.2
  split at hG
  · obtain ⟨u8, r8, h8, hH⟩ := bind_ok hG
    refine sp_step_and ((releasePRIM_sp val _).elim h8) ?_
    obtain ⟨u9, r9, h9, hI⟩ := bind_ok hH
    refine sp_step_and ((bcastAppend_sp val _).elim h9) ?_
    sp_tl2 hI
  · obtain ⟨pr8, r8, h8, hH⟩ := bind_ok hG
    obtain ⟨e8, _⟩ := getPr_ok h8; subst e8
    obtain ⟨r0, r9, h9, hI⟩ := bind_ok hH
    obtain ⟨e0, e1⟩ := get_ok h9; subst e0 e1
    split at hI
    · obtain ⟨u10, r10, h10, hJ⟩ := bind_ok hI
      refine sp_step_and ((sendAppend_sp val _ _).elim h10) ?_
      sp_tl2 hJ
    · sp_tl2 hI

/-- installing for the sender of an acknowledgement a progress whose `Match` is the old one or the acknowledged index -/
theorem RaftInv.ack {val : Val} {voters : List Id} {n : Nat} {r : Raft} {nd : Spec.Node} {msgs : List Spec.Msg}
    (hinv : RaftInv val voters n r nd msgs) {m : Message} {pr X : Progress}
    (hg : r.trk.getProgress m.from = some pr) (hterm : m.term = r.term) (hlearn : X.isLearner = pr.isLearner)
    (hmatch : X.match_ = pr.match_ ∨ X.match_ = m.index)
    (hack : m.index = 0 ∨ (m.from = n ∧ Spec.hasDurAck nd.dur.acks m.term m.index = true) ∨
      (m.from ≠ n ∧ Spec.hasAck msgs m.term m.from m.index = true)) :
    RaftInv val voters n { r with trk := r.trk.setProgress m.from X } nd msgs := by
  refine hinv.setPr hg hlearn ?_ ?_
  · intro hv c h0 hlt hc
    rcases hmatch with e | e
    · omega
    · rw [e] at hc
      rcases hack with h | ⟨h, _⟩ | ⟨_, h⟩
      · omega
      · exact absurd h hv
      · rw [← hterm]; exact hasAck_le h hc
  · intro hv c hlt hc _
    rcases hmatch with e | e
    · omega
    · rw [e] at hc
      rcases hack with h | ⟨_, h⟩ | ⟨h, _⟩
      · omega
      · rw [← hterm]; exact hasDurAck_le h hc
      · exact absurd hv h

theorem ackUpd_facts (pr : Progress) (idx : Nat) :
    (Live.ackUpd pr idx).1.isLearner = pr.isLearner ∧
    ((Live.ackUpd pr idx).1.match_ = pr.match_ ∨ (Live.ackUpd pr idx).1.match_ = idx) := by
  unfold Live.ackUpd Progress.maybeUpdate
  split
  · exact ⟨rfl, Or.inl rfl⟩
  · exact ⟨rfl, Or.inr rfl⟩

/-- **leader, acknowledging MsgAppResp from a tracked peer** -/
theorem sim_appResp_leader_ack {val : Val} {voters : List Id} {n : Nat} {s : Spec.State} {r r' : Raft}
    {m : Message} {e : Option StepErr} {fuel : Nat} (hinv : RaftInv val voters n r (s.nodes n) s.msgs)
    (hl : r.state = .leader) (ht : m.typ = .appResp) (hterm : m.term = r.term)
    (hin : InOK val n (s.nodes n) s.msgs m) (hrej : m.reject = false) {pr : Progress}
    (hg : r.trk.getProgress m.from = some pr) (h : (stepLeader fuel m).run r = .ok (e, r')) :
    RaftSim val voters n s r' := by
  unfold InOK at hin
  simp only [ht] at hin
  have hack := hin.2 hrej
  obtain ⟨hl1, hm1⟩ := ackUpd_facts pr m.index
  by_cases hc : Live.ackCond pr m.index
  · obtain ⟨b, mid, hmc, hsp⟩ := stepLeader_appResp_ack_sends val fuel m r r' e pr ht hg hrej hc h
    obtain ⟨k1, _, k3⟩ := Live.ackTransition_keeps (Live.ackUpd pr m.index).1 r.log.firstIndex m.index
    have hinvMid : RaftInv val voters n (Live.ackMid r m pr) (s.nodes n) s.msgs :=
      hinv.ack hg hterm (k3.trans hl1) (by rw [k1]; exact hm1) hack
    have hlm : (Live.ackMid r m pr).state = .leader := hl
    rcases (Next.maybeCommit_exact _).elim hmc with ⟨_, rfl⟩ | ⟨_, idx, h1, h2, h3, h4, _, rfl⟩
    · exact sim_sends hinvMid hlm (hsp hinvMid.wf hinvMid.unc hinvMid.st.pri)
    · obtain ⟨as, s1, hrun, hact, hinv1⟩ := sim_commitAt hinvMid hlm h1 h2 h3 h4
      exact RaftSim.trans hrun hact (sim_sends hinv1 hlm (hsp hinv1.wf hinv1.unc hinv1.st.pri))
  · have := (Live.stepLeader_appResp_ack_inv fuel m r r' e pr ht hg hrej h).2.2 hc
    subst this
    exact RaftSim.refl (hinv.ack hg hterm hl1 hm1 hack)

theorem afterReject_facts (pr : Progress) (idx hint : Nat) :
    (Live.afterReject pr idx hint).isLearner = pr.isLearner ∧ (Live.afterReject pr idx hint).match_ = pr.match_ := by
  have hd : ∀ p : Progress, (p.maybeDecrTo idx hint).1.isLearner = p.isLearner ∧
      (p.maybeDecrTo idx hint).1.match_ = p.match_ := by
    intro p
    unfold Progress.maybeDecrTo
    split
    · split <;> exact ⟨rfl, rfl⟩
    · split <;> exact ⟨rfl, rfl⟩
  have hb : ∀ p : Progress, p.becomeProbe.isLearner = p.isLearner ∧ p.becomeProbe.match_ = p.match_ := by
    intro p
    unfold Progress.becomeProbe Progress.resetState
    simp only
    split <;> exact ⟨rfl, rfl⟩
  have h0 := hd ({ pr with recentActive := true } : Progress)
  unfold Live.afterReject
  split
  · exact ⟨(hb _).1.trans h0.1, (hb _).2.trans h0.2⟩
  · exact h0

/-- **leader, rejecting MsgAppResp from a tracked peer**: `Match` is untouched, at most one MsgApp is sent -/
theorem sim_appResp_leader_reject {val : Val} {voters : List Id} {n : Nat} {s : Spec.State} {r r' : Raft}
    {m : Message} {e : Option StepErr} {fuel : Nat} (hinv : RaftInv val voters n r (s.nodes n) s.msgs)
    (hl : r.state = .leader) (ht : m.typ = .appResp) (hrej : m.reject = true) {pr : Progress}
    (hg : r.trk.getProgress m.from = some pr) (h : (stepLeader fuel m).run r = .ok (e, r')) :
    RaftSim val voters n s r' := by
  rw [Live.stepLeader_appResp_reject_run fuel m r pr ht hg hrej] at h
  split at h
  · obtain ⟨p, hp, h⟩ := bind_eq_ok.1 h
    injection h with h; injection h with _ h; subst h
    obtain ⟨b, s1⟩ := p
    obtain ⟨f1, f2⟩ := afterReject_facts pr m.index (Live.probeHint r m)
    have hinv1 := hinv.setPr (X := Live.afterReject pr m.index (Live.probeHint r m)) hg f1
      (fun _ c _ h1 h2 => by omega) (fun _ c h1 h2 _ => by omega)
    exact sim_sends hinv1 hl ((maybeSendAppend_sends val m.from true _ hinv1.wf hinv1.unc).elim hp)
  · injection h with h; injection h with _ h; subst h
    exact RaftSim.refl (hinv.setPr (X := { pr with recentActive := true }) hg rfl
      (fun _ c _ h1 h2 => by simp only at h2; omega) (fun _ c h1 h2 _ => by simp only at h2; omega))

/-- **MsgAppResp at the node's own term** (from the network, or the leader's own acknowledgement replayed by
`Advance`): ignored by a non-leader and by a leader that does not track the sender; at a leader an acknowledgement
may move `Match` of the sender (no Spec action), `maybeCommit` is Spec `leaderCommit n c (ackedBy · c)`, and every
MsgApp queued is a Spec `sendApp`; a rejection queues at most one MsgApp (Spec `sendApp`).
No extra hypothesis (`hreach` is not used). -/
theorem sim_appResp_same {val : Val} {voters : List Id} {n : Nat} {s : Spec.State} {r r' : Raft} {m : Message}
    {e : Option StepErr} {fuel : Nat} (hinv : RaftInv val voters n r (s.nodes n) s.msgs)
    (hreach : Spec.Reachable (cfgOf voters) s)
    (ht : m.typ = .appResp) (hterm : m.term = r.term) (hin : InOK val n (s.nodes n) s.msgs m)
    (h : (Raft.step (fuel + 1) m).run r = .ok (e, r')) : RaftSim val voters n s r' := by
  by_cases hl : r.state = .leader
  · rw [Live.step_leader_dispatch fuel m r hl (Or.inr hterm) (Or.inr (Or.inr (Or.inl ht)))] at h
    cases hg : r.trk.getProgress m.from with
    | none =>
      rw [Live.stepLeader_noProgress_run fuel m r (Or.inr (Or.inr (Or.inr (Or.inl ht)))) hg] at h
      injection h with h; injection h with _ h; subst h
      exact RaftSim.refl hinv
    | some pr =>
      cases hrej : m.reject with
      | true => exact sim_appResp_leader_reject hinv hl ht hrej hg h
      | false => exact sim_appResp_leader_ack hinv hl ht hterm hin hrej hg h
  · rw [step_appResp_nonleader_run fuel m r ht hterm hl] at h
    injection h with h; injection h with _ h; subst h
    exact RaftSim.refl hinv

end RaftVerif.Sim
