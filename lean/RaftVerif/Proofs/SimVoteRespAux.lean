import RaftVerif.Proofs.SimVoteResp
import RaftVerif.Proofs.SimAux
import RaftVerif.Proofs.SimTermAux
import RaftVerif.Proofs.SimAppRespAux
/-!
# Proofs/SimVoteRespAux — a same-term MsgVoteResp keeps the auxiliary invariant `AuxInv`
-/
namespace RaftVerif.Sim
open Refine Raft

/-- recording a vote changes `trk.votes` only -/
theorem vra_polled {n : Nat} {r : Raft} {m : Message} (haux : AuxInv n r) (hs : r.state = .candidate) :
    AuxInv n (polled r m) ∧ AuxFrame r (polled r m) := by
  refine ⟨⟨fun hl => ?_, haux.self, haux.outFrom⟩, Nat.le_refl _, fun _ h => ⟨h, Nat.le_refl _⟩, fun _ h => h⟩
  have : r.state = .leader := hl
  rw [hs] at this; cases this

/-- `becomeLeader; bcastAppend` from a candidate -/
theorem vra_won (val : Val) {n : Nat} {p s1 r' : Raft} (haux : AuxInv n p) (hid : p.cfg.id = n)
    (hwf : p.log.WF) (hu : Uncompacted p.log) (hs : p.state = .candidate)
    (h1 : Raft.becomeLeader.run p = .ok ((), s1)) (h2 : Raft.bcastAppend.run s1 = .ok ((), r')) :
    AuxInv n r' ∧ AuxFrame p r' := by
  have hp := (becomeLeader_refine val p hwf hu).elim h1
  have hf := (vr_becomeLeader_frame p).elim h1
  have hok := (bcastAppend_sendsOK val s1 hp.wf hp.unc).elim h2
  have hpk := (Live.bcastAppend_pk s1).elim h2
  have hto := (bcastAppend_toOK s1).elim h2
  have hterm : r'.term = p.term := hok.term.trans hp.term
  have hl0 : (absLog val p).length = p.log.lastIndex := absLogL_length_eq val hwf hu
  have hl1 : (absLog val s1).length = s1.log.lastIndex := absLogL_length_eq val hp.wf hp.unc
  have hlast : r'.log.lastIndex = p.log.lastIndex + 1 := by
    rw [hok.log, ← hl1, hp.log, ← hl0]; simp
  have hfr : AuxFrame p r' := by
    refine ⟨by rw [hterm]; exact Nat.le_refl _, fun _ hl => ?_, fun _ hl => ?_⟩
    · rw [hs] at hl; cases hl
    · rw [hs] at hl; cases hl
  have hst : r'.state = .leader := hok.state.trans hp.state
  refine ⟨⟨?_, ?_, ?_⟩, hfr⟩
  · intro _ pr hpr
    obtain ⟨pr0, h3, h4, _⟩ := vr_pk_get hpk n pr hpr
    obtain ⟨_, _, _, h5⟩ := vr_frame_get hf n pr0 h3
    rw [if_pos hid.symm] at h5
    omega
  · intro x hx
    rw [hok.maa, hp.maa] at hx
    rcases List.mem_append.1 hx with hx | hx
    · exact (haux.self x hx).frame hfr
    · simp only [List.mem_singleton] at hx
      subst hx
      intro _
      refine ⟨Or.inr rfl, rfl, hid, ?_, fun _ _ => Or.inr ⟨hst, ?_⟩⟩
      · show p.term ≤ r'.term
        rw [hterm]; exact Nat.le_refl _
      · show (absLog val p).length + 1 ≤ r'.log.lastIndex
        omega
  · intro x hx hty
    obtain ⟨added, hm, hadd⟩ := hok.msgs
    obtain ⟨added', hm', hadd'⟩ := hto.msgs
    have hae : added' = added := List.append_cancel_left (hm'.symm.trans hm)
    subst hae
    rw [hm, hp.msgs] at hx
    have hc1 : s1.cfg.id = n := by rw [hp.cfg]; exact hid
    rcases List.mem_append.1 hx with hx | hx
    · exact haux.outFrom x hx hty
    · refine ⟨?_, by rw [← hc1]; exact hadd' x hx⟩
      rcases hadd x hx with h | h
      · rw [h] at hty
        rcases hty with h | h | h <;> cases h
      · rw [h.frm, hc1]

/-- a same-term MsgVoteResp keeps the auxiliary invariant -/
theorem aux_voteResp_same {val : Val} {voters : List Id} {n : Nat} {s : Spec.State} {r r' : Raft} {m : Message}
    {e : Option StepErr} {fuel : Nat} (hinv : RaftInv val voters n r (s.nodes n) s.msgs) (haux : AuxInv n r)
    (ht : m.typ = .voteResp) (hterm : m.term = r.term)
    (h : (Raft.step (fuel + 1) m).run r = .ok (e, r')) : AuxInv n r' ∧ AuxFrame r r' := by
  by_cases hs : r.state = .candidate
  · rw [step_same_term_dispatch fuel m r (Or.inr hterm) (by rw [ht]; decide)] at h
    have hd : dispatch fuel m r = Raft.stepCandidate fuel m := by unfold dispatch; rw [hs]
    rw [hd] at h
    obtain ⟨hpa, hpf⟩ := vra_polled (m := m) haux hs
    have hnl : (polled r m).state = .leader → (polled r m).term < r.term := by
      intro hl
      have : r.state = .leader := hl
      rw [hs] at this; cases this
    rcases (vr_stepCandidate_cases fuel m r hs ht).elim h with rfl | hlost | ⟨_, _, s1, h1, h2⟩
    · exact ⟨hpa, hpf⟩
    · obtain ⟨a, f⟩ := aux_becomeFollower hpa (Nat.le_refl _) hnl hlost
      exact ⟨a, hpf.trans f⟩
    · obtain ⟨a, f⟩ := vra_won val hpa hinv.st.id hinv.wf hinv.unc hs h1 h2
      exact ⟨a, hpf.trans f⟩
  · have := vr_ignored fuel m r r' e hs ht hterm h
    subst this
    exact ⟨haux, AuxFrame.refl _⟩

end RaftVerif.Sim
