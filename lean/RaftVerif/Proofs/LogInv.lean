import RaftVerif.Proofs.LogStorage
/-!
# Proofs/LogInv — invariants and abstraction of `unstable` and `raftLog`

Core Lean only.
-/
namespace RaftVerif

namespace Unstable

/-- unstable entries are contiguous from `offset`; the in-progress marker lies inside them; a pending
snapshot sits right below `offset` -/
structure WF (u : Unstable) : Prop where
  contig : Contig u.offset u.entries
  inProgLo : u.offset ≤ u.offsetInProgress
  inProgHi : u.offsetInProgress ≤ u.offset + u.entries.length
  snap : match u.snapshot with
    | some s => u.offset = s.index + 1
    | none => True

instance (u : Unstable) : Decidable u.WF :=
  have : Decidable (match u.snapshot with
    | some s => u.offset = s.index + 1
    | none => True) := by split <;> infer_instance
  decidable_of_iff
    (Contig u.offset u.entries ∧ u.offset ≤ u.offsetInProgress ∧
      u.offsetInProgress ≤ u.offset + u.entries.length ∧
      (match u.snapshot with
        | some s => u.offset = s.index + 1
        | none => True))
    ⟨fun ⟨a, b, c, d⟩ => ⟨a, b, c, d⟩, fun ⟨a, b, c, d⟩ => ⟨a, b, c, d⟩⟩

/-- one past the last unstable index -/
def next (u : Unstable) : Nat := u.offset + u.entries.length

end Unstable

namespace RaftLog

/-- how the unstable part sits on top of storage, and where the cursors may be:
* no pending snapshot: `storage.firstIndex ≤ unstable.offset ≤ storage.lastIndex + 1`; if there are no
  unstable entries, storage ends exactly below `offset` (otherwise Go's `lastIndex()`, which then asks
  storage, would disagree with `slice`, which never reads storage at or above `offset`); and nothing
  that is already compacted in storage remains to be applied (`storage.firstIndex ≤ applied + 1`);
* pending snapshot `s`: the log starts right after it, and it is committed (`s.index ≤ committed`). -/
def SnapOK (l : RaftLog) : Prop :=
  match l.unstable.snapshot with
  | some s => s.index ≤ l.committed
  | none => l.storage.offset < l.unstable.offset ∧ l.unstable.offset ≤ l.storage.lastIndex + 1 ∧
      (l.unstable.entries = [] → l.unstable.offset = l.storage.lastIndex + 1) ∧
      l.storage.offset ≤ l.applied

instance (l : RaftLog) : Decidable l.SnapOK := by unfold SnapOK; split <;> infer_instance

/-- the invariant of `raftLog` -/
structure WF (l : RaftLog) : Prop where
  storage : l.storage.WF
  unstable : l.unstable.WF
  snapOK : l.SnapOK
  appliedLeApplying : l.applied ≤ l.applying
  applyingLeCommitted : l.applying ≤ l.committed
  committedLeLast : l.committed ≤ l.lastIndex
  /-- not paused ⇒ there is budget left (`applyingEntsSize < maxApplyingEntsSize`) -/
  budget : l.applyingEntsPaused = false → l.applyingEntsSize < l.maxApplyingEntsSize

instance (l : RaftLog) : Decidable l.WF :=
  decidable_of_iff
    (l.storage.WF ∧ l.unstable.WF ∧ l.SnapOK ∧ l.applied ≤ l.applying ∧ l.applying ≤ l.committed ∧
      l.committed ≤ l.lastIndex ∧ (l.applyingEntsPaused = false → l.applyingEntsSize < l.maxApplyingEntsSize))
    ⟨fun ⟨a, b, c, d, e, f, g⟩ => ⟨a, b, c, d, e, f, g⟩, fun ⟨a, b, c, d, e, f, g⟩ => ⟨a, b, c, d, e, f, g⟩⟩

/-- abstraction: a pending unstable snapshot is the base and the unstable entries are the log;
otherwise the storage entries below `unstable.offset` followed by the unstable entries -/
def abs (l : RaftLog) : ALog :=
  match l.unstable.snapshot with
  | some s => { base := s.index, baseTerm := s.term, ents := l.unstable.entries }
  | none => (l.storage.abs.truncateFrom l.unstable.offset).extend l.unstable.entries

end RaftLog
end RaftVerif
