import RaftVerif.Proofs.StepRouted
/-!
# Proofs/SimStoreFrame — the raft state machine never writes its storage

`StoE s s'`: `s'.log.storage = s.log.storage`.  Every function of `Model/Raft.lean` keeps it (`Raft.step` for
*every* message and fuel, `Raft.tick`): the `RaftLog` operations used by the model only update `unstable`,
`committed`, `applying`, `applied`; only the environment (`MemoryStorage.append`, …) writes the storage.
Same proof scripts as for `Routed` (Proofs/StepRouted.lean).
-/
namespace RaftVerif

namespace RaftLog

theorem append_storage {l : RaftLog} {ents : List Entry} {p : RaftLog × Nat} (h : l.append ents = .ok p) :
    p.1.storage = l.storage := by
  unfold append at h
  cases ents with
  | nil => simp only [pure, Except.pure, Except.ok.injEq] at h; rw [← h]
  | cons e0 rest =>
    simp only at h
    split at h
    · simp [throw, throwThe, MonadExceptOf.throw] at h
    · cases hu : l.unstable.truncateAndAppend (e0 :: rest) with
      | error e => simp [hu, bind, Except.bind] at h
      | ok u =>
        simp only [hu, bind, Except.bind, pure, Except.pure, Except.ok.injEq] at h
        rw [← h]

theorem commitTo_storage {l l' : RaftLog} {t : Nat} (h : l.commitTo t = .ok l') : l'.storage = l.storage :=
  (commitTo_unstable h).2

theorem maybeAppend_storage {l : RaftLog} {prev : EntryID} {ents : List Entry} {c : Nat}
    {p : RaftLog × Option Nat} (h : l.maybeAppend prev ents c = .ok p) : p.1.storage = l.storage := by
  unfold maybeAppend at h
  by_cases hm : (!l.matchTerm prev) = true
  · simp only [hm, if_true, pure, Except.pure, Except.ok.injEq] at h
    rw [← h]
  · rw [if_neg hm] at h
    by_cases hc : (l.findConflict ents == 0) = true
    · rw [if_pos hc] at h
      obtain ⟨l1, hl1, h⟩ := bind_eq_ok.1 h
      obtain ⟨l2, hl2, h⟩ := bind_eq_ok.1 h
      simp only [pure, Except.pure, Except.ok.injEq] at h hl1
      rw [← h, hl1]; exact commitTo_storage hl2
    · rw [if_neg hc] at h
      by_cases hc2 : l.findConflict ents ≤ l.committed
      · rw [if_pos hc2] at h
        obtain ⟨l1, hl1, h⟩ := bind_eq_ok.1 h
        simp [throw, throwThe, MonadExceptOf.throw] at hl1
      · rw [if_neg hc2] at h
        by_cases hc3 : usub (l.findConflict ents) (prev.index + 1) > ents.length
        · rw [if_pos hc3] at h
          obtain ⟨l1, hl1, h⟩ := bind_eq_ok.1 h
          simp [throw, throwThe, MonadExceptOf.throw] at hl1
        · rw [if_neg hc3] at h
          obtain ⟨⟨l3, li⟩, hp, h⟩ := bind_eq_ok.1 h
          obtain ⟨l1, hl1, h⟩ := bind_eq_ok.1 h
          obtain ⟨l2, hl2, h⟩ := bind_eq_ok.1 h
          simp only [pure, Except.pure, Except.ok.injEq] at h hl1
          have e1 := append_storage hp
          have e2 := commitTo_storage hl2
          rw [← h]; rw [← hl1] at *; exact e2.trans e1

theorem maybeCommit_storage {l : RaftLog} {at_ : EntryID} {p : RaftLog × Bool}
    (h : l.maybeCommit at_ = .ok p) : p.1.storage = l.storage := by
  unfold maybeCommit at h
  split at h
  · simp only [bind, Except.bind] at h
    split at h
    · simp at h
    · rename_i l1 hl1
      simp only [pure, Except.pure, Except.ok.injEq] at h
      rw [← h]; exact commitTo_storage hl1
  · simp only [pure, Except.pure, Except.ok.injEq] at h
    rw [← h]

theorem appliedTo_storage {l l' : RaftLog} {i size : Nat} (h : l.appliedTo i size = .ok l') :
    l'.storage = l.storage := (appliedTo_committed h).2.2

theorem stableTo_storage (l : RaftLog) (id : EntryID) : (l.stableTo id).storage = l.storage := rfl
theorem stableSnapTo_storage (l : RaftLog) (i : Nat) : (l.stableSnapTo i).storage = l.storage := rfl
theorem restore_storage (l : RaftLog) (s : Snapshot) : (l.restore s).storage = l.storage := rfl

end RaftLog

namespace Sim
open Raft

/-- the storage half of the log is untouched -/
def StoE (s s' : Raft) : Prop := s'.log.storage = s.log.storage
instance : RelOK StoE := ⟨fun _ => rfl, fun h1 h2 => Eq.trans h2 h1⟩

theorem StoE.of {s x : Raft} (h : x.log.storage = s.log.storage) : StoE s x := h
theorem StoE.of_log {s x : Raft} (h : x.log = s.log) : StoE s x := congrArg RaftLog.storage h
theorem SendFrame.stoE {s s' : Raft} (h : SendFrame s s') : StoE s s' := StoE.of_log h.log

/-- `storage` of the new log is that of the old one, from a hypothesis about the `Log` function used -/
macro "storage_tac" : tactic => `(tactic| first
  | rfl
  | exact RaftLog.append_storage (by assumption)
  | exact RaftLog.maybeAppend_storage (by assumption)
  | exact RaftLog.maybeCommit_storage (by assumption)
  | exact RaftLog.appliedTo_storage (by assumption)
  | exact RaftLog.commitTo_storage (by assumption))

macro_rules | `(tactic| rel_fields) => `(tactic| exact StoE.of (by storage_tac))

/-- registered `StoE` call rules -/
syntax "sto_step" : tactic

theorem send_sto (m : Message) (s : Raft) : Spec (send m) s (fun _ s' => StoE s s') :=
  (send_sf m s).mono fun _ _ h => SendFrame.stoE h
theorem maybeSendAppend_sto (to : Id) (b : Bool) (s : Raft) :
    Spec (maybeSendAppend to b) s (fun _ s' => StoE s s') :=
  (maybeSendAppend_sf to b s).mono fun _ _ h => SendFrame.stoE h
theorem sendAppendLoop_sto (n : Nat) (to : Id) (s : Raft) :
    Spec (sendAppendLoop n to) s (fun _ s' => StoE s s') :=
  (sendAppendLoop_sf n to s).mono fun _ _ h => SendFrame.stoE h
theorem sendHeartbeat_sto (to : Id) (c : Option Bytes) (s : Raft) :
    Spec (sendHeartbeat to c) s (fun _ s' => StoE s s') :=
  (sendHeartbeat_sf to c s).mono fun _ _ h => SendFrame.stoE h
theorem bcastAppend_sto (s : Raft) : Spec bcastAppend s (fun _ s' => StoE s s') :=
  (bcastAppend_sf s).mono fun _ _ h => SendFrame.stoE h
theorem bcastHeartbeat_sto (s : Raft) : Spec bcastHeartbeat s (fun _ s' => StoE s s') :=
  (bcastHeartbeat_sf s).mono fun _ _ h => SendFrame.stoE h

macro_rules | `(tactic| sto_step) => `(tactic| rel_call (send_sto ..))
macro_rules | `(tactic| sto_step) => `(tactic| rel_call (maybeSendAppend_sto ..))
macro_rules | `(tactic| sto_step) => `(tactic| rel_call (sendAppendLoop_sto ..))
macro_rules | `(tactic| sto_step) => `(tactic| rel_call (sendHeartbeat_sto ..))
macro_rules | `(tactic| sto_step) => `(tactic| rel_call (bcastAppend_sto ..))
macro_rules | `(tactic| sto_step) => `(tactic| rel_call (bcastHeartbeat_sto ..))
macro_rules | `(tactic| sto_step) => `(tactic| same_call (hasUnappliedConfChanges_same ..))
macro_rules | `(tactic| sto_step) => `(tactic| same_call (decodeCC_same ..))

theorem reset_sto (t : Nat) (s : Raft) : Spec (reset t) s (fun _ s' => StoE s s') :=
  (reset_spec_st t s).mono fun _ _ ⟨_, _, _, _, h3, _⟩ => StoE.of_log h3
theorem becomeFollower_sto (t l : Nat) (s : Raft) : Spec (becomeFollower t l) s (fun _ s' => StoE s s') :=
  (becomeFollower_spec t l s).mono fun _ _ ⟨_, _, _, _, h3, _⟩ => StoE.of_log h3
theorem becomeCandidate_sto (s : Raft) : Spec becomeCandidate s (fun _ s' => StoE s s') :=
  (becomeCandidate_spec s).mono fun _ _ ⟨_, _, _, _, _, h3, _⟩ => StoE.of_log h3
theorem becomePreCandidate_sto (s : Raft) : Spec becomePreCandidate s (fun _ s' => StoE s s') :=
  (becomePreCandidate_spec s).mono fun _ s' ⟨_, h⟩ => by subst h; exact StoE.of rfl

macro_rules | `(tactic| sto_step) => `(tactic| rel_call (reset_sto ..))
macro_rules | `(tactic| sto_step) => `(tactic| rel_call (becomeFollower_sto ..))
macro_rules | `(tactic| sto_step) => `(tactic| rel_call (becomeCandidate_sto ..))
macro_rules | `(tactic| sto_step) => `(tactic| rel_call (becomePreCandidate_sto ..))

theorem maybeCommit_sto (s : Raft) : Spec maybeCommit s (fun _ s' => StoE s s') := by
  unfold maybeCommit
  rel_start
  wp_auto [sto_step]
macro_rules | `(tactic| sto_step) => `(tactic| rel_call (maybeCommit_sto ..))

theorem increaseUncommittedSize_sto (es : List Entry) (s : Raft) :
    Spec (increaseUncommittedSize es) s (fun _ s' => StoE s s') := by
  unfold increaseUncommittedSize
  rel_start
  wp_auto [sto_step]
macro_rules | `(tactic| sto_step) => `(tactic| rel_call (increaseUncommittedSize_sto ..))

theorem appendEntry_sto (es : List Entry) (s : Raft) : Spec (appendEntry es) s (fun _ s' => StoE s s') := by
  unfold appendEntry
  rel_start
  wp_auto [sto_step]
macro_rules | `(tactic| sto_step) => `(tactic| rel_call (appendEntry_sto ..))

theorem appliedToLog_sto (i sz : Nat) (s : Raft) : Spec (appliedToLog i sz) s (fun _ s' => StoE s s') := by
  unfold appliedToLog
  rel_start
  wp_auto [sto_step]
macro_rules | `(tactic| sto_step) => `(tactic| rel_call (appliedToLog_sto ..))

theorem becomeLeader_sto (s : Raft) : Spec becomeLeader s (fun _ s' => StoE s s') := by
  unfold becomeLeader
  rel_start
  wp_auto [sto_step]
macro_rules | `(tactic| sto_step) => `(tactic| rel_call (becomeLeader_sto ..))

theorem campaign_sto (t : CampaignType) (s : Raft) : Spec (campaign t) s (fun _ s' => StoE s s') := by
  unfold campaign
  rel_start
  wp_auto [first | sto_step | rel_loop StoE]
macro_rules | `(tactic| sto_step) => `(tactic| rel_call (campaign_sto ..))

theorem hup_sto (t : CampaignType) (s : Raft) : Spec (hup t) s (fun _ s' => StoE s s') := by
  unfold hup
  rel_start
  wp_auto [sto_step]
macro_rules | `(tactic| sto_step) => `(tactic| rel_call (hup_sto ..))

theorem responseToReadIndexReq_sto (req : Message) (i : Nat) (s : Raft) : Spec (responseToReadIndexReq req i) s (fun _ s' => StoE s s') := by
  unfold responseToReadIndexReq
  rel_start
  wp_auto [sto_step]
macro_rules | `(tactic| sto_step) => `(tactic| rel_call (responseToReadIndexReq_sto ..))

theorem sendReadIndexResp_sto (req : Message) (i : Nat) (s : Raft) : Spec (sendReadIndexResp req i) s (fun _ s' => StoE s s') := by
  unfold sendReadIndexResp
  rel_start
  wp_auto [sto_step]
macro_rules | `(tactic| sto_step) => `(tactic| rel_call (sendReadIndexResp_sto ..))

theorem sendMsgReadIndexResponse_sto (m : Message) (s : Raft) : Spec (sendMsgReadIndexResponse m) s (fun _ s' => StoE s s') := by
  unfold sendMsgReadIndexResponse
  rel_start
  wp_auto [sto_step]
macro_rules | `(tactic| sto_step) => `(tactic| rel_call (sendMsgReadIndexResponse_sto ..))

theorem releasePendingReadIndexMessages_sto (s : Raft) : Spec releasePendingReadIndexMessages s (fun _ s' => StoE s s') := by
  unfold releasePendingReadIndexMessages
  rel_start
  wp_auto [first | sto_step | rel_loop StoE]
macro_rules | `(tactic| sto_step) => `(tactic| rel_call (releasePendingReadIndexMessages_sto ..))

theorem handleAppendEntries_sto (m : Message) (s : Raft) : Spec (handleAppendEntries m) s (fun _ s' => StoE s s') := by
  unfold handleAppendEntries
  rel_start
  wp_auto [sto_step]
macro_rules | `(tactic| sto_step) => `(tactic| rel_call (handleAppendEntries_sto ..))

theorem handleHeartbeat_sto (m : Message) (s : Raft) : Spec (handleHeartbeat m) s (fun _ s' => StoE s s') := by
  unfold handleHeartbeat
  rel_start
  wp_auto [sto_step]
macro_rules | `(tactic| sto_step) => `(tactic| rel_call (handleHeartbeat_sto ..))

theorem switchToConfig_sto (cfg : TrackerConfig) (trk : ProgressMap) (s : Raft) : Spec (switchToConfig cfg trk) s (fun _ s' => StoE s s') := by
  unfold switchToConfig
  rel_start
  wp_auto [first | sto_step | rel_loop StoE]
macro_rules | `(tactic| sto_step) => `(tactic| rel_call (switchToConfig_sto ..))

theorem restore_sto (snap : Snapshot) (s : Raft) : Spec (restore snap) s (fun _ s' => StoE s s') := by
  unfold restore
  rel_start
  wp_auto [sto_step]
macro_rules | `(tactic| sto_step) => `(tactic| rel_call (restore_sto ..))

theorem handleSnapshot_sto (m : Message) (s : Raft) : Spec (handleSnapshot m) s (fun _ s' => StoE s s') := by
  unfold handleSnapshot
  rel_start
  wp_auto [sto_step]
macro_rules | `(tactic| sto_step) => `(tactic| rel_call (handleSnapshot_sto ..))

theorem applyConfChange_sto (cc : ConfChangeV2) (s : Raft) : Spec (applyConfChange cc) s (fun _ s' => StoE s s') := by
  unfold applyConfChange
  rel_start
  wp_auto [sto_step]
macro_rules | `(tactic| sto_step) => `(tactic| rel_call (applyConfChange_sto ..))

theorem stepFollower_sto (fuel : Nat) (m : Message) (s : Raft) : Spec (stepFollower fuel m) s (fun _ s' => StoE s s') := by
  rw [stepFollower]
  rel_start
  wp_auto [sto_step]
macro_rules | `(tactic| sto_step) => `(tactic| rel_call (stepFollower_sto ..))

theorem stepCandidate_sto (fuel : Nat) (m : Message) (s : Raft) : Spec (stepCandidate fuel m) s (fun _ s' => StoE s s') := by
  rw [stepCandidate]
  rel_start
  wp_auto [sto_step]
macro_rules | `(tactic| sto_step) => `(tactic| rel_call (stepCandidate_sto ..))

theorem stepLeader_sto (fuel : Nat) (m : Message) (s : Raft) : Spec (stepLeader fuel m) s (fun _ s' => StoE s s') := by
  rw [stepLeader]
  rel_start
  wp_auto [first | sto_step | rel_loop StoE]
macro_rules | `(tactic| sto_step) => `(tactic| rel_call (stepLeader_sto ..))

abbrev StepStoAt (fuel : Nat) : Prop :=
  ∀ (m : Message) (s : Raft), Spec (step fuel m) s (fun _ s' => StoE s s')

theorem appliedTo_sto (fuel : Nat) (ih : StepStoAt fuel) (i sz : Nat) (s : Raft) :
    Spec (appliedTo fuel i sz) s (fun _ s' => StoE s s') := by
  rw [appliedTo]
  rel_start
  wp_auto [first | sto_step | rel_call (ih ..)]

theorem appliedSnap_sto (fuel : Nat) (ih : StepStoAt fuel) (snap : Snapshot) (s : Raft) :
    Spec (appliedSnap fuel snap) s (fun _ s' => StoE s s') := by
  rw [appliedSnap]
  rel_start
  wp_auto [first | sto_step | rel_call (appliedTo_sto _ ih ..)]

theorem step_sto_succ (fuel : Nat) (ih : StepStoAt fuel) : StepStoAt (fuel + 1) := by
  intro m s
  rw [step]
  rel_start
  wp_auto [first
    | rel_call (appliedTo_sto _ ih ..)
    | rel_call (appliedSnap_sto _ ih ..)
    | sto_step]

/-- **`Step` keeps `StoE`** for every fuel, state and message -/
theorem step_sto : ∀ fuel, StepStoAt fuel
  | 0 => by
    intro m s
    rw [step]
    simp only [wp]
  | fuel + 1 => step_sto_succ fuel (step_sto fuel)

theorem step_sto' (fuel : Nat) (m : Message) (s : Raft) :
    Spec (step fuel m) s (fun _ s' => StoE s s') := step_sto fuel m s

theorem tickElection_sto (s : Raft) : Spec tickElection s (fun _ s' => StoE s s') := by
  unfold tickElection
  rel_start
  wp_auto [first | rel_call (step_sto' ..) | sto_step]

theorem tickHeartbeat_sto (s : Raft) : Spec tickHeartbeat s (fun _ s' => StoE s s') := by
  unfold tickHeartbeat
  rel_start
  wp_auto [first | rel_call (step_sto' ..) | sto_step]

theorem tick_sto (s : Raft) : Spec tick s (fun _ s' => StoE s s') := by
  unfold tick
  rel_start
  wp_auto [first | rel_call (tickElection_sto ..) | rel_call (tickHeartbeat_sto ..)]

/-- **`Raft.step` never writes the storage** — every message (MsgSnap, storage acknowledgements, … included),
every fuel, whatever the step returns -/
theorem step_storage {fuel : Nat} {m : Message} {r r' : Raft} {e : Option StepErr}
    (h : (Raft.step fuel m).run r = .ok (e, r')) : r'.log.storage = r.log.storage :=
  (step_sto fuel m r).elim h

/-- **`Raft.tick` never writes the storage** -/
theorem tick_storage {r r' : Raft} (h : Raft.tick.run r = .ok ((), r')) : r'.log.storage = r.log.storage :=
  (tick_sto r).elim h

end Sim

end RaftVerif
