import RaftVerif.Proofs.SimReadyD
import RaftVerif.Props.C07Ready
/-!
# Proofs/SimReadyDur — the storage and the `Ready` bookkeeping after a `syncRound` (model side of `DurInv`)
-/
namespace RaftVerif.Sim
open Refine Raft
set_option linter.unusedSimpArgs false

/-- `MemoryStorage.Append` only writes the entries -/
theorem storage_append_fields {ms ms' : MemoryStorage} {es : List Entry} (h : ms.append es = .ok ms') :
    ms'.hardState = ms.hardState ∧ ms'.snapshot = ms.snapshot := by
  unfold MemoryStorage.append at h
  cases es with
  | nil => injection h with h; subst h; exact ⟨rfl, rfl⟩
  | cons e0 rest =>
    simp only at h
    split at h
    · injection h with h; subst h; exact ⟨rfl, rfl⟩
    · split at h
      · injection h with h; subst h; exact ⟨rfl, rfl⟩
      · split at h
        · injection h with h; subst h; exact ⟨rfl, rfl⟩
        · split at h
          · injection h with h; subst h; exact ⟨rfl, rfl⟩
          · cases h

/-- after `Append` of all unstable entries (no snapshot pending) the storage holds the whole log -/
theorem storage_append_ents {l : RaftLog} (h : l.WF) (hsn : l.unstable.snapshot = none) {ms : MemoryStorage}
    (hok : l.storage.append l.unstable.entries = .ok ms) : ms.abs.ents = l.abs.ents := by
  obtain ⟨pre, hpe, _, hnn, _⟩ := h.shape
  obtain ⟨hp, hb, _⟩ := hnn hsn
  have hso := h.snapOK
  unfold RaftLog.SnapOK at hso
  rw [hsn] at hso
  simp only at hso
  obtain ⟨hs1, hs2, hs3, _⟩ := hso
  have hsl := MemoryStorage.lastIndex_abs h.storage
  simp only [ALog.last, MemoryStorage.abs_base] at hsl
  cases hes : l.unstable.entries with
  | nil =>
    rw [hes] at hok
    simp only [MemoryStorage.append, pure, Except.pure, Except.ok.injEq] at hok
    subst hok
    rw [hpe, hp, hes, List.append_nil, List.take_of_length_le]
    have := hs3 hes
    omega
  | cons e0 rest =>
    have hc := h.unstable.contig
    have h0 : e0.index = l.unstable.offset := by rw [hes] at hc; exact hc.head_index
    have habs0 := MemoryStorage.append_abs h.storage hc
    rw [hok] at habs0
    have hfilter : l.unstable.entries.filter (fun e => decide (l.storage.abs.base < e.index)) = e0 :: rest := by
      rw [List.filter_eq_self.mpr, hes]
      intro e he
      have := (hc.mem he).1
      have hlt : l.storage.offset < e.index := by omega
      exact decide_eq_true hlt
    simp only [Except.map, ALog.storeAppend, hfilter] at habs0
    rw [if_neg (by simp only [ALog.last, MemoryStorage.abs_base]; omega)] at habs0
    injection habs0 with habs0
    rw [habs0, ALog.overwrite_ents, hpe, hp, h0, MemoryStorage.abs_base, hes]

theorem runSteps_storage (ms : List Message) (r r' : Raft) (h : Next.runSteps ms r = .ok r') :
    r'.log.storage = r.log.storage := by
  induction ms generalizing r with
  | nil =>
    simp only [Next.runSteps, Except.ok.injEq] at h
    subst h; rfl
  | cons m ms ih =>
    simp only [Next.runSteps] at h
    obtain ⟨⟨e, r1⟩, hstep, hrest⟩ := bind_eq_ok.1 h
    exact (ih r1 hrest).trans (step_storage hstep)

/-- **the storage and `prevHard` after a `syncRound`** from a settled log: all unstable entries are appended, the
hard state of the `Ready` (present iff it differs from the last one handed out) is stored, `prevHard` records it
unless it is the all-zero one -/
theorem syncRound_store {rn rn' : RawNode} {rd : Ready} {draws : List Nat} (ha : rn.async = false)
    (hso : rn.stepsOnAdvance = []) (hwf : rn.raft.log.WF) (hset : LogSettled rn.raft.log)
    (h : syncRound rn draws = .ok (rd, rn')) :
    ∃ ms, rn.raft.log.storage.append rn.raft.log.unstable.entries = .ok ms ∧
      rn'.raft.log.storage = (match rd.hardState with | some hs => ms.setHardState hs | none => ms) ∧
      rd.hardState = (if RawNode.hardState rn.raft ≠ rn.prevHard then some (RawNode.hardState rn.raft) else none) ∧
      ((RawNode.hardState rn.raft).isEmpty = false → rn'.prevHard = RawNode.hardState rn.raft) ∧
      ((RawNode.hardState rn.raft).isEmpty = true → rn'.prevHard = rn.prevHard) := by
  unfold syncRound at h
  obtain ⟨⟨rd0, rn1⟩, hready, h⟩ := bind_eq_ok.1 h
  dsimp only at h
  obtain ⟨rn2, hpers, h⟩ := bind_eq_ok.1 h
  obtain ⟨rn3, hadv, h⟩ := bind_eq_ok.1 h
  simp only [pure, Except.pure, Except.ok.injEq, Prod.mk.injEq] at h
  obtain ⟨e1, e2⟩ := h
  subst e1 e2
  obtain ⟨eid, l2, _, _, hent, _, _, hraft1, hrl⟩ := ready_sync_inv ha hso hwf hset.1 hready
  obtain ⟨hhs, hp1, hp2⟩ := C07R.ready_records_hardstate rn rn1 rd0 hready
  have hcur := C07R.ready_hardstate_is_current' rn rn1 rd0 hready
  unfold persistReady at hpers
  obtain ⟨ms, hms, hpers⟩ := bind_eq_ok.1 hpers
  simp only [pure, Except.pure, Except.ok.injEq] at hpers
  subst hpers
  obtain ⟨r3, hsteps, hrn3⟩ := advance_inv hadv
  subst hrn3
  have hsto := runSteps_storage _ _ _ hsteps
  have hnext : rd0.entries = rn.raft.log.unstable.entries := by
    rw [hent]; exact nextEntries_settled _ hset.2
  rw [hraft1] at hms
  refine ⟨ms, by rw [← hnext, ← hrl.storage]; exact hms, hsto, hcur, fun he => ?_, fun he => hp2 he⟩
  have := hp1 he
  rw [hhs] at this
  exact this

theorem hardState_ext {a b : HardState} (h1 : a.term = b.term) (h2 : a.vote = b.vote) (h3 : a.commit = b.commit) :
    a = b := by
  cases a; cases b; simp only at h1 h2 h3; subst h1 h2 h3; rfl

/-- **`DurInv` after the round**, given that the Spec made the volatile version of the start of the round durable.
`hP0` excludes the corner "the current hard state is all-zero but differs from the stored one". -/
theorem durInv_after_round {val : Val} {voters : List Id} {n : Nat} {rn rn' : RawNode} {rd : Ready}
    {draws : List Nat} {nd nd' : Spec.Node} {msgs : List Spec.Msg}
    (hnode : NodeInv val voters n rn nd msgs) (hset : LogSettled rn.raft.log) (hdur : DurInv val voters rn nd)
    (hP0 : (RawNode.hardState rn.raft).isEmpty = true → rn.prevHard = RawNode.hardState rn.raft)
    (hd' : nd'.dur = nd.vol) (h : syncRound rn draws = .ok (rd, rn')) : DurInv val voters rn' nd' := by
  have hI := hnode.inv
  obtain ⟨ms, happ, hsto, hcur, hp1, hp2⟩ := syncRound_store hnode.sync hnode.adv hI.wf hset h
  obtain ⟨hf1, hf2⟩ := storage_append_fields happ
  have hents := storage_append_ents hI.wf hset.1 happ
  have hstored : rn'.raft.log.storage.hardState.getD {} = RawNode.hardState rn.raft := by
    rw [hsto, hcur]
    by_cases hc : RawNode.hardState rn.raft = rn.prevHard
    · rw [if_neg (by simpa using hc)]
      simp only
      rw [hf1, ← hdur.prev, hc]
    · rw [if_pos hc]
      rfl
  have hprev : rn'.prevHard = RawNode.hardState rn.raft := by
    cases he : (RawNode.hardState rn.raft).isEmpty with
    | false => exact hp1 he
    | true => exact (hp2 he).trans (hP0 he)
  have habs : rn'.raft.log.storage.abs.ents = rn.raft.log.abs.ents := by
    rw [hsto, ← hents]
    cases rd.hardState <;> rfl
  have hsnap : rn'.raft.log.storage.snapshot = rn.raft.log.storage.snapshot := by
    rw [hsto, ← hf2]
    cases rd.hardState <;> rfl
  exact {
    term := by rw [hd', hstored, hI.abs.term]; rfl
    vote := by rw [hd', hstored, hI.abs.vote]; rfl
    commit := by rw [hd', hstored, hI.abs.commit]; rfl
    log := by rw [hd', habs, hI.abs.log]; rfl
    prev := hprev.trans hstored.symm
    snap := hsnap.trans hdur.snap }

end RaftVerif.Sim
