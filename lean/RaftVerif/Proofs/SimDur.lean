import RaftVerif.Proofs.SimInit
/-!
# Proofs/SimDur — what a crash needs: the durable Spec version describes the storage (`DurInv`), vote requests of
a node that are not yet covered by its durable term are still queued (`CampInv`), and step results that expose the
frame of the durable version (`RaftSimD`, `RaftSimC`)
-/
namespace RaftVerif.Sim
open Refine

/-- `RaftSim` that also exposes: the durable version of the node is untouched, and no vote request of `n` appeared -/
def RaftSimD (val : Val) (voters : List Id) (n : Nat) (s : Spec.State) (r' : Raft) : Prop :=
  ∃ as s', RunL (cfgOf voters) s as s' ∧ (∀ a ∈ as, a.actor = n) ∧
    RaftInv val voters n r' (s'.nodes n) s'.msgs ∧ (s'.nodes n).dur = (s.nodes n).dur ∧
    (∀ t lt li, Spec.Msg.reqVote t n lt li ∈ s'.msgs → Spec.Msg.reqVote t n lt li ∈ s.msgs)

/-- the campaign variant: a vote request of `n` that appeared is (still) queued in the model's `msgs` -/
def RaftSimC (val : Val) (voters : List Id) (n : Nat) (s : Spec.State) (r' : Raft) : Prop :=
  ∃ as s', RunL (cfgOf voters) s as s' ∧ (∀ a ∈ as, a.actor = n) ∧
    RaftInv val voters n r' (s'.nodes n) s'.msgs ∧ (s'.nodes n).dur = (s.nodes n).dur ∧
    (∀ t lt li, Spec.Msg.reqVote t n lt li ∈ s'.msgs → Spec.Msg.reqVote t n lt li ∈ s.msgs ∨
      ∃ m ∈ r'.msgs, m.typ = .vote ∧ m.term = t)

theorem RaftSimD.toC {val : Val} {voters : List Id} {n : Nat} {s : Spec.State} {r' : Raft}
    (h : RaftSimD val voters n s r') : RaftSimC val voters n s r' := by
  obtain ⟨as, s', a, b, c, d, e⟩ := h
  exact ⟨as, s', a, b, c, d, fun t lt li hx => Or.inl (e t lt li hx)⟩

theorem RaftSimD.toSim {val : Val} {voters : List Id} {n : Nat} {s : Spec.State} {r' : Raft}
    (h : RaftSimD val voters n s r') : RaftSim val voters n s r' := by
  obtain ⟨as, s', a, b, c, _, _⟩ := h
  exact ⟨as, s', a, b, c⟩

theorem RaftSimC.toSim {val : Val} {voters : List Id} {n : Nat} {s : Spec.State} {r' : Raft}
    (h : RaftSimC val voters n s r') : RaftSim val voters n s r' := by
  obtain ⟨as, s', a, b, c, _, _⟩ := h
  exact ⟨as, s', a, b, c⟩

theorem RaftSimD.refl {val : Val} {voters : List Id} {n : Nat} {s : Spec.State} {r : Raft}
    (h : RaftInv val voters n r (s.nodes n) s.msgs) : RaftSimD val voters n s r :=
  ⟨[], s, .nil s, by simp, h, rfl, fun _ _ _ hx => hx⟩

theorem RaftSimD.trans {val : Val} {voters : List Id} {n : Nat} {s s1 : Spec.State} {r' : Raft}
    {as : List Spec.Action} (h1 : RunL (cfgOf voters) s as s1) (ha : ∀ a ∈ as, a.actor = n)
    (hd : (s1.nodes n).dur = (s.nodes n).dur)
    (hrv : ∀ t lt li, Spec.Msg.reqVote t n lt li ∈ s1.msgs → Spec.Msg.reqVote t n lt li ∈ s.msgs)
    (h2 : RaftSimD val voters n s1 r') : RaftSimD val voters n s r' := by
  obtain ⟨bs, s2, hr, hb, hi, hd2, hrv2⟩ := h2
  refine ⟨as ++ bs, s2, h1.append hr, ?_, hi, hd2.trans hd, fun t lt li hx => hrv t lt li (hrv2 t lt li hx)⟩
  intro a ha'
  rcases List.mem_append.1 ha' with h | h
  · exact ha a h
  · exact hb a h

/-- **the durable Spec version describes the node's storage**; the `Ready` bookkeeping (`prevHard`) agrees with the
stored hard state; the storage still carries the bootstrap membership -/
structure DurInv (val : Val) (voters : List Id) (rn : RawNode) (nd : Spec.Node) : Prop where
  term : nd.dur.term = (rn.raft.log.storage.hardState.getD {}).term
  vote : nd.dur.vote = (rn.raft.log.storage.hardState.getD {}).vote
  commit : nd.dur.commit = (rn.raft.log.storage.hardState.getD {}).commit
  log : nd.dur.log = rn.raft.log.storage.abs.ents.map (absEnt val)
  prev : rn.prevHard = rn.raft.log.storage.hardState.getD {}
  snap : rn.raft.log.storage.snapshot = (initStorage voters).snapshot

/-- every vote request of `n` in the soup is covered by `n`'s durable term, or is still queued in `msgs`
(it leaves — and the term becomes durable — with the next `syncRound`) -/
def CampInv (n : Nat) (r : Raft) (nd : Spec.Node) (msgs : List Spec.Msg) : Prop :=
  ∀ t lt li, Spec.Msg.reqVote t n lt li ∈ msgs → t ≤ nd.dur.term ∨ ∃ m ∈ r.msgs, m.typ = .vote ∧ m.term = t

/-- `CampInv` across a step whose result exposes the `RaftSimC` facts, when `msgs` only grew -/
theorem CampInv.step {n : Nat} {r r' : Raft} {nd nd' : Spec.Node} {msgs msgs' : List Spec.Msg}
    (h : CampInv n r nd msgs) (hd : nd'.dur = nd.dur) (hsub : ∀ m ∈ r.msgs, m ∈ r'.msgs)
    (hrv : ∀ t lt li, Spec.Msg.reqVote t n lt li ∈ msgs' → Spec.Msg.reqVote t n lt li ∈ msgs ∨
      ∃ m ∈ r'.msgs, m.typ = .vote ∧ m.term = t) : CampInv n r' nd' msgs' := by
  intro t lt li hx
  rw [hd]
  rcases hrv t lt li hx with h1 | h1
  · rcases h t lt li h1 with h2 | ⟨m, hm, h2⟩
    · exact Or.inl h2
    · exact Or.inr ⟨m, hsub m hm, h2⟩
  · exact Or.inr h1

/-- `CampInv` of another node is not affected by a growth of the soup that adds no vote request of that node -/
theorem CampInv.frame {n : Nat} {r : Raft} {nd : Spec.Node} {msgs msgs' : List Spec.Msg}
    (h : CampInv n r nd msgs)
    (hnew : ∀ t lt li, Spec.Msg.reqVote t n lt li ∈ msgs' → Spec.Msg.reqVote t n lt li ∈ msgs) :
    CampInv n r nd msgs' := fun t lt li hx => h t lt li (hnew t lt li hx)

end RaftVerif.Sim
