import RaftVerif.Proofs.NoPanicSend
/-!
# Proofs/NoPanicAppResp — a MsgAppResp of the node's own term never throws

For a leader with a well-formed progress table (`ProgWF`: `match < next ≤ lastIndex + 1`), an acknowledgement
within its log, and no self-addressed rejection; the progress table stays well-formed.
-/
namespace RaftVerif.NoPanicP
open Raft C14 Sim Refine
set_option linter.unusedSimpArgs false

/-- the commit / send tail of the acknowledging branch of the `MsgAppResp` handler; `r` is the state in which
the handler read `cfg.id` -/
def ackTail (m : Message) (r : Raft) : M (Option StepErr) := do
  if ← maybeCommit then
    releasePendingReadIndexMessages
    bcastAppend
  else
    let pr ← getPr m.from
    if r.cfg.id != m.from && pr.canBumpCommit (← get).log.committed then sendAppend m.from
  if r.cfg.id != m.from then
    sendAppendLoop ((← get).log.lastIndex + 2) m.from
  let r ← get
  let pr ← getPr m.from
  if m.from == r.leadTransferee && pr.match_ == r.log.lastIndex then sendTimeoutNow m.from
  return none

theorem stepLeader_appResp_ack_run (fuel : Nat) (m : Message) (r : Raft) (pr : Progress)
    (hm : m.typ = .appResp) (hg : r.trk.getProgress m.from = some pr) (hrej : m.reject = false) :
    (stepLeader fuel m).run r =
      if Live.ackCond pr m.index then (ackTail m r).run (Live.ackMid r m pr)
      else .ok (none, Live.ackSkip r m pr) := by
  rw [← Live.ackMid3_eq, ← Live.ackSkip2_eq]
  unfold stepLeader
  simp only [hm, StateT.run_bind, StateT.run_get, P_pure_eq, P_ok_bind, hg, StateT.run_pure, setPr_run, hrej,
    Bool.false_eq_true, ↓reduceIte]
  have hiff : (((({ pr with recentActive := true } : Progress).maybeUpdate m.index).2 ||
      (({ pr with recentActive := true } : Progress).maybeUpdate m.index).1.match_ == m.index &&
      (({ pr with recentActive := true } : Progress).maybeUpdate m.index).1.state == .probe) = true) ↔
      Live.ackCond pr m.index := by
    simp [Live.ackCond, Live.ackUpd]
  by_cases hc : Live.ackCond pr m.index
  · rw [if_pos hc, if_pos (hiff.2 hc)]
    simp only [StateT.run_bind, StateT.run_get, P_pure_eq, P_ok_bind, setPr_run]
    unfold ackTail
    simp only [StateT.run_bind, StateT.run_get, P_pure_eq, P_ok_bind, setPr_run]
    rfl
  · rw [if_neg hc, if_neg (fun h => hc (hiff.1 h))]
    rfl

/-! ### total-correctness triples: `Tot act s Q` = `act` does not throw from `s` and its result satisfies `Q` -/

def Tot {α : Type} (act : M α) (s : Raft) (Q : α → Raft → Prop) : Prop := NoErr act s ∧ Spec act s Q

theorem Tot.bind_iff {α β : Type} (x : M β) (f : β → M α) (s : Raft) (Q : α → Raft → Prop) :
    Tot (x >>= f) s Q ↔ Tot x s (fun b mid => Tot (f b) mid Q) := by
  unfold Tot
  rw [NoErr.bind_iff, Spec.bind_iff]
  constructor
  · rintro ⟨⟨h1, h2⟩, h3⟩; exact ⟨h1, h2.and h3⟩
  · rintro ⟨h1, h2⟩; exact ⟨⟨h1, h2.mono (fun _ _ h => h.1)⟩, h2.mono (fun _ _ h => h.2)⟩

theorem Tot.pure_iff {α : Type} (a : α) (s : Raft) (Q : α → Raft → Prop) : Tot (pure a : M α) s Q ↔ Q a s := by
  unfold Tot; simp only [np, wp, true_and]

theorem Tot.get_iff (s : Raft) (Q : Raft → Raft → Prop) : Tot (get : M Raft) s Q ↔ Q s s := by
  unfold Tot; simp only [np, wp, true_and]

theorem Tot.modify_iff (g : Raft → Raft) (s : Raft) (Q : PUnit → Raft → Prop) :
    Tot (modify g : M PUnit) s Q ↔ Q ⟨⟩ (g s) := by
  unfold Tot; simp only [np, wp, true_and]

theorem Tot.ite_iff {α : Type} (c : Prop) [Decidable c] (x y : M α) (s : Raft) (Q : α → Raft → Prop) :
    Tot (if c then x else y) s Q ↔ (c → Tot x s Q) ∧ (¬ c → Tot y s Q) := by
  by_cases h : c <;> simp [h]

theorem Tot.getPr_iff (id : Id) (s : Raft) (Q : Progress → Raft → Prop) :
    Tot (getPr id) s Q ↔ ∃ pr, s.trk.getProgress id = some pr ∧ Q pr s := by
  unfold Tot
  rw [Raft.getPr_iff]
  unfold getPr
  simp only [np, wp, true_and]
  cases h : s.trk.getProgress id <;> simp [np]

theorem Tot.mono {α : Type} {act : M α} {s : Raft} {Q Q' : α → Raft → Prop} (h : Tot act s Q)
    (hq : ∀ a s', Q a s' → Q' a s') : Tot act s Q' := ⟨h.1, h.2.mono hq⟩

theorem Tot.of_run {α : Type} {act : M α} {s s' : Raft} {a : α} {Q : α → Raft → Prop}
    (h : act.run s = .ok (a, s')) (hq : Q a s') : Tot act s Q := by
  refine ⟨NoErr.of_ok h, ?_⟩
  rw [Spec.iff_runs]
  intro b t hr
  have : act.run s = .ok (b, t) := hr
  rw [h] at this
  injection this with this; injection this with h1 h2
  subst h1 h2; exact hq

theorem Tot.liftP_iff {α : Type} (x : P α) (s : Raft) (Q : α → Raft → Prop) :
    Tot (liftP x) s Q ↔ ∃ a, x = .ok a ∧ Q a s := by
  unfold Tot
  rw [NoErr.liftP_iff, Spec.liftP_iff]
  constructor
  · rintro ⟨⟨a, ha⟩, h⟩; exact ⟨a, ha, h a ha⟩
  · rintro ⟨a, ha, hq⟩
    refine ⟨⟨a, ha⟩, fun b hb => ?_⟩
    rw [ha] at hb; injection hb with hb; subst hb; exact hq

/-! ### the invariant of the commit / send tail -/

/-- what the tail of the handler needs and keeps (`n` the node, `f` the sender of the acknowledgement) -/
structure TailInv (n f : Id) (s : Raft) : Prop where
  wf : s.log.WF
  unc : Uncompacted s.log
  pw : ProgWF s
  id : s.cfg.id = n
  xfer : s.leadTransferee = 0
  pri : s.pendingReadIndexMessages = []
  tr : (s.trk.getProgress f).isSome = true
  nz : n ≠ 0

theorem TailInv.send {n f : Id} {s s' : Raft} (h : TailInv n f s) (hk : SendKeep s s') (hw : ProgWF s')
    (hf : SendFrame s s') : TailInv n f s' :=
  ⟨hk.wf h.wf, hk.unc h.unc, hw, by rw [hk.2.1]; exact h.id, hf.leadTransferee.trans h.xfer,
    hf.pendingReadIndexMessages.trans h.pri, by rw [hk.2.2.2]; exact h.tr, h.nz⟩

theorem tot_maybeCommit {n f : Id} {s : Raft} (h : TailInv n f s) :
    Tot maybeCommit s (fun _ s' => TailInv n f s') := by
  unfold maybeCommit
  simp only [Tot.bind_iff, Tot.get_iff]
  split
  · rw [Tot.pure_iff]; exact h
  · rename_i idx _
    simp only [Tot.bind_iff, Tot.liftP_iff]
    rcases RaftLog.maybeCommit_spec h.wf { term := s.term, index := idx } with ⟨_, _, _, hr, hwf⟩ | ⟨_, hr⟩
    · refine ⟨_, hr, ?_⟩
      simp only [setLog, Tot.bind_iff, Tot.modify_iff, Tot.pure_iff]
      exact ⟨hwf, h.unc.congr rfl rfl, h.pw.congr rfl (Nat.le_refl _), h.id, h.xfer, h.pri, h.tr, h.nz⟩
    · refine ⟨_, hr, ?_⟩
      simp only [setLog, Tot.bind_iff, Tot.modify_iff, Tot.pure_iff]
      exact h

/-! ### the send functions as total triples on `TailInv` -/

theorem tot_sendAppend {n f : Id} {s : Raft} (h : TailInv n f s) (to : Id)
    (hex : (s.trk.getProgress to).isSome = true) (hto : to ≠ n) :
    Tot (sendAppend to) s (fun _ s' => TailInv n f s') := by
  refine ⟨noErr_sendAppend s to h.wf h.unc h.pw.ok hex (by rw [h.id]; exact hto), ?_⟩
  have hsf : Spec (sendAppend to) s (fun _ s' => SendFrame s s') := by
    unfold sendAppend; simp only [wp]; exact maybeSendAppend_sf to true s
  exact ((sendAppend_keep s to h.wf h.unc h.pw.ok).and
    ((sendAppend_keepWF s to h.wf h.unc h.pw).and hsf)).mono (fun _ _ hh => h.send hh.1 hh.2.1 hh.2.2)

theorem tot_sendAppendLoop {n f : Id} {s : Raft} (h : TailInv n f s) (fuel : Nat) (to : Id)
    (hex : (s.trk.getProgress to).isSome = true) (hto : to ≠ n) :
    Tot (sendAppendLoop fuel to) s (fun _ s' => TailInv n f s') := by
  refine ⟨noErr_sendAppendLoop fuel s to h.wf h.unc h.pw.ok hex (by rw [h.id]; exact hto), ?_⟩
  exact ((sendAppendLoop_keep fuel s to h.wf h.unc h.pw.ok).and
    ((sendAppendLoop_keepWF fuel s to h.wf h.unc h.pw).and (sendAppendLoop_sf fuel to s))).mono
    (fun _ _ hh => h.send hh.1 hh.2.1 hh.2.2)

theorem tot_bcastAppend {n f : Id} {s : Raft} (h : TailInv n f s) :
    Tot bcastAppend s (fun _ s' => TailInv n f s') := by
  refine ⟨noErr_bcastAppend s h.wf h.unc h.pw.ok, ?_⟩
  exact ((bcastAppend_keep s h.wf h.unc h.pw.ok).and
    ((bcastAppend_keepWF s h.wf h.unc h.pw).and (bcastAppend_sf s))).mono
    (fun _ _ hh => h.send hh.1 hh.2.1 hh.2.2)

/-- with no pending read-index messages there is nothing to release -/
theorem tot_release {n f : Id} {s : Raft} (h : TailInv n f s) :
    Tot releasePendingReadIndexMessages s (fun _ s' => TailInv n f s') := by
  unfold releasePendingReadIndexMessages
  simp only [Tot.bind_iff, Tot.get_iff, h.pri, List.length_nil, beq_self_eq_true, ↓reduceIte, Tot.pure_iff]
  exact h

/-- `MsgTimeoutNow` to a peer other than the node itself -/
theorem tot_sendTimeoutNow {n f : Id} {s : Raft} (h : TailInv n f s) (to : Id) (hto : to ≠ n) :
    Tot (sendTimeoutNow to) s (fun _ s' => s'.trk = s.trk ∧ s'.log = s.log ∧ s'.state = s.state) := by
  unfold sendTimeoutNow
  constructor
  · intro e he
    rw [panic_send_iff] at he
    rcases he with ⟨_, h1, _⟩ | ⟨_, _, h1⟩ | ⟨_, _, _, h1⟩
    · cases h1
    · exact h1 rfl
    · exact hto (h1.trans h.id)
  · refine (send_spec _ s).mono ?_
    rintro _ s' (⟨_, rfl⟩ | ⟨_, rfl⟩) <;> exact ⟨rfl, rfl, rfl⟩

/-! ### the tail -/

theorem tot_tl1 {n : Id} (m : Message) (s : Raft) (h : TailInv n m.from s) :
    Tot (do
      let r ← get
      let pr ← getPr m.from
      if m.from == r.leadTransferee && pr.match_ == r.log.lastIndex then sendTimeoutNow m.from
      return none : M (Option StepErr)) s (fun _ s' => ProgWF s') := by
  simp only [Tot.bind_iff, Tot.get_iff, Tot.getPr_iff]
  obtain ⟨pr, hg⟩ := Option.isSome_iff_exists.mp h.tr
  refine ⟨pr, hg, ?_⟩
  rw [Tot.ite_iff]
  refine ⟨fun hc => ?_, fun _ => by simp only [Tot.pure_iff]; exact h.pw⟩
  have hto : m.from ≠ n := by
    rw [h.xfer] at hc
    simp only [Bool.and_eq_true, beq_iff_eq] at hc
    intro e; exact h.nz (e.symm.trans hc.1)
  simp only [Tot.bind_iff, Tot.pure_iff]
  refine (tot_sendTimeoutNow h _ hto).mono ?_
  intro _ s' hh
  exact h.pw.congr (by rw [hh.1]) (by rw [hh.2.1]; exact Nat.le_refl _)

/-- close a `Tot` goal with a `Tot` fact up to the normal form of the calculus -/
macro "tot_exact " e:term : tactic => `(tactic| (
  have t := $e
  simp only [Tot.bind_iff, Tot.get_iff, Tot.getPr_iff, Tot.ite_iff, Tot.pure_iff] at t ⊢
  exact t))

theorem tot_tl2 {n : Id} (m : Message) (r s : Raft) (hr : r.cfg.id = n) (h : TailInv n m.from s) :
    Tot (do
      if r.cfg.id != m.from then
        sendAppendLoop ((← get).log.lastIndex + 2) m.from
      let r ← get
      let pr ← getPr m.from
      if m.from == r.leadTransferee && pr.match_ == r.log.lastIndex then sendTimeoutNow m.from
      return none : M (Option StepErr)) s (fun _ s' => ProgWF s') := by
  simp only [Tot.ite_iff]
  refine ⟨fun hc => ?_, fun _ => by tot_exact tot_tl1 m s h⟩
  have hto : m.from ≠ n := by
    rw [hr] at hc
    intro e; rw [e] at hc; simp at hc
  simp only [Tot.bind_iff, Tot.get_iff]
  exact (tot_sendAppendLoop h _ m.from h.tr hto).mono (fun _ s' h' => by tot_exact tot_tl1 m s' h')

theorem tot_ackTail {n : Id} (m : Message) (r s : Raft) (hr : r.cfg.id = n) (h : TailInv n m.from s) :
    Tot (ackTail m r) s (fun _ s' => ProgWF s') := by
  unfold ackTail
  simp only [Tot.bind_iff]
  refine (tot_maybeCommit h).mono ?_
  intro b s1 h1
  rw [Tot.ite_iff]
  constructor
  · intro _
    simp only [Tot.bind_iff]
    refine (tot_release h1).mono (fun _ s2 h2 => ?_)
    refine (tot_bcastAppend h2).mono (fun _ s3 h3 => ?_)
    tot_exact tot_tl2 m r s3 hr h3
  · intro _
    simp only [Tot.bind_iff, Tot.get_iff, Tot.getPr_iff]
    obtain ⟨pr, hg⟩ := Option.isSome_iff_exists.mp h1.tr
    refine ⟨pr, hg, ?_⟩
    rw [Tot.ite_iff]
    refine ⟨fun hc => ?_, fun _ => by tot_exact tot_tl2 m r s1 hr h1⟩
    have hto : m.from ≠ n := by
      rw [hr] at hc
      intro e; rw [e] at hc; simp at hc
    simp only [Tot.bind_iff]
    exact (tot_sendAppend h1 m.from h1.tr hto).mono (fun _ s2 h2 => by tot_exact tot_tl2 m r s2 hr h2)

/-! ### the progress installed by the handler stays within the log -/

theorem becomeProbe_match (pr : Progress) : pr.becomeProbe.match_ = pr.match_ := by
  unfold Progress.becomeProbe; split <;> rfl

/-- acknowledgement of an index within the log -/
theorem ack_wf (pr : Progress) (fi idx L : Nat) (h1 : pr.match_ < pr.next) (h2 : pr.next ≤ L + 1)
    (hi : idx ≤ L) :
    (Live.ackUpd pr idx).1.match_ < (Live.ackUpd pr idx).1.next ∧ (Live.ackUpd pr idx).1.next ≤ L + 1 ∧
    (Live.ackTransition (Live.ackUpd pr idx).1 fi idx).match_ <
      (Live.ackTransition (Live.ackUpd pr idx).1 fi idx).next ∧
    (Live.ackTransition (Live.ackUpd pr idx).1 fi idx).next ≤ L + 1 := by
  have hU : (Live.ackUpd pr idx).1.match_ < (Live.ackUpd pr idx).1.next ∧ (Live.ackUpd pr idx).1.next ≤ L + 1 := by
    unfold Live.ackUpd Progress.maybeUpdate
    split
    · exact ⟨h1, h2⟩
    · show idx < max pr.next (idx + 1) ∧ max pr.next (idx + 1) ≤ L + 1
      omega
  refine ⟨hU.1, hU.2, ?_⟩
  generalize (Live.ackUpd pr idx).1 = U at hU
  unfold Live.ackTransition
  split
  · show U.match_ < U.match_ + 1 ∧ U.match_ + 1 ≤ L + 1
    omega
  · split
    · show U.becomeProbe.match_ < U.becomeProbe.match_ + 1 ∧ U.becomeProbe.match_ + 1 ≤ L + 1
      rw [becomeProbe_match]; omega
    · split
      · exact hU
      · exact hU

theorem becomeProbe_next_of_replicate (pr : Progress) (h : (pr.state == .replicate) = true) :
    pr.becomeProbe.next = pr.match_ + 1 := by
  have hs : pr.state = .replicate := by simpa using h
  unfold Progress.becomeProbe
  rw [hs]
  rfl

/-- rejection: `MaybeDecrTo` and `BecomeProbe` keep `match < next ≤ lastIndex + 1` -/
theorem reject_wf (pr : Progress) (idx hint L : Nat) (h1 : pr.match_ < pr.next) (h2 : pr.next ≤ L + 1) :
    (Live.afterReject pr idx hint).match_ < (Live.afterReject pr idx hint).next ∧
    (Live.afterReject pr idx hint).next ≤ L + 1 := by
  have hD : (({ pr with recentActive := true } : Progress).maybeDecrTo idx hint).1.match_ <
      (({ pr with recentActive := true } : Progress).maybeDecrTo idx hint).1.next ∧
      (({ pr with recentActive := true } : Progress).maybeDecrTo idx hint).1.next ≤ L + 1 := by
    unfold Progress.maybeDecrTo
    split
    · split
      · exact ⟨h1, h2⟩
      · show pr.match_ < pr.match_ + 1 ∧ pr.match_ + 1 ≤ L + 1
        omega
    · split
      · exact ⟨h1, h2⟩
      · rename_i hne
        have hu : usub pr.next 1 = idx := by simpa using hne
        rw [usub_one_pos (by omega)] at hu
        show pr.match_ < max (min idx (hint + 1)) (pr.match_ + 1) ∧
          max (min idx (hint + 1)) (pr.match_ + 1) ≤ L + 1
        omega
  unfold Live.afterReject
  generalize (({ pr with recentActive := true } : Progress).maybeDecrTo idx hint).1 = D at hD
  split
  · rename_i hrep
    rw [becomeProbe_match, becomeProbe_next_of_replicate D hrep]
    omega
  · exact hD

/-! ### `stepLeader` on MsgAppResp -/

theorem Tot.of_run_eq {α : Type} {act act' : M α} {s s' : Raft} {Q : α → Raft → Prop}
    (h : act.run s = act'.run s') (ht : Tot act' s' Q) : Tot act s Q := by
  refine ⟨fun e he => ht.1 e (h ▸ he), ?_⟩
  rw [Spec.iff_runs]
  intro a t hr
  have hr' : act.run s = .ok (a, t) := hr
  rw [h] at hr'
  exact ht.2.elim hr'

theorem tracked_setProgress (r : Raft) (id : Id) (X : Progress) :
    (({ r with trk := r.trk.setProgress id X } : Raft).trk.getProgress id).isSome = true := by
  simp [getProgress_setProgress]

/-- the state in which a rejection that `MaybeDecrTo` accepted re-sends -/
def rejMid (r : Raft) (m : Message) (pr : Progress) : Raft :=
  { r with trk := r.trk.setProgress m.from (Live.afterReject pr m.index (Live.probeHint r m)) }

theorem tot_stepLeader_appResp {n : Id} (fuel : Nat) (m : Message) (r : Raft) (ht : m.typ = .appResp)
    (hwf : r.log.WF) (hunc : Uncompacted r.log) (hp : ProgWF r) (hid : r.cfg.id = n) (hnz : n ≠ 0)
    (hx : r.leadTransferee = 0) (hpri : r.pendingReadIndexMessages = [])
    (hack : m.reject = false → m.index ≤ r.log.lastIndex) (hrej : m.reject = true → m.from ≠ n) :
    Tot (stepLeader fuel m) r (fun _ r' => ProgWF r') := by
  cases hg : r.trk.getProgress m.from with
  | none =>
    have hrun : (stepLeader fuel m).run r = .ok (none, r) := by
      unfold stepLeader
      simp only [ht, StateT.run_bind, StateT.run_get, P_pure_eq, P_ok_bind, hg, StateT.run_pure]
    exact Tot.of_run hrun hp
  | some pr =>
    obtain ⟨p1, p2⟩ := hp m.from pr hg
    cases hr : m.reject with
    | true =>
      have hrun := Live.stepLeader_appResp_reject_run fuel m r pr ht hg hr
      split at hrun
      · obtain ⟨w1, w2⟩ := reject_wf pr m.index (Live.probeHint r m) r.log.lastIndex p1 p2
        have hpS : ProgWF (rejMid r m pr) := hp.setProgress m.from _ w1 w2
        have hne : m.from ≠ r.cfg.id := by rw [hid]; exact hrej hr
        obtain ⟨a, s', hok⟩ := NoErr.ok (noErr_maybeSendAppend (rejMid r m pr) m.from true hwf hunc hpS.ok
          (tracked_setProgress r m.from _) hne)
        have hw := (maybeSendAppend_keepWF (rejMid r m pr) m.from true hwf hunc hpS).elim hok
        unfold rejMid at hok
        rw [hok] at hrun
        exact Tot.of_run hrun hw
      · exact Tot.of_run hrun (hp.setProgress m.from _ p1 p2)
    | false =>
      have hrun := stepLeader_appResp_ack_run fuel m r pr ht hg hr
      obtain ⟨u1, u2, w1, w2⟩ := ack_wf pr r.log.firstIndex m.index r.log.lastIndex p1 p2 (hack hr)
      split at hrun
      · refine Tot.of_run_eq hrun (tot_ackTail m r _ hid ?_)
        exact ⟨hwf, hunc, hp.setProgress m.from _ w1 w2, hid, hx, hpri, tracked_setProgress r m.from _, hnz⟩
      · exact Tot.of_run hrun (hp.setProgress m.from _ u1 u2)

/-! ### `step` on a MsgAppResp of the node's own term -/

/-- total form: the call does not throw and the progress table of a leader stays well-formed.
`hrej`: a rejection never comes from the node itself (self-addressed acknowledgements are produced by the node's
own `Advance` and are never rejections) — without it `sendAppend m.from` would throw
"send: message should not be self-addressed". -/
theorem tot_step_appResp_same {val : Val} {voters : List Id} {n : Nat} {r : Raft} {nd : Spec.Node}
    {msgs : List Spec.Msg} (hinv : RaftInv val voters n r nd msgs) (fuel : Nat) (m : Message)
    (ht : m.typ = .appResp) (hterm : m.term = r.term)
    (hprog : r.state = .leader → ProgWF r)
    (hack : r.state = .leader → m.reject = false → m.index ≤ r.log.lastIndex)
    (hrej : r.state = .leader → m.reject = true → m.from ≠ n) :
    Tot (Raft.step (fuel + 1) m) r (fun _ r' => r'.state = .leader → ProgWF r') := by
  by_cases hl : r.state = .leader
  · have hrun : (Raft.step (fuel + 1) m).run r = (stepLeader fuel m).run r := by
      rw [step_same_term_dispatch fuel m r (Or.inr hterm) (appResp_dispatched ht)]
      unfold dispatch
      rw [hl]
    refine Tot.of_run_eq hrun ((tot_stepLeader_appResp fuel m r ht hinv.wf hinv.unc (hprog hl) hinv.st.id
      hinv.st.idnz hinv.st.xfer hinv.st.pri (hack hl) (hrej hl)).mono (fun _ _ h _ => h))
  · exact Tot.of_run (step_appResp_nonleader_run fuel m r ht hterm hl) (fun h => absurd h hl)

/-- **a MsgAppResp of the node's own term never throws** -/
theorem noErr_step_appResp_same {val : Val} {voters : List Id} {n : Nat} {r : Raft} {nd : Spec.Node}
    {msgs : List Spec.Msg} (hinv : RaftInv val voters n r nd msgs) (fuel : Nat) (m : Message)
    (ht : m.typ = .appResp) (hterm : m.term = r.term) (_h0 : m.term ≠ 0)
    (hprog : r.state = .leader → ProgWF r)
    (hack : r.state = .leader → m.reject = false → m.index ≤ r.log.lastIndex)
    (hrej : r.state = .leader → m.reject = true → m.from ≠ n) :
    NoErr (Raft.step (fuel + 1) m) r :=
  (tot_step_appResp_same hinv fuel m ht hterm hprog hack hrej).1

/-- **… and keeps the leader's progress table well-formed** -/
theorem appResp_keeps_prog {val : Val} {voters : List Id} {n : Nat} {r : Raft} {nd : Spec.Node}
    {msgs : List Spec.Msg} (hinv : RaftInv val voters n r nd msgs) (fuel : Nat) (m : Message)
    (ht : m.typ = .appResp) (hterm : m.term = r.term) (_h0 : m.term ≠ 0)
    (hprog : r.state = .leader → ProgWF r)
    (hack : r.state = .leader → m.reject = false → m.index ≤ r.log.lastIndex)
    (hrej : r.state = .leader → m.reject = true → m.from ≠ n) :
    Spec (Raft.step (fuel + 1) m) r (fun _ r' => r'.state = .leader → ProgWF r') :=
  (tot_step_appResp_same hinv fuel m ht hterm hprog hack hrej).2

end RaftVerif.NoPanicP
