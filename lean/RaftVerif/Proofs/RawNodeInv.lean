import RaftVerif.Proofs.RawNew
import RaftVerif.Proofs.RawSync2
import RaftVerif.Proofs.RawAsync2
import RaftVerif.Props.C08
/-!
# Proofs/RawNodeInv — `PromisesWithinLog` at the `RawNode` level: `new`, `step`, `tick`, `ready`
-/
namespace RaftVerif.Raw
open RaftVerif Raft

theorem runM_prom {α : Type} (rn rn' : RawNode) (draws : List Nat) (act : M α) (a : α)
    (hact : Spec act { rn.raft with draws := draws } (fun _ s' => Prom { rn.raft with draws := draws } s'))
    (h : rn.runM draws act = .ok (a, rn')) : Prom rn.raft rn'.raft := by
  unfold RawNode.runM at h
  obtain ⟨⟨a', r'⟩, hrun, h⟩ := bind_eq_ok.1 h
  have hg : Prom { rn.raft with draws := draws } r' := hact.elim hrun
  have h0 : Prom rn.raft { rn.raft with draws := draws } := Prom.of_log rfl rfl rfl rfl rfl (LogGrow.refl _)
  by_cases hd : (!r'.draws.isEmpty) = true
  · simp [hd, throw, throwThe, MonadExceptOf.throw, bind, Except.bind] at h
  · simp only [hd, bind, Except.bind, pure, Except.pure] at h
    simp only [Bool.false_eq_true, if_false, Except.ok.injEq, Prod.mk.injEq] at h
    obtain ⟨_, rfl⟩ := h
    exact h0.trans hg

theorem rawnode_tick_prom (rn rn' : RawNode) (draws : List Nat) (h : rn.tick draws = .ok rn') :
    Prom rn.raft rn'.raft := by
  unfold RawNode.tick at h
  obtain ⟨⟨u, rn1⟩, hrun, h⟩ := bind_eq_ok.1 h
  simp only [pure, Except.pure, Except.ok.injEq] at h
  subst h
  exact runM_prom rn rn1 draws _ u (tick_prom _) hrun

theorem rawnode_rstep_prom (rn rn' : RawNode) (draws : List Nat) (m : Message) (e : Option ApiErr)
    (hH : StepHyp rn.raft m) (h : rn.rstep draws m = .ok (e, rn')) : Prom rn.raft rn'.raft := by
  unfold RawNode.rstep at h
  obtain ⟨⟨u, rn1⟩, hrun, h⟩ := bind_eq_ok.1 h
  simp only [pure, Except.pure, Except.ok.injEq, Prod.mk.injEq] at h
  obtain ⟨_, rfl⟩ := h
  exact runM_prom rn rn1 draws _ u (step_prom _ _ _ ⟨hH.term, hH.agrees, hH.ack⟩) hrun

theorem rawnode_step_prom (rn rn' : RawNode) (draws : List Nat) (m : Message) (e : Option ApiErr)
    (hH : StepHyp rn.raft m) (h : rn.step draws m = .ok (e, rn')) : Prom rn.raft rn'.raft := by
  unfold RawNode.step at h
  split at h
  · simp only [pure, Except.pure, Except.ok.injEq, Prod.mk.injEq] at h
    obtain ⟨_, rfl⟩ := h; exact Prom.refl _
  · split at h
    · simp only [pure, Except.pure, Except.ok.injEq, Prod.mk.injEq] at h
      obtain ⟨_, rfl⟩ := h; exact Prom.refl _
    · exact rawnode_rstep_prom rn rn' draws m e hH h

theorem rawnode_new_inv (c : Config) (storage : MemoryStorage) (draws : List Nat) (rn : RawNode)
    (h : RawNode.new c storage draws = .ok rn) : PromisesWithinLog rn.raft := by
  unfold RawNode.new at h
  obtain ⟨r, hr, h⟩ := bind_eq_ok.1 h
  simp only [pure, Except.pure, Except.ok.injEq] at h
  subst h
  exact newRaft_inv c storage draws r hr

/-! ### `Ready` hands the queues out: afterwards they are empty -/

theorem acceptInProgress_fields (u : Unstable) :
    u.acceptInProgress.entries = u.entries ∧ u.acceptInProgress.offset = u.offset ∧
    u.acceptInProgress.snapshot = u.snapshot := by
  cases h : u.entries.getLast? <;> simp only [Unstable.acceptInProgress, h] <;> split <;> exact ⟨rfl, rfl, rfl⟩

theorem acceptUnstable_last (l : RaftLog) :
    l.acceptUnstable.lastIndex = l.lastIndex ∧ l.acceptUnstable.committed = l.committed := by
  refine ⟨?_, rfl⟩
  obtain ⟨h1, h2, h3⟩ := acceptInProgress_fields l.unstable
  simp only [RaftLog.acceptUnstable, RaftLog.lastIndex, Unstable.maybeLastIndex, h1, h2, h3]

theorem acceptApplying_last {l l' : RaftLog} {i sz : Nat} {b : Bool} (h : l.acceptApplying i sz b = .ok l') :
    l'.lastIndex = l.lastIndex ∧ l'.committed = l.committed := by
  unfold RaftLog.acceptApplying at h
  split at h
  · cases h
  · simp only [pure, Except.pure, Except.ok.injEq] at h
    subst h; exact ⟨rfl, rfl⟩

theorem acceptReady_cl (rn rn' : RawNode) (rd : Ready) (h : rn.acceptReady rd = .ok rn')
    (hcl : CL rn.raft) : CL rn'.raft := by
  have hl := C08.rawnode_acceptReady rn rn' rd h
  obtain ⟨a1, a2⟩ := acceptUnstable_last rn.raft.log
  unfold CL at hcl ⊢
  split at hl
  · obtain ⟨b1, b2⟩ := acceptApplying_last hl
    omega
  · simp only [Except.ok.injEq] at hl
    rw [← hl]; omega

theorem acceptReady_inv (rn rn' : RawNode) (rd : Ready) (h : rn.acceptReady rd = .ok rn')
    (hcl : CL rn.raft) : PromisesWithinLog rn'.raft ∧ rn'.raft.msgs = [] ∧ rn'.raft.msgsAfterAppend = [] := by
  have hcl' := acceptReady_cl rn rn' rd h hcl
  cases ha : rn.async with
  | false =>
    obtain ⟨_, h1, h2, _⟩ := sync_acceptReady_soa rn rn' rd ha h
    exact ⟨PromisesWithinLog.of_empty h1 h2 hcl', h1, h2⟩
  | true =>
    have k := async_acceptReady rn rn' rd ha h
    exact ⟨PromisesWithinLog.of_empty k.msgs k.maa hcl', k.msgs, k.maa⟩

theorem ready_inv (rn rn' : RawNode) (rd : Ready) (h : rn.ready = .ok (rd, rn')) (hcl : CL rn.raft) :
    PromisesWithinLog rn'.raft ∧ rn'.raft.msgs = [] ∧ rn'.raft.msgsAfterAppend = [] := by
  unfold RawNode.ready at h
  obtain ⟨rd1, _, h⟩ := bind_eq_ok.1 h
  obtain ⟨rn1, h1, h⟩ := bind_eq_ok.1 h
  simp only [pure, Except.pure, Except.ok.injEq, Prod.mk.injEq] at h
  obtain ⟨rfl, rfl⟩ := h
  exact acceptReady_inv rn rn1 rd1 h1 hcl

end RaftVerif.Raw
