import RaftVerif.Proofs.SimCorStored
/-!
# Proofs/SimCorMore — further transfers: unique votes, monotone terms, a leader's term is durable
-/
namespace RaftVerif.SimCorP
open Sim Refine Simulation

/-- **votes are unique**: two granting `MsgVoteResp` of the same sender and term name the same candidate -/
theorem vote_unique_net {voters : List Id} {c0 c : Cluster} (h : Setting voters c0 c)
    {m m' : Message} (hm : m ∈ c.net) (hm' : m' ∈ c.net) (hty : m.typ = .voteResp) (hty' : m'.typ = .voteResp)
    (hrej : m.reject = false) (hrej' : m'.reject = false) (hf : m.from = m'.from) (ht : m.term = m'.term) :
    m.to = m'.to := by
  obtain ⟨s, hs, hR⟩ := h.related (fun _ _ => 0)
  have hnet := hR.rs.ra.base.net m hm
  have hnet' := hR.rs.ra.base.net m' hm'
  unfold NetOK at hnet hnet'
  simp only [hty] at hnet
  simp only [hty'] at hnet'
  have h1 := hnet.2.2 hrej
  have h2 := hnet'.2.2 hrej'
  rw [← hf, ← ht] at h2
  exact Spec.vote_unique _ h.cfgOK s hs _ _ _ _ h1 h2

/-- **terms are monotone** in both views: they never decrease along the log, are at least 1 and at most the
(current / stored) term of the node -/
theorem terms_monotone_views {voters : List Id} {c0 c : Cluster} (h : Setting voters c0 c)
    {a : Nat} {ra : RawNode} (ha : c.nodes a = some ra) (sa : Bool) :
    ((entsOf ra sa).map (·.term)).Pairwise (· ≤ ·) ∧
      ∀ e ∈ entsOf ra sa, 1 ≤ e.term ∧ e.term ≤ (hsOf ra sa).term := by
  obtain ⟨s, hs, hR⟩ := h.related (fun _ _ => 0)
  have V := viewOK hR ha sa
  obtain ⟨h1, h2⟩ := Spec.terms_monotone _ h.cfgOK s hs a _ (verOf_mem (s.nodes a) sa)
  rw [V.log] at h1 h2
  rw [V.term] at h2
  refine ⟨?_, fun e he => ?_⟩
  · rw [List.map_map] at h1
    exact h1
  · exact h2 (absEnt _ e) (List.mem_map_of_mem he)

/-- **a live leader's term is durable**: its stored term is its term -/
theorem leader_term_stored {voters : List Id} {c0 c : Cluster} (h : Setting voters c0 c)
    {l : Nat} {rl : RawNode} (hl : c.nodes l = some rl) (hlead : rl.raft.state = .leader) :
    (hsOf rl true).term = rl.raft.term := by
  obtain ⟨s, hs, hR⟩ := h.related (fun _ _ => 0)
  have A := (hR.rs.ra.base.nodes l rl hl).inv.abs
  have V := viewOK hR hl true
  have hrole : (s.nodes l).role = .leader := by rw [A.role, hlead]; rfl
  have := (Spec.durable_behind_volatile _ h.cfgOK s hs l).2 hrole
  rw [A.term] at this
  rw [← V.term]
  exact this

/-- **state-machine safety for the views**: two views (current or stored, of any two nodes) hold the same entry at
every index that is at or below both their commit indexes -/
theorem commit_agree_views {voters : List Id} {c0 c : Cluster} (h : Setting voters c0 c)
    {a b : Nat} {ra rb : RawNode} (ha : c.nodes a = some ra) (hb : c.nodes b = some rb) (sa sb : Bool)
    {i : Nat} (hi : 1 ≤ i) (h1 : i ≤ (hsOf ra sa).commit) (h2 : i ≤ (hsOf rb sb).commit) :
    ∃ x y, (entsOf ra sa)[i - 1]? = some x ∧ (entsOf rb sb)[i - 1]? = some y ∧
      x.term = y.term ∧ x.typ = y.typ ∧ x.data = y.data ∧ x.index = i ∧ y.index = i := by
  have hla := commit_within_views h ha sa
  have hlb := commit_within_views h hb sb
  have hla' : i - 1 < (entsOf ra sa).length := by omega
  have hlb' : i - 1 < (entsOf rb sb).length := by omega
  obtain ⟨x, hx⟩ : ∃ x, (entsOf ra sa)[i - 1]? = some x := ⟨_, List.getElem?_eq_getElem hla'⟩
  obtain ⟨y, hy⟩ : ∃ y, (entsOf rb sb)[i - 1]? = some y := ⟨_, List.getElem?_eq_getElem hlb'⟩
  obtain ⟨s, hs, hR⟩ := h.related (valFor x)
  have VA := viewOK hR ha sa
  have VB := viewOK hR hb sb
  have key := spec_commit_agree h.cfgOK hs (verOf_mem (s.nodes a) sa) (verOf_mem (s.nodes b) sb) hi
    (by rw [VA.commit]; exact h1) (by rw [VB.commit]; exact h2)
  rw [VA.log, VB.log, at?_map hi, at?_map hi, hx, hy] at key
  simp only [Option.map_some, Option.some.injEq] at key
  obtain ⟨k1, k2, k3⟩ := valFor_sep key
  have ix := ents_index hR ha sa hx
  have iy := ents_index hR hb sb hy
  exact ⟨x, y, hx, hy, k1, k2, k3, by omega, by omega⟩

end RaftVerif.SimCorP
