import RaftVerif.Proofs.StepMain
/-!
# Proofs/StepTick — `tick`, `applyConfChange`, the replay loop of `RawNode.advance` and `runM` keep `Good`
-/
namespace RaftVerif
namespace Raft

/-! ### `tick`, `applyConfChange` -/

theorem tickElection_good (s : Raft) : Spec tickElection s (fun _ s' => Good s s') := by
  unfold tickElection
  rel_start
  wp_auto [first | rel_call (step_good' _ _ _ (by intro _; simp [AppLike])) | good_step]

theorem tickHeartbeat_good (s : Raft) : Spec tickHeartbeat s (fun _ s' => Good s s') := by
  unfold tickHeartbeat
  rel_start
  wp_auto [first | rel_call (step_good' _ _ _ (by intro _; simp [AppLike])) | good_step]

theorem tick_good (s : Raft) : Spec tick s (fun _ s' => Good s s') := by
  unfold tick
  rel_start
  wp_auto [first | rel_call (tickElection_good ..) | rel_call (tickHeartbeat_good ..)]

theorem applyConfChange_good (cc : ConfChangeV2) (s : Raft) :
    Spec (applyConfChange cc) s (fun _ s' => Good s s') := by
  unfold applyConfChange
  rel_start
  wp_auto [good_step]

end Raft

namespace RawNode

/-- running a `Good`-keeping action through `runM` (which installs the draws) -/
theorem runM_good {α : Type} (rn rn' : RawNode) (draws : List Nat) (act : M α) (a : α)
    (hact : ∀ s, Spec act s (fun _ s' => Good s s')) (h : rn.runM draws act = .ok (a, rn')) :
    Good rn.raft rn'.raft ∧ rn'.async = rn.async ∧ rn'.stepsOnAdvance = rn.stepsOnAdvance := by
  unfold runM at h
  obtain ⟨⟨a', r'⟩, hrun, h⟩ := bind_eq_ok.1 h
  have hg : Good { rn.raft with draws := draws } r' := (hact _).elim hrun
  have h0 : Good rn.raft { rn.raft with draws := draws } := Good.of_eq rfl rfl rfl rfl rfl rfl
  by_cases hd : (!r'.draws.isEmpty) = true
  · simp [hd, throw, throwThe, MonadExceptOf.throw, bind, Except.bind] at h
  · simp only [hd, bind, Except.bind, pure, Except.pure] at h
    simp only [Bool.false_eq_true, if_false, Except.ok.injEq, Prod.mk.injEq] at h
    obtain ⟨_, rfl⟩ := h
    exact ⟨h0.trans hg, rfl, rfl⟩

/-- `RawNode.advance` (replay of the self-addressed responses and storage acknowledgements) -/
theorem advance_good (rn rn' : RawNode) (draws : List Nat) (hms : ∀ m ∈ rn.stepsOnAdvance, Raft.TermOK m)
    (h : rn.advance draws = .ok rn') : Good rn.raft rn'.raft := by
  unfold advance at h
  by_cases ha : rn.async = true
  · simp [ha, throw, throwThe, MonadExceptOf.throw, bind, Except.bind] at h
  · simp only [ha, Bool.false_eq_true, if_false] at h
    obtain ⟨⟨u, rn1⟩, hrun, h⟩ := bind_eq_ok.1 h
    simp only [pure, Except.pure, Except.ok.injEq] at h
    subst h
    refine (runM_good rn rn1 draws _ u ?_ hrun).1
    intro s
    clear hrun h
    rel_start
    simp (config := {zeta := false}) only [wp]
    refine Spec.call (Spec.forIn_list_rel _ _ _ Good Good.refl (fun _ _ _ => Good.trans) _ ?_) (by rel_acc) ?_
    · intro m hm _ mid
      rel_start
      simp (config := {zeta := false}) only [wp]
      rel_call (Raft.step_good' _ _ _ (hms m hm))
      rel_acc
    · intro _ _ _
      wp_auto [fail]

end RawNode
end RaftVerif
