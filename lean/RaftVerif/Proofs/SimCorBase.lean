import RaftVerif.Props.Simulation
/-!
# Proofs/SimCorBase — common machinery for the corollaries of the simulation theorem

* `related`        — every cluster reachable from an initial one is related (`RSD`) to a reachable Spec state
* `entsOf`/`verOf`/`hsOf` — the two "views" of a node: its volatile state (raftLog, `Raft` fields) and its stable
                     storage; they are described by the Spec versions `vol` and `dur`
* `valFor`         — the payload encoding that separates one `(type, data)` pair from all others
-/
namespace RaftVerif.SimCorP
open Sim Refine Simulation

/-- the standing hypotheses: an initial cluster over a strictly ascending non-empty voter list without id 0, and a
cluster reachable from it -/
structure Setting (voters : List Id) (c0 c : Cluster) : Prop where
  sorted : voters.Pairwise (· < ·)
  nz : 0 ∉ voters
  ne : voters ≠ []
  init : InitCluster voters c0
  reach : CReachable c0 c

theorem Setting.nodup {voters : List Id} {c0 c : Cluster} (h : Setting voters c0 c) : voters.Nodup :=
  h.sorted.imp (fun h => Nat.ne_of_lt h)

theorem Setting.cfgOK {voters : List Id} {c0 c : Cluster} (h : Setting voters c0 c) : (cfgOf voters).OK :=
  Spec.jointCfg_ok voters [] h.ne h.nodup (by simp)

/-- every reachable cluster is related to a reachable Spec state, for any payload encoding -/
theorem Setting.related {voters : List Id} {c0 c : Cluster} (h : Setting voters c0 c) (val : Val) :
    ∃ s, Spec.Reachable (cfgOf voters) s ∧ RSD val voters c s :=
  reachable_related h.sorted h.nz (init_related (val := val) h.sorted h.nz h.init) h.reach

/-! ### the two views of a node -/

/-- the entries of a node: of its raftLog (`stored = false`) or of its stable storage (`stored = true`) -/
def entsOf (rn : RawNode) (stored : Bool) : List Entry :=
  if stored then rn.raft.log.storage.abs.ents else rn.raft.log.abs.ents

/-- the hard state of a node: the current one, or the one in its stable storage -/
def hsOf (rn : RawNode) (stored : Bool) : HardState :=
  if stored then rn.raft.log.storage.hardState.getD {} else RawNode.hardState rn.raft

/-- the Spec version that describes the view -/
def verOf (nd : Spec.Node) (stored : Bool) : Spec.Ver := if stored then nd.dur else nd.vol

theorem verOf_mem (nd : Spec.Node) (stored : Bool) : verOf nd stored ∈ Spec.versions nd := by
  cases stored <;> simp [verOf, Spec.versions]

/-- what the relation says about a view -/
structure ViewOK (val : Val) (rn : RawNode) (nd : Spec.Node) (stored : Bool) : Prop where
  term : (verOf nd stored).term = (hsOf rn stored).term
  vote : (verOf nd stored).vote = (hsOf rn stored).vote
  commit : (verOf nd stored).commit = (hsOf rn stored).commit
  log : (verOf nd stored).log = (entsOf rn stored).map (absEnt val)

theorem viewOK {val : Val} {voters : List Id} {c : Cluster} {s : Spec.State} (hR : RSD val voters c s)
    {n : Nat} {rn : RawNode} (hn : c.nodes n = some rn) (stored : Bool) : ViewOK val rn (s.nodes n) stored := by
  have A := (hR.rs.ra.base.nodes n rn hn).inv.abs
  have D := hR.dur n rn hn
  cases stored
  · exact ⟨A.term, A.vote, A.commit, A.log⟩
  · exact ⟨D.term, D.vote, D.commit, D.log⟩

/-! ### the base of the logs -/

/-- in a related cluster nothing is compacted: the raftLog and the storage start at index 1 -/
theorem base_zero {val : Val} {voters : List Id} {c : Cluster} {s : Spec.State} (hR : RSD val voters c s)
    {n : Nat} {rn : RawNode} (hn : c.nodes n = some rn) :
    rn.raft.log.abs.base = 0 ∧ rn.raft.log.storage.abs.base = 0 := by
  have I := (hR.rs.ra.base.nodes n rn hn).inv
  have S := hR.rs.settled n rn hn
  exact ⟨I.unc.1, (storage_of_uncompacted I.unc S.1).1⟩

theorem lastIndex_eq {val : Val} {voters : List Id} {c : Cluster} {s : Spec.State} (hR : RSD val voters c s)
    {n : Nat} {rn : RawNode} (hn : c.nodes n = some rn) :
    rn.raft.log.lastIndex = rn.raft.log.abs.ents.length ∧
    rn.raft.log.storage.lastIndex = rn.raft.log.storage.abs.ents.length := by
  have I := (hR.rs.ra.base.nodes n rn hn).inv
  obtain ⟨b1, b2⟩ := base_zero hR hn
  refine ⟨?_, ?_⟩
  · rw [RaftLog.lastIndex_abs I.wf, ALog.last, b1, Nat.zero_add]
  · rw [MemoryStorage.lastIndex_abs I.wf.storage, ALog.last, b2, Nat.zero_add]

/-- the entry at position `k` of a view carries the index `k + 1` -/
theorem ents_index {val : Val} {voters : List Id} {c : Cluster} {s : Spec.State} (hR : RSD val voters c s)
    {n : Nat} {rn : RawNode} (hn : c.nodes n = some rn) (stored : Bool) {k : Nat} {e : Entry}
    (he : (entsOf rn stored)[k]? = some e) : e.index = k + 1 := by
  have I := (hR.rs.ra.base.nodes n rn hn).inv
  obtain ⟨b1, b2⟩ := base_zero hR hn
  cases stored
  · have := (RaftLog.WF.abs_wf I.wf).getElem? he
    rw [b1] at this; omega
  · have := (MemoryStorage.WF.abs_wf I.wf.storage).getElem? he
    rw [b2] at this; omega

end RaftVerif.SimCorP
