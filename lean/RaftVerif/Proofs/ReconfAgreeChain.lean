import RaftVerif.Proofs.ReconfAgree
/-!
# The configuration history of a log is a chain of allowed transitions (pure list lemmas)
-/
namespace RaftVerif.SpecR

/-- `c'` is reached from `c` by stepping through the configurations `cs` in order, every step being
a transition `Conf.allowed` permits; with `cs = []` nothing changes -/
def CfgPath : Conf → List Conf → Conf → Prop
  | c, [], c' => c' = c
  | c, d :: ds, c' => c.allowed d = true ∧ CfgPath d ds c'

/-- the configurations carried by the configuration entries with index in `(lo, hi]`, in order -/
def Log.cfgsIn (l : Log) (lo hi : Nat) : List Conf := ((l.take hi).drop lo).filterMap (·.cfg)

theorem CfgPath.refl (c : Conf) : CfgPath c [] c := rfl

theorem CfgPath.snoc {c c' d : Conf} {cs : List Conf} (h : CfgPath c cs c')
    (hd : c'.allowed d = true) : CfgPath c (cs ++ [d]) d := by
  induction cs generalizing c with
  | nil => cases h; exact ⟨hd, rfl⟩
  | cons x xs ih => exact ⟨h.1, ih h.2⟩

theorem CfgPath.trans {c c' c'' : Conf} {cs ds : List Conf} (h : CfgPath c cs c')
    (h' : CfgPath c' ds c'') : CfgPath c (cs ++ ds) c'' := by
  induction cs generalizing c with
  | nil => cases h; exact h'
  | cons x xs ih => exact ⟨h.1, ih h.2⟩

theorem cfgsIn_self (l : Log) (k : Nat) : l.cfgsIn k k = [] := by
  unfold Log.cfgsIn
  rw [List.drop_of_length_le (by simp; omega)]
  rfl

theorem cfgsIn_succ (l : Log) {k m : Nat} (hk : k ≤ m) (hm : m < l.length) :
    l.cfgsIn k (m + 1) = l.cfgsIn k m ++ (match (l[m]).cfg with | some c => [c] | none => []) := by
  unfold Log.cfgsIn
  rw [Log.take_succ_eq hm, List.drop_append_of_le_length (by simp; omega), List.filterMap_append]
  congr 1
  cases hc : (l[m]).cfg <;> simp [hc]

/-- the configurations at `k ≤ k'` of a log whose configuration entries are all allowed
transitions are linked by the path through exactly the configuration entries in `(k, k']` -/
theorem cfgPath_of_chain {c0 : Conf} {l : Log} (hch : CfgChain c0 l) {k k' : Nat} (hk : k ≤ k')
    (hk' : k' ≤ l.length) : CfgPath (l.cfgAt c0 k) (l.cfgsIn k k') (l.cfgAt c0 k') := by
  induction k' with
  | zero => have : k = 0 := by omega
            subst this; rw [cfgsIn_self]; rfl
  | succ m ih =>
    by_cases hm : k = m + 1
    · subst hm; rw [cfgsIn_self]; rfl
    · have hlt : m < l.length := by omega
      have ih' := ih (by omega) (by omega)
      rw [cfgsIn_succ l (by omega) hlt, cfgAt_succ c0 l hlt]
      unfold Ent.upd
      cases hc : (l[m]).cfg with
      | none => simpa using ih'
      | some c => exact ih'.snoc (hch m hlt c hc)

end RaftVerif.SpecR
