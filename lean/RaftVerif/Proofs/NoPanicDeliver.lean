import RaftVerif.Proofs.NoPanicTerm
import RaftVerif.Proofs.NoPanicVote
import RaftVerif.Proofs.NoPanicSpec
import RaftVerif.Proofs.NoPanicVoteResp
import RaftVerif.Proofs.NoPanicApp
import RaftVerif.Proofs.NoPanicHb
/-!
# Proofs/NoPanicDeliver — delivered messages of any term: the per-kind same-term lemmas lifted by `noErr_by_term`
-/
set_option linter.unusedSimpArgs false
namespace RaftVerif.NoPanicP
open Raft C14 Sim Refine Simulation

/-- **MsgVote** (any term) never throws -/
theorem noErr_deliver_vote {val : Val} {voters : List Id} {n : Nat} {s : Spec.State} {r : Raft} {m : Message}
    {fuel : Nat} (hinv : RaftInv val voters n r (s.nodes n) s.msgs) (hreach : Spec.Reachable (cfgOf voters) s)
    (ht : m.typ = .vote) (hnet : NetOK val s.msgs m) (hd : r.draws ≠ []) :
    NoErr (Raft.step (fuel + 1) m) r := by
  have hc : Deliverable m.typ := Or.inl ht
  have h0 := netOK_term_ne hc hnet
  exact noErr_by_term hinv hreach hc h0 hd
    (fun s1 r1 _ _ _ hinv1 ht1 _ _ _ => noErr_step_vote_same hinv1 fuel m ht ht1.symm h0)

/-- **MsgVoteResp** (any non-zero term) never throws -/
theorem noErr_deliver_voteResp {val : Val} {voters : List Id} {n : Nat} {s : Spec.State} {r : Raft} {m : Message}
    {fuel : Nat} (hinv : RaftInv val voters n r (s.nodes n) s.msgs) (hreach : Spec.Reachable (cfgOf voters) s)
    (ht : m.typ = .voteResp) (h0 : m.term ≠ 0) (hd : r.draws ≠ []) :
    NoErr (Raft.step (fuel + 1) m) r :=
  noErr_by_term hinv hreach (Or.inr (Or.inl ht)) h0 hd
    (fun _ r1 _ _ _ hinv1 ht1 hd1 _ _ => noErr_step_voteResp_same hinv1 fuel m ht ht1.symm h0
      (fun hc => hd1 (by rw [hc]; exact fun h => by cases h)))

/-- **MsgApp** (any term) never throws: the entries of an append justified by the Spec soup agree with the
receiver's log up to its commit index (`Spec.app_keeps_commit`) -/
theorem noErr_deliver_app {val : Val} {voters : List Id} {n : Nat} {s : Spec.State} {r : Raft} {m : Message}
    {fuel : Nat} (hinv : RaftInv val voters n r (s.nodes n) s.msgs) (hreach : Spec.Reachable (cfgOf voters) s)
    (hcfg : (cfgOf voters).OK) (ht : m.typ = .app) (hnet : NetOK val s.msgs m) (hfrom : m.from ≠ n)
    (hd : r.draws ≠ []) : NoErr (Raft.step (fuel + 1) m) r := by
  have hc : Deliverable m.typ := Or.inr (Or.inr (Or.inl ht))
  have h0 := netOK_term_ne hc hnet
  have hnet' := hnet
  unfold NetOK at hnet'
  simp only [ht] at hnet'
  obtain ⟨_, hsoup, hcont, _⟩ := hnet'
  refine noErr_by_term hinv hreach hc h0 hd (fun s1 r1 hreach1 hmsgs _ hinv1 ht1 hd1 _ _ => ?_)
  have hsoup1 : Spec.Msg.app m.term m.index m.logTerm (m.entries.map (absEnt val)) m.commit ∈ s1.msgs := by
    rw [hmsgs]; exact hsoup
  obtain ⟨hpre, _, hcp, hcl⟩ := Spec.app_keeps_commit hcfg hreach1 hsoup1 (hinv1.abs.term.trans ht1)
  rw [hinv1.abs.log, hinv1.abs.commit] at hcp hcl
  exact noErr_step_app_same hinv1 fuel m ht ht1.symm h0 hfrom hcont
    (appAgrees_of_spec _ hpre hcp hcl hinv1.wf hinv1.unc hcont)
    (fun hc => hd1 (by rcases hc with hc | hc <;> (rw [hc]; exact fun h => by cases h)))

/-- **MsgHeartbeat** (any term) never throws: the commit index of a heartbeat justified by the Spec soup lies within
the receiver's log (`Spec.hb_within_log`) -/
theorem noErr_deliver_hb {val : Val} {voters : List Id} {n : Nat} {s : Spec.State} {r : Raft} {m : Message}
    {fuel : Nat} (hinv : RaftInv val voters n r (s.nodes n) s.msgs) (hreach : Spec.Reachable (cfgOf voters) s)
    (hcfg : (cfgOf voters).OK) (ht : m.typ = .heartbeat) (hnet : NetOK val s.msgs m) (hto : m.to = n)
    (hfrom : m.from ≠ n) (hd : r.draws ≠ []) : NoErr (Raft.step (fuel + 1) m) r := by
  have hc : Deliverable m.typ := Or.inr (Or.inr (Or.inr (Or.inr (Or.inl ht))))
  have h0 := netOK_term_ne hc hnet
  have hnet' := hnet
  unfold NetOK at hnet'
  simp only [ht] at hnet'
  obtain ⟨_, _, hsoup⟩ := hnet'
  refine noErr_by_term hinv hreach hc h0 hd (fun s1 r1 hreach1 hmsgs _ hinv1 ht1 hd1 _ _ => ?_)
  have hsoup1 : Spec.Msg.hb m.term n m.commit ∈ s1.msgs := by rw [hmsgs, ← hto]; exact hsoup
  have hle := Spec.hb_within_log hcfg hreach1 hsoup1 (by rw [hinv1.abs.term, ht1]; exact Nat.le_refl _)
  exact noErr_step_hb_same hinv1 fuel m ht ht1.symm h0 hfrom (hb_commit_le hinv1 hle)
    (fun hc => hd1 (by rcases hc with hc | hc <;> (rw [hc]; exact fun h => by cases h)))

end RaftVerif.NoPanicP
