import RaftVerif.Proofs.FlowSend
/-!
# Proofs/FlowStep — `stepLeader` on `MsgProp`: reduction to `appendEntry` + `bcastAppend`.
Core Lean only.
-/
namespace RaftVerif
namespace Raft

theorem decodeCC_normal_run (e : Entry) (r : Raft) (h : e.getType = .normal) :
    (decodeCC e).run r = .ok (none, r) := by
  unfold decodeCC
  simp only [h]
  rfl

/-- the proposal-filtering loop of `stepLeader` is the identity on entries of type normal -/
theorem propLoop_normal (es : List Entry) (hnorm : ∀ e ∈ es, e.getType = .normal)
    (body : Entry × Nat → List Entry → M (ForInStep (List Entry)))
    (hbody : ∀ (x : Entry × Nat) s r, x.fst.getType = .normal →
      (body x s).run r = .ok (ForInStep.yield (s ++ [x.fst]), r))
    (k : Nat) (acc : List Entry) (r : Raft) :
    (forIn (es.zipIdx k) acc body).run r = .ok (acc ++ es, r) := by
  induction es generalizing k acc with
  | nil => simp [List.zipIdx]
  | cons e t ih =>
    rw [List.zipIdx_cons, List.forIn_cons]
    simp only [StateT.run_bind, hbody (e, k) acc r (hnorm e (by simp)), P_ok_bind]
    rw [ih (fun e' he' => hnorm e' (by simp [he']))]
    simp

/-- a proposal of normal entries at a leader (which is a member and not transferring leadership)
reduces to `appendEntry` followed by `bcastAppend` -/
theorem stepLeader_prop_run (fuel : Nat) (m : Message) (r : Raft) (hm : m.typ = .prop)
    (hne : m.entries ≠ []) (hself : (r.trk.getProgress r.cfg.id).isNone = false)
    (hlt : r.leadTransferee = 0) (hnorm : ∀ e ∈ m.entries, e.getType = .normal) :
    (stepLeader fuel m).run r =
      (do
        let ok ← appendEntry m.entries
        if (!ok) = true then pure (some StepErr.proposalDropped)
        else do
          bcastAppend
          pure none : M (Option StepErr)).run r := by
  unfold stepLeader
  simp only [hm]
  have hlen : (m.entries.length == 0) = false := by
    cases h : m.entries with
    | nil => exact absurd h hne
    | cons a t => simp
  have hlt' : (r.leadTransferee != 0) = false := by simp [hlt]
  simp only [StateT.run_bind, StateT.run_get, P_pure_eq, P_ok_bind, hlen, Bool.false_eq_true, ↓reduceIte, hself,
    hlt']
  rw [propLoop_normal m.entries hnorm _ ?_ 0 [] r]
  · simp only [P_ok_bind, List.nil_append]
  · intro x s r' hx
    simp only [StateT.run_bind, decodeCC_normal_run _ _ hx, P_ok_bind]
    rfl


end Raft
end RaftVerif
