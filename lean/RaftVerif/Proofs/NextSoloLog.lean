import RaftVerif.Proofs.NextSolo
import RaftVerif.Proofs.LiveStorage
import RaftVerif.Proofs.FlowStep
/-!
# Proofs/NextSoloLog — the sole voter as leader: its own acknowledgement, and its log explicitly (C15)
-/
namespace RaftVerif.Next
open Raft Live
set_option linter.unusedSimpArgs false

/-- the sole voter as an established leader of term `T` -/
structure SoloLeaderR (id T : Nat) (r : Raft) : Prop where
  solo : Solo id r
  leader : r.state = .leader
  term : r.term = T
  tnz : T ≠ 0
  noTransfer : r.leadTransferee = 0
  pri : r.pendingReadIndexMessages = []
  noAuto : r.trk.cfg.autoLeave = false

/-- the quorum index of a sole voter is its own `Match` -/
theorem solo_committed {id : Id} (t : Tracker) (pr : Progress) (hv : t.cfg.voters = [id])
    (ho : t.cfg.outgoing = none) (hp : t.progress = [(id, pr)]) : t.committed = some pr.match_ := by
  unfold Tracker.committed Tracker.outgoingL
  rw [hv, ho, hp]
  simp [Quorum.jointCommitted, Quorum.majorityCommitted, Quorum.minIdx, Quorum.sortedAcks, Quorum.sortAsc,
    Quorum.insertAsc, Quorum.ackOr0, Quorum.quorumPos, mapGet, Quorum.lookup]

theorem log_maybeCommit_run (l : RaftLog) (T i : Nat) (hT : T ≠ 0) (hc : l.committed < i) (hli : i ≤ l.lastIndex)
    (hterm : l.term i = .ok T) :
    l.maybeCommit { term := T, index := i } = .ok ({ l with committed := i }, true) := by
  unfold RaftLog.maybeCommit RaftLog.matchTerm RaftLog.commitTo
  simp only [hterm, beq_self_eq_true, Bool.and_true, bne_iff_ne, ne_eq, hT, not_false_eq_true, decide_true,
    gt_iff_lt, hc, Bool.true_and, ↓reduceIte]
  rw [if_neg (by omega)]
  rfl

/-- `maybeCommit` of a sole voter whose own `Match` is `i`, a new index inside the log holding an entry of its term -/
theorem maybeCommit_solo_run {id : Id} (s : Raft) (i : Nat) (p : Progress) (hv : s.trk.cfg.voters = [id])
    (ho : s.trk.cfg.outgoing = none) (hp : s.trk.progress = [(id, p)]) (hm : p.match_ = i) (hT : s.term ≠ 0)
    (hc : s.log.committed < i) (hli : i ≤ s.log.lastIndex) (hterm : s.log.term i = .ok s.term) :
    maybeCommit.run s = .ok (true, { s with log := { s.log with committed := i } }) := by
  unfold maybeCommit
  simp only [StateT.run_bind, StateT.run_get, P_pure_eq, P_ok_bind, solo_committed s.trk p hv ho hp, hm,
    log_maybeCommit_run s.log s.term i hT hc hli hterm, liftP_run_ok, setLog_run, StateT.run_pure]

theorem releasePending_none_run (s : Raft) (h : s.pendingReadIndexMessages = []) :
    releasePendingReadIndexMessages.run s = .ok ((), s) := by
  unfold releasePendingReadIndexMessages
  simp [StateT.run_bind, StateT.run_get, h]

/-- the progress of the leader itself after it acknowledged index `i` -/
def ackedProgress (pr : Progress) (i : Nat) : Progress :=
  let p := (({ pr with recentActive := true } : Progress).maybeUpdate i).1
  { p with inflights := p.inflights.freeLE i }

/-- the leader's state after it stepped its own acknowledgement of index `i` -/
def ackedSt (r : Raft) (id i : Nat) (p : Progress) : Raft :=
  { r with trk := r.trk.setProgress id p, log := { r.log with committed := i } }

/-- **a sole leader steps its own acknowledgement of index `i`**: `Match := i`, and since it is the whole
quorum and the entry is of its own term, `committed := i`; nothing is sent -/
theorem step_selfAck_run {id T : Nat} (fuel : Nat) (r : Raft) (i : Nat) (pr : Progress) (h : SoloLeaderR id T r)
    (hp : r.trk.progress = [(id, pr)]) (hm : pr.match_ < i) (hst : pr.state = .replicate)
    (hci : r.log.committed < i) (hli : i ≤ r.log.lastIndex) (hterm : r.log.term i = .ok T) :
    (step (fuel + 1) (selfAck id T i)).run r =
      .ok (none, ackedSt r id i (ackedProgress pr i)) := by
  have hsolo := h.solo
  obtain ⟨pr0, hg0, hp0, _⟩ := hsolo.getProgress
  have hpr : pr0 = pr := by rw [hp] at hp0; simpa using hp0.symm
  subst hpr
  rw [step_leader_dispatch fuel _ r h.leader (Or.inr (by simp [selfAck, h.term])) (Or.inr (Or.inr (Or.inl rfl)))]
  unfold ackedProgress
  have hmu : (({ pr0 with recentActive := true } : Progress).maybeUpdate i).2 = true := by
    unfold Progress.maybeUpdate
    rw [if_neg (by simp only; omega)]
  have hmust : (({ pr0 with recentActive := true } : Progress).maybeUpdate i).1.state = .replicate := by
    unfold Progress.maybeUpdate
    rw [if_neg (by simp only; omega)]
    exact hst
  have hmm : (({ pr0 with recentActive := true } : Progress).maybeUpdate i).1.match_ = i := by
    unfold Progress.maybeUpdate
    rw [if_neg (by simp only; omega)]
  generalize hp2 : (({ pr0 with recentActive := true } : Progress).maybeUpdate i).1 = p2 at hmust hmm ⊢
  have hs1 : (p2.state == ProgressState.probe) = false := by rw [hmust]; decide
  have hs2 : (p2.state == ProgressState.snapshot) = false := by rw [hmust]; decide
  have hs3 : (p2.state == ProgressState.replicate) = true := by rw [hmust]; decide
  unfold stepLeader
  simp only [selfAck, StateT.run_bind, StateT.run_get, P_pure_eq, P_ok_bind, hg0, StateT.run_pure, setPr_run,
    Bool.false_eq_true, ↓reduceIte, hmu, hp2, Bool.true_or, hs1, hs2, hs3, Bool.false_and,
    Live.setProgress_setProgress]
  -- maybeCommit
  have hprog : (r.trk.setProgress id { p2 with inflights := p2.inflights.freeLE i }).progress =
      [(id, { p2 with inflights := p2.inflights.freeLE i })] := by
    simp [Tracker.setProgress, hp0, mapInsert]
  have hil : p2.isLearner = false := by
    rw [← hp2]; unfold Progress.maybeUpdate; rw [if_neg (by simp only; omega)]; assumption
  have hmc := maybeCommit_solo_run (id := id)
    { r with trk := r.trk.setProgress id { p2 with inflights := p2.inflights.freeLE i } } i
    { p2 with inflights := p2.inflights.freeLE i } hsolo.voters hsolo.outgoing hprog hmm
    (by rw [h.term]; exact h.tnz) hci hli (by rw [h.term]; exact hterm)
  rw [hmc]
  simp only [P_ok_bind, ↓reduceIte, StateT.run_bind]
  obtain ⟨S, hS⟩ : ∃ S : Raft, S = ackedSt r id i { p2 with inflights := p2.inflights.freeLE i } := ⟨_, rfl⟩
  unfold ackedSt at hS ⊢
  rw [← hS]
  have hSsolo : Solo id S := by
    rw [hS]; exact ⟨hsolo.cid, hsolo.idNZ, hsolo.voters, hsolo.outgoing, ⟨_, hprog, hil⟩⟩
  have hSg : S.trk.getProgress id = some { p2 with inflights := p2.inflights.freeLE i } := by
    obtain ⟨q, hq1, hq2, _⟩ := hSsolo.getProgress
    rw [hq1]
    have : S.trk.progress = [(id, { p2 with inflights := p2.inflights.freeLE i })] := by rw [hS]; exact hprog
    rw [this] at hq2
    simpa using hq2.symm
  rw [releasePending_none_run S (by rw [hS]; exact h.pri)]
  simp only [P_ok_bind]
  rw [bcastAppend_solo_run S hSsolo]
  have hne : (r.cfg.id != id) = false := by simp [hsolo.cid]
  have hlt : (id == S.leadTransferee) = false := by
    have : S.leadTransferee = 0 := by rw [hS]; exact h.noTransfer
    rw [this]; simpa using hsolo.idNZ
  simp only [P_ok_bind, hne, Bool.false_eq_true, ↓reduceIte, StateT.run_bind, StateT.run_get, P_pure_eq,
    getPr_run_some _ _ _ hSg, hlt, Bool.false_and, StateT.run_pure]

/-! ### the log of a caught-up sole voter, explicitly -/

/-- a log without pending snapshot: storage `ms`, unstable entries `ents` from `off` (in progress up to
`oip`), cursors `c` (committed), `a` (applying), `ap` (applied) -/
def soloLog (ms : MemoryStorage) (sip : Bool) (M z : Nat) (paused : Bool) (ents : List Entry)
    (off oip c a ap : Nat) : RaftLog :=
  { storage := ms,
    unstable := { snapshot := none, entries := ents, offset := off, snapshotInProgress := sip, offsetInProgress := oip },
    committed := c, applying := a, applied := ap, maxApplyingEntsSize := M, applyingEntsSize := z,
    applyingEntsPaused := paused }

/-- a well-formed log with nothing unstable and everything committed and applied is a `soloLog` -/
theorem soloLog_of_caughtUp (l : RaftLog) (hwf : l.WF) (hsn : l.unstable.snapshot = none)
    (hue : l.unstable.entries = []) (hc : l.committed = l.lastIndex) (ha : l.committed ≤ l.applied)
    (hp : l.applyingEntsPaused = false) :
    l = soloLog l.storage l.unstable.snapshotInProgress l.maxApplyingEntsSize l.applyingEntsSize false []
      (l.storage.lastIndex + 1) (l.storage.lastIndex + 1) l.storage.lastIndex l.storage.lastIndex
      l.storage.lastIndex ∧
    l.lastIndex = l.storage.lastIndex ∧ l.storage.ents ≠ [] ∧ l.applyingEntsSize < l.maxApplyingEntsSize := by
  have hli : l.lastIndex = l.storage.lastIndex := by
    simp [RaftLog.lastIndex, Unstable.maybeLastIndex, hue, hsn]
  have hso := hwf.snapOK
  unfold RaftLog.SnapOK at hso
  rw [hsn] at hso
  simp only at hso
  have hoff := hso.2.2.1 hue
  have h1 := hwf.unstable.inProgLo
  have h2 := hwf.unstable.inProgHi
  rw [hue] at h2
  simp only [List.length_nil, Nat.add_zero] at h2
  have h3 := hwf.appliedLeApplying
  have h4 := hwf.applyingLeCommitted
  refine ⟨?_, hli, hwf.storage.1, hwf.budget hp⟩
  obtain ⟨st, ⟨snap, ents, off, sip, oip⟩, c, a, ap, M, z, pa⟩ := l
  simp only at hsn hue hc ha hp hli hoff h1 h2 h3 h4
  subst hsn hue hp
  simp only [soloLog]
  have e1 : oip = off := by omega
  have e2 : c = st.lastIndex := by omega
  have e3 : a = st.lastIndex := by omega
  have e4 : ap = st.lastIndex := by omega
  subst e1 e2 e3 e4 hoff
  rfl

theorem MemoryStorage.len_of_last (ms : MemoryStorage) (h : ms.ents ≠ []) :
    ms.ents.length = ms.lastIndex - ms.offset + 1 ∧ ms.offset ≤ ms.lastIndex := by
  have : 0 < ms.ents.length := List.length_pos_iff.mpr h
  unfold MemoryStorage.lastIndex
  omega

/-- persisting one entry right after the last stored one -/
theorem storage_append_one (ms : MemoryStorage) (e : Entry) (h : ms.ents ≠ []) (hi : e.index = ms.lastIndex + 1) :
    ms.append [e] = .ok { ms with ents := ms.ents ++ [e] } ∧
    ({ ms with ents := ms.ents ++ [e] } : MemoryStorage).lastIndex = ms.lastIndex + 1 ∧
    ({ ms with ents := ms.ents ++ [e] } : MemoryStorage).offset = ms.offset := by
  obtain ⟨hlen, hol⟩ := MemoryStorage.len_of_last ms h
  have hoff : ({ ms with ents := ms.ents ++ [e] } : MemoryStorage).offset = ms.offset := by
    unfold MemoryStorage.offset
    cases hm : ms.ents with
    | nil => exact absurd hm h
    | cons a t => rfl
  refine ⟨?_, ?_, hoff⟩
  · unfold MemoryStorage.append
    simp only [List.length_cons, List.length_nil, MemoryStorage.firstIndex, hi]
    rw [if_neg (by omega), if_neg (by omega)]
    simp only
    rw [if_neg (by rw [hi, hlen]; omega), if_pos (by rw [hi, hlen]; simp; omega)]
    rfl
  · unfold MemoryStorage.lastIndex at *
    rw [hoff]
    simp only [List.length_append, List.length_cons, List.length_nil]
    omega

end RaftVerif.Next
namespace RaftVerif.Next
open Raft Live
set_option linter.unusedSimpArgs false

variable (ms : MemoryStorage) (sip : Bool) (M z : Nat) (p : Bool) (off oip c a ap : Nat) (e : Entry)

theorem soloLog_acceptUnstable_nil :
    (soloLog ms sip M z p [] off oip c a ap).acceptUnstable = soloLog ms sip M z p [] off oip c a ap := by
  simp [soloLog, RaftLog.acceptUnstable, Unstable.acceptInProgress]

theorem soloLog_acceptUnstable_one :
    (soloLog ms sip M z p [e] off oip c a ap).acceptUnstable = soloLog ms sip M z p [e] off (e.index + 1) c a ap := by
  simp [soloLog, RaftLog.acceptUnstable, Unstable.acceptInProgress]

theorem soloLog_lastIndex_nil : (soloLog ms sip M z p [] off oip c a ap).lastIndex = ms.lastIndex := by
  simp [soloLog, RaftLog.lastIndex, Unstable.maybeLastIndex]

theorem soloLog_lastIndex_one : (soloLog ms sip M z p [e] off oip c a ap).lastIndex = off := by
  simp [soloLog, RaftLog.lastIndex, Unstable.maybeLastIndex]

theorem soloLog_term_one : (soloLog ms sip M z p [e] off oip c a ap).term off = .ok e.term := by
  simp [soloLog, RaftLog.term, Unstable.maybeTerm, Unstable.maybeLastIndex]

theorem soloLog_lastEntryID_one :
    (soloLog ms sip M z p [e] off oip c a ap).lastEntryID = .ok { term := e.term, index := off } := by
  unfold RaftLog.lastEntryID
  rw [soloLog_lastIndex_one]
  simp only [soloLog_term_one]
  rfl

theorem soloLog_hasUnstable_one : (soloLog ms sip M z p [e] off oip c a ap).hasNextOrInProgressUnstableEnts = true := by
  simp [soloLog, RaftLog.hasNextOrInProgressUnstableEnts]

theorem soloLog_hasUnstable_nil : (soloLog ms sip M z p [] off oip c a ap).hasNextOrInProgressUnstableEnts = false := by
  simp [soloLog, RaftLog.hasNextOrInProgressUnstableEnts]

theorem soloLog_nextUnstable_one : (soloLog ms sip M z p [e] off off c a ap).nextUnstableEnts = [e] := by
  simp [soloLog, RaftLog.nextUnstableEnts, Unstable.nextEntries]

/-- appending one entry right after the (empty) unstable part -/
theorem soloLog_append_one (hi : e.index = off) (hc : c < e.index) :
    (soloLog ms sip M z p [] off oip c a ap).append [e] = .ok (soloLog ms sip M z p [e] off oip c a ap, off) := by
  have hu : usub e.index 1 = e.index - 1 := by unfold usub; rw [if_pos (by omega)]
  unfold RaftLog.append
  simp only [hu]
  rw [if_neg (by simp only [soloLog]; omega)]
  simp [soloLog, Unstable.truncateAndAppend, hi, bind, Except.bind, pure, Except.pure, RaftLog.lastIndex,
    Unstable.maybeLastIndex]

/-- the storage thread acknowledges the single unstable entry -/
theorem soloLog_stableTo_one :
    (soloLog ms sip M z p [e] off oip c a ap).stableTo { term := e.term, index := off } =
      soloLog ms sip M z p [] (off + 1) (max oip (off + 1)) c a ap := by
  simp [soloLog, RaftLog.stableTo, Unstable.stableTo, Unstable.maybeTerm, Unstable.maybeLastIndex]

theorem soloLog_committed : (soloLog ms sip M z p [e] off oip c a ap).committed = c := rfl

end RaftVerif.Next

namespace RaftVerif.Next
open Raft Live
set_option linter.unusedSimpArgs false

/-- the application persists the entries of a `Ready` (sync mode): `MemoryStorage.Append` -/
def persist (rn : RawNode) (ents : List Entry) : Except String RawNode := do
  let ms ← rn.raft.log.storage.append ents
  pure { rn with raft := { rn.raft with log := { rn.raft.log with storage := ms } } }

/-- one iteration of the application loop in sync mode: `Ready`, persist its entries, `Advance` -/
def syncRound (rn : RawNode) (draws : List Nat) : Except String (Ready × RawNode) := do
  let (rd, rn1) ← rn.ready
  let rn2 ← persist rn1 rd.entries
  let rn3 ← rn2.advance draws
  pure (rd, rn3)

/-- the sole voter as leader of term `T`: log `l`, pending self-acknowledgements `maa`, own `Match = m`,
uncommitted payload size `us` -/
structure SoloLead (id T : Nat) (rn : RawNode) (l : RaftLog) (maa : List Message) (m us : Nat) : Prop where
  sync : rn.async = false
  advanced : rn.stepsOnAdvance = []
  lr : SoloLeaderR id T rn.raft
  msgs : rn.raft.msgs = []
  maa : rn.raft.msgsAfterAppend = maa
  draws : rn.raft.draws = []
  log : rn.raft.log = l
  selfMatch : ∃ pr, rn.raft.trk.progress = [(id, pr)] ∧ pr.match_ = m ∧ pr.state = .replicate
  usize : rn.raft.uncommittedSize = us

theorem SoloLeaderR.frame {id T : Nat} {r r' : Raft} (h : SoloLeaderR id T r) (h1 : r'.cfg = r.cfg)
    (h2 : r'.trk.cfg = r.trk.cfg) (h3 : ∃ pr, r'.trk.progress = [(id, pr)] ∧ pr.isLearner = false)
    (h4 : r'.state = r.state) (h5 : r'.term = r.term) (h6 : r'.leadTransferee = r.leadTransferee)
    (h7 : r'.pendingReadIndexMessages = r.pendingReadIndexMessages) : SoloLeaderR id T r' :=
  ⟨⟨by rw [h1]; exact h.solo.cid, h.solo.idNZ, by rw [h2]; exact h.solo.voters, by rw [h2]; exact h.solo.outgoing, h3⟩,
    h4.trans h.leader, h5.trans h.term, h.tnz, h6.trans h.noTransfer, h7.trans h.pri, by rw [h2]; exact h.noAuto⟩

/-- **a round that persists and commits one entry** (nothing to apply): the leader's own
acknowledgement of its single unstable entry `n` (index `o = storage.lastIndex + 1`, term `T`) is replayed
by `Advance`, which commits `o` and — the entry being persisted — empties the unstable log -/
theorem solo_round_commit {id T : Nat} (rn : RawNode) (ms : MemoryStorage) (sip : Bool) (M z : Nat) (n : Entry)
    (o c a ap m us : Nat)
    (h : SoloLead id T rn (soloLog ms sip M z false [n] o o c a ap) [selfAck id T o] m us)
    (hms : ms.ents ≠ []) (ho : o = ms.lastIndex + 1) (hni : n.index = o) (hnt : n.term = T)
    (hm : m < o) (hc : c < o) (hca : c ≤ a) :
    ∃ rd rn', syncRound rn [] = .ok (rd, rn') ∧ rd.entries = [n] ∧ rd.committedEntries = [] ∧
      SoloLead id T rn' (soloLog { ms with ents := ms.ents ++ [n] } sip M z false [] (o + 1) (o + 1) o a ap) [] o us := by
  obtain ⟨pr, hp, hpm, hps⟩ := h.selfMatch
  have hid := h.lr.solo.cid
  have hpl : pr.isLearner = false := by
    obtain ⟨q, _, hq2, hq3⟩ := h.lr.solo.getProgress
    rw [hp] at hq2
    have : q = pr := by simpa using hq2.symm
    rw [← this]; exact hq3
  -- Ready
  obtain ⟨rd, rn1, e1, hre, hrc, h1a, h1s, h1r⟩ := ready_sync rn h.sync h.advanced (by rw [h.log]; rfl) []
    (by rw [h.log]; exact nextCommittedEnts_nil _ true hca) ⟨T, o⟩
    (fun _ => by rw [h.log, soloLog_lastEntryID_one, hnt])
    (soloLog ms sip M z false [n] o (o + 1) c a ap)
    (by simp only [List.getLast?_nil]; rw [h.log, soloLog_acceptUnstable_one, hni])
  have hre' : rd.entries = [n] := by rw [hre, h.log, soloLog_nextUnstable_one]
  have hsoa : rn1.stepsOnAdvance = [selfAck id T o, storageResp rn.raft ⟨T, o⟩] := by
    rw [h1s]
    simp [soaOf, h.maa, h.log, soloLog_hasUnstable_one, selfAck, hid]
  -- persist
  obtain ⟨hap, hl1, ho1⟩ := storage_append_one ms n hms (by rw [hni, ho])
  have e2 : persist rn1 rd.entries = .ok
      { rn1 with raft := { rn1.raft with log := soloLog { ms with ents := ms.ents ++ [n] } sip M z false [n] o (o + 1) c a ap } } := by
    unfold persist
    rw [hre', h1r]
    simp only [soloLog, hap, bind, Except.bind, pure, Except.pure]
  -- Advance: the self-acknowledgement, then the storage acknowledgement
  obtain ⟨L2, hL2⟩ : ∃ L2, L2 = soloLog { ms with ents := ms.ents ++ [n] } sip M z false [n] o (o + 1) c a ap := ⟨_, rfl⟩
  obtain ⟨R0, hR0⟩ : ∃ R0 : Raft, R0 =
      { rn.raft with readStates := [], msgs := [], msgsAfterAppend := [], log := L2, draws := [] } := ⟨_, rfl⟩
  have hR0lr : SoloLeaderR id T R0 := by
    rw [hR0]
    exact h.lr.frame rfl rfl ⟨pr, hp, hpl⟩ rfl rfl rfl rfl
  have hstep1 := step_selfAck_run 2 R0 o pr hR0lr (by rw [hR0]; exact hp) (by rw [hpm]; exact hm) hps
    (by rw [hR0, hL2]; exact hc) (by rw [hR0, hL2]; simp only; rw [soloLog_lastIndex_one]; exact Nat.le_refl _)
    (by rw [hR0, hL2]; simp only; rw [soloLog_term_one, hnt])
  have hopos : o ≠ 0 := by omega
  have hlog2 : (ackedSt R0 id o (ackedProgress pr o)).log.stableTo { term := T, index := o } =
      soloLog { ms with ents := ms.ents ++ [n] } sip M z false [] (o + 1) (o + 1) o a ap := by
    have : (ackedSt R0 id o (ackedProgress pr o)).log =
        soloLog { ms with ents := ms.ents ++ [n] } sip M z false [n] o (o + 1) o a ap := by
      rw [hR0, hL2]; rfl
    rw [this, ← hnt, soloLog_stableTo_one, Nat.max_self]
  have hstep2 : (step (2 + 1) (storageResp rn.raft ⟨T, o⟩)).run (ackedSt R0 id o (ackedProgress pr o)) =
      .ok (none, { ackedSt R0 id o (ackedProgress pr o) with
        log := soloLog { ms with ents := ms.ents ++ [n] } sip M z false [] (o + 1) (o + 1) o a ap }) := by
    rw [step_storageAppendResp_run 2 _ _ rfl (Or.inr (by rw [hR0]; rfl)) rfl]
    have hi : (storageResp rn.raft ⟨T, o⟩).index ≠ 0 := hopos
    rw [if_pos hi]
    have e : ({ term := (storageResp rn.raft ⟨T, o⟩).logTerm, index := (storageResp rn.raft ⟨T, o⟩).index } : EntryID) =
        { term := T, index := o } := rfl
    rw [e, hlog2]
  -- the node after persist
  obtain ⟨RF, hRF⟩ : ∃ RF : Raft, RF = { ackedSt R0 id o (ackedProgress pr o) with
      log := soloLog { ms with ents := ms.ents ++ [n] } sip M z false [] (o + 1) (o + 1) o a ap } := ⟨_, rfl⟩
  rw [← hRF] at hstep2
  have e3 := advance_run
    { rn1 with raft := { rn1.raft with log := L2 } } [] h1a RF
    (by
      have hr : ({ ({ rn1 with raft := { rn1.raft with log := L2 } } : RawNode).raft with draws := [] } : Raft) = R0 := by
        rw [hR0, h1r]
      simp only [hsoa, runSteps]
      rw [hr, show stepFuel = 2 + 1 from rfl, hstep1]
      simp only [bind, Except.bind]
      rw [hstep2])
    (by rw [hRF, hR0]; rfl)
  refine ⟨rd, { rn1 with raft := RF, stepsOnAdvance := [] }, ?_, hre', hrc, ?_⟩
  · unfold syncRound
    rw [e1]
    simp only [bind, Except.bind]
    rw [e2, ← hL2]
    simp only
    rw [e3]
    rfl
  · subst hRF
    refine ⟨h1a, rfl, ?_, by rw [hR0]; rfl, by rw [hR0]; rfl, by rw [hR0]; rfl, rfl, ?_, by rw [hR0]; exact h.usize⟩
    · exact hR0lr.frame (by rw [hR0]; rfl) (by rw [hR0]; rfl)
        ⟨ackedProgress pr o, by rw [hR0]; simp [ackedSt, Tracker.setProgress, hp, mapInsert],
          by simp [ackedProgress, Progress.maybeUpdate]; split <;> exact hpl⟩ (by rw [hR0]; rfl) (by rw [hR0]; rfl)
        (by rw [hR0]; rfl) (by rw [hR0]; rfl)
    · refine ⟨ackedProgress pr o, by rw [hR0]; simp [ackedSt, Tracker.setProgress, hp, mapInsert], ?_, ?_⟩
      · simp only [ackedProgress, Progress.maybeUpdate]
        rw [if_neg (by show ¬ o ≤ pr.match_; omega)]
      · simp only [ackedProgress, Progress.maybeUpdate]
        rw [if_neg (by show ¬ o ≤ pr.match_; omega)]
        exact hps
end RaftVerif.Next

namespace RaftVerif.Next
open Raft Live
set_option linter.unusedSimpArgs false

/-- extra hypotheses for the commit part: everything committed, applying not paused, no parked read requests,
no auto-leave pending -/
structure SoloCaughtUp (rn : RawNode) : Prop where
  committed : rn.raft.log.committed = rn.raft.log.lastIndex
  notPaused : rn.raft.log.applyingEntsPaused = false
  pri : rn.raft.pendingReadIndexMessages = []
  noAuto : rn.raft.trk.cfg.autoLeave = false

/-- the freshly elected sole leader, with its log made explicit -/
theorem soloLead_of_fresh {id T : Nat} (rn rnL : RawNode) (hs : SoloStart id rn) (hcu : SoloCaughtUp rn)
    (hT : T ≠ 0) (hf : SoloLeaderFresh id T rn.raft.log.lastIndex rn rnL) :
    SoloLead id T rnL
      (soloLog rn.raft.log.storage rn.raft.log.unstable.snapshotInProgress rn.raft.log.maxApplyingEntsSize
        rn.raft.log.applyingEntsSize false [{ term := T, index := rn.raft.log.storage.lastIndex + 1 }]
        (rn.raft.log.storage.lastIndex + 1) (rn.raft.log.storage.lastIndex + 1) rn.raft.log.storage.lastIndex
        rn.raft.log.storage.lastIndex rn.raft.log.storage.lastIndex)
      [selfAck id T (rn.raft.log.storage.lastIndex + 1)] rn.raft.log.storage.lastIndex 0 ∧
    rn.raft.log.storage.ents ≠ [] ∧ rn.raft.log.lastIndex = rn.raft.log.storage.lastIndex ∧
    rn.raft.log.applyingEntsSize < rn.raft.log.maxApplyingEntsSize := by
  obtain ⟨hl, hli, hne, hz⟩ := soloLog_of_caughtUp rn.raft.log hs.wf hs.noSnap hs.noUnstable hcu.committed hs.applied
    hcu.notPaused
  refine ⟨?_, hne, hli, hz⟩
  have hlog := hf.log
  rw [hli] at hlog
  have hlog2 : (soloLog rn.raft.log.storage rn.raft.log.unstable.snapshotInProgress rn.raft.log.maxApplyingEntsSize
        rn.raft.log.applyingEntsSize false [] (rn.raft.log.storage.lastIndex + 1) (rn.raft.log.storage.lastIndex + 1)
        rn.raft.log.storage.lastIndex rn.raft.log.storage.lastIndex rn.raft.log.storage.lastIndex).acceptUnstable.append
      [{ term := T, index := rn.raft.log.storage.lastIndex + 1 }] =
      .ok (rnL.raft.log, rn.raft.log.storage.lastIndex + 1) := by
    rw [← hl]; exact hlog
  rw [soloLog_acceptUnstable_nil,
    soloLog_append_one _ _ _ _ _ _ _ _ _ _ { term := T, index := rn.raft.log.storage.lastIndex + 1 } rfl
      (by simp)] at hlog2
  injection hlog2 with hlog
  injection hlog with hlog _
  obtain ⟨pr, hp1, hp2, hp3, _⟩ := hf.selfMatch
  refine ⟨hf.sync, hf.advanced, ⟨hf.solo, hf.leader, hf.term, hT, hf.noTransfer, hf.pri.trans hcu.pri,
    by rw [hf.trkCfg]; exact hcu.noAuto⟩, hf.msgs, by rw [hf.maa, hli], hf.draws, hlog.symm,
    ⟨pr, hp1, by rw [hp2, hli], hp3⟩, hf.usize⟩
end RaftVerif.Next
namespace RaftVerif.Next
open Raft Live
set_option linter.unusedSimpArgs false

/-- **the committed entries handed out** when exactly the last stored entry `x` is committed but not yet
applying: `[x]`, whatever the size budget (a batch is never empty) -/
theorem soloLog_nextCommitted_one (ms : MemoryStorage) (sip : Bool) (M z : Nat) (ents pre : List Entry) (x : Entry)
    (off oip c a ap : Nat) (hents : ms.ents = pre ++ [x]) (hpre : pre ≠ []) (hc : c = ms.lastIndex)
    (ha : a + 1 = c) (hoff : off = c + 1) (hz : z < M) :
    (soloLog ms sip M z false ents off oip c a ap).nextCommittedEnts true = .ok [x] := by
  have hlen : ms.ents.length = pre.length + 1 := by rw [hents]; simp
  have hpl : 0 < pre.length := List.length_pos_iff.mpr hpre
  have hlast : ms.lastIndex = ms.offset + pre.length := by unfold MemoryStorage.lastIndex; omega
  have hli : c ≤ (soloLog ms sip M z false ents off oip c a ap).lastIndex := by
    cases ents with
    | nil => simp [soloLog, RaftLog.lastIndex, Unstable.maybeLastIndex]; omega
    | cons e0 t => simp [soloLog, RaftLog.lastIndex, Unstable.maybeLastIndex]; omega
  have hfi : (soloLog ms sip M z false ents off oip c a ap).firstIndex = ms.offset + 1 := by
    simp [soloLog, RaftLog.firstIndex, Unstable.maybeFirstIndex, MemoryStorage.firstIndex]
  have hus : usub M z = M - z := by unfold usub; rw [if_pos (by omega)]
  have hdrop : (ms.ents.drop (c - ms.offset)).take (c + 1 - c) = [x] := by
    rw [hents, hc, hlast]
    have : ms.offset + pre.length - ms.offset = pre.length := by omega
    rw [this, List.drop_left]
    simp
  have hsto : ms.entries c (c + 1) (M - z) = .ok (.ok [x]) := by
    unfold MemoryStorage.entries
    rw [if_neg (by omega), if_neg (by omega), if_neg (by rw [hlen]; simp; omega), if_neg (by omega), hdrop]
    rfl
  unfold RaftLog.nextCommittedEnts
  have hmax : (soloLog ms sip M z false ents off oip c a ap).maxAppliableIndex true = c := rfl
  have hsl : (soloLog ms sip M z false ents off oip c a ap).slice (a + 1) (c + 1) (M - z) = .ok (.ok [x]) := by
    unfold RaftLog.slice RaftLog.mustCheckOutOfBounds
    rw [ha, if_neg (by omega), hfi, if_neg (by omega), if_neg (by omega)]
    simp only [bind, Except.bind, pure, Except.pure]
    have hoffs : (soloLog ms sip M z false ents off oip c a ap).unstable.offset = off := rfl
    rw [if_neg (by simp), hoffs, if_neg (by omega)]
    have hcut : min (c + 1) off = c + 1 := by omega
    rw [hcut]
    simp only [soloLog, hsto]
    rw [if_pos (by omega)]
  have hp : (soloLog ms sip M z false ents off oip c a ap).applyingEntsPaused = false := rfl
  have hsn : (soloLog ms sip M z false ents off oip c a ap).hasNextOrInProgressSnapshot = false := rfl
  have happl : (soloLog ms sip M z false ents off oip c a ap).applying = a := rfl
  have hM : (soloLog ms sip M z false ents off oip c a ap).maxApplyingEntsSize = M := rfl
  have hZ : (soloLog ms sip M z false ents off oip c a ap).applyingEntsSize = z := rfl
  simp only [hp, hsn, happl, hmax, hM, hZ, hus, Bool.false_eq_true, ↓reduceIte, bind, Except.bind, pure, Except.pure]
  rw [if_neg (by omega), if_neg (by simp; omega), hsl]
end RaftVerif.Next
namespace RaftVerif.Next
open Raft Live
set_option linter.unusedSimpArgs false

theorem soloLog_acceptApplying (ms : MemoryStorage) (sip : Bool) (M z : Nat) (ents : List Entry)
    (off oip c a ap i sz : Nat) (hi : i = c) :
    (soloLog ms sip M z false ents off oip c a ap).acceptApplying i sz true =
      .ok (soloLog ms sip M (z + sz) (decide (z + sz ≥ M)) ents off oip c i ap) := by
  subst hi
  unfold RaftLog.acceptApplying
  have hmax : (soloLog ms sip M z false ents off oip i a ap).maxAppliableIndex true = i := rfl
  simp [soloLog, hmax, pure, Except.pure, RaftLog.maxAppliableIndex]

theorem soloLog_appliedTo (ms : MemoryStorage) (sip : Bool) (M z sz : Nat) (p : Bool) (ents : List Entry)
    (off oip c a ap i : Nat) (hic : i ≤ c) (hia : ap ≤ i) (hai : a ≤ i) (hz : z < M) :
    (soloLog ms sip M (z + sz) p ents off oip c a ap).appliedTo i sz =
      .ok (soloLog ms sip M z false ents off oip c i i) := by
  unfold RaftLog.appliedTo
  have h1 : (soloLog ms sip M (z + sz) p ents off oip c a ap).committed = c := rfl
  have h2 : (soloLog ms sip M (z + sz) p ents off oip c a ap).applied = ap := rfl
  rw [h1, h2, if_neg (by simp; omega)]
  simp only [soloLog, pure, Except.pure]
  have hmax : max a i = i := by omega
  by_cases hzz : z = 0
  · subst hzz
    simp [hmax]; omega
  · have : z + sz > sz := by omega
    simp [this, hmax]; omega

/-- `reduceUncommittedSize` for the applied entries `ents` -/
def reducedSize (r : Raft) (ents : List Entry) : Nat :=
  if payloadsSize (ents.filter (fun e => e.term == r.term)) > r.uncommittedSize then 0
  else r.uncommittedSize - payloadsSize (ents.filter (fun e => e.term == r.term))

/-- `MsgStorageApplyResp` for one applied entry `x` at a node without auto-leave -/
theorem step_applyResp_run (fuel : Nat) (r : Raft) (x : Entry) (l : RaftLog)
    (hl : r.log.appliedTo (max x.index r.log.applied) (entsSize [x]) = .ok l)
    (hn : r.trk.cfg.autoLeave = false) :
    (step (fuel + 1) (RawNode.newStorageApplyRespMsg r [x])).run r =
      .ok (none, { r with log := l, uncommittedSize := reducedSize r [x] }) := by
  rw [step]
  simp only [RawNode.newStorageApplyRespMsg, StateT.run_bind, StateT.run_get, P_pure_eq, P_ok_bind, beq_self_eq_true,
    ↓reduceIte, StateT.run_pure, List.getLast?_singleton]
  rw [appliedTo_plain_run fuel x.index (entsSize [x]) r l hl (Or.inl hn)]
  simp only [P_ok_bind, reduceUncommittedSize_run]
  rfl
end RaftVerif.Next

namespace RaftVerif.Next
open Raft Live
set_option linter.unusedSimpArgs false

/-- the proposed entry as the leader stamps it -/
def proposed (T i : Nat) (data : Option Bytes) : Entry := { term := T, index := i, data := data }

/-- **`Propose` at the sole leader with an empty unstable log and no uncommitted payload**: accepted; the
entry is stamped `(T, lastIndex + 1)` and appended; the leader's acknowledgement to itself is queued -/
theorem solo_propose {id T : Nat} (rn : RawNode) (ms : MemoryStorage) (sip : Bool) (M z : Nat) (off c a ap m : Nat)
    (data : Option Bytes) (h : SoloLead id T rn (soloLog ms sip M z false [] off off c a ap) [] m 0)
    (hoff : off = ms.lastIndex + 1) (hc : c < off) :
    ∃ rn', rn.propose [] data = .ok (none, rn') ∧
      SoloLead id T rn' (soloLog ms sip M z false [proposed T off data] off off c a ap) [selfAck id T off] m
        (payloadsSize [proposed T off data]) := by
  obtain ⟨pr, hp, hpm, hps⟩ := h.selfMatch
  obtain ⟨q, hg, hq2, hq3⟩ := h.lr.solo.getProgress
  have hid := h.lr.solo.cid
  have hr : ({ rn.raft with draws := [] } : Raft) = rn.raft := by rw [← h.draws]
  have hli : rn.raft.log.lastIndex = ms.lastIndex := by rw [h.log, soloLog_lastIndex_nil]
  have hclone : cloneEntries rn.raft [{ data := data }] = [proposed T off data] := by
    simp [cloneEntries, proposed, h.lr.term, hli, hoff]
  have happ := appendEntry_run rn.raft [{ data := data }]
  rw [if_neg (by rw [h.usize]; simp), hclone, h.log,
    soloLog_append_one ms sip M z false off off c a ap (proposed T off data) rfl hc] at happ
  simp only at happ
  obtain ⟨R1, hR1⟩ : ∃ R1 : Raft, R1 = { rn.raft with
      uncommittedSize := rn.raft.uncommittedSize + payloadsSize [({ data := data } : Entry)],
      log := soloLog ms sip M z false [proposed T off data] off off c a ap,
      msgsAfterAppend := rn.raft.msgsAfterAppend ++
        [{ to := rn.raft.cfg.id, «from» := rn.raft.cfg.id, typ := .appResp, index := off, term := rn.raft.term }] } :=
    ⟨_, rfl⟩
  rw [← hR1] at happ
  have hsolo1 : Solo id R1 := by
    rw [hR1]; exact ⟨h.lr.solo.cid, h.lr.solo.idNZ, h.lr.solo.voters, h.lr.solo.outgoing, h.lr.solo.prog⟩
  have hstep : (step (2 + 1) { typ := .prop, «from» := rn.raft.cfg.id, entries := [{ data := data }] }).run rn.raft =
      .ok (none, R1) := by
    rw [step_leader_dispatch 2 _ rn.raft h.lr.leader (Or.inl rfl)
      (Or.inr (Or.inr (Or.inr (Or.inr (Or.inr (Or.inr (Or.inl rfl)))))))]
    rw [stepLeader_prop_run 2 _ rn.raft rfl (by simp) (by rw [hid, hg]; rfl) h.lr.noTransfer
      (by intro e he; simp at he; subst he; rfl)]
    simp only [StateT.run_bind, happ, P_ok_bind, Bool.not_true, Bool.false_eq_true, ↓reduceIte,
      bcastAppend_solo_run R1 hsolo1, StateT.run_pure, P_pure_eq]
  refine ⟨{ rn with raft := R1 }, ?_, ?_⟩
  · unfold RawNode.propose RawNode.rstep
    rw [runM_ok rn [] _ none R1 (by rw [hr]; exact hstep) (by rw [hR1]; exact h.draws)]
    rfl
  · subst hR1
    have hpl : pr.isLearner = false := by
      rw [hp] at hq2
      have : q = pr := by simpa using hq2.symm
      rw [← this]; exact hq3
    refine ⟨h.sync, h.advanced, ?_, h.msgs, ?_, h.draws, rfl, ⟨pr, hp, hpm, hps⟩, ?_⟩
    · exact h.lr.frame rfl rfl ⟨pr, hp, hpl⟩ rfl rfl rfl rfl
    · simp only [h.maa, List.nil_append, selfAck, hid, h.lr.term]
    · simp only [h.usize, Nat.zero_add, payloadsSize, proposed, List.map_cons, List.map_nil, Entry.dataLen]
end RaftVerif.Next
namespace RaftVerif.Next
open Raft Live
set_option linter.unusedSimpArgs false

/-- **a round that persists and commits the unstable entry `e` and applies the previously committed entry
`x`** (the last stored one): `Ready` carries `Entries = [e]`, `CommittedEntries = [x]`; `Advance` replays the
leader's acknowledgement (commit), the storage acknowledgement (stable) and the apply acknowledgement -/
theorem solo_round_commit_apply {id T : Nat} (rn : RawNode) (ms : MemoryStorage) (sip : Bool) (M z : Nat)
    (pre : List Entry) (x e : Entry) (o c a m us : Nat)
    (h : SoloLead id T rn (soloLog ms sip M z false [e] o o c a a) [selfAck id T o] m us)
    (hents : ms.ents = pre ++ [x]) (hpre : pre ≠ []) (hc : c = ms.lastIndex) (ho : o = c + 1) (ha : a + 1 = c)
    (hxi : x.index = c) (hei : e.index = o) (het : e.term = T) (hm : m < o) (hz : z < M) :
    ∃ rd rn' us', syncRound rn [] = .ok (rd, rn') ∧ rd.entries = [e] ∧ rd.committedEntries = [x] ∧
      SoloLead id T rn' (soloLog { ms with ents := ms.ents ++ [e] } sip M z false [] (o + 1) (o + 1) o c c) [] o us' := by
  obtain ⟨pr, hp, hpm, hps⟩ := h.selfMatch
  have hid := h.lr.solo.cid
  have hpl : pr.isLearner = false := by
    obtain ⟨q, _, hq2, hq3⟩ := h.lr.solo.getProgress
    rw [hp] at hq2
    have : q = pr := by simpa using hq2.symm
    rw [← this]; exact hq3
  have hms : ms.ents ≠ [] := by rw [hents]; simp
  -- Ready
  obtain ⟨rd, rn1, e1, hre, hrc, h1a, h1s, h1r⟩ := ready_sync rn h.sync h.advanced (by rw [h.log]; rfl) [x]
    (by rw [h.log]; exact soloLog_nextCommitted_one ms sip M z [e] pre x o o c a a hents hpre hc ha ho hz) ⟨T, o⟩
    (fun _ => by rw [h.log, soloLog_lastEntryID_one, het])
    (soloLog ms sip M (z + entsSize [x]) (decide (z + entsSize [x] ≥ M)) [e] o (o + 1) c c a)
    (by
      simp only [List.getLast?_singleton]
      rw [h.log, soloLog_acceptUnstable_one, hei, soloLog_acceptApplying _ _ _ _ _ _ _ _ _ _ _ _ hxi, hxi])
  have hre' : rd.entries = [e] := by rw [hre, h.log, soloLog_nextUnstable_one]
  have hsoa : rn1.stepsOnAdvance =
      [selfAck id T o, storageResp rn.raft ⟨T, o⟩, RawNode.newStorageApplyRespMsg rn.raft [x]] := by
    rw [h1s]
    simp [soaOf, h.maa, h.log, soloLog_hasUnstable_one, selfAck, hid]
  -- persist
  obtain ⟨hap, hl1, ho1⟩ := storage_append_one ms e hms (by rw [hei, ho, hc])
  obtain ⟨L2, hL2⟩ : ∃ L2, L2 = soloLog { ms with ents := ms.ents ++ [e] } sip M (z + entsSize [x])
      (decide (z + entsSize [x] ≥ M)) [e] o (o + 1) c c a := ⟨_, rfl⟩
  have e2 : persist rn1 rd.entries = .ok { rn1 with raft := { rn1.raft with log := L2 } } := by
    unfold persist
    rw [hre', h1r, hL2]
    simp only [soloLog, hap, bind, Except.bind, pure, Except.pure]
  -- Advance
  obtain ⟨R0, hR0⟩ : ∃ R0 : Raft, R0 =
      { rn.raft with readStates := [], msgs := [], msgsAfterAppend := [], log := L2, draws := [] } := ⟨_, rfl⟩
  have hR0lr : SoloLeaderR id T R0 := by
    rw [hR0]
    exact h.lr.frame rfl rfl ⟨pr, hp, hpl⟩ rfl rfl rfl rfl
  have hstep1 := step_selfAck_run 2 R0 o pr hR0lr (by rw [hR0]; exact hp) (by rw [hpm]; exact hm) hps
    (by rw [hR0, hL2]; show c < o; omega)
    (by rw [hR0, hL2]; simp only; rw [soloLog_lastIndex_one]; exact Nat.le_refl _)
    (by rw [hR0, hL2]; simp only; rw [soloLog_term_one, het])
  have hopos : o ≠ 0 := by omega
  have hlog2 : (ackedSt R0 id o (ackedProgress pr o)).log.stableTo { term := T, index := o } =
      soloLog { ms with ents := ms.ents ++ [e] } sip M (z + entsSize [x]) (decide (z + entsSize [x] ≥ M)) []
        (o + 1) (o + 1) o c a := by
    have : (ackedSt R0 id o (ackedProgress pr o)).log =
        soloLog { ms with ents := ms.ents ++ [e] } sip M (z + entsSize [x]) (decide (z + entsSize [x] ≥ M)) [e]
          o (o + 1) o c a := by
      rw [hR0, hL2]; rfl
    rw [this, ← het, soloLog_stableTo_one, Nat.max_self]
  obtain ⟨R2, hR2⟩ : ∃ R2 : Raft, R2 = { ackedSt R0 id o (ackedProgress pr o) with
      log := soloLog { ms with ents := ms.ents ++ [e] } sip M (z + entsSize [x]) (decide (z + entsSize [x] ≥ M)) []
        (o + 1) (o + 1) o c a } := ⟨_, rfl⟩
  have hstep2 : (step (2 + 1) (storageResp rn.raft ⟨T, o⟩)).run (ackedSt R0 id o (ackedProgress pr o)) =
      .ok (none, R2) := by
    rw [step_storageAppendResp_run 2 _ _ rfl (Or.inr (by rw [hR0]; rfl)) rfl]
    have hi : (storageResp rn.raft ⟨T, o⟩).index ≠ 0 := hopos
    rw [if_pos hi]
    have e : ({ term := (storageResp rn.raft ⟨T, o⟩).logTerm, index := (storageResp rn.raft ⟨T, o⟩).index } : EntryID) =
        { term := T, index := o } := rfl
    rw [e, hlog2, hR2]
  have hmsg : RawNode.newStorageApplyRespMsg rn.raft [x] = RawNode.newStorageApplyRespMsg R2 [x] := by
    rw [hR2, hR0]; rfl
  have hstep3 := step_applyResp_run 2 R2 x
    (soloLog { ms with ents := ms.ents ++ [e] } sip M z false [] (o + 1) (o + 1) o c c)
    (by
      have hl : R2.log = soloLog { ms with ents := ms.ents ++ [e] } sip M (z + entsSize [x])
          (decide (z + entsSize [x] ≥ M)) [] (o + 1) (o + 1) o c a := by rw [hR2]
      have hmx : max x.index R2.log.applied = c := by rw [hl, hxi]; show max c a = c; omega
      rw [hmx, hl]
      exact soloLog_appliedTo _ _ _ _ _ _ _ _ _ _ _ _ _ (by omega) (by omega) (Nat.le_refl _) hz)
    (by rw [hR2, hR0]; exact h.lr.noAuto)
  obtain ⟨RF, hRF⟩ : ∃ RF : Raft, RF =
      { R2 with log := soloLog { ms with ents := ms.ents ++ [e] } sip M z false [] (o + 1) (o + 1) o c c,
                uncommittedSize := reducedSize R2 [x] } := ⟨_, rfl⟩
  rw [← hRF] at hstep3
  have e3 := advance_run { rn1 with raft := { rn1.raft with log := L2 } } [] h1a RF
    (by
      have hr : ({ ({ rn1 with raft := { rn1.raft with log := L2 } } : RawNode).raft with draws := [] } : Raft) = R0 := by
        rw [hR0, h1r]
      simp only [hsoa, runSteps]
      rw [hr, show stepFuel = 2 + 1 from rfl, hstep1]
      simp only [bind, Except.bind]
      rw [hstep2]
      simp only
      rw [hmsg, hstep3])
    (by rw [hRF, hR2, hR0]; rfl)
  refine ⟨rd, { rn1 with raft := RF, stepsOnAdvance := [] }, reducedSize R2 [x], ?_, hre', hrc, ?_⟩
  · unfold syncRound
    rw [e1]
    simp only [bind, Except.bind]
    rw [e2]
    simp only
    rw [e3]
    rfl
  · subst hRF hR2
    refine ⟨h1a, rfl, ?_, by rw [hR0]; rfl, by rw [hR0]; rfl, by rw [hR0]; rfl, rfl, ?_, rfl⟩
    · exact hR0lr.frame (by rw [hR0]; rfl) (by rw [hR0]; rfl)
        ⟨ackedProgress pr o, by rw [hR0]; simp [ackedSt, Tracker.setProgress, hp, mapInsert],
          by simp [ackedProgress, Progress.maybeUpdate]; split <;> exact hpl⟩ (by rw [hR0]; rfl) (by rw [hR0]; rfl)
        (by rw [hR0]; rfl) (by rw [hR0]; rfl)
    · refine ⟨ackedProgress pr o, by rw [hR0]; simp [ackedSt, Tracker.setProgress, hp, mapInsert], ?_, ?_⟩
      · simp only [ackedProgress, Progress.maybeUpdate]
        rw [if_neg (by show ¬ o ≤ pr.match_; omega)]
      · simp only [ackedProgress, Progress.maybeUpdate]
        rw [if_neg (by show ¬ o ≤ pr.match_; omega)]
        exact hps
end RaftVerif.Next

namespace RaftVerif.Next
open Raft Live
set_option linter.unusedSimpArgs false

/-- **the whole run of a sole voter**: election, commit of the empty entry, a proposal, its commit, and the
`Ready` that hands it out for application -/
theorem solo_commits_run {id : Id} (rn : RawNode) (k d1 d2 : Nat) (data : Option Bytes) (h : SoloStart id rn)
    (hcu : SoloCaughtUp rn)
    (hk : k = 0 ∨ rn.raft.electionElapsed + k < rn.raft.randomizedElectionTimeout)
    (hk' : rn.raft.randomizedElectionTimeout ≤ rn.raft.electionElapsed + k + 1) :
    ∃ rnL rd2 rnA rnB rd3 rnC rd4,
      electSchedule rn k d1 d2 = .ok rnL ∧ syncRound rnL [] = .ok (rd2, rnA) ∧
      rnA.propose [] data = .ok (none, rnB) ∧ syncRound rnB [] = .ok (rd3, rnC) ∧
      rnC.readyWithoutAccept = .ok rd4 ∧
      rnL.raft.state = .leader ∧ rnL.raft.term = rn.raft.term + 1 ∧
      rd2.entries = [{ term := rn.raft.term + 1, index := rn.raft.log.lastIndex + 1 }] ∧
      rnA.raft.log.committed = rn.raft.log.lastIndex + 1 ∧ rnA.raft.log.lastIndex = rn.raft.log.lastIndex + 1 ∧
      rd3.entries = [proposed (rn.raft.term + 1) (rn.raft.log.lastIndex + 2) data] ∧
      rd3.committedEntries = [{ term := rn.raft.term + 1, index := rn.raft.log.lastIndex + 1 }] ∧
      rnC.raft.state = .leader ∧ rnC.raft.term = rn.raft.term + 1 ∧
      rnC.raft.log.committed = rn.raft.log.lastIndex + 2 ∧ rnC.raft.log.lastIndex = rn.raft.log.lastIndex + 2 ∧
      rnC.raft.log.applied = rn.raft.log.lastIndex + 1 ∧
      rd4.committedEntries = [proposed (rn.raft.term + 1) (rn.raft.log.lastIndex + 2) data] := by
  obtain ⟨rnL, e1, hf⟩ := solo_elects_run rn k d1 d2 h hk hk'
  obtain ⟨hL, hne, hli, hz⟩ := soloLead_of_fresh rn rnL h hcu (by omega) hf
  generalize hms : rn.raft.log.storage = ms at hL hne hli hz
  generalize rn.raft.log.unstable.snapshotInProgress = sip at hL
  generalize rn.raft.log.maxApplyingEntsSize = M at hL hz
  generalize rn.raft.log.applyingEntsSize = z at hL hz
  generalize hT : rn.raft.term + 1 = T at hL hf ⊢
  rw [hli]
  generalize hlv : ms.lastIndex = li at hL ⊢
  -- round 2: the empty entry
  obtain ⟨rd2, rnA, e2, hrd2, _, hA⟩ := solo_round_commit rnL ms sip M z { term := T, index := li + 1 }
    (li + 1) li li li li 0 hL hne (by rw [hlv]) rfl rfl (by omega) (by omega) (Nat.le_refl _)
  obtain ⟨hap, hl1, ho1⟩ := storage_append_one ms { term := T, index := li + 1 } hne (by rw [hlv])
  -- the proposal
  obtain ⟨rnB, e3, hB⟩ := solo_propose rnA _ sip M z (li + 1 + 1) (li + 1) li li (li + 1) data hA
    (by rw [hl1, hlv]) (by omega)
  -- round 3
  obtain ⟨rd3, rnC, us', e4, hrd3e, hrd3c, hC⟩ := solo_round_commit_apply rnB _ sip M z ms.ents
    { term := T, index := li + 1 } (proposed T (li + 1 + 1) data) (li + 1 + 1) (li + 1) li (li + 1) _ hB rfl hne
    (by rw [hl1, hlv]) rfl rfl rfl rfl rfl (by omega) hz
  -- the next Ready hands the entry out
  have hnc := soloLog_nextCommitted_one
    { ms with ents := ms.ents ++ [({ term := T, index := li + 1 } : Entry)] ++ [proposed T (li + 1 + 1) data] }
    sip M z [] (ms.ents ++ [({ term := T, index := li + 1 } : Entry)]) (proposed T (li + 1 + 1) data)
    (li + 1 + 1 + 1) (li + 1 + 1 + 1) (li + 1 + 1) (li + 1) (li + 1) rfl (by simp)
    (by
      obtain ⟨_, hl2, _⟩ := storage_append_one { ms with ents := ms.ents ++ [({ term := T, index := li + 1 } : Entry)] }
        (proposed T (li + 1 + 1) data) (by simp) (by rw [hl1, hlv]; rfl)
      rw [hl2, hl1, hlv])
    rfl rfl hz
  have hauC : rnC.applyUnstableEntries = true := by simp [RawNode.applyUnstableEntries, hC.sync]
  obtain ⟨rd4, e5⟩ := readyWithoutAccept_sync_total rnC hC.sync _ (by rw [hauC, hC.log]; exact hnc)
  have hrd4 : rd4.committedEntries = [proposed T (li + 1 + 1) data] := by
    have := (readyWithoutAccept_core rnC rd4 e5).1.cents
    rw [hauC, hC.log, hnc] at this
    injection this with this
    exact this.symm
  refine ⟨rnL, rd2, rnA, rnB, rd3, rnC, rd4, e1, e2, e3, e4, e5, hf.leader, hf.term, hrd2, ?_, ?_, hrd3e, hrd3c,
    hC.lr.leader, hC.lr.term, ?_, ?_, ?_, hrd4⟩
  · rw [hA.log]; rfl
  · rw [hA.log, soloLog_lastIndex_nil, hl1, hlv]
  · rw [hC.log]; rfl
  · rw [hC.log, soloLog_lastIndex_nil]
    obtain ⟨_, hl2, _⟩ := storage_append_one { ms with ents := ms.ents ++ [({ term := T, index := li + 1 } : Entry)] }
      (proposed T (li + 1 + 1) data) (by simp) (by rw [hl1, hlv]; rfl)
    rw [hl2, hl1, hlv]
  · rw [hC.log]; rfl
end RaftVerif.Next
