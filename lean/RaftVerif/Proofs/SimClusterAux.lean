import RaftVerif.Proofs.SimCluster
import RaftVerif.Proofs.SimAux
/-!
# Proofs/SimClusterAux — the full relation `RA` = `R` + auxiliary model invariant, and its lifting lemma
-/
namespace RaftVerif.Sim
open Refine

/-- appends, heartbeats and vote requests on the wire are never self-addressed -/
def NetFrom (m : Message) : Prop := m.typ = .app ∨ m.typ = .heartbeat ∨ m.typ = .vote → m.from ≠ m.to

/-- **the full simulation relation**: `R`, the auxiliary invariant of every node, and `NetFrom` on the network -/
structure RA (val : Val) (voters : List Id) (c : Cluster) (s : Spec.State) : Prop where
  base : R val voters c s
  aux : ∀ n rn, c.nodes n = some rn → AuxInv n rn.raft
  netFrom : ∀ m ∈ c.net, NetFrom m

/-- lifting for `RA` -/
theorem RA.lift {val : Val} {voters : List Id} {c : Cluster} {s : Spec.State} (hR : RA val voters c s)
    (n : Nat) (rn' : RawNode) (out : List Message)
    (hsim : ∃ as s', RunL (cfgOf voters) s as s' ∧ (∀ a ∈ as, a.actor = n) ∧
      NodeInv val voters n rn' (s'.nodes n) s'.msgs ∧ ∀ m ∈ out, NetOK val s'.msgs m)
    (haux : AuxInv n rn'.raft) (hout : ∀ m ∈ out, NetFrom m) :
    ∃ s', Steps (cfgOf voters) s s' ∧ RA val voters { (c.setNode n rn') with net := c.net ++ out } s' := by
  obtain ⟨s', h1, h2⟩ := hR.base.lift n rn' out hsim
  refine ⟨s', h1, h2, ?_, ?_⟩
  · intro k rk hk
    by_cases hkn : k = n
    · subst hkn
      have : rk = rn' := by simpa [Cluster.setNode] using hk.symm
      subst this
      exact haux
    · exact hR.aux k rk (by simpa [Cluster.setNode, hkn] using hk)
  · intro m hm
    rcases List.mem_append.1 hm with h | h
    · exact hR.netFrom m h
    · exact hout m h

/-- lifting when nothing is emitted -/
theorem RA.lift0 {val : Val} {voters : List Id} {c : Cluster} {s : Spec.State} (hR : RA val voters c s)
    (n : Nat) (rn' : RawNode)
    (hsim : ∃ as s', RunL (cfgOf voters) s as s' ∧ (∀ a ∈ as, a.actor = n) ∧
      NodeInv val voters n rn' (s'.nodes n) s'.msgs)
    (haux : AuxInv n rn'.raft) :
    ∃ s', Steps (cfgOf voters) s s' ∧ RA val voters (c.setNode n rn') s' := by
  obtain ⟨as, s1, a1, a2, a3⟩ := hsim
  obtain ⟨s', h1, h2⟩ := hR.lift n rn' [] ⟨as, s1, a1, a2, a3, by simp⟩ haux (by simp)
  refine ⟨s', h1, ?_⟩
  have e : ({ (c.setNode n rn') with net := c.net ++ [] } : Cluster) = c.setNode n rn' := by
    simp [Cluster.setNode]
  rw [e] at h2
  exact h2

end RaftVerif.Sim
