import RaftVerif.Proofs.NoPanicRaw
import RaftVerif.Proofs.StepRouted
/-!
# Proofs/NoPanicLead — two facts kept by every function of `Model/Raft.lean`

(L) a node whose `lead` field is the id `n` (`n ≠ 0`; in the applications `n` is the node's own id) is a leader;
(P) the only MsgProp ever appended to `msgs` is the forwarded copy of the message being stepped
    (`stepFollower`: `send { m with to := r.lead }`).
Clone of `Proofs/StepRouted.lean` for the relation `LPRel n ents`.
-/
set_option linter.unusedSimpArgs false
set_option linter.unusedVariables false
namespace RaftVerif.NoPanicP
open Raft C14

/-- (L) for the id `n` -/
def LeadOK (n : Nat) (r : Raft) : Prop := r.lead = n → r.state = .leader

/-- new messages of type MsgProp carry the entries `ents` -/
def PropOK (ents : List Entry) (x : Message) : Prop := x.typ = .prop → x.entries = ents

/-- what is known of a message newly appended to `msgs` by the node `n`: a MsgProp carries `ents`, a
MsgHeartbeatResp is stamped with the node's id and is not self-addressed -/
def MsgOK (id : Nat) (ents : List Entry) (x : Message) : Prop :=
  (x.typ = .prop → x.entries = ents) ∧ (x.typ = .heartbeatResp → x.from = id ∧ x.to ≠ id)

/-- side condition of `send x` -/
def SendOK (ents : List Entry) (x : Message) : Prop :=
  (x.typ = .prop → x.entries = ents) ∧ (x.typ = .heartbeatResp → x.from = 0)

/-- the working relation: `n ≠ 0` is a hypothesis *inside* the `lead` field, so that no lemma needs it -/
structure LPRel0 (n : Nat) (ents : List Entry) (s s' : Raft) : Prop where
  cfg : s'.cfg = s.cfg
  lead : n ≠ 0 → (s.lead = n → s.state = .leader) → (s'.lead = n → s'.state = .leader)
  msgs : ListExt (MsgOK s.cfg.id ents) s.msgs s'.msgs

theorem LPRel0.refl {n : Nat} {ents : List Entry} (s : Raft) : LPRel0 n ents s s :=
  ⟨rfl, fun _ => id, ListExt.refl _⟩
theorem LPRel0.trans {n : Nat} {ents : List Entry} {a b c : Raft} (h1 : LPRel0 n ents a b) (h2 : LPRel0 n ents b c) :
    LPRel0 n ents a c := ⟨h2.cfg.trans h1.cfg, fun hn h => h2.lead hn (h1.lead hn h),
      h1.msgs.trans (h1.cfg ▸ h2.msgs)⟩
instance (n : Nat) (ents : List Entry) : RelOK (LPRel0 n ents) := ⟨LPRel0.refl, LPRel0.trans⟩

/-- a field update that does not touch `cfg` / `msgs` -/
theorem LPRel0.of_lead {n : Nat} {ents : List Entry} {s x : Raft} (h1 : x.cfg = s.cfg)
    (h2 : n ≠ 0 → (s.lead = n → s.state = .leader) → (x.lead = n → x.state = .leader)) (h3 : x.msgs = s.msgs) :
    LPRel0 n ents s x := ⟨h1, h2, h3 ▸ ListExt.refl _⟩

/-- the `lead` part of a field update: untouched, or `lead` set to something that is not `n`, or `state := leader` -/
macro "lead_tac" : tactic => `(tactic| first
  | exact fun _ => id
  | (intro _ _ _; rfl)
  | (intro _ _ _; contradiction)
  | (intro _ _ _; exfalso; omega)
  | (intro _ _ _; exfalso; dsimp only at *; omega)
  | (intro _ _ _; simp_all; done))

macro_rules | `(tactic| rel_fields) => `(tactic| exact LPRel0.of_lead rfl (by lead_tac) rfl)

theorem voteResp_ne_prop (t : MsgType) : voteRespMsgType t ≠ .prop := by
  unfold voteRespMsgType; split <;> simp
theorem voteResp_ne_hbResp (t : MsgType) : voteRespMsgType t ≠ .heartbeatResp := by
  unfold voteRespMsgType; split <;> simp

/-- side conditions: `l ≠ n` of `becomeFollower`, `SendOK` of `send` -/
macro "side_tac" : tactic => `(tactic| first
  | assumption
  | exact Ne.symm
  | (intro _; assumption)
  | (refine And.intro ?_ ?_ <;> first
      | assumption
      | (intro h; cases h; done)
      | (intro _; rfl)
      | (intro h; exact absurd h (voteResp_ne_prop _))
      | (intro h; exact absurd h (voteResp_ne_hbResp _))
      | (simp_all; done))
  | (intro _; simp_all [or_assoc]; done))

/-- `wp_auto` that substitutes the join points of the `do` notation instead of abstracting them -/
macro "wp_auto_z" "[" step:tactic "]" : tactic =>
  `(tactic| repeat' (first | simp (config := {zeta := false}) only [wp] | refine And.intro ?_ ?_ | trivial | rel_acc
                           | intro _ | spec_match | spec_zeta
                           | ($step:tactic) | fail "wp_auto: stuck"))

/-- `rel_call` for `LPRel0` (the anchor is looked up first: it fixes `n` and `ents`) -/
macro "lp_call " t:term : tactic =>
  `(tactic| (refine Spec.call (R := LPRel0 _ _) ?_ (by rel_acc) ?_; (with_reducible exact $t); intro _ _ _))
/-- `Spec.call'` with the extra fact "the leader is forgotten" (`reset`) -/
theorem Spec.call_lead0 {β : Type} {n : Nat} {ents : List Entry} {x : M β} {a cur : Raft} {K : β → Raft → Prop}
    (hx : Spec x cur (fun _ mid => LPRel0 n ents cur mid ∧ mid.lead = 0)) (ha : LPRel0 n ents a cur)
    (k : ∀ b mid, LPRel0 n ents a mid → mid.lead = 0 → K b mid) : Spec x cur K :=
  Spec.call' hx ha k
macro "lp_call' " t:term : tactic =>
  `(tactic| (refine Spec.call_lead0 ?_ (by rel_acc) ?_; (with_reducible exact $t); intro _ _ _ _))

/-- the same for a lemma with one side condition (`?_` in `t`), closed by `side_tac` -/
macro "lp_call_s " t:term : tactic =>
  `(tactic| (refine Spec.call (R := LPRel0 _ _) ?_ (by rel_acc) ?_; (with_reducible refine $t); (focus side_tac); intro _ _ _))

/-- registered `LPRel0` call rules -/
syntax "lp_step" : tactic

/-- `send_spec`, with the self-address check -/
theorem send_spec' (m : Message) (s : Raft) :
    Spec (Raft.send m) s (fun _ s' =>
      (isPromise m.typ = true ∧ s' = { s with msgsAfterAppend := s.msgsAfterAppend ++ [stamped s m] }) ∨
      (isPromise m.typ = false ∧ m.to ≠ s.cfg.id ∧ s' = { s with msgs := s.msgs ++ [stamped s m] })) := by
  unfold Raft.send
  simp only [wp]
  obtain ⟨typ, to, frm, term, logTerm, index, entries, commit, vote, snapshot, reject, rejectHint, context, responses⟩ := m
  by_cases hf : frm = 0 <;> cases typ <;> simp [stamped, isPromise, hf]

theorem stamped_fields (s : Raft) (m : Message) :
    (stamped s m).entries = m.entries ∧ (stamped s m).to = m.to ∧
      (stamped s m).from = (if m.from == 0 then s.cfg.id else m.from) := by
  unfold stamped
  simp only
  split <;> split <;> (try split) <;> simp_all

theorem send_lp (n : Nat) (ents : List Entry) (x : Message) (s : Raft) (hx : SendOK ents x) :
    Spec (send x) s (fun _ s' => LPRel0 n ents s s') := by
  refine (send_spec' x s).mono ?_
  rintro _ s' (⟨h, rfl⟩ | ⟨h, hto, rfl⟩)
  · rel_fields
  · refine ⟨rfl, fun _ => id, ListExt.snoc _ _ ?_⟩
    obtain ⟨h1, h2, h3⟩ := stamped_fields s x
    unfold MsgOK
    rw [stamped_typ, h1, h2, h3]
    refine ⟨hx.1, fun ht => ?_⟩
    rw [hx.2 ht]
    exact ⟨by simp, hto⟩
macro_rules | `(tactic| lp_step) => `(tactic| lp_call_s (send_lp _ _ _ _ ?_))

theorem maybeSendSnapshot_lp (n : Nat) (ents : List Entry) (to : Id) (pr : Progress) (s : Raft) :
    Spec (maybeSendSnapshot to pr) s (fun _ s' => LPRel0 n ents s s') := by
  unfold maybeSendSnapshot
  rel_start
  wp_auto [lp_step]
macro_rules | `(tactic| lp_step) => `(tactic| lp_call (maybeSendSnapshot_lp ..))

theorem maybeSendAppend_lp (n : Nat) (ents : List Entry) (to : Id) (b : Bool) (s : Raft) :
    Spec (maybeSendAppend to b) s (fun _ s' => LPRel0 n ents s s') := by
  unfold maybeSendAppend
  rel_start
  wp_auto [lp_step]
macro_rules | `(tactic| lp_step) => `(tactic| lp_call (maybeSendAppend_lp ..))

theorem sendAppendLoop_lp (n : Nat) (ents : List Entry) (fuel : Nat) (to : Id) (s : Raft) :
    Spec (sendAppendLoop fuel to) s (fun _ s' => LPRel0 n ents s s') := by
  induction fuel generalizing s with
  | zero => unfold sendAppendLoop; rel_start; wp_auto [lp_step]
  | succ k ih =>
    unfold sendAppendLoop
    rel_start
    wp_auto [first | lp_step | lp_call (ih ..)]
macro_rules | `(tactic| lp_step) => `(tactic| lp_call (sendAppendLoop_lp ..))

theorem sendHeartbeat_lp (n : Nat) (ents : List Entry) (to : Id) (c : Option Bytes) (s : Raft) :
    Spec (sendHeartbeat to c) s (fun _ s' => LPRel0 n ents s s') := by
  unfold sendHeartbeat
  rel_start
  wp_auto [lp_step]
macro_rules | `(tactic| lp_step) => `(tactic| lp_call (sendHeartbeat_lp ..))

theorem bcastAppend_lp (n : Nat) (ents : List Entry) (s : Raft) :
    Spec (bcastAppend) s (fun _ s' => LPRel0 n ents s s') := by
  unfold bcastAppend
  rel_start
  wp_auto [first | lp_step | rel_loop (LPRel0 _ _)]
macro_rules | `(tactic| lp_step) => `(tactic| lp_call (bcastAppend_lp ..))

theorem bcastHeartbeatWithCtx_lp (n : Nat) (ents : List Entry) (c : Option Bytes) (s : Raft) :
    Spec (bcastHeartbeatWithCtx c) s (fun _ s' => LPRel0 n ents s s') := by
  unfold bcastHeartbeatWithCtx
  rel_start
  wp_auto [first | lp_step | rel_loop (LPRel0 _ _)]
macro_rules | `(tactic| lp_step) => `(tactic| lp_call (bcastHeartbeatWithCtx_lp ..))

theorem bcastHeartbeat_lp (n : Nat) (ents : List Entry) (s : Raft) :
    Spec (bcastHeartbeat) s (fun _ s' => LPRel0 n ents s s') := by
  unfold bcastHeartbeat
  rel_start
  wp_auto [lp_step]
macro_rules | `(tactic| lp_step) => `(tactic| lp_call (bcastHeartbeat_lp ..))

macro_rules | `(tactic| lp_step) => `(tactic| same_call (hasUnappliedConfChanges_same ..))
macro_rules | `(tactic| lp_step) => `(tactic| same_call (decodeCC_same ..))

theorem maybeCommit_lp (n : Nat) (ents : List Entry) (s : Raft) :
    Spec (maybeCommit) s (fun _ s' => LPRel0 n ents s s') := by
  unfold maybeCommit
  rel_start
  wp_auto [lp_step]
macro_rules | `(tactic| lp_step) => `(tactic| lp_call (maybeCommit_lp ..))

theorem increaseUncommittedSize_lp (n : Nat) (ents : List Entry) (es : List Entry) (s : Raft) :
    Spec (increaseUncommittedSize es) s (fun _ s' => LPRel0 n ents s s') := by
  unfold increaseUncommittedSize
  rel_start
  wp_auto [lp_step]
macro_rules | `(tactic| lp_step) => `(tactic| lp_call (increaseUncommittedSize_lp ..))

theorem appendEntry_lp (n : Nat) (ents : List Entry) (es : List Entry) (s : Raft) :
    Spec (appendEntry es) s (fun _ s' => LPRel0 n ents s s') := by
  unfold appendEntry
  rel_start
  wp_auto [lp_step]
macro_rules | `(tactic| lp_step) => `(tactic| lp_call (appendEntry_lp ..))

theorem appliedToLog_lp (n : Nat) (ents : List Entry) (i sz : Nat) (s : Raft) :
    Spec (appliedToLog i sz) s (fun _ s' => LPRel0 n ents s s') := by
  unfold appliedToLog
  rel_start
  wp_auto [lp_step]
macro_rules | `(tactic| lp_step) => `(tactic| lp_call (appliedToLog_lp ..))

/-- `reset` forgets the leader -/
theorem reset_lp (n : Nat) (ents : List Entry) (t : Nat) (s : Raft) :
    Spec (reset t) s (fun _ s' => LPRel0 n ents s s' ∧ s'.lead = 0) :=
  (reset_spec_st t s).mono fun _ s' ⟨_, _, hl, _, _, h4, h5, _⟩ =>
    ⟨⟨h4, fun hn _ h => absurd (hl ▸ h).symm hn, h5 ▸ ListExt.refl _⟩, hl⟩
macro_rules | `(tactic| lp_step) => `(tactic| lp_call' (reset_lp ..))

theorem becomeFollower_lp (n : Nat) (ents : List Entry) (t l : Nat) (s : Raft) (hl : n ≠ 0 → l ≠ n) :
    Spec (becomeFollower t l) s (fun _ s' => LPRel0 n ents s s') :=
  (becomeFollower_spec t l s).mono fun _ s' ⟨_, _, h, _, _, h4, h5, _⟩ =>
    ⟨h4, fun hn _ h' => absurd (h ▸ h') (hl hn), h5 ▸ ListExt.refl _⟩
macro_rules | `(tactic| lp_step) => `(tactic| lp_call_s (becomeFollower_lp _ _ _ _ _ ?_))

theorem becomeCandidate_lp (n : Nat) (ents : List Entry) (s : Raft) :
    Spec (becomeCandidate) s (fun _ s' => LPRel0 n ents s s') := by
  unfold becomeCandidate
  rel_start
  wp_auto [lp_step]
macro_rules | `(tactic| lp_step) => `(tactic| lp_call (becomeCandidate_lp ..))

theorem becomePreCandidate_lp (n : Nat) (ents : List Entry) (s : Raft) :
    Spec (becomePreCandidate) s (fun _ s' => LPRel0 n ents s s') := by
  unfold becomePreCandidate
  rel_start
  wp_auto [lp_step]
macro_rules | `(tactic| lp_step) => `(tactic| lp_call (becomePreCandidate_lp ..))

theorem becomeLeader_lp (n : Nat) (ents : List Entry) (s : Raft) :
    Spec (becomeLeader) s (fun _ s' => LPRel0 n ents s s') := by
  unfold becomeLeader
  rel_start
  wp_auto [lp_step]
macro_rules | `(tactic| lp_step) => `(tactic| lp_call (becomeLeader_lp ..))

theorem campaign_lp (n : Nat) (ents : List Entry) (t : CampaignType) (s : Raft) :
    Spec (campaign t) s (fun _ s' => LPRel0 n ents s s') := by
  unfold campaign
  rel_start
  wp_auto_z [first | lp_step | rel_loop (LPRel0 _ _)]
macro_rules | `(tactic| lp_step) => `(tactic| lp_call (campaign_lp ..))

theorem hup_lp (n : Nat) (ents : List Entry) (t : CampaignType) (s : Raft) :
    Spec (hup t) s (fun _ s' => LPRel0 n ents s s') := by
  unfold hup
  rel_start
  wp_auto [lp_step]
macro_rules | `(tactic| lp_step) => `(tactic| lp_call (hup_lp ..))

theorem responseToReadIndexReq_lp' (n : Nat) (ents : List Entry) (req : Message) (i : Nat) (s : Raft) :
    Spec (responseToReadIndexReq req i) s (fun b s' => LPRel0 n ents s s' ∧
      ∀ resp, b = some resp → resp.typ = .readIndexResp) := by
  unfold responseToReadIndexReq
  simp only [wp]
  split
  · simp only [wp]
  · simp only [wp]
    refine ⟨fun _ => ⟨by rel_fields, fun _ h => nomatch h⟩, fun _ => ⟨RelOK.refl _, ?_⟩⟩
    intro resp h
    cases h
    rfl

theorem sendReadIndexResp_lp (n : Nat) (ents : List Entry) (req : Message) (i : Nat) (s : Raft) :
    Spec (sendReadIndexResp req i) s (fun _ s' => LPRel0 n ents s s') := by
  unfold sendReadIndexResp
  simp only [wp]
  refine (responseToReadIndexReq_lp' n ents req i s).mono ?_
  intro b mid ⟨h1, h2⟩
  split
  · simp only [wp]
    refine ⟨fun _ => ?_, fun _ => h1⟩
    have ht := h2 _ rfl
    refine Spec.call (send_lp n ents _ _ ⟨?_, ?_⟩) h1 (fun _ _ h => h)
    · intro h; rw [ht] at h; cases h
    · intro h; rw [ht] at h; cases h
  · simp only [wp]
    exact h1
macro_rules | `(tactic| lp_step) => `(tactic| lp_call (sendReadIndexResp_lp ..))

theorem responseToReadIndexReq_lp (n : Nat) (ents : List Entry) (req : Message) (i : Nat) (s : Raft) :
    Spec (responseToReadIndexReq req i) s (fun _ s' => LPRel0 n ents s s') :=
  (responseToReadIndexReq_lp' n ents req i s).mono fun _ _ h => h.1

theorem sendMsgReadIndexResponse_lp (n : Nat) (ents : List Entry) (m : Message) (s : Raft) :
    Spec (sendMsgReadIndexResponse m) s (fun _ s' => LPRel0 n ents s s') := by
  unfold sendMsgReadIndexResponse
  rel_start
  wp_auto [lp_step]
macro_rules | `(tactic| lp_step) => `(tactic| lp_call (sendMsgReadIndexResponse_lp ..))

theorem releasePendingReadIndexMessages_lp (n : Nat) (ents : List Entry) (s : Raft) :
    Spec (releasePendingReadIndexMessages) s (fun _ s' => LPRel0 n ents s s') := by
  unfold releasePendingReadIndexMessages
  rel_start
  wp_auto [first | lp_step | rel_loop (LPRel0 _ _)]
macro_rules | `(tactic| lp_step) => `(tactic| lp_call (releasePendingReadIndexMessages_lp ..))

theorem handleAppendEntries_lp (n : Nat) (ents : List Entry) (m : Message) (s : Raft) :
    Spec (handleAppendEntries m) s (fun _ s' => LPRel0 n ents s s') := by
  unfold handleAppendEntries
  rel_start
  wp_auto [lp_step]
macro_rules | `(tactic| lp_step) => `(tactic| lp_call (handleAppendEntries_lp ..))

theorem handleHeartbeat_lp (n : Nat) (ents : List Entry) (m : Message) (s : Raft) :
    Spec (handleHeartbeat m) s (fun _ s' => LPRel0 n ents s s') := by
  unfold handleHeartbeat
  rel_start
  wp_auto [lp_step]
macro_rules | `(tactic| lp_step) => `(tactic| lp_call (handleHeartbeat_lp ..))

theorem switchToConfig_lp (n : Nat) (ents : List Entry) (cfg : TrackerConfig) (trk : ProgressMap) (s : Raft) :
    Spec (switchToConfig cfg trk) s (fun _ s' => LPRel0 n ents s s') := by
  unfold switchToConfig
  rel_start
  wp_auto [first | lp_step | rel_loop (LPRel0 _ _)]
macro_rules | `(tactic| lp_step) => `(tactic| lp_call (switchToConfig_lp ..))

theorem restore_lp (n : Nat) (ents : List Entry) (snap : Snapshot) (s : Raft) :
    Spec (restore snap) s (fun _ s' => LPRel0 n ents s s') := by
  unfold restore
  rel_start
  wp_auto [lp_step]
macro_rules | `(tactic| lp_step) => `(tactic| lp_call (restore_lp ..))

theorem handleSnapshot_lp (n : Nat) (ents : List Entry) (m : Message) (s : Raft) :
    Spec (handleSnapshot m) s (fun _ s' => LPRel0 n ents s s') := by
  unfold handleSnapshot
  rel_start
  wp_auto [lp_step]
macro_rules | `(tactic| lp_step) => `(tactic| lp_call (handleSnapshot_lp ..))

theorem applyConfChange_lp (n : Nat) (ents : List Entry) (cc : ConfChangeV2) (s : Raft) :
    Spec (applyConfChange cc) s (fun _ s' => LPRel0 n ents s s') := by
  unfold applyConfChange
  rel_start
  wp_auto [lp_step]
macro_rules | `(tactic| lp_step) => `(tactic| lp_call (applyConfChange_lp ..))

/-- MsgApp / MsgHeartbeat / MsgSnap: the messages whose sender becomes `lead` -/
def AppLike (m : Message) : Prop := m.typ = .app ∨ m.typ = .heartbeat ∨ m.typ = .snap

theorem stepFollower_lp (n : Nat) (ents : List Entry) (fuel : Nat) (m : Message) (s : Raft)
    (hfrom : m.typ = .app ∨ m.typ = .heartbeat ∨ m.typ = .snap → m.from ≠ n)
    (hents : m.typ = .prop → m.entries = ents) :
    Spec (stepFollower fuel m) s (fun _ s' => LPRel0 n ents s s') := by
  rw [stepFollower]
  rel_start
  wp_auto [lp_step]
macro_rules | `(tactic| lp_step) => `(tactic| lp_call (stepFollower_lp _ _ _ _ _ (by assumption) (by assumption)))

theorem stepCandidate_lp (n : Nat) (ents : List Entry) (fuel : Nat) (m : Message) (s : Raft)
    (hfrom : m.typ = .app ∨ m.typ = .heartbeat ∨ m.typ = .snap → m.from ≠ n) :
    Spec (stepCandidate fuel m) s (fun _ s' => LPRel0 n ents s s') := by
  rw [stepCandidate]
  rel_start
  wp_auto [lp_step]
macro_rules | `(tactic| lp_step) => `(tactic| lp_call (stepCandidate_lp _ _ _ _ _ (by assumption)))

theorem stepLeader_lp (n : Nat) (ents : List Entry) (fuel : Nat) (m : Message) (s : Raft) :
    Spec (stepLeader fuel m) s (fun _ s' => LPRel0 n ents s s') := by
  rw [stepLeader]
  rel_start
  wp_auto [first | lp_step | rel_loop (LPRel0 _ _)]
macro_rules | `(tactic| lp_step) => `(tactic| lp_call (stepLeader_lp ..))

theorem step_prop_leader (n : Nat) (ents : List Entry) (fuel : Nat) (m : Message) (s : Raft)
    (ht : m.typ = .prop) (h0 : m.term = 0) (hs : s.state = .leader) :
    Spec (step fuel m) s (fun _ s' => LPRel0 n ents s s') := by
  cases fuel with
  | zero => rw [step]; simp only [wp]
  | succ fuel =>
    rw [step]
    simp only [wp, h0, ht, hs]
    exact ⟨fun _ => stepLeader_lp n ents fuel m s, fun h => absurd (by decide) h⟩

theorem appliedTo_lp (n : Nat) (ents : List Entry) (fuel : Nat) (i sz : Nat) (s : Raft) :
    Spec (appliedTo fuel i sz) s (fun _ s' => LPRel0 n ents s s') := by
  rw [appliedTo]
  rel_start
  wp_auto [first | lp_step | lp_call (step_prop_leader _ _ _ _ _ rfl rfl (by simp_all))]
macro_rules | `(tactic| lp_step) => `(tactic| lp_call (appliedTo_lp ..))

theorem appliedSnap_lp (n : Nat) (ents : List Entry) (fuel : Nat) (snap : Snapshot) (s : Raft) :
    Spec (appliedSnap fuel snap) s (fun _ s' => LPRel0 n ents s s') := by
  rw [appliedSnap]
  rel_start
  wp_auto [lp_step]
macro_rules | `(tactic| lp_step) => `(tactic| lp_call (appliedSnap_lp ..))

/-- **`Step` keeps `LPRel0`** (no induction on the fuel is needed: the only nested `Step` is the auto-leave proposal
of `appliedTo`, stepped by a leader, which never forwards) -/
theorem step_lp0 (n : Nat) (ents : List Entry) (fuel : Nat) (m : Message) (s : Raft)
    (hfrom : m.typ = .app ∨ m.typ = .heartbeat ∨ m.typ = .snap → m.from ≠ n)
    (hents : m.typ = .prop → m.entries = ents) :
    Spec (step fuel m) s (fun _ s' => LPRel0 n ents s s') := by
  cases fuel with
  | zero => rw [step]; simp only [wp]
  | succ fuel =>
    rw [step]
    rel_start
    wp_auto [lp_step]

/-! ### `tick` -/

theorem tickElection_lp (n : Nat) (ents : List Entry) (s : Raft) :
    Spec tickElection s (fun _ s' => LPRel0 n ents s s') := by
  unfold tickElection
  rel_start
  wp_auto [first | lp_call (step_lp0 _ _ _ _ _ (by simp) (by simp)) | lp_step]

theorem tickHeartbeat_lp (n : Nat) (ents : List Entry) (s : Raft) :
    Spec tickHeartbeat s (fun _ s' => LPRel0 n ents s s') := by
  unfold tickHeartbeat
  rel_start
  wp_auto [first | lp_call (step_lp0 _ _ _ _ _ (by simp) (by simp)) | lp_step]

theorem tick_lp0 (n : Nat) (ents : List Entry) (s : Raft) : Spec tick s (fun _ s' => LPRel0 n ents s s') := by
  unfold tick
  rel_start
  wp_auto [first | lp_call (tickElection_lp ..) | lp_call (tickHeartbeat_lp ..)]

/-! ### the final relation and theorems -/

/-- the relation of the statement: `n ≠ 0` is a hypothesis of the theorems -/
structure LPRel (n : Nat) (ents : List Entry) (s s' : Raft) : Prop where
  cfg : s'.cfg = s.cfg
  lead : (s.lead = n → s.state = .leader) → (s'.lead = n → s'.state = .leader)
  msgs : ListExt (MsgOK s.cfg.id ents) s.msgs s'.msgs

theorem LPRel0.toLPRel {n : Nat} {ents : List Entry} {s s' : Raft} (hn : n ≠ 0) (h : LPRel0 n ents s s') :
    LPRel n ents s s' := ⟨h.cfg, h.lead hn, h.msgs⟩

theorem LPRel.leadOK {n : Nat} {ents : List Entry} {s s' : Raft} (h : LPRel n ents s s') (h0 : LeadOK n s) :
    LeadOK n s' := h.lead h0

/-- the messages of `s'.msgs` are those of `s.msgs` or new ones, which satisfy `MsgOK` -/
theorem LPRel.mem_msgs {n : Nat} {ents : List Entry} {s s' : Raft} (h : LPRel n ents s s') :
    ∀ x ∈ s'.msgs, x ∈ s.msgs ∨ MsgOK s.cfg.id ents x := by
  obtain ⟨suf, h1, h2⟩ := h.msgs
  intro x hx
  rw [h1] at hx
  rcases List.mem_append.1 hx with h | h
  · exact Or.inl h
  · exact Or.inr (h2 x h)

/-- **1.** `Raft.step` keeps (L), and the only new MsgProp is the forwarded `m` -/
theorem step_lp (n : Nat) (hn : n ≠ 0) (fuel : Nat) (m : Message) (ents : List Entry) (s : Raft)
    (hfrom : m.typ = .app ∨ m.typ = .heartbeat ∨ m.typ = .snap → m.from ≠ n)
    (hents : m.typ = .prop → m.entries = ents) :
    Spec (Raft.step fuel m) s (fun _ s' => LPRel n ents s s') :=
  (step_lp0 n ents fuel m s hfrom hents).mono fun _ _ h => h.toLPRel hn

/-- **2.** `Raft.tick` (it steps only MsgHup / MsgBeat / MsgCheckQuorum: any `ents` will do) -/
theorem tick_lp (n : Nat) (hn : n ≠ 0) (ents : List Entry) (s : Raft) :
    Spec Raft.tick s (fun _ s' => LPRel n ents s s') :=
  (tick_lp0 n ents s).mono fun _ _ h => h.toLPRel hn

/-! ### `RawNode` -/

theorem runM_lp0 {α : Type} (n : Nat) (ents : List Entry) (rn rn' : RawNode) (draws : List Nat) (act : M α) (a : α)
    (hact : ∀ s, Spec act s (fun _ s' => LPRel0 n ents s s')) (h : rn.runM draws act = .ok (a, rn')) :
    LPRel0 n ents rn.raft rn'.raft := by
  unfold RawNode.runM at h
  obtain ⟨⟨a', r'⟩, hrun, h⟩ := bind_eq_ok.1 h
  have hg : LPRel0 n ents { rn.raft with draws := draws } r' := (hact _).elim hrun
  have h0 : LPRel0 n ents rn.raft { rn.raft with draws := draws } := LPRel0.of_lead rfl (fun _ => id) rfl
  by_cases hd : (!r'.draws.isEmpty) = true
  · simp [hd, throw, throwThe, MonadExceptOf.throw, bind, Except.bind] at h
  · simp only [hd, bind, Except.bind, pure, Except.pure] at h
    simp only [Bool.false_eq_true, if_false, Except.ok.injEq, Prod.mk.injEq] at h
    obtain ⟨_, rfl⟩ := h
    exact h0.trans hg

theorem advance_lp0 (n : Nat) (ents : List Entry) (rn rn' : RawNode) (draws : List Nat)
    (hsoa : ∀ m ∈ rn.stepsOnAdvance,
      (m.typ = .app ∨ m.typ = .heartbeat ∨ m.typ = .snap → m.from ≠ n) ∧ m.typ ≠ .prop)
    (h : rn.advance draws = .ok rn') : LPRel0 n ents rn.raft rn'.raft := by
  unfold RawNode.advance at h
  by_cases ha : rn.async = true
  · simp [ha, throw, throwThe, MonadExceptOf.throw, bind, Except.bind] at h
  · simp only [ha, Bool.false_eq_true, if_false] at h
    obtain ⟨⟨u, rn1⟩, hrun, h⟩ := bind_eq_ok.1 h
    simp only [pure, Except.pure, Except.ok.injEq] at h
    subst h
    refine runM_lp0 n ents rn rn1 draws _ u ?_ hrun
    intro s
    clear hrun
    rel_start
    simp (config := {zeta := false}) only [wp]
    refine Spec.call (Spec.forIn_list_rel _ _ _ (LPRel0 n ents) RelOK.refl (fun _ _ _ => RelOK.trans) _ ?_)
      (by rel_acc) ?_
    · intro m hm _ mid
      rel_start
      simp (config := {zeta := false}) only [wp]
      lp_call (step_lp0 _ _ _ _ _ (hsoa m hm).1 (fun h => absurd h (hsoa m hm).2))
      rel_acc
    · intro _ _ _
      wp_auto [fail]

/-- **3.** the replay loop of `RawNode.advance` (the replayed messages are never MsgProp) -/
theorem advance_lp (n : Nat) (hn : n ≠ 0) (rn rn' : RawNode) (draws : List Nat)
    (hsoa : ∀ m ∈ rn.stepsOnAdvance,
      (m.typ = .app ∨ m.typ = .heartbeat ∨ m.typ = .snap → m.from ≠ n) ∧ m.typ ≠ .prop)
    (h : rn.advance draws = .ok rn') :
    rn'.raft.cfg = rn.raft.cfg ∧ (LeadOK n rn.raft → LeadOK n rn'.raft) ∧
    ∀ x ∈ rn'.raft.msgs, x ∈ rn.raft.msgs ∨
      (x.typ ≠ .prop ∧ (x.typ = .heartbeatResp → x.from = rn.raft.cfg.id ∧ x.to ≠ rn.raft.cfg.id)) := by
  have h1 := (advance_lp0 n [] rn rn' draws hsoa h).toLPRel hn
  have h2 := (advance_lp0 n [{}] rn rn' draws hsoa h).toLPRel hn
  refine ⟨h1.cfg, h1.lead, fun x hx => ?_⟩
  rcases h1.mem_msgs x hx with h | ⟨ha, hb⟩
  · exact Or.inl h
  rcases h2.mem_msgs x hx with h | ⟨hc, _⟩
  · exact Or.inl h
  refine Or.inr ⟨fun ht => ?_, hb⟩
  have := (ha ht).symm.trans (hc ht)
  cases this

/-- `RawNode.rstep` (hence `RawNode.step`, `propose`, `campaign`, …) -/
theorem rstep_lp (n : Nat) (hn : n ≠ 0) (rn rn' : RawNode) (draws : List Nat) (m : Message) (ents : List Entry)
    (e : Option ApiErr) (hfrom : m.typ = .app ∨ m.typ = .heartbeat ∨ m.typ = .snap → m.from ≠ n)
    (hents : m.typ = .prop → m.entries = ents) (h : rn.rstep draws m = .ok (e, rn')) :
    LPRel n ents rn.raft rn'.raft := by
  unfold RawNode.rstep at h
  obtain ⟨⟨a, rn1⟩, hrun, h⟩ := bind_eq_ok.1 h
  simp only [pure, Except.pure, Except.ok.injEq, Prod.mk.injEq] at h
  obtain ⟨_, rfl⟩ := h
  exact (runM_lp0 n ents rn rn1 draws _ a (fun s => step_lp0 n ents _ m s hfrom hents) hrun).toLPRel hn

/-- `RawNode.tick` -/
theorem rawTick_lp (n : Nat) (hn : n ≠ 0) (rn rn' : RawNode) (draws : List Nat) (ents : List Entry)
    (h : rn.tick draws = .ok rn') : LPRel n ents rn.raft rn'.raft := by
  unfold RawNode.tick at h
  obtain ⟨⟨a, rn1⟩, hrun, h⟩ := bind_eq_ok.1 h
  simp only [pure, Except.pure, Except.ok.injEq] at h
  subst h
  exact (runM_lp0 n ents rn rn1 draws _ a (fun s => tick_lp0 n ents s) hrun).toLPRel hn

end RaftVerif.NoPanicP
