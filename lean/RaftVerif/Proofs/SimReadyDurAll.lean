import RaftVerif.Proofs.SimReadyDur
import RaftVerif.Proofs.SimAppRespD
import RaftVerif.Proofs.SimSpecInv
/-!
# Proofs/SimReadyDurAll — `syncRound` re-establishes `DurInv` and covers all vote requests of the node by its new
durable term (crash support); no abstract hypotheses
-/
namespace RaftVerif.Sim
open Refine Raft
set_option linter.unusedSimpArgs false

theorem appRespDOK (val : Val) (voters : List Id) (n : Nat) : AppRespDOK val voters n := by
  intro s r r' m e hinv hreach ht hterm hin h
  have h' : (Raft.step (2 + 1) m).run r = .ok (e, r') := h
  exact simD_appResp_same hinv hreach ht hterm hin h'

/-- the corner "the hard state is all-zero but differs from the stored one" does not exist: the durable Spec version
is not ahead of the volatile one, and a version of term 0 has neither voted nor committed -/
theorem prevHard_of_empty {val : Val} {voters : List Id} {n : Nat} {s : Spec.State} {rn : RawNode}
    (hI : RaftInv val voters n rn.raft (s.nodes n) s.msgs) (hdur : DurInv val voters rn (s.nodes n))
    (hcfg : (cfgOf voters).OK) (hreach : Spec.Reachable (cfgOf voters) s)
    (he : (RawNode.hardState rn.raft).isEmpty = true) : rn.prevHard = RawNode.hardState rn.raft := by
  have he' : rn.raft.term = 0 ∧ rn.raft.vote = 0 ∧ rn.raft.log.committed = 0 := by
    simpa [HardState.isEmpty, RawNode.hardState, and_assoc] using he
  have hle := (nodeOK_reachable hreach n).dur_le_vol.term_le
  rw [hI.abs.term, he'.1] at hle
  have ht0 : (s.nodes n).dur.term = 0 := by omega
  obtain ⟨hv0, hc0⟩ := (spec_term_zero hcfg hreach).1 n (s.nodes n).dur (by simp [Spec.versions]) ht0
  rw [hdur.prev]
  apply hardState_ext
  · rw [← hdur.term, ht0]; exact he'.1.symm
  · rw [← hdur.vote, hv0]; exact he'.2.1.symm
  · rw [← hdur.commit, hc0]; exact he'.2.2.symm

/-- **the environment step `syncRound`, with the durable invariant** -/
theorem sim_syncRound_D {val : Val} {voters : List Id} {n : Nat} {s : Spec.State} {rn rn' : RawNode} {rd : Ready}
    {draws : List Nat} (hinv : NodeInv val voters n rn (s.nodes n) s.msgs) (haux : AuxInv n rn.raft)
    (hset : Settled rn.raft) (hprom : ∀ m ∈ rn.raft.msgsAfterAppend, isPromise m.typ = true)
    (hdur : DurInv val voters rn (s.nodes n)) (hne : voters ≠ []) (hnd : voters.Nodup)
    (hreach : Spec.Reachable (cfgOf voters) s) (h : syncRound rn draws = .ok (rd, rn')) :
    ∃ as s', RunL (cfgOf voters) s as s' ∧ (∀ a ∈ as, a.actor = n) ∧ NodeInv val voters n rn' (s'.nodes n) s'.msgs ∧
      (∀ m ∈ rd.messages, NetOK val s'.msgs m) ∧ AuxInv n rn'.raft ∧ Settled rn'.raft ∧
      (∀ m ∈ rn'.raft.msgsAfterAppend, isPromise m.typ = true) ∧ (∀ m ∈ rd.messages, NetFrom m) ∧
      DurInv val voters rn' (s'.nodes n) ∧
      (∀ t lt li, Spec.Msg.reqVote t n lt li ∈ s'.msgs → t ≤ (s'.nodes n).dur.term) := by
  have hcfg : (cfgOf voters).OK := Spec.jointCfg_ok voters [] hne hnd (by simp)
  obtain ⟨as, s', h1, h2, h3, h4, ⟨h5, h6, h7⟩, h8, hd', hrv⟩ :=
    sim_syncRound2D (appRespDOK val voters n) hinv ⟨haux, hset, hprom⟩ hreach h
  refine ⟨as, s', h1, h2, h3, h4, h5, h6, h7, h8, ?_, ?_⟩
  · exact durInv_after_round hinv hset hdur (prevHard_of_empty hinv.inv hdur hcfg hreach) hd' h
  · intro t lt li hx
    rw [hd', hinv.inv.abs.term]
    exact hinv.inv.rvTerm t lt li (hrv t lt li hx)

end RaftVerif.Sim
