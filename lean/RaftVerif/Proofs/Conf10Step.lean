import RaftVerif.Proofs.Conf10Closed
import RaftVerif.Proofs.LogMutate
/-!
# Proofs/Conf10Step — outcome of a MsgProp at the leader, and the invariant (I)

* `stepLeader_prop_outcome` — gate, then dropped (only `pendingConfIndex` changed) or appended + `bcastAppend`
* `OwnTermCCInv` — (I): configuration changes of the own term above `applied` are at or below
  `pendingConfIndex`, and there is at most one
* `accepted_prop_keeps_inv` — an accepted proposal keeps (I) and `RaftLog.WF`
Core Lean only.
-/
namespace RaftVerif.Conf10
open Raft

theorem cloneEntries_length (r : Raft) (ents : List Entry) : (cloneEntries r ents).length = ents.length := by
  simp [cloneEntries]

theorem cloneEntries_getElem? (r : Raft) (ents : List Entry) (k : Nat) :
    (cloneEntries r ents)[k]? =
      (ents[k]?).map (fun e => { e with term := r.term, index := r.log.lastIndex + 1 + k }) := by
  simp only [cloneEntries, List.getElem?_map, List.getElem?_zipIdx, Option.map_map]
  cases ents[k]? <;> simp

theorem cloneEntries_contig (r : Raft) (ents : List Entry) : Contig (r.log.lastIndex + 1) (cloneEntries r ents) := by
  intro k hk
  have h := cloneEntries_getElem? r ents k
  rw [List.getElem?_eq_getElem hk] at h
  cases he : ents[k]? with
  | none => rw [he] at h; cases h
  | some e =>
    rw [he] at h
    simp only [Option.map_some, Option.some.injEq] at h
    rw [h]

/-- the state right after a successful `appendEntry ents` in state `s` -/
def appended (s : Raft) (ents : List Entry) (l : RaftLog) (li : Nat) : Raft :=
  { s with uncommittedSize := s.uncommittedSize + payloadsSize ents, log := l,
           msgsAfterAppend := s.msgsAfterAppend ++
             [{ to := s.cfg.id, «from» := s.cfg.id, typ := .appResp, index := li, term := s.term }] }

/-- **outcome of a MsgProp at a leader** (self progress entry present, no leadership transfer): the gate
runs; then either the proposal is dropped by the uncommitted-size limit — the state is unchanged except
for `pendingConfIndex`, which keeps the value the gate gave it — or the gated entries are appended with
the leader's term and consecutive indexes and `bcastAppend` runs -/
theorem stepLeader_prop_outcome (fuel : Nat) (m : Message) (r r' : Raft) (res : Option StepErr)
    (hm : m.typ = .prop) (hne : m.entries ≠ []) (hself : (r.trk.getProgress r.cfg.id).isNone = false)
    (hlt : r.leadTransferee = 0) (h : (stepLeader fuel m).run r = .ok (res, r')) :
    ∃ ents pci, gate r r.pendingConfIndex m.entries.zipIdx = .ok (ents, pci) ∧
      ((res = some .proposalDropped ∧ r' = withPCI r pci ∧
          (r.uncommittedSize > 0 ∧ payloadsSize ents > 0 ∧
            r.uncommittedSize + payloadsSize ents > r.cfg.maxUncommittedSize)) ∨
       (res = none ∧ ¬ (r.uncommittedSize > 0 ∧ payloadsSize ents > 0 ∧
            r.uncommittedSize + payloadsSize ents > r.cfg.maxUncommittedSize) ∧
          ∃ l li, r.log.append (cloneEntries r ents) = .ok (l, li) ∧
            SendFrame (appended (withPCI r pci) ents l li) r')) := by
  rw [stepLeader_prop_gate_run fuel m r hm hne hself hlt] at h
  cases hg : gate r r.pendingConfIndex m.entries.zipIdx with
  | error s => rw [hg] at h; cases h
  | ok q =>
    obtain ⟨ents, pci⟩ := q
    rw [hg] at h
    simp only [StateT.run_bind, appendEntry_run] at h
    refine ⟨ents, pci, rfl, ?_⟩
    by_cases hs : (withPCI r pci).uncommittedSize > 0 ∧ payloadsSize ents > 0 ∧
            (withPCI r pci).uncommittedSize + payloadsSize ents > (withPCI r pci).cfg.maxUncommittedSize
    · rw [if_pos hs] at h
      simp only [P_ok_bind, Bool.not_false, ↓reduceIte, StateT.run_pure, P_pure_eq, Except.ok.injEq,
        Prod.mk.injEq] at h
      exact Or.inl ⟨h.1.symm, h.2.symm, hs⟩
    · rw [if_neg hs] at h
      cases ha : (withPCI r pci).log.append (cloneEntries (withPCI r pci) ents) with
      | error e => rw [ha] at h; cases h
      | ok p =>
        obtain ⟨l, li⟩ := p
        rw [ha] at h
        simp only [P_ok_bind, Bool.not_true, Bool.false_eq_true, ↓reduceIte, StateT.run_bind] at h
        change (do let p ← StateT.run bcastAppend (appended (withPCI r pci) ents l li)
                   StateT.run (pure none) p.snd) = _ at h
        cases hb : bcastAppend.run (appended (withPCI r pci) ents l li) with
        | error e => rw [hb] at h; cases h
        | ok q =>
          obtain ⟨u, r2⟩ := q
          rw [hb] at h
          simp only [P_ok_bind, StateT.run_pure, P_pure_eq, Except.ok.injEq, Prod.mk.injEq] at h
          obtain ⟨rfl, rfl⟩ := h
          exact Or.inr ⟨rfl, hs, l, li, ha, (bcastAppend_sf _).elim hb⟩


/-! ### the invariant "at most one unapplied configuration change of the own term, and it is at
`pendingConfIndex`" -/

/-- (I): every configuration-change entry of the node's current term in the logical log
(`r.log.abs`) above `applied` has index `≤ pendingConfIndex`, and there is at most one such entry -/
structure OwnTermCCInv (r : Raft) : Prop where
  le_pci : ∀ i e, r.log.abs.entry? i = some e → e.getType ≠ .normal → e.term = r.term → r.log.applied < i →
    i ≤ r.pendingConfIndex
  unique : ∀ i j ei ej, r.log.abs.entry? i = some ei → r.log.abs.entry? j = some ej →
    ei.getType ≠ .normal → ej.getType ≠ .normal → ei.term = r.term → ej.term = r.term →
    r.log.applied < i → r.log.applied < j → i = j

theorem GateClosed.pci_cases {r : Raft} {k pci : Nat} {es ents : List Entry} {pci' : Nat}
    (h : GateClosed r k pci es ents pci') : pci' = pci ∨ pci ≤ r.log.applied := by
  rcases h with ⟨_, _, h⟩ | ⟨_, _, _, _, _, _, _, h, _, _⟩
  · exact Or.inl h
  · exact Or.inr h.1

/-- position of the only configuration change that survives the gate -/
theorem GateClosed.cc_position {r : Raft} {k pci : Nat} {es ents : List Entry} {pci' : Nat}
    (h : GateClosed r k pci es ents pci') {j : Nat} {y : Entry} (hy : ents[j]? = some y)
    (hcc : y.getType ≠ .normal) : pci' = r.log.lastIndex + k + j + 1 ∧ pci ≤ r.log.applied := by
  rcases h with ⟨_, rfl, _⟩ | ⟨pre, e, post, cc, _, _, _, hacc, rfl, rfl⟩
  · exfalso
    obtain ⟨x, _, rfl⟩ := List.mem_map.1 (List.mem_of_getElem? hy)
    exact hcc (neut_getType x)
  · rcases Nat.lt_trichotomy j pre.length with hlt | heq | hgt
    · exfalso
      rw [List.getElem?_append_left (by simpa using hlt)] at hy
      obtain ⟨x, _, rfl⟩ := List.mem_map.1 (List.mem_of_getElem? hy)
      exact hcc (neut_getType x)
    · subst heq
      exact ⟨rfl, hacc.1⟩
    · exfalso
      rw [List.getElem?_append_right (by simp; omega), List.length_map] at hy
      obtain ⟨d, hd⟩ : ∃ d, j - pre.length = d + 1 := ⟨j - pre.length - 1, by omega⟩
      rw [hd, List.getElem?_cons_succ] at hy
      obtain ⟨x, _, rfl⟩ := List.mem_map.1 (List.mem_of_getElem? hy)
      exact hcc (neut_getType x)

theorem mem_cloneEntries {r : Raft} {ents : List Entry} {x : Entry} (hx : x ∈ cloneEntries r ents) :
    x.term = r.term ∧ ∃ j y, ents[j]? = some y ∧ x.getType = y.getType ∧ x.index = r.log.lastIndex + 1 + j := by
  obtain ⟨j, hj⟩ := List.getElem?_of_mem hx
  rw [cloneEntries_getElem?] at hj
  cases hy : ents[j]? with
  | none => rw [hy] at hj; cases hj
  | some y =>
    rw [hy] at hj
    simp only [Option.map_some, Option.some.injEq] at hj
    subst hj
    exact ⟨rfl, j, y, hy, rfl, rfl⟩


/-- **an accepted proposal keeps (I)** (validation enabled, well-formed log) -/
theorem accepted_prop_keeps_inv (fuel : Nat) (m : Message) (r r' : Raft)
    (hm : m.typ = .prop) (hne : m.entries ≠ []) (hself : (r.trk.getProgress r.cfg.id).isNone = false)
    (hlt : r.leadTransferee = 0) (hval : r.cfg.disableConfChangeValidation = false)
    (hwf : r.log.WF) (hinv : OwnTermCCInv r)
    (h : (stepLeader fuel m).run r = .ok (none, r')) : OwnTermCCInv r' ∧ r'.log.WF := by
  obtain ⟨ents, pci, hg, hcase⟩ := stepLeader_prop_outcome fuel m r r' none hm hne hself hlt h
  rcases hcase with ⟨h0, _⟩ | ⟨_, _, l, li, ha, hsf⟩
  · cases h0
  have happ : r.log.applied ≤ r.log.lastIndex :=
    Nat.le_trans (Nat.le_trans hwf.appliedLeApplying hwf.applyingLeCommitted) hwf.committedLeLast
  have hclosed := gate_closed r hval happ m.entries 0 r.pendingConfIndex ents pci hg
  have hlen : ents.length = m.entries.length := by
    rw [gate_length hg, List.length_zipIdx]
  have hlog : r'.log = l := hsf.log
  have hterm : r'.term = r.term := hsf.term
  have hpci : r'.pendingConfIndex = pci := hsf.pendingConfIndex
  have hlast := RaftLog.lastIndex_abs hwf
  -- the appended list is non-empty
  cases hce : cloneEntries r ents with
  | nil =>
    have := cloneEntries_length r ents
    rw [hce, hlen] at this
    exact absurd (List.length_eq_zero_iff.mp this.symm) hne
  | cons e0 rest =>
    have hc : Contig (r.log.lastIndex + 1) (e0 :: rest) := hce ▸ cloneEntries_contig r ents
    have he0 : e0.index = r.log.lastIndex + 1 := hc.head_index
    rw [← he0] at hc
    rw [hce] at ha
    have hbase : r.log.abs.base < e0.index := by
      have : r.log.abs.base ≤ r.log.abs.last := Nat.le_add_right _ _
      omega
    have hnogap : e0.index ≤ r.log.abs.last + 1 := by omega
    rcases RaftLog.append_spec hwf e0 rest hc (by omega) with ⟨_, herr⟩ | ⟨_, _, herr⟩ |
        ⟨_, _, l', hok, hwf', habs, _, _, _, _, _, happl, _⟩
    · rw [herr] at ha; cases ha
    · rw [herr] at ha; cases ha
    rw [hok] at ha
    simp only [Except.ok.injEq, Prod.mk.injEq] at ha
    obtain ⟨rfl, _⟩ := ha
    have hwfa := hwf'.abs_wf
    -- every configuration change of the new log is an old one or the one the gate kept
    have key : ∀ i e, l'.abs.entry? i = some e → e.getType ≠ .normal →
        r.log.abs.entry? i = some e ∨ (e.term = r.term ∧ i = pci ∧ r.pendingConfIndex ≤ r.log.applied) := by
      intro i e hie hcc
      by_cases hi : i < e0.index
      · left
        rw [habs, ALog.overwrite_entry?_lt _ e0 rest hnogap hi] at hie
        exact hie
      · right
        have hmem : e ∈ e0 :: rest := by
          rw [habs] at hie
          exact ALog.overwrite_hides_old _ e0 rest hbase hnogap (by omega) hie
        rw [← hce] at hmem
        obtain ⟨ht, j, y, hy, hty, hidx⟩ := mem_cloneEntries hmem
        have hi' := (ALog.entry?_eq_some hwfa hie).1
        obtain ⟨hp, hq⟩ := hclosed.cc_position hy (hty ▸ hcc)
        exact ⟨ht, by omega, hq⟩
    refine ⟨⟨?_, ?_⟩, hlog ▸ hwf'⟩
    · intro i e hie hcc ht hai
      rw [hlog] at hie hai
      rw [hterm] at ht
      rw [hpci]
      rw [happl] at hai
      rcases key i e hie hcc with hold | ⟨_, hi, _⟩
      · have := hinv.le_pci i e hold hcc ht hai
        rcases hclosed.pci_cases with hp | hp
        · omega
        · omega
      · omega
    · intro i j ei ej hi hj hci hcj hti htj hai haj
      rw [hlog] at hi hj hai haj
      rw [hterm] at hti htj
      rw [happl] at hai haj
      rcases key i ei hi hci with holdi | ⟨_, hi', hpi⟩ <;> rcases key j ej hj hcj with holdj | ⟨_, hj', hpj⟩
      · exact hinv.unique i j ei ej holdi holdj hci hcj hti htj hai haj
      · have := hinv.le_pci i ei holdi hci hti hai
        omega
      · have := hinv.le_pci j ej holdj hcj htj haj
        omega
      · omega

/-- (I) survives anything that keeps the logical log, the term and `pendingConfIndex` and does not lower
`applied` (applying entries, committing, sending messages, ticking, …) -/
theorem OwnTermCCInv.of_applied_le {r r' : Raft} (h : OwnTermCCInv r) (habs : r'.log.abs = r.log.abs)
    (hterm : r'.term = r.term) (hpci : r'.pendingConfIndex = r.pendingConfIndex)
    (happ : r.log.applied ≤ r'.log.applied) : OwnTermCCInv r' := by
  constructor
  · intro i e hie hc ht hi
    rw [habs] at hie
    rw [hterm] at ht
    rw [hpci]
    exact h.le_pci i e hie hc ht (by omega)
  · intro i j ei ej hi hj hci hcj hti htj hai haj
    rw [habs] at hi hj
    rw [hterm] at hti htj
    exact h.unique i j ei ej hi hj hci hcj hti htj (by omega) (by omega)

end RaftVerif.Conf10
