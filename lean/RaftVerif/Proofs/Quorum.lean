import RaftVerif.Model.Quorum
/-! Helper lemmas for C12 (quorum arithmetic).  Core Lean only. -/
namespace RaftVerif.Quorum

theorem countP_ge_of_sorted (s : List Nat) (hs : s.Pairwise (· ≤ ·)) (i : Nat) (hi : i < s.length) :
    s.length - i ≤ s.countP (fun x => decide (s[i] ≤ x)) := by
  induction s generalizing i with
  | nil => simp at hi
  | cons a t ih =>
    rw [List.pairwise_cons] at hs
    cases i with
    | zero =>
      have hall : ∀ x ∈ (a :: t), (fun x => decide ((a :: t)[0] ≤ x)) x = true := by
        intro x hx
        simp only [List.getElem_cons_zero, decide_eq_true_eq]
        rcases List.mem_cons.mp hx with h | h
        · omega
        · exact hs.1 x h
      have : (a :: t).countP (fun x => decide ((a :: t)[0] ≤ x)) = (a :: t).length :=
        List.countP_eq_length.mpr hall
      omega
    | succ j =>
      have hj : j < t.length := by simpa using hi
      have := ih hs.2 j hj
      simp only [List.getElem_cons_succ, List.length_cons]
      rw [List.countP_cons]
      omega

theorem countP_le_of_sorted (s : List Nat) (hs : s.Pairwise (· ≤ ·)) (i : Nat) (hi : i < s.length)
    (k : Nat) (hk : s[i] < k) :
    s.countP (fun x => decide (k ≤ x)) ≤ s.length - i - 1 := by
  induction s generalizing i with
  | nil => simp at hi
  | cons a t ih =>
    rw [List.pairwise_cons] at hs
    cases i with
    | zero =>
      simp only [List.getElem_cons_zero] at hk
      rw [List.countP_cons]
      have : t.countP (fun x => decide (k ≤ x)) ≤ t.length := List.countP_le_length
      have h2 : decide (k ≤ a) = false := by simp; omega
      simp only [h2, List.length_cons]
      simp
      omega
    | succ j =>
      have hj : j < t.length := by simpa using hi
      simp only [List.getElem_cons_succ] at hk
      have hle : a ≤ t[j] := hs.1 _ (List.getElem_mem hj)
      have := ih hs.2 j hj hk
      rw [List.countP_cons]
      have h2 : decide (k ≤ a) = false := by simp; omega
      simp only [h2, List.length_cons]
      simp
      omega

theorem insertAsc_perm (x : Nat) (l : List Nat) : (insertAsc x l).Perm (x :: l) := by
  induction l with
  | nil => simp [insertAsc]
  | cons y ys ih =>
    unfold insertAsc
    split
    · exact List.Perm.refl _
    · exact (List.Perm.cons y ih).trans (List.Perm.swap x y ys)

theorem sortAsc_perm (l : List Nat) : (sortAsc l).Perm l := by
  induction l with
  | nil => simp [sortAsc]
  | cons x xs ih =>
    unfold sortAsc
    exact (insertAsc_perm x _).trans (List.Perm.cons x ih)

theorem insertAsc_sorted (x : Nat) (l : List Nat) (h : l.Pairwise (· ≤ ·)) :
    (insertAsc x l).Pairwise (· ≤ ·) := by
  induction l with
  | nil => simp [insertAsc]
  | cons y ys ih =>
    rw [List.pairwise_cons] at h
    unfold insertAsc
    split
    · rename_i hxy
      rw [List.pairwise_cons]
      refine ⟨?_, List.pairwise_cons.mpr h⟩
      intro z hz
      rcases List.mem_cons.mp hz with hz | hz
      · omega
      · have := h.1 z hz; omega
    · rename_i hxy
      rw [List.pairwise_cons]
      refine ⟨?_, ih h.2⟩
      intro z hz
      have hz' := (insertAsc_perm x ys).mem_iff.mp hz
      rcases List.mem_cons.mp hz' with hz' | hz'
      · omega
      · exact h.1 z hz'

theorem sortAsc_sorted (l : List Nat) : (sortAsc l).Pairwise (· ≤ ·) := by
  induction l with
  | nil => simp [sortAsc]
  | cons x xs ih => unfold sortAsc; exact insertAsc_sorted x _ ih

theorem sortedAcks_sorted (c : List Id) (ack : Id → Option Nat) :
    (sortedAcks c ack).Pairwise (· ≤ ·) := sortAsc_sorted _

theorem sortedAcks_perm (c : List Id) (ack : Id → Option Nat) :
    (sortedAcks c ack).Perm (c.map (ackOr0 ack)) := sortAsc_perm _

theorem sortedAcks_length (c : List Id) (ack : Id → Option Nat) :
    (sortedAcks c ack).length = c.length := by
  simpa using (sortedAcks_perm c ack).length_eq

theorem countP_sortedAcks (c : List Id) (ack : Id → Option Nat) (p : Nat → Bool) :
    (sortedAcks c ack).countP p = c.countP (fun v => p (ackOr0 ack v)) := by
  rw [(sortedAcks_perm c ack).countP_eq, List.countP_map]
  rfl

theorem quorumPos_lt (n : Nat) (h : 0 < n) : quorumPos n < n := by
  unfold quorumPos; omega

theorem minIdx_comm (a b : Option Nat) : minIdx a b = minIdx b a := by
  cases a <;> cases b <;> simp [minIdx]
  split <;> split <;> omega

end RaftVerif.Quorum
