import RaftVerif.Proofs.ConfChangeQuorum
/-!
# Proofs/ConfChangeAccept — exact acceptance conditions on valid configurations (the final
`checkInvariants` of `Simple / EnterJoint / LeaveJoint` never fails), and the meaning of `symdiff`
-/
namespace RaftVerif
set_option linter.unusedSimpArgs false
set_option linter.unusedVariables false

theorem nodup_length_le_one_iff {l : List Id} (h : l.Nodup) :
    l.length ≤ 1 ↔ ∀ x ∈ l, ∀ y ∈ l, x = y := by
  cases l with
  | nil => simp
  | cons a t =>
    cases t with
    | nil => simp
    | cons b u =>
      simp only [List.length_cons]
      constructor
      · intro hl; omega
      · intro hall
        have := hall a (by simp) b (by simp)
        subst this
        simp at h

theorem symdiff_le_one_iff_aux (a b : List Id) (ha : a.Nodup) (hb : b.Nodup) :
    symdiff a b ≤ 1 ↔
      ∀ x y, ((x ∈ a ∧ x ∉ b) ∨ (x ∈ b ∧ x ∉ a)) → ((y ∈ a ∧ y ∉ b) ∨ (y ∈ b ∧ y ∉ a)) → x = y := by
  have hlen : symdiff a b =
      (a.filter (fun id => !b.contains id) ++ b.filter (fun id => !a.contains id)).length := by
    unfold symdiff
    rw [List.length_append, List.countP_eq_length_filter, List.countP_eq_length_filter]
  have hnd : (a.filter (fun id => !b.contains id) ++ b.filter (fun id => !a.contains id)).Nodup := by
    rw [List.nodup_append]
    refine ⟨ha.filter _, hb.filter _, ?_⟩
    intro x hx y hy e
    subst e
    simp only [List.mem_filter, Bool.not_eq_true'] at hx hy
    have : a.contains x = true := List.contains_iff_mem.mpr hx.1
    rw [hy.2] at this; cases this
  rw [hlen, nodup_length_le_one_iff hnd]
  have hmem : ∀ x, x ∈ (a.filter (fun id => !b.contains id) ++ b.filter (fun id => !a.contains id)) ↔
      ((x ∈ a ∧ x ∉ b) ∨ (x ∈ b ∧ x ∉ a)) := by
    intro x
    simp [List.mem_append, List.mem_filter]
  constructor
  · intro h x y hx hy
    exact h x ((hmem x).mpr hx) y ((hmem y).mpr hy)
  · intro h x hx y hy
    exact h x y ((hmem x).mp hx) ((hmem y).mp hy)

theorem confInv_clone {cfg : TrackerConfig} {trk : ProgressMap} (h : ConfInv cfg trk) :
    ConfInv cfg.clone trk :=
  ⟨h.progress, h.learnersNext, h.learners, fun hj => ⟨(h.nonJoint hj).1, (h.nonJoint hj).2.1, rfl⟩⟩

theorem joint_eq_false_iff (cfg : TrackerConfig) : joint cfg = false ↔ cfg.outgoing.getD [] = [] := by
  simp [joint]

theorem outgoing_none_iff {cfg : TrackerConfig} (hw : OptWF cfg.outgoing) :
    cfg.outgoing = none ↔ cfg.outgoing.getD [] = [] :=
  ⟨fun h => by rw [h]; rfl, optWF_getD_nil hw⟩

theorem simple_accepts_iff_aux (c : Changer) (ccs : List ConfChangeSingle) (r : CS)
    (hs : ConfInvStrong c.tracker.cfg c.tracker.progress) :
    c.simple ccs = .ok r ↔
      c.tracker.cfg.outgoing = none ∧
      r = ccs.foldl (applyStep c) (c.tracker.cfg.clone, c.tracker.progress) ∧
      r.1.voters ≠ [] ∧ symdiff c.tracker.cfg.voters r.1.voters ≤ 1 := by
  rw [simple_ok_iff]
  have hci : checkInvariants c.tracker.cfg.clone c.tracker.progress = .ok () :=
    (checkInvariants_ok_iff _ _).mpr (confInv_clone hs.inv)
  have hjn : joint c.tracker.cfg.clone = false ↔ c.tracker.cfg.outgoing = none := by
    rw [joint_eq_false_iff, clone_outgoing, outgoing_none_iff hs.wf.outgoing]
  constructor
  · rintro ⟨_, hj, hr, hv, hsd, _⟩
    exact ⟨hjn.mp hj, hr, hv, hsd⟩
  · rintro ⟨hj, hr, hv, hsd⟩
    refine ⟨hci, hjn.mpr hj, hr, hv, hsd, ?_⟩
    have h0 := sem_clone (fun id hid => (hs.keysExact id).mp hid) hci
    have h1 := fold_sem c ccs (c.tracker.cfg.clone, c.tracker.progress) h0
    rw [← hr] at h1
    exact (checkInvariants_ok_iff _ _).mpr ((semInv_iff _ _).mp h1).1

theorem enterJoint_accepts_iff_aux (c : Changer) (al : Bool) (ccs : List ConfChangeSingle) (r : CS)
    (hs : ConfInvStrong c.tracker.cfg c.tracker.progress) :
    c.enterJoint al ccs = .ok r ↔
      c.tracker.cfg.outgoing = none ∧
      (enterJointFold c ccs).1.voters ≠ [] ∧
      r = ({ (enterJointFold c ccs).1 with autoLeave := al }, (enterJointFold c ccs).2) := by
  rw [enterJoint_ok_iff]
  have hci : checkInvariants c.tracker.cfg.clone c.tracker.progress = .ok () :=
    (checkInvariants_ok_iff _ _).mpr (confInv_clone hs.inv)
  have hjn : joint c.tracker.cfg.clone = false ↔ c.tracker.cfg.outgoing = none := by
    rw [joint_eq_false_iff, clone_outgoing, outgoing_none_iff hs.wf.outgoing]
  constructor
  · rintro ⟨_, hj, _, hv, hr, _⟩
    exact ⟨hjn.mp hj, hv, hr⟩
  · rintro ⟨hj, hv, hr⟩
    refine ⟨hci, hjn.mpr hj, hs.votersNe, hv, hr, ?_⟩
    have h0 := sem_enter (fun id hid => (hs.keysExact id).mp hid) hci (hjn.mpr hj) hs.votersNe
    have h1 := fold_sem c ccs
      ({ c.tracker.cfg.clone with outgoing := some c.tracker.cfg.clone.voters }, c.tracker.progress) h0
    have h3 := (fold_outgoing c ccs
      ({ c.tracker.cfg.clone with outgoing := some c.tracker.cfg.clone.voters }, c.tracker.progress)).1
    change SemInv (enterJointFold c ccs).1 (enterJointFold c ccs).2 at h1
    change (enterJointFold c ccs).1.outgoing = some c.tracker.cfg.voters at h3
    have hne : (enterJointFold c ccs).1.outgoing.getD [] ≠ [] := by rw [h3]; exact hs.votersNe
    subst hr
    exact (checkInvariants_ok_iff _ _).mpr ((semInv_iff _ _).mp (semInv_autoLeave al h1 hne)).1

theorem leaveJointResult_inv (c : Changer)
    (hs : ConfInvStrong c.tracker.cfg c.tracker.progress) (hd : StagedDisjoint c.tracker.cfg) :
    ConfInv (leaveJointResult c).1 (leaveJointResult c).2 := by
  obtain ⟨h1, h2, h3, h4, h5, h6, h7, h8⟩ := leaveJointResult_spec c
  have hi := hs.inv
  refine ⟨?_, ?_, ?_, ?_⟩
  · intro x hx
    unfold cfgMember at hx
    rw [h1, h2, h3, h5 x] at hx
    simp only [Option.getD_none, List.not_mem_nil, false_or, or_false] at hx
    rw [h7 x]
    have hmem : cfgMember c.tracker.cfg x := by unfold cfgMember; grind
    obtain ⟨p, hp⟩ := hi.progress x hmem
    rw [if_neg (by grind)]
    split
    · exact ⟨setLearner p, by rw [hp]; rfl⟩
    · exact ⟨p, hp⟩
  · intro x hx; rw [h3] at hx; simp at hx
  · intro x hx
    rw [h5 x] at hx
    rw [h1, h2, h7 x]
    refine ⟨by simp, ?_, ?_⟩
    · rcases hx with hx | hx
      · exact hd x hx
      · exact (hi.learners x hx).2.1
    · rw [if_neg (by grind)]
      by_cases hln : x ∈ c.tracker.cfg.learnersNext.getD []
      · rw [if_pos hln]
        obtain ⟨_, p, hp, _⟩ := hi.learnersNext x hln
        exact ⟨setLearner p, by rw [hp]; rfl, rfl⟩
      · rw [if_neg hln]
        rcases hx with hx | hx
        · exact absurd hx hln
        · exact (hi.learners x hx).2.2
  · intro _; exact ⟨h2, h3, h4⟩

theorem leaveJoint_accepts_iff_aux (c : Changer) (r : CS)
    (hs : ConfInvStrong c.tracker.cfg c.tracker.progress) (hd : StagedDisjoint c.tracker.cfg) :
    c.leaveJoint = .ok r ↔ c.tracker.cfg.outgoing ≠ none ∧ r = leaveJointResult c := by
  rw [leaveJoint_ok_iff]
  have hci : checkInvariants c.tracker.cfg.clone c.tracker.progress = .ok () :=
    (checkInvariants_ok_iff _ _).mpr (confInv_clone hs.inv)
  have hjn : joint c.tracker.cfg.clone = true ↔ c.tracker.cfg.outgoing ≠ none := by
    rw [← Bool.not_eq_false, joint_eq_false_iff, clone_outgoing, ← outgoing_none_iff hs.wf.outgoing]
  constructor
  · rintro ⟨_, hj, hr, _⟩
    exact ⟨hjn.mp hj, hr⟩
  · rintro ⟨hj, hr⟩
    refine ⟨hci, hjn.mpr hj, hr, ?_⟩
    subst hr
    exact (checkInvariants_ok_iff _ _).mpr (leaveJointResult_inv c hs hd)

end RaftVerif
