import RaftVerif.Proofs.NoPanicAttr
import RaftVerif.Props.C14
import RaftVerif.Props.Simulation
/-!
# Proofs/NoPanicCalc — a calculus for `C14.NoErr act s` ("`act` does not throw from `s`")

`NoErr (x >>= f) s ↔ NoErr x s ∧ Spec x s (fun b mid => NoErr (f b) mid)`: the second conjunct is a
partial-correctness triple, so every existing `Spec` lemma about `x` can be used to learn facts about the
intermediate state.  `simp only [np, wp]` turns `NoErr (do …) s` into a formula.
-/
namespace RaftVerif.NoPanicP
open Raft C14

theorem NoErr.ok {α : Type} {act : M α} {s : Raft} (h : NoErr act s) : ∃ a s', act.run s = .ok (a, s') := by
  cases hr : act.run s with
  | error e => exact absurd hr (h e)
  | ok p => exact ⟨p.1, p.2, rfl⟩

theorem NoErr.of_ok {α : Type} {act : M α} {s s' : Raft} {a : α} (h : act.run s = .ok (a, s')) : NoErr act s := by
  intro e he; rw [h] at he; cases he

theorem NoErr.iff_ok {α : Type} (act : M α) (s : Raft) : NoErr act s ↔ ∃ a s', act.run s = .ok (a, s') :=
  ⟨NoErr.ok, fun ⟨_, _, h⟩ => NoErr.of_ok h⟩

@[np] theorem NoErr.pure_iff {α : Type} (a : α) (s : Raft) : NoErr (pure a : M α) s ↔ True :=
  iff_true_intro (NoErr.of_ok (a := a) (s' := s) rfl)

@[np] theorem NoErr.bind_iff {α β : Type} (x : M β) (f : β → M α) (s : Raft) :
    NoErr (x >>= f) s ↔ NoErr x s ∧ Spec x s (fun b mid => NoErr (f b) mid) := by
  rw [Spec.iff_runs]
  constructor
  · intro h
    refine ⟨fun e he => h e ((M_bind_error_iff x f s e).2 (Or.inl he)), fun b mid hr e he => ?_⟩
    exact h e ((M_bind_error_iff x f s e).2 (Or.inr ⟨b, mid, hr, he⟩))
  · rintro ⟨h1, h2⟩ e he
    rcases (M_bind_error_iff x f s e).1 he with h | ⟨b, mid, hr, h⟩
    · exact h1 e h
    · exact h2 b mid hr e h

@[np] theorem NoErr.get_iff (s : Raft) : NoErr (get : M Raft) s ↔ True :=
  iff_true_intro (NoErr.of_ok (a := s) (s' := s) rfl)

@[np] theorem NoErr.set_iff (x s : Raft) : NoErr (set x : M PUnit) s ↔ True :=
  iff_true_intro (NoErr.of_ok (a := ⟨⟩) (s' := x) rfl)

@[np] theorem NoErr.modify_iff (g : Raft → Raft) (s : Raft) : NoErr (modify g : M PUnit) s ↔ True :=
  iff_true_intro (NoErr.of_ok (a := ⟨⟩) (s' := g s) rfl)

@[np] theorem NoErr.throw_iff {α : Type} (e : String) (s : Raft) : NoErr (throw e : M α) s ↔ False := by
  refine iff_false_intro (fun h => h e ?_)
  rfl

@[np] theorem NoErr.liftP_iff {α : Type} (x : P α) (s : Raft) : NoErr (liftP x) s ↔ ∃ a, x = .ok a := by
  cases x with
  | error e => simp [liftP, NoErr.throw_iff]
  | ok a => simp [liftP, NoErr.pure_iff]

@[np] theorem NoErr.ite_iff {α : Type} (c : Prop) [Decidable c] (x y : M α) (s : Raft) :
    NoErr (if c then x else y) s ↔ (c → NoErr x s) ∧ (¬ c → NoErr y s) := by
  by_cases h : c <;> simp [h]

/-- sequencing with a known postcondition of the first action -/
theorem NoErr.bind_of {α β : Type} {x : M β} {f : β → M α} {s : Raft} {P : β → Raft → Prop}
    (h1 : NoErr x s) (hx : Spec x s P) (hf : ∀ b mid, P b mid → NoErr (f b) mid) : NoErr (x >>= f) s :=
  (NoErr.bind_iff x f s).2 ⟨h1, hx.mono hf⟩

theorem NoErr.map_iff {α β : Type} (g : β → α) (x : M β) (s : Raft) : NoErr (g <$> x) s ↔ NoErr x s := by
  rw [map_eq_pure_bind, NoErr.bind_iff]
  simp only [NoErr.pure_iff, and_iff_left_iff_imp]
  intro _
  rw [Spec.iff_runs]; intros; trivial

end RaftVerif.NoPanicP
