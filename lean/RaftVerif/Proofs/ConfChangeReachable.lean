import RaftVerif.Proofs.ConfChangeRoundtrip
/-!
# Proofs/ConfChangeReachable — the set of configurations a node can hold (`Reachable`) and its
invariant: the empty configuration or `ConfReach`
-/
namespace RaftVerif
set_option linter.unusedSimpArgs false
set_option linter.unusedVariables false

/-- `ConfReach` without "at least one voter" (true of the empty tracker as well) -/
structure PreReach (cfg : TrackerConfig) (trk : ProgressMap) : Prop where
  sem : SemInv cfg trk
  wf : ConfWF cfg
  ks : Sorted (keys trk)
  staged : StagedDisjoint cfg
  nonzero : ¬ cfgMember cfg 0

theorem ConfReach.pre {cfg : TrackerConfig} {trk : ProgressMap} (h : ConfReach cfg trk) : PreReach cfg trk :=
  ⟨h.strong.sem, h.strong.wf, h.strong.keysSorted, h.staged, h.nonzero⟩

theorem PreReach.reach {cfg : TrackerConfig} {trk : ProgressMap} (h : PreReach cfg trk) (hv : cfg.voters ≠ []) :
    ConfReach cfg trk :=
  ⟨strong_of_sem h.sem h.wf h.ks hv, h.staged, h.nonzero⟩

theorem prereach_start (mi mb li : Nat) :
    PreReach (restoreStart mi mb li).tracker.cfg (restoreStart mi mb li).tracker.progress :=
  ⟨(rinv_start mi mb li).rsem.sem, (rinv_start mi mb li).wf, (rinv_start mi mb li).ks,
    fun id hid => by simp [restoreStart, Tracker.make] at hid,
    by simp [restoreStart, Tracker.make, cfgMember]⟩

theorem simple_prereach (c : Changer) (ccs : List ConfChangeSingle) (r : CS)
    (hs : PreReach c.tracker.cfg c.tracker.progress) (h : c.simple ccs = .ok r) : ConfReach r.1 r.2 := by
  obtain ⟨hci, hj, hr, hv, _, _⟩ := (simple_ok_iff c ccs r).mp h
  have h0 : SemInv c.tracker.cfg.clone c.tracker.progress :=
    sem_clone ((semInv_iff _ _).mp hs.sem).2 hci
  have h1 := fold_sem c ccs (c.tracker.cfg.clone, c.tracker.progress) h0
  have h2 := fold_wf c ccs (c.tracker.cfg.clone, c.tracker.progress) ⟨confWF_clone hs.wf, hs.ks⟩
  have h3 := fold_staged c ccs (c.tracker.cfg.clone, c.tracker.progress) ⟨h0, hs.staged⟩
  have h4 := fold_nonzero c ccs (c.tracker.cfg.clone, c.tracker.progress) hs.nonzero
  rw [← hr] at h1 h2 h3 h4
  exact ⟨strong_of_sem h1 h2.1 h2.2 hv, h3, h4⟩

theorem simpleStep_ok {chg : Changer} {cc : ConfChangeSingle} {c1 : Changer} (h : simpleStep chg cc = .ok c1) :
    ∃ r, chg.simple [cc] = .ok r ∧ c1 = chgWith chg r := by
  unfold simpleStep at h
  cases hs : chg.simple [cc] with
  | error e => rw [hs] at h; cases h
  | ok r => rw [hs] at h; exact ⟨r, rfl, (Except.ok.inj h).symm⟩

theorem simpleFold_prereach (ccs : List ConfChangeSingle) (chg chg' : Changer)
    (hs : PreReach chg.tracker.cfg chg.tracker.progress) (h : simpleFold chg ccs = .ok chg') :
    PreReach chg'.tracker.cfg chg'.tracker.progress ∧
    ((ccs = [] ∧ chg' = chg) ∨ chg'.tracker.cfg.voters ≠ []) := by
  induction ccs generalizing chg with
  | nil =>
    have : chg' = chg := (Except.ok.inj h).symm
    subst this
    exact ⟨hs, Or.inl ⟨rfl, rfl⟩⟩
  | cons a t ih =>
    rw [simpleFold_cons] at h
    cases h1 : simpleStep chg a with
    | error e => rw [h1] at h; cases h
    | ok c1 =>
      rw [h1, ok_bind] at h
      obtain ⟨r, hr, hc1⟩ := simpleStep_ok h1
      have hreach := simple_prereach chg [a] r hs hr
      have hpre1 : PreReach c1.tracker.cfg c1.tracker.progress := by rw [hc1]; exact hreach.pre
      obtain ⟨i1, i2⟩ := ih c1 hpre1 h
      refine ⟨i1, Or.inr ?_⟩
      rcases i2 with ⟨_, e⟩ | hv
      · rw [e, hc1]; exact hreach.strong.votersNe
      · exact hv

/-- whatever `Restore` accepts from an empty tracker — for *any* ConfState — is the empty
configuration or a configuration satisfying the reachability invariant -/
theorem restore_reach (mi mb li : Nat) (cs : ConfState) (r : CS)
    (h : restoreConf (restoreStart mi mb li) cs = .ok r) :
    r = ({}, []) ∨ ConfReach r.1 r.2 := by
  rw [restore_eq] at h
  by_cases ho : cs.votersOutgoing = []
  · rw [if_pos ho] at h
    cases hf : simpleFold (restoreStart mi mb li)
        (cs.votersOutgoing.map (mkCC .removeNode) ++ cs.voters.map (mkCC .addNode) ++
          cs.learners.map (mkCC .addLearnerNode) ++ cs.learnersNext.map (mkCC .addLearnerNode)) with
    | error e => rw [hf] at h; cases h
    | ok chg =>
      rw [hf, ok_bind, pure_eq] at h
      have hr := (Except.ok.inj h).symm
      obtain ⟨i1, i2⟩ := simpleFold_prereach _ _ _ (prereach_start mi mb li) hf
      rcases i2 with ⟨_, e⟩ | hv
      · left; rw [hr, e]; rfl
      · right; rw [hr]; exact i1.reach hv
  · rw [if_neg ho] at h
    cases hf : simpleFold (restoreStart mi mb li) (cs.votersOutgoing.map (mkCC .addNode)) with
    | error e => rw [hf] at h; cases h
    | ok chg =>
      rw [hf, ok_bind] at h
      obtain ⟨i1, i2⟩ := simpleFold_prereach _ _ _ (prereach_start mi mb li) hf
      right
      rcases i2 with ⟨e, _⟩ | hv
      · exact absurd (List.map_eq_nil_iff.mp e) ho
      · exact enterJoint_reach chg cs.autoLeave _ r (i1.reach hv) h

/-! ### the set of configurations a node can ever hold -/

/-- the changer call made by `raft.applyConfChange` (`Model/Raft.lean`, `applyConfChange`) -/
def applyV2 (c : Changer) (cc : ConfChangeV2) : CE CS :=
  if cc.leaveJoint then c.leaveJoint
  else match cc.enterJoint with
    | some autoLeave => c.enterJoint autoLeave cc.changes
    | none => c.simple cc.changes

/-- configurations a node with inflight limits `mi mb` can hold: the result of `Restore` from an
empty tracker for an arbitrary ConfState (`newRaft`, snapshot `restore`), closed under accepted
ConfChangeV2 operations (any vote bookkeeping, any last index) -/
inductive Reachable (mi mb : Nat) : TrackerConfig → ProgressMap → Prop
  | restore (li : Nat) (cs : ConfState) (cfg : TrackerConfig) (trk : ProgressMap) :
      restoreConf { tracker := Tracker.make mi mb, lastIndex := li } cs = .ok (cfg, trk) →
      Reachable mi mb cfg trk
  | change (cfg : TrackerConfig) (trk : ProgressMap) (votes : List (Id × Bool)) (li : Nat)
      (cc : ConfChangeV2) (cfg' : TrackerConfig) (trk' : ProgressMap) :
      Reachable mi mb cfg trk →
      applyV2 { tracker := { cfg := cfg, progress := trk, votes := votes, maxInflight := mi,
                             maxInflightBytes := mb }, lastIndex := li } cc = .ok (cfg', trk') →
      Reachable mi mb cfg' trk'

theorem applyV2_reach (c : Changer) (cc : ConfChangeV2) (r : CS)
    (hs : ConfReach c.tracker.cfg c.tracker.progress) (h : applyV2 c cc = .ok r) : ConfReach r.1 r.2 := by
  unfold applyV2 at h
  split at h
  · exact leaveJoint_reach c r hs h
  · split at h
    · exact enterJoint_reach c _ _ r hs h
    · exact simple_reach c _ r hs h

theorem applyV2_empty (c : Changer) (cc : ConfChangeV2) (r : CS)
    (hc : c.tracker.cfg = {}) (hp : c.tracker.progress = [])
    (h : applyV2 c cc = .ok r) : ConfReach r.1 r.2 := by
  unfold applyV2 at h
  split at h
  · have := ((leaveJoint_ok_iff c r).mp h).2.1
    rw [hc] at this; simp [joint, TrackerConfig.clone] at this
  · split at h
    · have := ((enterJoint_ok_iff c _ _ r).mp h).2.2.1
      rw [hc] at this; exact absurd rfl this
    · apply simple_prereach c _ r _ h
      have := prereach_start 0 0 0
      rw [hc, hp]
      exact this

theorem reachable_inv {mi mb : Nat} {cfg : TrackerConfig} {trk : ProgressMap} (h : Reachable mi mb cfg trk) :
    (cfg = {} ∧ trk = []) ∨ ConfReach cfg trk := by
  induction h with
  | restore li cs cfg trk hr =>
    rcases restore_reach mi mb li cs (cfg, trk) hr with e | hreach
    · left; exact ⟨(Prod.mk.inj e).1, (Prod.mk.inj e).2⟩
    · right; exact hreach
  | change cfg trk votes li cc cfg' trk' _ happ ih =>
    right
    rcases ih with ⟨e1, e2⟩ | hreach
    · exact applyV2_empty _ cc (cfg', trk') e1 e2 happ
    · exact applyV2_reach _ cc (cfg', trk') hreach happ

theorem restore_empty (mi mb li : Nat) :
    restoreConf (restoreStart mi mb li) {} = .ok ({}, []) := by
  rw [restore_eq]; rfl

end RaftVerif
