import RaftVerif.Proofs.FlowSize
import RaftVerif.Model.Log
/-!
# Proofs/FlowLog — the size budget of `MemoryStorage.Entries`, `raftLog.slice`, `raftLog.entries`
(storage.go, log.go:499-548).  Core Lean only.
-/
namespace RaftVerif

theorem MemoryStorage.entries_sizeOK (ms : MemoryStorage) (lo hi maxSize : Nat) (es : List Entry)
    (h : ms.entries lo hi maxSize = .ok (.ok es)) : SizeOK maxSize es := by
  unfold MemoryStorage.entries at h
  repeat' split at h
  all_goals first
    | (cases h; done)
    | (injection h with h; injection h with h; subst h; exact limitSize_sizeOK _ _)

namespace RaftLog

theorem slice_size_bound (l : RaftLog) (lo hi maxSize : Nat) (es : List Entry)
    (h : l.slice lo hi maxSize = .ok (.ok es)) : SizeOK maxSize es := by
  unfold slice at h
  cases hchk : l.mustCheckOutOfBounds lo hi with
  | error e => rw [hchk] at h; cases h
  | ok o =>
    rw [hchk] at h
    cases o with
    | some e => cases h
    | none =>
      simp only [bind, Except.bind] at h
      split at h
      · injection h with h; injection h with h; subst h; exact Or.inl (by simp)
      · split at h
        · cases hu : l.unstable.slice lo hi with
          | error e => rw [hu] at h; cases h
          | ok v =>
            rw [hu] at h
            injection h with h; injection h with h; subst h
            exact limitSize_sizeOK _ _
        · cases hs : l.storage.entries lo (min hi l.unstable.offset) maxSize with
          | error e => rw [hs] at h; cases h
          | ok v =>
            rw [hs] at h
            cases v with
            | error e => cases e <;> cases h
            | ok ents =>
              have hents := MemoryStorage.entries_sizeOK _ _ _ _ _ hs
              simp only [pure, Except.pure] at h
              split at h
              · injection h with h; injection h with h; subst h; exact hents
              · split at h
                · injection h with h; injection h with h; subst h; exact hents
                · split at h
                  · injection h with h; injection h with h; subst h; exact hents
                  · rename_i hlt
                    cases hu : l.unstable.slice l.unstable.offset hi with
                    | error e => rw [hu] at h; cases h
                    | ok us =>
                      rw [hu] at h
                      simp only at h
                      split at h
                      · injection h with h; injection h with h; subst h; exact hents
                      · rename_i hcond
                        injection h with h; injection h with h; subst h
                        left
                        rw [entsSize_append']
                        rcases limitSize_size' us (maxSize - entsSize ents) with h1 | h1
                        · omega
                        · simp only [h1, beq_self_eq_true, Bool.true_and, decide_eq_true_eq] at hcond
                          omega

theorem entries_size_bound (l : RaftLog) (i maxSize : Nat) (es : List Entry)
    (h : l.entries i maxSize = .ok (.ok es)) : SizeOK maxSize es := by
  unfold entries at h
  split at h
  · injection h with h; injection h with h; subst h; exact Or.inl (by simp)
  · exact slice_size_bound l _ _ _ _ h

end RaftLog
end RaftVerif
