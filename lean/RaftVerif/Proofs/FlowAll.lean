import RaftVerif.Proofs.FlowLeader
import RaftVerif.Proofs.FlowConf
namespace RaftVerif
namespace Raft

theorem setLog_flow (l : RaftLog) (r r' : Raft) (u : Unit) (h : (setLog l).run r = .ok (u, r')) : Flow r r' := by
  have e := modify_ok h; subst e; exact Flow.frame rfl rfl rfl

theorem lastEntryID_ok {r r1 : Raft} {e : EntryID} (h : lastEntryID.run r = .ok (e, r1)) : r1 = r := by
  unfold lastEntryID at h
  obtain ⟨r0, r2, h2, hB⟩ := bind_ok h
  obtain ⟨e0, e1⟩ := get_ok h2; subst e0 e1
  exact (liftP_ok hB).2

theorem handleAppendEntries_flow (m : Message) (r r' : Raft) (u : Unit)
    (h : (handleAppendEntries m).run r = .ok (u, r')) : Flow r r' := by
  unfold handleAppendEntries at h
  obtain ⟨r0, r1, h1, hA⟩ := bind_ok h
  obtain ⟨e0, e1⟩ := get_ok h1; subst e0 e1
  split at hA
  · obtain ⟨u2, r2, h2, hB⟩ := bind_ok hA
    obtain ⟨_, e⟩ := pure_ok hB; subst e
    exact send_flow _ (by simp) _ _ _ h2
  · obtain ⟨p, r2, h2, hB⟩ := bind_ok hA
    obtain ⟨_, e⟩ := liftP_ok h2; subst e
    obtain ⟨u3, r3, h3, hC⟩ := bind_ok hB
    refine Flow.trans (setLog_flow _ _ _ _ h3) ?_
    split at hC
    · exact send_flow _ (by simp) _ _ _ hC
    · exact send_flow _ (by simp) _ _ _ hC

theorem handleHeartbeat_flow (m : Message) (r r' : Raft) (u : Unit)
    (h : (handleHeartbeat m).run r = .ok (u, r')) : Flow r r' := by
  unfold handleHeartbeat at h
  obtain ⟨r0, r1, h1, hA⟩ := bind_ok h
  obtain ⟨e0, e1⟩ := get_ok h1; subst e0 e1
  obtain ⟨l, r2, h2, hB⟩ := bind_ok hA
  obtain ⟨_, e⟩ := liftP_ok h2; subst e
  obtain ⟨u3, r3, h3, hC⟩ := bind_ok hB
  exact (setLog_flow _ _ _ _ h3).trans (send_flow _ (by simp) _ _ _ hC)

theorem abortLeaderTransfer_flow (r r' : Raft) (u : Unit) (h : abortLeaderTransfer.run r = .ok (u, r')) :
    Flow r r' := by
  unfold abortLeaderTransfer at h
  have e := modify_ok h; subst e; exact Flow.frame rfl rfl rfl


theorem set_bind_flow {β : Type} {s : Raft} {f : PUnit → M β} {r r' : Raft} {a : β}
    (h : (set s >>= f).run r = .ok (a, r'))
    (hc : s.cfg = r.cfg) (hm : s.msgs = r.msgs) (hp : s.trk.progress = r.trk.progress)
    (k : (f PUnit.unit).run s = .ok (a, r') → Flow s r') : Flow r r' := by
  obtain ⟨u, r1, h1, hA⟩ := bind_ok h
  have e := set_ok h1; subst e
  exact (Flow.frame hc hm hp).trans (k hA)

theorem modify_bind_flow {β : Type} {g : Raft → Raft} {f : PUnit → M β} {r r' : Raft} {a : β}
    (h : (modify g >>= f).run r = .ok (a, r')) (hg : Flow r (g r))
    (k : (f PUnit.unit).run (g r) = .ok (a, r') → Flow (g r) r') : Flow r r' := by
  obtain ⟨u, r1, h1, hA⟩ := bind_ok h
  have e := modify_ok h1; subst e
  exact hg.trans (k hA)

/-- replacing the tracker by one whose windows are all well-formed -/
theorem Flow.installTrk (r : Raft) (t : Tracker) (h : AllWF t.progress) : Flow r { r with trk := t } :=
  ⟨MsgsOK.refl r, fun _ => h⟩

/-- installing a progress map whose windows are all well-formed -/
theorem Flow.install (r : Raft) (cfg : TrackerConfig) (trk : ProgressMap) (h : AllWF trk) :
    Flow r { r with trk := { r.trk with cfg := cfg, progress := trk } } :=
  ⟨MsgsOK.refl r, fun _ => h⟩

theorem switchToConfig_flow (cfg : TrackerConfig) (trk : ProgressMap) (htrk : AllWF trk) (r r' : Raft)
    (cs : ConfState) (h : (switchToConfig cfg trk).run r = .ok (cs, r')) : Flow r r' := by
  unfold switchToConfig at h
  obtain ⟨u1, r1, h1, hA⟩ := bind_ok h
  have e := modify_ok h1; subst e
  refine Flow.trans (Flow.install r cfg trk htrk) ?_
  obtain ⟨r0, r2, h2, hB⟩ := bind_ok hA
  obtain ⟨e0, e1⟩ := get_ok h2; subst e0 e1
  dsimp only at hB
  refine set_bind_flow hB rfl rfl rfl ?_
  intro hC
  · split at hC
    · split at hC
      · obtain ⟨u4, r4, h4, hD⟩ := bind_ok hC
        obtain ⟨_, e⟩ := pure_ok hD; subst e
        exact becomeFollower_flow _ _ _ _ _ h4
      · obtain ⟨_, e⟩ := pure_ok hC; subst e; exact Flow.refl _
    · split at hC
      · obtain ⟨_, e⟩ := pure_ok hC; subst e; exact Flow.refl _
      · obtain ⟨b4, r4, h4, hD⟩ := bind_ok hC
        refine Flow.trans (maybeCommit_flow _ _ _ h4) ?_
        split at hD
        · obtain ⟨u5, r5, h5, hE⟩ := bind_ok hD
          refine Flow.trans (bcastAppend_appStep _ _ _ h5).toFlow ?_
          obtain ⟨r0, r6, h6, hF⟩ := bind_ok hE
          obtain ⟨e0, e1⟩ := get_ok h6; subst e0 e1
          split at hF
          · obtain ⟨u7, r7, h7, hG⟩ := bind_ok hF
            obtain ⟨_, e⟩ := pure_ok hG; subst e
            exact abortLeaderTransfer_flow _ _ _ h7
          · obtain ⟨_, e⟩ := pure_ok hF; subst e; exact Flow.refl _
        · obtain ⟨ids, r5, h5, hE⟩ := bind_ok hD
          unfold progressIds at h5
          obtain ⟨r0, r6, h6, hF⟩ := bind_ok h5
          obtain ⟨e0, e1⟩ := get_ok h6; subst e0 e1
          obtain ⟨e0, e1⟩ := pure_ok hF; subst e0 e1
          obtain ⟨u7, r7, h7, hG⟩ := bind_ok hE
          refine Flow.trans (forIn_flow _ ?_ _ _ _ _ h7) ?_
          · intro id ra s rb hs
            split at hs
            · obtain ⟨b8, r8, h8, hH⟩ := bind_ok hs
              obtain ⟨_, e⟩ := pure_ok hH; subst e
              exact (maybeSendAppend_appStep _ _ _ _ _ h8).toFlow
            · obtain ⟨_, e⟩ := pure_ok hs; subst e; exact Flow.refl _
          · obtain ⟨r0, r8, h8, hH⟩ := bind_ok hG
            obtain ⟨e0, e1⟩ := get_ok h8; subst e0 e1
            split at hH
            · obtain ⟨u9, r9, h9, hI⟩ := bind_ok hH
              obtain ⟨_, e⟩ := pure_ok hI; subst e
              exact abortLeaderTransfer_flow _ _ _ h9
            · obtain ⟨_, e⟩ := pure_ok hH; subst e; exact Flow.refl _


theorem AllWF_nil : AllWF [] := by
  intro id pr h; simp [mapGet, Quorum.lookup] at h

theorem restore_flow (s : Snapshot) (r r' : Raft) (b : Bool) (h : (restore s).run r = .ok (b, r')) :
    Flow r r' := by
  unfold restore at h
  obtain ⟨r0, r1, h1, hA⟩ := bind_ok h
  obtain ⟨e0, e1⟩ := get_ok h1; subst e0 e1
  split at hA
  · obtain ⟨_, e⟩ := pure_ok hA; subst e; exact Flow.refl _
  · split at hA
    · obtain ⟨u2, r2, h2, hB⟩ := bind_ok hA
      obtain ⟨_, e⟩ := pure_ok hB; subst e
      exact becomeFollower_flow _ _ _ _ _ h2
    · dsimp only at hA
      split at hA
      · obtain ⟨_, e⟩ := pure_ok hA; subst e; exact Flow.refl _
      · split at hA
        · obtain ⟨l, r2, h2, hB⟩ := bind_ok hA
          obtain ⟨_, e⟩ := liftP_ok h2; subst e
          obtain ⟨u3, r3, h3, hC⟩ := bind_ok hB
          obtain ⟨_, e⟩ := pure_ok hC; subst e
          exact setLog_flow _ _ _ _ h3
        · obtain ⟨u2, r2, h2, hB⟩ := bind_ok hA
          refine Flow.trans (setLog_flow _ _ _ _ h2) ?_
          refine modify_bind_flow hB (Flow.installTrk _ _ AllWF_nil) ?_
          intro hC
          split at hC
          · exact (throw_ok hC).elim
          · rename_i cfg trk hrc
            obtain ⟨cs2, r4, h4, hD⟩ := bind_ok hC
            have htrk : AllWF trk := restoreConf_AllWF _ _ (cfg, trk) AllWF_nil hrc
            refine Flow.trans (switchToConfig_flow cfg trk htrk _ _ _ h4) ?_
            · split at hD
              · obtain ⟨u5, r5, h5, hE⟩ := bind_ok hD
                exact (throw_ok h5).elim
              · obtain ⟨_, e⟩ := pure_ok hD; subst e; exact Flow.refl _

theorem handleSnapshot_flow (m : Message) (r r' : Raft) (u : Unit)
    (h : (handleSnapshot m).run r = .ok (u, r')) : Flow r r' := by
  unfold handleSnapshot at h
  obtain ⟨b, r1, h1, hA⟩ := bind_ok h
  refine Flow.trans (restore_flow _ _ _ _ h1) ?_
  split at hA
  · obtain ⟨r0, r2, h2, hB⟩ := bind_ok hA
    obtain ⟨e0, e1⟩ := get_ok h2; subst e0 e1
    exact send_flow _ (by simp) _ _ _ hB
  · obtain ⟨r0, r2, h2, hB⟩ := bind_ok hA
    obtain ⟨e0, e1⟩ := get_ok h2; subst e0 e1
    exact send_flow _ (by simp) _ _ _ hB


theorem becomeCandidate_flow (r r' : Raft) (u : Unit) (h : becomeCandidate.run r = .ok (u, r')) :
    Flow r r' := by
  unfold becomeCandidate at h
  obtain ⟨r0, r1, h1, hA⟩ := bind_ok h
  obtain ⟨e0, e1⟩ := get_ok h1; subst e0 e1
  dsimp only at hA
  split at hA
  · obtain ⟨u2, r2, h2, hB⟩ := bind_ok hA
    exact (throw_ok h2).elim
  · obtain ⟨r0, r2, h2, hB⟩ := bind_ok hA
    obtain ⟨e0, e1⟩ := get_ok h2; subst e0 e1
    obtain ⟨u3, r3, h3, hC⟩ := bind_ok hB
    have e := modify_ok hC; subst e
    exact (reset_flow _ _ _ _ h3).trans (Flow.frame rfl rfl rfl)

theorem becomePreCandidate_flow (r r' : Raft) (u : Unit) (h : becomePreCandidate.run r = .ok (u, r')) :
    Flow r r' := by
  unfold becomePreCandidate at h
  obtain ⟨r0, r1, h1, hA⟩ := bind_ok h
  obtain ⟨e0, e1⟩ := get_ok h1; subst e0 e1
  dsimp only at hA
  split at hA
  · obtain ⟨u2, r2, h2, hB⟩ := bind_ok hA
    exact (throw_ok h2).elim
  · have e := modify_ok hA; subst e
    exact Flow.frame rfl rfl rfl

theorem becomeLeader_flow (r r' : Raft) (u : Unit) (h : becomeLeader.run r = .ok (u, r')) :
    Flow r r' := by
  unfold becomeLeader at h
  obtain ⟨r0, r1, h1, hA⟩ := bind_ok h
  obtain ⟨e0, e1⟩ := get_ok h1; subst e0 e1
  dsimp only at hA
  split at hA
  · obtain ⟨u2, r2, h2, hB⟩ := bind_ok hA
    exact (throw_ok h2).elim
  · obtain ⟨r0, r2, h2, hB⟩ := bind_ok hA
    obtain ⟨e0, e1⟩ := get_ok h2; subst e0 e1
    obtain ⟨u3, r3, h3, hC⟩ := bind_ok hB
    refine Flow.trans (reset_flow _ _ _ _ h3) ?_
    refine modify_bind_flow hC (Flow.frame rfl rfl rfl) ?_
    intro hD
    obtain ⟨r0, r4, h4, hE⟩ := bind_ok hD
    obtain ⟨e0, e1⟩ := get_ok h4; subst e0 e1
    obtain ⟨pr, r5, h5, hF⟩ := bind_ok hE
    obtain ⟨e5, hg⟩ := getPr_ok h5; subst e5
    refine setPr_bind_flow pr hF hg (fun _ => wf_becomeReplicate _) ?_
    intro hG
    refine modify_bind_flow hG (Flow.frame rfl rfl rfl) ?_
    intro hH
    obtain ⟨b, r6, h6, hI⟩ := bind_ok hH
    refine Flow.trans (appendEntry_flow _ _ _ _ h6) ?_
    split at hI
    · exact (throw_ok hI).elim
    · obtain ⟨_, e⟩ := pure_ok hI; subst e; exact Flow.refl _

theorem voteRespMsgType_ne_app (t : MsgType) : voteRespMsgType t ≠ .app := by
  unfold voteRespMsgType; split <;> simp

theorem campaign_flow (t : CampaignType) (r r' : Raft) (u : Unit) (h : (campaign t).run r = .ok (u, r')) :
    Flow r r' := by
  unfold campaign at h
  dsimp only at h
  have tail : ∀ (voteMsg : MsgType) (term : Nat) (ra : Raft), voteMsg ≠ .app →
      (do
        let r ← get
        forIn r.trk.voterNodes PUnit.unit fun id __s =>
            if (id == r.cfg.id) = true then do
              send { typ := voteRespMsgType voteMsg, to := id, term := term }
              pure (ForInStep.yield PUnit.unit)
            else do
              let last ← lastEntryID
              send { typ := voteMsg, to := id, term := term, logTerm := last.term, index := last.index,
                     context := if (t == CampaignType.transfer) = true then some campaignTransferCtx else none }
              pure (ForInStep.yield PUnit.unit)
        pure () : M Unit).run ra = .ok (u, r') → Flow ra r' := by
    intro voteMsg term ra hvm hE
    obtain ⟨r0, r5, h5, hF⟩ := bind_ok hE
    obtain ⟨e0, e1⟩ := get_ok h5; subst e0 e1
    obtain ⟨u6, r6, h6, hG⟩ := bind_ok hF
    obtain ⟨_, e⟩ := pure_ok hG; subst e
    refine forIn_flow _ ?_ _ _ _ _ h6
    intro id rb s rc hs
    split at hs
    · obtain ⟨u7, r7, h7, hH⟩ := bind_ok hs
      obtain ⟨_, e⟩ := pure_ok hH; subst e
      exact send_flow _ (voteRespMsgType_ne_app _) _ _ _ h7
    · obtain ⟨l7, r7, h7, hH⟩ := bind_ok hs
      have e := lastEntryID_ok h7; subst e
      obtain ⟨u8, r8, h8, hI⟩ := bind_ok hH
      obtain ⟨_, e⟩ := pure_ok hI; subst e
      exact send_flow _ hvm _ _ _ h8
  split at h
  · obtain ⟨u1, r1, h1, hA⟩ := bind_ok h
    refine Flow.trans (becomePreCandidate_flow _ _ _ h1) ?_
    obtain ⟨r0, r2, h2, hB⟩ := bind_ok hA
    obtain ⟨e0, e1⟩ := get_ok h2; subst e0 e1
    obtain ⟨x, r3, h3, hC⟩ := bind_ok hB
    obtain ⟨e0, e1⟩ := pure_ok h3; subst e0 e1
    exact tail _ _ _ (by simp) hC
  · obtain ⟨u1, r1, h1, hA⟩ := bind_ok h
    refine Flow.trans (becomeCandidate_flow _ _ _ h1) ?_
    obtain ⟨r0, r2, h2, hB⟩ := bind_ok hA
    obtain ⟨e0, e1⟩ := get_ok h2; subst e0 e1
    obtain ⟨x, r3, h3, hC⟩ := bind_ok hB
    obtain ⟨e0, e1⟩ := pure_ok h3; subst e0 e1
    exact tail _ _ _ (by simp) hC

theorem promotable_ok {r r1 : Raft} {b : Bool} (h : promotable.run r = .ok (b, r1)) : r1 = r := by
  unfold promotable at h
  obtain ⟨r0, r2, h2, hB⟩ := bind_ok h
  obtain ⟨e0, e1⟩ := get_ok h2; subst e0 e1
  split at hB <;> exact (pure_ok hB).2

theorem hasUnappliedConfChanges_ok {r r1 : Raft} {b : Bool} (h : hasUnappliedConfChanges.run r = .ok (b, r1)) :
    r1 = r := by
  unfold hasUnappliedConfChanges at h
  obtain ⟨r0, r2, h2, hB⟩ := bind_ok h
  obtain ⟨e0, e1⟩ := get_ok h2; subst e0 e1
  split at hB
  · exact (pure_ok hB).2
  · exact (liftP_ok hB).2

theorem hup_flow (t : CampaignType) (r r' : Raft) (u : Unit) (h : (hup t).run r = .ok (u, r')) :
    Flow r r' := by
  unfold hup at h
  obtain ⟨r0, r1, h1, hA⟩ := bind_ok h
  obtain ⟨e0, e1⟩ := get_ok h1; subst e0 e1
  split at hA
  · obtain ⟨_, e⟩ := pure_ok hA; subst e; exact Flow.refl _
  · obtain ⟨b2, r2, h2, hB⟩ := bind_ok hA
    have e := promotable_ok h2; subst e
    split at hB
    · obtain ⟨_, e⟩ := pure_ok hB; subst e; exact Flow.refl _
    · obtain ⟨b3, r3, h3, hC⟩ := bind_ok hB
      have e := hasUnappliedConfChanges_ok h3; subst e
      split at hC
      · obtain ⟨_, e⟩ := pure_ok hC; subst e; exact Flow.refl _
      · exact campaign_flow _ _ _ _ hC

theorem poll_flow (id : Id) (v : Bool) (r r' : Raft) (res : Quorum.VoteResult)
    (h : (poll id v).run r = .ok (res, r')) : Flow r r' := by
  unfold poll at h
  refine modify_bind_flow h ?_ ?_
  · refine Flow.frame rfl rfl ?_
    simp only [Tracker.recordVote]
    split <;> rfl
  · intro hA
    obtain ⟨r0, r2, h2, hB⟩ := bind_ok hA
    obtain ⟨e0, e1⟩ := get_ok h2; subst e0 e1
    obtain ⟨_, e⟩ := pure_ok hB; subst e; exact Flow.refl _

end Raft
end RaftVerif
