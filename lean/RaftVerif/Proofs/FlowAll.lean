import RaftVerif.Proofs.FlowLeader
import RaftVerif.Proofs.FlowConf
/-!
# Proofs/FlowAll — the frame relation `Flow` through every handler of raft.go: follower/candidate
handlers, snapshot restore and configuration switch, campaigns, and finally `Step` itself
(induction on the nesting fuel).  Core Lean only.
-/
namespace RaftVerif
namespace Raft

theorem setLog_flow (l : RaftLog) (r r' : Raft) (u : Unit) (h : (setLog l).run r = .ok (u, r')) : Flow r r' := by
  have e := modify_ok h; subst e; exact Flow.frame rfl rfl rfl

theorem lastEntryID_ok {r r1 : Raft} {e : EntryID} (h : lastEntryID.run r = .ok (e, r1)) : r1 = r := by
  unfold lastEntryID at h
  obtain ⟨r0, r2, h2, hB⟩ := bind_ok h
  obtain ⟨e0, e1⟩ := get_ok h2; subst e0 e1
  exact (liftP_ok hB).2

theorem handleAppendEntries_flow (m : Message) (r r' : Raft) (u : Unit)
    (h : (handleAppendEntries m).run r = .ok (u, r')) : Flow r r' := by
  unfold handleAppendEntries at h
  obtain ⟨r0, r1, h1, hA⟩ := bind_ok h
  obtain ⟨e0, e1⟩ := get_ok h1; subst e0 e1
  split at hA
  · obtain ⟨u2, r2, h2, hB⟩ := bind_ok hA
    obtain ⟨_, e⟩ := pure_ok hB; subst e
    exact send_flow _ (by simp) _ _ _ h2
  · obtain ⟨p, r2, h2, hB⟩ := bind_ok hA
    obtain ⟨_, e⟩ := liftP_ok h2; subst e
    obtain ⟨u3, r3, h3, hC⟩ := bind_ok hB
    refine Flow.trans (setLog_flow _ _ _ _ h3) ?_
    split at hC
    · exact send_flow _ (by simp) _ _ _ hC
    · exact send_flow _ (by simp) _ _ _ hC

theorem handleHeartbeat_flow (m : Message) (r r' : Raft) (u : Unit)
    (h : (handleHeartbeat m).run r = .ok (u, r')) : Flow r r' := by
  unfold handleHeartbeat at h
  obtain ⟨r0, r1, h1, hA⟩ := bind_ok h
  obtain ⟨e0, e1⟩ := get_ok h1; subst e0 e1
  obtain ⟨l, r2, h2, hB⟩ := bind_ok hA
  obtain ⟨_, e⟩ := liftP_ok h2; subst e
  obtain ⟨u3, r3, h3, hC⟩ := bind_ok hB
  exact (setLog_flow _ _ _ _ h3).trans (send_flow _ (by simp) _ _ _ hC)

theorem abortLeaderTransfer_flow (r r' : Raft) (u : Unit) (h : abortLeaderTransfer.run r = .ok (u, r')) :
    Flow r r' := by
  unfold abortLeaderTransfer at h
  have e := modify_ok h; subst e; exact Flow.frame rfl rfl rfl


theorem set_bind_flow {β : Type} {s : Raft} {f : PUnit → M β} {r r' : Raft} {a : β}
    (h : (set s >>= f).run r = .ok (a, r'))
    (hc : s.cfg = r.cfg) (hm : s.msgs = r.msgs) (hp : s.trk.progress = r.trk.progress)
    (k : (f PUnit.unit).run s = .ok (a, r') → Flow s r') : Flow r r' := by
  obtain ⟨u, r1, h1, hA⟩ := bind_ok h
  have e := set_ok h1; subst e
  exact (Flow.frame hc hm hp).trans (k hA)

theorem modify_bind_flow {β : Type} {g : Raft → Raft} {f : PUnit → M β} {r r' : Raft} {a : β}
    (h : (modify g >>= f).run r = .ok (a, r')) (hg : Flow r (g r))
    (k : (f PUnit.unit).run (g r) = .ok (a, r') → Flow (g r) r') : Flow r r' := by
  obtain ⟨u, r1, h1, hA⟩ := bind_ok h
  have e := modify_ok h1; subst e
  exact hg.trans (k hA)

/-- replacing the tracker by one whose windows are all well-formed -/
theorem Flow.installTrk (r : Raft) (t : Tracker) (h : AllWF t.progress) : Flow r { r with trk := t } :=
  ⟨MsgsOK.refl r, fun _ => h⟩

/-- installing a progress map whose windows are all well-formed -/
theorem Flow.install (r : Raft) (cfg : TrackerConfig) (trk : ProgressMap) (h : WindowsOK r → AllWF trk) :
    Flow r { r with trk := { r.trk with cfg := cfg, progress := trk } } :=
  ⟨MsgsOK.refl r, fun hw => h hw⟩

theorem switchToConfig_flow (cfg : TrackerConfig) (trk : ProgressMap) (r r' : Raft)
    (htrk : WindowsOK r → AllWF trk)
    (cs : ConfState) (h : (switchToConfig cfg trk).run r = .ok (cs, r')) : Flow r r' := by
  unfold switchToConfig at h
  obtain ⟨u1, r1, h1, hA⟩ := bind_ok h
  have e := modify_ok h1; subst e
  refine Flow.trans (Flow.install r cfg trk htrk) ?_
  obtain ⟨r0, r2, h2, hB⟩ := bind_ok hA
  obtain ⟨e0, e1⟩ := get_ok h2; subst e0 e1
  dsimp only at hB
  refine set_bind_flow hB rfl rfl rfl ?_
  intro hC
  · split at hC
    · split at hC
      · obtain ⟨u4, r4, h4, hD⟩ := bind_ok hC
        obtain ⟨_, e⟩ := pure_ok hD; subst e
        exact becomeFollower_flow _ _ _ _ _ h4
      · obtain ⟨_, e⟩ := pure_ok hC; subst e; exact Flow.refl _
    · split at hC
      · obtain ⟨_, e⟩ := pure_ok hC; subst e; exact Flow.refl _
      · obtain ⟨b4, r4, h4, hD⟩ := bind_ok hC
        refine Flow.trans (maybeCommit_flow _ _ _ h4) ?_
        split at hD
        · obtain ⟨u5, r5, h5, hE⟩ := bind_ok hD
          refine Flow.trans (bcastAppend_appStep _ _ _ h5).toFlow ?_
          obtain ⟨r0, r6, h6, hF⟩ := bind_ok hE
          obtain ⟨e0, e1⟩ := get_ok h6; subst e0 e1
          split at hF
          · obtain ⟨u7, r7, h7, hG⟩ := bind_ok hF
            obtain ⟨_, e⟩ := pure_ok hG; subst e
            exact abortLeaderTransfer_flow _ _ _ h7
          · obtain ⟨_, e⟩ := pure_ok hF; subst e; exact Flow.refl _
        · obtain ⟨ids, r5, h5, hE⟩ := bind_ok hD
          unfold progressIds at h5
          obtain ⟨r0, r6, h6, hF⟩ := bind_ok h5
          obtain ⟨e0, e1⟩ := get_ok h6; subst e0 e1
          obtain ⟨e0, e1⟩ := pure_ok hF; subst e0 e1
          obtain ⟨u7, r7, h7, hG⟩ := bind_ok hE
          refine Flow.trans (forIn_flow _ ?_ _ _ _ _ h7) ?_
          · intro id ra s rb hs
            split at hs
            · obtain ⟨b8, r8, h8, hH⟩ := bind_ok hs
              obtain ⟨_, e⟩ := pure_ok hH; subst e
              exact (maybeSendAppend_appStep _ _ _ _ _ h8).toFlow
            · obtain ⟨_, e⟩ := pure_ok hs; subst e; exact Flow.refl _
          · obtain ⟨r0, r8, h8, hH⟩ := bind_ok hG
            obtain ⟨e0, e1⟩ := get_ok h8; subst e0 e1
            split at hH
            · obtain ⟨u9, r9, h9, hI⟩ := bind_ok hH
              obtain ⟨_, e⟩ := pure_ok hI; subst e
              exact abortLeaderTransfer_flow _ _ _ h9
            · obtain ⟨_, e⟩ := pure_ok hH; subst e; exact Flow.refl _


theorem AllWF_nil : AllWF [] := by
  intro id pr h; simp [mapGet, Quorum.lookup] at h

theorem restore_flow (s : Snapshot) (r r' : Raft) (b : Bool) (h : (restore s).run r = .ok (b, r')) :
    Flow r r' := by
  unfold restore at h
  obtain ⟨r0, r1, h1, hA⟩ := bind_ok h
  obtain ⟨e0, e1⟩ := get_ok h1; subst e0 e1
  split at hA
  · obtain ⟨_, e⟩ := pure_ok hA; subst e; exact Flow.refl _
  · split at hA
    · obtain ⟨u2, r2, h2, hB⟩ := bind_ok hA
      obtain ⟨_, e⟩ := pure_ok hB; subst e
      exact becomeFollower_flow _ _ _ _ _ h2
    · dsimp only at hA
      split at hA
      · obtain ⟨_, e⟩ := pure_ok hA; subst e; exact Flow.refl _
      · split at hA
        · obtain ⟨l, r2, h2, hB⟩ := bind_ok hA
          obtain ⟨_, e⟩ := liftP_ok h2; subst e
          obtain ⟨u3, r3, h3, hC⟩ := bind_ok hB
          obtain ⟨_, e⟩ := pure_ok hC; subst e
          exact setLog_flow _ _ _ _ h3
        · obtain ⟨u2, r2, h2, hB⟩ := bind_ok hA
          refine Flow.trans (setLog_flow _ _ _ _ h2) ?_
          refine modify_bind_flow hB (Flow.installTrk _ _ AllWF_nil) ?_
          intro hC
          split at hC
          · exact (throw_ok hC).elim
          · rename_i cfg trk hrc
            obtain ⟨cs2, r4, h4, hD⟩ := bind_ok hC
            have htrk : AllWF trk := restoreConf_AllWF _ _ (cfg, trk) AllWF_nil hrc
            refine Flow.trans (switchToConfig_flow cfg trk _ _ (fun _ => htrk) _ h4) ?_
            · split at hD
              · obtain ⟨u5, r5, h5, hE⟩ := bind_ok hD
                exact (throw_ok h5).elim
              · obtain ⟨_, e⟩ := pure_ok hD; subst e; exact Flow.refl _

theorem handleSnapshot_flow (m : Message) (r r' : Raft) (u : Unit)
    (h : (handleSnapshot m).run r = .ok (u, r')) : Flow r r' := by
  unfold handleSnapshot at h
  obtain ⟨b, r1, h1, hA⟩ := bind_ok h
  refine Flow.trans (restore_flow _ _ _ _ h1) ?_
  split at hA
  · obtain ⟨r0, r2, h2, hB⟩ := bind_ok hA
    obtain ⟨e0, e1⟩ := get_ok h2; subst e0 e1
    exact send_flow _ (by simp) _ _ _ hB
  · obtain ⟨r0, r2, h2, hB⟩ := bind_ok hA
    obtain ⟨e0, e1⟩ := get_ok h2; subst e0 e1
    exact send_flow _ (by simp) _ _ _ hB


theorem becomeCandidate_flow (r r' : Raft) (u : Unit) (h : becomeCandidate.run r = .ok (u, r')) :
    Flow r r' := by
  unfold becomeCandidate at h
  obtain ⟨r0, r1, h1, hA⟩ := bind_ok h
  obtain ⟨e0, e1⟩ := get_ok h1; subst e0 e1
  dsimp only at hA
  split at hA
  · obtain ⟨u2, r2, h2, hB⟩ := bind_ok hA
    exact (throw_ok h2).elim
  · obtain ⟨r0, r2, h2, hB⟩ := bind_ok hA
    obtain ⟨e0, e1⟩ := get_ok h2; subst e0 e1
    obtain ⟨u3, r3, h3, hC⟩ := bind_ok hB
    have e := modify_ok hC; subst e
    exact (reset_flow _ _ _ _ h3).trans (Flow.frame rfl rfl rfl)

theorem becomePreCandidate_flow (r r' : Raft) (u : Unit) (h : becomePreCandidate.run r = .ok (u, r')) :
    Flow r r' := by
  unfold becomePreCandidate at h
  obtain ⟨r0, r1, h1, hA⟩ := bind_ok h
  obtain ⟨e0, e1⟩ := get_ok h1; subst e0 e1
  dsimp only at hA
  split at hA
  · obtain ⟨u2, r2, h2, hB⟩ := bind_ok hA
    exact (throw_ok h2).elim
  · have e := modify_ok hA; subst e
    exact Flow.frame rfl rfl rfl

theorem becomeLeader_flow (r r' : Raft) (u : Unit) (h : becomeLeader.run r = .ok (u, r')) :
    Flow r r' := by
  unfold becomeLeader at h
  obtain ⟨r0, r1, h1, hA⟩ := bind_ok h
  obtain ⟨e0, e1⟩ := get_ok h1; subst e0 e1
  dsimp only at hA
  split at hA
  · obtain ⟨u2, r2, h2, hB⟩ := bind_ok hA
    exact (throw_ok h2).elim
  · obtain ⟨r0, r2, h2, hB⟩ := bind_ok hA
    obtain ⟨e0, e1⟩ := get_ok h2; subst e0 e1
    obtain ⟨u3, r3, h3, hC⟩ := bind_ok hB
    refine Flow.trans (reset_flow _ _ _ _ h3) ?_
    refine modify_bind_flow hC (Flow.frame rfl rfl rfl) ?_
    intro hD
    obtain ⟨r0, r4, h4, hE⟩ := bind_ok hD
    obtain ⟨e0, e1⟩ := get_ok h4; subst e0 e1
    obtain ⟨pr, r5, h5, hF⟩ := bind_ok hE
    obtain ⟨e5, hg⟩ := getPr_ok h5; subst e5
    refine setPr_bind_flow pr hF hg (fun _ => wf_becomeReplicate _) ?_
    intro hG
    refine modify_bind_flow hG (Flow.frame rfl rfl rfl) ?_
    intro hH
    obtain ⟨b, r6, h6, hI⟩ := bind_ok hH
    refine Flow.trans (appendEntry_flow _ _ _ _ h6) ?_
    split at hI
    · exact (throw_ok hI).elim
    · obtain ⟨_, e⟩ := pure_ok hI; subst e; exact Flow.refl _

theorem voteRespMsgType_ne_app (t : MsgType) : voteRespMsgType t ≠ .app := by
  unfold voteRespMsgType; split <;> simp

theorem campaign_flow (t : CampaignType) (r r' : Raft) (u : Unit) (h : (campaign t).run r = .ok (u, r')) :
    Flow r r' := by
  unfold campaign at h
  dsimp only at h
  have tail : ∀ (voteMsg : MsgType) (term : Nat) (ra : Raft), voteMsg ≠ .app →
      (do
        let r ← get
        forIn r.trk.voterNodes PUnit.unit fun id __s =>
            if (id == r.cfg.id) = true then do
              send { typ := voteRespMsgType voteMsg, to := id, term := term }
              pure (ForInStep.yield PUnit.unit)
            else do
              let last ← lastEntryID
              send { typ := voteMsg, to := id, term := term, logTerm := last.term, index := last.index,
                     context := if (t == CampaignType.transfer) = true then some campaignTransferCtx else none }
              pure (ForInStep.yield PUnit.unit)
        pure () : M Unit).run ra = .ok (u, r') → Flow ra r' := by
    intro voteMsg term ra hvm hE
    obtain ⟨r0, r5, h5, hF⟩ := bind_ok hE
    obtain ⟨e0, e1⟩ := get_ok h5; subst e0 e1
    obtain ⟨u6, r6, h6, hG⟩ := bind_ok hF
    obtain ⟨_, e⟩ := pure_ok hG; subst e
    refine forIn_flow _ ?_ _ _ _ _ h6
    intro id rb s rc hs
    split at hs
    · obtain ⟨u7, r7, h7, hH⟩ := bind_ok hs
      obtain ⟨_, e⟩ := pure_ok hH; subst e
      exact send_flow _ (voteRespMsgType_ne_app _) _ _ _ h7
    · obtain ⟨l7, r7, h7, hH⟩ := bind_ok hs
      have e := lastEntryID_ok h7; subst e
      obtain ⟨u8, r8, h8, hI⟩ := bind_ok hH
      obtain ⟨_, e⟩ := pure_ok hI; subst e
      exact send_flow _ hvm _ _ _ h8
  split at h
  · obtain ⟨u1, r1, h1, hA⟩ := bind_ok h
    refine Flow.trans (becomePreCandidate_flow _ _ _ h1) ?_
    obtain ⟨r0, r2, h2, hB⟩ := bind_ok hA
    obtain ⟨e0, e1⟩ := get_ok h2; subst e0 e1
    obtain ⟨x, r3, h3, hC⟩ := bind_ok hB
    obtain ⟨e0, e1⟩ := pure_ok h3; subst e0 e1
    exact tail _ _ _ (by simp) hC
  · obtain ⟨u1, r1, h1, hA⟩ := bind_ok h
    refine Flow.trans (becomeCandidate_flow _ _ _ h1) ?_
    obtain ⟨r0, r2, h2, hB⟩ := bind_ok hA
    obtain ⟨e0, e1⟩ := get_ok h2; subst e0 e1
    obtain ⟨x, r3, h3, hC⟩ := bind_ok hB
    obtain ⟨e0, e1⟩ := pure_ok h3; subst e0 e1
    exact tail _ _ _ (by simp) hC

theorem promotable_ok {r r1 : Raft} {b : Bool} (h : promotable.run r = .ok (b, r1)) : r1 = r := by
  unfold promotable at h
  obtain ⟨r0, r2, h2, hB⟩ := bind_ok h
  obtain ⟨e0, e1⟩ := get_ok h2; subst e0 e1
  split at hB <;> exact (pure_ok hB).2

theorem hasUnappliedConfChanges_ok {r r1 : Raft} {b : Bool} (h : hasUnappliedConfChanges.run r = .ok (b, r1)) :
    r1 = r := by
  unfold hasUnappliedConfChanges at h
  obtain ⟨r0, r2, h2, hB⟩ := bind_ok h
  obtain ⟨e0, e1⟩ := get_ok h2; subst e0 e1
  split at hB
  · exact (pure_ok hB).2
  · exact (liftP_ok hB).2

theorem hup_flow (t : CampaignType) (r r' : Raft) (u : Unit) (h : (hup t).run r = .ok (u, r')) :
    Flow r r' := by
  unfold hup at h
  obtain ⟨r0, r1, h1, hA⟩ := bind_ok h
  obtain ⟨e0, e1⟩ := get_ok h1; subst e0 e1
  split at hA
  · obtain ⟨_, e⟩ := pure_ok hA; subst e; exact Flow.refl _
  · obtain ⟨b2, r2, h2, hB⟩ := bind_ok hA
    have e := promotable_ok h2; subst e
    split at hB
    · obtain ⟨_, e⟩ := pure_ok hB; subst e; exact Flow.refl _
    · obtain ⟨b3, r3, h3, hC⟩ := bind_ok hB
      have e := hasUnappliedConfChanges_ok h3; subst e
      split at hC
      · obtain ⟨_, e⟩ := pure_ok hC; subst e; exact Flow.refl _
      · exact campaign_flow _ _ _ _ hC

theorem poll_flow (id : Id) (v : Bool) (r r' : Raft) (res : Quorum.VoteResult)
    (h : (poll id v).run r = .ok (res, r')) : Flow r r' := by
  unfold poll at h
  refine modify_bind_flow h ?_ ?_
  · refine Flow.frame rfl rfl ?_
    simp only [Tracker.recordVote]
    split <;> rfl
  · intro hA
    obtain ⟨r0, r2, h2, hB⟩ := bind_ok hA
    obtain ⟨e0, e1⟩ := get_ok h2; subst e0 e1
    obtain ⟨_, e⟩ := pure_ok hB; subst e; exact Flow.refl _

theorem stepCandidate_flow (fuel : Nat) (m : Message) (r r' : Raft) (res : Option StepErr)
    (h : (stepCandidate fuel m).run r = .ok (res, r')) : Flow r r' := by
  unfold stepCandidate at h
  dsimp only at h
  obtain ⟨r0, r1, h1, hA⟩ := bind_ok h
  obtain ⟨e0, e1⟩ := get_ok h1; subst e0 e1
  generalize (if (r1.state == Role.preCandidate) = true then MsgType.preVoteResp else MsgType.voteResp) = mvt at hA
  split at hA
  · obtain ⟨_, e⟩ := pure_ok hA; subst e; exact Flow.refl _
  · obtain ⟨u2, r2, h2, hB⟩ := bind_ok hA
    obtain ⟨u3, r3, h3, hC⟩ := bind_ok hB
    obtain ⟨_, e⟩ := pure_ok hC; subst e
    exact (becomeFollower_flow _ _ _ _ _ h2).trans (handleAppendEntries_flow _ _ _ _ h3)
  · obtain ⟨u2, r2, h2, hB⟩ := bind_ok hA
    obtain ⟨u3, r3, h3, hC⟩ := bind_ok hB
    obtain ⟨_, e⟩ := pure_ok hC; subst e
    exact (becomeFollower_flow _ _ _ _ _ h2).trans (handleHeartbeat_flow _ _ _ _ h3)
  · obtain ⟨u2, r2, h2, hB⟩ := bind_ok hA
    obtain ⟨u3, r3, h3, hC⟩ := bind_ok hB
    obtain ⟨_, e⟩ := pure_ok hC; subst e
    exact (becomeFollower_flow _ _ _ _ _ h2).trans (handleSnapshot_flow _ _ _ _ h3)
  · obtain ⟨_, e⟩ := pure_ok hA; subst e; exact Flow.refl _
  · split at hA
    · split at hA
      · obtain ⟨_, e⟩ := pure_ok hA; subst e; exact Flow.refl _
      · obtain ⟨vr, r2, h2, hB⟩ := bind_ok hA
        refine Flow.trans (poll_flow _ _ _ _ _ h2) ?_
        split at hB
        · split at hB
          · obtain ⟨u3, r3, h3, hC⟩ := bind_ok hB
            obtain ⟨_, e⟩ := pure_ok hC; subst e
            exact campaign_flow _ _ _ _ h3
          · obtain ⟨r0, r3, h3, hC⟩ := bind_ok hB
            obtain ⟨e0, e1⟩ := get_ok h3; subst e0 e1
            split at hC
            · obtain ⟨_, e⟩ := pure_ok hC; subst e; exact Flow.refl _
            · obtain ⟨u4, r4, h4, hD⟩ := bind_ok hC
              obtain ⟨u5, r5, h5, hE⟩ := bind_ok hD
              obtain ⟨_, e⟩ := pure_ok hE; subst e
              exact (becomeLeader_flow _ _ _ h4).trans (bcastAppend_appStep _ _ _ h5).toFlow
        · obtain ⟨u3, r3, h3, hC⟩ := bind_ok hB
          obtain ⟨_, e⟩ := pure_ok hC; subst e
          exact becomeFollower_flow _ _ _ _ _ h3
        · obtain ⟨_, e⟩ := pure_ok hB; subst e; exact Flow.refl _
    · obtain ⟨_, e⟩ := pure_ok hA; subst e; exact Flow.refl _


theorem stepFollower_flow (fuel : Nat) (m : Message) (r r' : Raft) (res : Option StepErr)
    (h : (stepFollower fuel m).run r = .ok (res, r')) : Flow r r' := by
  unfold stepFollower at h
  dsimp only at h
  obtain ⟨r0, r1, h1, hA⟩ := bind_ok h
  obtain ⟨e0, e1⟩ := get_ok h1; subst e0 e1
  split at hA
  · -- prop
    rename_i hty
    split at hA
    · obtain ⟨_, e⟩ := pure_ok hA; subst e; exact Flow.refl _
    · split at hA
      · obtain ⟨_, e⟩ := pure_ok hA; subst e; exact Flow.refl _
      · obtain ⟨u2, r2, h2, hB⟩ := bind_ok hA
        obtain ⟨_, e⟩ := pure_ok hB; subst e
        exact send_flow _ (by simp [hty]) _ _ _ h2
  · -- app
    refine set_bind_flow hA rfl rfl rfl ?_
    intro hB
    obtain ⟨u3, r3, h3, hC⟩ := bind_ok hB
    obtain ⟨_, e⟩ := pure_ok hC; subst e
    exact handleAppendEntries_flow _ _ _ _ h3
  · -- heartbeat
    refine set_bind_flow hA rfl rfl rfl ?_
    intro hB
    obtain ⟨u3, r3, h3, hC⟩ := bind_ok hB
    obtain ⟨_, e⟩ := pure_ok hC; subst e
    exact handleHeartbeat_flow _ _ _ _ h3
  · -- snap
    refine set_bind_flow hA rfl rfl rfl ?_
    intro hB
    obtain ⟨u3, r3, h3, hC⟩ := bind_ok hB
    obtain ⟨_, e⟩ := pure_ok hC; subst e
    exact handleSnapshot_flow _ _ _ _ h3
  · -- transferLeader
    rename_i hty
    split at hA
    · obtain ⟨_, e⟩ := pure_ok hA; subst e; exact Flow.refl _
    · obtain ⟨u2, r2, h2, hB⟩ := bind_ok hA
      obtain ⟨_, e⟩ := pure_ok hB; subst e
      exact send_flow _ (by simp [hty]) _ _ _ h2
  · -- forgetLeader
    split at hA
    · obtain ⟨_, e⟩ := pure_ok hA; subst e; exact Flow.refl _
    · split at hA
      · refine set_bind_flow hA rfl rfl rfl ?_
        intro hB
        obtain ⟨_, e⟩ := pure_ok hB; subst e; exact Flow.refl _
      · obtain ⟨_, e⟩ := pure_ok hA; subst e; exact Flow.refl _
  · -- timeoutNow
    obtain ⟨u2, r2, h2, hB⟩ := bind_ok hA
    obtain ⟨_, e⟩ := pure_ok hB; subst e
    exact hup_flow _ _ _ _ h2
  · -- readIndex
    rename_i hty
    split at hA
    · obtain ⟨_, e⟩ := pure_ok hA; subst e; exact Flow.refl _
    · obtain ⟨u2, r2, h2, hB⟩ := bind_ok hA
      obtain ⟨_, e⟩ := pure_ok hB; subst e
      exact send_flow _ (by simp [hty]) _ _ _ h2
  · -- readIndexResp
    split at hA
    · refine set_bind_flow hA rfl rfl rfl ?_
      intro hB
      obtain ⟨_, e⟩ := pure_ok hB; subst e; exact Flow.refl _
    · obtain ⟨_, e⟩ := pure_ok hA; subst e; exact Flow.refl _
  · obtain ⟨_, e⟩ := pure_ok hA; subst e; exact Flow.refl _

theorem appliedToLog_flow (idx sz : Nat) (r r' : Raft) (n : Nat)
    (h : (appliedToLog idx sz).run r = .ok (n, r')) : Flow r r' := by
  unfold appliedToLog at h
  obtain ⟨r0, r1, h1, hA⟩ := bind_ok h
  obtain ⟨e0, e1⟩ := get_ok h1; subst e0 e1
  dsimp only at hA
  obtain ⟨l, r2, h2, hB⟩ := bind_ok hA
  obtain ⟨_, e⟩ := liftP_ok h2; subst e
  obtain ⟨u3, r3, h3, hC⟩ := bind_ok hB
  obtain ⟨_, e⟩ := pure_ok hC; subst e
  exact setLog_flow _ _ _ _ h3

theorem reduceUncommittedSize_flow (s : Nat) (r r' : Raft) (u : Unit)
    (h : (reduceUncommittedSize s).run r = .ok (u, r')) : Flow r r' := by
  unfold reduceUncommittedSize at h
  have e := modify_ok h; subst e; exact Flow.frame rfl rfl rfl

/-- `appliedTo`, given that the nested `Step` keeps the frame -/
theorem appliedTo_flow (fuel : Nat)
    (ih : ∀ m r r' res, (step fuel m).run r = .ok (res, r') → Flow r r')
    (idx sz : Nat) (r r' : Raft) (u : Unit) (h : (appliedTo fuel idx sz).run r = .ok (u, r')) :
    Flow r r' := by
  unfold appliedTo at h
  dsimp only at h
  obtain ⟨n, r1, h1, hA⟩ := bind_ok h
  refine Flow.trans (appliedToLog_flow _ _ _ _ _ h1) ?_
  obtain ⟨r0, r2, h2, hB⟩ := bind_ok hA
  obtain ⟨e0, e1⟩ := get_ok h2; subst e0 e1
  split at hB
  · obtain ⟨x, r3, h3, hC⟩ := bind_ok hB
    obtain ⟨_, e⟩ := pure_ok hC; subst e
    exact ih _ _ _ _ h3
  · obtain ⟨_, e⟩ := pure_ok hB; subst e; exact Flow.refl _

theorem appliedSnap_flow (fuel : Nat)
    (ih : ∀ m r r' res, (step fuel m).run r = .ok (res, r') → Flow r r')
    (s : Snapshot) (r r' : Raft) (u : Unit) (h : (appliedSnap fuel s).run r = .ok (u, r')) :
    Flow r r' := by
  unfold appliedSnap at h
  refine modify_bind_flow h (Flow.frame rfl rfl rfl) ?_
  intro hA
  exact appliedTo_flow fuel ih _ _ _ _ _ hA


theorem step_flow_aux (fuel : Nat) : ∀ (m : Message) (r r' : Raft) (res : Option StepErr),
    (step fuel m).run r = .ok (res, r') → Flow r r' := by
  induction fuel with
  | zero =>
    intro m r r' res h
    unfold step at h
    exact (throw_ok h).elim
  | succ fuel ih =>
    intro m r r' res h
    unfold step at h
    obtain ⟨r0, r1, h1, hA⟩ := bind_ok h
    obtain ⟨e0, e1⟩ := get_ok h1; subst e0 e1
    extract_lets jN1 jN2 jSnap jN3 cand jN4 jN5 jDisp jPre force inLease jEnd at hA
    have hN : ∀ (x : Unit) (ra : Raft), (pure none : M (Option StepErr)).run ra = .ok (res, r') → Flow ra r' := by
      intro x ra hx
      obtain ⟨_, e⟩ := pure_ok hx; subst e; exact Flow.refl _
    have hSnap : ∀ (x : Unit) (ra : Raft), (jSnap x).run ra = .ok (res, r') → Flow ra r' := by
      intro x ra hx
      simp only [jSnap] at hx
      split at hx
      · obtain ⟨u2, r2, h2, hB⟩ := bind_ok hx
        exact (appliedSnap_flow fuel ih _ _ _ _ h2).trans (hN () _ hB)
      · exact hN () _ hx
    have hDisp : ∀ (x : Unit) (ra : Raft), (jDisp x).run ra = .ok (res, r') → Flow ra r' := by
      intro x ra hx
      simp only [jDisp] at hx
      split at hx
      · -- hup
        obtain ⟨r0, r2, h2, hB⟩ := bind_ok hx
        obtain ⟨e0, e1⟩ := get_ok h2; subst e0 e1
        split at hB
        · obtain ⟨u3, r3, h3, hC⟩ := bind_ok hB
          exact (hup_flow _ _ _ _ h3).trans (hN () _ hC)
        · obtain ⟨u3, r3, h3, hC⟩ := bind_ok hB
          exact (hup_flow _ _ _ _ h3).trans (hN () _ hC)
      · -- storageAppendResp
        split at hx
        · refine modify_bind_flow hx (Flow.frame rfl rfl rfl) ?_
          intro hB
          exact hSnap () _ hB
        · exact hSnap () _ hx
      · -- storageApplyResp
        split at hx
        · obtain ⟨u2, r2, h2, hB⟩ := bind_ok hx
          refine Flow.trans (appliedTo_flow fuel ih _ _ _ _ _ h2) ?_
          obtain ⟨r0, r3, h3, hC⟩ := bind_ok hB
          obtain ⟨e0, e1⟩ := get_ok h3; subst e0 e1
          obtain ⟨u4, r4, h4, hD⟩ := bind_ok hC
          exact (reduceUncommittedSize_flow _ _ _ _ h4).trans (hN () _ hD)
        · exact hN () _ hx
      · -- vote
        rename_i hty
        obtain ⟨r0, r2, h2, hB⟩ := bind_ok hx
        obtain ⟨e0, e1⟩ := get_ok h2; subst e0 e1
        obtain ⟨le, r3, h3, hC⟩ := bind_ok hB
        have e := lastEntryID_ok h3; subst e
        obtain ⟨b4, r4, h4, hD⟩ := bind_ok hC
        obtain ⟨_, e⟩ := liftP_ok h4; subst e
        split at hD
        · obtain ⟨u5, r5, h5, hE⟩ := bind_ok hD
          refine Flow.trans (send_flow _ (voteRespMsgType_ne_app _) _ _ _ h5) ?_
          split at hE
          · refine modify_bind_flow hE (Flow.frame rfl rfl rfl) ?_
            intro hF; exact hN () _ hF
          · exact hN () _ hE
        · obtain ⟨u5, r5, h5, hE⟩ := bind_ok hD
          exact (send_flow _ (voteRespMsgType_ne_app _) _ _ _ h5).trans (hN () _ hE)
      · -- preVote
        rename_i hty
        obtain ⟨r0, r2, h2, hB⟩ := bind_ok hx
        obtain ⟨e0, e1⟩ := get_ok h2; subst e0 e1
        obtain ⟨le, r3, h3, hC⟩ := bind_ok hB
        have e := lastEntryID_ok h3; subst e
        obtain ⟨b4, r4, h4, hD⟩ := bind_ok hC
        obtain ⟨_, e⟩ := liftP_ok h4; subst e
        split at hD
        · obtain ⟨u5, r5, h5, hE⟩ := bind_ok hD
          refine Flow.trans (send_flow _ (voteRespMsgType_ne_app _) _ _ _ h5) ?_
          split at hE
          · refine modify_bind_flow hE (Flow.frame rfl rfl rfl) ?_
            intro hF; exact hN () _ hF
          · exact hN () _ hE
        · obtain ⟨u5, r5, h5, hE⟩ := bind_ok hD
          exact (send_flow _ (voteRespMsgType_ne_app _) _ _ _ h5).trans (hN () _ hE)
      · -- role dispatch
        obtain ⟨r0, r2, h2, hB⟩ := bind_ok hx
        obtain ⟨e0, e1⟩ := get_ok h2; subst e0 e1
        split at hB
        · exact stepLeader_flow _ _ _ _ _ hB
        · exact stepCandidate_flow _ _ _ _ _ hB
        · exact stepCandidate_flow _ _ _ _ _ hB
        · exact stepFollower_flow _ _ _ _ _ hB
    have hPre : ∀ (x : Unit) (ra : Raft), (jPre x).run ra = .ok (res, r') → Flow ra r' := by
      intro x ra hx
      simp only [jPre] at hx
      split at hx
      · exact hDisp () _ hx
      · split at hx
        · exact hDisp () _ hx
        · split at hx
          · obtain ⟨u2, r2, h2, hB⟩ := bind_ok hx
            exact (becomeFollower_flow _ _ _ _ _ h2).trans (hDisp () _ hB)
          · obtain ⟨u2, r2, h2, hB⟩ := bind_ok hx
            exact (becomeFollower_flow _ _ _ _ _ h2).trans (hDisp () _ hB)
    split at hA
    · exact hDisp () _ hA
    · split at hA
      · split at hA
        · split at hA
          · obtain ⟨_, e⟩ := pure_ok hA; subst e; exact Flow.refl _
          · exact hPre () _ hA
        · exact hPre () _ hA
      · split at hA
        · split at hA
          · obtain ⟨u2, r2, h2, hB⟩ := bind_ok hA
            exact (send_flow _ (by simp) _ _ _ h2).trans (hN () _ hB)
          · split at hA
            · obtain ⟨u2, r2, h2, hB⟩ := bind_ok hA
              exact (send_flow _ (by simp) _ _ _ h2).trans (hN () _ hB)
            · split at hA
              · split at hA
                · obtain ⟨u2, r2, h2, hB⟩ := bind_ok hA
                  exact (appliedSnap_flow fuel ih _ _ _ _ h2).trans (hN () _ hB)
                · exact hN () _ hA
              · exact hN () _ hA
        · exact hDisp () _ hA

theorem applyConfChange_flow (cc : ConfChangeV2) (r r' : Raft) (cs : ConfState)
    (h : (applyConfChange cc).run r = .ok (cs, r')) : Flow r r' := by
  unfold applyConfChange at h
  obtain ⟨r0, r1, h1, hA⟩ := bind_ok h
  obtain ⟨e0, e1⟩ := get_ok h1; subst e0 e1
  dsimp only at hA
  split at hA
  · exact (throw_ok hA).elim
  · rename_i cfg trk hres
    refine switchToConfig_flow cfg trk _ _ ?_ _ hA
    intro hw
    have hall : AllWF r1.trk.progress := hw
    split at hres
    · exact Changer.leaveJoint_AllWF _ (cfg, trk) hall hres
    · split at hres
      · exact Changer.enterJoint_AllWF _ _ _ (cfg, trk) hall hres
      · exact Changer.simple_AllWF _ _ (cfg, trk) hall hres

theorem pastElectionTimeout_ok {r r1 : Raft} {b : Bool} (h : pastElectionTimeout.run r = .ok (b, r1)) : r1 = r := by
  unfold pastElectionTimeout at h
  obtain ⟨r0, r2, h2, hB⟩ := bind_ok h
  obtain ⟨e0, e1⟩ := get_ok h2; subst e0 e1
  exact (pure_ok hB).2

theorem tickElection_flow (r r' : Raft) (u : Unit) (h : tickElection.run r = .ok (u, r')) : Flow r r' := by
  unfold tickElection at h
  refine modify_bind_flow h (Flow.frame rfl rfl rfl) ?_
  intro hA
  obtain ⟨b1, r1, h1, hB⟩ := bind_ok hA
  have e := promotable_ok h1; subst e
  obtain ⟨b2, r2, h2, hC⟩ := bind_ok hB
  have e2 := pastElectionTimeout_ok h2; subst e2
  split at hC
  · refine modify_bind_flow hC (Flow.frame rfl rfl rfl) ?_
    intro hD
    obtain ⟨r0, r3, h3, hE⟩ := bind_ok hD
    obtain ⟨e0, e1⟩ := get_ok h3; subst e0 e1
    obtain ⟨x, r4, h4, hF⟩ := bind_ok hE
    obtain ⟨_, e⟩ := pure_ok hF; subst e
    exact step_flow_aux _ _ _ _ _ h4
  · obtain ⟨_, e⟩ := pure_ok hC; subst e; exact Flow.refl _


theorem tickHeartbeat_flow (r r' : Raft) (u : Unit) (h : tickHeartbeat.run r = .ok (u, r')) : Flow r r' := by
  unfold tickHeartbeat at h
  refine modify_bind_flow h (Flow.frame rfl rfl rfl) ?_
  intro hA
  obtain ⟨r0, r1, h1, hB⟩ := bind_ok hA
  obtain ⟨e0, e1⟩ := get_ok h1; subst e0 e1
  extract_lets jTail jMid at hB
  have hTail : ∀ (x : Unit) (ra : Raft), (jTail x).run ra = .ok (u, r') → Flow ra r' := by
    intro x ra hx
    simp only [jTail] at hx
    obtain ⟨r0, r6, h6, hH⟩ := bind_ok hx
    obtain ⟨e0, e1⟩ := get_ok h6; subst e0 e1
    split at hH
    · obtain ⟨_, e⟩ := pure_ok hH; subst e; exact Flow.refl _
    · obtain ⟨r0, r7, h7, hI⟩ := bind_ok hH
      obtain ⟨e0, e1⟩ := get_ok h7; subst e0 e1
      split at hI
      · refine modify_bind_flow hI (Flow.frame rfl rfl rfl) ?_
        intro hJ
        obtain ⟨y, r8, h8, hK⟩ := bind_ok hJ
        obtain ⟨_, e⟩ := pure_ok hK; subst e
        exact step_flow_aux _ _ _ _ _ h8
      · obtain ⟨_, e⟩ := pure_ok hI; subst e; exact Flow.refl _
  have hMid : ∀ (x : Unit) (ra : Raft), (jMid x).run ra = .ok (u, r') → Flow ra r' := by
    intro x ra hx
    simp only [jMid] at hx
    obtain ⟨r0, r5, h5, hG⟩ := bind_ok hx
    obtain ⟨e0, e1⟩ := get_ok h5; subst e0 e1
    split at hG
    · obtain ⟨u6, r6, h6, hH⟩ := bind_ok hG
      exact (abortLeaderTransfer_flow _ _ _ h6).trans (hTail () _ hH)
    · exact hTail () _ hG
  split at hB
  · refine modify_bind_flow hB (Flow.frame rfl rfl rfl) ?_
    intro hC
    split at hC
    · obtain ⟨y, r4, h4, hF⟩ := bind_ok hC
      exact (step_flow_aux _ _ _ _ _ h4).trans (hMid () _ hF)
    · exact hMid () _ hC
  · exact hTail () _ hB

theorem tick_flow (r r' : Raft) (u : Unit) (h : tick.run r = .ok (u, r')) : Flow r r' := by
  unfold tick at h
  obtain ⟨r0, r1, h1, hA⟩ := bind_ok h
  obtain ⟨e0, e1⟩ := get_ok h1; subst e0 e1
  split at hA
  · exact tickHeartbeat_flow _ _ _ hA
  · exact tickElection_flow _ _ _ hA

end Raft
end RaftVerif
