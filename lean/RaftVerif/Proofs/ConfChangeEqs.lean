import RaftVerif.Proofs.ConfChangeSets
/-!
# Proofs/ConfChangeEqs — the `do`-block model functions of `Model/ConfChange.lean` as pure folds

* `ConfInv` : exactly what `checkInvariants` checks (`checkInvariants_ok_iff`)
* `applyStep` / `apply_eq` : `Changer.apply` is a `foldl` followed by the "removed all voters" test
* `simple_ok_iff`, `enterJoint_ok_iff`, `leaveJoint_ok_iff` : exact success conditions and results
-/
namespace RaftVerif

theorem forIn_unit_ok_iff {α : Type} (l : List α) (body : α → PUnit → CE (ForInStep PUnit))
    (good : α → Prop)
    (hg : ∀ a, good a → body a ⟨⟩ = .ok (.yield ⟨⟩))
    (hb : ∀ a, ¬ good a → ∃ e, body a ⟨⟩ = .error e) :
    forIn l PUnit.unit body = .ok ⟨⟩ ↔ ∀ a ∈ l, good a := by
  induction l with
  | nil => simp [pure, Except.pure]
  | cons a t ih =>
    rw [List.forIn_cons]
    by_cases h : good a
    · rw [hg a h]
      simp only [List.mem_cons, forall_eq_or_imp, h, true_and]
      exact ih
    · obtain ⟨e, he⟩ := hb a h
      rw [he]
      simp [h, bind, Except.bind]

theorem bind_unit_ok_iff (x : CE PUnit) (y : PUnit → CE PUnit) :
    (x >>= y) = .ok ⟨⟩ ↔ x = .ok ⟨⟩ ∧ y ⟨⟩ = .ok ⟨⟩ := by
  cases x with
  | error e => simp [bind, Except.bind]
  | ok u => cases u; simp [bind, Except.bind]

def cfgMember (cfg : TrackerConfig) (id : Id) : Prop :=
  id ∈ cfg.voters ∨ id ∈ cfg.outgoing.getD [] ∨ id ∈ cfg.learners.getD [] ∨ id ∈ cfg.learnersNext.getD []

instance (cfg : TrackerConfig) (id : Id) : Decidable (cfgMember cfg id) := by
  unfold cfgMember; exact inferInstance

structure ConfInv (cfg : TrackerConfig) (trk : ProgressMap) : Prop where
  progress : ∀ id, cfgMember cfg id → ∃ pr, mapGet trk id = some pr
  learnersNext : ∀ id ∈ cfg.learnersNext.getD [],
      id ∈ cfg.outgoing.getD [] ∧ ∃ pr, mapGet trk id = some pr ∧ pr.isLearner = false
  learners : ∀ id ∈ cfg.learners.getD [],
      id ∉ cfg.outgoing.getD [] ∧ id ∉ cfg.voters ∧ ∃ pr, mapGet trk id = some pr ∧ pr.isLearner = true
  nonJoint : cfg.outgoing.getD [] = [] → cfg.outgoing = none ∧ cfg.learnersNext = none ∧ cfg.autoLeave = false

theorem checkInvariants_ok_iff (cfg : TrackerConfig) (trk : ProgressMap) :
    checkInvariants cfg trk = .ok () ↔ ConfInv cfg trk := by
  unfold checkInvariants
  simp only []
  rw [bind_unit_ok_iff, bind_unit_ok_iff, bind_unit_ok_iff]
  rw [forIn_unit_ok_iff _ _ (fun id => ∃ pr, mapGet trk id = some pr)]
  rw [forIn_unit_ok_iff _ _ (fun id => id ∈ cfg.outgoing.getD [] ∧ ((mapGet trk id).map (·.isLearner)).getD false = false)]
  rw [forIn_unit_ok_iff _ _ (fun id => id ∉ cfg.outgoing.getD [] ∧ id ∉ cfg.voters ∧ ((mapGet trk id).map (·.isLearner)).getD false = true)]
  · constructor
    · rintro ⟨h1, h2, h3, h4⟩
      refine ⟨?_, ?_, ?_, ?_⟩
      · intro id hm
        apply h1
        simp only [List.mem_append]
        unfold cfgMember at hm
        rcases hm with h | h | h | h <;> simp [h]
      · intro id hid
        obtain ⟨ho, hl⟩ := h2 id hid
        refine ⟨ho, ?_⟩
        obtain ⟨pr, hpr⟩ := h1 id (by simp [hid])
        exact ⟨pr, hpr, by simpa [hpr] using hl⟩
      · intro id hid
        obtain ⟨ho, hv, hl⟩ := h3 id hid
        refine ⟨ho, hv, ?_⟩
        obtain ⟨pr, hpr⟩ := h1 id (by simp [hid])
        exact ⟨pr, hpr, by simpa [hpr] using hl⟩
      · intro hj
        have hnj : (!joint cfg) = true := by simp [joint, hj]
        rw [if_pos hnj] at h4
        by_cases c1 : cfg.outgoing.isSome = true
        · rw [if_pos c1] at h4; exact absurd h4 (by intro h; cases h)
        · rw [if_neg c1] at h4
          by_cases c2 : cfg.learnersNext.isSome = true
          · rw [if_pos c2] at h4; exact absurd h4 (by intro h; cases h)
          · rw [if_neg c2] at h4
            by_cases c3 : cfg.autoLeave = true
            · rw [if_pos c3] at h4; exact absurd h4 (by intro h; cases h)
            · simp at c1 c2 c3; exact ⟨c1, c2, c3⟩
    · intro h
      refine ⟨?_, ?_, ?_, ?_⟩
      · intro id hm
        apply h.progress
        simp only [List.mem_append] at hm
        unfold cfgMember
        rcases hm with ((h | h) | h) | h <;> simp [h]
      · intro id hid
        obtain ⟨ho, pr, hpr, hl⟩ := h.learnersNext id hid
        exact ⟨ho, by simp [hpr, hl]⟩
      · intro id hid
        obtain ⟨ho, hv, pr, hpr, hl⟩ := h.learners id hid
        exact ⟨ho, hv, by simp [hpr, hl]⟩
      · by_cases hj : (!joint cfg) = true
        · rw [if_pos hj]
          have : cfg.outgoing.getD [] = [] := by simpa [joint] using hj
          obtain ⟨c1, c2, c3⟩ := h.nonJoint this
          simp [c1, c2, c3]; rfl
        · rw [if_neg hj]; rfl
  · rintro a ⟨h1, h2, h3⟩
    have h1' : ((cfg.outgoing.getD []).contains a = true) = False := by simp [h1]
    have h2' : (cfg.voters.contains a = true) = False := by simp [h2]
    simp only [h1', h2', h3, if_false]
    rfl
  · intro a h
    by_cases h1 : (cfg.outgoing.getD []).contains a = true
    · rw [if_pos h1]; exact ⟨_, rfl⟩
    · rw [if_neg h1]
      by_cases h2 : cfg.voters.contains a = true
      · rw [if_pos h2]; exact ⟨_, rfl⟩
      · rw [if_neg h2]
        by_cases h3 : (!(Option.map (fun x => x.isLearner) (mapGet trk a)).getD false) = true
        · rw [if_pos h3]; exact ⟨_, rfl⟩
        · exfalso; apply h; simp at h1 h2 h3; exact ⟨h1, h2, h3⟩
  · rintro a ⟨h1, h2⟩
    have h1' : ((!(cfg.outgoing.getD []).contains a) = true) = False := by simp [h1]
    simp only [h1', h2, if_false]
    rfl
  · intro a h
    by_cases h1 : (!(cfg.outgoing.getD []).contains a) = true
    · rw [if_pos h1]; exact ⟨_, rfl⟩
    · rw [if_neg h1]
      by_cases h2 : (Option.map (fun x => x.isLearner) (mapGet trk a)).getD false = true
      · rw [if_pos h2]; exact ⟨_, rfl⟩
      · exfalso; apply h; simp at h1 h2; exact ⟨h1, by simpa using h2⟩
  · rintro a ⟨pr, hpr⟩
    simp [hpr]; rfl
  · intro a h
    have : mapGet trk a = none := by
      cases hm : mapGet trk a with
      | none => rfl
      | some pr => exact absurd ⟨pr, hm⟩ h
    simp only [this, Option.isNone_none, if_true]
    exact ⟨_, rfl⟩

abbrev CS := TrackerConfig × ProgressMap

def applyStep (c : Changer) (s : CS) (cc : ConfChangeSingle) : CS :=
  if cc.nodeId = 0 then s else
  match cc.typ with
  | .addNode => c.makeVoter s.1 s.2 cc.nodeId
  | .addLearnerNode => c.makeLearner s.1 s.2 cc.nodeId
  | .removeNode => c.remove s.1 s.2 cc.nodeId
  | .updateNode => s

theorem forIn_pure_yield {α σ : Type} (l : List α) (f : σ → α → σ) (init : σ)
    (body : α → σ → CE (ForInStep σ)) (h : ∀ a s, body a s = .ok (.yield (f s a))) :
    forIn l init body = .ok (l.foldl f init) := by
  induction l generalizing init with
  | nil => rfl
  | cons a t ih => rw [List.forIn_cons, h]; exact ih _

theorem ok_bind {α β : Type} (a : α) (f : α → CE β) : (Except.ok a >>= f) = f a := rfl
theorem error_bind {α β : Type} (e : String) (f : α → CE β) : (Except.error e >>= f) = Except.error e := rfl
theorem throw_eq {α : Type} (e : String) : (throw e : CE α) = Except.error e := rfl
theorem pure_eq {α : Type} (a : α) : (pure a : CE α) = Except.ok a := rfl

theorem apply_eq (c : Changer) (cfg : TrackerConfig) (trk : ProgressMap) (ccs : List ConfChangeSingle) :
    c.apply cfg trk ccs =
      if (ccs.foldl (applyStep c) (cfg, trk)).1.voters.length = 0 then .error "removed all voters"
      else .ok (ccs.foldl (applyStep c) (cfg, trk)) := by
  unfold Changer.apply
  simp only []
  rw [forIn_pure_yield ccs (applyStep c)]
  · generalize ccs.foldl (applyStep c) (cfg, trk) = s
    rw [ok_bind]
    by_cases h : s.1.voters.length = 0
    · have : (s.1.voters.length == 0) = true := by simp [h]
      rw [if_pos h, if_pos this]; rfl
    · have : ¬ (s.1.voters.length == 0) = true := by simp [h]
      rw [if_neg h, if_neg this]; rfl
  · intro cc s
    unfold applyStep
    by_cases h : cc.nodeId = 0
    · simp [h]; rfl
    · simp [h]
      cases cc.typ <;> rfl


theorem check_ok_bind_iff {α : Type} (cfg : TrackerConfig) (trk : ProgressMap) (f : Unit → CE α) (r : α) :
    (checkInvariants cfg trk >>= f) = .ok r ↔ checkInvariants cfg trk = .ok () ∧ f () = .ok r := by
  cases checkInvariants cfg trk with
  | error e => simp [error_bind]
  | ok u => cases u; simp [ok_bind]

theorem checkAndReturn_ok_iff (cfg : TrackerConfig) (trk : ProgressMap) (r : CS) :
    checkAndReturn cfg trk = .ok r ↔ checkInvariants cfg trk = .ok () ∧ r = (cfg, trk) := by
  unfold checkAndReturn
  rw [check_ok_bind_iff, pure_eq]
  constructor
  · rintro ⟨h1, h2⟩; cases h2; exact ⟨h1, rfl⟩
  · rintro ⟨h1, h2⟩; subst h2; exact ⟨h1, rfl⟩

theorem apply_ok_iff (c : Changer) (cfg : TrackerConfig) (trk : ProgressMap) (ccs : List ConfChangeSingle) (r : CS) :
    c.apply cfg trk ccs = .ok r ↔ r = ccs.foldl (applyStep c) (cfg, trk) ∧ r.1.voters ≠ [] := by
  rw [apply_eq]
  by_cases h : (ccs.foldl (applyStep c) (cfg, trk)).1.voters.length = 0
  · rw [if_pos h]
    constructor
    · intro h'; cases h'
    · rintro ⟨rfl, h2⟩; exact absurd (List.length_eq_zero_iff.mp h) h2
  · rw [if_neg h]
    constructor
    · intro h'; cases h'; exact ⟨rfl, fun e => h (by rw [e]; rfl)⟩
    · rintro ⟨rfl, _⟩; rfl

theorem simple_ok_iff (c : Changer) (ccs : List ConfChangeSingle) (r : CS) :
    c.simple ccs = .ok r ↔
      checkInvariants c.tracker.cfg.clone c.tracker.progress = .ok () ∧
      joint c.tracker.cfg.clone = false ∧
      r = ccs.foldl (applyStep c) (c.tracker.cfg.clone, c.tracker.progress) ∧
      r.1.voters ≠ [] ∧
      symdiff c.tracker.cfg.voters r.1.voters ≤ 1 ∧
      checkInvariants r.1 r.2 = .ok () := by
  unfold Changer.simple Changer.checkAndCopy checkAndReturn
  cases hci : checkInvariants c.tracker.cfg.clone c.tracker.progress with
  | error e => simp [error_bind]
  | ok u =>
  cases u
  simp only [pure_eq, ok_bind, true_and]
  by_cases hj : joint c.tracker.cfg.clone = true
  · rw [if_pos hj]; simp [hj, throw_eq, error_bind]
  · rw [if_neg hj]
    have hj' : joint c.tracker.cfg.clone = false := by simpa using hj
    simp only [hj', true_and]
    cases ha : c.apply c.tracker.cfg.clone c.tracker.progress ccs with
    | error e =>
      rw [error_bind]
      constructor
      · intro h; cases h
      · rintro ⟨h1, h2, _⟩
        have := (apply_ok_iff c _ _ ccs r).mpr ⟨h1, h2⟩
        rw [ha] at this; cases this
    | ok s =>
      rw [ok_bind]
      obtain ⟨hs1, hs2⟩ := (apply_ok_iff c _ _ ccs s).mp ha
      by_cases hsd : symdiff c.tracker.cfg.voters s.1.voters > 1
      · rw [if_pos hsd]
        simp only [throw_eq, error_bind]
        constructor
        · intro h; cases h
        · rintro ⟨h1, _, h3, _⟩
          rw [← hs1] at h1; subst h1; omega
      · rw [if_neg hsd, check_ok_bind_iff]
        constructor
        · rintro ⟨h1, h2⟩
          cases h2
          exact ⟨hs1, hs2, Nat.le_of_not_gt hsd, h1⟩
        · rintro ⟨h1, _, _, h4⟩
          rw [← hs1] at h1; subst h1
          exact ⟨h4, rfl⟩

theorem forIn_inv_yield {α σ : Type} (l : List α) (f : σ → α → σ) (P : σ → Prop) (init : σ)
    (body : α → σ → CE (ForInStep σ)) (hP : P init)
    (hstep : ∀ a ∈ l, ∀ s, P s → body a s = .ok (.yield (f s a)) ∧ P (f s a)) :
    forIn l init body = .ok (l.foldl f init) := by
  induction l generalizing init with
  | nil => rfl
  | cons a t ih =>
    obtain ⟨h1, h2⟩ := hstep a (by simp) init hP
    rw [List.forIn_cons, h1]
    exact ih _ h2 (fun b hb => hstep b (List.mem_cons_of_mem _ hb))

def promoteStep (s : CS) (id : Id) : CS :=
  ({ s.1 with learners := nilAdd s.1.learners id },
   match mapGet s.2 id with
   | some pr => mapInsert id { pr with isLearner := true } s.2
   | none => s.2)

def dropStep (cfg : TrackerConfig) (trk : ProgressMap) (id : Id) : ProgressMap :=
  if (!cfg.voters.contains id && !optContains cfg.learners id) = true then mapErase id trk else trk

def leaveJointResult (c : Changer) : CS :=
  let s := (c.tracker.cfg.clone.learnersNext.getD []).foldl promoteStep (c.tracker.cfg.clone, c.tracker.progress)
  ({ voters := s.1.voters, learners := s.1.learners }, (s.1.outgoing.getD []).foldl (dropStep s.1) s.2)

theorem leaveJoint_ok_iff (c : Changer) (r : CS) :
    c.leaveJoint = .ok r ↔
      checkInvariants c.tracker.cfg.clone c.tracker.progress = .ok () ∧
      joint c.tracker.cfg.clone = true ∧
      r = leaveJointResult c ∧
      checkInvariants r.1 r.2 = .ok () := by
  unfold Changer.leaveJoint Changer.checkAndCopy checkAndReturn
  cases hci : checkInvariants c.tracker.cfg.clone c.tracker.progress with
  | error e => simp [error_bind]
  | ok u =>
  cases u
  have hprog : ∀ id ∈ c.tracker.cfg.learnersNext.getD [], id ∈ keys c.tracker.progress := by
    intro id hid
    obtain ⟨pr, hpr⟩ := ((checkInvariants_ok_iff _ _).mp hci).progress id (Or.inr (Or.inr (Or.inr hid)))
    exact mapGet_some_mem_keys hpr
  simp only [pure_eq, ok_bind, true_and]
  by_cases hj : (!joint c.tracker.cfg.clone) = true
  · rw [if_pos hj]
    have : joint c.tracker.cfg.clone = false := by simpa using hj
    simp [this, throw_eq, error_bind]
  · rw [if_neg hj]
    have hj' : joint c.tracker.cfg.clone = true := by simpa using hj
    simp only [hj', true_and]
    rw [forIn_inv_yield (c.tracker.cfg.clone.learnersNext.getD []) promoteStep
          (fun s => ∀ id ∈ c.tracker.cfg.learnersNext.getD [], id ∈ keys s.2)]
    · rw [ok_bind]
      unfold leaveJointResult
      simp only []
      generalize List.foldl promoteStep (c.tracker.cfg.clone, c.tracker.progress)
          (c.tracker.cfg.clone.learnersNext.getD []) = s1
      rw [forIn_pure_yield _ (dropStep s1.1)]
      · rw [ok_bind, check_ok_bind_iff]
        constructor
        · rintro ⟨h1, h2⟩
          have h2' := (Except.ok.inj h2).symm
          subst h2'; exact ⟨rfl, h1⟩
        · rintro ⟨h1, h2⟩; subst h1; exact ⟨h2, rfl⟩
      · intro id s
        unfold dropStep
        split <;> rfl
    · exact hprog
    · intro a ha s hs
      obtain ⟨pr, hpr⟩ := exists_mapGet_of_mem_keys (hs a ha)
      constructor
      · unfold promoteStep; simp only [hpr]
      · intro id hid
        unfold promoteStep
        simp only [hpr, keys_mapInsert, mem_setInsert]
        exact Or.inr (hs id hid)

def enterJointFold (c : Changer) (ccs : List ConfChangeSingle) : CS :=
  ccs.foldl (applyStep c)
    ({ c.tracker.cfg.clone with outgoing := some c.tracker.cfg.clone.voters }, c.tracker.progress)

theorem enterJoint_ok_iff (c : Changer) (al : Bool) (ccs : List ConfChangeSingle) (r : CS) :
    c.enterJoint al ccs = .ok r ↔
      checkInvariants c.tracker.cfg.clone c.tracker.progress = .ok () ∧
      joint c.tracker.cfg.clone = false ∧
      c.tracker.cfg.voters ≠ [] ∧
      (enterJointFold c ccs).1.voters ≠ [] ∧
      r = ({ (enterJointFold c ccs).1 with autoLeave := al }, (enterJointFold c ccs).2) ∧
      checkInvariants r.1 r.2 = .ok () := by
  unfold Changer.enterJoint Changer.checkAndCopy checkAndReturn
  cases hci : checkInvariants c.tracker.cfg.clone c.tracker.progress with
  | error e => simp [error_bind]
  | ok u =>
  cases u
  simp only [pure_eq, ok_bind, true_and]
  by_cases hj : joint c.tracker.cfg.clone = true
  · rw [if_pos hj]; simp [hj, throw_eq, error_bind]
  · rw [if_neg hj]
    have hj' : joint c.tracker.cfg.clone = false := by simpa using hj
    simp only [hj', true_and]
    by_cases hv : (c.tracker.cfg.clone.voters.length == 0) = true
    · rw [if_pos hv]
      have : c.tracker.cfg.voters = [] := by simpa [TrackerConfig.clone] using hv
      simp [this, throw_eq, error_bind]
    · rw [if_neg hv]
      have hv' : c.tracker.cfg.voters ≠ [] := by simpa [TrackerConfig.clone] using hv
      simp only [ne_eq, hv', not_false_eq_true, true_and]
      rw [apply_eq]
      unfold enterJointFold
      generalize List.foldl (applyStep c) _ ccs = s
      by_cases h0 : s.1.voters.length = 0
      · rw [if_pos h0, error_bind]
        simp [List.length_eq_zero_iff.mp h0]
      · rw [if_neg h0, ok_bind, check_ok_bind_iff]
        have : s.1.voters ≠ [] := fun e => h0 (by rw [e]; rfl)
        simp only [this, not_false_eq_true, true_and]
        constructor
        · rintro ⟨h1, h2⟩
          have h2' := (Except.ok.inj h2).symm
          subst h2'; exact ⟨rfl, h1⟩
        · rintro ⟨h1, h2⟩; subst h1; exact ⟨h2, rfl⟩

end RaftVerif
