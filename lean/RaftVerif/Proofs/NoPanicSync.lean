import RaftVerif.Proofs.NoPanicTerm
import RaftVerif.Proofs.SimReadyDurAll
/-!
# Proofs/NoPanicSync — one iteration of the sync-mode application loop (`Ready`; persist; `Advance`) does not throw

`syncRound_done`: in a reachable cluster state `Sim.syncRound rn draws` completes (`Done`), given that stepping a
node's own durable promise does not throw (`SelfStepNP`, proved elsewhere).
-/
namespace RaftVerif.NoPanicP
open Raft C14 Sim Refine
set_option linter.unusedSimpArgs false

/-- stepping a node's own (durable) MsgVoteResp / MsgAppResp, of a term that is not ahead of the node, does not throw
and keeps the side invariant `J` -/
def SelfStepNP (val : Val) (voters : List Id) (n : Nat) (J : Raft → Prop) : Prop :=
  ∀ (s : Spec.State) (r : Raft) (m : Message),
    RaftInv val voters n r (s.nodes n) s.msgs → Spec.Reachable (cfgOf voters) s →
    (m.typ = .voteResp ∨ m.typ = .appResp) → m.from = n → m.to = n → m.reject = false →
    InOK val n (s.nodes n) s.msgs m → m.term ≤ r.term → AuxInv n r → SelfOK n r m →
    J r → (r.state = .candidate → r.draws ≠ []) →
    NoErr (Raft.step Raft.stepFuel m) r ∧
    Spec (Raft.step Raft.stepFuel m) r (fun _ r' => J r' ∧ (r'.state = .candidate → r'.draws ≠ []))

/-! ### `Advance` -/

/-- `Advance` completes when the replay of `stepsOnAdvance` does -/
theorem advance_done (rn : RawNode) (draws : List Nat) (ha : rn.async = false)
    (h : ∃ r', Next.runSteps rn.stepsOnAdvance { rn.raft with draws := draws } = .ok r') :
    Done (rn.advance draws) := by
  obtain ⟨r', hr⟩ := h
  unfold RawNode.advance
  simp only [ha, Bool.false_eq_true, if_false]
  have hn : NoErr (do
      for m in rn.stepsOnAdvance do
        let _ ← Raft.step Raft.stepFuel m : M Unit) { rn.raft with draws := draws } := by
    apply NoErr.of_ok (a := ()) (s' := r')
    simp only [StateT.run_bind]
    rw [Next.forIn_steps_run, hr]
    rfl
  rcases runM_done rn draws _ hn with ⟨a, ha⟩ | he
  · left; rw [ha]; exact ⟨_, rfl⟩
  · right; rw [he]; rfl

/-! ### `Ready` and the storage write -/

/-- `MemoryStorage.Append` of all unstable entries succeeds (no snapshot pending) -/
theorem storage_append_ok {l : RaftLog} (h : l.WF) (hsn : l.unstable.snapshot = none) :
    ∃ ms, l.storage.append l.unstable.entries = .ok ms := by
  cases hes : l.unstable.entries with
  | nil => exact ⟨_, rfl⟩
  | cons e0 rest =>
    have hc := h.unstable.contig
    have hso := h.snapOK
    unfold RaftLog.SnapOK at hso
    rw [hsn] at hso
    simp only at hso
    obtain ⟨hs1, hs2, _, _⟩ := hso
    have hin : ∀ e ∈ l.unstable.entries, l.abs.entry? e.index = some e := by
      intro e he
      rw [RaftLog.abs_entry?_of_ge h (hc.mem he).1, Unstable.entry?_eq_some_iff h.unstable]
      exact ⟨he, rfl⟩
    obtain ⟨ms', hms', _⟩ := RaftLog.storage_append_log h hsn hc (by rw [hes]; simp) hin hs2
      (Nat.le_add_right _ _)
    rw [hes] at hms'
    exact ⟨ms', hms'⟩

/-- **`Ready` and the storage write succeed** (sync mode, previous `Ready` advanced, log settled), with the shape
of the result -/
theorem ready_persist_ok {rn : RawNode} (ha : rn.async = false) (hso : rn.stepsOnAdvance = [])
    (hwf : rn.raft.log.WF) (hset : LogSettled rn.raft.log) :
    ∃ rd rn1 eid l2 ms',
      rn.ready = .ok (rd, rn1) ∧
      persistReady rn1 rd = .ok { rn1 with raft := { rn1.raft with log := { rn1.raft.log with storage := ms' } } } ∧
      (rn.raft.log.hasNextOrInProgressUnstableEnts = true → rn.raft.log.lastEntryID = .ok eid) ∧
      rn1.async = false ∧ rn1.stepsOnAdvance = Next.soaOf rn.raft eid rd.committedEntries ∧
      rn1.raft = { rn.raft with readStates := [], msgs := [], msgsAfterAppend := [], log := l2 } ∧
      Persisted rn.raft.log { l2 with storage := ms' } ∧
      rd.committedEntries = rn.raft.log.nextBatch true := by
  obtain ⟨rd, rn1, hready⟩ := C14.no_panic_ready rn hwf (Or.inr hso)
  obtain ⟨eid, l2, hlast, _, hent, hasy1, hsoa1, hraft1, hrl⟩ := ready_sync_inv ha hso hwf hset.1 hready
  have hce := (RawNode.ready_apply rn rn1 rd hwf hready).1
  simp only [ha, Bool.not_false] at hce
  have hu := hrl.unstable
  rw [Unstable.acceptInProgress_eq hwf.unstable] at hu
  have hsn2 : l2.unstable.snapshot = none := by rw [hu]; exact hset.1
  have hent2 : rd.entries = l2.unstable.entries := by
    rw [hent, hu]; exact nextEntries_settled _ hset.2
  obtain ⟨ms, hms⟩ := storage_append_ok hrl.wf hsn2
  have hl1 : rn1.raft.log = l2 := by rw [hraft1]
  obtain ⟨ms', hms', hpers⟩ : ∃ ms', (ms' = ms ∨ ∃ hs, ms' = ms.setHardState hs) ∧ persistReady rn1 rd =
      .ok { rn1 with raft := { rn1.raft with log := { rn1.raft.log with storage := ms' } } } := by
    unfold persistReady
    rw [hl1, hent2, hms]
    cases rd.hardState with
    | none => exact ⟨ms, Or.inl rfl, rfl⟩
    | some hs => exact ⟨ms.setHardState hs, Or.inr ⟨hs, rfl⟩, rfl⟩
  refine ⟨rd, rn1, eid, l2, ms', hready, hpers, hlast, hasy1, hsoa1, hraft1, ?_, hce⟩
  exact persisted_of_ready hwf hset hrl (by rw [← hent, hent2]; exact hms) hms'

/-! ### the replay of the node's own promises -/

/-- **the self-addressed promises** of a `Ready`, stepped one after the other by `Advance`, do not throw; the side
invariant `J` (and the supply of a draw for a candidate) survives -/
theorem selfSteps_ok {val : Val} {voters : List Id} {n : Nat} {J : Raft → Prop} (hnp : SelfStepNP val voters n J)
    (dur0 : Spec.Ver) (ms : List Message) (hms : ∀ m ∈ ms, m.to = n ∧ PromOK n dur0 m)
    (s : Spec.State) (r : Raft) (hinv : RaftInv val voters n r (s.nodes n) s.msgs) (haux : AuxInv n r)
    (hok : ∀ m ∈ ms, SelfOK n r m)
    (hreach : Spec.Reachable (cfgOf voters) s) (hdur : Spec.VerLe dur0 (s.nodes n).dur)
    (hJ : J r) (hdr : r.state = .candidate → r.draws ≠ []) :
    ∃ r', Next.runSteps ms r = .ok r' ∧ J r' ∧ (r'.state = .candidate → r'.draws ≠ []) := by
  induction ms generalizing s r with
  | nil => exact ⟨r, rfl, hJ, hdr⟩
  | cons m ms ih =>
    obtain ⟨hto, hprom⟩ := hms m List.mem_cons_self
    have hself := hok m List.mem_cons_self
    obtain ⟨ht, hrej, hfrom, hle, _⟩ := hself hto
    have hin : InOK val n (s.nodes n) s.msgs m := inOK_of_prom ht hto hprom hdur
    obtain ⟨hne, hsp⟩ := hnp s r m hinv hreach ht hfrom hto hrej hin hle haux hself hJ hdr
    obtain ⟨e, r1, hstep⟩ := NoErr.ok hne
    obtain ⟨hJ1, hdr1⟩ := hsp.elim hstep
    obtain ⟨⟨as1, s1, hrun1, hact1, hinv1⟩, haux1, hfr1⟩ :=
      selfStepOK2 val voters n s r r1 m e hinv haux hreach ht hfrom hto hin hself hstep
    obtain ⟨r', hr', hJ', hdr'⟩ := ih (fun x hx => hms x (List.mem_cons_of_mem _ hx)) s1 r1 hinv1 haux1
      (fun x hx => (hok x (List.mem_cons_of_mem _ hx)).frame hfr1)
      (hrun1.reachable hreach) (hdur.trans (hrun1.dur_le hreach n)) hJ1 hdr1
    refine ⟨r', ?_, hJ', hdr'⟩
    simp only [Next.runSteps, hstep]
    exact hr'

/-! ### the two storage acknowledgements -/

theorem runSteps_single_ok {m : Message} {r r' : Raft} {e : Option StepErr}
    (h : (Raft.step (2 + 1) m).run r = .ok (e, r')) : ∃ rb, Next.runSteps [m] r = .ok rb := by
  refine ⟨r', ?_⟩
  simp only [Next.runSteps]
  rw [show Raft.stepFuel = 2 + 1 from rfl, h]
  rfl

/-- MsgStorageAppendResp of the node's own term never throws -/
theorem appendResp_ok (r0 ra : Raft) (eid : EntryID) (hterm : ra.term = r0.term) :
    ∃ rb, Next.runSteps [Next.storageResp r0 eid] ra = .ok rb :=
  runSteps_single_ok
    (Live.step_storageAppendResp_run 2 (Next.storageResp r0 eid) ra rfl (Or.inr hterm.symm) rfl)

/-- MsgStorageApplyResp for entries within `committed`, at a node without auto-leave, does not throw -/
theorem applyResp_ok {r0 rb : Raft} (hwf : rb.log.WF) (hauto : rb.trk.cfg.autoLeave = false) (cents : List Entry)
    (hc : ∀ last, cents.getLast? = some last → last.index ≤ rb.log.committed) :
    ∃ rc, Next.runSteps [RawNode.newStorageApplyRespMsg r0 cents] rb = .ok rc := by
  suffices h : ∃ e rc, (Raft.step (2 + 1) (RawNode.newStorageApplyRespMsg r0 cents)).run rb = .ok (e, rc) by
    obtain ⟨e, rc, h⟩ := h
    exact runSteps_single_ok h
  rw [Raft.step]
  simp only [RawNode.newStorageApplyRespMsg, StateT.run_bind, StateT.run_get, P_pure_eq, P_ok_bind, beq_self_eq_true,
    ↓reduceIte, StateT.run_pure]
  cases hg : cents.getLast? with
  | none => simp only [StateT.run_pure, P_pure_eq, P_ok_bind]; exact ⟨_, _, rfl⟩
  | some last =>
    have hle := hc last hg
    have h1 := hwf.appliedLeApplying
    have h2 := hwf.applyingLeCommitted
    obtain ⟨l, hl⟩ : ∃ l, rb.log.appliedTo (max last.index rb.log.applied) (entsSize cents) = .ok l := by
      rw [RaftLog.appliedTo_eq]
      split
      · rename_i hbad; omega
      · exact ⟨_, rfl⟩
    simp only [StateT.run_bind]
    rw [Live.appliedTo_plain_run 2 last.index (entsSize cents) rb l hl (Or.inl hauto)]
    simp only [P_ok_bind, StateT.run_get, P_pure_eq, Raft.reduceUncommittedSize_run, StateT.run_pure]
    exact ⟨_, _, rfl⟩

/-! ### the round -/

/-- the node in which `Advance` replays `stepsOnAdvance`: after `Ready` and the storage write, with the draws -/
def afterPersist (rn1 : RawNode) (ms' : MemoryStorage) (draws : List Nat) : Raft :=
  { rn1.raft with log := { rn1.raft.log with storage := ms' }, draws := draws }

/-- **the model side of `syncRound`, totally**: `Ready` and the storage write succeed, and the replay of
`stepsOnAdvance` runs to the end in a state satisfying `J` -/
theorem syncRound_runs {val : Val} {voters : List Id} {n : Nat} {s : Spec.State} {rn : RawNode} (J : Raft → Prop)
    (hnp : SelfStepNP val voters n J) (hnode : NodeInv val voters n rn (s.nodes n) s.msgs)
    (haux : AuxInv n rn.raft) (hset : Settled rn.raft) (hprom : MaaProm rn.raft)
    (hreach : Spec.Reachable (cfgOf voters) s)
    (hJ : ∀ r2, r2.state = rn.raft.state → r2.trk = rn.raft.trk → r2.cfg = rn.raft.cfg → r2.lead = rn.raft.lead →
      r2.term = rn.raft.term → r2.msgs = [] → r2.msgsAfterAppend = [] →
      r2.log.lastIndex = rn.raft.log.lastIndex → J r2)
    (hJframe : ∀ r r', r'.state = r.state → r'.trk = r.trk → r'.log.lastIndex = r.log.lastIndex → J r → J r')
    (draws : List Nat) (hd : draws ≠ []) :
    ∃ rd rn1 ms' r3, rn.ready = .ok (rd, rn1) ∧
      persistReady rn1 rd = .ok { rn1 with raft := { rn1.raft with log := { rn1.raft.log with storage := ms' } } } ∧
      rn1.async = false ∧
      Next.runSteps rn1.stepsOnAdvance (afterPersist rn1 ms' draws) = .ok r3 ∧ J r3 := by
  have hI := hnode.inv
  obtain ⟨rd, rn1, eid, l2, ms', hready, hpers, hlast, hasy1, hsoa1, hraft1, hP, hce⟩ :=
    ready_persist_ok hnode.sync hnode.adv hI.wf hset
  refine ⟨rd, rn1, ms', ?_⟩
  -- the state `r2` in which the replay starts
  have hr2 : afterPersist rn1 ms' draws =
      { rn.raft with readStates := [], msgs := [], msgsAfterAppend := [], log := { l2 with storage := ms' },
                     draws := draws } := by
    unfold afterPersist; rw [hraft1]
  generalize afterPersist rn1 ms' draws = r2 at hr2
  have hst2 : r2.state = rn.raft.state := by rw [hr2]
  have htrk2 : r2.trk = rn.raft.trk := by rw [hr2]
  have hterm2 : r2.term = rn.raft.term := by rw [hr2]
  have hmsgs2 : r2.msgs = [] := by rw [hr2]
  have hmaa2 : r2.msgsAfterAppend = [] := by rw [hr2]
  have hlog2 : r2.log = { l2 with storage := ms' } := by rw [hr2]
  have hinv2 : ∀ nd msgs, RaftInv val voters n rn.raft nd msgs → RaftInv val voters n r2 nd msgs := by
    intro nd msgs hinv
    rw [hr2]
    exact hinv.congrLog hP.wf hP.abs hP.committed rfl rfl rfl rfl rfl (fun _ hm => nomatch hm)
      (fun _ hm => nomatch hm) rfl rfl rfl rfl
  have hP2 : Persisted rn.raft.log r2.log := by rw [hlog2]; exact hP
  -- Spec: `write; persist`, then the release of the promises
  obtain ⟨s1, hrun1, hn1, hm1⟩ := write_persist_run (cfgOf voters) s n hI.pend
  have hI1 : RaftInv val voters n rn.raft (s1.nodes n) s1.msgs := by rw [hn1, hm1]; exact hI.persisted
  have hdur1 : (s1.nodes n).dur = (s.nodes n).vol := by rw [hn1]
  obtain ⟨s2, hrel, _⟩ := release_all (val := val) (cfgOf voters) n rn.raft.msgsAfterAppend s1
    (fun p hp => ⟨by rw [hdur1]; exact hI.prom p hp, hprom p hp⟩)
  obtain ⟨as2, hrun2, hact2, hnodes2, hsub2, hrv2⟩ := hrel
  have hI1' : RaftInv val voters n rn.raft (s2.nodes n) s2.msgs := by
    rw [hnodes2]; exact hI1.frame hsub2 (fun t lt li hx => hrv2 t n lt li hx)
  have hI2 : RaftInv val voters n r2 (s2.nodes n) s2.msgs := hinv2 _ _ hI1'
  have hlast2 : r2.log.lastIndex = rn.raft.log.lastIndex := lastIndex_of_inv hI1' hI2
  have haux2 : AuxInv n r2 := haux.transfer hst2 htrk2 hterm2 hlast2
    (by rw [hmsgs2]; exact fun _ hm => nomatch hm) (by rw [hmaa2]; exact fun _ hm => nomatch hm)
  have hreach2 := hrun2.reachable (hrun1.reachable hreach)
  have hdur2 : Spec.VerLe (s.nodes n).vol (s2.nodes n).dur := by
    rw [hnodes2, hdur1]; exact Spec.VerLe.refl _
  have hself : ∀ m ∈ rn.raft.msgsAfterAppend.filter (fun m => m.to == rn.raft.cfg.id),
      m.to = n ∧ PromOK n (s.nodes n).vol m ∧ SelfOK n r2 m := by
    intro m hm
    obtain ⟨hm1, hm2⟩ := List.mem_filter.1 hm
    have hto : m.to = n := by rw [← hI.st.id]; simpa using hm2
    exact ⟨hto, hI.prom m hm1, (haux.self m hm1).transfer hst2 hterm2 hlast2⟩
  have hJ2 : J r2 := hJ r2 hst2 htrk2 (by rw [hr2]) (by rw [hr2]) hterm2 hmsgs2 hmaa2 hlast2
  have hdr2 : r2.state = .candidate → r2.draws ≠ [] := fun _ => by rw [hr2]; exact hd
  -- the node's own promises
  obtain ⟨ra, hstepA, hJa, _⟩ := selfSteps_ok hnp (s.nodes n).vol _
    (fun m hm => ⟨(hself m hm).1, (hself m hm).2.1⟩) s2 r2 hI2 haux2 (fun m hm => (hself m hm).2.2) hreach2 hdur2
    hJ2 hdr2
  obtain ⟨as3, s3, hrun3, hact3, hI3, haux3, hg3, ht3⟩ :=
    self_steps2 (s.nodes n).vol _ (fun m hm => ⟨(hself m hm).1, (hself m hm).2.1⟩) s2 r2 ra hI2 haux2
      (fun m hm => (hself m hm).2.2) hreach2 hdur2 hstepA
  -- the acknowledgement of the storage write
  obtain ⟨rb, hstepB⟩ : ∃ rb, Next.runSteps (if rn.raft.log.hasNextOrInProgressUnstableEnts = true
      then [Next.storageResp rn.raft eid] else []) ra = .ok rb := by
    split
    · exact appendResp_ok rn.raft ra eid (ht3.trans hterm2)
    · exact ⟨ra, rfl⟩
  obtain ⟨hIb, hsetb, hsameb⟩ := appendResp_phase hI.wf hset.1 hP2 hI3 (ht3.trans hterm2) hg3.storage hg3.snap
    hg3.offset hg3.oip hg3.ents eid hlast hstepB
  have hJb : J rb := hJframe ra rb hsameb.state hsameb.trk (lastIndex_of_inv hI3 hIb) hJa
  -- the acknowledgement of the applied entries
  have hcomm : rn.raft.log.committed ≤ rb.log.committed := by
    have h1 := (runSteps_routed _ r2 ra hstepA).commit
    have h2 := (runSteps_routed _ ra rb hstepB).commit
    have h3 : r2.log.committed = rn.raft.log.committed := hP2.committed
    omega
  obtain ⟨rc, hstepC⟩ : ∃ rc, Next.runSteps (if rd.committedEntries.length > 0
      then [RawNode.newStorageApplyRespMsg rn.raft rd.committedEntries] else []) rb = .ok rc := by
    split
    · apply applyResp_ok hIb.wf hIb.st.tauto
      intro last hl
      have := (RaftLog.nextBatch_committed hI.wf true last (by rw [← hce]; exact List.mem_of_getLast? hl)).2
      omega
    · exact ⟨rb, rfl⟩
  obtain ⟨hIc, hsetc, hsamec⟩ := applyResp_phase hIb hsetb rd.committedEntries hstepC
  have hJc : J rc := hJframe rb rc hsamec.state hsamec.trk (lastIndex_of_inv hIb hIc) hJb
  refine ⟨rc, hready, hpers, hasy1, ?_, hJc⟩
  rw [hsoa1]
  unfold Next.soaOf
  rw [runSteps_append, runSteps_append, hstepA]
  simp only [P_ok_bind, hstepB, hstepC]

/-- **`syncRound` does not throw** in a reachable cluster state (sync mode), given that stepping the node's own
durable promises does not -/
theorem syncRound_done {val : Val} {voters : List Id} {n : Nat} {s : Spec.State} {rn : RawNode} (J : Raft → Prop)
    (hnp : SelfStepNP val voters n J) (hnode : NodeInv val voters n rn (s.nodes n) s.msgs)
    (haux : AuxInv n rn.raft) (hset : Settled rn.raft) (hprom : MaaProm rn.raft)
    (hreach : Spec.Reachable (cfgOf voters) s)
    (hJ : ∀ r2, r2.state = rn.raft.state → r2.trk = rn.raft.trk → r2.cfg = rn.raft.cfg → r2.lead = rn.raft.lead →
      r2.term = rn.raft.term → r2.msgs = [] → r2.msgsAfterAppend = [] →
      r2.log.lastIndex = rn.raft.log.lastIndex → J r2)
    (hJframe : ∀ r r', r'.state = r.state → r'.trk = r.trk → r'.log.lastIndex = r.log.lastIndex → J r → J r')
    (draws : List Nat) (hd : draws ≠ []) : Done (syncRound rn draws) := by
  obtain ⟨rd, rn1, ms', r3, hready, hpers, hasy, hrun, _⟩ :=
    syncRound_runs J hnp hnode haux hset hprom hreach hJ hJframe draws hd
  have hadv := advance_done
    { rn1 with raft := { rn1.raft with log := { rn1.raft.log with storage := ms' } } } draws hasy ⟨r3, hrun⟩
  unfold syncRound
  simp only [hready, hpers, bind, Except.bind]
  rcases hadv with ⟨a, ha⟩ | he
  · left; rw [ha]; exact ⟨_, rfl⟩
  · right; rw [he]

/-- partial-correctness companion: after a successful round the side invariant `J` holds -/
theorem syncRound_keeps {val : Val} {voters : List Id} {n : Nat} {s : Spec.State} {rn rn' : RawNode} {rd : Ready}
    (J : Raft → Prop)
    (hnp : SelfStepNP val voters n J) (hnode : NodeInv val voters n rn (s.nodes n) s.msgs)
    (haux : AuxInv n rn.raft) (hset : Settled rn.raft) (hprom : MaaProm rn.raft)
    (hreach : Spec.Reachable (cfgOf voters) s)
    (hJ : ∀ r2, r2.state = rn.raft.state → r2.trk = rn.raft.trk → r2.cfg = rn.raft.cfg → r2.lead = rn.raft.lead →
      r2.term = rn.raft.term → r2.msgs = [] → r2.msgsAfterAppend = [] →
      r2.log.lastIndex = rn.raft.log.lastIndex → J r2)
    (hJframe : ∀ r r', r'.state = r.state → r'.trk = r.trk → r'.log.lastIndex = r.log.lastIndex → J r → J r')
    (draws : List Nat) (hd : draws ≠ []) (h : syncRound rn draws = .ok (rd, rn')) : J rn'.raft := by
  obtain ⟨rd0, rn1, ms', r3, hready, hpers, hasy, hrun, hJ3⟩ :=
    syncRound_runs J hnp hnode haux hset hprom hreach hJ hJframe draws hd
  unfold syncRound at h
  simp only [hready, hpers, bind, Except.bind] at h
  split at h
  · cases h
  · rename_i rn3 hadv
    obtain ⟨r', hr', hrn3⟩ := advance_inv hadv
    simp only [pure, Except.pure, Except.ok.injEq, Prod.mk.injEq] at h
    have : r' = r3 := by
      have := hr'.symm.trans hrun
      injection this
    rw [← h.2, hrn3, this]
    exact hJ3

/-- **the state in which the replay loop starts** (`Ready` and the storage write are deterministic, so these are
the `rd`, `rn1` of any successful round): everything but the log, the emptied queues and the draws is the node's -/
theorem afterPersist_facts {rn : RawNode} (ha : rn.async = false) (hso : rn.stepsOnAdvance = [])
    (hwf : rn.raft.log.WF) (hset : Settled rn.raft) :
    ∃ rd rn1 ms', rn.ready = .ok (rd, rn1) ∧
      persistReady rn1 rd = .ok { rn1 with raft := { rn1.raft with log := { rn1.raft.log with storage := ms' } } } ∧
      ∀ draws, (afterPersist rn1 ms' draws).state = rn.raft.state ∧ (afterPersist rn1 ms' draws).trk = rn.raft.trk ∧
        (afterPersist rn1 ms' draws).cfg = rn.raft.cfg ∧ (afterPersist rn1 ms' draws).lead = rn.raft.lead ∧
        (afterPersist rn1 ms' draws).term = rn.raft.term ∧ (afterPersist rn1 ms' draws).vote = rn.raft.vote ∧
        (afterPersist rn1 ms' draws).msgs = [] ∧ (afterPersist rn1 ms' draws).msgsAfterAppend = [] ∧
        (afterPersist rn1 ms' draws).log.lastIndex = rn.raft.log.lastIndex ∧
        (afterPersist rn1 ms' draws).log.committed = rn.raft.log.committed ∧
        (afterPersist rn1 ms' draws).draws = draws := by
  obtain ⟨rd, rn1, eid, l2, ms', hready, hpers, _, _, _, hraft1, hP, _⟩ := ready_persist_ok ha hso hwf hset
  refine ⟨rd, rn1, ms', hready, hpers, fun draws => ?_⟩
  unfold afterPersist
  rw [hraft1]
  refine ⟨rfl, rfl, rfl, rfl, rfl, rfl, rfl, rfl, ?_, hP.committed, rfl⟩
  show ({ l2 with storage := ms' } : RaftLog).lastIndex = _
  rw [RaftLog.lastIndex_abs hP.wf, RaftLog.lastIndex_abs hwf, hP.abs]

end RaftVerif.NoPanicP
