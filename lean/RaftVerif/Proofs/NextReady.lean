import RaftVerif.Proofs.LiveReady
import RaftVerif.Proofs.StepTick
/-!
# Proofs/NextReady — what `RawNode.readyWithoutAccept` puts into a `Ready`, and what `acceptReady` records (C07)

Join-point walk through the two `do` blocks of `Model/RawNode.lean` (same technique as `Proofs/LiveReady.lean`).
-/
namespace RaftVerif.Next
open Raft Live RawNode
set_option linter.unusedSimpArgs false

/-- both branches of an `if` call the same continuation; which argument depends on the condition -/
theorem ite_fn_cases {α β : Type} {c : Prop} [Decidable c] {f : α → Except String β} {a b : α} {r : β}
    (Q : α → Prop) (h : (if c then f a else f b) = .ok r) (ha : c → Q a) (hb : ¬ c → Q b) :
    ∃ x, Q x ∧ f x = .ok r := by
  split at h
  · exact ⟨a, ha (by assumption), h⟩
  · exact ⟨b, hb (by assumption), h⟩

/-- a `Ready` under construction -/
structure RdIs (S : Option (Nat × Role)) (H : Option HardState) (SN : Option Snapshot)
    (RS : List (Nat × Option Bytes)) (E cents : List Entry) (msgs : List Message) (x : Ready) : Prop where
  soft : x.softState = S
  hard : x.hardState = H
  snap : x.snapshot = SN
  rs : x.readStates = RS
  entries : x.entries = E
  cents : x.committedEntries = cents
  messages : x.messages = msgs

/-- the `HardState` field of the next `Ready`: present iff it differs from the last one handed out -/
def rdHard (rn : RawNode) : Option HardState :=
  if (hardState rn.raft != rn.prevHard) = true then some (hardState rn.raft) else none
def rdSoft (rn : RawNode) : Option (Nat × Role) :=
  if (softState rn.raft != rn.prevSoft) = true then some (softState rn.raft) else none
def rdSnap (rn : RawNode) : Option Snapshot :=
  if rn.raft.log.hasNextUnstableSnapshot = true then rn.raft.log.unstable.nextSnapshot else none

/-- the fields of `Ready` that do not depend on the storage mode (everything but `messages`) -/
structure ReadyCore (rn : RawNode) (x : Ready) : Prop where
  soft : x.softState = rdSoft rn
  hard : x.hardState = rdHard rn
  snap : x.snapshot = rdSnap rn
  rs : x.readStates = rn.raft.readStates
  entries : x.entries = rn.raft.log.nextUnstableEnts
  cents : rn.raft.log.nextCommittedEnts rn.applyUnstableEntries = .ok x.committedEntries
  sync : x.mustSync = mustSync (hardState rn.raft) rn.prevHard rn.raft.log.nextUnstableEnts.length

/-- the MsgStorageAppend built in async mode carries exactly the `HardState` of the `Ready` -/
def AppendCarries (rn : RawNode) (x : Ready) : Prop :=
  ∀ h, rdHard rn = some h → h.isEmpty = false →
    ∃ m ∈ x.messages, m.typ = .storageAppend ∧ m.to = localAppendThread ∧ m.term = h.term ∧ m.vote = h.vote ∧
      m.commit = h.commit ∧ m.entries = rn.raft.log.nextUnstableEnts

theorem readyWithoutAccept_core (rn : RawNode) (rd : Ready) (h : rn.readyWithoutAccept = .ok rd) :
    ReadyCore rn rd ∧
    (rn.async = false →
      rd.messages = rn.raft.msgs ++ rn.raft.msgsAfterAppend.filter (fun m => m.to != rn.raft.cfg.id)) ∧
    (rn.async = true → AppendCarries rn rd) := by
  unfold RawNode.readyWithoutAccept at h
  obtain ⟨cents, hc, h⟩ := bind_eq_ok.1 h
  extract_lets +onlyGivenNames rd0 jEnd jApply jAsync jRS jSnap jHard at h
  obtain ⟨x1, hx1, h⟩ := ite_fn_cases (f := jHard ())
    (RdIs (rdSoft rn) none none [] rn.raft.log.nextUnstableEnts cents rn.raft.msgs) h
    (fun c => ⟨by simp [rdSoft, c], rfl, rfl, rfl, rfl, rfl, rfl⟩)
    (fun c => ⟨by simp [rdSoft, c, rd0], rfl, rfl, rfl, rfl, rfl, rfl⟩)
  simp only [jHard] at h
  obtain ⟨x2, hx2, h⟩ := ite_fn_cases (f := jSnap ())
    (RdIs (rdSoft rn) (rdHard rn) none [] rn.raft.log.nextUnstableEnts cents rn.raft.msgs) h
    (fun c => ⟨hx1.soft, by simp [rdHard, c], hx1.snap, hx1.rs, hx1.entries, hx1.cents, hx1.messages⟩)
    (fun c => ⟨hx1.soft, by simp [rdHard, c, hx1.hard], hx1.snap, hx1.rs, hx1.entries, hx1.cents, hx1.messages⟩)
  simp only [jSnap] at h
  obtain ⟨x3, hx3, h⟩ := ite_fn_cases (f := jRS ())
    (RdIs (rdSoft rn) (rdHard rn) (rdSnap rn) [] rn.raft.log.nextUnstableEnts cents rn.raft.msgs) h
    (fun c => ⟨hx2.soft, hx2.hard, by simp [rdSnap, c], hx2.rs, hx2.entries, hx2.cents, hx2.messages⟩)
    (fun c => ⟨hx2.soft, hx2.hard, by simp [rdSnap, c, hx2.snap], hx2.rs, hx2.entries, hx2.cents, hx2.messages⟩)
  simp only [jRS] at h
  obtain ⟨x4, hx4, h⟩ := ite_fn_cases (f := jAsync ())
    (RdIs (rdSoft rn) (rdHard rn) (rdSnap rn) rn.raft.readStates rn.raft.log.nextUnstableEnts cents rn.raft.msgs) h
    (fun c => ⟨hx3.soft, hx3.hard, hx3.snap, rfl, hx3.entries, hx3.cents, hx3.messages⟩)
    (fun c => ⟨hx3.soft, hx3.hard, hx3.snap, by
      have : rn.raft.readStates.length = 0 := by simpa using c
      rw [hx3.rs]; exact (List.length_eq_zero_iff.mp this).symm, hx3.entries, hx3.cents, hx3.messages⟩)
  -- what holds of the argument of the last join points
  have hcore : ∀ y : Ready, y.softState = x4.softState → y.hardState = x4.hardState → y.snapshot = x4.snapshot →
      y.readStates = x4.readStates → y.entries = x4.entries → y.committedEntries = x4.committedEntries →
      y.mustSync = mustSync (hardState rn.raft) rn.prevHard x4.entries.length → ReadyCore rn y := by
    intro y h1 h2 h3 h4 h5 h6 h7
    exact ⟨h1.trans hx4.soft, h2.trans hx4.hard, h3.trans hx4.snap, h4.trans hx4.rs, h5.trans hx4.entries,
      by rw [h6, hx4.cents]; exact hc, by rw [h7, hx4.entries]⟩
  have hfin : ∀ (P : Ready → Prop) (y : Ready), ReadyCore rn y → P y →
      (∀ m, P y → P { y with messages := y.messages ++ [m] }) → jApply () y = .ok rd → ReadyCore rn rd ∧ P rd := by
    intro P y hy hp hpm hj
    simp only [jApply, jEnd] at hj
    split at hj
    · injection hj with hj
      subst hj
      exact ⟨⟨hy.soft, hy.hard, hy.snap, hy.rs, hy.entries, hy.cents, hy.sync⟩, hpm _ hp⟩
    · injection hj with hj
      subst hj
      exact ⟨hy, hp⟩
  simp only [jAsync] at h
  cases ha : rn.async with
  | false =>
    simp only [ha, Bool.false_eq_true, ↓reduceIte, jEnd] at h
    injection h with h
    subst h
    refine ⟨hcore _ rfl rfl rfl rfl rfl rfl rfl, fun _ => ?_, fun hf => (by cases hf)⟩
    simp only [hx4.messages]
  | true =>
    simp only [ha, ↓reduceIte] at h
    suffices hs : ReadyCore rn rd ∧ AppendCarries rn rd from ⟨hs.1, fun hf => (by cases hf), fun _ => hs.2⟩
    have hpm : ∀ (y : Ready) (m : Message), AppendCarries rn y → AppendCarries rn { y with messages := y.messages ++ [m] } := by
      intro y m hy hh hh1 hh2
      obtain ⟨x, hx, hp⟩ := hy hh hh1 hh2
      exact ⟨x, List.mem_append_left _ hx, hp⟩
    cases hH : rdHard rn with
    | none =>
      have hnone : ∀ y, AppendCarries rn y := by
        intro y hh hh1; rw [hH] at hh1; cases hh1
      repeat' (split at h)
      all_goals (
        first
          | (obtain ⟨resp, hresp, h⟩ := bind_eq_ok.1 h
             refine hfin _ _ ?_ (hnone _) (fun m _ => hnone _) h
             exact hcore _ rfl rfl rfl rfl rfl rfl rfl)
          | (refine hfin _ _ ?_ (hnone _) (fun m _ => hnone _) h
             exact hcore _ rfl rfl rfl rfl rfl rfl rfl))
    | some hh =>
      have hxh : x4.hardState = some hh := hx4.hard.trans hH
      cases hemp : hh.isEmpty with
      | true =>
        have hnone : ∀ y, AppendCarries rn y := by
          intro y h' hh1 hh2; rw [hH] at hh1; injection hh1 with hh1; subst hh1; rw [hemp] at hh2; cases hh2
        repeat' (split at h)
        all_goals (
          first
            | (obtain ⟨resp, hresp, h⟩ := bind_eq_ok.1 h
               refine hfin _ _ ?_ (hnone _) (fun m _ => hnone _) h
               exact hcore _ rfl rfl rfl rfl rfl rfl rfl)
            | (refine hfin _ _ ?_ (hnone _) (fun m _ => hnone _) h
               exact hcore _ rfl rfl rfl rfl rfl rfl rfl))
      | false =>
        simp only [hxh, isEmptyHS, Option.map_some, Option.getD_some, hemp, Bool.not_false, Bool.or_true,
          Bool.true_or, ↓reduceIte] at h
        repeat' (split at h)
        all_goals (
          first
            | (obtain ⟨resp, hresp, h⟩ := bind_eq_ok.1 h
               refine hfin _ _ ?_ ?_ (fun m hy => hpm _ m hy) h
               · exact hcore _ rfl hxh.symm rfl rfl rfl rfl rfl
               intro h' hh1 _
               rw [hH] at hh1; injection hh1 with hh1; subst hh1
               exact ⟨_, List.mem_append_right _ (List.mem_singleton.mpr rfl), rfl, rfl, rfl, rfl, rfl, hx4.entries⟩)
            | (refine hfin _ _ ?_ ?_ (fun m hy => hpm _ m hy) h
               · exact hcore _ rfl hxh.symm rfl rfl rfl rfl rfl
               intro h' hh1 _
               rw [hH] at hh1; injection hh1 with hh1; subst hh1
               exact ⟨_, List.mem_append_right _ (List.mem_singleton.mpr rfl), rfl, rfl, rfl, rfl, rfl, hx4.entries⟩))

theorem acceptApplying_committed' {l l' : RaftLog} {i sz : Nat} {b : Bool} (h : l.acceptApplying i sz b = .ok l') :
    l'.committed = l.committed := by
  unfold RaftLog.acceptApplying at h
  split at h
  · simp [throw, throwThe, MonadExceptOf.throw] at h
  · simp only [pure, Except.pure, Except.ok.injEq] at h
    subst h; rfl

/-- the `prevHardSt` after `acceptReady`: the Ready's HardState if it has a non-empty one -/
def newPrevHard (rn : RawNode) (rd : Ready) : HardState :=
  match rd.hardState with
  | some h => if h.isEmpty then rn.prevHard else h
  | none => rn.prevHard

/-- **`acceptReady`** records the handed-out HardState and does not touch term, vote or commit -/
theorem acceptReady_hard (rn rn' : RawNode) (rd : Ready) (h : rn.acceptReady rd = .ok rn') :
    rn'.prevHard = newPrevHard rn rd ∧ hardState rn'.raft = hardState rn.raft ∧ rn'.async = rn.async := by
  unfold RawNode.acceptReady at h
  extract_lets +onlyGivenNames rn0 jD jC jB jA at h
  let K : HardState → RawNode → Prop := fun PH x =>
    hardState x.raft = hardState rn.raft ∧ x.prevHard = PH ∧ x.async = rn.async
  -- soft state
  have h1 : ∃ x1, K rn.prevHard x1 ∧ jA () x1 = .ok rn' := by
    split at h
    · dsimp only at h
      refine ⟨_, ?_, h⟩
      exact ⟨rfl, rfl, rfl⟩
    · refine ⟨_, ?_, h⟩
      exact ⟨rfl, rfl, rfl⟩
  obtain ⟨x1, hx1, h⟩ := h1
  -- hard state
  simp only [jA] at h
  have h2 : ∃ x2, K (newPrevHard rn rd) x2 ∧ jB () x2 = .ok rn' := by
    unfold newPrevHard
    cases hhs : rd.hardState with
    | none =>
      simp only [hhs] at h ⊢
      exact ⟨_, hx1, h⟩
    | some hh =>
      simp only [hhs] at h ⊢
      cases hemp : hh.isEmpty with
      | true =>
        simp only [hemp, Bool.not_true, Bool.false_eq_true, ↓reduceIte] at h ⊢
        exact ⟨_, hx1, h⟩
      | false =>
        simp only [hemp, Bool.not_false, Bool.false_eq_true, ↓reduceIte] at h ⊢
        refine ⟨_, ?_, h⟩
        exact ⟨hx1.1, rfl, hx1.2.2⟩
  obtain ⟨x2, hx2, h⟩ := h2
  -- read states
  simp only [jB] at h
  obtain ⟨x3, hx3, h⟩ := ite_same_fn (f := jC ()) (K (newPrevHard rn rd)) h ⟨hx2.1, hx2.2.1, hx2.2.2⟩ hx2
  -- the final raft update
  have hD : ∀ y, K (newPrevHard rn rd) y → jD () y = .ok rn' → K (newPrevHard rn rd) rn' := by
    intro y hy hj
    simp only [jD] at hj
    split at hj
    · obtain ⟨l, hl, hj⟩ := bind_eq_ok.1 hj
      simp only [pure, Except.pure, Except.ok.injEq] at hj
      subst hj
      refine ⟨?_, hy.2.1, hy.2.2⟩
      have := acceptApplying_committed' hl
      rw [← hy.1]
      simp only [hardState, this]
      rfl
    · simp only [pure, Except.pure, Except.ok.injEq] at hj
      subst hj
      refine ⟨?_, hy.2.1, hy.2.2⟩
      rw [← hy.1]
      rfl
  simp only [jC] at h
  have h4 : K (newPrevHard rn rd) rn' := by
    split at h
    · split at h
      · obtain ⟨_, ht, _⟩ := bind_eq_ok.1 h
        simp [throw, throwThe, MonadExceptOf.throw] at ht
      · repeat' (split at h)
        all_goals (
          first
            | (obtain ⟨resp, _, h⟩ := bind_eq_ok.1 h
               refine hD _ ?_ h
               exact ⟨hx3.1, hx3.2.1, hx3.2.2⟩)
            | (refine hD _ ?_ h
               exact ⟨hx3.1, hx3.2.1, hx3.2.2⟩))
    · exact hD _ hx3 h
  exact ⟨h4.2.1, h4.1, h4.2.2⟩

/-- `runM` only replaces the raft state -/
theorem runM_frame {α : Type} (rn rn' : RawNode) (draws : List Nat) (act : M α) (a : α)
    (h : rn.runM draws act = .ok (a, rn')) :
    rn'.prevHard = rn.prevHard ∧ rn'.prevSoft = rn.prevSoft ∧ rn'.async = rn.async ∧
    rn'.stepsOnAdvance = rn.stepsOnAdvance := by
  unfold runM at h
  obtain ⟨⟨a', r'⟩, hrun, h⟩ := bind_eq_ok.1 h
  by_cases hd : (!r'.draws.isEmpty) = true
  · simp [hd, throw, throwThe, MonadExceptOf.throw, bind, Except.bind] at h
  · simp only [hd, bind, Except.bind, pure, Except.pure] at h
    simp only [Bool.false_eq_true, if_false, Except.ok.injEq, Prod.mk.injEq] at h
    obtain ⟨_, rfl⟩ := h
    exact ⟨rfl, rfl, rfl, rfl⟩

/-- `advance` (sync mode) does not touch `prevHardSt` -/
theorem advance_prevHard (rn rn' : RawNode) (draws : List Nat) (h : rn.advance draws = .ok rn') :
    rn'.prevHard = rn.prevHard ∧ rn'.prevSoft = rn.prevSoft ∧ rn'.async = rn.async := by
  unfold advance at h
  by_cases ha : rn.async = true
  · simp [ha, throw, throwThe, MonadExceptOf.throw, bind, Except.bind] at h
  · simp only [ha, Bool.false_eq_true, if_false] at h
    obtain ⟨⟨u, rn1⟩, hrun, h⟩ := bind_eq_ok.1 h
    simp only [pure, Except.pure, Except.ok.injEq] at h
    subst h
    obtain ⟨h1, h2, h3, _⟩ := runM_frame rn rn1 draws _ u hrun
    exact ⟨h1, h2, h3⟩

end RaftVerif.Next

namespace RaftVerif.Next
open Raft Live
set_option linter.unusedSimpArgs false

/-- in sync mode `readyWithoutAccept` fails only if `nextCommittedEnts` does -/
theorem readyWithoutAccept_sync_total (rn : RawNode) (ha : rn.async = false) (cents : List Entry)
    (hc : rn.raft.log.nextCommittedEnts rn.applyUnstableEntries = .ok cents) :
    ∃ rd, rn.readyWithoutAccept = .ok rd := by
  unfold RawNode.readyWithoutAccept
  simp only [hc, ha, bind, Except.bind, pure, Except.pure, Bool.false_eq_true, ↓reduceIte]
  repeat' split
  all_goals exact ⟨_, rfl⟩

end RaftVerif.Next
namespace RaftVerif.Next
open Raft Live
set_option linter.unusedSimpArgs false

/-- the acknowledgement of the storage write of a `Ready` (sync mode, no snapshot) -/
def storageResp (r : Raft) (eid : EntryID) : Message :=
  { typ := .storageAppendResp, to := r.cfg.id, «from» := localAppendThread, term := r.term,
    index := eid.index, logTerm := eid.term }

/-- the messages `acceptReady` keeps for `advance` (sync mode, no snapshot) -/
def soaOf (r : Raft) (eid : EntryID) (cents : List Entry) : List Message :=
  r.msgsAfterAppend.filter (fun m => m.to == r.cfg.id) ++
  (if r.log.hasNextOrInProgressUnstableEnts = true then [storageResp r eid] else []) ++
  (if cents.length > 0 then [RawNode.newStorageApplyRespMsg r cents] else [])

theorem newStorageAppendRespMsg_run (r : Raft) (rd : Ready) (eid : EntryID)
    (hsnap : RawNode.isEmptySnap rd.snapshot = true)
    (hne : r.log.hasNextOrInProgressUnstableEnts = true) (hlast : r.log.lastEntryID = .ok eid) :
    RawNode.newStorageAppendRespMsg r rd = .ok (storageResp r eid) := by
  unfold RawNode.newStorageAppendRespMsg
  simp [hne, hlast, hsnap, bind, Except.bind, pure, Except.pure, storageResp]

/-- the node inside `acceptReady` after the soft / hard / read states have been recorded -/
def accMid (rn : RawNode) (ps : Nat × Role) (ph : HardState) (soa : List Message) : RawNode :=
  { raft := { rn.raft with readStates := [] }, async := false, prevSoft := ps, prevHard := ph, stepsOnAdvance := soa }

/-- **`acceptReady` in sync mode** (no snapshot in the `Ready`, previous `Ready` advanced): succeeds as
soon as the acknowledgement can be built and `acceptApplying` accepts the committed entries; exact result -/
theorem acceptReady_sync (rn : RawNode) (rd : Ready) (ha : rn.async = false) (hso : rn.stepsOnAdvance = [])
    (hsnap : RawNode.isEmptySnap rd.snapshot = true) (hrs : rd.readStates = rn.raft.readStates)
    (eid : EntryID) (hlast : rn.raft.log.hasNextOrInProgressUnstableEnts = true → rn.raft.log.lastEntryID = .ok eid)
    (l2 : RaftLog)
    (hl2 : match rd.committedEntries.getLast? with
      | some last => rn.raft.log.acceptUnstable.acceptApplying last.index (entsSize rd.committedEntries) true = .ok l2
      | none => l2 = rn.raft.log.acceptUnstable) :
    ∃ rn', rn.acceptReady rd = .ok rn' ∧ rn'.async = false ∧
      rn'.stepsOnAdvance = soaOf rn.raft eid rd.committedEntries ∧
      rn'.raft = { rn.raft with readStates := [], msgs := [], msgsAfterAppend := [], log := l2 } := by
  unfold RawNode.acceptReady
  extract_lets +onlyGivenNames rn0 jD jC jB jA
  -- the node threaded through the join points: only `prevSoft` / `prevHard` vary at first
  let K : RawNode → Prop := fun x => x.async = false ∧ x.stepsOnAdvance = [] ∧ x.raft = rn.raft
  let Goal : RawNode → Prop := fun rn' => rn'.async = false ∧
      rn'.stepsOnAdvance = soaOf rn.raft eid rd.committedEntries ∧
      rn'.raft = { rn.raft with readStates := [], msgs := [], msgsAfterAppend := [], log := l2 }
  have heta : ∀ r : Raft, r.readStates = [] → r = { r with readStates := [] } := by
    intro r h; cases r; simp only at h; subst h; rfl
  suffices hA : ∀ x, K x → ∃ rn', jA () x = .ok rn' ∧ Goal rn' by
    split
    · exact hA _ ⟨ha, hso, rfl⟩
    · exact hA _ ⟨ha, hso, rfl⟩
  suffices hB : ∀ x, K x → ∃ rn', jB () x = .ok rn' ∧ Goal rn' by
    intro x hx
    simp only [jA]
    split
    · split
      · exact hB _ hx
      · exact hB _ hx
    · exact hB _ hx
  suffices hC : ∀ ps ph, ∃ rn', jC () (accMid rn ps ph []) = .ok rn' ∧ Goal rn' by
    intro x hx
    obtain ⟨xr, xa, xps, xph, xso⟩ := x
    obtain ⟨hxa, hxs, hxr⟩ := hx
    simp only at hxa hxs hxr
    subst hxa hxs hxr
    simp only [jB]
    split
    · exact hC xps xph
    · rename_i hlen
      have hnil : rn.raft.readStates = [] := by
        have : rd.readStates.length = 0 := by simpa using hlen
        rw [← hrs]; exact List.length_eq_zero_iff.mp this
      have := hC xps xph
      unfold accMid at this
      rw [← heta _ hnil] at this
      exact this
  intro ps ph
  simp only [jC, accMid, Bool.not_false, ↓reduceIte, List.length_nil, bne_self_eq_false, Bool.false_eq_true]
  -- the final raft update
  have hD : ∀ soa, soa = soaOf rn.raft eid rd.committedEntries →
      ∃ rn', jD () (accMid rn ps ph soa) = .ok rn' ∧ Goal rn' := by
    intro soa hsoa
    simp only [jD, accMid]
    split at hl2
    · rename_i last hlast'
      simp only [hlast', RawNode.applyUnstableEntries, Bool.not_false, hl2, bind, Except.bind, pure, Except.pure]
      exact ⟨_, rfl, rfl, hsoa, rfl⟩
    · rename_i hnone
      simp only [hnone, pure, Except.pure]
      exact ⟨_, rfl, rfl, hsoa, by rw [hl2]⟩
  have hneed : RawNode.needStorageAppendRespMsg { rn.raft with readStates := [] } rd =
      rn.raft.log.hasNextOrInProgressUnstableEnts := by
    simp [RawNode.needStorageAppendRespMsg, hsnap]
  rw [hneed]
  cases hu : rn.raft.log.hasNextOrInProgressUnstableEnts with
  | false =>
    simp only [Bool.false_eq_true, ↓reduceIte]
    split
    · rename_i hpos
      refine hD _ ?_
      simp only [soaOf, hu, Bool.false_eq_true, ↓reduceIte, List.append_nil, hpos]
      rfl
    · rename_i hpos
      refine hD _ ?_
      simp only [soaOf, hu, Bool.false_eq_true, ↓reduceIte, List.append_nil, hpos]
  | true =>
    have hresp : RawNode.newStorageAppendRespMsg { rn.raft with readStates := [] } rd = .ok (storageResp rn.raft eid) :=
      newStorageAppendRespMsg_run _ rd eid hsnap hu (hlast hu)
    simp only [↓reduceIte, hresp, bind, Except.bind]
    split
    · rename_i hpos
      refine hD _ ?_
      simp only [soaOf, hu, ↓reduceIte, hpos]
      rfl
    · rename_i hpos
      refine hD _ ?_
      simp only [soaOf, hu, ↓reduceIte, hpos, List.append_nil]
end RaftVerif.Next
namespace RaftVerif.Next
open Raft Live
set_option linter.unusedSimpArgs false

/-- **`RawNode.ready` in sync mode never panics** on a node without pending snapshot whose previous `Ready`
was advanced, provided the log can hand out its committed entries, name its last entry and accept the
applying cursor; exact resulting node (up to `prevSoft` / `prevHard`) -/
theorem ready_sync (rn : RawNode) (ha : rn.async = false) (hso : rn.stepsOnAdvance = [])
    (hsn : rn.raft.log.unstable.snapshot = none) (cents : List Entry)
    (hc : rn.raft.log.nextCommittedEnts true = .ok cents)
    (eid : EntryID) (hlast : rn.raft.log.hasNextOrInProgressUnstableEnts = true → rn.raft.log.lastEntryID = .ok eid)
    (l2 : RaftLog)
    (hl2 : match cents.getLast? with
      | some last => rn.raft.log.acceptUnstable.acceptApplying last.index (entsSize cents) true = .ok l2
      | none => l2 = rn.raft.log.acceptUnstable) :
    ∃ rd rn', rn.ready = .ok (rd, rn') ∧ rd.entries = rn.raft.log.nextUnstableEnts ∧
      rd.committedEntries = cents ∧ rn'.async = false ∧ rn'.stepsOnAdvance = soaOf rn.raft eid cents ∧
      rn'.raft = { rn.raft with readStates := [], msgs := [], msgsAfterAppend := [], log := l2 } := by
  have hau : rn.applyUnstableEntries = true := by simp [RawNode.applyUnstableEntries, ha]
  obtain ⟨rd, hrd⟩ := readyWithoutAccept_sync_total rn ha cents (by rw [hau]; exact hc)
  obtain ⟨core, _, _⟩ := readyWithoutAccept_core rn rd hrd
  have hce : rd.committedEntries = cents := by
    have := core.cents
    rw [hau, hc] at this
    injection this with this
    exact this.symm
  have hsnap : RawNode.isEmptySnap rd.snapshot = true := by
    rw [core.snap]
    unfold rdSnap RaftLog.hasNextUnstableSnapshot Unstable.nextSnapshot
    simp [hsn, RawNode.isEmptySnap]
  obtain ⟨rn', hacc, h1, h2, h3⟩ := acceptReady_sync rn rd ha hso hsnap core.rs eid hlast l2 (by rw [hce]; exact hl2)
  refine ⟨rd, rn', ?_, core.entries, hce, h1, by rw [h2, hce], h3⟩
  unfold RawNode.ready
  simp [hrd, hacc, bind, Except.bind, pure, Except.pure]
end RaftVerif.Next
