import RaftVerif.Proofs.RefineRApply
import RaftVerif.Props.Refinement
/-!
# Proofs/RefineRLog — abstraction of the model log / node into `SpecR` (entries carry `cfg`)

* `absEntR val cf e`: `cfg := some (cf e)` exactly for the conf-change entries (`Conf10.isConfChange`:
  type ConfChange or ConfChangeV2); `cf : Entry → SpecR.Conf` is a parameter (the configuration the entry
  produces — determined by the Changer when the entry is applied, see `applyConfChange_refines_applyTo`).
* `AbsR val cf r nd`: `Refine.Abs` plus `applied`, and `pendingConf` for a leader.
* dictionary: erasing `cfg` gives `Refine.absLog`; `hasCfgIn applied committed ↔ UnappliedCC`.
-/
namespace RaftVerif.RefineR
open RaftVerif.Refine RaftVerif.Conf10

/-- entry abstraction: the conf-change entries, and only they, carry a configuration -/
def absEntR (val : Val) (cf : Entry → SpecR.Conf) (e : Entry) : SpecR.Ent :=
  { term := e.term, val := val e.typ e.data, cfg := if isConfChange e then some (cf e) else none }

def absLogLR (val : Val) (cf : Entry → SpecR.Conf) (l : RaftLog) : SpecR.Log :=
  l.abs.ents.map (absEntR val cf)

def absLogR (val : Val) (cf : Entry → SpecR.Conf) (r : Raft) : SpecR.Log := absLogLR val cf r.log

def absRoleR : Role → SpecR.Role
  | .follower => .follower
  | .preCandidate => .follower
  | .candidate => .candidate
  | .leader => .leader

/-- **abstraction relation into SpecR** (`vol.acks`, `vol.votes`, `dur`, `pending` are ghost / environment;
`pendingConf` is only meaningful for a leader: `reset` zeroes `pendingConfIndex`, SpecR keeps it) -/
structure AbsR (val : Val) (cf : Entry → SpecR.Conf) (r : Raft) (nd : SpecR.Node) : Prop where
  term : nd.vol.term = r.term
  vote : nd.vol.vote = r.vote
  commit : nd.vol.commit = r.log.committed
  log : nd.vol.log = absLogR val cf r
  role : nd.role = absRoleR r.state
  applied : nd.applied = r.log.applied
  pendingConf : r.state = .leader → nd.pendingConf = r.pendingConfIndex

/-- the canonical abstract node -/
def absNodeR (val : Val) (cf : Entry → SpecR.Conf) (r : Raft) : SpecR.Node :=
  { vol := { term := r.term, vote := r.vote, commit := r.log.committed, log := absLogR val cf r },
    role := absRoleR r.state, applied := r.log.applied, pendingConf := r.pendingConfIndex }

theorem absR_absNodeR (val : Val) (cf : Entry → SpecR.Conf) (r : Raft) : AbsR val cf r (absNodeR val cf r) :=
  ⟨rfl, rfl, rfl, rfl, rfl, rfl, fun _ => rfl⟩

theorem absRoleR_ne_leader {s : Role} (h : s ≠ .leader) : absRoleR s ≠ .leader := by
  cases s <;> simp_all [absRoleR]

theorem absRoleR_eq_leader {s : Role} : absRoleR s = .leader ↔ s = .leader := by
  cases s <;> simp [absRoleR]

theorem absRoleR_eq_candidate {s : Role} : absRoleR s = .candidate ↔ s = .candidate := by
  cases s <;> simp [absRoleR]

/-! ### forgetting the configuration annotation gives the static abstraction -/

def eraseEnt (e : SpecR.Ent) : Spec.Ent := { term := e.term, val := e.val }

theorem erase_absEntR (val : Val) (cf : Entry → SpecR.Conf) (e : Entry) :
    eraseEnt (absEntR val cf e) = absEnt val e := rfl

theorem absLogR_erase (val : Val) (cf : Entry → SpecR.Conf) (r : Raft) :
    (absLogR val cf r).map eraseEnt = absLog val r := by
  simp only [absLogR, absLogLR, absLog, absLogL, List.map_map]
  rfl

theorem absLogR_length (val : Val) (cf : Entry → SpecR.Conf) (r : Raft) :
    (absLogR val cf r).length = (absLog val r).length := by
  rw [← absLogR_erase val cf r, List.length_map]

theorem lastTerm_erase (L : SpecR.Log) : Spec.Log.lastTerm (L.map eraseEnt) = L.lastTerm := by
  unfold Spec.Log.lastTerm SpecR.Log.lastTerm
  rw [List.getLast?_map]
  cases L.getLast? <;> rfl

theorem absLogR_lastTerm (val : Val) (cf : Entry → SpecR.Conf) (r : Raft) :
    (absLogR val cf r).lastTerm = (absLog val r).lastTerm := by
  rw [← absLogR_erase val cf r, lastTerm_erase]

theorem termAt_erase (L : SpecR.Log) (i : Nat) : Spec.Log.termAt (L.map eraseEnt) i = L.termAt i := by
  unfold Spec.Log.termAt SpecR.Log.termAt
  split
  · rfl
  · rw [List.getElem?_map]
    cases L[i - 1]? <;> rfl

theorem absLogR_termAt (val : Val) (cf : Entry → SpecR.Conf) (r : Raft) (i : Nat) :
    (absLogR val cf r).termAt i = (absLog val r).termAt i := by
  rw [← absLogR_erase val cf r, termAt_erase]

theorem absEntR_cfg_isSome (val : Val) (cf : Entry → SpecR.Conf) (e : Entry) :
    (absEntR val cf e).cfg.isSome = isConfChange e := by
  unfold absEntR
  cases isConfChange e <;> rfl

/-! ### `hasCfgIn` on the abstraction is "some conf-change entry with index in `(lo, hi]`" -/

theorem any_take_drop_iff {α : Type} (l : List α) (p : α → Bool) (lo hi : Nat) :
    ((l.take hi).drop lo).any p = true ↔
      ∃ i x, lo < i ∧ i ≤ hi ∧ l[i - 1]? = some x ∧ p x = true := by
  rw [List.any_eq_true]
  constructor
  · rintro ⟨x, hx, hp⟩
    obtain ⟨j, hj⟩ := List.getElem?_of_mem hx
    rw [List.getElem?_drop, List.getElem?_take] at hj
    split at hj
    · exact ⟨lo + j + 1, x, by omega, by omega, by simpa using hj, hp⟩
    · cases hj
  · rintro ⟨i, x, h1, h2, h3, hp⟩
    refine ⟨x, ?_, hp⟩
    apply List.mem_of_getElem? (i := i - 1 - lo)
    rw [List.getElem?_drop, List.getElem?_take, if_pos (by omega)]
    rw [show lo + (i - 1 - lo) = i - 1 by omega]
    exact h3

theorem hasCfgIn_absLogLR (val : Val) (cf : Entry → SpecR.Conf) (l : RaftLog) (lo hi : Nat) :
    (absLogLR val cf l).hasCfgIn lo hi = true ↔
      ∃ i e, lo < i ∧ i ≤ hi ∧ l.abs.ents[i - 1]? = some e ∧ isConfChange e = true := by
  unfold SpecR.Log.hasCfgIn absLogLR
  rw [← List.map_take, ← List.map_drop, List.any_map]
  rw [any_take_drop_iff]
  constructor
  · rintro ⟨i, e, h1, h2, h3, h4⟩
    exact ⟨i, e, h1, h2, h3, by rw [← absEntR_cfg_isSome val cf e]; exact h4⟩
  · rintro ⟨i, e, h1, h2, h3, h4⟩
    exact ⟨i, e, h1, h2, h3, by simp only [Function.comp]; rw [absEntR_cfg_isSome val cf e]; exact h4⟩

/-- on an uncompacted log the SpecR campaign guard is exactly the model's `UnappliedCC` -/
theorem hasCfgIn_iff_unappliedCC (val : Val) (cf : Entry → SpecR.Conf) (l : RaftLog) (hu : Uncompacted l) :
    (absLogLR val cf l).hasCfgIn l.applied l.committed = true ↔ UnappliedCC l := by
  rw [hasCfgIn_absLogLR]
  unfold UnappliedCC ALog.entry?
  rw [hu.1]
  constructor
  · rintro ⟨i, e, h1, h2, h3, h4⟩
    refine ⟨i, e, h1, h2, ?_, (isConfChange_iff e).mp h4⟩
    rw [if_pos (by omega)]; exact h3
  · rintro ⟨i, e, h1, h2, h3, h4⟩
    refine ⟨i, e, h1, h2, ?_, (isConfChange_iff e).mpr h4⟩
    rw [if_pos (by omega)] at h3; exact h3

end RaftVerif.RefineR
