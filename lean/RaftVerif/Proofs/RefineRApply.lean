import RaftVerif.Proofs.RefineRChanger
import RaftVerif.Proofs.ReconfConf
import RaftVerif.Props.C10
/-!
# Proofs/RefineRApply — `Raft.applyConfChange` against `SpecR.applyTo` (item 3)
-/
namespace RaftVerif.RefineR
open RaftVerif.Raft RaftVerif.Conf10

/-- after a successful `applyConfChange`, the node's configuration is the Changer's result, which is an
allowed successor of the old one; the returned ConfState shows the same voter sets -/
theorem applyConfChange_absConf (cc : ConfChangeV2) (r r' : Raft) (cs : ConfState)
    (hs : ConfInvStrong r.trk.cfg r.trk.progress)
    (h : (applyConfChange cc).run r = .ok (cs, r')) :
    ∃ cfg trk, applyV2 (changerOf r) cc = .ok (cfg, trk) ∧ ConfInvStrong cfg trk ∧
      absConf r'.trk = absConfC cfg ∧ (absConf r.trk).allowed (absConf r'.trk) = true ∧
      (cs.voters, cs.votersOutgoing) = absConf r'.trk ∧
      (r.state ≠ .leader → r'.trk.progress = trk) := by
  obtain ⟨cfg, trk, h1, h2, h3, _, _, _, h7, _⟩ := C10.applyConfChange_result cc r r' cs h
  obtain ⟨ha, hi⟩ := applyV2_allowed (changerOf r) cc cfg trk hs h1
  have e : absConf r'.trk = absConfC cfg := by unfold absConf; rw [h3]
  refine ⟨cfg, trk, h1, hi, e, ?_, ?_, ?_⟩
  · rw [e]; exact ha
  · rw [e, h2]; rfl
  · intro hl; rw [h7 hl]; rfl

open SpecR in
/-- SpecR side: applying exactly one more entry that is annotated with `c` makes `c` the active
configuration; applying an entry without annotation keeps it -/
theorem active_applyTo_succ (c0 : Conf) (s : State) (n : Nat) (e : Ent)
    (hat : (s.nodes n).vol.log.at? ((s.nodes n).applied + 1) = some e) :
    ((SpecR.apply s (.applyTo n ((s.nodes n).applied + 1))).nodes n).active c0 =
      e.upd ((s.nodes n).active c0) := by
  have hb := Log.at?_le hat
  have hlt : (s.nodes n).applied < (s.nodes n).vol.log.length := by omega
  have he : (s.nodes n).vol.log[(s.nodes n).applied] = e := by
    have := Log.at?_succ_of_lt hlt
    rw [hat] at this
    exact (Option.some.inj this).symm
  simp only [SpecR.apply, setNode, if_pos, Node.active]
  rw [cfgAt_succ c0 _ hlt, he]

/-- **item 3, combined**: if the model's configuration is the active configuration of the abstract node, and
the entry at `applied + 1` of the abstract log is annotated with the configuration the Changer computes for
`cc`, then after `applyConfChange cc` (model) and `applyTo n (applied + 1)` (SpecR) they agree again, and the
annotation was an allowed successor of the active configuration. -/
theorem applyConfChange_refines_applyTo (c0 : SpecR.Conf) (s : SpecR.State) (n : Nat)
    (cc : ConfChangeV2) (r r' : Raft) (cs : ConfState) (e : SpecR.Ent)
    (hs : ConfInvStrong r.trk.cfg r.trk.progress)
    (hact : absConf r.trk = (s.nodes n).active c0)
    (hat : (s.nodes n).vol.log.at? ((s.nodes n).applied + 1) = some e)
    (hann : ∀ cfg trk, applyV2 (changerOf r) cc = .ok (cfg, trk) → e.cfg = some (absConfC cfg))
    (h : (applyConfChange cc).run r = .ok (cs, r')) :
    absConf r'.trk = ((SpecR.apply s (.applyTo n ((s.nodes n).applied + 1))).nodes n).active c0 ∧
    ((s.nodes n).active c0).allowed
      (((SpecR.apply s (.applyTo n ((s.nodes n).applied + 1))).nodes n).active c0) = true := by
  obtain ⟨cfg, trk, h1, _, h3, h4, _⟩ := applyConfChange_absConf cc r r' cs hs h
  have hc := hann cfg trk h1
  have hact' := active_applyTo_succ c0 s n e hat
  have hu : e.upd ((s.nodes n).active c0) = absConfC cfg := by simp [SpecR.Ent.upd, hc]
  rw [hact', hu, ← hact, ← h3]
  exact ⟨rfl, h4⟩

end RaftVerif.RefineR
