import RaftVerif.Proofs.NoPanicRaw
/-!
# Proofs/NoPanicRestart — rebuilding a node from a storage never throws (C14 end to end, `EnvStep.crash`)

`RawNode.new c st draws` only wraps `newRaft`.  The throw sites of `newRaft` (`C14.panic_newRaft_iff`,
`C14.panic_newRaft_tail_iff`) and what excludes each:

* `validate`                                   — input precondition `c.validate = .ok _`;
* `lastEntryID` of the fresh log               — storage well-formed (`C08.newLog_wf`, `no_panic_log_layer`);
* `restoreConf` of the stored ConfState        — the storage carries the bootstrap ConfState `{ voters }` of a strictly
                                                 ascending voter list without the id 0 (`Sim.restore_init`);
* ConfState round trip                         — the restored configuration is exactly `{ voters }`;
* `loadState: state.commit out of range`       — stored commit ≤ last stored index (Spec `commit_within_log` for the
                                                 durable version, through `DurInv`); nothing compacted, so the fresh
                                                 log's `committed` is 0;
* `appliedTo`                                  — `c.applied = 0`: skipped;
* the election-timeout draw of `becomeFollower`— `draws ≠ []` (harness).
-/
set_option linter.unusedSimpArgs false
set_option linter.unusedVariables false
namespace RaftVerif.NoPanicP
open Raft C14 Sim Refine

/-- **`newRaft` never throws** on a well-formed, uncompacted storage that carries the bootstrap membership and whose
stored commit index is within the stored log, for a valid configuration and at least one draw -/
theorem newRaft_ok {voters : List Id} {c : Config} {draws : List Nat} {st : MemoryStorage}
    (hst : st.WF) (hsn : st.snapshot.conf = { voters := voters }) (hoff : st.offset = 0)
    (hs : voters.Pairwise (· < ·)) (h0 : 0 ∉ voters) (happ : c.applied = 0)
    (hval : ∃ c', c.validate = .ok c') (hc : (st.hardState.getD {}).commit ≤ st.lastIndex)
    (hd : draws ≠ []) : ∃ r, newRaft c st draws = .ok r := by
  cases hres : newRaft c st draws with
  | ok r => exact ⟨r, rfl⟩
  | error e =>
    exfalso
    obtain ⟨c0, hv0⟩ := hval
    rcases (panic_newRaft_iff c st draws e).mp hres with hv | ⟨c', hv, h⟩
    · rw [hv0] at hv; cases hv
    obtain ⟨hc', hid⟩ := validate_ok hv
    subst hc'
    have hwf : (RaftLog.new st (cfgFill c).maxCommittedSizePerReady).WF :=
      (C08.newLog_wf hst _).2 (cfgFill_pos c)
    rcases h with hle | ⟨id, hle, h⟩
    · obtain ⟨id, hid'⟩ := (no_panic_log_layer hwf).1
      rw [hid'] at hle; cases hle
    obtain ⟨trk, hres', hk, hl⟩ :=
      restore_init voters hs h0 (cfgFill c).maxInflightMsgs (cfgFill c).maxInflightBytes id.index
    rw [hsn] at h
    have hres'' : restoreConf (restoreStart (cfgFill c).maxInflightMsgs (cfgFill c).maxInflightBytes id.index)
        { voters := voters } = .ok ({ voters := voters }, trk) := hres'
    unfold restoreStart at hres''
    rcases h with ⟨e', he', _⟩ | ⟨cfg, trk', hr, h⟩
    · rw [hres''] at he'; cases he'
    rw [hres''] at hr
    injection hr with hr
    injection hr with hr1 hr2
    subst hr1; subst hr2
    have heq : ConfState.equivalent { voters := voters }
        (swCfg (newRaftInit (cfgFill c) st draws) { voters := voters } trk).trk.confState = true :=
      confState_equivalent_refl _
    rcases h with ⟨hne, _⟩ | ⟨_, htail⟩
    · rw [heq] at hne; cases hne
    have happ' : (cfgFill c).applied = 0 := (cfgFill_fields c).1.trans happ
    rcases (panic_newRaft_tail_iff _ _ _ e).mp htail with ⟨_, hh, hhs, hne, hrange⟩ | ⟨r2, _, h⟩
    · have hc0 : (swCfg (newRaftInit (cfgFill c) st draws) { voters := voters } trk).log.committed = 0 := by
        show st.firstIndex - 1 = 0
        unfold MemoryStorage.firstIndex; omega
      have hli : (swCfg (newRaftInit (cfgFill c) st draws) { voters := voters } trk).log.lastIndex =
          st.lastIndex := newLog_lastIndex st _
      rw [hc0, hli] at hrange
      rw [hhs] at hc
      have hc2 : hh.commit ≤ st.lastIndex := hc
      omega
    · rcases h with ⟨_, hne, _⟩ | ⟨_, hdr, _⟩
      · exact hne happ'
      · exact hd hdr

/-- `RawNode.new` only wraps `newRaft` -/
theorem rawNew_ok_of {c : Config} {st : MemoryStorage} {draws : List Nat} (h : ∃ r, newRaft c st draws = .ok r) :
    ∃ rn, RawNode.new c st draws = .ok rn := by
  obtain ⟨r, hr⟩ := h
  unfold RawNode.new
  rw [hr]
  exact ⟨_, rfl⟩

/-- **restarting a node of the simulated cluster from its own storage never throws** (`EnvStep.crash`).
`hdurOK` is Spec's `commit_within_log` for the durable version of the node. -/
theorem restart_ok {val : Val} {voters : List Id} {n : Nat} {rn : RawNode} {nd : Spec.Node} {msgs : List Spec.Msg}
    (hnode : NodeInv val voters n rn nd msgs) (hset : Settled rn.raft) (hdur : DurInv val voters rn nd)
    (hsorted : voters.Pairwise (· < ·)) (hv0 : 0 ∉ voters) (hdurOK : nd.dur.commit ≤ nd.dur.log.length)
    (cfg : Config) (hid : cfg.id = n) (happ : cfg.applied = 0) (hval : ∃ c', cfg.validate = .ok c')
    (draws : List Nat) (hd : draws ≠ []) : ∃ rn', RawNode.new cfg rn.raft.log.storage draws = .ok rn' := by
  obtain ⟨hoff, hdt⟩ := storage_of_uncompacted hnode.inv.unc hset.1
  have hstw := hnode.inv.wf.storage
  have hsn : rn.raft.log.storage.snapshot.conf = { voters := voters } := by rw [hdur.snap]; rfl
  refine rawNew_ok_of (newRaft_ok hstw hsn hoff hsorted hv0 happ hval ?_ hd)
  rw [← hdur.commit, MemoryStorage.lastIndex_abs hstw]
  have hlen : nd.dur.log.length = rn.raft.log.storage.abs.ents.length := by rw [hdur.log, List.length_map]
  have hb : rn.raft.log.storage.abs.base = 0 := hoff
  unfold ALog.last
  omega

/-- **the initial construction of a node on the bootstrap storage never throws** -/
theorem init_ok {voters : List Id} (hsorted : voters.Pairwise (· < ·)) (hv0 : 0 ∉ voters)
    (cfg : Config) (hval : ∃ c', cfg.validate = .ok c') (happ : cfg.applied = 0)
    (draws : List Nat) (hd : draws ≠ []) : ∃ rn, RawNode.new cfg (initStorage voters) draws = .ok rn :=
  rawNew_ok_of (newRaft_ok (initStorage_wf voters) rfl rfl hsorted hv0 happ hval (Nat.zero_le _) hd)

end RaftVerif.NoPanicP
