import RaftVerif.Proofs.SimTermAux
import RaftVerif.Proofs.SimLog
/-!
# Proofs/SimTermLog — `becomeFollower` leaves the log alone, hence keeps `Settled`
-/
namespace RaftVerif.Sim

/-- `becomeFollower` does not touch the log -/
theorem becomeFollower_log {t l : Nat} {r r1 : Raft}
    (h : (Raft.becomeFollower t l).run r = .ok ((), r1)) : r1.log = r.log := by
  obtain ⟨d, rest, _, rfl⟩ := becomeFollower_run_exact h
  rfl

theorem settled_becomeFollower {t l : Nat} {r r1 : Raft} (hs : Settled r)
    (h : (Raft.becomeFollower t l).run r = .ok ((), r1)) : Settled r1 :=
  hs.congr (by rw [becomeFollower_log h])

end RaftVerif.Sim
