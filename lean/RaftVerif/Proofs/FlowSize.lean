import RaftVerif.Model.Types
/-!
# Proofs/FlowSize — helper lemmas about `entsSize`, `payloadsSize`, `limitSizeAux`, `limitSize`
(util.go).  Core Lean only.
-/
namespace RaftVerif

@[simp] theorem entsSize_nil_flow : entsSize [] = 0 := rfl
@[simp] theorem entsSize_cons_flow (e : Entry) (es : List Entry) :
    entsSize (e :: es) = entrySize e + entsSize es := by
  simp [entsSize]

theorem entsSize_append' (a b : List Entry) : entsSize (a ++ b) = entsSize a + entsSize b := by
  simp [entsSize, List.sum_append]

@[simp] theorem payloadsSize_nil : payloadsSize [] = 0 := rfl
@[simp] theorem payloadsSize_cons (e : Entry) (es : List Entry) :
    payloadsSize (e :: es) = e.dataLen + payloadsSize es := by
  simp [payloadsSize]

theorem payloadsSize_append' (a b : List Entry) :
    payloadsSize (a ++ b) = payloadsSize a + payloadsSize b := by
  simp [payloadsSize, List.sum_append]

/-- every entry of a log takes at least 4 bytes (two tags, two varints) -/
theorem varintLen_pos_flow (n : Nat) : 0 < varintLen n := by
  unfold varintLen; split <;> omega

theorem varintLen_small_flow {n : Nat} (h : n < 128) : varintLen n = 1 := by
  unfold varintLen; simp [h]

theorem entrySize_pos_flow (e : Entry) : 0 < entrySize e := by
  unfold entrySize
  have := varintLen_pos_flow e.term
  omega

/-! ### `limitSizeAux` -/

theorem limitSizeAux_prefix_flow (maxSize : Nat) (size : Nat) (ents : List Entry) :
    limitSizeAux maxSize size ents <+: ents := by
  induction ents generalizing size with
  | nil => simp [limitSizeAux]
  | cons e rest ih =>
    unfold limitSizeAux
    simp only
    split
    · exact List.nil_prefix
    · exact List.prefix_cons_inj e |>.mpr (ih _)

/-- whatever the accumulator keeps stays within the budget -/
theorem limitSizeAux_size_flow (maxSize : Nat) (size : Nat) (ents : List Entry) :
    limitSizeAux maxSize size ents = [] ∨ size + entsSize (limitSizeAux maxSize size ents) ≤ maxSize := by
  induction ents generalizing size with
  | nil => simp [limitSizeAux]
  | cons e rest ih =>
    unfold limitSizeAux
    simp only
    split
    · exact Or.inl rfl
    · rename_i h
      right
      rcases ih (size + entrySize e) with h' | h'
      · rw [h']; simp; omega
      · rw [entsSize_cons_flow]; omega

/-- the accumulator stops only when the next entry would overflow the budget -/
theorem limitSizeAux_maximal_flow (maxSize : Nat) (size : Nat) (ents : List Entry) (e : Entry)
    (rest : List Entry) (h : ents = limitSizeAux maxSize size ents ++ e :: rest) :
    maxSize < size + entsSize (limitSizeAux maxSize size ents) + entrySize e := by
  induction ents generalizing size with
  | nil => simp [limitSizeAux] at h
  | cons a t ih =>
    unfold limitSizeAux at h ⊢
    simp only at h ⊢
    split
    · rename_i hgt
      simp only [hgt, ↓reduceIte, List.nil_append, List.cons.injEq] at h
      rw [← h.1]; simp; omega
    · rename_i hle
      simp only [hle, ↓reduceIte, List.cons_append, List.cons.injEq, true_and] at h
      have := ih (size + entrySize a) h
      rw [entsSize_cons_flow]; omega

/-! ### `limitSize` -/

/-- "within the budget, or a single entry" -/
def SizeOK (maxSize : Nat) (ents : List Entry) : Prop := entsSize ents ≤ maxSize ∨ ents.length ≤ 1

theorem limitSize_size' (ents : List Entry) (maxSize : Nat) :
    entsSize (limitSize ents maxSize) ≤ maxSize ∨ (limitSize ents maxSize).length = 1 := by
  cases ents with
  | nil => simp [limitSize]
  | cons e rest =>
    simp only [limitSize]
    rcases limitSizeAux_size_flow maxSize (entrySize e) rest with h | h
    · right; rw [h]; rfl
    · left; rw [entsSize_cons_flow]; exact h

theorem limitSize_sizeOK (ents : List Entry) (maxSize : Nat) : SizeOK maxSize (limitSize ents maxSize) := by
  rcases limitSize_size' ents maxSize with h | h
  · exact Or.inl h
  · exact Or.inr (by omega)

end RaftVerif
