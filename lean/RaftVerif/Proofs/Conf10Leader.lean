import RaftVerif.Proofs.StepSpecs
import RaftVerif.Proofs.LogMutate
import RaftVerif.Proofs.Conf10Step
/-!
# Proofs/Conf10Leader — `becomeLeader` sets `pendingConfIndex` to the last index of the inherited log
(raft.go:953-958), so every inherited (possibly unapplied) configuration change is at or below it.
Core Lean only.
-/
namespace RaftVerif.Conf10
open Raft

/-- the empty entry a new leader appends -/
def leaderEntry (s : Raft) : Entry := { term := s.term, index := s.log.lastIndex + 1 }

/-- `becomeLeader()`: `pendingConfIndex` becomes the last index of the log the node had when it won
the election; exactly one entry — empty, of type normal, with the leader's term — is appended after it -/
theorem becomeLeader_pci_spec (s : Raft) :
    Spec becomeLeader s (fun _ s' =>
      s'.pendingConfIndex = s.log.lastIndex ∧ s'.term = s.term ∧ s'.state = .leader ∧
      ∃ p, s.log.append [leaderEntry s] = .ok p ∧ s'.log = p.1) := by
  unfold becomeLeader
  simp only [wp]
  refine ⟨fun _ => trivial, fun _ => ?_⟩
  refine (reset_spec_st s.term s).mono ?_
  intro _ mid ⟨h1, _, _, _, h3, _⟩
  intro pr _
  refine (appendEntry_spec_st _ _).mono ?_
  rintro ok s' (⟨rfl, rfl⟩ | ⟨rfl, p, hp, rfl⟩)
  · simp only [wp]
    exact ⟨fun _ => trivial, fun h => absurd h (by simp)⟩
  · simp only [wp]
    refine ⟨fun h => absurd h (by simp), fun _ => ?_⟩
    simp only [cloned, List.zipIdx_cons, List.zipIdx_nil, List.map_cons, List.map_nil, Nat.add_zero, h3, h1] at hp
    exact ⟨by simp only [h3], h1, trivial, p, hp, rfl⟩


/-- with a well-formed log: the log afterwards is the old one plus the leader's empty entry; every entry
of the old log — in particular every configuration change the new leader inherited — has an index
`≤ pendingConfIndex`, and every configuration change of the new log does -/
theorem becomeLeader_pci_log (s : Raft) (hwf : s.log.WF) :
    Spec becomeLeader s (fun _ s' =>
      s'.pendingConfIndex = s.log.lastIndex ∧ s'.term = s.term ∧ s'.state = .leader ∧
      s'.log.WF ∧ s'.log.applied = s.log.applied ∧ s'.log.committed = s.log.committed ∧
      s'.log.abs.base = s.log.abs.base ∧ s'.log.abs.ents = s.log.abs.ents ++ [leaderEntry s] ∧
      (∀ i e, s.log.abs.entry? i = some e → i ≤ s'.pendingConfIndex ∧ s'.log.abs.entry? i = some e) ∧
      (∀ i e, s'.log.abs.entry? i = some e → e.getType ≠ .normal →
        i ≤ s'.pendingConfIndex ∧ s.log.abs.entry? i = some e)) := by
  refine (becomeLeader_pci_spec s).mono ?_
  rintro _ s' ⟨hpci, hterm, hstate, p, hp, hlog⟩
  have hlast := RaftLog.lastIndex_abs hwf
  have hidx : (leaderEntry s).index = s.log.lastIndex + 1 := rfl
  have hc : Contig (leaderEntry s).index [leaderEntry s] := by
    intro k hk
    have : k = 0 := by simpa using hk
    subst this; rfl
  have hbase : s.log.abs.base < (leaderEntry s).index := by
    have : s.log.abs.base ≤ s.log.abs.last := Nat.le_add_right _ _
    omega
  have hnogap : (leaderEntry s).index ≤ s.log.abs.last + 1 := by omega
  have hcl := hwf.committedLeLast
  rcases RaftLog.append_spec hwf (leaderEntry s) [] hc (by omega) with ⟨hle, _⟩ | ⟨_, hgap, _⟩ |
      ⟨_, _, l', hok, hwf', habs, _, _, _, hcom, _, happl, _⟩
  · omega
  · omega
  rw [hok] at hp
  simp only [Except.ok.injEq] at hp
  subst hp
  simp only at hlog
  subst hlog
  have hents : s'.log.abs.ents = s.log.abs.ents ++ [leaderEntry s] := by
    rw [habs, ALog.overwrite_ents]
    congr 1
    apply List.take_of_length_le
    unfold ALog.last at hlast
    omega
  refine ⟨hpci, hterm, hstate, hwf', happl, hcom, by rw [habs]; exact (ALog.overwrite_base _ _).1, hents, ?_, ?_⟩
  · intro i e hie
    have hi := (ALog.entry?_eq_some hwf.abs_wf hie).2.2
    refine ⟨by omega, ?_⟩
    rw [habs, ALog.overwrite_entry?_lt _ _ [] hnogap (by omega)]
    exact hie
  · intro i e hie hcc
    by_cases hi : i < (leaderEntry s).index
    · rw [habs, ALog.overwrite_entry?_lt _ _ [] hnogap hi] at hie
      exact ⟨by omega, hie⟩
    · exfalso
      rw [habs] at hie
      have hmem := ALog.overwrite_hides_old _ (leaderEntry s) [] hbase hnogap (by omega) hie
      have : e = leaderEntry s := by simpa using hmem
      subst this
      exact hcc rfl


/-- a node that wins an election for a term of which its log has no entry starts with (I) -/
theorem becomeLeader_establishes_inv (s : Raft) (hwf : s.log.WF)
    (hnew : ∀ i e, s.log.abs.entry? i = some e → e.term ≠ s.term) :
    Spec becomeLeader s (fun _ s' => OwnTermCCInv s') := by
  refine (becomeLeader_pci_log s hwf).mono ?_
  rintro _ s' ⟨_, hterm, _, _, _, _, _, _, _, hcc⟩
  constructor
  · intro i e hie hc ht _
    exact absurd (hterm ▸ ht) (hnew i e (hcc i e hie hc).2)
  · intro i j ei ej hi _ hci _ hti _ _ _
    exact absurd (hterm ▸ hti) (hnew i ei (hcc i ei hi hci).2)

end RaftVerif.Conf10
