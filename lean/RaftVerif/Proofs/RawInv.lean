import RaftVerif.Proofs.StepRouted
import RaftVerif.Proofs.StepSpecs
/-!
# Proofs/RawInv — the invariant "pending promises are within the log / match the recorded vote"
and the reflexive-transitive relation `Prom` that every function of `Model/Raft.lean` keeps.

* `PendApp x`  — `x` is a non-reject MsgAppResp;  `PendVote x` — a non-reject MsgVoteResp.
* `PromisesWithinLog r` — the state invariant (C05): every pending promise in `msgsAfterAppend` carries a
  term `≤ r.term`; if it carries the *current* term then its index is `≤ lastIndex` (MsgAppResp) resp. its
  addressee is the recorded vote (MsgVoteResp, or the addressee is `None = 0`); `msgs` holds no promise;
  `committed ≤ lastIndex`.
* `Prom s s'` — `Good s s'`, `committed ≤ lastIndex` is kept, the pending same-term promises of `s` that were
  within the log still are, and the promises added are fine in `s'`.
-/
namespace RaftVerif.Raw
open RaftVerif

/-- a non-reject MsgAppResp: "I hold the leader's log up to `index`" -/
def PendApp (x : Message) : Prop := x.typ = .appResp ∧ x.reject = false
/-- a non-reject MsgVoteResp: "I voted for `to` in `term`" -/
def PendVote (x : Message) : Prop := x.typ = .voteResp ∧ x.reject = false

instance (x : Message) : Decidable (PendApp x) := by unfold PendApp; infer_instance
instance (x : Message) : Decidable (PendVote x) := by unfold PendVote; infer_instance

/-- `committed ≤ lastIndex` -/
def CL (r : Raft) : Prop := r.log.committed ≤ r.log.lastIndex

/-- an acknowledgement is fine in state `r` -/
def AppFine (r : Raft) (x : Message) : Prop :=
  x.term ≤ r.term ∧ (x.term = r.term → x.index ≤ r.log.lastIndex)
/-- a granted vote is fine in state `r` -/
def VoteFine (r : Raft) (x : Message) : Prop :=
  x.term ≤ r.term ∧ (x.term = r.term → x.to = r.vote ∨ x.to = 0)

/-- **the C05 state invariant** -/
structure PromisesWithinLog (r : Raft) : Prop where
  app : ∀ x ∈ r.msgsAfterAppend, PendApp x → AppFine r x
  vote : ∀ x ∈ r.msgsAfterAppend, PendVote x → VoteFine r x
  msgs : ∀ x ∈ r.msgs, isPromise x.typ = false
  cl : CL r

/-- the messages `s'` has queued after those of `s` -/
def added (s s' : Raft) : List Message := s'.msgsAfterAppend.drop s.msgsAfterAppend.length

structure Prom (s s' : Raft) : Prop where
  good : Good s s'
  cl : CL s → CL s'
  keep : s'.term = s.term → ∀ x ∈ s.msgsAfterAppend, PendApp x → x.term = s.term →
    x.index ≤ s.log.lastIndex → x.index ≤ s'.log.lastIndex
  newApp : CL s → ∀ x ∈ added s s', PendApp x → AppFine s' x
  newVote : ∀ x ∈ added s s', PendVote x → VoteFine s' x

theorem added_self (s : Raft) : added s s = [] := by simp [added]

theorem added_of_ext {s s' : Raft} {P : Message → Prop} (h : ListExt P s.msgsAfterAppend s'.msgsAfterAppend) :
    s'.msgsAfterAppend = s.msgsAfterAppend ++ added s s' := by
  obtain ⟨suf, h1, _⟩ := h
  simp [added, h1]

theorem added_trans {a b c : Raft} (h1 : Good a b) (h2 : Good b c) : added a c = added a b ++ added b c := by
  have e1 := added_of_ext h1.maa
  have e2 := added_of_ext h2.maa
  have e3 := added_of_ext (h1.trans h2).maa
  rw [e2, e1, List.append_assoc] at e3
  exact (List.append_cancel_left e3).symm

theorem Prom.refl (s : Raft) : Prom s s :=
  ⟨Good.refl s, id, fun _ _ _ _ _ h => h, by simp [added_self], by simp [added_self]⟩

theorem Prom.trans {a b c : Raft} (h1 : Prom a b) (h2 : Prom b c) : Prom a c := by
  have t1 := h1.good.term
  have t2 := h2.good.term
  refine ⟨h1.good.trans h2.good, fun h => h2.cl (h1.cl h), ?_, ?_, ?_⟩
  · intro ht x hx hp hxt hxi
    have e1 : b.term = a.term := by omega
    have e2 : c.term = b.term := by omega
    have hxb : x ∈ b.msgsAfterAppend := by
      rw [added_of_ext h1.good.maa]; exact List.mem_append_left _ hx
    exact h2.keep e2 x hxb hp (by omega) (h1.keep e1 x hx hp hxt hxi)
  · intro hcl x hx hp
    rw [added_trans h1.good h2.good] at hx
    rcases List.mem_append.1 hx with hx | hx
    · obtain ⟨f1, f2⟩ := h1.newApp hcl x hx hp
      refine ⟨by omega, fun he => ?_⟩
      have e2 : c.term = b.term := by omega
      have hxb : x ∈ b.msgsAfterAppend := by
        rw [added_of_ext h1.good.maa]; exact List.mem_append_right _ hx
      exact h2.keep e2 x hxb hp (by omega) (f2 (by omega))
    · exact h2.newApp (h1.cl hcl) x hx hp
  · intro x hx hp
    rw [added_trans h1.good h2.good] at hx
    rcases List.mem_append.1 hx with hx | hx
    · obtain ⟨f1, f2⟩ := h1.newVote x hx hp
      refine ⟨by omega, fun he => ?_⟩
      have e2 : c.term = b.term := by omega
      rcases f2 (by omega) with h | h
      · rcases h2.good.vote e2 with v | v
        · exact Or.inl (h.trans v.symm)
        · exact Or.inr (h.trans v)
      · exact Or.inr h
    · exact h2.newVote x hx hp

instance : RelOK Prom := ⟨Prom.refl, Prom.trans⟩

/-- **`Prom` carries the invariant** -/
theorem Prom.inv {s s' : Raft} (h : Prom s s') (hi : PromisesWithinLog s) : PromisesWithinLog s' := by
  have t := h.good.term
  have hm := added_of_ext h.good.maa
  refine ⟨?_, ?_, ?_, h.cl hi.cl⟩
  · intro x hx hp
    rw [hm] at hx
    rcases List.mem_append.1 hx with hx | hx
    · obtain ⟨f1, f2⟩ := hi.app x hx hp
      refine ⟨by omega, fun he => ?_⟩
      exact h.keep (by omega) x hx hp (by omega) (f2 (by omega))
    · exact h.newApp hi.cl x hx hp
  · intro x hx hp
    rw [hm] at hx
    rcases List.mem_append.1 hx with hx | hx
    · obtain ⟨f1, f2⟩ := hi.vote x hx hp
      refine ⟨by omega, fun he => ?_⟩
      have e : s'.term = s.term := by omega
      rcases f2 (by omega) with h' | h'
      · rcases h.good.vote e with v | v
        · exact Or.inl (h'.trans v.symm)
        · exact Or.inr (h'.trans v)
      · exact Or.inr h'
    · exact h.newVote x hx hp
  · intro x hx
    obtain ⟨suf, h1, h2⟩ := h.good.msgs
    rw [h1] at hx
    rcases List.mem_append.1 hx with hx | hx
    · exact hi.msgs x hx
    · exact h2 x hx

end RaftVerif.Raw
