/-
# Proofs/ReconfQuorum — quorum intersection across allowed configuration transitions

For well-formed configurations (`Conf.wf`), quorums of equal or adjacent configurations
(`Conf.allowed`, in either direction) share a voter.  Core Lean only.
-/
import RaftVerif.Spec.Reconf

namespace RaftVerif.SpecR

/-! ## counting lemmas -/

/-- two strict majorities of one list share an element -/
theorem countP_majorities_meet (l : List Nat) (p q : Nat → Bool)
    (h : l.length < l.countP p + l.countP q) : ∃ v ∈ l, p v = true ∧ q v = true := by
  have key : ∀ (l : List Nat),
      l.countP p + l.countP q ≤ l.length + l.countP (fun v => p v && q v) := by
    intro l
    induction l with
    | nil => simp
    | cons a t ih =>
      simp only [List.countP_cons, List.length_cons]
      cases p a <;> cases q a <;> simp <;> omega
  have := key l
  have hpos : 0 < l.countP (fun v => p v && q v) := by omega
  obtain ⟨v, hv, hpq⟩ := List.countP_pos_iff.mp hpos
  exact ⟨v, hv, by simpa using hpq⟩

/-- split a count along a second predicate -/
theorem countP_split (l : List Nat) (p q : Nat → Bool) :
    l.countP p = (l.filter q).countP p + (l.filter fun x => !q x).countP p := by
  induction l with
  | nil => simp
  | cons a t ih =>
    cases hq : q a <;> cases hp : p a <;> simp [hq, hp, ih] <;> omega

theorem length_split (l : List Nat) (q : Nat → Bool) :
    l.length = (l.filter q).length + (l.filter fun x => !q x).length := by
  induction l with
  | nil => simp
  | cons a t ih =>
    cases hq : q a <;> simp [hq, ih] <;> omega

/-- the common parts of two duplicate-free lists are permutations of each other -/
theorem inter_perm {V V' : List Nat} (h : V.Nodup) (h' : V'.Nodup) :
    (V.filter fun x => V'.contains x).Perm (V'.filter fun x => V.contains x) := by
  refine (List.perm_ext_iff_of_nodup (h.sublist List.filter_sublist)
    (h'.sublist List.filter_sublist)).mpr ?_
  intro a
  simp only [List.mem_filter, List.contains_iff_mem]
  constructor <;> (intro ⟨h1, h2⟩; exact ⟨h2, h1⟩)

/-- strict majorities of two duplicate-free voter lists that differ in at most one voter meet -/
theorem majority_meet_diff {V V' A B : List Nat} (h : V.Nodup) (h' : V'.Nodup)
    (hd : diffAtMostOne V V' = true) (hA : majority V A = true) (hB : majority V' B = true) :
    ∃ v, v ∈ A ∧ v ∈ B := by
  unfold majority at hA hB
  unfold diffAtMostOne at hd
  have hA := of_decide_eq_true hA
  have hB := of_decide_eq_true hB
  have hd := of_decide_eq_true hd
  let a : Nat → Bool := fun id => A.contains id
  let b : Nat → Bool := fun id => B.contains id
  have e1 := countP_split V a (fun x => V'.contains x)
  have l1 := length_split V (fun x => V'.contains x)
  have e2 := countP_split V' b (fun x => V.contains x)
  have l2 := length_split V' (fun x => V.contains x)
  have hp := inter_perm h h'
  have c1 : (V.filter fun x => !V'.contains x).countP a ≤ (V.filter fun x => !V'.contains x).length :=
    List.countP_le_length
  have c2 : (V'.filter fun x => !V.contains x).countP b ≤ (V'.filter fun x => !V.contains x).length :=
    List.countP_le_length
  have hb := hp.countP_eq b
  have hl := hp.length_eq
  have hlt : (V.filter fun x => V'.contains x).length <
      (V.filter fun x => V'.contains x).countP a + (V.filter fun x => V'.contains x).countP b := by
    simp only [a, b] at *
    omega
  obtain ⟨v, _, hva, hvb⟩ := countP_majorities_meet _ a b hlt
  exact ⟨v, by simpa [a] using hva, by simpa [b] using hvb⟩

/-- two strict majorities of the same list meet -/
theorem majority_meet_self {V A B : List Nat}
    (hA : majority V A = true) (hB : majority V B = true) : ∃ v, v ∈ A ∧ v ∈ B := by
  unfold majority at hA hB
  have hA := of_decide_eq_true hA
  have hB := of_decide_eq_true hB
  obtain ⟨v, _, hva, hvb⟩ := countP_majorities_meet V (fun id => A.contains id)
    (fun id => B.contains id) (by omega)
  exact ⟨v, by simpa using hva, by simpa using hvb⟩

theorem majority_mono {V A B : List Nat} (hAB : ∀ v, v ∈ A → v ∈ B)
    (hA : majority V A = true) : majority V B = true := by
  unfold majority at hA ⊢
  have hA := of_decide_eq_true hA
  apply decide_eq_true
  have : V.countP (fun id => A.contains id) ≤ V.countP (fun id => B.contains id) := by
    apply List.countP_mono_left
    intro x _ hx
    simp only [List.contains_iff_mem] at hx ⊢
    exact hAB x hx
  omega

/-- the three cases of `Conf.allowed` -/
theorem Conf.allowed_cases {c c' : Conf} (ha : c.allowed c' = true) :
    c'.1 ≠ [] ∧ c'.1.Nodup ∧
    ((c.2 = [] ∧ c'.2 = [] ∧ diffAtMostOne c.1 c'.1 = true) ∨
     (c.2 = [] ∧ c'.2 = c.1) ∨
     (c.2 ≠ [] ∧ c'.1 = c.1 ∧ c'.2 = [])) := by
  unfold Conf.allowed at ha
  simp only [Bool.and_eq_true, Bool.or_eq_true, Bool.not_eq_true', List.isEmpty_eq_false_iff,
    List.isEmpty_iff, decide_eq_true_eq, beq_iff_eq] at ha
  refine ⟨ha.1.1, ha.1.2, ?_⟩
  rcases ha.2 with (⟨⟨h1, h2⟩, h3⟩ | ⟨h1, h2⟩) | ⟨⟨h1, h2⟩, h3⟩
  · exact .inl ⟨h1, h2, h3⟩
  · exact .inr (.inl ⟨h1, h2⟩)
  · exact .inr (.inr ⟨h1, h2, h3⟩)

theorem Conf.isQuorum_fst {c : Conf} {A : List Nat} (h : c.isQuorum A = true) :
    majority c.1 A = true := by
  unfold Conf.isQuorum at h
  simp only [Bool.and_eq_true] at h
  exact h.1

theorem Conf.isQuorum_snd {c : Conf} {A : List Nat} (h : c.isQuorum A = true) (hne : c.2 ≠ []) :
    majority c.2 A = true := by
  unfold Conf.isQuorum at h
  simp only [Bool.and_eq_true, Bool.or_eq_true, List.isEmpty_iff] at h
  exact h.2.resolve_left hne

/-! ## main results -/

theorem Conf.allowed_wf {c c' : Conf} (h : c.wf) (ha : c.allowed c' = true) : c'.wf := by
  obtain ⟨hne, hnd, hc⟩ := Conf.allowed_cases ha
  refine ⟨hne, hnd, ?_⟩
  rcases hc with ⟨_, h2, _⟩ | ⟨_, h2⟩ | ⟨_, _, h2⟩
  · rw [h2]; exact List.nodup_nil
  · rw [h2]; exact h.2.1
  · rw [h2]; exact List.nodup_nil

theorem Conf.quorums_meet_self {c : Conf} (_h : c.wf) {A B : List Nat}
    (hA : c.isQuorum A = true) (hB : c.isQuorum B = true) : ∃ v, v ∈ A ∧ v ∈ B :=
  majority_meet_self (Conf.isQuorum_fst hA) (Conf.isQuorum_fst hB)

theorem Conf.quorums_meet_allowed {c c' : Conf} (h : c.wf) (ha : c.allowed c' = true)
    {A B : List Nat} (hA : c.isQuorum A = true) (hB : c'.isQuorum B = true) :
    ∃ v, v ∈ A ∧ v ∈ B := by
  obtain ⟨_, hnd, hc⟩ := Conf.allowed_cases ha
  rcases hc with ⟨_, _, hd⟩ | ⟨_, h2⟩ | ⟨_, h1, _⟩
  · exact majority_meet_diff h.2.1 hnd hd (Conf.isQuorum_fst hA) (Conf.isQuorum_fst hB)
  · have hne : c'.2 ≠ [] := by rw [h2]; exact h.1
    have hB' := Conf.isQuorum_snd hB hne
    rw [h2] at hB'
    exact majority_meet_self (Conf.isQuorum_fst hA) hB'
  · have hB' := Conf.isQuorum_fst hB
    rw [h1] at hB'
    exact majority_meet_self (Conf.isQuorum_fst hA) hB'

/-- equal or adjacent (in either direction) configurations have intersecting quorums -/
theorem Conf.quorums_meet_near {c c' : Conf} (h : c.wf) (h' : c'.wf)
    (hn : c = c' ∨ c.allowed c' = true ∨ c'.allowed c = true) {A B : List Nat}
    (hA : c.isQuorum A = true) (hB : c'.isQuorum B = true) : ∃ v, v ∈ A ∧ v ∈ B := by
  rcases hn with he | ha | ha
  · subst he; exact Conf.quorums_meet_self h hA hB
  · exact Conf.quorums_meet_allowed h ha hA hB
  · obtain ⟨v, hvB, hvA⟩ := Conf.quorums_meet_allowed h' ha hB hA
    exact ⟨v, hvA, hvB⟩

theorem Conf.isQuorum_mono {c : Conf} {A B : List Nat} (hAB : ∀ v, v ∈ A → v ∈ B)
    (hA : c.isQuorum A = true) : c.isQuorum B = true := by
  unfold Conf.isQuorum at hA ⊢
  simp only [Bool.and_eq_true, Bool.or_eq_true] at hA ⊢
  exact ⟨majority_mono hAB hA.1, hA.2.imp id (majority_mono hAB)⟩

end RaftVerif.SpecR
