import RaftVerif.Proofs.SimCorStep
/-!
# Proofs/SimCorStored — the stored hard state is never ahead of the current one (C07), by induction over the
environment steps (the Spec relates the durable and the volatile *term* only)
-/
namespace RaftVerif.SimCorP
open Sim Refine Simulation

/-- hard state `b` is a legal successor of hard state `a` -/
structure HSLe (a b : HardState) : Prop where
  term : a.term ≤ b.term
  vote : b.term = a.term → b.vote = a.vote ∨ a.vote = 0
  commit : a.commit ≤ b.commit

theorem HSLe.refl (a : HardState) : HSLe a a := ⟨Nat.le_refl _, fun _ => Or.inl rfl, Nat.le_refl _⟩

theorem HSLe.trans {a b c : HardState} (h1 : HSLe a b) (h2 : HSLe b c) : HSLe a c := by
  refine ⟨Nat.le_trans h1.term h2.term, ?_, Nat.le_trans h1.commit h2.commit⟩
  intro h
  have t1 := h1.term
  have t2 := h2.term
  have e1 : b.term = a.term := by omega
  have e2 : c.term = b.term := by omega
  rcases h1.vote e1 with v1 | v1
  · rcases h2.vote e2 with v2 | v2
    · exact Or.inl (v2.trans v1)
    · exact Or.inr (v1 ▸ v2)
  · exact Or.inr v1

theorem HSMono.hsLe {r r' : Raft} (h : HSMono r r') : HSLe (RawNode.hardState r) (RawNode.hardState r') :=
  ⟨h.term, h.vote, h.commit⟩

/-- the stored hard state of the node is not ahead of its current hard state -/
def StoredBehind (rn : RawNode) : Prop := HSLe (storedHS rn) (RawNode.hardState rn.raft)

theorem StoredBehind.step {rn rn' : RawNode} (h : StoredBehind rn) (hs : NodeStep rn rn') : StoredBehind rn' := by
  unfold StoredBehind at h ⊢
  cases hs with
  | loc hm hsto =>
    have : storedHS rn' = storedHS rn := by unfold storedHS; rw [hsto]
    rw [this]
    exact h.trans hm.hsLe
  | sync hm hsto => rw [hsto]; exact hm.hsLe
  | crash h1 h2 => rw [h1, h2]; exact HSLe.refl _

/-- **the stored hard state is behind the current one** in every node of every reachable cluster -/
theorem storedBehind_reachable {voters : List Id} {c0 c : Cluster} (h : Setting voters c0 c)
    {n : Nat} {rn : RawNode} (hn : c.nodes n = some rn) : StoredBehind rn := by
  obtain ⟨hsorted, hnz, hne, hinit, hreach⟩ := h
  induction hreach generalizing n rn with
  | init =>
    obtain ⟨_, cfg, draws, _, _, _, happ, hnew⟩ := hinit.2 n rn hn
    obtain ⟨_, _, hsto, _, _⟩ := init_extra hsorted hnz happ hnew
    have e : storedHS rn = {} := by unfold storedHS; rw [hsto]; rfl
    unfold StoredBehind
    rw [e]
    exact ⟨Nat.zero_le _, fun _ => Or.inr rfl, Nat.zero_le _⟩
  | @step c1 c2 hreach1 hstep ih =>
    obtain ⟨s, _, hR⟩ := (Setting.mk hsorted hnz hne hinit hreach1).related (fun _ _ => 0)
    obtain ⟨k, rk, rk', hk, hk', hoth, hns⟩ := envstep_node hsorted hnz hne hR hstep
    by_cases hnk : n = k
    · subst hnk
      have : rk' = rn := by rw [hk'] at hn; exact Option.some.inj hn
      subst this
      exact (ih hk).step hns
    · rw [hoth n hnk] at hn
      exact ih hn

end RaftVerif.SimCorP
