import RaftVerif.Proofs.ConfChangeInv
/-!
# Proofs/ConfChangeSteps — preservation lemmas lifted to `applyStep` and to the fold of `Changer.apply`
-/
namespace RaftVerif
set_option linter.unusedSimpArgs false
set_option linter.unusedVariables false

/-! ### operation-level preservation -/

theorem mem_outgoing_ne_nil {cfg : TrackerConfig} {id : Id} (ho : id ∈ cfg.outgoing.getD []) :
    cfg.outgoing.getD [] ≠ [] := fun e => by rw [e] at ho; simp at ho

theorem remove_sem (c : Changer) {cfg : TrackerConfig} {trk : ProgressMap} (id : Id) (hi : SemInv cfg trk) :
    SemInv (c.remove cfg trk id).1 (c.remove cfg trk id).2 := by
  cases h : mapGet trk id with
  | none => rw [remove_none c h]; exact hi
  | some pr =>
    by_cases ho : id ∈ cfg.outgoing.getD []
    · rw [remove_some_out c h ho]; exact remove_some_out_sem h ho hi
    · rw [remove_some_not_out c h ho]; exact remove_some_not_out_sem h ho hi

theorem makeVoter_sem (c : Changer) {cfg : TrackerConfig} {trk : ProgressMap} (id : Id) (hi : SemInv cfg trk) :
    SemInv (c.makeVoter cfg trk id).1 (c.makeVoter cfg trk id).2 := by
  cases h : mapGet trk id with
  | none => rw [makeVoter_none c h]; exact makeVoter_none_sem c h hi
  | some pr => rw [makeVoter_some c h]; exact makeVoter_some_sem h hi

theorem makeLearner_sem (c : Changer) {cfg : TrackerConfig} {trk : ProgressMap} (id : Id) (hi : SemInv cfg trk) :
    SemInv (c.makeLearner cfg trk id).1 (c.makeLearner cfg trk id).2 := by
  cases h : mapGet trk id with
  | none => rw [makeLearner_none c h]; exact makeLearner_none_sem c h hi
  | some pr =>
    cases hl : pr.isLearner with
    | true => rw [makeLearner_learner c h hl]; exact hi
    | false =>
      by_cases ho : id ∈ cfg.outgoing.getD []
      · rw [makeLearner_out c h hl ho]; exact makeLearner_out_sem h hl ho hi
      · rw [makeLearner_not_out c h hl ho]; exact makeLearner_not_out_sem h hl ho hi

/-- a generic way to prove a property of the result of each primitive operation: check the nine cases -/
theorem op_cases (c : Changer) (cfg : TrackerConfig) (trk : ProgressMap) (id : Id)
    (Q : TrackerConfig × ProgressMap → Prop)
    (hid : Q (cfg, trk))
    (hrem1 : ∀ pr, mapGet trk id = some pr → id ∈ cfg.outgoing.getD [] → Q (removedCfg cfg id, trk))
    (hrem2 : ∀ pr, mapGet trk id = some pr → id ∉ cfg.outgoing.getD [] → Q (removedCfg cfg id, mapErase id trk))
    (hmv1 : mapGet trk id = none →
      Q ({ cfg with voters := setInsert id cfg.voters }, mapInsert id (freshProgress c false) trk))
    (hmv2 : ∀ pr, mapGet trk id = some pr →
      Q ({ cfg with learners := nilDelete cfg.learners id, learnersNext := nilDelete cfg.learnersNext id,
                    voters := setInsert id cfg.voters }, mapInsert id { pr with isLearner := false } trk))
    (hml1 : mapGet trk id = none →
      Q ({ cfg with learners := nilAdd cfg.learners id }, mapInsert id (freshProgress c true) trk))
    (hml2 : ∀ pr, mapGet trk id = some pr → pr.isLearner = false → id ∈ cfg.outgoing.getD [] →
      Q ({ removedCfg cfg id with learnersNext := nilAdd (nilDelete cfg.learnersNext id) id }, mapInsert id pr trk))
    (hml3 : ∀ pr, mapGet trk id = some pr → pr.isLearner = false → id ∉ cfg.outgoing.getD [] →
      Q ({ removedCfg cfg id with learners := nilAdd (nilDelete cfg.learners id) id },
         mapInsert id { pr with isLearner := true } (mapErase id trk))) :
    Q (c.remove cfg trk id) ∧ Q (c.makeVoter cfg trk id) ∧ Q (c.makeLearner cfg trk id) := by
  refine ⟨?_, ?_, ?_⟩
  · cases h : mapGet trk id with
    | none => rw [remove_none c h]; exact hid
    | some pr =>
      by_cases ho : id ∈ cfg.outgoing.getD []
      · rw [remove_some_out c h ho]; exact hrem1 pr h ho
      · rw [remove_some_not_out c h ho]; exact hrem2 pr h ho
  · cases h : mapGet trk id with
    | none => rw [makeVoter_none c h]; exact hmv1 h
    | some pr => rw [makeVoter_some c h]; exact hmv2 pr h
  · cases h : mapGet trk id with
    | none => rw [makeLearner_none c h]; exact hml1 h
    | some pr =>
      cases hl : pr.isLearner with
      | true => rw [makeLearner_learner c h hl]; exact hid
      | false =>
        by_cases ho : id ∈ cfg.outgoing.getD []
        · rw [makeLearner_out c h hl ho]; exact hml2 pr h hl ho
        · rw [makeLearner_not_out c h hl ho]; exact hml3 pr h hl ho


/-- lift a statement about the three primitive operations to `applyStep` -/
theorem applyStep_cases (c : Changer) (s : CS) (cc : ConfChangeSingle) (Q : CS → Prop)
    (hid : Q s)
    (hops : cc.nodeId ≠ 0 → Q (c.remove s.1 s.2 cc.nodeId) ∧ Q (c.makeVoter s.1 s.2 cc.nodeId) ∧
      Q (c.makeLearner s.1 s.2 cc.nodeId)) :
    Q (applyStep c s cc) := by
  unfold applyStep
  by_cases h0 : cc.nodeId = 0
  · rw [if_pos h0]; exact hid
  · rw [if_neg h0]
    obtain ⟨h1, h2, h3⟩ := hops h0
    cases cc.typ <;> assumption

theorem applyStep_sem (c : Changer) (s : CS) (cc : ConfChangeSingle) (h : SemInv s.1 s.2) :
    SemInv (applyStep c s cc).1 (applyStep c s cc).2 :=
  applyStep_cases c s cc (fun r => SemInv r.1 r.2) h
    (fun _ => ⟨remove_sem c _ h, makeVoter_sem c _ h, makeLearner_sem c _ h⟩)

theorem applyStep_wf (c : Changer) (s : CS) (cc : ConfChangeSingle) (h : ConfWF s.1 ∧ Sorted (keys s.2)) :
    ConfWF (applyStep c s cc).1 ∧ Sorted (keys (applyStep c s cc).2) :=
  applyStep_cases c s cc (fun r => ConfWF r.1 ∧ Sorted (keys r.2)) h
    (fun _ => ⟨remove_wf c _ _ _ h.1 h.2, makeVoter_wf c _ _ _ h.1 h.2, makeLearner_wf c _ _ _ h.1 h.2⟩)

theorem foldl_inv {α σ : Type} (f : σ → α → σ) (P : σ → Prop) (hstep : ∀ s a, P s → P (f s a))
    (l : List α) (s : σ) (h : P s) : P (l.foldl f s) := by
  induction l generalizing s with
  | nil => exact h
  | cons a t ih => exact ih _ (hstep s a h)

theorem fold_sem (c : Changer) (ccs : List ConfChangeSingle) (s : CS) (h : SemInv s.1 s.2) :
    SemInv (ccs.foldl (applyStep c) s).1 (ccs.foldl (applyStep c) s).2 :=
  foldl_inv (applyStep c) (fun r => SemInv r.1 r.2) (fun s a => applyStep_sem c s a) ccs s h

theorem fold_wf (c : Changer) (ccs : List ConfChangeSingle) (s : CS) (h : ConfWF s.1 ∧ Sorted (keys s.2)) :
    ConfWF (ccs.foldl (applyStep c) s).1 ∧ Sorted (keys (ccs.foldl (applyStep c) s).2) :=
  foldl_inv (applyStep c) (fun r => ConfWF r.1 ∧ Sorted (keys r.2)) (fun s a => applyStep_wf c s a) ccs s h

/-- no operation touches the outgoing voters or `autoLeave` -/
theorem op_outgoing (c : Changer) (cfg : TrackerConfig) (trk : ProgressMap) (id : Id) :
    let Q : CS → Prop := fun r => r.1.outgoing = cfg.outgoing ∧ r.1.autoLeave = cfg.autoLeave
    Q (c.remove cfg trk id) ∧ Q (c.makeVoter cfg trk id) ∧ Q (c.makeLearner cfg trk id) := by
  intro Q
  apply op_cases c cfg trk id Q <;> intros <;> exact ⟨rfl, rfl⟩

theorem applyStep_outgoing (c : Changer) (s : CS) (cc : ConfChangeSingle) :
    (applyStep c s cc).1.outgoing = s.1.outgoing ∧ (applyStep c s cc).1.autoLeave = s.1.autoLeave :=
  applyStep_cases c s cc (fun r => r.1.outgoing = s.1.outgoing ∧ r.1.autoLeave = s.1.autoLeave) ⟨rfl, rfl⟩
    (fun _ => op_outgoing c s.1 s.2 cc.nodeId)

theorem fold_outgoing (c : Changer) (ccs : List ConfChangeSingle) (s : CS) :
    (ccs.foldl (applyStep c) s).1.outgoing = s.1.outgoing ∧
    (ccs.foldl (applyStep c) s).1.autoLeave = s.1.autoLeave := by
  induction ccs generalizing s with
  | nil => exact ⟨rfl, rfl⟩
  | cons a t ih =>
    obtain ⟨h1, h2⟩ := ih (applyStep c s a)
    obtain ⟨h3, h4⟩ := applyStep_outgoing c s a
    exact ⟨h1.trans h3, h2.trans h4⟩

/-- staged learners stay disjoint from the incoming voters -/
theorem op_staged (c : Changer) (cfg : TrackerConfig) (trk : ProgressMap) (id : Id)
    (hi : SemInv cfg trk) (hs : StagedDisjoint cfg) :
    let Q : CS → Prop := fun r => StagedDisjoint r.1
    Q (c.remove cfg trk id) ∧ Q (c.makeVoter cfg trk id) ∧ Q (c.makeLearner cfg trk id) := by
  intro Q
  obtain ⟨h1, h2, h3, h4, h5, h6, h7, h8⟩ := hi
  unfold StagedDisjoint at hs
  apply op_cases c cfg trk id Q <;> intros <;> simp only [Q, StagedDisjoint] <;>
    first | exact hs | (intro x hx; conf_norm; grind)

/-- members after an operation are old members or the id operated on -/
theorem op_member (c : Changer) (cfg : TrackerConfig) (trk : ProgressMap) (id : Id) :
    let Q : CS → Prop := fun r => ∀ x, cfgMember r.1 x → x = id ∨ cfgMember cfg x
    Q (c.remove cfg trk id) ∧ Q (c.makeVoter cfg trk id) ∧ Q (c.makeLearner cfg trk id) := by
  intro Q
  apply op_cases c cfg trk id Q <;> intros <;> simp only [Q] <;> (intro x hx; conf_norm; grind)

end RaftVerif
