import RaftVerif.Proofs.SimCorOrderFrame
import RaftVerif.Proofs.SimCorApply
/-!
# Proofs/SimCorOrderRaw — `RawNode.step` / `tick` / `propose` / `campaign` keep the apply cursors
-/
namespace RaftVerif.SimCorP
open Sim Refine Simulation

/-- the apply cursors of a node: `(applying, applied)` -/
def cursors (rn : RawNode) : Nat × Nat := (rn.raft.log.applying, rn.raft.log.applied)

theorem rstep_cursors {rn rn' : RawNode} {draws : List Nat} {m : Message} {e : Option ApiErr}
    (h1 : m.typ ≠ .storageAppendResp) (h2 : m.typ ≠ .storageApplyResp)
    (h : rn.rstep draws m = .ok (e, rn')) : cursors rn' = cursors rn := by
  obtain ⟨e0, r', hr, rfl⟩ := rstep_inv h
  obtain ⟨a, b⟩ := step_cursors h1 h2 hr
  simp only [cursors]
  rw [a, b]

theorem rawstep_cursors {rn rn' : RawNode} {draws : List Nat} {m : Message} {e : Option ApiErr}
    (h1 : m.typ ≠ .storageAppendResp) (h2 : m.typ ≠ .storageApplyResp)
    (h : rn.step draws m = .ok (e, rn')) : cursors rn' = cursors rn := by
  rcases step_inv h with rfl | ⟨e0, r', hr, rfl⟩
  · rfl
  · obtain ⟨a, b⟩ := step_cursors h1 h2 hr
    simp only [cursors]
    rw [a, b]

theorem rawtick_cursors {rn rn' : RawNode} {draws : List Nat}
    (h : rn.tick draws = .ok rn') : cursors rn' = cursors rn := by
  obtain ⟨r', hr, rfl⟩ := tick_inv h
  obtain ⟨a, b⟩ := tick_cursors hr
  simp only [cursors]
  rw [a, b]

theorem covered_not_storage {t : MsgType} (h : Covered t) :
    t ≠ .storageAppendResp ∧ t ≠ .storageApplyResp := by
  rcases h with (h | h | h | h | h | h) | h <;> subst h <;> exact ⟨by decide, by decide⟩

end RaftVerif.SimCorP
