import RaftVerif.Proofs.C14RawNode
import RaftVerif.Proofs.C14Conf
/-!
# Proofs/C14Restore — `Raft.restore`, `Raft.applyConfChange`, `Raft.hasUnappliedConfChanges`: run equations and
exact panic conditions.  Helper lemmas for `Props/C14.lean`.  Core Lean only.
-/
set_option linter.unusedSimpArgs false
namespace RaftVerif.C14
open Raft

/-! ### applyConfChange -/

/-- a configuration change that the `Changer` rejects makes `applyConfChange` panic (any role) -/
theorem applyConfChange_changer_error (cc : ConfChangeV2) (r : Raft) (e' : String)
    (h : applyV2 { tracker := r.trk, lastIndex := r.log.lastIndex } cc = .error e') :
    (applyConfChange cc).run r = .error ("applyConfChange: " ++ e') := by
  unfold applyConfChange
  unfold applyV2 at h
  simp only [StateT.run_bind, StateT.run_get, P_pure_eq, P_ok_bind]
  split
  · rename_i e heq
    have := heq.symm.trans h
    injection this with this
    rw [this]; rfl
  · rename_i cfg trk heq
    have := heq.symm.trans h
    cases this

/-- on a node that is not leader, the rejected change is the only way `applyConfChange` can panic -/
theorem applyConfChange_run_nonleader (cc : ConfChangeV2) (r : Raft) (hs : r.state ≠ .leader) :
    (applyConfChange cc).run r =
      match applyV2 { tracker := r.trk, lastIndex := r.log.lastIndex } cc with
      | .error e' => .error ("applyConfChange: " ++ e')
      | .ok (cfg, trk) => .ok ((swCfg r cfg trk).trk.confState, swCfg r cfg trk) := by
  cases h : applyV2 { tracker := r.trk, lastIndex := r.log.lastIndex } cc with
  | error e' => exact applyConfChange_changer_error cc r e' h
  | ok p =>
    obtain ⟨cfg, trk⟩ := p
    unfold applyConfChange
    unfold applyV2 at h
    simp only [StateT.run_bind, StateT.run_get, P_pure_eq, P_ok_bind]
    split
    · rename_i e heq
      have := heq.symm.trans h
      cases this
    · rename_i cfg' trk' heq
      have := heq.symm.trans h
      injection this with this
      injection this with h1 h2
      subst h1 h2
      exact switchToConfig_run_nonleader _ _ r hs

theorem applyConfChange_error_iff_nonleader (cc : ConfChangeV2) (r : Raft) (hs : r.state ≠ .leader) (e : String) :
    (applyConfChange cc).run r = .error e ↔
      ∃ e', applyV2 { tracker := r.trk, lastIndex := r.log.lastIndex } cc = .error e' ∧
        e = "applyConfChange: " ++ e' := by
  rw [applyConfChange_run_nonleader cc r hs]
  cases applyV2 { tracker := r.trk, lastIndex := r.log.lastIndex } cc with
  | error e' => simp [eq_comm]
  | ok p => simp

/-! ### restore -/

/-- is this node a member of the snapshot's configuration? -/
def snapHasMe (r : Raft) (s : Snapshot) : Bool :=
  s.conf.voters.contains r.cfg.id || s.conf.learners.contains r.cfg.id || s.conf.votersOutgoing.contains r.cfg.id

/-- the state in which `restore` rebuilds the configuration -/
def restoreBase (r : Raft) (s : Snapshot) : Raft :=
  { r with log := r.log.restore s, trk := Tracker.make r.trk.maxInflight r.trk.maxInflightBytes }

/-- the `Changer` with which `restore` rebuilds the configuration -/
def restoreChanger (r : Raft) (s : Snapshot) : Changer :=
  { tracker := Tracker.make r.trk.maxInflight r.trk.maxInflightBytes, lastIndex := (r.log.restore s).lastIndex }

/-- **run equation of `restore`** -/
theorem restore_run (s : Snapshot) (r : Raft) :
    (restore s).run r =
      if s.index ≤ r.log.committed then .ok (false, r)
      else if r.state ≠ .follower then
        match (becomeFollower (r.term + 1) 0).run r with
        | .error e => .error e
        | .ok (_, r') => .ok (false, r')
      else if snapHasMe r s = false then .ok (false, r)
      else if r.log.matchTerm { term := s.term, index := s.index } = true then
        match r.log.commitTo s.index with
        | .error e => .error e
        | .ok l => .ok (false, { r with log := l })
      else
        match restoreConf (restoreChanger r s) s.conf with
        | .error e' => .error ("unable to restore config: " ++ e')
        | .ok (cfg, trk) =>
          if s.conf.equivalent (swCfg (restoreBase r s) cfg trk).trk.confState = false then
            .error "ConfStates not equivalent"
          else .ok (true, swCfg (restoreBase r s) cfg trk) := by
  unfold Raft.restore restoreChanger
  simp only [StateT.run_bind, StateT.run_get, P_pure_eq, P_ok_bind]
  by_cases h1 : s.index ≤ r.log.committed
  · rw [if_pos h1]
    simp only [h1, decide_true, ↓reduceIte, StateT.run_pure, P_pure_eq]
  rw [if_neg h1]
  by_cases h2 : r.state ≠ .follower
  · rw [if_pos h2]
    have hb : (r.state != .follower) = true := by simpa using h2
    simp only [h1, decide_false, Bool.false_eq_true, ↓reduceIte, hb, StateT.run_bind, StateT.run_pure, P_pure_eq]
    cases (becomeFollower (r.term + 1) 0).run r with
    | error e => rfl
    | ok p => rfl
  rw [if_neg h2]
  have h2' : r.state = .follower := by simpa using h2
  have hb : (r.state != .follower) = false := by simp [h2']
  by_cases h3 : snapHasMe r s = false
  · rw [if_pos h3]
    unfold snapHasMe at h3
    simp only [h1, decide_false, Bool.false_eq_true, ↓reduceIte, hb, h3, Bool.not_false, StateT.run_pure, P_pure_eq]
  rw [if_neg h3]
  have h3' : snapHasMe r s = true := by simpa using h3
  unfold snapHasMe at h3'
  by_cases h4 : r.log.matchTerm { term := s.term, index := s.index } = true
  · rw [if_pos h4]
    simp only [h1, decide_false, Bool.false_eq_true, ↓reduceIte, hb, h3', Bool.not_true, h4, StateT.run_bind,
      liftP_run]
    cases r.log.commitTo s.index with
    | error e => rfl
    | ok l => rfl
  rw [if_neg h4]
  have h4' : r.log.matchTerm { term := s.term, index := s.index } = false := by simpa using h4
  simp only [h1, decide_false, Bool.false_eq_true, ↓reduceIte, hb, h3', Bool.not_true, h4', StateT.run_bind,
    setLog_run, P_ok_bind, StateT.run_modify, P_pure_eq]
  cases restoreConf { tracker := Tracker.make r.trk.maxInflight r.trk.maxInflightBytes,
                      lastIndex := (r.log.restore s).lastIndex } s.conf with
  | error e' => rfl
  | ok p =>
    obtain ⟨cfg, trk⟩ := p
    have hst : (restoreBase r s).state ≠ .leader := by
      show r.state ≠ .leader
      rw [h2']; simp
    simp only [StateT.run_bind]
    have hsw := switchToConfig_run_nonleader cfg trk (restoreBase r s) hst
    unfold restoreBase at hsw
    rw [hsw]
    simp only [P_ok_bind]
    cases heq : s.conf.equivalent (swCfg (restoreBase r s) cfg trk).trk.confState with
    | false =>
      unfold restoreBase at heq
      simp only [heq, Bool.not_false, ↓reduceIte, StateT.run_bind, M_run_throw, P_error_bind]
    | true =>
      unfold restoreBase at heq
      simp only [heq, Bool.not_true, Bool.false_eq_true, ↓reduceIte, StateT.run_pure, P_pure_eq]
      rfl

/-- **restore**: every panic site, in evaluation order -/
theorem restore_error_iff (s : Snapshot) (r : Raft) (e : String) :
    (restore s).run r = .error e ↔
      r.log.committed < s.index ∧
      ((r.state ≠ .follower ∧ r.draws = [] ∧ e = "HARNESS: no election-timeout draw supplied") ∨
       (r.state = .follower ∧ snapHasMe r s = true ∧
         ((r.log.matchTerm { term := s.term, index := s.index } = true ∧ r.log.commitTo s.index = .error e) ∨
          (r.log.matchTerm { term := s.term, index := s.index } = false ∧
            ((∃ e', restoreConf (restoreChanger r s) s.conf = .error e' ∧
                e = "unable to restore config: " ++ e') ∨
             (∃ cfg trk, restoreConf (restoreChanger r s) s.conf = .ok (cfg, trk) ∧
                s.conf.equivalent (swCfg (restoreBase r s) cfg trk).trk.confState = false ∧
                e = "ConfStates not equivalent")))))) := by
  rw [restore_run]
  by_cases h1 : s.index ≤ r.log.committed
  · rw [if_pos h1]; simp; omega
  rw [if_neg h1]
  have h1' : r.log.committed < s.index := by omega
  simp only [h1', true_and]
  by_cases h2 : r.state ≠ .follower
  · rw [if_pos h2, becomeFollower_run]
    have h2n : ¬ r.state = .follower := h2
    simp only [h2, h2n, ne_eq, not_false_eq_true, true_and, false_and, or_false]
    cases r.draws with
    | nil => simp [eq_comm]
    | cons d rest => simp
  rw [if_neg h2]
  have h2' : r.state = .follower := by simpa using h2
  simp only [h2', ne_eq, not_true_eq_false, false_and, false_or, true_and]
  by_cases h3 : snapHasMe r s = false
  · rw [if_pos h3]; simp [h3]
  rw [if_neg h3]
  have h3' : snapHasMe r s = true := by simpa using h3
  simp only [h3', true_and]
  by_cases h4 : r.log.matchTerm { term := s.term, index := s.index } = true
  · rw [if_pos h4]
    simp only [h4, true_and, Bool.true_eq_false, false_and, or_false]
    cases r.log.commitTo s.index with
    | error e' => simp
    | ok l => simp
  rw [if_neg h4]
  have h4' : r.log.matchTerm { term := s.term, index := s.index } = false := by simpa using h4
  simp only [h4', Bool.false_eq_true, false_and, true_and, false_or]
  cases restoreConf (restoreChanger r s) s.conf with
  | error e' =>
    simp only [Except.error.injEq, reduceCtorEq, false_and, exists_false, or_false, exists_eq_left']
    exact eq_comm
  | ok p =>
    obtain ⟨cfg, trk⟩ := p
    simp only [reduceCtorEq, false_and, exists_false, Except.ok.injEq, Prod.mk.injEq, false_or]
    cases heq : s.conf.equivalent (swCfg (restoreBase r s) cfg trk).trk.confState with
    | false =>
      simp only [↓reduceIte, Except.error.injEq]
      constructor
      · rintro rfl; exact ⟨cfg, trk, ⟨rfl, rfl⟩, heq, rfl⟩
      · rintro ⟨_, _, _, _, rfl⟩; rfl
    | true =>
      simp only [Bool.true_eq_false, ↓reduceIte, reduceCtorEq, false_iff, not_exists, not_and]
      rintro cfg' trk' ⟨rfl, rfl⟩ h; rw [heq] at h; cases h

/-! ### hasUnappliedConfChanges -/

/-- under the log invariant and with no snapshot pending (which `hup` has checked via `promotable`),
`hasUnappliedConfChanges` never panics -/
theorem hasUnappliedConfChanges_no_panic (r : Raft) (h : r.log.WF) (hsn : r.log.unstable.snapshot = none) :
    ∃ b, hasUnappliedConfChanges.run r = .ok (b, r) := by
  unfold hasUnappliedConfChanges
  simp only [StateT.run_bind, StateT.run_get, P_pure_eq, P_ok_bind]
  by_cases hc : r.log.applied ≥ r.log.committed
  · simp only [hc, decide_true, ↓reduceIte, StateT.run_pure, P_pure_eq]
    exact ⟨_, rfl⟩
  · simp only [hc, decide_false, Bool.false_eq_true, ↓reduceIte, liftP_run]
    have hne : ∀ e, r.log.scanAny (fun e => e.getType == .confChange || e.getType == .confChangeV2)
        r.log.maxApplyingEntsSize (r.log.committed + 1 - (r.log.applied + 1) + 1) (r.log.applied + 1)
        (r.log.committed + 1) ≠ .error e := by
      intro e he
      have := (scanAny_error_iff h _ _ _ _ _ (by omega) e).mp he
      have hcl := h.committedLeLast
      have hso := h.snapOK
      obtain ⟨pre, hpe, hlen, hn, hss⟩ := h.shape
      unfold RaftLog.SnapOK at hso
      rw [hsn] at hso
      have hbase := (hn hsn).2.1
      rw [RaftLog.firstIndex_abs h] at this
      unfold ALog.first at this
      rcases this with ⟨_, (⟨_, hx⟩ | ⟨_, _, hx⟩)⟩
      · omega
      · omega
    cases hsc : r.log.scanAny (fun e => e.getType == .confChange || e.getType == .confChangeV2)
        r.log.maxApplyingEntsSize (r.log.committed + 1 - (r.log.applied + 1) + 1) (r.log.applied + 1)
        (r.log.committed + 1) with
    | error e => exact absurd hsc (hne e)
    | ok b => exact ⟨b, rfl⟩

/-! ### Ready never panics when the contract is respected -/

open RawNode

theorem newStorageAppendRespMsg_ok' (r : Raft) (rd : Ready) (h : r.log.WF) :
    ∃ m, newStorageAppendRespMsg r rd = .ok m := by
  cases hx : newStorageAppendRespMsg r rd with
  | ok m => exact ⟨m, rfl⟩
  | error e =>
    exfalso
    obtain ⟨_, hl⟩ := (newStorageAppendRespMsg_error_iff r rd e).mp hx
    obtain ⟨t, _, ht⟩ := RaftLog.lastEntryID_spec h
    rw [ht] at hl; cases hl

def IsOk {α : Type} (x : Except String α) : Prop := ∃ a, x = .ok a

theorem IsOk.ite {α : Type} {c : Prop} [Decidable c] {a b : Except String α} (ha : c → IsOk a) (hb : ¬ c → IsOk b) :
    IsOk (if c then a else b) := by
  split
  · exact ha ‹_›
  · exact hb ‹_›
theorem IsOk.pure {α : Type} (a : α) : IsOk (pure a : Except String α) := ⟨a, rfl⟩
theorem IsOk.ok {α : Type} (a : α) : IsOk (Except.ok a : Except String α) := ⟨a, rfl⟩

/-- the MsgStorageAppendResp built by `newStorageAppendRespMsg` when the last entry id is `id` -/
def storageAppendRespMsg (r : Raft) (rd : Ready) (id : EntryID) : Message :=
  let m : Message := { typ := .storageAppendResp, to := r.cfg.id, «from» := localAppendThread, term := r.term }
  let m := if r.log.hasNextOrInProgressUnstableEnts then { m with index := id.index, logTerm := id.term } else m
  if !isEmptySnap rd.snapshot then { m with snapshot := rd.snapshot } else m

theorem newStorageAppendRespMsg_eq_ok (r : Raft) (rd : Ready) (id : EntryID) (h : r.log.lastEntryID = .ok id) :
    newStorageAppendRespMsg r rd = .ok (storageAppendRespMsg r rd id) := by
  unfold newStorageAppendRespMsg storageAppendRespMsg
  rw [h]
  by_cases h1 : r.log.hasNextOrInProgressUnstableEnts = true <;>
  by_cases h2 : (!isEmptySnap rd.snapshot) = true <;>
  simp only [h1, h2, ↓reduceIte, Bool.false_eq_true] <;> rfl

theorem readyWithoutAccept_no_panic (rn : RawNode) (hwf : rn.raft.log.WF) :
    ∃ rd, rn.readyWithoutAccept = .ok rd := by
  obtain ⟨t, _, hid⟩ := RaftLog.lastEntryID_spec hwf
  show IsOk _
  unfold RawNode.readyWithoutAccept
  simp only [bind, Except.bind, RawNode.applyUnstableEntries, RaftLog.nextCommittedEnts_eq hwf,
    newStorageAppendRespMsg_eq_ok _ _ _ hid]
  repeat' (first | exact IsOk.pure _ | exact IsOk.ok _ | (apply IsOk.ite <;> intro _))

theorem acceptReady_no_panic (rn : RawNode) (rd : Ready) (hwf : rn.raft.log.WF)
    (hc : rn.async = true ∨ rn.stepsOnAdvance = [])
    (hrd : ∀ en ∈ rd.committedEntries, en.index ≤ rn.raft.log.committed) :
    ∃ rn', rn.acceptReady rd = .ok rn' := by
  cases hx : rn.acceptReady rd with
  | ok rn' => exact ⟨rn', rfl⟩
  | error e =>
    exfalso
    obtain ⟨t, _, hid⟩ := RaftLog.lastEntryID_spec hwf
    rcases (acceptReady_error_iff rn rd e).mp hx with ⟨ha, (⟨_, hs⟩ | ⟨_, _, hl⟩)⟩ | ⟨_, _, last, hg, hlt⟩
    · rcases hc with hc | hc
      · rw [ha] at hc; cases hc
      · exact hs hc
    · rw [hid] at hl; cases hl
    · have := hrd last (List.mem_of_getLast? hg)
      omega

/-- **`Ready()` never panics** on a node whose log satisfies the invariant, provided the application follows the
contract: in synchronous mode `Advance` was called after the previous `Ready` (`stepsOnAdvance = []`) -/
theorem ready_no_panic (rn : RawNode) (hwf : rn.raft.log.WF) (hc : rn.async = true ∨ rn.stepsOnAdvance = []) :
    ∃ rd rn', rn.ready = .ok (rd, rn') := by
  obtain ⟨rd, hrd⟩ := readyWithoutAccept_no_panic rn hwf
  have hce := RawNode.readyWithoutAccept_committed rn rd hrd
  rw [RaftLog.nextCommittedEnts_eq hwf] at hce
  injection hce with hce
  obtain ⟨rn', hrn⟩ := acceptReady_no_panic rn rd hwf hc (by
    intro en hen
    rw [← hce] at hen
    exact (RaftLog.nextBatch_committed hwf _ en hen).2)
  refine ⟨rd, rn', ?_⟩
  unfold RawNode.ready
  rw [hrd]
  simp only [P_ok_bind, hrn, P_pure_eq]

/-! ### the recursion bound of `step` -/

theorem stepLeader_fuel (a b : Nat) : stepLeader a = stepLeader b := by
  funext m; unfold stepLeader; rfl
theorem stepCandidate_fuel (a b : Nat) : stepCandidate a = stepCandidate b := by
  funext m; unfold stepCandidate; rfl
theorem stepFollower_fuel (a b : Nat) : stepFollower a = stepFollower b := by
  funext m; unfold stepFollower; rfl

/-- the message `appliedTo` steps to leave a joint configuration automatically -/
def autoLeaveMsg : Message := { typ := .prop, entries := [{ typ := some .confChangeV2, data := none }] }

theorem step_autoLeave_fuel (a : Nat) : Raft.step (a + 1) autoLeaveMsg = Raft.step 1 autoLeaveMsg := by
  unfold Raft.step
  simp only [autoLeaveMsg, stepLeader_fuel a 0, stepCandidate_fuel a 0, stepFollower_fuel a 0]
  rfl

theorem appliedTo_fuel (a : Nat) : appliedTo (a + 1) = appliedTo 1 := by
  funext i sz
  unfold appliedTo
  have := step_autoLeave_fuel a
  unfold autoLeaveMsg at this
  simp only [this]

theorem appliedSnap_fuel (a : Nat) : appliedSnap (a + 1) = appliedSnap 1 := by
  funext s
  unfold appliedSnap
  rw [appliedTo_fuel a]

/-- **the recursion bound of the model is not observable**: with any fuel `≥ 2`, `step` is the same function -/
theorem step_fuel_irrelevant (a : Nat) : Raft.step (a + 2) = Raft.step 2 := by
  funext m
  unfold Raft.step
  rw [appliedTo_fuel a, appliedSnap_fuel a, stepLeader_fuel (a + 1) 1, stepCandidate_fuel (a + 1) 1,
    stepFollower_fuel (a + 1) 1]

/-! ### handleHeartbeat, handleAppendEntries, handleSnapshot -/

/-- **handleHeartbeat**: a heartbeat whose commit index is beyond the log ("commit beyond log"), or — the
commit being fine — a heartbeat that claims to come from the node itself -/
theorem handleHeartbeat_error_iff (m : Message) (r : Raft) (e : String) :
    (handleHeartbeat m).run r = .error e ↔
      (e = "commitTo: tocommit out of range" ∧ r.log.committed < m.commit ∧ r.log.lastIndex < m.commit) ∨
      (¬ (r.log.committed < m.commit ∧ r.log.lastIndex < m.commit) ∧
        e = "send: message should not be self-addressed" ∧ m.from = r.cfg.id) := by
  unfold handleHeartbeat
  simp only [StateT.run_bind, StateT.run_get, P_pure_eq, P_ok_bind, liftP_run, RaftLog.commitTo_eq]
  by_cases hc : r.log.committed < m.commit ∧ r.log.lastIndex < m.commit
  · simp only [hc, and_self, ↓reduceIte, P_error_bind, Except.error.injEq, not_true_eq_false, false_and,
      or_false, and_true]
    exact eq_comm
  · simp only [hc, ↓reduceIte, P_ok_bind, setLog_run, and_false, not_false_eq_true, true_and, false_or]
    rw [send_run_nonvote _ _ (by simp) (by simp) (by simp) (by simp) rfl]
    simp only [reduceCtorEq, ↓reduceIte]
    by_cases hf : m.from = r.cfg.id
    · simp only [hf, ↓reduceIte, Except.error.injEq, and_true]; exact eq_comm
    · simp only [hf, ↓reduceIte, reduceCtorEq, and_false]

/-- **handleAppendEntries** (no hypothesis): it panics exactly when `maybeAppend` does — the responses are
MsgAppResp, which `send` never rejects -/
theorem handleAppendEntries_error_iff (m : Message) (r : Raft) (e : String) :
    (handleAppendEntries m).run r = .error e ↔
      r.log.committed ≤ m.index ∧
      r.log.maybeAppend { term := m.logTerm, index := m.index } m.entries m.commit = .error e := by
  unfold handleAppendEntries
  simp only [StateT.run_bind, StateT.run_get, P_pure_eq, P_ok_bind]
  by_cases hlt : m.index < r.log.committed
  · simp only [hlt, decide_true, ↓reduceIte, StateT.run_bind]
    rw [send_run_nonvote _ _ (by simp) (by simp) (by simp) (by simp) rfl]
    simp only [↓reduceIte, P_ok_bind, StateT.run_pure, P_pure_eq, reduceCtorEq, false_iff, not_and]
    intro h; omega
  · simp only [hlt, decide_false, Bool.false_eq_true, ↓reduceIte, StateT.run_bind, liftP_run]
    have hle : r.log.committed ≤ m.index := by omega
    simp only [hle, true_and]
    cases hma : r.log.maybeAppend { term := m.logTerm, index := m.index } m.entries m.commit with
    | error e' => simp only [P_error_bind, Except.error.injEq]
    | ok p =>
      obtain ⟨l, res⟩ := p
      simp only [P_ok_bind, setLog_run, reduceCtorEq, iff_false]
      cases res with
      | some li =>
        simp only []
        rw [send_run_nonvote _ _ (by simp) (by simp) (by simp) (by simp) rfl]
        simp
      | none =>
        simp only []
        rw [send_run_nonvote _ _ (by simp) (by simp) (by simp) (by simp) rfl]
        simp

/-- on a well-formed log and for a MsgApp whose entries are contiguous after `(index, logTerm)`: the only
panic is the conflict with a committed entry -/
theorem handleAppendEntries_error_iff_wf (m : Message) (r : Raft) (hwf : r.log.WF)
    (hc : Contig (m.index + 1) m.entries) (e : String) :
    (handleAppendEntries m).run r = .error e ↔
      e = "maybeAppend: conflict with committed entry" ∧ r.log.committed ≤ m.index ∧
      r.log.matchTerm { term := m.logTerm, index := m.index } = true ∧
      r.log.findConflict m.entries ≠ 0 ∧ r.log.findConflict m.entries ≤ r.log.committed := by
  rw [handleAppendEntries_error_iff, maybeAppend_error_iff hwf _ _ _ hc]
  constructor
  · rintro ⟨h1, h2, h3⟩; exact ⟨h2, h1, h3⟩
  · rintro ⟨h2, h1, h3⟩; exact ⟨h1, h2, h3⟩

/-- **handleSnapshot** panics exactly when `restore` does (the response is a MsgAppResp) -/
theorem handleSnapshot_error_iff (m : Message) (r : Raft) (e : String) :
    (handleSnapshot m).run r = .error e ↔ (restore (m.snapshot.getD {})).run r = .error e := by
  unfold handleSnapshot
  simp only [StateT.run_bind]
  cases hr : (restore (m.snapshot.getD {})).run r with
  | error e' => simp only [P_error_bind, Except.error.injEq]
  | ok p =>
    obtain ⟨b, r'⟩ := p
    simp only [P_ok_bind, reduceCtorEq, iff_false]
    cases b with
    | true =>
      simp only [↓reduceIte, StateT.run_bind, StateT.run_get, P_pure_eq, P_ok_bind]
      rw [send_run_nonvote _ _ (by simp) (by simp) (by simp) (by simp) rfl]
      simp
    | false =>
      simp only [Bool.false_eq_true, ↓reduceIte, StateT.run_bind, StateT.run_get, P_pure_eq, P_ok_bind]
      rw [send_run_nonvote _ _ (by simp) (by simp) (by simp) (by simp) rfl]
      simp

end RaftVerif.C14
