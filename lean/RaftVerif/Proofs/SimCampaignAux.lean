import RaftVerif.Proofs.SimCampaign
import RaftVerif.Proofs.SimAux
/-!
# Proofs/SimCampaignAux — the auxiliary (model-only) invariant `AuxInv` across MsgHup / a non-leader tick
-/
namespace RaftVerif.Sim
open Refine Raft

/-- a real election keeps `AuxInv` (the term grows, so `AuxFrame.lead` is vacuous) -/
theorem aux_campaign {val : Val} {n : Nat} {t : CampaignType} {r r' : Raft} (hid : r.cfg.id = n)
    (haux : AuxInv n r) (hp : CampaignPost val t r r') : AuxInv n r' ∧ AuxFrame r r' := by
  have hf : AuxFrame r r' :=
    ⟨by rw [hp.term]; exact Nat.le_succ _, fun h _ => by rw [hp.term] at h; omega,
      fun h _ => by rw [hp.term] at h; omega⟩
  refine ⟨?_, hf⟩
  exact {
    matchLe := fun hl => by rw [hp.state] at hl; cases hl
    self := fun x hx => by
      rw [hp.maa] at hx
      rcases List.mem_append.1 hx with hx | hx
      · exact (haux.self x hx).frame hf
      · obtain ⟨h1, h2, _, h4, h5⟩ := mem_ownVotes hx
        intro _
        refine ⟨Or.inl h1, h5, h2.trans hid, by rw [h4, hp.term]; exact Nat.le_refl _, fun ha => ?_⟩
        rw [h1] at ha
        cases ha
    outFrom := fun x hx hty => by
      rw [hp.msgs] at hx
      rcases List.mem_append.1 hx with hx | hx
      · exact haux.outFrom x hx hty
      · obtain ⟨_, h2, h3, _⟩ := mem_voteReqs hx
        exact ⟨h2.trans hid, by rw [← hid]; exact h3⟩ }

theorem aux_hup {val : Val} {voters : List Id} {n : Nat} {s : Spec.State} {r r' : Raft} {m : Message}
    {e : Option StepErr} {fuel : Nat} (hinv : RaftInv val voters n r (s.nodes n) s.msgs) (haux : AuxInv n r)
    (ht : m.typ = .hup) (h0 : m.term = 0)
    (h : (Raft.step (fuel + 1) m).run r = .ok (e, r')) : AuxInv n r' ∧ AuxFrame r r' := by
  by_cases hl : r.state = .leader
  · obtain ⟨rfl, _⟩ := step_hup_noop fuel m r r' e ht h0 (Or.inl hl) h
    exact ⟨haux, AuxFrame.refl _⟩
  cases hpb : Live.promotableB r with
  | false =>
    obtain ⟨rfl, _⟩ := step_hup_noop fuel m r r' e ht h0 (Or.inr (Or.inl hpb)) h
    exact ⟨haux, AuxFrame.refl _⟩
  | true =>
    cases hu : hasUnappliedConfChanges.run r with
    | error err =>
      rw [Live.step_hup_run fuel m r ht h0, Live.hup_run, if_neg hl, if_neg (by rw [hpb]; simp), hu] at h
      simp [bind, Except.bind] at h
    | ok p =>
      obtain ⟨b, r1⟩ := p
      have hr1 : r1 = r := (hasUnappliedConfChanges_same r).elim hu
      subst hr1
      cases b with
      | true =>
        obtain ⟨rfl, _⟩ := step_hup_noop fuel m r1 r' e ht h0 (Or.inr (Or.inr hu)) h
        exact ⟨haux, AuxFrame.refl _⟩
      | false =>
        obtain ⟨_, hp⟩ := step_hup_refine val fuel m r1 r' e ht h0 hinv.st.pv hl hpb hu hinv.wf hinv.unc h
        exact aux_campaign hinv.st.id haux hp

theorem aux_tick_nonleader {val : Val} {voters : List Id} {n : Nat} {s : Spec.State} {r r' : Raft}
    (hinv : RaftInv val voters n r (s.nodes n) s.msgs) (haux : AuxInv n r) (hs : r.state ≠ .leader)
    (h : Raft.tick.run r = .ok ((), r')) : AuxInv n r' ∧ AuxFrame r r' := by
  rw [Next.tick_run_nonleader r hs] at h
  by_cases hf : Live.promotableB r = true ∧ r.randomizedElectionTimeout ≤ r.electionElapsed + 1
  · rw [Live.tickElection_run_fire r hf.1 hf.2] at h
    obtain ⟨p, hc, h'⟩ := bind_eq_ok.1 h
    obtain ⟨e, r2⟩ := p
    injection h' with h'
    injection h' with _ e2
    subst e2
    have hinv0 : RaftInv val voters n { r with electionElapsed := 0 } (s.nodes n) s.msgs :=
      hinv.congr rfl rfl rfl rfl rfl rfl rfl rfl rfl rfl rfl rfl
    have haux0 : AuxInv n { r with electionElapsed := 0 } := ⟨haux.matchLe, haux.self, haux.outFrom⟩
    obtain ⟨ha, hfr⟩ := aux_hup (fuel := 2) hinv0 haux0 rfl rfl hc
    exact ⟨ha, ⟨hfr.term, hfr.lead, hfr.fol⟩⟩
  · have hidle : Live.promotableB r = false ∨ r.electionElapsed + 1 < r.randomizedElectionTimeout := by
      cases hpb : Live.promotableB r with
      | false => exact Or.inl rfl
      | true =>
        right
        have : ¬ r.randomizedElectionTimeout ≤ r.electionElapsed + 1 := fun h2 => hf ⟨hpb, h2⟩
        omega
    rw [Live.tickElection_run_idle r hidle] at h
    injection h with h
    injection h with _ e2
    subst e2
    exact ⟨⟨haux.matchLe, haux.self, haux.outFrom⟩, ⟨Nat.le_refl _, fun _ h => ⟨h, Nat.le_refl _⟩, fun _ h => h⟩⟩

end RaftVerif.Sim
