import RaftVerif.Model.Tracker
import RaftVerif.Proofs.FlowSize
/-!
# Proofs/FlowTracker — helper definitions and lemmas for `Inflights` and `Progress`
(tracker/inflights.go, tracker/progress.go).  Core Lean only.
-/
namespace RaftVerif

/-- `dropWhile` removes exactly the maximal prefix satisfying `p` -/
theorem dropWhile_split {α : Type} (p : α → Bool) (l : List α) :
    ∃ pre, l = pre ++ l.dropWhile p ∧ (∀ x ∈ pre, p x = true) ∧
      (∀ x, (l.dropWhile p).head? = some x → p x = false) := by
  induction l with
  | nil => exact ⟨[], by simp⟩
  | cons a t ih =>
    obtain ⟨pre, h1, h2, h3⟩ := ih
    rw [List.dropWhile_cons]
    cases hp : p a with
    | true =>
      refine ⟨a :: pre, ?_, ?_, ?_⟩
      · simp only [↓reduceIte, List.cons_append, List.cons.injEq, true_and]; exact h1
      · intro x hx
        rcases List.mem_cons.mp hx with h | h
        · rw [h]; exact hp
        · exact h2 x h
      · simpa using h3
    | false =>
      refine ⟨[], by simp, by simp, ?_⟩
      intro x hx
      simp at hx
      rw [← hx]; exact hp

/-- result of a panicking computation -/
theorem P_throw_ne_ok {α : Type} (e : String) (a : α) : (throw e : P α) ≠ .ok a := by
  intro h; cases h

theorem usub_of_le (a b : Nat) (h : b ≤ a) : usub a b = a - b := by
  unfold usub
  rw [if_pos h]

theorem usub_one_of_pos (n : Nat) (h : 0 < n) : usub n 1 = n - 1 := usub_of_le n 1 h

/-! ### association lists -/

theorem lookup_mapInsert {β : Type} (k : Id) (v : β) (m : List (Id × β)) (k' : Id) :
    Quorum.lookup (mapInsert k v m) k' = if k = k' then some v else Quorum.lookup m k' := by
  induction m with
  | nil => simp [mapInsert, Quorum.lookup]
  | cons a t ih =>
    obtain ⟨ka, va⟩ := a
    unfold mapInsert
    by_cases h1 : k < ka
    · simp only [h1, ↓reduceIte]
      rw [Quorum.lookup]
      simp only [beq_iff_eq]
    · by_cases h2 : k = ka
      · subst h2
        simp only [Nat.lt_irrefl, ↓reduceIte, beq_self_eq_true]
        rw [Quorum.lookup]
        simp only [beq_iff_eq]
        split
        · rfl
        · rename_i hne; rw [Quorum.lookup]; simp [hne]
      · have h2' : (k == ka) = false := by simpa using h2
        simp only [h1, ↓reduceIte, h2', Bool.false_eq_true]
        rw [Quorum.lookup, ih]
        simp only [beq_iff_eq]
        by_cases h3 : ka = k'
        · subst h3; simp [h2, Quorum.lookup]
        · simp only [h3, ↓reduceIte]
          conv => rhs; rw [Quorum.lookup]
          simp [h3]

theorem mapGet_mapInsert_flow {β : Type} (k : Id) (v : β) (m : List (Id × β)) (k' : Id) :
    mapGet (mapInsert k v m) k' = if k = k' then some v else mapGet m k' :=
  lookup_mapInsert k v m k'

theorem getProgress_setProgress (t : Tracker) (id : Id) (pr : Progress) (id' : Id) :
    (t.setProgress id pr).getProgress id' = if id = id' then some pr else t.getProgress id' :=
  mapGet_mapInsert_flow id pr t.progress id'

namespace Inflights

/-- the byte budget may be exceeded only by the last message added: the messages in flight
*before* it total less than `maxBytes` (when a byte budget is set) -/
def BytesOK (i : Inflights) : Prop :=
  i.maxBytes ≠ 0 → i.q ≠ [] → ((i.q.dropLast).map (·.2)).sum < i.maxBytes

/-- the invariant of the inflight window: never more than `size` messages in flight, and never more
than `maxBytes` bytes beyond the one message that crosses the limit -/
def WF (i : Inflights) : Prop := i.count ≤ i.size ∧ i.BytesOK

theorem WF_of_empty (i : Inflights) (h : i.q = []) : i.WF := by
  refine ⟨by simp [count, h], ?_⟩
  intro _ hne; exact absurd h hne

theorem WF_of_count_zero (i : Inflights) (h : i.count = 0) : i.WF :=
  WF_of_empty i (List.eq_nil_of_length_eq_zero h)

theorem add_ok (i : Inflights) (idx b : Nat) (h : i.full = false) :
    i.add idx b = .ok { i with q := i.q ++ [(idx, b)] } := by
  simp [add, h, pure, Except.pure]

end Inflights

namespace Progress

/-- `Match < Next` (progress.go: "In all states, Next > Match") -/
def WF (pr : Progress) : Prop := pr.match_ < pr.next

/-- in `StateSnapshot`, `Next == PendingSnapshot + 1` -/
def SnapInv (pr : Progress) : Prop := pr.state = .snapshot → pr.next = pr.pendingSnapshot + 1

/-! equations for `SentEntries`, one per case of the Go `switch` -/

theorem sentEntries_replicate_pos (pr : Progress) (entries b : Nat)
    (hs : pr.state = .replicate) (hpos : 0 < entries) :
    pr.sentEntries entries b =
      (pr.inflights.add (pr.next + entries - 1) b).map fun infl =>
        { pr with next := pr.next + entries, inflights := infl, msgAppFlowPaused := infl.full } := by
  unfold sentEntries
  have hu : usub (pr.next + entries) 1 = pr.next + entries - 1 := usub_one_of_pos _ (by omega)
  simp only [hs, hpos, ↓reduceIte, hu]
  cases pr.inflights.add (pr.next + entries - 1) b <;> rfl

theorem sentEntries_replicate_zero (pr : Progress) (b : Nat) (hs : pr.state = .replicate) :
    pr.sentEntries 0 b = .ok { pr with msgAppFlowPaused := pr.inflights.full } := by
  unfold sentEntries
  simp only [hs, gt_iff_lt, Nat.lt_irrefl, ↓reduceIte, pure_bind]
  rfl

theorem sentEntries_probe (pr : Progress) (entries b : Nat) (hs : pr.state = .probe) :
    pr.sentEntries entries b = .ok (if entries > 0 then { pr with msgAppFlowPaused := true } else pr) := by
  unfold sentEntries
  simp only [hs]
  rfl

theorem sentEntries_snapshot (pr : Progress) (entries b : Nat) (hs : pr.state = .snapshot) :
    ∃ e, pr.sentEntries entries b = .error e := by
  unfold sentEntries
  simp only [hs]
  exact ⟨_, rfl⟩

end Progress

end RaftVerif
