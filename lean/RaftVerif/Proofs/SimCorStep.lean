import RaftVerif.Proofs.SimCorHard
/-!
# Proofs/SimCorStep — what one environment step does to the hard state and the storage of the node that takes it
-/
namespace RaftVerif.SimCorP
open Sim Refine Simulation

/-- the stored hard state of a node -/
abbrev storedHS (rn : RawNode) : HardState := rn.raft.log.storage.hardState.getD {}

/-- the three kinds of node transitions an environment step performs -/
inductive NodeStep (rn rn' : RawNode) : Prop where
  /-- deliver / tick / propose / campaign: the storage is untouched -/
  | loc : HSMono rn.raft rn'.raft → rn'.raft.log.storage = rn.raft.log.storage → NodeStep rn rn'
  /-- Ready / persist / Advance: the hard state of the start of the round is stored -/
  | sync : HSMono rn.raft rn'.raft → storedHS rn' = RawNode.hardState rn.raft → NodeStep rn rn'
  /-- crash and restart: the node resumes from its stored hard state; the stored hard state is untouched -/
  | crash : RawNode.hardState rn'.raft = storedHS rn → storedHS rn' = storedHS rn → NodeStep rn rn'

theorem hsMono_withDraws {r r' : Raft} {draws : List Nat} (h : HSMono ({ r with draws := draws } : Raft) r') :
    HSMono r r' := h.congr_left rfl rfl rfl

/-- the stored hard state after a `syncRound` is the hard state of the start of the round -/
theorem syncRound_stored {val : Val} {voters : List Id} {n : Nat} {rn rn' : RawNode} {rd : Ready}
    {draws : List Nat} {nd : Spec.Node} {msgs : List Spec.Msg} (hnode : NodeInv val voters n rn nd msgs)
    (hset : Settled rn.raft) (hdur : DurInv val voters rn nd) (h : syncRound rn draws = .ok (rd, rn')) :
    storedHS rn' = RawNode.hardState rn.raft := by
  obtain ⟨ms, happ, hsto, hcur, _, _⟩ := syncRound_store hnode.sync hnode.adv hnode.inv.wf hset h
  obtain ⟨hf1, _⟩ := storage_append_fields happ
  show rn'.raft.log.storage.hardState.getD {} = _
  rw [hsto, hcur]
  by_cases hc : RawNode.hardState rn.raft = rn.prevHard
  · rw [if_neg (by simpa using hc)]
    simp only
    rw [hf1, ← hdur.prev, hc]
  · rw [if_pos hc]
    rfl

/-- **restart**: the node rebuilt from its storage resumes exactly from the stored hard state -/
theorem restart_hardState {val : Val} {voters : List Id} {c : Cluster} {s : Spec.State}
    (hsorted : voters.Pairwise (· < ·)) (h0 : 0 ∉ voters) (hne : voters ≠ [])
    (hR : RSD val voters c s) {n : Nat} {rn rn' : RawNode} {cfg : Config} {draws : List Nat}
    (hn : c.nodes n = some rn) (hnv : ∀ m ∈ rn.raft.msgs, m.typ ≠ .vote)
    (hid : cfg.id = n) (hpv : cfg.preVote = false)
    (has : cfg.asyncStorageWrites = false) (happ : cfg.applied = 0)
    (hnew : RawNode.new cfg rn.raft.log.storage draws = .ok rn') :
    RawNode.hardState rn'.raft = storedHS rn ∧ storedHS rn' = storedHS rn := by
  have reach := hR.rs.ra.base.reach
  have hnode := hR.rs.ra.base.nodes n rn hn
  have hcfg : (cfgOf voters).OK :=
    Spec.jointCfg_ok voters [] hne (hsorted.imp (fun h => Nat.ne_of_lt h)) (by simp)
  have hle : ∀ e ∈ (s.nodes n).dur.log, e.term ≤ (s.nodes n).dur.term := fun e he =>
    ((Spec.terms_monotone _ hcfg s reach n (s.nodes n).dur (by simp [Spec.versions])).2 e he).2
  have hrv : ∀ t lt li, Spec.Msg.reqVote t n lt li ∈ s.msgs → t ≤ (s.nodes n).dur.term := by
    intro t lt li hx
    rcases hR.camp n rn hn t lt li hx with h | ⟨m, hm, hmt, _⟩
    · exact h
    · exact absurd hmt (hnv m hm)
  have hD := hR.dur n rn hn
  obtain ⟨a1, _, _, _, _, a6⟩ := restart_nodeInv hnode (hR.rs.settled n rn hn) hD hsorted h0
    hid hpv has happ hle hrv hnew
  have A := a1.inv.abs
  have hsto : rn'.raft.log.storage.hardState.getD {} = rn.raft.log.storage.hardState.getD {} := by
    apply hardState_ext
    · rw [← a6.term, ← hD.term]
    · rw [← a6.vote, ← hD.vote]
    · rw [← a6.commit, ← hD.commit]
  refine ⟨?_, hsto⟩
  apply hardState_ext
  · show rn'.raft.term = _; rw [← A.term]; exact hD.term
  · show rn'.raft.vote = _; rw [← A.vote]; exact hD.vote
  · show rn'.raft.log.committed = _; rw [← A.commit]; exact hD.commit

theorem NodeStep.refl (rn : RawNode) : NodeStep rn rn := .loc (HSMono.refl _) rfl

/-- a `Step` run on the raft state of a node (with fresh draws) is a local node step -/
theorem nodeStep_of_step {rn : RawNode} {draws : List Nat} {m : Message} {e0 : Option StepErr} {r' : Raft}
    (hm : Raft.TermOK m)
    (hr : (Raft.step Raft.stepFuel m).run { rn.raft with draws := draws } = .ok (e0, r')) :
    NodeStep rn { rn with raft := r' } :=
  .loc (hsMono_withDraws (hsMono_step hm hr))
    (step_storage (r := ({ rn.raft with draws := draws } : Raft)) hr)

/-- **one environment step, seen from the nodes**: exactly one node `n` moves, by a `NodeStep` -/
theorem envstep_node {val : Val} {voters : List Id} {c c' : Cluster} {s : Spec.State}
    (hsorted : voters.Pairwise (· < ·)) (h0 : 0 ∉ voters) (hne : voters ≠ [])
    (hR : RSD val voters c s) (hstep : EnvStep c c') :
    ∃ n rn rn', c.nodes n = some rn ∧ c'.nodes n = some rn' ∧ (∀ k, k ≠ n → c'.nodes k = c.nodes k) ∧
      NodeStep rn rn' := by
  have hself : ∀ n rn', (c.setNode n rn').nodes n = some rn' := fun n rn' => by simp [Cluster.setNode]
  have hoth : ∀ n rn' k, k ≠ n → (c.setNode n rn').nodes k = c.nodes k := fun n rn' k hk => by
    simp [Cluster.setNode, hk]
  cases hstep with
  | deliver n rn rn' draws m e hn hm hto hc hrun =>
    refine ⟨n, rn, rn', hn, hself n rn', hoth n rn', ?_⟩
    rcases step_inv hrun with rfl | ⟨e0, r', hr, rfl⟩
    · exact NodeStep.refl _
    · exact nodeStep_of_step (covered_termOK hc (hR.rs.ra.base.net m hm)) hr
  | tick n rn rn' draws hn hrun =>
    refine ⟨n, rn, rn', hn, hself n rn', hoth n rn', ?_⟩
    obtain ⟨r', hr, rfl⟩ := tick_inv hrun
    exact .loc (hsMono_withDraws (hsMono_tick hr)) (tick_storage (r := ({ rn.raft with draws := draws } : Raft)) hr)
  | propose n rn rn' draws data e hn hrun =>
    refine ⟨n, rn, rn', hn, hself n rn', hoth n rn', ?_⟩
    obtain ⟨e0, r', hr, rfl⟩ := rstep_inv hrun
    exact nodeStep_of_step (fun _ hal => by rcases hal with h | h | h <;> cases h) hr
  | campaign n rn rn' draws e hn hrun =>
    refine ⟨n, rn, rn', hn, hself n rn', hoth n rn', ?_⟩
    obtain ⟨e0, r', hr, rfl⟩ := rstep_inv hrun
    exact nodeStep_of_step (fun _ hal => by rcases hal with h | h | h <;> cases h) hr
  | sync n rn rn' draws rd hn hrun =>
    refine ⟨n, rn, rn', hn, hself n rn', hoth n rn', ?_⟩
    have hnode := hR.rs.ra.base.nodes n rn hn
    exact .sync (syncRound_hsMono hnode (hR.rs.settled n rn hn) (hR.rs.prom n rn hn) hrun)
      (syncRound_stored hnode (hR.rs.settled n rn hn) (hR.dur n rn hn) hrun)
  | crash n rn rn' cfg draws hn hnv hid hpv has happ hnew =>
    refine ⟨n, rn, rn', hn, hself n rn', hoth n rn', ?_⟩
    obtain ⟨h1, h2⟩ := restart_hardState hsorted h0 hne hR hn hnv hid hpv has happ hnew
    exact .crash h1 h2

end RaftVerif.SimCorP
