import RaftVerif.Proofs.RefineStep
import RaftVerif.Proofs.RefineSend
import RaftVerif.Props.C06Local
import RaftVerif.Props.C17Quorum
import RaftVerif.Props.LocalStep
import RaftVerif.Proofs.LiveStep
import RaftVerif.Spec.QuorumInst
/-!
# Proofs/RefineLeader — the leader's actions: `becomeLeader`, `leaderCommit`, `leaderAppend`

* (f) a candidate stepping a MsgVoteResp of its term that makes it leader refines Spec
  `becomeLeader n q` followed by `leaderAppend n (val none none)` (the empty entry): `step_voteResp_leader_refine`,
  `becomeLeader_abs`, `becomeLeader_enabled`;
* (g) `leaderCommit` and (h) MsgProp are in `Proofs/RefineLeader2.lean`.
-/
namespace RaftVerif.Refine
open Raft
set_option linter.unusedSimpArgs false

/-! ### appending at the end of the log -/

/-- the log invariant used by `append_extends` / `leader_prop_appends_exactly` -/
theorem wf_last_succ {l : RaftLog} (h : l.WF) :
    l.lastIndex + 1 = l.unstable.offset + l.unstable.entries.length := by
  rw [RaftLog.lastIndex_abs h, RaftLog.abs_last_succ h]; rfl

/-- **appending at the end**: entries that carry the indexes `lastIndex + 1, lastIndex + 2, …` are appended to the
ghost log; the invariant, the base and the commit index are kept, the new last index is returned -/
theorem append_at_end (val : Val) {l : RaftLog} (hwf : l.WF) (hu : Uncompacted l) (ents : List Entry)
    (hc : Contig (l.lastIndex + 1) ents) {p : RaftLog × Nat} (h : l.append ents = .ok p) :
    p.1.WF ∧ Uncompacted p.1 ∧ p.1.committed = l.committed ∧ p.2 = l.lastIndex + ents.length ∧
    p.1.lastIndex = l.lastIndex + ents.length ∧
    absLogL val p.1 = absLogL val l ++ ents.map (absEnt val) := by
  cases ents with
  | nil =>
    rw [RaftLog.append_nil] at h
    injection h with h; subst h
    exact ⟨hwf, hu, rfl, rfl, rfl, by simp⟩
  | cons e0 rest =>
    have h0 : e0.index = l.lastIndex + 1 := (contig_cons.mp hc).1
    have hc' : Contig e0.index (e0 :: rest) := by rw [h0]; exact hc
    rcases C18.log_append hwf e0 rest hc' (by omega) with ⟨_, he⟩ | ⟨_, _, he⟩ | ⟨_, _, l', hok, hwf', habs, hli, hun, hst, hcm, _⟩
    · rw [he] at h; cases h
    · rw [he] at h; cases h
    · rw [hok] at h
      injection h with h; subst h
      have hb := ALog.overwrite_base l.abs (e0 :: rest)
      have hu' : Uncompacted l' := hu.of_abs (by rw [habs]; exact hb.1) (by rw [habs]; exact hb.2)
      refine ⟨hwf', hu', hcm, ?_, ?_, ?_⟩
      · simp only [List.length_cons]; omega
      · rw [hli]; simp only [List.length_cons]; omega
      · unfold absLogL
        rw [habs, ALog.overwrite_ents, List.map_append]
        congr 1
        rw [List.take_of_length_le]
        have := RaftLog.lastIndex_abs hwf
        rw [ALog.last, hu.base.1] at this
        rw [hu.base.1]
        omega

/-- the leader's acknowledgement of its own entries up to `index` -/
def leaderAck (s : Raft) (index : Nat) : Message :=
  { typ := .appResp, to := s.cfg.id, «from» := s.cfg.id, term := s.term, index := index }

/-- the entries `appendEntry` hands to the log are contiguous from `lastIndex + 1` -/
theorem cloned_contig (s : Raft) (es : List Entry) : Contig (s.log.lastIndex + 1) (cloned s es) := by
  intro k hk
  simp only [cloned, List.getElem_map, List.getElem_zipIdx]
  omega

theorem cloned_length (s : Raft) (es : List Entry) : (cloned s es).length = es.length := by
  simp [cloned]

/-- the ghost entries of a stamped proposal -/
theorem cloned_abs (val : Val) (s : Raft) (es : List Entry) :
    (cloned s es).map (absEnt val) = es.map (fun e => ({ term := s.term, val := val e.typ e.data } : Spec.Ent)) := by
  apply List.ext_getElem
  · simp [cloned]
  · intro i h1 h2
    simp only [cloned, List.getElem_map, List.getElem_zipIdx]
    rfl

/-- **`appendEntry`, refined**: refused and nothing changes, or the stamped entries are appended to the ghost log
and the self-acknowledgement for the new last index is queued in `msgsAfterAppend` -/
theorem appendEntry_refine (val : Val) (es : List Entry) (s : Raft) (hwf : s.log.WF) (hu : Uncompacted s.log) :
    Spec (appendEntry es) s (fun ok s' =>
      (ok = false ∧ s' = s) ∨
      (ok = true ∧ s'.log.WF ∧ Uncompacted s'.log ∧ s'.log.committed = s.log.committed ∧
        s'.log.lastIndex = s.log.lastIndex + es.length ∧
        absLog val s' = absLog val s ++ es.map (fun e => ({ term := s.term, val := val e.typ e.data } : Spec.Ent)) ∧
        s'.msgsAfterAppend = s.msgsAfterAppend ++ [leaderAck s ((absLog val s).length + es.length)] ∧
        ∃ l' u, s' = { s with log := l', uncommittedSize := u, msgsAfterAppend := s'.msgsAfterAppend })) := by
  refine (appendEntry_spec_st es s).mono ?_
  rintro ok s' (⟨rfl, rfl⟩ | ⟨rfl, p, hp, rfl⟩)
  · exact Or.inl ⟨rfl, rfl⟩
  · obtain ⟨h1, h2, h3, h4, h5, h6⟩ := append_at_end val hwf hu _ (cloned_contig s es) hp
    rw [cloned_length] at h4 h5
    rw [cloned_abs] at h6
    refine Or.inr ⟨rfl, h1, h2, h3, h5, h6, ?_, _, _, rfl⟩
    simp only [stamped_appResp, leaderAck, absLog, absLogL_length_eq val hwf hu, h4]

/-! ### (f) `becomeLeader` -/

/-- what `becomeLeader` does, in the Spec's terms -/
structure LeaderPost (val : Val) (s s' : Raft) : Prop where
  notFollower : s.state ≠ .follower
  term : s'.term = s.term
  vote : s'.vote = s.vote
  lead : s'.lead = s.cfg.id
  state : s'.state = .leader
  cfg : s'.cfg = s.cfg
  trkCfg : s'.trk.cfg = s.trk.cfg
  msgs : s'.msgs = s.msgs
  commit : s'.log.committed = s.log.committed
  wf : s'.log.WF
  unc : Uncompacted s'.log
  log : absLog val s' = absLog val s ++ [{ term := s.term, val := val none none }]
  maa : s'.msgsAfterAppend = s.msgsAfterAppend ++ [leaderAck s ((absLog val s).length + 1)]

/-- **`becomeLeader()`, refined**: same term, same vote, same commit index; the empty entry of the
node's term is appended to the ghost log and acknowledged to itself through `msgsAfterAppend` -/
theorem becomeLeader_refine (val : Val) (s : Raft) (hwf : s.log.WF) (hu : Uncompacted s.log) :
    Spec becomeLeader s (fun _ s' => LeaderPost val s s') := by
  unfold becomeLeader
  simp only [wp]
  refine ⟨fun _ => trivial, fun hne => ?_⟩
  have hne' : s.state ≠ .follower := by
    intro h; rw [h] at hne; exact hne rfl
  refine (reset_spec_st s.term s).mono ?_
  intro _ mid ⟨h1, h2, _, _, h3, h4, h5, h6, h7, _⟩
  simp only [if_true] at h2
  intro pr _
  refine (appendEntry_refine val _ _ (by rw [show _ = mid.log from rfl, h3]; exact hwf)
    (by rw [show _ = mid.log from rfl, h3]; exact hu)).mono ?_
  rintro ok s' (⟨rfl, rfl⟩ | ⟨rfl, a1, a2, a3, a4, a5, a6, l', u, hs'⟩)
  · exact ⟨fun _ => trivial, fun h => absurd h (by simp)⟩
  · refine ⟨fun h => absurd h (by simp), fun _ => ?_⟩
    simp only [absLog, leaderAck, h1, h3, h4, h6, List.map_cons, List.map_nil, List.length_cons, List.length_nil] at a3 a5 a6
    refine ⟨hne', ?_, ?_, ?_, ?_, ?_, ?_, ?_, a3, a1, a2, a5, a6⟩
    · rw [hs']; exact h1
    · rw [hs']; exact h2
    · rw [hs']; exact h4 ▸ rfl
    · rw [hs']
    · rw [hs']; exact h4
    · rw [hs']; exact h7
    · rw [hs']; exact h5

/-- `msgsAfterAppend` is what it was -/
def MaaE (s s' : Raft) : Prop := s'.msgsAfterAppend = s.msgsAfterAppend

instance : RelOK MaaE where
  refl _ := rfl
  trans h1 h2 := Eq.trans h2 h1

macro_rules | `(tactic| rel_fields) => `(tactic| exact (rfl : MaaE _ _))

theorem maybeSendAppend_maae (to : Id) (b : Bool) (s : Raft) :
    Spec (maybeSendAppend to b) s (fun _ s' => MaaE s s') := by
  rw [Spec.iff_runs]
  intro res s' h
  obtain ⟨pr, _, h1 | ⟨_, _, _, h2⟩ | ⟨_, _, _, pt, ents, pr', _, _, _, _, _, h2⟩⟩ :=
    maybeSendAppend_outcome to b s s' res h
  · rw [h1.2]; exact RelOK.refl _
  · rw [h2]; rfl
  · rw [h2]; rfl

/-- `bcastAppend` only sends MsgApp / MsgSnap: the queue of withheld messages is untouched -/
theorem bcastAppend_maae (s : Raft) : Spec bcastAppend s (fun _ s' => MaaE s s') := by
  unfold bcastAppend
  rel_start
  wp_auto [first | rel_call (maybeSendAppend_maae ..) | rel_loop MaaE]

/-- the state after `poll` -/
def polled (s : Raft) (m : Message) : Raft := { s with trk := tallyAfter s m }

/-- **a candidate's MsgVoteResp that makes it leader**: the tally after recording the vote is `won`, the
node's own vote is recorded, and the new state is that of `becomeLeader` (run after the vote was
recorded) followed by `bcastAppend` -/
theorem stepCandidate_voteResp_leader (fuel : Nat) (m : Message) (s : Raft) (hs : s.state = .candidate)
    (ht : m.typ = .voteResp) :
    Spec (stepCandidate fuel m) s (fun e s' => s'.state = .leader →
      e = none ∧ (tallyAfter s m).tallyVotes.2.2 = .won ∧ (mapGet (tallyAfter s m).votes s.cfg.id).isSome = true ∧
      ∃ s1, becomeLeader.run (polled s m) = .ok ((), s1) ∧ SendFrame s1 s' ∧ MaaE s1 s' ∧
        bcastAppend.run s1 = .ok ((), s')) := by
  obtain ⟨typ, to, frm, term, logTerm, index, entries, commit, vote, snapshot, reject, rejectHint, context, responses⟩ := m
  simp only at ht
  subst ht
  rw [stepCandidate]
  have hpc : (s.state == Role.preCandidate) = false := by rw [hs]; rfl
  simp only [wp, hpc, Bool.false_and, Bool.false_eq_true, if_false, beq_self_eq_true, true_implies,
    not_true_eq_false, false_implies, and_true, not_false_eq_true, ↓reduceIte]
  refine ⟨trivial, ?_⟩
  have hc : ∀ x : Raft, x.state = .candidate → x.state ≠ .leader := fun x h => by rw [h]; intro h; cases h
  split
  · rename_i hwon
    simp only [wp]
    refine ⟨fun _ hl => absurd hl (hc _ hs), fun hown => ?_⟩
    refine (Spec.runs becomeLeader _).mono (fun _ s1 hrun => ?_)
    refine (((bcastAppend_sf s1).and (bcastAppend_maae s1)).and (Spec.runs bcastAppend s1)).mono (fun _ s' hf => ?_)
    intro _
    refine ⟨trivial, hwon, ?_, s1, hrun, hf.1.1, hf.1.2, hf.2⟩
    cases ho : mapGet (s.trk.recordVote frm !reject).votes s.cfg.id with
    | none => rw [ho] at hown; simp at hown
    | some v => simp [tallyAfter, ho]
  · simp only [wp]
    refine (becomeFollower_spec _ _ _).mono (fun _ mid h => ?_)
    intro hl; rw [h.2.2.2.1] at hl; cases hl
  · simp only [wp]
    exact fun hl => absurd hl (hc _ hs)

/-! ### quorums -/

/-- counting the members of `c ⊆ all` that pass the filter `p` on `all` is counting those that satisfy `p` -/
theorem countP_filter_contains (c all : List Id) (p : Id → Bool) (hsub : ∀ x ∈ c, x ∈ all) :
    c.countP (fun id => (all.filter p).contains id) = c.countP p := by
  apply List.countP_congr
  intro x hx
  simp only [List.contains_eq_mem, List.mem_filter, decide_eq_true_eq]
  exact ⟨fun h => h.2, fun h => ⟨hsub x hx, h⟩⟩

/-- the voters (of either half of the configuration) whose recorded vote is a grant -/
def grantedBy (t : Tracker) : List Id :=
  (t.cfg.voters ++ t.outgoingL).filter (fun id => mapGet t.votes id == some true)

theorem mem_grantedBy {t : Tracker} {v : Id} :
    v ∈ grantedBy t ↔ (v ∈ t.cfg.voters ∨ v ∈ t.outgoingL) ∧ mapGet t.votes v = some true := by
  simp only [grantedBy, List.mem_filter, List.mem_append, beq_iff_eq]

/-- **a `won` tally is a Spec quorum**: the recorded grants are a strict majority of every voter set -/
theorem won_isQuorum (t : Tracker) (h : t.tallyVotes.2.2 = .won) :
    (Spec.jointCfg t.cfg.voters t.outgoingL).isQuorum (grantedBy t) = true := by
  obtain ⟨h0, h1⟩ := C17Q.won_tally_majorities t h
  rw [Spec.jointCfg_isQuorum_iff]
  unfold Quorum.yesCount at h0 h1
  unfold grantedBy
  rw [countP_filter_contains _ _ _ (fun x hx => List.mem_append_left _ hx),
    countP_filter_contains _ _ _ (fun x hx => List.mem_append_right _ hx)]
  exact ⟨h0, h1⟩

theorem recordVote_cfg (t : Tracker) (id : Id) (v : Bool) : (t.recordVote id v).cfg = t.cfg := by
  unfold Tracker.recordVote; split <;> rfl

theorem tallyAfter_cfg (r : Raft) (m : Message) :
    (tallyAfter r m).cfg.voters = r.trk.cfg.voters ∧ (tallyAfter r m).outgoingL = r.trk.outgoingL := by
  unfold tallyAfter Tracker.outgoingL
  rw [recordVote_cfg]; exact ⟨rfl, rfl⟩

/-- the quorum of a winning MsgVoteResp, spelled out over the node's configuration -/
theorem grantedBy_tallyAfter (r : Raft) (m : Message) :
    grantedBy (tallyAfter r m) =
      (r.trk.cfg.voters ++ r.trk.outgoingL).filter (fun id => mapGet (tallyAfter r m).votes id == some true) := by
  obtain ⟨c0, c1⟩ := tallyAfter_cfg r m
  unfold grantedBy
  rw [c0, c1]

/-- what a candidate's winning MsgVoteResp does -/
structure WonPost (val : Val) (r : Raft) (m : Message) (r' : Raft) : Prop where
  /-- the joint tally after recording `m.from ↦ ¬m.reject` is `won` -/
  won : (tallyAfter r m).tallyVotes.2.2 = .won
  /-- the recorded grants are a quorum of the node's configuration -/
  quorum : (Spec.jointCfg r.trk.cfg.voters r.trk.outgoingL).isQuorum (grantedBy (tallyAfter r m)) = true
  /-- the node's own vote (released only once its HardState is durable) is recorded -/
  ownVote : (mapGet (tallyAfter r m).votes r.cfg.id).isSome = true
  term : r'.term = r.term
  vote : r'.vote = r.vote
  commit : r'.log.committed = r.log.committed
  lead : r'.lead = r.cfg.id
  state : r'.state = .leader
  cfg : r'.cfg = r.cfg
  trkCfg : r'.trk.cfg = r.trk.cfg
  wf : r'.log.WF
  unc : Uncompacted r'.log
  /-- the empty entry of the node's term is appended -/
  log : absLog val r' = absLog val r ++ [{ term := r.term, val := val none none }]
  /-- exactly one promise is queued: the self-acknowledgement of the new entry -/
  maa : r'.msgsAfterAppend = r.msgsAfterAppend ++ [leaderAck r ((absLog val r).length + 1)]
  /-- `bcastAppend` queues non-promise messages only -/
  msgs : ListExt (fun x => isPromise x.typ = false) r.msgs r'.msgs
  /-- more precisely: snapshots, and MsgApp that are Spec `sendApp` messages of the **new** log -/
  sends : ∃ added, r'.msgs = r.msgs ++ added ∧ ∀ x ∈ added, x.typ = .snap ∨ SendAppOK val r' x

/-- **(f)** a candidate steps a MsgVoteResp of its own term (or a local one) and comes out as leader -/
theorem step_voteResp_leader_refine (val : Val) (fuel : Nat) (m : Message) (r r' : Raft) (e : Option StepErr)
    (ht : m.typ = .voteResp) (hterm : m.term = 0 ∨ m.term = r.term) (hs : r.state = .candidate)
    (hwf : r.log.WF) (hu : Uncompacted r.log)
    (h : (step (fuel + 1) m).run r = .ok (e, r')) (hl : r'.state = .leader) :
    e = none ∧ WonPost val r m r' := by
  rw [step_same_term_dispatch fuel m r hterm (by rw [ht]; decide)] at h
  have hd : dispatch fuel m r = stepCandidate fuel m := by unfold dispatch; rw [hs]
  rw [hd] at h
  obtain ⟨he, hwon, hown, s1, hrun, hsf, hmaa, hbc⟩ := (stepCandidate_voteResp_leader fuel m r hs ht).elim h hl
  have hp := (becomeLeader_refine val (polled r m) hwf hu).elim hrun
  obtain ⟨c0, c1⟩ := tallyAfter_cfg r m
  have hq := won_isQuorum _ hwon
  rw [c0, c1] at hq
  refine ⟨he, hwon, hq, hown, ?_, ?_, ?_, ?_, ?_, ?_, ?_, ?_, ?_, ?_, ?_, ?_, ?_⟩
  · rw [hsf.term]; exact hp.term
  · rw [hsf.vote]; exact hp.vote
  · rw [hsf.log]; exact hp.commit
  · rw [hsf.lead]; exact hp.lead
  · exact hl
  · rw [hsf.cfg]; exact hp.cfg
  · rw [hsf.trkCfg, hp.trkCfg]; exact recordVote_cfg _ _ _
  · rw [hsf.log]; exact hp.wf
  · rw [hsf.log]; exact hp.unc
  · have : absLog val r' = absLog val s1 := by unfold absLog; rw [hsf.log]
    rw [this]; exact hp.log
  · rw [hmaa]; exact hp.maa
  · have := hsf.msgs
    rw [hp.msgs] at this
    exact this
  · obtain ⟨b1, b2, b3, _, _, added, b6, b7⟩ := (bcastAppend_sendsOK val s1 hp.wf hp.unc).elim hbc
    refine ⟨added, by rw [b6, hp.msgs]; rfl, fun x hx => (b7 x hx).imp id (fun hok => ?_)⟩
    exact hok.congr b1.symm b2.symm b3.symm

/-- if the recorded own vote is a grant and the node is a voter, it is a member of the quorum -/
theorem own_mem_grantedBy {r : Raft} {m : Message} (hv : mapGet (tallyAfter r m).votes r.cfg.id = some true)
    (hmem : r.cfg.id ∈ r.trk.cfg.voters ∨ r.cfg.id ∈ r.trk.outgoingL) : r.cfg.id ∈ grantedBy (tallyAfter r m) := by
  obtain ⟨c0, c1⟩ := tallyAfter_cfg r m
  rw [mem_grantedBy, c0, c1]
  exact ⟨hmem, hv⟩

/-! ### (f) the Spec side -/

theorem becomeLeader_nodes (s : Spec.State) (n : Nat) (q : List Nat) :
    (Spec.apply s (.becomeLeader n q)).nodes n = { (s.nodes n) with role := .leader } := by
  simp [Spec.apply, Spec.setNode]

theorem leaderAppend_nodes (s : Spec.State) (n v : Nat) :
    (Spec.apply s (.leaderAppend n v)).nodes n =
      { (s.nodes n) with
        vol := { (s.nodes n).vol with
          log := (s.nodes n).vol.log ++ [({ term := (s.nodes n).vol.term, val := v } : Spec.Ent)],
          acks := ((s.nodes n).vol.term, (s.nodes n).vol.log.length + 1) ::
            (s.nodes n).vol.acks } } := by
  simp [Spec.apply, Spec.setNode]

/-- the new leader's state is described by Spec `becomeLeader n q` followed by `leaderAppend n (val none none)`;
only term, vote, commit index, ghost log and role of the new state are used -/
theorem becomeLeader_abs (val : Val) {r r' : Raft} {s : Spec.State} {n : Nat} (q : List Nat)
    (ha : Abs val r (s.nodes n)) (hterm : r'.term = r.term) (hvote : r'.vote = r.vote)
    (hcommit : r'.log.committed = r.log.committed) (hstate : r'.state = .leader)
    (hlog : absLog val r' = absLog val r ++ [{ term := r.term, val := val none none }]) :
    Abs val r' ((Spec.apply (Spec.apply s (.becomeLeader n q)) (.leaderAppend n (val none none))).nodes n) := by
  rw [leaderAppend_nodes, becomeLeader_nodes]
  refine ⟨?_, ?_, ?_, ?_, ?_⟩
  · simp only; rw [hterm]; exact ha.term
  · simp only; rw [hvote]; exact ha.vote
  · simp only; rw [hcommit]; exact ha.commit
  · simp only; rw [hlog, ha.log, ha.term]
  · simp only [hstate, absRole]

theorem WonPost.abs {val : Val} {r r' : Raft} {m : Message} {s : Spec.State} {n : Nat} (q : List Nat)
    (hp : WonPost val r m r') (ha : Abs val r (s.nodes n)) :
    Abs val r' ((Spec.apply (Spec.apply s (.becomeLeader n q)) (.leaderAppend n (val none none))).nodes n) :=
  becomeLeader_abs val q ha hp.term hp.vote hp.commit hp.state hp.log

/-- the promise the leader's self-acknowledgement carries is the one Spec `leaderAppend` records -/
theorem becomeLeader_ack (val : Val) {r : Raft} {s : Spec.State} {n : Nat} (q : List Nat)
    (ha : Abs val r (s.nodes n)) :
    ((Spec.apply (Spec.apply s (.becomeLeader n q)) (.leaderAppend n (val none none))).nodes n).vol.acks =
      ((leaderAck r ((absLog val r).length + 1)).term, (leaderAck r ((absLog val r).length + 1)).index) ::
        (s.nodes n).vol.acks := by
  rw [leaderAppend_nodes, becomeLeader_nodes]
  simp only [leaderAck, List.length_append, List.length_cons, List.length_nil, ha.term, ha.log]

/-- the guard of Spec `becomeLeader n q`: role and quorum come from the model step, the rest — the own vote is
durable, the log covers the vote requests of this candidacy, every other member of `q` released its vote —
are facts about the environment -/
theorem becomeLeader_enabled (val : Val) (cfg : Spec.Cfg) {r : Raft} {s : Spec.State} {n : Nat} {q : List Nat}
    (ha : Abs val r (s.nodes n)) (hs : r.state = .candidate) (hq : cfg.isQuorum q = true)
    (hdur : (r.term, n) ∈ (s.nodes n).dur.votes)
    (hcov : Spec.reqVotesCovered s.msgs r.term n (absLog val r) = true)
    (hsoup : ∀ v ∈ q, v = n ∨ Spec.Msg.vote r.term v n ∈ s.msgs) :
    Spec.enabled cfg s (.becomeLeader n q) := by
  refine ⟨?_, hq, ?_, ?_, ?_⟩
  · rw [ha.role, hs]; rfl
  · rw [ha.term]; exact hdur
  · rw [ha.term, ha.log]; exact hcov
  · rw [ha.term]; exact hsoup

/-- local part of that guard alone -/
theorem becomeLeader_guard_local (val : Val) {r r' : Raft} {m : Message} {s : Spec.State} {n : Nat}
    (hp : WonPost val r m r') (ha : Abs val r (s.nodes n)) (hs : r.state = .candidate) :
    (s.nodes n).role = .candidate ∧
    (Spec.jointCfg r.trk.cfg.voters r.trk.outgoingL).isQuorum (grantedBy (tallyAfter r m)) = true :=
  ⟨by rw [ha.role, hs]; rfl, hp.quorum⟩

/-- after `becomeLeader` the node may append -/
theorem leaderAppend_enabled_after (cfg : Spec.Cfg) (s : Spec.State) (n : Nat) (q : List Nat) (v : Nat) :
    Spec.enabled cfg (Spec.apply s (.becomeLeader n q)) (.leaderAppend n v) := by
  show ((Spec.apply s (.becomeLeader n q)).nodes n).role = .leader
  rw [becomeLeader_nodes]

end RaftVerif.Refine
