import RaftVerif.Proofs.RefineStep
import RaftVerif.Proofs.NextCommit
/-!
# Proofs/RefineApp — MsgApp and MsgHeartbeat at the node's own term refine Spec `ackCommit` /
`handleApp` / `handleHb`

`handleAppendEntries` (raft.go:1780-1823) has three cases, in this order:
1. `m.Index < committed`                → acknowledge `committed`, nothing else            (Spec `ackCommit`)
2. `(m.Index, m.LogTerm)` matches the log → `maybeAppend`, acknowledge `m.Index + len(ents)` (Spec `handleApp`, `appendResult = some …`)
3. otherwise                              → reject with a hint, log untouched                (Spec `handleApp`, `appendResult = none`)
-/
namespace RaftVerif.Refine
open Raft
set_option linter.unusedSimpArgs false

/-- a MsgAppResp as `send` queues it -/
def appRespMsg (r : Raft) (to index : Nat) (reject : Bool) (hint lt : Nat) : Message :=
  { typ := .appResp, to := to, «from» := r.cfg.id, term := r.term, index := index, reject := reject,
    rejectHint := hint, logTerm := lt }

theorem send_appResp_spec (s : Raft) (to index : Nat) (reject : Bool) (hint lt : Nat) :
    Spec (send { typ := .appResp, to := to, index := index, reject := reject, rejectHint := hint, logTerm := lt }) s
      (fun _ s' => s' = { s with msgsAfterAppend := s.msgsAfterAppend ++ [appRespMsg s to index reject hint lt] }) := by
  refine (send_spec _ s).mono ?_
  rintro _ s' (⟨_, rfl⟩ | ⟨hp, _⟩)
  · rw [stamped_appResp]; rfl
  · simp [isPromise] at hp

/-- nothing but the log and `msgsAfterAppend` changed -/
def OnlyLogMaa (s s' : Raft) : Prop :=
  s' = { s with log := s'.log, msgsAfterAppend := s'.msgsAfterAppend }

theorem OnlyLogMaa.fields {s s' : Raft} (h : OnlyLogMaa s s') :
    s'.cfg = s.cfg ∧ s'.term = s.term ∧ s'.vote = s.vote ∧ s'.state = s.state ∧ s'.lead = s.lead ∧
    s'.msgs = s.msgs ∧ s'.trk = s.trk := by
  unfold OnlyLogMaa at h
  refine ⟨?_, ?_, ?_, ?_, ?_, ?_, ?_⟩ <;> rw [h]

/-- case 1: the append lies (partly) below the commit index -/
def AppStale (s : Raft) (m : Message) (s' : Raft) : Prop :=
  m.index < s.log.committed ∧ s'.log = s.log ∧
  s'.msgsAfterAppend = s.msgsAfterAppend ++ [appRespMsg s m.from s.log.committed false 0 0]

/-- case 3: `(m.index, m.logTerm)` is not in the log -/
def AppReject (val : Val) (s : Raft) (m : Message) (s' : Raft) : Prop :=
  s.log.committed ≤ m.index ∧ (absLog val s).termAt m.index ≠ some m.logTerm ∧ s'.log = s.log ∧
  Spec.appendResult (absLog val s) m.index m.logTerm (m.entries.map (absEnt val)) = none ∧
  s'.msgsAfterAppend = s.msgsAfterAppend ++
    [appRespMsg s m.from m.index true
      (s.log.findConflictByTerm (min m.index s.log.lastIndex) m.logTerm).1
      (s.log.findConflictByTerm (min m.index s.log.lastIndex) m.logTerm).2]

/-- case 2: the append is accepted -/
def AppAccept (val : Val) (s : Raft) (m : Message) (s' : Raft) : Prop :=
  s.log.committed ≤ m.index ∧ (absLog val s).termAt m.index = some m.logTerm ∧
  Spec.appendResult (absLog val s) m.index m.logTerm (m.entries.map (absEnt val)) = some (absLog val s') ∧
  Spec.keepsCommitted (absLog val s) m.index m.logTerm (m.entries.map (absEnt val)) s.log.committed = true ∧
  s'.log.committed = max s.log.committed (min m.commit (m.index + m.entries.length)) ∧
  s'.log.WF ∧ Uncompacted s'.log ∧
  s'.msgsAfterAppend = s.msgsAfterAppend ++ [appRespMsg s m.from (m.index + m.entries.length) false 0 0]

/-- the ghost log is not affected by `committed` -/
theorem absLogL_committed (val : Val) (l : RaftLog) (c : Nat) :
    absLogL val { l with committed := c } = absLogL val l := rfl

theorem WF_committed_max {l : RaftLog} (h : l.WF) (c : Nat) (hc : c ≤ l.abs.last) :
    ({ l with committed := max l.committed c } : RaftLog).WF := by
  have hli := RaftLog.lastIndex_abs h
  have := h.committedLeLast
  obtain ⟨h1, h2, h3, h4, h5, h6, h7⟩ := h
  refine ⟨h1, h2, ?_, h4, ?_, ?_, h7⟩
  · unfold RaftLog.SnapOK at h3 ⊢
    simp only
    split
    · rename_i sn hsn
      rw [hsn] at h3
      simp only at h3
      exact Nat.le_trans h3 (Nat.le_max_left _ _)
    · rename_i hsn
      rw [hsn] at h3
      exact h3
  · exact Nat.le_trans h5 (Nat.le_max_left _ _)
  · show max l.committed c ≤ RaftLog.lastIndex _
    have : RaftLog.lastIndex { l with committed := max l.committed c } = l.lastIndex := rfl
    rw [this, hli]
    exact Nat.max_le.mpr ⟨by rw [← hli]; exact h6, hc⟩

/-- **`handleAppendEntries`, exactly** (well-formed uncompacted log, contiguous entries) -/
theorem handleAppendEntries_refine (val : Val) (m : Message) (s : Raft) (hwf : s.log.WF) (hu : Uncompacted s.log)
    (hc : Contig (m.index + 1) m.entries) :
    Spec (handleAppendEntries m) s (fun _ s' =>
      OnlyLogMaa s s' ∧ (AppStale s m s' ∨ AppReject val s m s' ∨ AppAccept val s m s')) := by
  unfold handleAppendEntries
  simp only [wp]
  refine ⟨fun hlt => ?_, fun hge p hp => ?_⟩
  · refine (send_appResp_spec s _ _ _ _ _).mono ?_
    rintro _ s' rfl
    exact ⟨rfl, Or.inl ⟨hlt, rfl, rfl⟩⟩
  · obtain ⟨l', res⟩ := p
    have hge' : s.log.committed ≤ m.index := Nat.le_of_not_lt hge
    have hb := hu.base
    rcases C18.log_maybeAppend hwf ⟨m.logTerm, m.index⟩ m.entries m.commit hc with
      ⟨hnm, heq⟩ | ⟨hm, ⟨hall, heq, hlast⟩ | ⟨pre, e, post, hents, hpre, hne, ⟨_, heq⟩ | ⟨hce, l2, heq, hwf2, habs2, hlast2, hcom2, hst2, _, _, _⟩⟩⟩
    · -- rejected
      rw [heq] at hp
      injection hp with hp; injection hp with h1 h2
      subst h1; subst h2
      simp only [wp]
      refine (send_appResp_spec _ _ _ _ _ _).mono ?_
      rintro _ s' rfl
      have hnm' : (absLog val s).termAt m.index ≠ some m.logTerm := by
        rw [absLog, absLogL_termAt val hu]; exact hnm
      exact ⟨rfl, Or.inr (Or.inl ⟨hge', hnm', rfl, appendResult_nomatch _ _ _ _ hnm', rfl⟩)⟩
    · -- accepted, nothing to append
      rw [heq] at hp
      injection hp with hp; injection hp with h1 h2
      subst h1; subst h2
      simp only [wp]
      refine (send_appResp_spec _ _ _ _ _ _).mono ?_
      rintro _ s' rfl
      have hm' : (absLog val s).termAt m.index = some m.logTerm := by
        rw [absLog, absLogL_termAt val hu]; exact hm
      have hall' : ∀ x ∈ m.entries, (absLog val s).termAt x.index = some x.term :=
        fun x hx => (agrees_iff val hu x).1 (hall x hx)
      have har := appendResult_all val (absLog val s) m.index m.logTerm m.entries hm' hc hall'
      refine ⟨rfl, Or.inr (Or.inr ⟨hge', hm', har, keepsCommitted_of_same _ _ _ _ _ har, rfl, ?_, ?_, rfl⟩)⟩
      · exact WF_committed_max hwf _ (Nat.le_trans (Nat.min_le_right _ _) hlast)
      · exact hu.congr rfl rfl
    · -- conflict with a committed entry: panic
      rw [heq] at hp; cases hp
    · -- accepted, overwrite from `e.index`
      rw [heq] at hp
      injection hp with hp; injection hp with h1 h2
      subst h1; subst h2
      simp only [wp]
      refine (send_appResp_spec _ _ _ _ _ _).mono ?_
      rintro _ s' rfl
      have hm' : (absLog val s).termAt m.index = some m.logTerm := by
        rw [absLog, absLogL_termAt val hu]; exact hm
      have hpre' : ∀ x ∈ pre, (absLog val s).termAt x.index = some x.term :=
        fun x hx => (agrees_iff val hu x).1 (hpre x hx)
      have hne' : (absLog val s).termAt e.index ≠ some e.term :=
        fun h => hne ((agrees_iff val hu e).2 h)
      have hc' : Contig (m.index + 1) (pre ++ e :: post) := by rw [← hents]; exact hc
      have hei : e.index = (m.index + pre.length) + 1 := by
        have := (contig_cons.mp (contig_append.mp hc').2).1
        omega
      have hu2 : Uncompacted l2 :=
        hu.of_abs (by rw [habs2, (ALog.overwrite_base _ _).1]) (by rw [habs2, (ALog.overwrite_base _ _).2])
      have hlog2 : absLogL val l2 =
          (absLog val s).take (m.index + pre.length) ++ (e :: post).map (absEnt val) := by
        unfold absLogL
        rw [habs2]
        exact overwrite_ents_map val s.log.abs hb.1 e post _ hei
      have har := appendResult_conflict val (absLog val s) m.index m.logTerm pre e post hm' hc' hpre' hne'
      rw [← hents] at har
      have hcl : s.log.committed ≤ (absLog val s).length := by
        rw [absLog, absLogL_length_eq val hwf hu]; exact hwf.committedLeLast
      refine ⟨rfl, Or.inr (Or.inr ⟨hge', hm', ?_, ?_, hcom2, hwf2, hu2, rfl⟩)⟩
      · rw [har]; exact congrArg some hlog2.symm
      · exact keepsCommitted_of_take _ _ _ _ _ _ _ har (by omega) hcl

/-! ### MsgHeartbeat -/

/-- a MsgHeartbeatResp as `send` queues it -/
def hbRespMsg (r : Raft) (m : Message) : Message :=
  { typ := .heartbeatResp, to := m.from, «from» := r.cfg.id, term := r.term, context := m.context }

theorem stamped_hbResp (s : Raft) (m : Message) :
    stamped s { to := m.from, typ := .heartbeatResp, context := m.context } = hbRespMsg s m := by
  simp [stamped, hbRespMsg]

/-- **`handleHeartbeat`, exactly**: `committed := max committed m.commit` (a commit index beyond the log is a
panic, so on a successful run `m.commit ≤ lastIndex`), the log entries are untouched, a MsgHeartbeatResp
echoing the context goes to `msgs` -/
theorem handleHeartbeat_refine (m : Message) (s : Raft) (hwf : s.log.WF) :
    Spec (handleHeartbeat m) s (fun _ s' =>
      m.commit ≤ s.log.lastIndex ∧
      s' = { s with log := { s.log with committed := max s.log.committed m.commit },
                    msgs := s.msgs ++ [hbRespMsg s m] }) := by
  unfold handleHeartbeat
  simp only [wp]
  intro l' hl'
  rw [RaftLog.commitTo_eq] at hl'
  split at hl'
  · cases hl'
  · rename_i hnp
    injection hl' with hl'
    subst hl'
    refine (send_spec _ _).mono ?_
    rintro _ s' (⟨hp, _⟩ | ⟨_, rfl⟩)
    · simp [isPromise] at hp
    · refine ⟨?_, ?_⟩
      · have := hwf.committedLeLast
        by_cases h : s.log.committed < m.commit
        · exact Nat.le_of_not_lt (fun h2 => hnp ⟨h, h2⟩)
        · omega
      · rw [stamped_hbResp]; rfl

/-! ### lifting to `Step` -/

/-- `mid` is `r` as far as the handlers of MsgApp / MsgHeartbeat can see, and is a follower of `m.from` -/
structure FollowerView (r : Raft) (frm : Nat) (mid : Raft) : Prop where
  log : mid.log = r.log
  term : mid.term = r.term
  vote : mid.vote = r.vote
  cfg : mid.cfg = r.cfg
  msgs : mid.msgs = r.msgs
  maa : mid.msgsAfterAppend = r.msgsAfterAppend
  state : mid.state = .follower
  lead : mid.lead = frm

/-- a non-leader that steps a MsgApp / MsgHeartbeat of its own term first becomes (or stays) a follower
of the sender, keeping term, vote, log and queues, and then runs the handler -/
theorem step_applike_factors (fuel : Nat) (m : Message) (r r' : Raft) (e : Option StepErr)
    (handler : Message → M Unit)
    (hf : ∀ s, (stepFollower fuel m).run s =
      ((set { s with electionElapsed := 0, lead := m.from } : M PUnit) >>= fun _ => handler m >>= fun _ => pure none).run s)
    (hcd : ∀ s, (stepCandidate fuel m).run s =
      (becomeFollower m.term m.from >>= fun _ => handler m >>= fun _ => pure none).run s)
    (htd : Dispatched m.typ)
    (hterm : m.term = r.term) (hs : r.state ≠ .leader)
    (h : (step (fuel + 1) m).run r = .ok (e, r')) :
    e = none ∧ ∃ mid, FollowerView r m.from mid ∧ (handler m).run mid = .ok ((), r') := by
  rw [step_same_term_dispatch fuel m r (Or.inr hterm) htd] at h
  have hcand : (stepCandidate fuel m).run r = .ok (e, r') →
      e = none ∧ ∃ mid, FollowerView r m.from mid ∧ (handler m).run mid = .ok ((), r') := by
    intro h
    rw [hcd] at h
    obtain ⟨_, mid, h1, h2⟩ := bind_ok h
    obtain ⟨_, r2, h3, h4⟩ := bind_ok h2
    obtain ⟨rfl, rfl⟩ := pure_ok h4
    obtain ⟨a1, a2, a3, a4, a5, a6, a7, a8⟩ := (becomeFollower_spec _ _ r).elim h1
    rw [if_pos hterm.symm] at a2
    exact ⟨rfl, mid, ⟨a5, a1.trans hterm, a2, a6, a7, a8, a4, a3⟩, h3⟩
  unfold dispatch at h
  cases hst : r.state with
  | leader => exact absurd hst hs
  | candidate => rw [hst] at h; exact hcand h
  | preCandidate => rw [hst] at h; exact hcand h
  | follower =>
    rw [hst] at h
    simp only at h
    rw [hf] at h
    obtain ⟨_, mid, h1, h2⟩ := bind_ok h
    obtain ⟨_, r2, h3, h4⟩ := bind_ok h2
    obtain ⟨rfl, rfl⟩ := pure_ok h4
    have := set_ok h1
    subst this
    exact ⟨rfl, { r with electionElapsed := 0, lead := m.from }, ⟨rfl, rfl, rfl, rfl, rfl, rfl, hst, rfl⟩, h3⟩

theorem stepFollower_app_run (fuel : Nat) (m : Message) (ht : m.typ = .app) (s : Raft) :
    (stepFollower fuel m).run s =
      ((set { s with electionElapsed := 0, lead := m.from } : M PUnit) >>= fun _ =>
        handleAppendEntries m >>= fun _ => pure none).run s := by
  rw [stepFollower]
  simp only [ht, StateT.run_bind, StateT.run_get, P_pure_eq, P_ok_bind]

theorem stepCandidate_app_run (fuel : Nat) (m : Message) (ht : m.typ = .app) (s : Raft) :
    (stepCandidate fuel m).run s =
      (becomeFollower m.term m.from >>= fun _ => handleAppendEntries m >>= fun _ => pure none).run s := by
  rw [stepCandidate]
  simp only [ht, StateT.run_bind, StateT.run_get, P_pure_eq, P_ok_bind]

theorem stepFollower_hb_run (fuel : Nat) (m : Message) (ht : m.typ = .heartbeat) (s : Raft) :
    (stepFollower fuel m).run s =
      ((set { s with electionElapsed := 0, lead := m.from } : M PUnit) >>= fun _ =>
        handleHeartbeat m >>= fun _ => pure none).run s := by
  rw [stepFollower]
  simp only [ht, StateT.run_bind, StateT.run_get, P_pure_eq, P_ok_bind]

theorem stepCandidate_hb_run (fuel : Nat) (m : Message) (ht : m.typ = .heartbeat) (s : Raft) :
    (stepCandidate fuel m).run s =
      (becomeFollower m.term m.from >>= fun _ => handleHeartbeat m >>= fun _ => pure none).run s := by
  rw [stepCandidate]
  simp only [ht, StateT.run_bind, StateT.run_get, P_pure_eq, P_ok_bind]

/-- what `Step` of a same-term MsgApp / MsgHeartbeat at a non-leader leaves outside the log and the queues -/
structure FollowerFrame (r : Raft) (m : Message) (r' : Raft) : Prop where
  term : r'.term = r.term
  vote : r'.vote = r.vote
  cfg : r'.cfg = r.cfg
  state : r'.state = .follower
  lead : r'.lead = m.from

theorem appRespMsg_view {r mid : Raft} {frm : Nat} (hv : FollowerView r frm mid) (to index : Nat) (b : Bool)
    (hint lt : Nat) : appRespMsg mid to index b hint lt = appRespMsg r to index b hint lt := by
  unfold appRespMsg; rw [hv.cfg, hv.term]

theorem absLog_view (val : Val) {r mid : Raft} {frm : Nat} (hv : FollowerView r frm mid) :
    absLog val mid = absLog val r := by unfold absLog; rw [hv.log]

theorem AppStale.view {r mid s' : Raft} {frm : Nat} {m : Message} (hv : FollowerView r frm mid)
    (h : AppStale mid m s') : AppStale r m s' := by
  unfold AppStale at *
  rw [appRespMsg_view hv, hv.log, hv.maa] at h
  exact h

theorem AppReject.view {val : Val} {r mid s' : Raft} {frm : Nat} {m : Message} (hv : FollowerView r frm mid)
    (h : AppReject val mid m s') : AppReject val r m s' := by
  unfold AppReject at *
  rw [appRespMsg_view hv, absLog_view val hv, hv.log, hv.maa] at h
  exact h

theorem AppAccept.view {val : Val} {r mid s' : Raft} {frm : Nat} {m : Message} (hv : FollowerView r frm mid)
    (h : AppAccept val mid m s') : AppAccept val r m s' := by
  unfold AppAccept at *
  rw [appRespMsg_view hv, absLog_view val hv, hv.log, hv.maa] at h
  exact h

/-- **(c) MsgApp of the node's own term at a non-leader** -/
theorem step_app_refine (val : Val) (fuel : Nat) (m : Message) (r r' : Raft) (e : Option StepErr)
    (ht : m.typ = .app) (hterm : m.term = r.term) (hs : r.state ≠ .leader)
    (hwf : r.log.WF) (hu : Uncompacted r.log) (hc : Contig (m.index + 1) m.entries)
    (h : (step (fuel + 1) m).run r = .ok (e, r')) :
    e = none ∧ FollowerFrame r m r' ∧ r'.msgs = r.msgs ∧
    (AppStale r m r' ∨ AppReject val r m r' ∨ AppAccept val r m r') := by
  obtain ⟨he, mid, hv, hrun⟩ := step_applike_factors fuel m r r' e handleAppendEntries
    (stepFollower_app_run fuel m ht) (stepCandidate_app_run fuel m ht) (by rw [ht]; decide) hterm hs h
  have hwf' : mid.log.WF := by rw [hv.log]; exact hwf
  have hu' : Uncompacted mid.log := by rw [hv.log]; exact hu
  obtain ⟨hol, hcase⟩ := (handleAppendEntries_refine val m mid hwf' hu' hc).elim hrun
  obtain ⟨f1, f2, f3, f4, f5, f6, _⟩ := hol.fields
  refine ⟨he, ⟨f2.trans hv.term, f3.trans hv.vote, f1.trans hv.cfg, f4.trans hv.state, f5.trans hv.lead⟩,
    f6.trans hv.msgs, ?_⟩
  rcases hcase with h1 | h1 | h1
  · exact Or.inl (h1.view hv)
  · exact Or.inr (Or.inl (h1.view hv))
  · exact Or.inr (Or.inr (h1.view hv))

/-- **(d) MsgHeartbeat of the node's own term at a non-leader**: the run succeeds only if
`m.commit ≤ lastIndex` (otherwise `commitTo` panics, `C06L.follower_heartbeat_commit_panics`); then
`committed := max committed m.commit`, the log entries are untouched, the response goes to `msgs` -/
theorem step_hb_refine (fuel : Nat) (m : Message) (r r' : Raft) (e : Option StepErr)
    (ht : m.typ = .heartbeat) (hterm : m.term = r.term) (hs : r.state ≠ .leader) (hwf : r.log.WF)
    (h : (step (fuel + 1) m).run r = .ok (e, r')) :
    e = none ∧ FollowerFrame r m r' ∧ m.commit ≤ r.log.lastIndex ∧
    r'.log = { r.log with committed := max r.log.committed m.commit } ∧
    r'.msgs = r.msgs ++ [hbRespMsg r m] ∧ r'.msgsAfterAppend = r.msgsAfterAppend := by
  obtain ⟨he, mid, hv, hrun⟩ := step_applike_factors fuel m r r' e handleHeartbeat
    (stepFollower_hb_run fuel m ht) (stepCandidate_hb_run fuel m ht) (by rw [ht]; decide) hterm hs h
  have hwf' : mid.log.WF := by rw [hv.log]; exact hwf
  obtain ⟨h1, rfl⟩ := (handleHeartbeat_refine m mid hwf').elim hrun
  refine ⟨he, ⟨hv.term, hv.vote, hv.cfg, hv.state, hv.lead⟩, by rw [← hv.log]; exact h1, ?_, ?_, hv.maa⟩
  · show ({ mid.log with committed := max mid.log.committed m.commit } : RaftLog) = _
    rw [hv.log]
  · show mid.msgs ++ [hbRespMsg mid m] = _
    rw [hv.msgs]; unfold hbRespMsg; rw [hv.cfg, hv.term]

/-! ### the Spec side -/

theorem ackCommit_nodes (s : Spec.State) (n t : Nat) :
    (Spec.apply s (.ackCommit n t)).nodes n =
      { (s.nodes n) with role := .follower,
                         vol := { (s.nodes n).vol with acks := (t, (s.nodes n).vol.commit) :: (s.nodes n).vol.acks } } := by
  simp [Spec.apply, Spec.setNode]

theorem handleApp_nodes_none (s : Spec.State) (n t prev pt : Nat) (ents : Spec.Log) (c : Nat)
    (h : Spec.appendResult (s.nodes n).vol.log prev pt ents = none) :
    (Spec.apply s (.handleApp n t prev pt ents c)).nodes n = { (s.nodes n) with role := .follower } := by
  simp [Spec.apply, h, Spec.setNode]

theorem handleApp_nodes_some (s : Spec.State) (n t prev pt : Nat) (ents : Spec.Log) (c : Nat) (lnew : Spec.Log)
    (h : Spec.appendResult (s.nodes n).vol.log prev pt ents = some lnew) :
    (Spec.apply s (.handleApp n t prev pt ents c)).nodes n =
      { (s.nodes n) with role := .follower,
                         vol := { (s.nodes n).vol with log := lnew,
                                                       commit := max (s.nodes n).vol.commit (min c (prev + ents.length)),
                                                       acks := (t, prev + ents.length) :: (s.nodes n).vol.acks } } := by
  simp [Spec.apply, h, Spec.setNode]

theorem handleHb_nodes (s : Spec.State) (n t c : Nat) :
    (Spec.apply s (.handleHb n t c)).nodes n =
      { (s.nodes n) with role := .follower,
                         vol := { (s.nodes n).vol with commit := max (s.nodes n).vol.commit c } } := by
  simp [Spec.apply, Spec.setNode]

section
variable (val : Val) {r r' : Raft} {m : Message} {s : Spec.State} {n : Nat}

/-- case 1 is Spec `ackCommit` -/
theorem appStale_abs (ha : Abs val r (s.nodes n)) (hf : FollowerFrame r m r') (h : AppStale r m r') :
    Abs val r' ((Spec.apply s (.ackCommit n r.term)).nodes n) := by
  rw [ackCommit_nodes]
  obtain ⟨_, hl, _⟩ := h
  refine ⟨by rw [hf.term]; exact ha.term, by rw [hf.vote]; exact ha.vote, by rw [hl]; exact ha.commit,
    by rw [absLog, hl]; exact ha.log, by rw [hf.state]; rfl⟩

/-- the local conjuncts of the guard of `ackCommit`; "an append or snapshot of this term is in the soup" is
the environment's -/
theorem ackCommit_enabled (cfg : Spec.Cfg) (ha : Abs val r (s.nodes n)) (hs : r.state ≠ .leader)
    (hsoup : Spec.hasAppOrSnap s.msgs r.term = true) : Spec.enabled cfg s (.ackCommit n r.term) :=
  ⟨ha.term.symm, by rw [ha.role]; exact absRole_ne_leader hs, hsoup⟩

/-- case 3 is Spec `handleApp` with `appendResult = none` -/
theorem appReject_abs (ha : Abs val r (s.nodes n)) (hf : FollowerFrame r m r') (h : AppReject val r m r') :
    Abs val r' ((Spec.apply s (.handleApp n r.term m.index m.logTerm (m.entries.map (absEnt val)) m.commit)).nodes n) := by
  obtain ⟨_, _, hl, hnone, _⟩ := h
  rw [handleApp_nodes_none _ _ _ _ _ _ _ (by rw [ha.log]; exact hnone)]
  refine ⟨by rw [hf.term]; exact ha.term, by rw [hf.vote]; exact ha.vote, by rw [hl]; exact ha.commit,
    by rw [absLog, hl]; exact ha.log, by rw [hf.state]; rfl⟩

/-- case 2 is Spec `handleApp` with `appendResult = some (absLog r')` -/
theorem appAccept_abs (ha : Abs val r (s.nodes n)) (hf : FollowerFrame r m r') (h : AppAccept val r m r') :
    Abs val r' ((Spec.apply s (.handleApp n r.term m.index m.logTerm (m.entries.map (absEnt val)) m.commit)).nodes n) := by
  obtain ⟨_, _, hres, _, hcom, _, _, _⟩ := h
  rw [handleApp_nodes_some _ _ _ _ _ _ _ _ (by rw [ha.log]; exact hres)]
  refine ⟨by rw [hf.term]; exact ha.term, by rw [hf.vote]; exact ha.vote, ?_, rfl, by rw [hf.state]; rfl⟩
  show max (s.nodes n).vol.commit (min m.commit (m.index + (m.entries.map (absEnt val)).length)) = _
  rw [hcom, ha.commit, List.length_map]

/-- the ack promise recorded by Spec `handleApp` is the `(term, index)` of the queued MsgAppResp -/
theorem appAccept_ack (ha : Abs val r (s.nodes n)) (h : AppAccept val r m r') :
    ((Spec.apply s (.handleApp n r.term m.index m.logTerm (m.entries.map (absEnt val)) m.commit)).nodes n).vol.acks =
      ((appRespMsg r m.from (m.index + m.entries.length) false 0 0).term,
       (appRespMsg r m.from (m.index + m.entries.length) false 0 0).index) :: (s.nodes n).vol.acks := by
  obtain ⟨_, _, hres, _⟩ := h
  rw [handleApp_nodes_some _ _ _ _ _ _ _ _ (by rw [ha.log]; exact hres)]
  simp [appRespMsg]

/-- the local conjuncts of the guard of `handleApp` (cases 2 and 3); "the append is in the soup" is the
environment's -/
theorem handleApp_enabled (cfg : Spec.Cfg) (ha : Abs val r (s.nodes n)) (hs : r.state ≠ .leader)
    (h : AppReject val r m r' ∨ AppAccept val r m r')
    (hsoup : Spec.Msg.app r.term m.index m.logTerm (m.entries.map (absEnt val)) m.commit ∈ s.msgs) :
    Spec.enabled cfg s (.handleApp n r.term m.index m.logTerm (m.entries.map (absEnt val)) m.commit) := by
  refine ⟨hsoup, ha.term.symm, by rw [ha.role]; exact absRole_ne_leader hs, ?_⟩
  rw [ha.log, ha.commit]
  rcases h with h | h
  · unfold Spec.keepsCommitted; rw [h.2.2.2.1]
  · exact h.2.2.2.1

/-- (d) is Spec `handleHb` -/
theorem hb_abs (ha : Abs val r (s.nodes n)) (hf : FollowerFrame r m r')
    (hl : r'.log = { r.log with committed := max r.log.committed m.commit }) :
    Abs val r' ((Spec.apply s (.handleHb n r.term m.commit)).nodes n) := by
  rw [handleHb_nodes]
  refine ⟨by rw [hf.term]; exact ha.term, by rw [hf.vote]; exact ha.vote, ?_, ?_, by rw [hf.state]; rfl⟩
  · show max (s.nodes n).vol.commit m.commit = r'.log.committed
    rw [hl, ha.commit]
  · show (s.nodes n).vol.log = absLog val r'
    rw [absLog, hl, absLogL_committed]; exact ha.log

/-- the local conjuncts of the guard of `handleHb`; "the heartbeat is in the soup" is the environment's -/
theorem handleHb_enabled (cfg : Spec.Cfg) (ha : Abs val r (s.nodes n)) (hs : r.state ≠ .leader)
    (hwf : r.log.WF) (hu : Uncompacted r.log) (hle : m.commit ≤ r.log.lastIndex)
    (hsoup : Spec.Msg.hb r.term n m.commit ∈ s.msgs) : Spec.enabled cfg s (.handleHb n r.term m.commit) := by
  refine ⟨hsoup, ha.term.symm, by rw [ha.role]; exact absRole_ne_leader hs, ?_⟩
  rw [ha.log, absLog, absLogL_length_eq val hwf hu]; exact hle

end

end RaftVerif.Refine
