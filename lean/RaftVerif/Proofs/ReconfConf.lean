import RaftVerif.Proofs.ReconfLogLemmas
/-!
# Configuration of a log prefix: `cfgAt`, configuration entries, chains of allowed transitions

Pure list lemmas, no protocol state.
-/
namespace RaftVerif.SpecR

/-- what one entry does to the configuration -/
def Ent.upd (e : Ent) (c : Conf) : Conf := match e.cfg with | some c' => c' | none => c

theorem cfgOf_cons (c0 : Conf) (e : Ent) (es : Log) : cfgOf c0 (e :: es) = cfgOf (e.upd c0) es := rfl

theorem cfgOf_snoc (c0 : Conf) (l : Log) (e : Ent) : cfgOf c0 (l ++ [e]) = e.upd (cfgOf c0 l) := by
  induction l generalizing c0 with
  | nil => rfl
  | cons a t ih => simp only [List.cons_append, cfgOf_cons]; exact ih _

theorem Log.at?_le {l : Log} {i : Nat} {e : Ent} (h : l.at? i = some e) : 1 ≤ i ∧ i ≤ l.length := by
  unfold Log.at? at h
  split at h
  · simp at h
  · have := (List.getElem?_eq_some_iff.mp h).1
    omega

theorem Log.at?_succ_of_lt {l : Log} {k : Nat} (h : k < l.length) : l.at? (k + 1) = some l[k] := by
  simp [Log.at?, h]

theorem Log.take_succ_eq {l : Log} {k : Nat} (h : k < l.length) :
    l.take (k + 1) = l.take k ++ [l[k]] := by
  rw [List.take_succ_eq_append_getElem h]

theorem cfgAt_zero (c0 : Conf) (l : Log) : l.cfgAt c0 0 = c0 := by simp [Log.cfgAt, cfgOf]

theorem cfgAt_succ (c0 : Conf) (l : Log) {k : Nat} (h : k < l.length) :
    l.cfgAt c0 (k + 1) = (l[k]).upd (l.cfgAt c0 k) := by
  unfold Log.cfgAt
  rw [Log.take_succ_eq h, cfgOf_snoc]

theorem cfgAt_ge_length (c0 : Conf) (l : Log) {k : Nat} (h : l.length ≤ k) :
    l.cfgAt c0 k = l.cfgAt c0 l.length := by
  unfold Log.cfgAt
  rw [List.take_of_length_le h, List.take_length]

theorem cfgAt_congr (c0 : Conf) {l l' : Log} {k : Nat} (h : l.take k = l'.take k) :
    l.cfgAt c0 k = l'.cfgAt c0 k := by
  unfold Log.cfgAt; rw [h]

theorem cfgAt_take (c0 : Conf) (l : Log) {k m : Nat} (h : k ≤ m) :
    Log.cfgAt c0 (l.take m) k = l.cfgAt c0 k := by
  apply cfgAt_congr
  rw [List.take_take, Nat.min_eq_left h]

theorem cfgAt_prefix (c0 : Conf) {l m : Log} (h : l <+: m) {k : Nat} (hk : k ≤ l.length) :
    m.cfgAt c0 k = l.cfgAt c0 k := by
  obtain ⟨r, rfl⟩ := h
  apply cfgAt_congr
  exact List.take_append_of_le_length hk

theorem isCfg_congr {l l' : Log} {i : Nat} (h : l.take i = l'.take i) : l.isCfg i ↔ l'.isCfg i := by
  unfold Log.isCfg; rw [Log.at?_congr h]

theorem isCfg_le {l : Log} {i : Nat} (h : l.isCfg i) : 1 ≤ i ∧ i ≤ l.length := by
  obtain ⟨e, he, _⟩ := h; exact Log.at?_le he

/-- no configuration entry with index in `(lo, hi]` -/
def NoCfgIn (l : Log) (lo hi : Nat) : Prop := ∀ i, lo < i → i ≤ hi → ¬ l.isCfg i

theorem NoCfgIn.mono {l : Log} {lo hi lo' hi' : Nat} (h : NoCfgIn l lo hi) (h1 : lo ≤ lo')
    (h2 : hi' ≤ hi) : NoCfgIn l lo' hi' := fun i hi1 hi2 => h i (by omega) (by omega)

theorem AtMostOneCfg.mono {l : Log} {lo hi lo' hi' : Nat} (h : AtMostOneCfg l lo hi) (h1 : lo ≤ lo')
    (h2 : hi' ≤ hi) : AtMostOneCfg l lo' hi' :=
  fun i j a b c => h i j (by omega) b (by omega)

theorem NoCfgIn.atMostOne {l : Log} {lo hi : Nat} (h : NoCfgIn l lo hi) : AtMostOneCfg l lo hi :=
  fun i _ a b c hi' _ => h i a (by omega) hi'

theorem cfgAt_step_noCfg (c0 : Conf) (l : Log) {k : Nat} (h : ¬ l.isCfg (k + 1)) :
    l.cfgAt c0 (k + 1) = l.cfgAt c0 k := by
  by_cases hk : k < l.length
  · rw [cfgAt_succ c0 l hk]
    unfold Ent.upd
    cases hc : (l[k]).cfg with
    | none => rfl
    | some c => exact absurd ⟨l[k], Log.at?_succ_of_lt hk, by simp [hc]⟩ h
  · rw [cfgAt_ge_length c0 l (by omega : l.length ≤ k + 1), cfgAt_ge_length c0 l (by omega : l.length ≤ k)]

theorem cfgAt_eq_of_noCfg (c0 : Conf) (l : Log) {k1 k2 : Nat} (hk : k1 ≤ k2) (h : NoCfgIn l k1 k2) :
    l.cfgAt c0 k2 = l.cfgAt c0 k1 := by
  induction k2 with
  | zero => have : k1 = 0 := by omega
            subst this; rfl
  | succ m ih =>
    by_cases hm : k1 = m + 1
    · subst hm; rfl
    · rw [cfgAt_step_noCfg c0 l (h (m + 1) (by omega) (Nat.le_refl _))]
      exact ih (by omega) (h.mono (Nat.le_refl _) (by omega))

theorem hasCfgIn_false {l : Log} {lo hi : Nat} (h : l.hasCfgIn lo hi = false) : NoCfgIn l lo hi := by
  intro i h1 h2 ⟨e, he, hc⟩
  have hb := Log.at?_le he
  unfold Log.hasCfgIn at h
  rw [List.any_eq_false] at h
  apply h e _ hc
  unfold Log.at? at he
  rw [if_neg (by omega)] at he
  have hlt : i - 1 < l.length := by omega
  rw [List.getElem?_eq_getElem hlt] at he
  have hee : l[i - 1] = e := by simpa using he
  rw [List.mem_iff_getElem]
  refine ⟨i - 1 - lo, ?_, ?_⟩
  · simp only [List.length_drop, List.length_take]; omega
  · simp only [List.getElem_drop, List.getElem_take]
    rw [← hee]; congr 1; omega

/-- equal or adjacent configurations -/
def Conf.near (c c' : Conf) : Prop := c = c' ∨ c.allowed c' = true ∨ c'.allowed c = true

theorem Conf.near_symm {c c' : Conf} (h : c.near c') : c'.near c := by
  rcases h with h | h | h
  · exact Or.inl h.symm
  · exact Or.inr (Or.inr h)
  · exact Or.inr (Or.inl h)

theorem CfgChain.prefix {c0 : Conf} {l m : Log} (h : CfgChain c0 m) (hp : l <+: m) : CfgChain c0 l := by
  intro k hk c hc
  have hk' : k < m.length := Nat.lt_of_lt_of_le hk hp.length_le
  have he : m[k] = l[k] := by
    obtain ⟨r, rfl⟩ := hp
    exact List.getElem_append_left hk
  rw [← cfgAt_prefix c0 hp (Nat.le_of_lt hk)]
  exact h k hk' c (he ▸ hc)

theorem CfgChain.step {c0 : Conf} {l : Log} (h : CfgChain c0 l) {k : Nat} (hk : k < l.length) :
    (l.cfgAt c0 k).near (l.cfgAt c0 (k + 1)) := by
  rw [cfgAt_succ c0 l hk]
  unfold Ent.upd
  cases hc : (l[k]).cfg with
  | none => exact Or.inl rfl
  | some c => exact Or.inr (Or.inl (h k hk c hc))

theorem near_of_atMostOne {c0 : Conf} {l : Log} (hch : CfgChain c0 l) {k1 k2 : Nat} (hk : k1 ≤ k2)
    (h : AtMostOneCfg l k1 k2) : (l.cfgAt c0 k1).near (l.cfgAt c0 k2) := by
  by_cases hno : NoCfgIn l k1 k2
  · exact Or.inl (cfgAt_eq_of_noCfg c0 l hk hno).symm
  · have : ∃ i, k1 < i ∧ i ≤ k2 ∧ l.isCfg i := by
      apply Classical.byContradiction
      intro hne
      apply hno
      intro i h1 h2 hc
      exact hne ⟨i, h1, h2, hc⟩
    obtain ⟨i, h1, h2, hc⟩ := this
    have hlo : NoCfgIn l k1 (i - 1) := fun j a b hj => h j i a (by omega) h2 hj hc
    have hhi : NoCfgIn l i k2 := fun j a b hj => h i j h1 a b hc hj
    have hb := isCfg_le hc
    rw [cfgAt_eq_of_noCfg c0 l h2 hhi, ← cfgAt_eq_of_noCfg c0 l (by omega : k1 ≤ i - 1) hlo]
    have := hch.step (k := i - 1) (by omega)
    rwa [show i - 1 + 1 = i by omega] at this

/-- two indexes with at most one configuration entry above each of them (up to a common bound) have
equal or adjacent configurations -/
theorem near_of_atMostOne_both {c0 : Conf} {l : Log} (hch : CfgChain c0 l) {k1 k2 m : Nat}
    (h1 : AtMostOneCfg l k1 m) (h2 : AtMostOneCfg l k2 m) (hk1 : k1 ≤ m) (hk2 : k2 ≤ m) :
    (l.cfgAt c0 k1).near (l.cfgAt c0 k2) := by
  rcases Nat.le_total k1 k2 with h | h
  · exact near_of_atMostOne hch h (h1.mono (Nat.le_refl _) hk2)
  · exact Conf.near_symm (near_of_atMostOne hch h (h2.mono (Nat.le_refl _) hk1))

end RaftVerif.SpecR
