import RaftVerif.Proofs.NoPanicRaw
/-!
# Proofs/NoPanicSend — the append-sending functions of a leader never throw

`maybeSendAppend`, `sendAppend`, `sendAppendLoop`, `bcastAppend` (Model/Raft.lean) cannot throw when every tracked
`Progress` has `1 ≤ next ≤ lastIndex + 1` (`ProgOK`) on a well-formed, uncompacted log, and they keep `ProgOK`.
-/
namespace RaftVerif.NoPanicP
open Raft C14 Sim Refine
set_option linter.unusedSimpArgs false

/-- every tracked progress points into the log: `1 ≤ next ≤ lastIndex + 1` -/
def ProgOK (r : Raft) : Prop :=
  ∀ id pr, r.trk.getProgress id = some pr → 1 ≤ pr.next ∧ pr.next ≤ r.log.lastIndex + 1

/-! ### the two log queries of `maybeSendAppend` -/

/-- on a well-formed uncompacted log `term i` succeeds for every `i ≤ lastIndex` -/
theorem term_ok_of_le {l : RaftLog} (hwf : l.WF) (hunc : Uncompacted l) {i : Nat} (hi : i ≤ l.lastIndex) :
    ∃ t, l.term i = .ok t := by
  rw [RaftLog.term_eq hwf]
  rw [RaftLog.lastIndex_abs hwf] at hi
  have hb := hunc.base.1
  rw [if_neg (by omega), if_neg (by omega)]
  exact ⟨_, rfl⟩

/-- on a well-formed uncompacted log `entries i max` succeeds for every `1 ≤ i`, and what it returns ends at
`lastIndex` -/
theorem entries_ok_of_pos {l : RaftLog} (hwf : l.WF) (hunc : Uncompacted l) {i : Nat} (hi : 1 ≤ i) (mx : Nat) :
    ∃ es, l.entries i mx = .ok (.ok es) ∧ (i ≤ l.lastIndex + 1 → i + es.length ≤ l.lastIndex + 1) := by
  rw [RaftLog.entries_eq hwf, RaftLog.lastIndex_abs hwf]
  have hb := hunc.base.1
  split
  · exact ⟨[], rfl, fun h => by simpa using h⟩
  · rename_i h1
    rw [if_neg (by unfold ALog.first; omega)]
    refine ⟨_, rfl, fun _ => ?_⟩
    have hpre := (limitSize_prefix (l.abs.slice i (l.abs.last + 1)) mx).length_le
    have hsl : (l.abs.slice i (l.abs.last + 1)).length ≤ l.abs.last + 1 - i := by
      unfold ALog.slice
      rw [List.length_take]
      exact Nat.min_le_left _ _
    omega

theorem usub_one_pos {n : Nat} (h : 1 ≤ n) : usub n 1 = n - 1 := by
  unfold usub; rw [if_pos h]

/-! ### `maybeSendAppend` -/

/-- **`maybeSendAppend` never throws** for a tracked peer other than the node itself when the progress points into
the log -/
theorem noErr_maybeSendAppend (r : Raft) (to : Id) (b : Bool) (hwf : r.log.WF) (hunc : Uncompacted r.log)
    (hp : ProgOK r) (hex : (r.trk.getProgress to).isSome) (hto : to ≠ r.cfg.id) :
    NoErr (maybeSendAppend to b) r := by
  intro e he
  rw [panic_maybeSendAppend_iff to b r hwf e] at he
  rcases he with ⟨_, hn⟩ | ⟨pr, hg, _, hm⟩
  · rw [hn] at hex; cases hex
  · obtain ⟨h1, h2⟩ := hp to pr hg
    obtain ⟨t, ht⟩ := term_ok_of_le hwf hunc (i := usub pr.next 1) (by rw [usub_one_pos h1]; omega)
    obtain ⟨es, hes, _⟩ := entries_ok_of_pos hwf hunc h1 r.cfg.maxMsgSize
    rw [ht] at hm
    simp only [hes] at hm
    split at hm
    · exact hto hm.2.1
    · exact hto hm.2.1

/-- `sentEntries n` moves `next` forward by at most `n` -/
theorem sentEntries_next (pr pr' : Progress) (n b : Nat) (h : pr.sentEntries n b = .ok pr') :
    pr.next ≤ pr'.next ∧ pr'.next ≤ pr.next + n := by
  cases hs : pr.state with
  | snapshot =>
    obtain ⟨e, he⟩ := Progress.sentEntries_snapshot pr n b hs
    rw [he] at h; cases h
  | probe =>
    rw [Progress.sentEntries_probe pr n b hs] at h
    injection h with h; subst h
    split <;> exact ⟨Nat.le_refl _, Nat.le_add_right _ _⟩
  | replicate =>
    rcases Nat.eq_zero_or_pos n with h0 | hpos
    · subst h0
      rw [Progress.sentEntries_replicate_zero pr b hs] at h
      injection h with h; subst h
      exact ⟨Nat.le_refl _, Nat.le_add_right _ _⟩
    · rw [Progress.sentEntries_replicate_pos pr n b hs hpos] at h
      cases ha : pr.inflights.add (pr.next + n - 1) b with
      | error e => rw [ha] at h; cases h
      | ok infl =>
        rw [ha] at h
        simp only [Except.map] at h
        injection h with h; subst h
        exact ⟨Nat.le_add_right _ _, Nat.le_refl _⟩

/-- every way `maybeSendAppend` returns under `ProgOK`: nothing changed, or one MsgApp was queued and the
progress of `to` replaced by one whose `next` is still within the log -/
theorem maybeSendAppend_ok_outcome (r r' : Raft) (to : Id) (b res : Bool) (hwf : r.log.WF)
    (hunc : Uncompacted r.log) (hp : ProgOK r) (h : (maybeSendAppend to b).run r = .ok (res, r')) :
    r' = r ∨ ∃ pr pr' prevTerm ents, r.trk.getProgress to = some pr ∧
      pr'.match_ = pr.match_ ∧ pr.next ≤ pr'.next ∧ pr'.next ≤ r.log.lastIndex + 1 ∧
      r' = afterApp to r pr pr' prevTerm ents := by
  rw [maybeSendAppend_run] at h
  cases hg : r.trk.getProgress to with
  | none => rw [hg] at h; cases h
  | some pr =>
    rw [hg] at h
    obtain ⟨h1, h2⟩ := hp to pr hg
    obtain ⟨t, ht⟩ := term_ok_of_le hwf hunc (i := usub pr.next 1) (by rw [usub_one_pos h1]; omega)
    obtain ⟨es, hes, hlen⟩ := entries_ok_of_pos hwf hunc h1 r.cfg.maxMsgSize
    simp only [ht, hes] at h
    split at h
    · injection h with h; injection h with _ h; exact Or.inl h.symm
    · split at h
      · rcases appTail_outcome to b r r' pr t es res h with h' | ⟨_, _, _, pr', hs, h5⟩
        · exact Or.inl h'.2
        · obtain ⟨n1, n2⟩ := sentEntries_next pr pr' _ _ hs
          exact Or.inr ⟨pr, pr', t, es, rfl, (Live.sentEntries_keeps pr pr' _ _ hs).1, n1,
            by have := hlen h2; omega, h5⟩
      · rcases appTail_outcome to b r r' pr t [] res h with h' | ⟨_, _, _, pr', hs, h5⟩
        · exact Or.inl h'.2
        · obtain ⟨n1, n2⟩ := sentEntries_next pr pr' _ _ hs
          exact Or.inr ⟨pr, pr', t, [], rfl, (Live.sentEntries_keeps pr pr' _ _ hs).1, n1,
            by simp at n2; omega, h5⟩

/-- what the append-sending functions keep: log, configuration, `ProgOK`, and which peers are tracked -/
def SendKeep (r r' : Raft) : Prop :=
  r'.log = r.log ∧ r'.cfg = r.cfg ∧ ProgOK r' ∧
  ∀ id, (r'.trk.getProgress id).isSome = (r.trk.getProgress id).isSome

theorem SendKeep.refl {r : Raft} (hp : ProgOK r) : SendKeep r r := ⟨rfl, rfl, hp, fun _ => rfl⟩

theorem SendKeep.trans {a b c : Raft} (h1 : SendKeep a b) (h2 : SendKeep b c) : SendKeep a c :=
  ⟨h2.1.trans h1.1, h2.2.1.trans h1.2.1, h2.2.2.1, fun id => (h2.2.2.2 id).trans (h1.2.2.2 id)⟩

theorem SendKeep.wf {r r' : Raft} (h : SendKeep r r') (hwf : r.log.WF) : r'.log.WF := by rw [h.1]; exact hwf

theorem SendKeep.unc {r r' : Raft} (h : SendKeep r r') (hu : Uncompacted r.log) : Uncompacted r'.log := by
  rw [h.1]; exact hu

/-- **frame of `maybeSendAppend`** -/
theorem maybeSendAppend_keep (r : Raft) (to : Id) (b : Bool) (hwf : r.log.WF) (hunc : Uncompacted r.log)
    (hp : ProgOK r) : Spec (maybeSendAppend to b) r (fun _ r' => SendKeep r r') := by
  rw [Spec.iff_runs]
  intro res r' h
  rcases maybeSendAppend_ok_outcome r r' to b res hwf hunc hp h with rfl | ⟨pr, pr', t, es, hg, _, n1, n2, rfl⟩
  · exact SendKeep.refl hp
  · refine ⟨rfl, rfl, ?_, ?_⟩
    · intro id q hq
      simp only [afterApp, getProgress_setProgress] at hq
      show 1 ≤ q.next ∧ q.next ≤ r.log.lastIndex + 1
      split at hq
      · injection hq with hq; subst hq
        have := (hp to pr hg).1
        exact ⟨by show 1 ≤ pr'.next; omega, n2⟩
      · exact hp id q hq
    · intro id
      simp only [afterApp, getProgress_setProgress]
      split
      · rename_i hid; subst hid; rw [hg]; rfl
      · rfl

/-- the frame in the requested form -/
theorem maybeSendAppend_frame (r : Raft) (to : Id) (b : Bool) (hwf : r.log.WF) (hunc : Uncompacted r.log)
    (hp : ProgOK r) :
    Spec (maybeSendAppend to b) r (fun _ r' => r'.log = r.log ∧ r'.cfg = r.cfg ∧ ProgOK r' ∧
      ∀ id, (r'.trk.getProgress id).isSome = (r.trk.getProgress id).isSome) :=
  maybeSendAppend_keep r to b hwf hunc hp

/-! ### `sendAppend`, `sendAppendLoop` -/

theorem noErr_sendAppend (r : Raft) (to : Id) (hwf : r.log.WF) (hunc : Uncompacted r.log)
    (hp : ProgOK r) (hex : (r.trk.getProgress to).isSome) (hto : to ≠ r.cfg.id) :
    NoErr (sendAppend to) r := by
  unfold sendAppend
  simp only [np, wp]
  exact ⟨noErr_maybeSendAppend r to true hwf hunc hp hex hto, Spec.trivial _ _⟩

theorem sendAppend_keep (r : Raft) (to : Id) (hwf : r.log.WF) (hunc : Uncompacted r.log) (hp : ProgOK r) :
    Spec (sendAppend to) r (fun _ r' => SendKeep r r') := by
  unfold sendAppend
  simp only [wp]
  exact maybeSendAppend_keep r to true hwf hunc hp

theorem sendAppendLoop_keep (fuel : Nat) (r : Raft) (to : Id) (hwf : r.log.WF) (hunc : Uncompacted r.log)
    (hp : ProgOK r) : Spec (sendAppendLoop fuel to) r (fun _ r' => SendKeep r r') := by
  induction fuel generalizing r with
  | zero => unfold sendAppendLoop; simp only [wp]; exact SendKeep.refl hp
  | succ n ih =>
    unfold sendAppendLoop
    simp only [wp]
    refine (maybeSendAppend_keep r to false hwf hunc hp).mono ?_
    intro res mid hk
    refine ⟨fun _ => ?_, fun _ => hk⟩
    exact (ih mid (hk.wf hwf) (hk.unc hunc) hk.2.2.1).mono (fun _ _ h => hk.trans h)

theorem noErr_sendAppendLoop (fuel : Nat) (r : Raft) (to : Id) (hwf : r.log.WF) (hunc : Uncompacted r.log)
    (hp : ProgOK r) (hex : (r.trk.getProgress to).isSome) (hto : to ≠ r.cfg.id) :
    NoErr (sendAppendLoop fuel to) r := by
  induction fuel generalizing r with
  | zero => unfold sendAppendLoop; simp only [np]
  | succ n ih =>
    unfold sendAppendLoop
    simp only [np, wp]
    refine ⟨noErr_maybeSendAppend r to false hwf hunc hp hex hto, ?_⟩
    refine (maybeSendAppend_keep r to false hwf hunc hp).mono ?_
    intro res mid hk
    refine ⟨fun _ => ?_, fun _ => trivial⟩
    exact ih mid (hk.wf hwf) (hk.unc hunc) hk.2.2.1 (by rw [hk.2.2.2]; exact hex) (by rw [hk.2.1]; exact hto)

/-! ### `bcastAppend` -/

/-- one iteration of the loop of `bcastAppend` -/
theorem bcast_body (r r2 : Raft) (id : Id) (hwf : r.log.WF) (hunc : Uncompacted r.log) (hk : SendKeep r r2)
    (hmem : id ∈ r.trk.progress.map (·.1)) :
    NoErr (if (id != r.cfg.id) = true then do sendAppend id; pure (ForInStep.yield PUnit.unit)
      else pure (ForInStep.yield PUnit.unit) : M (ForInStep PUnit)) r2 ∧
    Spec (if (id != r.cfg.id) = true then do sendAppend id; pure (ForInStep.yield PUnit.unit)
      else pure (ForInStep.yield PUnit.unit) : M (ForInStep PUnit)) r2 (fun _ r' => SendKeep r r') := by
  have hex : (r2.trk.getProgress id).isSome := by
    rw [hk.2.2.2]
    have : id ∈ keys r.trk.progress := hmem
    obtain ⟨v, hv⟩ := (mem_keys_iff _ _).mp this
    show (mapGet r.trk.progress id).isSome
    rw [hv]; rfl
  by_cases hid : (id != r.cfg.id) = true
  · have hne : id ≠ r2.cfg.id := by rw [hk.2.1]; simpa using hid
    rw [if_pos hid]
    simp only [np, wp]
    refine ⟨⟨⟨noErr_maybeSendAppend r2 id true (hk.wf hwf) (hk.unc hunc) hk.2.2.1 hex hne, Spec.trivial _ _⟩,
      Spec.trivial _ _⟩, ?_⟩
    exact (maybeSendAppend_keep r2 id true (hk.wf hwf) (hk.unc hunc) hk.2.2.1).mono (fun _ _ h => hk.trans h)
  · rw [if_neg hid]
    simp only [np, wp]
    exact ⟨trivial, hk⟩

/-- **`bcastAppend` never throws** under `ProgOK` -/
theorem noErr_bcastAppend (r : Raft) (hwf : r.log.WF) (hunc : Uncompacted r.log) (hp : ProgOK r) :
    NoErr bcastAppend r := by
  unfold bcastAppend progressIds
  simp only [np, wp]
  refine ⟨trivial, ⟨trivial, trivial⟩, ?_, Spec.trivial _ _⟩
  refine NoErr.forIn (fun r2 => SendKeep r r2) _ _ ?_ _ r (SendKeep.refl hp)
  intro id hmem b r2 hk
  obtain ⟨h1, h2⟩ := bcast_body r r2 id hwf hunc hk hmem
  exact ⟨h1, fun st r' hr => h2.elim hr⟩

theorem bcastAppend_keep (r : Raft) (hwf : r.log.WF) (hunc : Uncompacted r.log) (hp : ProgOK r) :
    Spec bcastAppend r (fun _ r' => SendKeep r r') := by
  unfold bcastAppend progressIds
  simp only [wp]
  refine Spec.forIn_list _ _ _ (fun _ r2 => SendKeep r r2) r (SendKeep.refl hp) ?_
  intro id hmem b r2 hk
  exact (bcast_body r r2 id hwf hunc hk hmem).2.mono (fun _ _ h => h)

/-! ### the stronger progress invariant `match < next ≤ lastIndex + 1` -/

def ProgWF (r : Raft) : Prop :=
  ∀ id pr, r.trk.getProgress id = some pr → pr.match_ < pr.next ∧ pr.next ≤ r.log.lastIndex + 1

theorem ProgWF.ok {r : Raft} (h : ProgWF r) : ProgOK r := fun id pr hg =>
  ⟨Nat.lt_of_le_of_lt (Nat.zero_le _) (h id pr hg).1, (h id pr hg).2⟩

theorem maybeSendAppend_keepWF (r : Raft) (to : Id) (b : Bool) (hwf : r.log.WF) (hunc : Uncompacted r.log)
    (hp : ProgWF r) : Spec (maybeSendAppend to b) r (fun _ r' => ProgWF r') := by
  rw [Spec.iff_runs]
  intro res r' h
  rcases maybeSendAppend_ok_outcome r r' to b res hwf hunc hp.ok h with rfl | ⟨pr, pr', t, es, hg, hm, n1, n2, rfl⟩
  · exact hp
  · intro id q hq
    simp only [afterApp, getProgress_setProgress] at hq
    show q.match_ < q.next ∧ q.next ≤ r.log.lastIndex + 1
    split at hq
    · injection hq with hq; subst hq
      have := (hp to pr hg).1
      exact ⟨by show pr'.match_ < pr'.next; omega, n2⟩
    · exact hp id q hq

theorem sendAppend_keepWF (r : Raft) (to : Id) (hwf : r.log.WF) (hunc : Uncompacted r.log) (hp : ProgWF r) :
    Spec (sendAppend to) r (fun _ r' => ProgWF r') := by
  unfold sendAppend
  simp only [wp]
  exact maybeSendAppend_keepWF r to true hwf hunc hp

theorem sendAppendLoop_keepWF (fuel : Nat) (r : Raft) (to : Id) (hwf : r.log.WF) (hunc : Uncompacted r.log)
    (hp : ProgWF r) : Spec (sendAppendLoop fuel to) r (fun _ r' => ProgWF r') := by
  induction fuel generalizing r with
  | zero => unfold sendAppendLoop; simp only [wp]; exact hp
  | succ n ih =>
    unfold sendAppendLoop
    simp only [wp]
    refine ((maybeSendAppend_keep r to false hwf hunc hp.ok).and
      (maybeSendAppend_keepWF r to false hwf hunc hp)).mono ?_
    intro res mid ⟨hk, hw⟩
    exact ⟨fun _ => ih mid (hk.wf hwf) (hk.unc hunc) hw, fun _ => hw⟩

theorem bcastAppend_keepWF (r : Raft) (hwf : r.log.WF) (hunc : Uncompacted r.log) (hp : ProgWF r) :
    Spec bcastAppend r (fun _ r' => ProgWF r') := by
  unfold bcastAppend progressIds
  simp only [wp]
  refine (Spec.forIn_list _ _ _ (fun _ r2 => SendKeep r r2 ∧ ProgWF r2) r ⟨SendKeep.refl hp.ok, hp⟩ ?_).mono
    (fun _ _ h => h.2)
  intro id hmem b r2 ⟨hk, hw⟩
  simp only [wp]
  refine ⟨fun _ => ?_, fun _ => ⟨hk, hw⟩⟩
  exact ((maybeSendAppend_keep r2 id true (hk.wf hwf) (hk.unc hunc) hw.ok).and
    (maybeSendAppend_keepWF r2 id true (hk.wf hwf) (hk.unc hunc) hw)).mono (fun _ _ h => ⟨hk.trans h.1, h.2⟩)

/-! ### helpers for users of `ProgOK` / `ProgWF` / `SendKeep` -/

/-- the key *set* of the progress map is kept (the key *list* is kept only for a sorted map: `mapInsert` on an
unsorted list may insert in front of the existing key) -/
theorem SendKeep.mem_keys {r r' : Raft} (h : SendKeep r r') (id : Id) :
    id ∈ r'.trk.progress.map (·.1) ↔ id ∈ r.trk.progress.map (·.1) := by
  have e : ∀ x : Raft, id ∈ x.trk.progress.map (·.1) ↔ (x.trk.getProgress id).isSome = true := by
    intro x
    show id ∈ keys x.trk.progress ↔ (mapGet x.trk.progress id).isSome = true
    rw [mem_keys_iff, Option.isSome_iff_exists]
  rw [e, e, h.2.2.2]

/-- `ProgOK` only looks at the progress map and `lastIndex`, and is monotone in `lastIndex` -/
theorem ProgOK.congr {r r' : Raft} (hp : ProgOK r) (h1 : r'.trk.progress = r.trk.progress)
    (h2 : r.log.lastIndex ≤ r'.log.lastIndex) : ProgOK r' := by
  intro id pr hg
  have hg' : r.trk.getProgress id = some pr := by unfold Tracker.getProgress at *; rw [← h1]; exact hg
  have := hp id pr hg'
  exact ⟨this.1, by omega⟩

theorem ProgWF.congr {r r' : Raft} (hp : ProgWF r) (h1 : r'.trk.progress = r.trk.progress)
    (h2 : r.log.lastIndex ≤ r'.log.lastIndex) : ProgWF r' := by
  intro id pr hg
  have hg' : r.trk.getProgress id = some pr := by unfold Tracker.getProgress at *; rw [← h1]; exact hg
  have := hp id pr hg'
  exact ⟨this.1, by omega⟩

/-- overwriting one progress record -/
theorem ProgOK.setProgress {r : Raft} (hp : ProgOK r) (id : Id) (pr : Progress) (h1 : 1 ≤ pr.next)
    (h2 : pr.next ≤ r.log.lastIndex + 1) : ProgOK { r with trk := r.trk.setProgress id pr } := by
  intro id' q hq
  simp only [getProgress_setProgress] at hq
  split at hq
  · injection hq with hq; subst hq; exact ⟨h1, h2⟩
  · exact hp id' q hq

theorem ProgWF.setProgress {r : Raft} (hp : ProgWF r) (id : Id) (pr : Progress) (h1 : pr.match_ < pr.next)
    (h2 : pr.next ≤ r.log.lastIndex + 1) : ProgWF { r with trk := r.trk.setProgress id pr } := by
  intro id' q hq
  simp only [getProgress_setProgress] at hq
  split at hq
  · injection hq with hq; subst hq; exact ⟨h1, h2⟩
  · exact hp id' q hq

end RaftVerif.NoPanicP
