import RaftVerif.Proofs.ConfChangeAccept
/-!
# Proofs/ConfChangeExamples — concrete configurations used by the non-vacuity examples of C13
-/
namespace RaftVerif

/-- three voters, last index 5 -/
def exBase : Changer :=
  { tracker := { cfg := { voters := [1, 2, 3] },
                 progress := [(1, { match_ := 5, next := 6 }), (2, { match_ := 4, next := 5 }), (3, { next := 1 })],
                 maxInflight := 8 },
    lastIndex := 5 }

/-- demote voter 3 and add voter 4 (needs a joint configuration: two voters change) -/
def exChanges : List ConfChangeSingle :=
  [{ typ := .addLearnerNode, nodeId := 3 }, { typ := .addNode, nodeId := 4 }]

/-- the joint configuration reached from `exBase` by `exChanges`; 3 is staged in `learnersNext` -/
def exJointCfg : TrackerConfig :=
  { voters := [1, 2, 4], outgoing := some [1, 2, 3], learnersNext := some [3], autoLeave := true }

def exJointTrk : ProgressMap :=
  [(1, { match_ := 5, next := 6 }), (2, { match_ := 4, next := 5 }), (3, { next := 1 }),
   (4, { next := 5, recentActive := true, inflights := { size := 8 } })]

def exJoint : Changer := { tracker := { cfg := exJointCfg, progress := exJointTrk, maxInflight := 8 }, lastIndex := 7 }

/-- passes `checkInvariants` although the staged learner 2 is also an incoming voter -/
def exBadCfg : TrackerConfig :=
  { voters := [1, 2], outgoing := some [1, 2], learnersNext := some [2] }

def exBad : Changer := { tracker := { cfg := exBadCfg, progress := [(1, {}), (2, {})] }, lastIndex := 0 }

end RaftVerif
