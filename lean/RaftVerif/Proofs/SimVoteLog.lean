import RaftVerif.Proofs.SimVote
import RaftVerif.Proofs.SimLog
/-!
# Proofs/SimVoteLog — a same-term MsgVote does not touch the log
-/
namespace RaftVerif.Sim
open Refine

theorem settled_vote_same {val : Val} {voters : List Id} {n : Nat} {s : Spec.State} {r r' : Raft} {m : Message}
    {e : Option StepErr} {fuel : Nat} (hinv : RaftInv val voters n r (s.nodes n) s.msgs) (hs : Settled r)
    (ht : m.typ = .vote) (hterm : m.term = r.term)
    (h : (Raft.step (fuel + 1) m).run r = .ok (e, r')) : Settled r' := by
  obtain ⟨_, ⟨_, _, rfl⟩ | ⟨_, rfl⟩⟩ := step_vote_refine val fuel m r r' e ht hterm hinv.wf hinv.unc h
  · exact hs
  · exact hs

end RaftVerif.Sim
