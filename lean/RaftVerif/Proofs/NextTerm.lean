import RaftVerif.Proofs.StepSpecs
import RaftVerif.Proofs.LiveHup
/-!
# Proofs/NextTerm — which functions of `Model/Raft.lean` keep the term (C17)

`TE s s'`: `term` and `cfg` are what they were.  Everything below `step` keeps it except
`reset`/`becomeFollower` with a different term, `becomeCandidate` (hence `campaign` other than the
pre-election, `hup` other than the pre-election) and `restore` on a non-follower.
-/
namespace RaftVerif

structure TE (s s' : Raft) : Prop where
  term : s'.term = s.term
  cfg : s'.cfg = s.cfg

theorem TE.refl (s : Raft) : TE s s := ⟨rfl, rfl⟩
theorem TE.trans {a b c : Raft} (h1 : TE a b) (h2 : TE b c) : TE a c :=
  ⟨h2.term.trans h1.term, h2.cfg.trans h1.cfg⟩
instance : RelOK TE := ⟨TE.refl, TE.trans⟩

theorem SendFrame.te {s s' : Raft} (h : SendFrame s s') : TE s s' := ⟨h.term, h.cfg⟩

macro_rules | `(tactic| rel_fields) => `(tactic| exact TE.mk rfl rfl)

namespace Next
open Raft
set_option linter.unusedSimpArgs false

/-- registered `TE` call rules -/
syntax "te_step" : tactic

theorem send_te (m : Message) (s : Raft) : Spec (send m) s (fun _ s' => TE s s') :=
  (send_sf m s).mono fun _ _ h => h.te
theorem maybeSendAppend_te (to : Id) (b : Bool) (s : Raft) :
    Spec (maybeSendAppend to b) s (fun _ s' => TE s s') := (maybeSendAppend_sf to b s).mono fun _ _ h => h.te
theorem sendAppendLoop_te (n : Nat) (to : Id) (s : Raft) :
    Spec (sendAppendLoop n to) s (fun _ s' => TE s s') := (sendAppendLoop_sf n to s).mono fun _ _ h => h.te
theorem sendHeartbeat_te (to : Id) (c : Option Bytes) (s : Raft) :
    Spec (sendHeartbeat to c) s (fun _ s' => TE s s') := (sendHeartbeat_sf to c s).mono fun _ _ h => h.te
theorem bcastAppend_te (s : Raft) : Spec bcastAppend s (fun _ s' => TE s s') :=
  (bcastAppend_sf s).mono fun _ _ h => h.te
theorem bcastHeartbeat_te (s : Raft) : Spec bcastHeartbeat s (fun _ s' => TE s s') :=
  (bcastHeartbeat_sf s).mono fun _ _ h => h.te

macro_rules | `(tactic| te_step) => `(tactic| rel_call (send_te ..))
macro_rules | `(tactic| te_step) => `(tactic| rel_call (maybeSendAppend_te ..))
macro_rules | `(tactic| te_step) => `(tactic| rel_call (sendAppendLoop_te ..))
macro_rules | `(tactic| te_step) => `(tactic| rel_call (sendHeartbeat_te ..))
macro_rules | `(tactic| te_step) => `(tactic| rel_call (bcastAppend_te ..))
macro_rules | `(tactic| te_step) => `(tactic| rel_call (bcastHeartbeat_te ..))
macro_rules | `(tactic| te_step) => `(tactic| same_call (hasUnappliedConfChanges_same ..))
macro_rules | `(tactic| te_step) => `(tactic| same_call (decodeCC_same ..))

/-- `reset(term)` with the node's own term -/
theorem reset_te (t : Nat) (s : Raft) (ht : t = s.term) : Spec (reset t) s (fun _ s' => TE s s') :=
  (reset_spec_st t s).mono fun _ _ ⟨h1, _, _, _, _, h4, _⟩ => ⟨h1.trans ht, h4⟩

/-- `becomeFollower(term, …)` with the node's own term -/
theorem becomeFollower_te (t l : Nat) (s : Raft) (ht : t = s.term) :
    Spec (becomeFollower t l) s (fun _ s' => TE s s') :=
  (becomeFollower_spec t l s).mono fun _ _ ⟨h1, _, _, _, _, h4, _⟩ => ⟨h1.trans ht, h4⟩

theorem becomePreCandidate_te (s : Raft) : Spec becomePreCandidate s (fun _ s' => TE s s') :=
  (becomePreCandidate_spec s).mono fun _ s' ⟨_, h⟩ => by subst h; exact ⟨rfl, rfl⟩

/-- side condition `t = cur.term` -/
macro "te_pre" : tactic => `(tactic| first | rfl | assumption | (simp only []; done))

macro_rules | `(tactic| te_step) => `(tactic| rel_call (reset_te _ _ (by te_pre)))
macro_rules | `(tactic| te_step) => `(tactic| rel_call (becomeFollower_te _ _ _ (by te_pre)))
macro_rules | `(tactic| te_step) => `(tactic| rel_call (becomePreCandidate_te ..))

theorem maybeCommit_te (s : Raft) : Spec maybeCommit s (fun _ s' => TE s s') := by
  unfold maybeCommit
  rel_start
  wp_auto [te_step]
macro_rules | `(tactic| te_step) => `(tactic| rel_call (maybeCommit_te ..))

theorem increaseUncommittedSize_te (es : List Entry) (s : Raft) :
    Spec (increaseUncommittedSize es) s (fun _ s' => TE s s') := by
  unfold increaseUncommittedSize
  rel_start
  wp_auto [te_step]
macro_rules | `(tactic| te_step) => `(tactic| rel_call (increaseUncommittedSize_te ..))

theorem appendEntry_te (es : List Entry) (s : Raft) : Spec (appendEntry es) s (fun _ s' => TE s s') := by
  unfold appendEntry
  rel_start
  wp_auto [te_step]
macro_rules | `(tactic| te_step) => `(tactic| rel_call (appendEntry_te ..))

theorem appliedToLog_te (i sz : Nat) (s : Raft) : Spec (appliedToLog i sz) s (fun _ s' => TE s s') := by
  unfold appliedToLog
  rel_start
  wp_auto [te_step]
macro_rules | `(tactic| te_step) => `(tactic| rel_call (appliedToLog_te ..))

theorem becomeLeader_te (s : Raft) : Spec becomeLeader s (fun _ s' => TE s s') := by
  unfold becomeLeader
  rel_start
  wp_auto [te_step]
macro_rules | `(tactic| te_step) => `(tactic| rel_call (becomeLeader_te ..))

/-- `campaign(campaignPreElection)` keeps the term -/
theorem campaign_preElection_te (s : Raft) : Spec (campaign .preElection) s (fun _ s' => TE s s') := by
  unfold campaign
  rel_start
  simp (config := {decide := true, zeta := false}) only [wp, beq_iff_eq, reduceCtorEq, false_implies, true_implies,
    not_false_eq_true, true_and, and_true]
  wp_auto [first | te_step | rel_loop TE]

/-- `hup(campaignPreElection)` keeps the term -/
theorem hup_preElection_te (s : Raft) : Spec (hup .preElection) s (fun _ s' => TE s s') := by
  unfold hup
  rel_start
  wp_auto [first | te_step | rel_call (campaign_preElection_te ..)]

theorem responseToReadIndexReq_te (req : Message) (i : Nat) (s : Raft) :
    Spec (responseToReadIndexReq req i) s (fun _ s' => TE s s') := by
  unfold responseToReadIndexReq
  rel_start
  wp_auto [te_step]
macro_rules | `(tactic| te_step) => `(tactic| rel_call (responseToReadIndexReq_te ..))

theorem sendReadIndexResp_te (req : Message) (i : Nat) (s : Raft) :
    Spec (sendReadIndexResp req i) s (fun _ s' => TE s s') := by
  unfold sendReadIndexResp
  rel_start
  wp_auto [te_step]
macro_rules | `(tactic| te_step) => `(tactic| rel_call (sendReadIndexResp_te ..))

theorem sendMsgReadIndexResponse_te (m : Message) (s : Raft) :
    Spec (sendMsgReadIndexResponse m) s (fun _ s' => TE s s') := by
  unfold sendMsgReadIndexResponse
  rel_start
  wp_auto [te_step]
macro_rules | `(tactic| te_step) => `(tactic| rel_call (sendMsgReadIndexResponse_te ..))

theorem releasePendingReadIndexMessages_te (s : Raft) :
    Spec releasePendingReadIndexMessages s (fun _ s' => TE s s') := by
  unfold releasePendingReadIndexMessages
  rel_start
  wp_auto [first | te_step | rel_loop TE]
macro_rules | `(tactic| te_step) => `(tactic| rel_call (releasePendingReadIndexMessages_te ..))

theorem handleAppendEntries_te (m : Message) (s : Raft) :
    Spec (handleAppendEntries m) s (fun _ s' => TE s s') := by
  unfold handleAppendEntries
  rel_start
  wp_auto [te_step]
macro_rules | `(tactic| te_step) => `(tactic| rel_call (handleAppendEntries_te ..))

theorem handleHeartbeat_te (m : Message) (s : Raft) :
    Spec (handleHeartbeat m) s (fun _ s' => TE s s') := by
  unfold handleHeartbeat
  rel_start
  wp_auto [te_step]
macro_rules | `(tactic| te_step) => `(tactic| rel_call (handleHeartbeat_te ..))

theorem switchToConfig_te (cfg : TrackerConfig) (trk : ProgressMap) (s : Raft) :
    Spec (switchToConfig cfg trk) s (fun _ s' => TE s s') := by
  unfold switchToConfig
  rel_start
  wp_auto [first | te_step | rel_loop TE]
macro_rules | `(tactic| te_step) => `(tactic| rel_call (switchToConfig_te ..))

/-- `restore` on a follower keeps the term (on any other role it calls `becomeFollower(term+1)`) -/
theorem restore_te (snap : Snapshot) (s : Raft) (hs : s.state = .follower) :
    Spec (restore snap) s (fun _ s' => TE s s') := by
  unfold restore
  have h2 : (s.state != Role.follower) = false := by simp [hs]
  rel_start
  simp (config := {zeta := false}) only [wp, h2, Bool.false_eq_true, false_implies, true_and, not_false_eq_true,
    true_implies]
  wp_auto [te_step]

theorem handleSnapshot_te (m : Message) (s : Raft) (hs : s.state = .follower) :
    Spec (handleSnapshot m) s (fun _ s' => TE s s') := by
  unfold handleSnapshot
  rel_start
  wp_auto [first | te_step | rel_call (restore_te _ _ (by (first | exact hs | assumption)))]

/-- `stepFollower` keeps the term unless the message is MsgTimeoutNow -/
theorem stepFollower_te (fuel : Nat) (m : Message) (s : Raft) (hs : s.state = .follower)
    (hm : m.typ ≠ .timeoutNow) : Spec (stepFollower fuel m) s (fun _ s' => TE s s') := by
  rw [stepFollower]
  rel_start
  wp_auto [first
    | te_step
    | rel_call (handleSnapshot_te _ _ (by (first | exact hs | assumption)))
    | exact absurd (by assumption) hm]

theorem stepLeader_te (fuel : Nat) (m : Message) (s : Raft) :
    Spec (stepLeader fuel m) s (fun _ s' => TE s s') := by
  rw [stepLeader]
  rel_start
  wp_auto [first | te_step | rel_loop TE]

end Next
end RaftVerif
