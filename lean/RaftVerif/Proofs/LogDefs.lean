import RaftVerif.Model.Log
/-!
# Proofs/LogDefs — abstract log, well-formedness invariants, abstraction functions

Definitions used by the statements of C18 and C08, and the elementary lemmas about contiguous
entry lists and `limitSize`.  Core Lean only.
-/
namespace RaftVerif

/-! ## contiguous entry lists -/

/-- the entries carry the indexes `n, n+1, n+2, …` -/
def Contig (n : Nat) (es : List Entry) : Prop := ∀ k (h : k < es.length), es[k].index = n + k

instance (n : Nat) (es : List Entry) : Decidable (Contig n es) := by
  unfold Contig; infer_instance

theorem Contig.nil (n : Nat) : Contig n [] := by intro k h; simp at h

theorem contig_cons {n : Nat} {e : Entry} {es : List Entry} :
    Contig n (e :: es) ↔ e.index = n ∧ Contig (n + 1) es := by
  constructor
  · intro h
    refine ⟨by have := h 0 (by simp); simpa using this, ?_⟩
    intro k hk
    have := h (k + 1) (by simpa using hk)
    simp only [List.getElem_cons_succ] at this
    omega
  · rintro ⟨h0, h⟩ k hk
    cases k with
    | zero => simpa using h0
    | succ j =>
      have := h j (by simpa using hk)
      simp only [List.getElem_cons_succ]
      omega

theorem contig_append {n : Nat} {a b : List Entry} :
    Contig n (a ++ b) ↔ Contig n a ∧ Contig (n + a.length) b := by
  induction a generalizing n with
  | nil => simp [Contig.nil]
  | cons e a ih =>
    simp only [List.cons_append, contig_cons, ih, List.length_cons]
    have : n + 1 + a.length = n + (a.length + 1) := by omega
    rw [this]
    constructor
    · rintro ⟨h1, h2, h3⟩; exact ⟨⟨h1, h2⟩, h3⟩
    · rintro ⟨⟨h1, h2⟩, h3⟩; exact ⟨h1, h2, h3⟩

theorem Contig.take {n : Nat} {es : List Entry} (h : Contig n es) (k : Nat) : Contig n (es.take k) := by
  intro j hj
  simp only [List.length_take] at hj
  simp only [List.getElem_take]
  exact h j (by omega)

theorem Contig.drop {n : Nat} {es : List Entry} (h : Contig n es) (k : Nat) : Contig (n + k) (es.drop k) := by
  intro j hj
  simp only [List.length_drop] at hj
  simp only [List.getElem_drop]
  have := h (k + j) (by omega)
  omega

theorem Contig.tail {n : Nat} {es : List Entry} (h : Contig n es) : Contig (n + 1) es.tail := by
  rw [← List.drop_one]; exact h.drop 1

theorem Contig.getElem? {n : Nat} {es : List Entry} (h : Contig n es) {k : Nat} {e : Entry}
    (he : es[k]? = some e) : e.index = n + k := by
  obtain ⟨hk, rfl⟩ := List.getElem?_eq_some_iff.mp he
  exact h k hk

theorem Contig.head_index {n : Nat} {e : Entry} {es : List Entry} (h : Contig n (e :: es)) : e.index = n :=
  (contig_cons.mp h).1

theorem Contig.mem {n : Nat} {es : List Entry} (h : Contig n es) {e : Entry} (he : e ∈ es) :
    n ≤ e.index ∧ e.index < n + es.length := by
  obtain ⟨k, hk, rfl⟩ := List.getElem_of_mem he
  have := h k hk
  omega

/-- a contiguous list is determined by its indexes: the entry with index `i` sits at position `i - n` -/
theorem Contig.getLast?_index {n : Nat} {es : List Entry} (h : Contig n es) {e : Entry}
    (he : es.getLast? = some e) : e.index + 1 = n + es.length := by
  rw [List.getLast?_eq_getElem?] at he
  have := h.getElem? he
  have hl : es.length ≠ 0 := by
    intro h0
    have : es = [] := List.length_eq_zero_iff.mp h0
    subst this
    simp at he
  omega

/-! ## sizes -/

@[simp] theorem entsSize_nil : entsSize [] = 0 := rfl
@[simp] theorem entsSize_cons (e : Entry) (es : List Entry) : entsSize (e :: es) = entrySize e + entsSize es := by
  simp [entsSize]
theorem entsSize_append (a b : List Entry) : entsSize (a ++ b) = entsSize a + entsSize b := by
  simp [entsSize]
theorem entsSize_singleton (e : Entry) : entsSize [e] = entrySize e := by simp

theorem varintLen_pos (n : Nat) : 0 < varintLen n := by
  unfold varintLen; split <;> omega

theorem entrySize_pos (e : Entry) : 0 < entrySize e := by
  have := varintLen_pos e.term
  unfold entrySize; omega

/-- small numbers take one varint byte (used to evaluate sizes in concrete examples) -/
theorem varintLen_small {n : Nat} (h : n < 128) : varintLen n = 1 := by
  unfold varintLen; rw [if_pos h]

theorem entSize_small (t i : Nat) (ht : t < 128) (hi : i < 128) :
    entrySize { term := t, index := i } = 4 := by
  simp [entrySize, varintLen_small ht, varintLen_small hi]

theorem entsSize_take_le (es : List Entry) (k : Nat) : entsSize (es.take k) ≤ entsSize es := by
  conv => rhs; rw [← List.take_append_drop k es]
  rw [entsSize_append]; omega

theorem entsSize_prefix_le {a b : List Entry} (h : a <+: b) : entsSize a ≤ entsSize b := by
  obtain ⟨t, rfl⟩ := h
  rw [entsSize_append]; omega

/-! ## `limitSize` -/

theorem limitSizeAux_prefix (m s : Nat) (es : List Entry) : limitSizeAux m s es <+: es := by
  induction es generalizing s with
  | nil => simp [limitSizeAux]
  | cons e es ih =>
    simp only [limitSizeAux]
    split
    · exact List.nil_prefix
    · exact (List.prefix_cons_inj e).mpr (ih _)

/-- the running total never exceeds the budget once it is within the budget -/
theorem limitSizeAux_size (m s : Nat) (es : List Entry) (hs : s ≤ m) :
    s + entsSize (limitSizeAux m s es) ≤ m := by
  induction es generalizing s with
  | nil => simpa [limitSizeAux] using hs
  | cons e es ih =>
    simp only [limitSizeAux]
    split
    · simpa using hs
    · have := ih (s + entrySize e) (by omega)
      simp only [entsSize_cons]; omega

/-- once the running total exceeds the budget nothing more is taken -/
theorem limitSizeAux_over (m s : Nat) (es : List Entry) (hs : m < s) : limitSizeAux m s es = [] := by
  cases es with
  | nil => rfl
  | cons e es =>
    simp only [limitSizeAux]
    rw [if_pos (by omega)]

/-- maximality: if something was left out, the next entry would exceed the budget -/
theorem limitSizeAux_maximal (m s : Nat) (es : List Entry)
    (hlt : (limitSizeAux m s es).length < es.length) :
    m < s + entsSize (es.take ((limitSizeAux m s es).length + 1)) := by
  induction es generalizing s with
  | nil => simp at hlt
  | cons e es ih =>
    simp only [limitSizeAux] at hlt ⊢
    split
    · simp; omega
    · rename_i hle
      rw [if_neg hle] at hlt
      simp only [List.length_cons, Nat.add_lt_add_iff_right] at hlt
      have := ih (s + entrySize e) hlt
      simp only [List.length_cons, List.take_succ_cons, entsSize_cons]
      omega

/-- a budget shifted by what was already consumed -/
theorem limitSizeAux_shift (m c s : Nat) (es : List Entry) (hc : c ≤ m) :
    limitSizeAux (m - c) s es = limitSizeAux m (c + s) es := by
  induction es generalizing s with
  | nil => rfl
  | cons e es ih =>
    simp only [limitSizeAux]
    have : (s + entrySize e > m - c) ↔ (c + s + entrySize e > m) := by omega
    simp only [this, ih, Nat.add_assoc]

theorem limitSizeAux_append (m s : Nat) (a b : List Entry) :
    limitSizeAux m s (a ++ b) =
      if s + entsSize a ≤ m then a ++ limitSizeAux m (s + entsSize a) b else limitSizeAux m s a := by
  induction a generalizing s with
  | nil =>
    by_cases h : s ≤ m
    · simp [h]
    · simp [h, limitSizeAux_over _ _ _ (show m < s by omega), limitSizeAux]
  | cons e a ih =>
    simp only [List.cons_append, limitSizeAux, entsSize_cons]
    by_cases h : s + entrySize e > m
    · rw [if_pos h, if_neg (by omega), if_pos h]
    · rw [if_neg h, if_neg h, ih]
      simp only [Nat.add_assoc]
      split <;> rfl

/-- **limitSize (1)**: the result is a prefix of the input -/
theorem limitSize_prefix (es : List Entry) (m : Nat) : limitSize es m <+: es := by
  cases es with
  | nil => exact List.prefix_rfl
  | cons e es => exact (List.prefix_cons_inj e).mpr (limitSizeAux_prefix _ _ _)

/-- **limitSize (2)**: the result is non-empty when the input is non-empty -/
theorem limitSize_ne_nil (es : List Entry) (m : Nat) (h : es ≠ []) : limitSize es m ≠ [] := by
  cases es with
  | nil => exact absurd rfl h
  | cons e es => simp [limitSize]

theorem limitSize_nil (m : Nat) : limitSize [] m = [] := rfl

theorem limitSize_length_pos (es : List Entry) (m : Nat) (h : es ≠ []) : 0 < (limitSize es m).length :=
  List.length_pos_iff.mpr (limitSize_ne_nil es m h)

/-- **limitSize (3)**: the total size is within the budget unless the result is a single entry -/
theorem limitSize_size (es : List Entry) (m : Nat) :
    entsSize (limitSize es m) ≤ m ∨ (limitSize es m).length = 1 := by
  cases es with
  | nil => left; simp [limitSize]
  | cons e es =>
    simp only [limitSize]
    by_cases h : entrySize e ≤ m
    · left
      have := limitSizeAux_size m (entrySize e) es h
      simpa using this
    · right
      rw [limitSizeAux_over _ _ _ (by omega)]; rfl

/-- **limitSize (4)**: maximality — if an entry was left out, including it would exceed the budget -/
theorem limitSize_maximal (es : List Entry) (m : Nat) (hlt : (limitSize es m).length < es.length) :
    m < entsSize (es.take ((limitSize es m).length + 1)) := by
  cases es with
  | nil => simp at hlt
  | cons e es =>
    simp only [limitSize, List.length_cons, Nat.add_lt_add_iff_right] at hlt ⊢
    have := limitSizeAux_maximal m (entrySize e) es hlt
    simpa using this

/-- **limitSize (5)**: the four properties determine the result -/
theorem limitSize_unique (es r : List Entry) (m : Nat)
    (hpre : r <+: es) (hne : es ≠ [] → r ≠ [])
    (hsz : entsSize r ≤ m ∨ r.length = 1)
    (hmax : r.length < es.length → m < entsSize (es.take (r.length + 1))) :
    r = limitSize es m := by
  have hpre' := limitSize_prefix es m
  have hr : r = es.take r.length := (List.prefix_iff_eq_take.mp hpre)
  have hl : limitSize es m = es.take (limitSize es m).length := (List.prefix_iff_eq_take.mp hpre')
  have hrl : r.length ≤ es.length := hpre.length_le
  have hll : (limitSize es m).length ≤ es.length := hpre'.length_le
  suffices h : r.length = (limitSize es m).length by rw [hr, hl, h]
  by_cases hes : es = []
  · subst hes
    have : r = [] := List.prefix_nil.mp hpre
    subst this; rfl
  have hr0 : 0 < r.length := List.length_pos_iff.mpr (hne hes)
  have hl0 := limitSize_length_pos es m hes
  rcases Nat.lt_trichotomy r.length (limitSize es m).length with hlt | heq | hgt
  · exfalso
    have h1 := hmax (by omega)
    have h2 : entsSize (es.take (r.length + 1)) ≤ entsSize (limitSize es m) := by
      apply entsSize_prefix_le
      rw [hl]
      simpa using List.take_prefix_take_left (l := es) (show r.length + 1 ≤ (limitSize es m).length by omega)
    rcases limitSize_size es m with h3 | h3 <;> omega
  · exact heq
  · exfalso
    have h1 := limitSize_maximal es m (by omega)
    have h2 : entsSize (es.take ((limitSize es m).length + 1)) ≤ entsSize r := by
      apply entsSize_prefix_le
      rw [hr]
      simpa using List.take_prefix_take_left (l := es) (show (limitSize es m).length + 1 ≤ r.length by omega)
    rcases hsz with h3 | h3 <;> omega

/-- taking the size-limited prefix of a prefix that was already cut short gives the same result -/
theorem limitSize_append (a b : List Entry) (m : Nat) (ha : a ≠ []) :
    limitSize (a ++ b) m =
      if entsSize a ≤ m then a ++ limitSizeAux m (entsSize a) b else limitSize a m := by
  cases a with
  | nil => exact absurd rfl ha
  | cons e a =>
    simp only [List.cons_append, limitSize, limitSizeAux_append, entsSize_cons]
    split <;> rfl

/-! ## the abstract log -/

/-- An abstract log: everything up to and including `base` is compacted (only its term `baseTerm`
is remembered); `ents` are the entries at indexes `base+1, base+2, …`. -/
structure ALog where
  base : Nat
  baseTerm : Nat
  ents : List Entry
  deriving Repr

namespace ALog

def first (a : ALog) : Nat := a.base + 1
def last (a : ALog) : Nat := a.base + a.ents.length

/-- the entries really carry the indexes `base+1, base+2, …` -/
def WF (a : ALog) : Prop := Contig (a.base + 1) a.ents

instance (a : ALog) : Decidable a.WF := by unfold WF; infer_instance

/-- the entry at index `i` (none outside `(base, last]`) -/
def entry? (a : ALog) (i : Nat) : Option Entry :=
  if a.base < i then a.ents[i - (a.base + 1)]? else none

/-- the term at index `i`: known for `base` and for every available entry -/
def term? (a : ALog) (i : Nat) : Option Nat :=
  if i = a.base then some a.baseTerm else (a.entry? i).map (·.term)

/-- the entries with indexes in `[lo, hi)`; only used for `first ≤ lo ≤ hi ≤ last + 1`
(see `slice_length`, `slice_getElem`) -/
def slice (a : ALog) (lo hi : Nat) : List Entry := (a.ents.drop (lo - (a.base + 1))).take (hi - lo)

/-- drop every entry at an index `≥ i` (only used for `first ≤ i`) -/
def truncateFrom (a : ALog) (i : Nat) : ALog := { a with ents := a.ents.take (i - (a.base + 1)) }

/-- append entries at the end -/
def extend (a : ALog) (es : List Entry) : ALog := { a with ents := a.ents ++ es }

/-- overwrite from the index of the first entry of `es`: truncate there, then append -/
def overwrite (a : ALog) (es : List Entry) : ALog :=
  match es with
  | [] => a
  | e0 :: _ => (a.truncateFrom e0.index).extend es

/-- forget everything up to and including index `i`, whose term is `t` (only used for `base ≤ i ≤ last`) -/
def compactTo (a : ALog) (i t : Nat) : ALog := { base := i, baseTerm := t, ents := a.ents.drop (i - a.base) }

theorem entry?_eq_some {a : ALog} (h : a.WF) {i : Nat} {e : Entry} (he : a.entry? i = some e) :
    e.index = i ∧ a.base < i ∧ i ≤ a.last := by
  unfold entry? at he
  split at he
  · have hi := h.getElem? he
    have := (List.getElem?_eq_some_iff.mp he).1
    unfold last; omega
  · cases he

theorem entry?_isSome_iff (a : ALog) (i : Nat) : (a.entry? i).isSome ↔ a.base < i ∧ i ≤ a.last := by
  unfold entry? last
  split
  · rw [isSome_getElem?]; omega
  · simp; omega

theorem entry?_eq_none_iff (a : ALog) (i : Nat) : a.entry? i = none ↔ i ≤ a.base ∨ a.last < i := by
  have := entry?_isSome_iff a i
  rw [← Option.not_isSome_iff_eq_none, this]; omega

theorem term?_isSome_iff (a : ALog) (i : Nat) : (a.term? i).isSome ↔ a.base ≤ i ∧ i ≤ a.last := by
  unfold term?
  split
  · subst i; simp [last]
  · rw [Option.isSome_map, entry?_isSome_iff]; omega

theorem term?_eq_none_iff (a : ALog) (i : Nat) : a.term? i = none ↔ i < a.base ∨ a.last < i := by
  have := term?_isSome_iff a i
  rw [← Option.not_isSome_iff_eq_none, this]; omega

theorem term?_base (a : ALog) : a.term? a.base = some a.baseTerm := by simp [term?]

theorem term?_of_base_lt (a : ALog) {i : Nat} (h : a.base < i) : a.term? i = (a.entry? i).map (·.term) := by
  unfold term?; rw [if_neg (by omega)]

theorem slice_length (a : ALog) {lo hi : Nat} (h1 : a.first ≤ lo) (h2 : lo ≤ hi) (h3 : hi ≤ a.last + 1) :
    (a.slice lo hi).length = hi - lo := by
  unfold first last at *
  simp only [slice, List.length_take, List.length_drop]; omega

/-- the `k`-th entry of `slice lo hi` is the entry at index `lo + k` -/
theorem slice_getElem? (a : ALog) {lo hi : Nat} (h1 : a.first ≤ lo) (k : Nat) (hk : k < hi - lo) :
    (a.slice lo hi)[k]? = a.entry? (lo + k) := by
  unfold first at h1
  simp only [slice, entry?, List.getElem?_take, List.getElem?_drop]
  rw [if_pos hk, if_pos (by omega)]
  congr 1; omega

theorem slice_contig {a : ALog} (h : a.WF) {lo hi : Nat} (h1 : a.first ≤ lo) : Contig lo (a.slice lo hi) := by
  unfold first at h1
  have := (Contig.drop h (lo - (a.base + 1))).take (hi - lo)
  have e : a.base + 1 + (lo - (a.base + 1)) = lo := by omega
  rw [e] at this
  exact this

theorem slice_self (a : ALog) (lo : Nat) : a.slice lo lo = [] := by simp [slice]

/-- splitting a range -/
theorem slice_append (a : ALog) {lo mid hi : Nat} (h1 : a.first ≤ lo) (h2 : lo ≤ mid) (h3 : mid ≤ hi) :
    a.slice lo mid ++ a.slice mid hi = a.slice lo hi := by
  unfold first at h1
  simp only [slice]
  have e1 : mid - (a.base + 1) = (lo - (a.base + 1)) + (mid - lo) := by omega
  have e2 : hi - lo = (mid - lo) + (hi - mid) := by omega
  rw [e1, e2, ← List.drop_drop, List.take_add]

end ALog

/-! ## MemoryStorage: invariant and abstraction -/

namespace MemoryStorage

/-- `ents` is never empty (the dummy entry is always there) and the stored indexes are contiguous
starting from the dummy entry -/
def WF (ms : MemoryStorage) : Prop := ms.ents ≠ [] ∧ Contig ms.offset ms.ents

instance (ms : MemoryStorage) : Decidable ms.WF := by unfold WF; infer_instance

/-- the term of the dummy entry -/
def dummyTerm (ms : MemoryStorage) : Nat := (ms.ents.head?.map (·.term)).getD 0

/-- abstraction: the dummy entry is the compaction point, the rest are the entries -/
def abs (ms : MemoryStorage) : ALog := { base := ms.offset, baseTerm := ms.dummyTerm, ents := ms.ents.tail }

end MemoryStorage

end RaftVerif
