import RaftVerif.Proofs.SimCorFlowNew
import RaftVerif.Props.Simulation
/-!
# Proofs/SimCorFlowAll — `WindowsOK` of every live node is an invariant of `Simulation.EnvStep`
-/
namespace RaftVerif.SimCorFlow
open Raft Sim Refine Simulation

/-- every live node's progress table has well-formed inflight windows -/
def WinC (c : Cluster) : Prop := ∀ n rn, c.nodes n = some rn → WindowsOK rn.raft

theorem WinC.setNode {c : Cluster} (h : WinC c) (n : Nat) (rn' : RawNode) (hn : WindowsOK rn'.raft) :
    WinC (c.setNode n rn') := by
  intro k rk hk
  unfold Cluster.setNode at hk
  by_cases hkn : k = n
  · simp only [hkn, if_true, Option.some.injEq] at hk
    rw [← hk]; exact hn
  · simp only [hkn, if_false] at hk
    exact h k rk hk

theorem WinC.init {voters : List Id} {c0 : Cluster} (hc : InitCluster voters c0) : WinC c0 := by
  intro n rn hn
  obtain ⟨_, cfg, draws, _, _, _, _, hnew⟩ := hc.2 n rn hn
  exact new_win hnew

theorem WinC.step {c c' : Cluster} (h : WinC c) (hs : EnvStep c c') : WinC c' := by
  cases hs with
  | deliver n rn rn' draws m e hn _ _ _ hst => exact h.setNode n rn' (step_win hst (h n rn hn))
  | tick n rn rn' draws hn hst => exact h.setNode n rn' (tick_win hst (h n rn hn))
  | propose n rn rn' draws data e hn hst => exact h.setNode n rn' (rstep_win hst (h n rn hn))
  | sync n rn rn' draws rd hn hst =>
    intro k rk hk
    exact h.setNode n rn' (syncRound_win hst (h n rn hn)) k rk hk
  | campaign n rn rn' draws e hn hst => exact h.setNode n rn' (rstep_win hst (h n rn hn))
  | crash n rn rn' cfg draws hn _ _ _ _ _ hnew => exact h.setNode n rn' (new_win hnew)

theorem WinC.reachable {voters : List Id} {c0 c : Cluster} (hc : InitCluster voters c0)
    (h : CReachable c0 c) : WinC c := by
  induction h with
  | init => exact WinC.init hc
  | step _ hs ih => exact ih.step hs

end RaftVerif.SimCorFlow
