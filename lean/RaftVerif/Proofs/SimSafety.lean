import RaftVerif.Proofs.SimCluster
/-!
# Proofs/SimSafety — transfer of Spec safety to related clusters
-/
namespace RaftVerif.Sim
open Refine

/-- Spec: two versions anywhere agree on every index that is at or below both their commit indexes -/
theorem spec_commit_agree {cfg : Spec.Cfg} (hcfg : cfg.OK) {s : Spec.State} (h : Spec.Reachable cfg s)
    {a b : Nat} {w w' : Spec.Ver} (hw : w ∈ Spec.versions (s.nodes a)) (hw' : w' ∈ Spec.versions (s.nodes b))
    {i : Nat} (hi : 1 ≤ i) (h1 : i ≤ w.commit) (h2 : i ≤ w'.commit) : w.log.at? i = w'.log.at? i := by
  have hi2 := Spec.inv2_reachable cfg hcfg s h
  have hi3 := Spec.inv3_reachable cfg hcfg s h
  rcases hi3.ver_commit a w hw with h0 | ⟨c, j, _, hmj, hch, htk⟩
  · omega
  rcases hi3.ver_commit b w' hw' with h0 | ⟨c', j', _, hmj', hch', htk'⟩
  · omega
  have e1 : w.log.at? i = (s.glog c).at? i := by
    rw [← Spec.Log.at?_take h1, htk, Spec.Log.at?_take h1]
  have e2 : w'.log.at? i = (s.glog c').at? i := by
    rw [← Spec.Log.at?_take h2, htk', Spec.Log.at?_take h2]
  rw [e1, e2]
  rcases Nat.le_total c c' with hcc | hcc
  · exact (Spec.chosen_agree hcfg hi2 hi3 hch hch' hcc (by omega)).symm
  · exact Spec.chosen_agree hcfg hi2 hi3 hch' hch hcc (by omega)

/-- **transfer**: in a cluster related to a (reachable) Spec state, two nodes never hold different abstract
entries at an index that both have committed -/
theorem R.commit_agree {val : Val} {voters : List Id} {c : Cluster} {s : Spec.State} (hR : R val voters c s)
    (hne : voters ≠ []) (hnd : voters.Nodup) {a b : Nat} {ra rb : RawNode}
    (ha : c.nodes a = some ra) (hb : c.nodes b = some rb) {i : Nat} (hi : 1 ≤ i)
    (h1 : i ≤ ra.raft.log.committed) (h2 : i ≤ rb.raft.log.committed) :
    (absLog val ra.raft).at? i = (absLog val rb.raft).at? i := by
  have hcfg : (cfgOf voters).OK := Spec.jointCfg_ok voters [] hne hnd (by simp)
  have A := (hR.nodes a ra ha).inv.abs
  have B := (hR.nodes b rb hb).inv.abs
  have := spec_commit_agree hcfg hR.reach (a := a) (b := b) (w := (s.nodes a).vol) (w' := (s.nodes b).vol)
    (by simp [Spec.versions]) (by simp [Spec.versions]) hi (by rw [A.commit]; exact h1) (by rw [B.commit]; exact h2)
  rw [A.log, B.log] at this
  exact this

end RaftVerif.Sim
