import RaftVerif.Proofs.SimAppAux
import RaftVerif.Proofs.SimLog
/-!
# Proofs/SimAppLog — a same-term MsgApp keeps `Settled`
-/
namespace RaftVerif.Sim
open Refine
set_option linter.unusedSimpArgs false

/-- `handleAppendEntries` leaves the log alone (stale branch) or replaces it by the result of `maybeAppend` -/
theorem app_handle_log (m : Message) (s : Raft) :
    Spec (Raft.handleAppendEntries m) s (fun _ s' =>
      s'.log = s.log ∨ ∃ prev ents c res, s.log.maybeAppend prev ents c = .ok (s'.log, res)) := by
  unfold Raft.handleAppendEntries
  simp only [wp]
  refine ⟨fun _ => ?_, fun _ p hp => ?_⟩
  · refine (send_appResp_spec s _ _ _ _ _).mono ?_
    rintro _ s' rfl
    exact Or.inl rfl
  · obtain ⟨l', res⟩ := p
    cases res with
    | some li =>
      simp only [wp]
      refine (send_appResp_spec _ _ _ _ _ _).mono ?_
      rintro _ s' rfl
      exact Or.inr ⟨_, _, _, _, hp⟩
    | none =>
      simp only [wp]
      refine (send_appResp_spec _ _ _ _ _ _).mono ?_
      rintro _ s' rfl
      exact Or.inr ⟨_, _, _, _, hp⟩

/-- a same-term MsgApp keeps `Settled` -/
theorem settled_app_same {r r' : Raft} {m : Message} {e : Option StepErr} {fuel : Nat} (hs : Settled r)
    (ht : m.typ = .app) (hterm : m.term = r.term)
    (h : (Raft.step (fuel + 1) m).run r = .ok (e, r')) : Settled r' := by
  by_cases hl : r.state = .leader
  · rw [app_leader_ignored ht hterm hl h]
    exact hs
  · obtain ⟨_, mid, hv, hrun⟩ := step_applike_factors fuel m r r' e Raft.handleAppendEntries
      (stepFollower_app_run fuel m ht) (stepCandidate_app_run fuel m ht) (by rw [ht]; decide) hterm hl h
    have hmid : LSettled mid.log := by rw [hv.log]; exact hs
    rcases (app_handle_log m mid).elim hrun with h1 | ⟨prev, ents, c, res, h1⟩
    · show LSettled r'.log
      rw [h1]; exact hmid
    · exact maybeAppend_settled hmid h1

end RaftVerif.Sim
