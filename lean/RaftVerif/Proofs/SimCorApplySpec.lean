import RaftVerif.Proofs.SimCorApply
/-!
# Proofs/SimCorApplySpec — "index `i` is chosen with entry `x`" is stable along Spec steps

`ChosenAt cfg s i x`: some chosen index `j ≥ i` of some term `c` whose ghost log holds `x` at `i`.  It holds for every
entry at or below the commit index of any version of any node (`Inv3.ver_commit`), it is preserved by every enabled
action (`chosen_step`, `glog_ext`), and two such facts about one index name the same entry (`chosen_agree`).
-/
namespace RaftVerif.Spec

def ChosenAt (cfg : Cfg) (s : State) (i : Nat) (x : Ent) : Prop :=
  ∃ c j, i ≤ j ∧ Chosen cfg s c j ∧ (s.glog c).at? i = some x

theorem Log.at?_of_prefix {l m : Log} (h : l <+: m) {i : Nat} {x : Ent} (hx : l.at? i = some x) :
    m.at? i = some x := by
  obtain ⟨r, rfl⟩ := h
  unfold Log.at? at hx ⊢
  by_cases hi : i = 0
  · simp [hi] at hx
  · rw [if_neg hi] at hx ⊢
    have hlt : i - 1 < l.length := by
      rcases Nat.lt_or_ge (i - 1) l.length with h | h
      · exact h
      · rw [List.getElem?_eq_none h] at hx; cases hx
    rw [List.getElem?_append_left hlt]
    exact hx

theorem chosenAt_step {cfg : Cfg} (hcfg : cfg.OK) {s : State} {a : Action} (hs : Reachable cfg s)
    (he : enabled cfg s a) {i : Nat} {x : Ent} (h : ChosenAt cfg s i x) : ChosenAt cfg (apply s a) i x := by
  have h1 := inv1_reachable cfg hcfg s hs
  have h2 := inv2_reachable cfg hcfg s hs
  have h3 := inv3_reachable cfg hcfg s hs
  obtain ⟨c, j, hij, hch, hat⟩ := h
  exact ⟨c, j, hij, chosen_step hcfg h1 h2 h3 he hch, Log.at?_of_prefix (glog_ext cfg hcfg s a h1 h2 he c) hat⟩

theorem chosenAt_of_ver {cfg : Cfg} {s : State} (h3 : Inv3 cfg s) {n : NodeId} {w : Ver}
    (hw : w ∈ versions (s.nodes n)) {i : Nat} (hi : 1 ≤ i) (hic : i ≤ w.commit) {x : Ent}
    (hx : w.log.at? i = some x) : ChosenAt cfg s i x := by
  rcases h3.ver_commit n w hw with h0 | ⟨c, j, _, hj, hch, htk⟩
  · omega
  · refine ⟨c, j, Nat.le_trans hic hj, hch, ?_⟩
    rw [← Log.at?_take hic, ← htk, Log.at?_take hic]
    exact hx

theorem chosenAt_agree {cfg : Cfg} (hcfg : cfg.OK) {s : State} (hs : Reachable cfg s) {i : Nat} {x y : Ent}
    (hx : ChosenAt cfg s i x) (hy : ChosenAt cfg s i y) : x = y := by
  have h2 := inv2_reachable cfg hcfg s hs
  have h3 := inv3_reachable cfg hcfg s hs
  obtain ⟨c, j, hj, hch, hat⟩ := hx
  obtain ⟨c', j', hj', hch', hat'⟩ := hy
  have : (s.glog c).at? i = (s.glog c').at? i := by
    rcases Nat.le_total c c' with hcc | hcc
    · exact (chosen_agree hcfg h2 h3 hch hch' hcc hj).symm
    · exact chosen_agree hcfg h2 h3 hch' hch hcc hj'
  rw [hat, hat'] at this
  exact Option.some.inj this

end RaftVerif.Spec

namespace RaftVerif.SimCorP
open Sim Refine Simulation

theorem chosenAt_runL {cfg : Spec.Cfg} (hcfg : cfg.OK) {s s' : Spec.State} {as : List Spec.Action}
    (hr : RunL cfg s as s') (hs : Spec.Reachable cfg s) {i : Nat} {x : Spec.Ent}
    (h : Spec.ChosenAt cfg s i x) : Spec.ChosenAt cfg s' i x := by
  induction hr with
  | nil s => exact h
  | cons he _ ih => exact ih (.step _ _ hs he) (Spec.chosenAt_step hcfg hs he h)

end RaftVerif.SimCorP
