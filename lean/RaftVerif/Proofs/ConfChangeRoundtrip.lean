import RaftVerif.Proofs.ConfChangeRestore
/-!
# Proofs/ConfChangeRoundtrip — `Restore` from the ConfState of a reachable configuration reproduces
that configuration exactly; `StagedDisjoint` and "no zero id" are invariants of the changer
-/
namespace RaftVerif
set_option linter.unusedSimpArgs false
set_option linter.unusedVariables false

/-- the changer `Restore` is started with: an empty tracker (`tracker.MakeProgressTracker`) -/
def restoreStart (mi mb li : Nat) : Changer := { tracker := Tracker.make mi mb, lastIndex := li }

theorem rinv_start (mi mb li : Nat) : RInv (restoreStart mi mb li) := by
  refine ⟨⟨⟨?_, ?_, ?_, ?_, ?_, ?_, ?_, ?_⟩, ?_⟩, ⟨sorted_nil, optWF_none, optWF_none, optWF_none⟩, sorted_nil, rfl⟩
  · intro id h; simp [restoreStart, Tracker.make, cfgMember] at h
  · intro id h; simp [restoreStart, Tracker.make] at h
  · intro id h; simp [restoreStart, Tracker.make] at h
  · intro id h; simp [restoreStart, Tracker.make] at h
  · intro id h; simp [restoreStart, Tracker.make] at h
  · intro id h; simp [restoreStart, Tracker.make] at h
  · intro _; exact ⟨rfl, rfl, rfl⟩
  · intro id h; exact absurd (mapGet_nil id) h
  · intro x pr h; simp [restoreStart, Tracker.make, mapGet_nil] at h

theorem cfg_eq_of_views {a b : TrackerConfig} (wa : ConfWF a) (wb : ConfWF b)
    (ho : a.outgoing = b.outgoing) (hal : a.autoLeave = b.autoLeave)
    (hv : ∀ x, x ∈ a.voters ↔ x ∈ b.voters)
    (hl : ∀ x, x ∈ a.learners.getD [] ↔ x ∈ b.learners.getD [])
    (hn : ∀ x, x ∈ a.learnersNext.getD [] ↔ x ∈ b.learnersNext.getD []) : a = b := by
  have e1 := sorted_ext wa.voters wb.voters hv
  have e3 := optWF_ext wa.learners wb.learners hl
  have e4 := optWF_ext wa.learnersNext wb.learnersNext hn
  cases a; cases b; simp_all

theorem nonzero_of_not_member {cfg : TrackerConfig} (hz : ¬ cfgMember cfg 0) :
    (∀ id ∈ cfg.voters, id ≠ 0) ∧ (∀ id ∈ cfg.outgoing.getD [], id ≠ 0) ∧
    (∀ id ∈ cfg.learners.getD [], id ≠ 0) ∧ (∀ id ∈ cfg.learnersNext.getD [], id ≠ 0) := by
  unfold cfgMember at hz
  refine ⟨?_, ?_, ?_, ?_⟩ <;> (intro id hid e; subst e; apply hz; simp [hid])

theorem restore_nonjoint (t : Tracker) (hs : ConfInvStrong t.cfg t.progress) (hz : ¬ cfgMember t.cfg 0)
    (hnj : t.cfg.outgoing = none) (mi mb li : Nat) :
    ∃ trk', restoreConf (restoreStart mi mb li) t.confState = .ok (t.cfg, trk') ∧
      ConfInvStrong t.cfg trk' := by
  obtain ⟨_, hln, hal⟩ := hs.inv.nonJoint (by rw [hnj]; rfl)
  obtain ⟨zv, _, zl, _⟩ := nonzero_of_not_member hz
  rw [restore_eq]
  have e0 : t.confState.votersOutgoing = [] := by simp [Tracker.confState, Tracker.outgoingL, hnj]
  rw [if_pos e0, e0]
  have e1 : t.confState.learnersNext = [] := by simp [Tracker.confState, hln]
  rw [e1]
  simp only [List.map_nil, List.nil_append, List.append_nil]
  rw [show t.confState.voters = t.cfg.voters from rfl,
      show t.confState.learners = t.cfg.learners.getD [] from rfl, simpleFold_append]
  obtain ⟨c1, a1, a2, a3⟩ := simpleFold_adds t.cfg.voters (restoreStart mi mb li) (rinv_start mi mb li) zv
  rw [a1, ok_bind]
  have hv1 : c1.tracker.cfg.voters = t.cfg.voters := by
    apply sorted_ext a2.wf.voters hs.wf.voters
    intro x; rw [(a3 x).1]; simp [restoreStart, Tracker.make]
  obtain ⟨c2, b1, b2, b3, b4⟩ := simpleFold_learners (t.cfg.learners.getD []) c1 a2 zl
    (by rw [hv1]; exact hs.votersNe)
    (by rw [hv1]; exact fun id hid => (hs.inv.learners id hid).2.1)
  rw [b1, ok_bind, pure_eq]
  have hcfg : c2.tracker.cfg = t.cfg := by
    apply cfg_eq_of_views b2.wf hs.wf (b2.nj.trans hnj.symm) (b2.autoLeave.trans hal.symm)
    · intro x; rw [b3, hv1]
    · intro x; rw [(b4 x).1, (a3 x).2.1]; simp [restoreStart, Tracker.make]
    · intro x; rw [(b4 x).2, (a3 x).2.2, hln]; simp [restoreStart, Tracker.make]
  refine ⟨c2.tracker.progress, by rw [hcfg], ?_⟩
  have := b2.rsem.sem
  rw [hcfg] at this
  exact strong_of_sem this hs.wf b2.ks hs.votersNe

theorem rsem_enter {chg : Changer} (h : RInv chg) (hv : chg.tracker.cfg.voters ≠ []) :
    RSem { chg.tracker.cfg.clone with outgoing := some chg.tracker.cfg.clone.voters } chg.tracker.progress := by
  have hci : checkInvariants chg.tracker.cfg.clone chg.tracker.progress = .ok () :=
    (checkInvariants_ok_iff _ _).mpr (confInv_clone ((semInv_iff _ _).mp h.rsem.sem).1)
  have hj : joint chg.tracker.cfg.clone = false := by rw [joint_eq_false_iff, clone_outgoing, h.nj]; rfl
  exact ⟨sem_enter ((semInv_iff _ _).mp h.rsem.sem).2 hci hj hv, h.rsem.flag⟩

theorem restore_joint (t : Tracker) (hs : ConfInvStrong t.cfg t.progress) (hd : StagedDisjoint t.cfg)
    (hz : ¬ cfgMember t.cfg 0) (hj : t.cfg.outgoing ≠ none) (mi mb li : Nat) :
    ∃ trk', restoreConf (restoreStart mi mb li) t.confState = .ok (t.cfg, trk') ∧
      ConfInvStrong t.cfg trk' := by
  obtain ⟨zv, zo, zl, zn⟩ := nonzero_of_not_member hz
  have hone : t.cfg.outgoing.getD [] ≠ [] := fun e => hj ((outgoing_none_iff hs.wf.outgoing).mpr e)
  have hosome : t.cfg.outgoing = some (t.cfg.outgoing.getD []) := by
    cases ho : t.cfg.outgoing with
    | none => exact absurd ho hj
    | some l => rfl
  rw [restore_eq]
  have e0 : t.confState.votersOutgoing = t.cfg.outgoing.getD [] := rfl
  rw [if_neg (by rw [e0]; exact hone), e0,
      show t.confState.voters = t.cfg.voters from rfl,
      show t.confState.learners = t.cfg.learners.getD [] from rfl,
      show t.confState.learnersNext = t.cfg.learnersNext.getD [] from rfl,
      show t.confState.autoLeave = t.cfg.autoLeave from rfl]
  -- phase 1: the outgoing voters become the voters of a non-joint configuration
  obtain ⟨c1, a1, a2, a3⟩ := simpleFold_adds (t.cfg.outgoing.getD []) (restoreStart mi mb li)
    (rinv_start mi mb li) zo
  rw [a1, ok_bind]
  have hv1 : c1.tracker.cfg.voters = t.cfg.outgoing.getD [] := by
    apply sorted_ext a2.wf.voters hs.wf.outgoing.2
    intro x; rw [(a3 x).1]; simp [restoreStart, Tracker.make]
  have hv1ne : c1.tracker.cfg.voters ≠ [] := by rw [hv1]; exact hone
  have hl1 : ∀ x, x ∉ c1.tracker.cfg.learners.getD [] := by
    intro x; rw [(a3 x).2.1]; simp [restoreStart, Tracker.make]
  have hn1 : ∀ x, x ∉ c1.tracker.cfg.learnersNext.getD [] := by
    intro x; rw [(a3 x).2.2]; simp [restoreStart, Tracker.make]
  -- phase 2: EnterJoint
  have hs0 := rsem_enter a2 hv1ne
  have hw0 : ConfWF { c1.tracker.cfg.clone with outgoing := some c1.tracker.cfg.clone.voters } :=
    ⟨a2.wf.voters, ⟨by simpa using hv1ne, a2.wf.voters⟩, a2.wf.learners, a2.wf.learnersNext⟩
  generalize hs0def : (({ c1.tracker.cfg.clone with outgoing := some c1.tracker.cfg.clone.voters },
    c1.tracker.progress) : CS) = s0 at *
  have hs0' : RSem s0.1 s0.2 := by rw [← hs0def]; exact hs0
  have hw0' : ConfWF s0.1 ∧ Sorted (keys s0.2) := by rw [← hs0def]; exact ⟨hw0, a2.ks⟩
  have ho0 : s0.1.outgoing = some (t.cfg.outgoing.getD []) := by rw [← hs0def]; simp [hv1]
  have hV0 : ∀ x, x ∈ s0.1.voters ↔ x ∈ t.cfg.outgoing.getD [] := by
    intro x; rw [← hs0def]; simp [hv1]
  have hL0 : ∀ x, x ∉ s0.1.learners.getD [] := by rw [← hs0def]; exact hl1
  have hN0 : ∀ x, x ∉ s0.1.learnersNext.getD [] := by rw [← hs0def]; exact hn1
  have hfold : enterJointFold c1
      ((t.cfg.outgoing.getD []).map (mkCC .removeNode) ++ t.cfg.voters.map (mkCC .addNode) ++
        (t.cfg.learners.getD []).map (mkCC .addLearnerNode) ++
        (t.cfg.learnersNext.getD []).map (mkCC .addLearnerNode)) =
      ((t.cfg.learnersNext.getD []).map (mkCC .addLearnerNode)).foldl (applyStep c1)
        (((t.cfg.learners.getD []).map (mkCC .addLearnerNode)).foldl (applyStep c1)
          ((t.cfg.voters.map (mkCC .addNode)).foldl (applyStep c1)
            (((t.cfg.outgoing.getD []).map (mkCC .removeNode)).foldl (applyStep c1) s0))) := by
    unfold enterJointFold
    rw [hs0def, List.foldl_append, List.foldl_append, List.foldl_append]
  -- 2a: remove every outgoing voter from the incoming half
  obtain ⟨r1, v1⟩ := fold_removes c1 (t.cfg.outgoing.getD []) s0 hs0' zo
  have o1 := fold_outgoing c1 ((t.cfg.outgoing.getD []).map (mkCC .removeNode)) s0
  have w1 := fold_wf c1 ((t.cfg.outgoing.getD []).map (mkCC .removeNode)) s0 hw0'
  generalize ((t.cfg.outgoing.getD []).map (mkCC .removeNode)).foldl (applyStep c1) s0 = s1 at *
  -- 2b: add the incoming voters
  obtain ⟨r2, v2⟩ := fold_adds c1 t.cfg.voters s1 r1 zv
  have o2 := fold_outgoing c1 (t.cfg.voters.map (mkCC .addNode)) s1
  have w2 := fold_wf c1 (t.cfg.voters.map (mkCC .addNode)) s1 w1
  generalize (t.cfg.voters.map (mkCC .addNode)).foldl (applyStep c1) s1 = s2 at *
  -- 2c: add the learners (none of them is an outgoing voter)
  have hlo : ∀ id ∈ t.cfg.learners.getD [], id ∉ s2.1.outgoing.getD [] := by
    intro id hid
    rw [o2.1, o1.1, ho0]
    exact (hs.inv.learners id hid).1
  obtain ⟨r3, v3⟩ := fold_learners_not_out c1 (t.cfg.learners.getD []) s2 r2 zl hlo
  have o3 := fold_outgoing c1 ((t.cfg.learners.getD []).map (mkCC .addLearnerNode)) s2
  have w3 := fold_wf c1 ((t.cfg.learners.getD []).map (mkCC .addLearnerNode)) s2 w2
  generalize ((t.cfg.learners.getD []).map (mkCC .addLearnerNode)).foldl (applyStep c1) s2 = s3 at *
  -- 2d: stage the learners that are still outgoing voters
  have hno : ∀ id ∈ t.cfg.learnersNext.getD [], id ∈ s3.1.outgoing.getD [] ∧ id ∉ s3.1.learners.getD [] := by
    intro id hid
    have hio := (hs.inv.learnersNext id hid).1
    rw [o3.1, o2.1, o1.1, ho0, (v3 id).2.1, (v2 id).2.1, (v1 id).2.1]
    refine ⟨hio, ?_⟩
    rintro (h | ⟨⟨h, _⟩, _⟩)
    · exact (hs.inv.learners id h).1 hio
    · exact hL0 id h
  obtain ⟨r4, v4⟩ := fold_learners_out c1 (t.cfg.learnersNext.getD []) s3 r3 zn hno
  have o4 := fold_outgoing c1 ((t.cfg.learnersNext.getD []).map (mkCC .addLearnerNode)) s3
  have w4 := fold_wf c1 ((t.cfg.learnersNext.getD []).map (mkCC .addLearnerNode)) s3 w3
  generalize ((t.cfg.learnersNext.getD []).map (mkCC .addLearnerNode)).foldl (applyStep c1) s3 = s4 at *
  -- the resulting sets
  have hV : ∀ x, x ∈ s4.1.voters ↔ x ∈ t.cfg.voters := by
    intro x
    rw [(v4 x).1, (v3 x).1, (v2 x).1, (v1 x).1, hV0 x]
    constructor
    · rintro ⟨⟨h | ⟨_, h⟩, _⟩, _⟩
      · exact h
      · exact absurd ‹x ∈ t.cfg.outgoing.getD []› h
    · intro h
      exact ⟨⟨Or.inl h, fun hl => (hs.inv.learners x hl).2.1 h⟩, fun hn => hd x hn h⟩
  have hL : ∀ x, x ∈ s4.1.learners.getD [] ↔ x ∈ t.cfg.learners.getD [] := by
    intro x
    rw [(v4 x).2.1, (v3 x).2.1, (v2 x).2.1, (v1 x).2.1]
    constructor
    · rintro (h | ⟨⟨h, _⟩, _⟩)
      · exact h
      · exact absurd h (hL0 x)
    · exact Or.inl
  have hN : ∀ x, x ∈ s4.1.learnersNext.getD [] ↔ x ∈ t.cfg.learnersNext.getD [] := by
    intro x
    rw [(v4 x).2.2, (v3 x).2.2, (v2 x).2.2, (v1 x).2.2]
    constructor
    · rintro (h | ⟨⟨h, _⟩, _⟩)
      · exact h
      · exact absurd h (hN0 x)
    · exact Or.inl
  have ho4 : s4.1.outgoing = t.cfg.outgoing := by rw [o4.1, o3.1, o2.1, o1.1, ho0, ← hosome]
  have hne4 : s4.1.outgoing.getD [] ≠ [] := by rw [ho4]; exact hone
  have hcfg : ({ s4.1 with autoLeave := t.cfg.autoLeave } : TrackerConfig) = t.cfg :=
    cfg_eq_of_views ⟨w4.1.voters, w4.1.outgoing, w4.1.learners, w4.1.learnersNext⟩ hs.wf ho4 rfl hV hL hN
  have hsem4 := semInv_autoLeave t.cfg.autoLeave r4.sem hne4
  have hvne : s4.1.voters ≠ [] := by
    obtain ⟨v, hv⟩ := List.exists_mem_of_ne_nil _ hs.votersNe
    exact List.ne_nil_of_mem ((hV v).mpr hv)
  refine ⟨s4.2, ?_, ?_⟩
  · rw [enterJoint_ok_iff, hfold]
    refine ⟨(checkInvariants_ok_iff _ _).mpr (confInv_clone ((semInv_iff _ _).mp a2.rsem.sem).1), ?_,
      hv1ne, hvne, ?_, ?_⟩
    · rw [joint_eq_false_iff, clone_outgoing, a2.nj]; rfl
    · rw [hcfg]
    · exact (checkInvariants_ok_iff _ _).mpr (by rw [← hcfg]; exact ((semInv_iff _ _).mp hsem4).1)
  · rw [hcfg] at hsem4
    exact strong_of_sem hsem4 hs.wf w4.2 hs.votersNe

/-! ### `StagedDisjoint` and "no zero id" are preserved by all three operations -/

theorem fold_staged (c : Changer) (ccs : List ConfChangeSingle) (s : CS)
    (h : SemInv s.1 s.2 ∧ StagedDisjoint s.1) :
    StagedDisjoint (ccs.foldl (applyStep c) s).1 := by
  have := foldl_inv (applyStep c) (fun r => SemInv r.1 r.2 ∧ StagedDisjoint r.1)
    (fun s a hs => ⟨applyStep_sem c s a hs.1,
      applyStep_cases c s a (fun r => StagedDisjoint r.1) hs.2 (fun _ => op_staged c s.1 s.2 a.nodeId hs.1 hs.2)⟩)
    ccs s h
  exact this.2

theorem fold_nonzero (c : Changer) (ccs : List ConfChangeSingle) (s : CS) (h : ¬ cfgMember s.1 0) :
    ¬ cfgMember (ccs.foldl (applyStep c) s).1 0 := by
  apply foldl_inv (applyStep c) (fun r => ¬ cfgMember r.1 0) _ ccs s h
  intro s a hs
  apply applyStep_cases c s a (fun r => ¬ cfgMember r.1 0) hs
  intro h0
  have := op_member c s.1 s.2 a.nodeId
  refine ⟨fun hm => ?_, fun hm => ?_, fun hm => ?_⟩
  · rcases this.1 0 hm with e | hm'; exact h0 e.symm; exact hs hm'
  · rcases this.2.1 0 hm with e | hm'; exact h0 e.symm; exact hs hm'
  · rcases this.2.2 0 hm with e | hm'; exact h0 e.symm; exact hs hm'

/-- what holds of every configuration reachable through the changer -/
structure ConfReach (cfg : TrackerConfig) (trk : ProgressMap) : Prop where
  strong : ConfInvStrong cfg trk
  staged : StagedDisjoint cfg
  nonzero : ¬ cfgMember cfg 0

theorem simple_reach (c : Changer) (ccs : List ConfChangeSingle) (r : CS)
    (hs : ConfReach c.tracker.cfg c.tracker.progress) (h : c.simple ccs = .ok r) : ConfReach r.1 r.2 := by
  obtain ⟨hci, hj, hr, _⟩ := (simple_ok_iff c ccs r).mp h
  have h0 := sem_clone (fun id hid => (hs.strong.keysExact id).mp hid) hci
  refine ⟨simple_strong c ccs r hs.strong h, ?_, ?_⟩
  · rw [hr]; exact fold_staged c ccs _ ⟨h0, hs.staged⟩
  · rw [hr]; exact fold_nonzero c ccs _ hs.nonzero

theorem enterJoint_reach (c : Changer) (al : Bool) (ccs : List ConfChangeSingle) (r : CS)
    (hs : ConfReach c.tracker.cfg c.tracker.progress) (h : c.enterJoint al ccs = .ok r) : ConfReach r.1 r.2 := by
  obtain ⟨hci, hj, hv0, hv, hr, _⟩ := (enterJoint_ok_iff c al ccs r).mp h
  have h0 := sem_enter (fun id hid => (hs.strong.keysExact id).mp hid) hci hj hv0
  have hnz : ¬ cfgMember ({ c.tracker.cfg.clone with outgoing := some c.tracker.cfg.clone.voters } : TrackerConfig) 0 := by
    have := hs.nonzero
    unfold cfgMember at this ⊢
    simp only [Option.getD_some, clone_voters, clone_learners, clone_learnersNext]
    grind
  refine ⟨enterJoint_strong c al ccs r hs.strong h, ?_, ?_⟩
  · rw [hr]; exact fold_staged c ccs _ ⟨h0, hs.staged⟩
  · rw [hr]; exact fold_nonzero c ccs _ hnz

theorem leaveJoint_reach (c : Changer) (r : CS)
    (hs : ConfReach c.tracker.cfg c.tracker.progress) (h : c.leaveJoint = .ok r) : ConfReach r.1 r.2 := by
  obtain ⟨_, _, hr, _⟩ := (leaveJoint_ok_iff c r).mp h
  obtain ⟨h1, h2, h3, h4, h5, _⟩ := leaveJointResult_spec c
  refine ⟨leaveJoint_strong c r hs.strong h, ?_, ?_⟩
  · rw [hr]; intro id hid; rw [h3] at hid; simp at hid
  · rw [hr]
    have := hs.nonzero
    unfold cfgMember at this ⊢
    rw [h1, h2, h3, h5 0]
    simp only [Option.getD_none, List.not_mem_nil, false_or, or_false]
    grind

/-- base case of reachability: the first accepted change applied to an empty tracker -/
theorem simple_reach_empty (mi mb li : Nat) (ccs : List ConfChangeSingle) (r : CS)
    (h : (restoreStart mi mb li).simple ccs = .ok r) : ConfReach r.1 r.2 := by
  obtain ⟨hci, hj, hr, hv, _, _⟩ := (simple_ok_iff _ ccs r).mp h
  have hi := rinv_start mi mb li
  have h0 : SemInv (restoreStart mi mb li).tracker.cfg.clone (restoreStart mi mb li).tracker.progress :=
    sem_clone (fun id hid => by simp [restoreStart, Tracker.make] at hid) hci
  have h1 := fold_sem (restoreStart mi mb li) ccs
    ((restoreStart mi mb li).tracker.cfg.clone, (restoreStart mi mb li).tracker.progress) h0
  have h2 := fold_wf (restoreStart mi mb li) ccs
    ((restoreStart mi mb li).tracker.cfg.clone, (restoreStart mi mb li).tracker.progress)
    ⟨confWF_clone hi.wf, hi.ks⟩
  have h3 := fold_staged (restoreStart mi mb li) ccs
    ((restoreStart mi mb li).tracker.cfg.clone, (restoreStart mi mb li).tracker.progress)
    ⟨h0, fun id hid => by simp [restoreStart, Tracker.make] at hid⟩
  have h4 := fold_nonzero (restoreStart mi mb li) ccs
    ((restoreStart mi mb li).tracker.cfg.clone, (restoreStart mi mb li).tracker.progress)
    (by simp [restoreStart, Tracker.make, cfgMember, TrackerConfig.clone])
  rw [← hr] at h1 h2 h3 h4
  exact ⟨strong_of_sem h1 h2.1 h2.2 hv, h3, h4⟩

/-! ### round trip -/

theorem confState_equivalent_refl (a : ConfState) : ConfState.equivalent a a = true := by
  unfold ConfState.equivalent; simp

theorem restore_exact (t : Tracker) (hs : ConfReach t.cfg t.progress) (mi mb li : Nat) :
    ∃ trk', restoreConf (restoreStart mi mb li) t.confState = .ok (t.cfg, trk') ∧
      ConfInvStrong t.cfg trk' := by
  by_cases hj : t.cfg.outgoing = none
  · exact restore_nonjoint t hs.strong hs.nonzero hj mi mb li
  · exact restore_joint t hs.strong hs.staged hs.nonzero hj mi mb li

end RaftVerif
