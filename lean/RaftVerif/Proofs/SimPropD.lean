import RaftVerif.Proofs.SimPropAux
import RaftVerif.Proofs.SimDur
/-!
# Proofs/SimPropD — MsgProp, with the durable frame exposed (`RaftSimD`)
-/
namespace RaftVerif.Sim
open Refine Raft

/-- (`RaftSimD` variant of `sim_prop_accepted`) the accepted MsgProp of a leader: Spec `leaderAppend` per entry, then `sendApp` per queued MsgApp.
`hmatch` (the leader's own `Match` does not exceed its last index) is needed to keep `matchS`: it is not part of `RaftInv` -/
theorem simD_prop_accepted {val : Val} {voters : List Id} {n : Nat} {s : Spec.State} {r r' : Raft} {m : Message}
    {ents : List Entry} (hinv : RaftInv val voters n r (s.nodes n) s.msgs) (hs : r.state = .leader)
    (hne : m.entries ≠ []) (hp : PropPost val r m ents r') (hf : PropFrame r r')
    (hmatch : ∀ pr, r.trk.getProgress n = some pr → pr.match_ ≤ (absLog val r).length) :
    RaftSimD val voters n s r' := by
  have hents : ents ≠ [] := by
    intro h0
    have := hp.rel.length_eq
    rw [h0] at this
    simp at this
    exact hne this
  have hnf : r.state ≠ .follower := by rw [hs]; intro h; cases h
  obtain ⟨added, hadd, hok⟩ := hp.sends
  have hrole : (s.nodes n).role = .leader := by rw [hinv.abs.role, hs]; rfl
  have hrun1 := appendAll_run val (cfgOf voters) n ents s hrole
  obtain ⟨m1, m2, m3, m4, m5, m6⟩ := appendAll_more val n ents s
  have habs1 := prop_abs (n := n) (s := s) val hp hs hinv.abs
  obtain ⟨as, s2, hrun2, hact2, hn2, hsub2, happ2, hrv2⟩ :=
    sendApps_run val (cfgOf voters) n r' hp.state added (appendAll val n ents s) habs1 hok
  have hsub : ∀ y ∈ s.msgs, y ∈ s2.msgs := fun y hy => hsub2 y (by rw [m4]; exact hy)
  have hlogLe : ∀ e ∈ absLog val r', e.term ≤ r'.term := by
    intro e he
    rw [hp.log] at he
    rw [hp.term]
    rcases List.mem_append.1 he with he | he
    · exact hinv.logLe e he
    · obtain ⟨y, _, rfl⟩ := List.mem_map.1 he
      exact Nat.le_refl _
  refine ⟨_ ++ as, s2, hrun1.append hrun2, ?_, ?_, by rw [hn2]; exact m1,
    fun t lt li hx => by have := hrv2 t n lt li hx; rwa [m4] at this⟩
  · intro a ha
    rcases List.mem_append.1 ha with ha | ha
    · obtain ⟨y, _, rfl⟩ := List.mem_map.1 ha
      rfl
    · exact hact2 a ha
  rw [hn2]
  exact {
    abs := habs1
    st := hinv.st.propFrame hf
    wf := hp.wf
    unc := hp.unc
    leadInv := fun _ => ⟨hf.lead.trans (hinv.leadInv hs).1, hp.vote.trans (hinv.leadInv hs).2⟩
    candVote := fun hc => by rw [hp.state] at hc; cases hc
    termPos := fun _ => by rw [hp.term]; exact hinv.termPos hnf
    logLe := hlogLe
    candLt := fun hc => by rw [hp.state] at hc; cases hc
    pend := m2.trans hinv.pend
    durV := fun p hp' => by rw [m1] at hp'; rw [m3]; exact hinv.durV p hp'
    durA := fun p hp' => by rw [m1] at hp'; exact m5 p (hinv.durA p hp')
    out := by
      intro x hx
      rw [hadd] at hx
      rcases List.mem_append.1 hx with hx | hx
      · exact (hinv.out x hx).mono hsub
      · rcases hok x hx with ht | hk
        · unfold NetOK
          simp only [ht]
        · unfold NetOK
          simp only [hk.typ]
          refine ⟨by rw [hk.term, hp.term]; exact hinv.termPos hnf, happ2 x hx hk.typ, hk.contig, ?_⟩
          intro e he
          rw [hk.term]
          refine hlogLe (absEnt val e) ?_
          have : absEnt val e ∈ x.entries.map (absEnt val) := List.mem_map_of_mem he
          rw [hk.ents] at this
          exact List.mem_of_mem_drop (List.mem_of_mem_take this)
    prom := by
      intro x hx
      rw [hp.maa] at hx
      rcases List.mem_append.1 hx with hx | hx
      · obtain ⟨a, b, c⟩ := hinv.prom x hx
        refine ⟨a, b, ?_⟩
        revert c
        split
        · rw [m3]; exact id
        · exact fun c hr => (c hr).imp id (m5 _)
        · exact id
      · simp only [List.mem_singleton] at hx
        subst hx
        refine ⟨hinv.st.id, hinv.termPos hnf, ?_⟩
        show false = false → _ ∨ _
        intro _
        right
        have := m6 hents
        rw [hinv.abs.term, hinv.abs.log] at this
        exact this
    rvTerm := fun t lt li hx => by
      rw [hp.term]
      have := hrv2 t n lt li hx
      rw [m4] at this
      exact hinv.rvTerm t lt li this
    rvCov := fun hc => by rw [hp.state] at hc; cases hc
    votes := fun hc => by rw [hp.state] at hc; cases hc
    selfVote := fun hc => by rw [hp.state] at hc; cases hc
    matchO := fun _ v pr' c hv hg h0 hc => by
      obtain ⟨pr, g1, g2, _⟩ := hf.prog.back hg
      rw [hp.term]
      exact hasAck_mono hsub (hinv.matchO hs v pr c hv g1 h0 (g2 ▸ hc))
    matchS := fun _ pr' c hg hc hterm => by
      obtain ⟨pr, g1, g2, _⟩ := hf.prog.back hg
      have hc' : c ≤ pr.match_ := g2 ▸ hc
      have hlen := hmatch pr g1
      rw [m1, hp.term]
      refine hinv.matchS hs pr c g1 hc' ?_
      rw [hp.log, Spec.Log.termAt_append_left (Nat.le_trans hc' hlen), hp.term] at hterm
      exact hterm }

/-! ### the step theorems -/

/-- `sim_prop` with the conclusion `RaftSimD` -/
theorem simD_prop {val : Val} {voters : List Id} {n : Nat} {s : Spec.State} {r r' : Raft} {m : Message}
    {e : Option StepErr} {fuel : Nat} (hinv : RaftInv val voters n r (s.nodes n) s.msgs)
    (hreach : Spec.Reachable (cfgOf voters) s) (ht : m.typ = .prop) (h0 : m.term = 0)
    (hmatch : ∀ pr, r.trk.getProgress n = some pr → pr.match_ ≤ (absLog val r).length)
    (h : (Raft.step (fuel + 1) m).run r = .ok (e, r')) : RaftSimD val voters n s r' := by
  have _ := hreach
  by_cases hs : r.state = .leader
  · rcases step_prop_leader val fuel m r r' e ht h0 hs hinv.wf hinv.unc h with ⟨_, hpci⟩ | ⟨_, hne, ⟨ents, hp⟩, hf⟩
    · unfold OnlyPCI at hpci
      refine RaftSimD.refl (hinv.congr ?_ ?_ ?_ ?_ ?_ ?_ ?_ ?_ ?_ ?_ ?_ ?_) <;> rw [hpci]
    · exact simD_prop_accepted hinv hs hne hp hf hmatch
  · rcases step_prop_nonleader fuel m r r' e ht h0 hs h with rfl | ⟨x, hx, hx0, rfl⟩
    · exact RaftSimD.refl hinv
    · refine RaftSimD.refl (hinv.queue x ?_)
      unfold NetOK
      simp only [hx]
      exact hx0

/-- `sim_prop'` with the conclusion `RaftSimD` -/
theorem simD_prop' {val : Val} {voters : List Id} {n : Nat} {s : Spec.State} {r r' : Raft} {m : Message}
    {e : Option StepErr} {fuel : Nat} (hinv : RaftInv val voters n r (s.nodes n) s.msgs) (haux : AuxInv n r)
    (hreach : Spec.Reachable (cfgOf voters) s) (ht : m.typ = .prop) (h0 : m.term = 0)
    (h : (Raft.step (fuel + 1) m).run r = .ok (e, r')) : RaftSimD val voters n s r' := by
  by_cases hs : r.state = .leader
  · refine simD_prop hinv hreach ht h0 (fun pr hg => ?_) h
    unfold absLog
    rw [absLogL_length_eq val hinv.wf hinv.unc]
    exact haux.matchLe hs pr hg
  · rcases step_prop_nonleader fuel m r r' e ht h0 hs h with rfl | ⟨x, hx, hx0, rfl⟩
    · exact RaftSimD.refl hinv
    · refine RaftSimD.refl (hinv.queue x ?_)
      unfold NetOK
      simp only [hx]
      exact hx0

end RaftVerif.Sim
