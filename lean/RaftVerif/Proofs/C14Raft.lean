import RaftVerif.Proofs.C14Sites
import RaftVerif.Proofs.FlowSend
/-!
# Proofs/C14Raft — exact firing conditions of the `throw` sites of `Model/Raft.lean` (monadic part).
Helper lemmas for `Props/C14.lean`.  Core Lean only.
-/
set_option linter.unusedSimpArgs false
namespace RaftVerif.C14
open Raft

theorem M_bind_error_iff {α β : Type} (x : M α) (f : α → M β) (r : Raft) (e : String) :
    (x >>= f).run r = .error e ↔
      x.run r = .error e ∨ ∃ a r', x.run r = .ok (a, r') ∧ (f a).run r' = .error e := by
  simp only [StateT.run_bind]
  cases x.run r with
  | error e' => simp
  | ok p =>
    obtain ⟨a, r'⟩ := p
    simp only [P_ok_bind, reduceCtorEq, Except.ok.injEq, Prod.mk.injEq, false_or]
    constructor
    · intro h; exact ⟨a, r', ⟨rfl, rfl⟩, h⟩
    · rintro ⟨_, _, ⟨rfl, rfl⟩, h⟩; exact h

/-! ### getPr -/

theorem getPr_error_iff (id : Id) (r : Raft) (e : String) :
    (getPr id).run r = .error e ↔ e = "nil Progress dereference" ∧ r.trk.getProgress id = none := by
  rw [getPr_run]
  cases r.trk.getProgress id <;> simp [eq_comm]

/-! ### send -/

/-- the four vote message types (for which `send` requires an explicit term) -/
def isVoteTyp (t : MsgType) : Bool := t == .vote || t == .voteResp || t == .preVote || t == .preVoteResp

/-- `send` fills in the sender when it is unset -/
def fromStamp (r : Raft) (m : Message) : Message :=
  if m.from == 0 then { m with «from» := r.cfg.id } else m

theorem isVoteTyp_false_iff (t : MsgType) :
    isVoteTyp t = false ↔ t ≠ .vote ∧ t ≠ .voteResp ∧ t ≠ .preVote ∧ t ≠ .preVoteResp := by
  cases t <;> simp [isVoteTyp]

theorem send_run_vote (m : Message) (r : Raft) (hv : isVoteTyp m.typ = true) :
    (send m).run r =
      if m.term = 0 then .error "send: term should be set"
      else if m.typ = .voteResp ∨ m.typ = .preVoteResp then
        .ok ((), { r with msgsAfterAppend := r.msgsAfterAppend ++ [fromStamp r m] })
      else if m.to = r.cfg.id then .error "send: message should not be self-addressed"
      else .ok ((), { r with msgs := r.msgs ++ [fromStamp r m] }) := by
  have hcases : m.typ = .vote ∨ m.typ = .voteResp ∨ m.typ = .preVote ∨ m.typ = .preVoteResp := by
    cases ht : m.typ <;> simp [isVoteTyp, ht] at hv <;> simp
  unfold send
  simp only [StateT.run_bind, StateT.run_get, P_pure_eq, P_ok_bind]
  rcases hcases with ht | ht | ht | ht <;>
  by_cases hf : (m.from == 0) = true <;>
  by_cases h0 : m.term = 0 <;>
  by_cases hto : m.to = r.cfg.id <;>
  simp [ht, hf, h0, hto, fromStamp] <;> rfl

theorem send_run_nonvote_term (m : Message) (r : Raft) (hv : isVoteTyp m.typ = false) (ht : m.term ≠ 0) :
    (send m).run r = .error "send: term should not be set" := by
  obtain ⟨h1, h2, h3, h4⟩ := (isVoteTyp_false_iff _).mp hv
  unfold send
  simp only [StateT.run_bind, StateT.run_get, P_pure_eq, P_ok_bind]
  by_cases hf : (m.from == 0) = true <;> simp [hf, h1, h2, h3, h4, ht] <;> rfl

/-- **run equation of `send`** for every message -/
theorem send_run (m : Message) (r : Raft) :
    (send m).run r =
      if isVoteTyp m.typ = true then
        if m.term = 0 then .error "send: term should be set"
        else if m.typ = .voteResp ∨ m.typ = .preVoteResp then
          .ok ((), { r with msgsAfterAppend := r.msgsAfterAppend ++ [fromStamp r m] })
        else if m.to = r.cfg.id then .error "send: message should not be self-addressed"
        else .ok ((), { r with msgs := r.msgs ++ [fromStamp r m] })
      else if m.term ≠ 0 then .error "send: term should not be set"
      else if m.typ = .appResp then .ok ((), { r with msgsAfterAppend := r.msgsAfterAppend ++ [stamp r m] })
      else if m.to = r.cfg.id then .error "send: message should not be self-addressed"
      else .ok ((), { r with msgs := r.msgs ++ [stamp r m] }) := by
  by_cases hv : isVoteTyp m.typ = true
  · rw [if_pos hv, send_run_vote m r hv]
  · rw [if_neg hv]
    have hv' : isVoteTyp m.typ = false := by simpa using hv
    by_cases ht : m.term ≠ 0
    · rw [if_pos ht, send_run_nonvote_term m r hv' ht]
    · rw [if_neg ht]
      obtain ⟨h1, h2, h3, h4⟩ := (isVoteTyp_false_iff _).mp hv'
      exact send_run_nonvote m r h1 h2 h3 h4 (by simpa using ht)

/-- messages that `send` queues behind the pending append (never checked for self-addressing) -/
def isAfterAppendTyp (t : MsgType) : Bool := t == .appResp || t == .voteResp || t == .preVoteResp

theorem send_error_iff (m : Message) (r : Raft) (e : String) :
    (send m).run r = .error e ↔
      (e = "send: term should be set" ∧ isVoteTyp m.typ = true ∧ m.term = 0) ∨
      (e = "send: term should not be set" ∧ isVoteTyp m.typ = false ∧ m.term ≠ 0) ∨
      (e = "send: message should not be self-addressed" ∧ (isVoteTyp m.typ = true ↔ m.term ≠ 0) ∧
        isAfterAppendTyp m.typ = false ∧ m.to = r.cfg.id) := by
  rw [send_run]
  by_cases hv : isVoteTyp m.typ = true
  · rw [if_pos hv]
    by_cases h0 : m.term = 0
    · rw [if_pos h0]
      simp only [Except.error.injEq]
      constructor
      · rintro rfl; simp [hv, h0]
      · rintro (⟨rfl, _⟩ | ⟨rfl, h1, _⟩ | ⟨rfl, h1, _⟩)
        · rfl
        · rw [hv] at h1; cases h1
        · exact absurd h0 (h1.mp hv)
    · rw [if_neg h0]
      by_cases ha : m.typ = .voteResp ∨ m.typ = .preVoteResp
      · rw [if_pos ha]
        simp only [reduceCtorEq, false_iff, not_or, not_and]
        refine ⟨fun _ _ => h0, fun _ h1 => ?_, fun _ _ h2 => ?_⟩
        · rw [hv] at h1; cases h1
        · rcases ha with ha | ha <;> simp [ha, isAfterAppendTyp] at h2
      · rw [if_neg ha]
        have ha' : isAfterAppendTyp m.typ = false := by
          cases ht : m.typ <;> simp [isVoteTyp, isAfterAppendTyp, ht] at hv ha ⊢
        by_cases hto : m.to = r.cfg.id
        · rw [if_pos hto]
          simp only [Except.error.injEq]
          constructor
          · rintro rfl; simp [hv, h0, ha', hto]
          · rintro (⟨rfl, _, h1⟩ | ⟨rfl, h1, _⟩ | ⟨rfl, _⟩)
            · exact absurd h1 h0
            · rw [hv] at h1; cases h1
            · rfl
        · rw [if_neg hto]
          simp only [reduceCtorEq, false_iff, not_or, not_and]
          refine ⟨fun _ _ => h0, fun _ h1 => ?_, fun _ _ _ => hto⟩
          rw [hv] at h1; cases h1
  · rw [if_neg hv]
    have hv' : isVoteTyp m.typ = false := by simpa using hv
    by_cases h0 : m.term ≠ 0
    · rw [if_pos h0]
      simp only [Except.error.injEq]
      constructor
      · rintro rfl; simp [hv', h0]
      · rintro (⟨rfl, h1, _⟩ | ⟨rfl, _⟩ | ⟨rfl, h1, _⟩)
        · exact absurd h1 hv
        · rfl
        · exact absurd (h1.mpr h0) hv
    · rw [if_neg h0]
      have h0' : m.term = 0 := by simpa using h0
      by_cases ha : m.typ = .appResp
      · rw [if_pos ha]
        simp only [reduceCtorEq, false_iff, not_or, not_and]
        refine ⟨fun _ h1 => absurd h1 hv, fun _ _ => h0, fun _ _ h2 => ?_⟩
        simp [ha, isAfterAppendTyp] at h2
      · rw [if_neg ha]
        have ha' : isAfterAppendTyp m.typ = false := by
          cases ht : m.typ <;> simp [isVoteTyp, isAfterAppendTyp, ht] at hv' ha ⊢
        by_cases hto : m.to = r.cfg.id
        · rw [if_pos hto]
          simp only [Except.error.injEq]
          constructor
          · rintro rfl; simp [hv', h0', ha', hto]
          · rintro (⟨rfl, h1, _⟩ | ⟨rfl, _, h1⟩ | ⟨rfl, _⟩)
            · exact absurd h1 hv
            · exact absurd h1 h0
            · rfl
        · rw [if_neg hto]
          simp only [reduceCtorEq, false_iff, not_or, not_and]
          exact ⟨fun _ h1 => absurd h1 hv, fun _ _ => h0, fun _ _ _ => hto⟩

/-- **exact condition for `send` not to panic** -/
theorem send_ok_iff (m : Message) (r : Raft) :
    (∃ r', (send m).run r = .ok ((), r')) ↔
      (isVoteTyp m.typ = true ↔ m.term ≠ 0) ∧ (isAfterAppendTyp m.typ = false → m.to ≠ r.cfg.id) := by
  constructor
  · rintro ⟨r', hr⟩
    have hne : ∀ e, (send m).run r ≠ .error e := by intro e he; rw [hr] at he; cases he
    by_cases hv : isVoteTyp m.typ = true <;> by_cases h0 : m.term = 0
    · exact absurd ((send_error_iff m r _).mpr (Or.inl ⟨rfl, hv, h0⟩)) (hne _)
    · refine ⟨by simp [hv, h0], fun ha hto => ?_⟩
      exact absurd ((send_error_iff m r _).mpr (Or.inr (Or.inr ⟨rfl, by simp [hv, h0], ha, hto⟩))) (hne _)
    · refine ⟨by simp [hv, h0], fun ha hto => ?_⟩
      exact absurd ((send_error_iff m r _).mpr (Or.inr (Or.inr ⟨rfl, by simp [hv, h0], ha, hto⟩))) (hne _)
    · exact absurd ((send_error_iff m r _).mpr (Or.inr (Or.inl ⟨rfl, by simpa using hv, h0⟩))) (hne _)
  · rintro ⟨h1, h2⟩
    cases hr : (send m).run r with
    | ok p => obtain ⟨u, r'⟩ := p; exact ⟨r', rfl⟩
    | error e =>
      exfalso
      rcases (send_error_iff m r e).mp hr with ⟨_, hv, h0⟩ | ⟨_, hv, h0⟩ | ⟨_, _, ha, hto⟩
      · exact (h1.mp hv) h0
      · rw [h1.mpr h0] at hv; cases hv
      · exact h2 ha hto

/-! ### maybeSendSnapshot -/

theorem maybeSendSnapshot_error_iff (to : Id) (pr : Progress) (r : Raft) (e : String) :
    (maybeSendSnapshot to pr).run r = .error e ↔
      pr.recentActive = true ∧
      ((e = "need non-empty snapshot" ∧ r.log.snapshot.index = 0) ∨
       (e = "send: message should not be self-addressed" ∧ r.log.snapshot.index ≠ 0 ∧ to = r.cfg.id)) := by
  rw [maybeSendSnapshot_run]
  by_cases h1 : pr.recentActive = false
  · rw [if_pos h1]; simp [h1]
  · rw [if_neg h1]
    have h1' : pr.recentActive = true := by simpa using h1
    by_cases h2 : r.log.snapshot.index = 0
    · rw [if_pos h2]; simp [h1', h2, eq_comm]
    · rw [if_neg h2]
      by_cases h3 : to = r.cfg.id
      · rw [if_pos h3]; simp [h1', h2, h3, eq_comm]
      · rw [if_neg h3]; simp [h2, h3]

/-! ### resetRandomizedElectionTimeout, reset -/

theorem rret_run (r : Raft) :
    resetRandomizedElectionTimeout.run r =
      match r.draws with
      | [] => .error "HARNESS: no election-timeout draw supplied"
      | d :: rest => .ok ((), { r with randomizedElectionTimeout := r.cfg.electionTimeout + d, draws := rest }) := by
  unfold resetRandomizedElectionTimeout
  simp only [StateT.run_bind, StateT.run_get, P_pure_eq, P_ok_bind]
  split <;> rename_i hd <;> simp only [hd] <;> rfl

theorem rret_error_iff (r : Raft) (e : String) :
    resetRandomizedElectionTimeout.run r = .error e ↔
      e = "HARNESS: no election-timeout draw supplied" ∧ r.draws = [] := by
  rw [rret_run]
  split <;> simp [*, eq_comm]

/-- the per-peer reset of `raft.reset` -/
def resetTail (r : Raft) : Raft :=
  let last := r.log.lastIndex
  let prs := r.trk.progress.map fun (id, pr) =>
    let npr : Progress := { match_ := if id == r.cfg.id then last else 0, next := last + 1,
                            inflights := { size := r.trk.maxInflight, maxBytes := r.trk.maxInflightBytes },
                            isLearner := pr.isLearner }
    (id, npr)
  { r with trk := { r.trk.resetVotes with progress := prs }, pendingConfIndex := 0, uncommittedSize := 0,
           readOnly := { option := r.readOnly.option } }

/-- the state after `reset term` when the draw `d` is consumed -/
def resetTo (term : Nat) (r : Raft) (d : Nat) (rest : List Nat) : Raft :=
  let r1 : Raft := if r.term != term then { r with term := term, vote := 0 } else r
  let r2 : Raft := { r1 with lead := 0, electionElapsed := 0, heartbeatElapsed := 0 }
  let r3 : Raft := { r2 with randomizedElectionTimeout := r2.cfg.electionTimeout + d, draws := rest }
  resetTail { r3 with leadTransferee := 0 }

theorem reset_run (term : Nat) (r : Raft) :
    (reset term).run r =
      match r.draws with
      | [] => .error "HARNESS: no election-timeout draw supplied"
      | d :: rest => .ok ((), resetTo term r d rest) := by
  unfold reset abortLeaderTransfer
  simp only [StateT.run_bind, StateT.run_modify, P_pure_eq, P_ok_bind, rret_run]
  by_cases ht : (r.term != term) = true
  · simp only [ht, ↓reduceIte]
    cases hd : r.draws with
    | nil => rfl
    | cons d rest =>
      simp only [P_ok_bind]
      unfold resetTo
      simp only [ht, ↓reduceIte]
      rfl
  · have ht' : (r.term != term) = false := by simpa using ht
    simp only [ht', Bool.false_eq_true, ↓reduceIte]
    cases hd : r.draws with
    | nil => rfl
    | cons d rest =>
      simp only [P_ok_bind]
      unfold resetTo
      simp only [ht', Bool.false_eq_true, ↓reduceIte]
      rfl

theorem reset_error_iff (term : Nat) (r : Raft) (e : String) :
    (reset term).run r = .error e ↔ e = "HARNESS: no election-timeout draw supplied" ∧ r.draws = [] := by
  rw [reset_run]
  split <;> simp [*, eq_comm]


/-! ### what `reset` leaves untouched -/

theorem lookup_map_of {β γ : Type} (f : Id × β → Id × γ) (g : Id → β → γ)
    (hf : ∀ p, f p = (p.1, g p.1 p.2)) (l : List (Id × β)) (k : Id) :
    Quorum.lookup (l.map f) k = (Quorum.lookup l k).map (g k) := by
  induction l with
  | nil => rfl
  | cons a t ih =>
    obtain ⟨ka, va⟩ := a
    rw [List.map_cons, hf]
    simp only [Quorum.lookup]
    split
    · rename_i h
      have : ka = k := by simpa using h
      subst this; rfl
    · exact ih

/-- the fresh progress record `reset` gives to peer `id` -/
def resetPr (r : Raft) (id : Id) (pr : Progress) : Progress :=
  { match_ := if id == r.cfg.id then r.log.lastIndex else 0, next := r.log.lastIndex + 1,
    inflights := { size := r.trk.maxInflight, maxBytes := r.trk.maxInflightBytes },
    isLearner := pr.isLearner }

theorem resetTo_state (t : Nat) (r : Raft) (d : Nat) (rest : List Nat) : (resetTo t r d rest).state = r.state := by
  unfold resetTo resetTail; simp only []; split <;> rfl
theorem resetTo_cfg (t : Nat) (r : Raft) (d : Nat) (rest : List Nat) : (resetTo t r d rest).cfg = r.cfg := by
  unfold resetTo resetTail; simp only []; split <;> rfl
theorem resetTo_log (t : Nat) (r : Raft) (d : Nat) (rest : List Nat) : (resetTo t r d rest).log = r.log := by
  unfold resetTo resetTail; simp only []; split <;> rfl
theorem resetTo_term (t : Nat) (r : Raft) (d : Nat) (rest : List Nat) : (resetTo t r d rest).term = t := by
  unfold resetTo resetTail; simp only []; split
  · rfl
  · rename_i h; simpa using h
theorem resetTo_uncommittedSize (t : Nat) (r : Raft) (d : Nat) (rest : List Nat) :
    (resetTo t r d rest).uncommittedSize = 0 := by
  unfold resetTo resetTail; rfl
theorem resetTo_draws (t : Nat) (r : Raft) (d : Nat) (rest : List Nat) : (resetTo t r d rest).draws = rest := by
  unfold resetTo resetTail; rfl
theorem resetTo_msgs (t : Nat) (r : Raft) (d : Nat) (rest : List Nat) :
    (resetTo t r d rest).msgs = r.msgs ∧ (resetTo t r d rest).msgsAfterAppend = r.msgsAfterAppend := by
  unfold resetTo resetTail; simp only []; split <;> exact ⟨rfl, rfl⟩

theorem resetTo_getProgress (t : Nat) (r : Raft) (d : Nat) (rest : List Nat) (id : Id) :
    (resetTo t r d rest).trk.getProgress id = (r.trk.getProgress id).map (resetPr r id) := by
  unfold resetTo resetTail Tracker.getProgress mapGet
  simp only []
  split <;> exact lookup_map_of _ (resetPr r) (fun _ => rfl) _ _

/-! ### become* -/

theorem becomeCandidate_error_iff (r : Raft) (e : String) :
    becomeCandidate.run r = .error e ↔
      (e = "invalid transition [leader -> candidate]" ∧ r.state = .leader) ∨
      (e = "HARNESS: no election-timeout draw supplied" ∧ r.state ≠ .leader ∧ r.draws = []) := by
  unfold becomeCandidate
  simp only [StateT.run_bind, StateT.run_get, P_pure_eq, P_ok_bind]
  by_cases hs : r.state = .leader
  · have hb : (r.state == .leader) = true := by simp [hs]
    simp only [hb, ↓reduceIte, StateT.run_bind, StateT.run_get, StateT.run_pure, StateT.run_modify, StateT.run_set, P_pure_eq, P_ok_bind, M_run_throw, P_error_bind, Except.error.injEq]
    constructor
    · rintro rfl; simp [hs]
    · rintro (⟨rfl, _⟩ | ⟨_, h, _⟩)
      · rfl
      · exact absurd hs h
  · have hb : (r.state == .leader) = false := by simpa using hs
    simp only [hb, Bool.false_eq_true, ↓reduceIte, StateT.run_bind, StateT.run_get, StateT.run_pure, StateT.run_modify, StateT.run_set, P_pure_eq, P_ok_bind, M_run_throw, P_error_bind, reset_run]
    cases hd : r.draws with
    | nil =>
      simp only [P_error_bind, Except.error.injEq]
      constructor
      · rintro rfl; simp [hs]
      · rintro (⟨_, h⟩ | ⟨rfl, _⟩)
        · exact absurd h hs
        · rfl
    | cons d rest =>
      simp only [P_ok_bind, StateT.run_modify, P_pure_eq, reduceCtorEq, false_iff, not_or, not_and]
      exact ⟨fun _ => hs, fun _ _ h => by cases h⟩

theorem becomeCandidate_ok (r : Raft) (d : Nat) (rest : List Nat) (hs : r.state ≠ .leader)
    (hd : r.draws = d :: rest) :
    becomeCandidate.run r =
      .ok ((), { resetTo (r.term + 1) r d rest with vote := r.cfg.id, state := .candidate }) := by
  unfold becomeCandidate
  have hb : (r.state == .leader) = false := by simpa using hs
  simp only [StateT.run_bind, StateT.run_get, StateT.run_pure, StateT.run_modify, StateT.run_set, P_pure_eq, P_ok_bind, M_run_throw, P_error_bind, hb, Bool.false_eq_true, ↓reduceIte, reset_run, hd, resetTo_cfg]

theorem becomePreCandidate_run (r : Raft) :
    becomePreCandidate.run r =
      if r.state = .leader then .error "invalid transition [leader -> pre-candidate]"
      else .ok ((), { r with trk := r.trk.resetVotes, lead := 0, state := .preCandidate }) := by
  unfold becomePreCandidate
  simp only [StateT.run_bind, StateT.run_get, P_pure_eq, P_ok_bind]
  by_cases hs : r.state = .leader
  · have hb : (r.state == .leader) = true := by simp [hs]
    rw [if_pos hs]
    simp only [hb, ↓reduceIte, StateT.run_bind, StateT.run_get, StateT.run_pure, StateT.run_modify, StateT.run_set, P_pure_eq, P_ok_bind, M_run_throw, P_error_bind]
  · have hb : (r.state == .leader) = false := by simpa using hs
    rw [if_neg hs]
    simp only [hb, Bool.false_eq_true, ↓reduceIte, StateT.run_bind, StateT.run_get, StateT.run_pure, StateT.run_modify, StateT.run_set, P_pure_eq, P_ok_bind, M_run_throw, P_error_bind]

theorem becomePreCandidate_error_iff (r : Raft) (e : String) :
    becomePreCandidate.run r = .error e ↔
      e = "invalid transition [leader -> pre-candidate]" ∧ r.state = .leader := by
  rw [becomePreCandidate_run]
  split
  · rename_i h; simp [h, eq_comm]
  · rename_i h; simp only [reduceCtorEq, false_iff, not_and]; exact fun _ => h

theorem becomeLeader_follower (r : Raft) (hs : r.state = .follower) :
    becomeLeader.run r = .error "invalid transition [follower -> leader]" := by
  unfold becomeLeader
  have hb : (r.state == .follower) = true := by simp [hs]
  simp only [hb, ↓reduceIte, StateT.run_bind, StateT.run_get, StateT.run_pure, StateT.run_modify,
    StateT.run_set, P_pure_eq, P_ok_bind, M_run_throw, P_error_bind]

theorem becomeLeader_nodraw (r : Raft) (hs : r.state ≠ .follower) (hd : r.draws = []) :
    becomeLeader.run r = .error "HARNESS: no election-timeout draw supplied" := by
  unfold becomeLeader
  have hb : (r.state == .follower) = false := by simpa using hs
  simp only [hb, Bool.false_eq_true, ↓reduceIte, StateT.run_bind, StateT.run_get, StateT.run_pure,
    StateT.run_modify, StateT.run_set, P_pure_eq, P_ok_bind, M_run_throw, P_error_bind, reset_run, hd]

theorem becomeLeader_nopr (r : Raft) (hs : r.state ≠ .follower) (d : Nat) (rest : List Nat)
    (hd : r.draws = d :: rest) (hg : r.trk.getProgress r.cfg.id = none) :
    becomeLeader.run r = .error "nil Progress dereference" := by
  unfold becomeLeader
  have hb : (r.state == .follower) = false := by simpa using hs
  simp only [hb, Bool.false_eq_true, ↓reduceIte, StateT.run_bind, StateT.run_get, StateT.run_pure,
    StateT.run_modify, StateT.run_set, P_pure_eq, P_ok_bind, M_run_throw, P_error_bind, reset_run, hd,
    getPr_run, resetTo_cfg, resetTo_getProgress, resetTo_log, hg, Option.map_none]

theorem becomeLeader_append (r : Raft) (hs : r.state ≠ .follower) (d : Nat) (rest : List Nat)
    (hd : r.draws = d :: rest) (pr0 : Progress) (hg : r.trk.getProgress r.cfg.id = some pr0) :
    (∀ e, r.log.append [{ term := r.term, index := r.log.lastIndex + 1 }] = .error e →
      becomeLeader.run r = .error e) ∧
    (∀ p, r.log.append [{ term := r.term, index := r.log.lastIndex + 1 }] = .ok p →
      ∃ r', becomeLeader.run r = .ok ((), r')) := by
  unfold becomeLeader
  have hb : (r.state == .follower) = false := by simpa using hs
  simp only [hb, Bool.false_eq_true, ↓reduceIte, StateT.run_bind, StateT.run_get, StateT.run_pure,
    StateT.run_modify, StateT.run_set, P_pure_eq, P_ok_bind, M_run_throw, P_error_bind, reset_run, hd,
    getPr_run, resetTo_cfg, resetTo_getProgress, resetTo_log, hg, Option.map_some, setPr_run,
    appendEntry_run, resetTo_uncommittedSize, resetTo_term, cloneEntries, Nat.lt_irrefl, gt_iff_lt,
    false_and, List.zipIdx_cons, List.zipIdx_nil, List.map_cons, List.map_nil, Nat.add_zero]
  constructor
  · intro e ha; rw [ha]; rfl
  · intro p ha; rw [ha]; obtain ⟨l, li⟩ := p; exact ⟨_, rfl⟩

/-- **becomeLeader**: all panic sites, in evaluation order.  "empty entry was dropped" can never fire
(`reset` zeroes `uncommittedSize`, so the empty entry is always accepted); the `appResp` to self is queued in
`msgsAfterAppend` and is never checked for self-addressing. -/
theorem becomeLeader_error_iff (r : Raft) (e : String) :
    becomeLeader.run r = .error e ↔
      (e = "invalid transition [follower -> leader]" ∧ r.state = .follower) ∨
      (r.state ≠ .follower ∧
        ((e = "HARNESS: no election-timeout draw supplied" ∧ r.draws = []) ∨
         (r.draws ≠ [] ∧
           ((e = "nil Progress dereference" ∧ r.trk.getProgress r.cfg.id = none) ∨
            (r.trk.getProgress r.cfg.id ≠ none ∧
              r.log.append [{ term := r.term, index := r.log.lastIndex + 1 }] = .error e))))) := by
  by_cases hs : r.state = .follower
  · rw [becomeLeader_follower r hs]
    simp only [Except.error.injEq]
    constructor
    · rintro rfl; exact Or.inl ⟨rfl, hs⟩
    · rintro (⟨rfl, _⟩ | ⟨h, _⟩)
      · rfl
      · exact absurd hs h
  · have hdc : r.draws = [] ∨ ∃ d rest, r.draws = d :: rest := by cases r.draws <;> simp
    rcases hdc with hd | ⟨d, rest, hd⟩
    · rw [becomeLeader_nodraw r hs hd]
      simp only [Except.error.injEq]
      constructor
      · rintro rfl; exact Or.inr ⟨hs, Or.inl ⟨rfl, hd⟩⟩
      · rintro (⟨_, h⟩ | ⟨_, (⟨rfl, _⟩ | ⟨h, _⟩)⟩)
        · exact absurd h hs
        · rfl
        · exact absurd hd h
    · have hdne : r.draws ≠ [] := by rw [hd]; simp
      have hgc : r.trk.getProgress r.cfg.id = none ∨ ∃ pr0, r.trk.getProgress r.cfg.id = some pr0 := by
        cases r.trk.getProgress r.cfg.id <;> simp
      rcases hgc with hg | ⟨pr0, hg⟩
      · rw [becomeLeader_nopr r hs d rest hd hg]
        simp only [Except.error.injEq]
        constructor
        · rintro rfl; exact Or.inr ⟨hs, Or.inr ⟨hdne, Or.inl ⟨rfl, hg⟩⟩⟩
        · rintro (⟨_, h⟩ | ⟨_, (⟨_, h⟩ | ⟨_, (⟨rfl, _⟩ | ⟨h, _⟩)⟩)⟩)
          · exact absurd h hs
          · exact absurd h hdne
          · rfl
          · exact absurd hg h
      · have hgne : r.trk.getProgress r.cfg.id ≠ none := by rw [hg]; simp
        obtain ⟨h1, h2⟩ := becomeLeader_append r hs d rest hd pr0 hg
        constructor
        · intro he
          refine Or.inr ⟨hs, Or.inr ⟨hdne, Or.inr ⟨hgne, ?_⟩⟩⟩
          cases ha : r.log.append [{ term := r.term, index := r.log.lastIndex + 1 }] with
          | error e' => rw [h1 e' ha] at he; injection he with he; rw [he]
          | ok p => obtain ⟨r', hr⟩ := h2 p ha; rw [hr] at he; cases he
        · rintro (⟨_, h⟩ | ⟨_, (⟨_, h⟩ | ⟨_, (⟨_, h⟩ | ⟨_, h⟩)⟩)⟩)
          · exact absurd h hs
          · exact absurd h hdne
          · exact absurd h hgne
          · exact h1 e h

/-- on a well-formed log the empty entry of a new leader can always be appended -/
theorem append_next_ok {l : RaftLog} (h : l.WF) (t : Nat) :
    ∃ p, l.append [{ term := t, index := l.lastIndex + 1 }] = .ok p := by
  cases hx : l.append [{ term := t, index := l.lastIndex + 1 }] with
  | ok p => exact ⟨p, rfl⟩
  | error e =>
    exfalso
    obtain ⟨e0, rest, heq, hcase⟩ := (append_error_iff l _ e).mp hx
    injection heq with h0 _
    subst h0
    have hu : usub (l.lastIndex + 1) 1 = l.lastIndex := by
      rw [usub_one_of_pos _ (by omega)]; omega
    have hcl := h.committedLeLast
    have hnext := RaftLog.abs_last_succ h
    rw [← RaftLog.lastIndex_abs h] at hnext
    unfold Unstable.next at hnext
    simp only [hu] at hcase
    rcases hcase with ⟨_, hc⟩ | ⟨_, _, hc⟩ <;> omega

/-- **becomeLeader on a well-formed log**: wrong role, no election-timeout draw, or the node has no progress
record of itself -/
theorem becomeLeader_error_iff_wf (r : Raft) (hwf : r.log.WF) (e : String) :
    becomeLeader.run r = .error e ↔
      (e = "invalid transition [follower -> leader]" ∧ r.state = .follower) ∨
      (e = "HARNESS: no election-timeout draw supplied" ∧ r.state ≠ .follower ∧ r.draws = []) ∨
      (e = "nil Progress dereference" ∧ r.state ≠ .follower ∧ r.draws ≠ [] ∧
        r.trk.getProgress r.cfg.id = none) := by
  rw [becomeLeader_error_iff]
  obtain ⟨p, hp⟩ := append_next_ok hwf r.term
  constructor
  · rintro (h | ⟨hs, (⟨h1, h2⟩ | ⟨hd, (⟨h1, h2⟩ | ⟨_, h2⟩)⟩)⟩)
    · exact Or.inl h
    · exact Or.inr (Or.inl ⟨h1, hs, h2⟩)
    · exact Or.inr (Or.inr ⟨h1, hs, hd, h2⟩)
    · rw [hp] at h2; cases h2
  · rintro (h | ⟨h1, hs, h2⟩ | ⟨h1, hs, hd, h2⟩)
    · exact Or.inl h
    · exact Or.inr ⟨hs, Or.inl ⟨h1, h2⟩⟩
    · exact Or.inr ⟨hs, Or.inr ⟨hd, Or.inl ⟨h1, h2⟩⟩⟩

/-! ### loadState, responseToReadIndexReq, decodeCC -/

theorem loadState_run (hs : HardState) (r : Raft) :
    (loadState hs).run r =
      if hs.commit < r.log.committed ∨ r.log.lastIndex < hs.commit then
        .error "loadState: state.commit out of range"
      else .ok ((), { r with log := { r.log with committed := hs.commit }, term := hs.term, vote := hs.vote }) := by
  unfold loadState
  simp only [StateT.run_bind, StateT.run_get, P_pure_eq, P_ok_bind]
  by_cases hc : hs.commit < r.log.committed ∨ r.log.lastIndex < hs.commit
  · have hb : (decide (hs.commit < r.log.committed) || decide (hs.commit > r.log.lastIndex)) = true := by
      simpa using hc
    rw [if_pos hc]
    simp only [hb, ↓reduceIte, StateT.run_bind, StateT.run_get, StateT.run_pure, StateT.run_modify, StateT.run_set, P_pure_eq, P_ok_bind, M_run_throw, P_error_bind]
  · have hb : (decide (hs.commit < r.log.committed) || decide (hs.commit > r.log.lastIndex)) = false := by
      simpa using hc
    rw [if_neg hc]
    simp only [hb, Bool.false_eq_true, ↓reduceIte, StateT.run_bind, StateT.run_get, StateT.run_pure, StateT.run_modify, StateT.run_set, P_pure_eq, P_ok_bind, M_run_throw, P_error_bind]

theorem loadState_error_iff (hs : HardState) (r : Raft) (e : String) :
    (loadState hs).run r = .error e ↔
      e = "loadState: state.commit out of range" ∧
      (hs.commit < r.log.committed ∨ r.log.lastIndex < hs.commit) := by
  rw [loadState_run]
  split <;> simp [*, eq_comm]

theorem responseToReadIndexReq_error_iff (req : Message) (ri : Nat) (r : Raft) (e : String) :
    (responseToReadIndexReq req ri).run r = .error e ↔
      e = "responseToReadIndexReq: index out of range (no entries)" ∧ req.entries = [] := by
  unfold responseToReadIndexReq
  simp only [StateT.run_bind, StateT.run_get, P_pure_eq, P_ok_bind]
  cases he : req.entries with
  | nil => simp [eq_comm]
  | cons e0 t =>
    simp only [reduceCtorEq, and_false, iff_false]
    split
    · intro h; cases h
    · simp

theorem decodeCC_error_iff (en : Entry) (r : Raft) (e : String) :
    (decodeCC en).run r = .error e ↔
      (e = "proto.Unmarshal ConfChange failed" ∧ en.getType = .confChange ∧
        decodeConfChangeV1AsV2 (en.data.getD []) = none) ∨
      (e = "proto.Unmarshal ConfChangeV2 failed" ∧ en.getType = .confChangeV2 ∧
        decodeConfChangeV2 (en.data.getD []) = none) := by
  unfold decodeCC
  cases ht : en.getType with
  | normal => simp
  | confChange =>
    cases hd : decodeConfChangeV1AsV2 (en.data.getD []) with
    | none => simp [eq_comm]
    | some c => simp
  | confChangeV2 =>
    cases hd : decodeConfChangeV2 (en.data.getD []) with
    | none => simp [eq_comm]
    | some c => simp

theorem stepLeader_emptyProp (fuel : Nat) (m : Message) (r : Raft) (hm : m.typ = .prop)
    (he : m.entries = []) : (stepLeader fuel m).run r = .error "stepped empty MsgProp" := by
  unfold stepLeader
  simp only [hm, he, StateT.run_bind, StateT.run_get, P_pure_eq, P_ok_bind, List.length_nil, beq_self_eq_true,
    ↓reduceIte, M_run_throw, P_error_bind]

theorem step_zero (m : Message) (r : Raft) :
    (step 0 m).run r = .error "MODEL: step nesting deeper than expected" := by
  unfold step; rfl

/-! ### maybeSendAppend, sendHeartbeat -/

/-- under the log invariant `raftLog.entries` never panics -/
theorem entries_no_panic {l : RaftLog} (h : l.WF) (i m : Nat) : ∃ res, l.entries i m = .ok res := by
  rw [RaftLog.entries_eq h]
  split
  · exact ⟨_, rfl⟩
  · split <;> exact ⟨_, rfl⟩

/-- the tail of `maybeSendAppend` (message construction, `send`, `SentEntries`) panics only on a self-addressed
MsgApp or through `maybeSendSnapshot`: `SentEntries` / `Inflights.Add` cannot fire, because the progress is
not paused (so not in `StateSnapshot`) and entries are only attached when the inflight window is not full -/
theorem appTail_error_iff (to : Id) (b : Bool) (r : Raft) (pr : Progress) (prevTerm : Nat) (ents : List Entry)
    (err : Bool) (e : String) (hp : pr.isPaused = false)
    (hfull : ents ≠ [] → ¬ (pr.state = .replicate ∧ pr.inflights.full = true)) :
    appTail to b r pr prevTerm ents err = .error e ↔
      ¬ (ents = [] ∧ b = false) ∧
      ((err = true ∧ (maybeSendSnapshot to pr).run r = .error e) ∨
       (err = false ∧ to = r.cfg.id ∧ e = "send: message should not be self-addressed")) := by
  unfold appTail
  by_cases h1 : (ents.length == 0 && !b) = true
  · rw [if_pos h1]
    have : ents = [] ∧ b = false := by
      simp only [Bool.and_eq_true, beq_iff_eq, Bool.not_eq_eq_eq_not, Bool.not_true] at h1
      exact ⟨List.length_eq_zero_iff.mp h1.1, h1.2⟩
    simp [this]
  · rw [if_neg h1]
    have hn : ¬ (ents = [] ∧ b = false) := by
      rintro ⟨rfl, rfl⟩; exact h1 rfl
    simp only [hn, not_false_eq_true, true_and]
    cases err with
    | true => simp
    | false =>
      simp only [Bool.false_eq_true, ↓reduceIte, false_and, false_or, true_and]
      by_cases h2 : to = r.cfg.id
      · rw [if_pos h2]; simp only [Except.error.injEq, h2, true_and]; exact eq_comm
      · rw [if_neg h2]
        simp only [h2, false_and, iff_false]
        cases hs : pr.sentEntries ents.length (payloadsSize ents) with
        | ok pr' => simp
        | error e' =>
          exfalso
          rcases (sentEntries_iff pr _ _ e').mp hs with ⟨_, hst⟩ | ⟨_, hst, hpos, hf⟩
          · unfold Progress.isPaused at hp; rw [hst] at hp; cases hp
          · exact hfull (by intro h0; rw [h0] at hpos; simp at hpos) ⟨hst, hf⟩

/-- **maybeSendAppend** on a well-formed log: every way it can panic.  Not among them: `raftLog.entries`
(`slice`, storage) and `Progress.SentEntries` / `Inflights.Add`. -/
theorem maybeSendAppend_error_iff (to : Id) (b : Bool) (r : Raft) (hwf : r.log.WF) (e : String) :
    (maybeSendAppend to b).run r = .error e ↔
      (e = "nil Progress dereference" ∧ r.trk.getProgress to = none) ∨
      ∃ pr, r.trk.getProgress to = some pr ∧ pr.isPaused = false ∧
        (match r.log.term (usub pr.next 1) with
         | .error _ => (maybeSendSnapshot to pr).run r = .error e
         | .ok _ =>
           if (pr.state != .replicate || !pr.inflights.full) = true then
             match r.log.entries pr.next r.cfg.maxMsgSize with
             | .ok (.ok es) =>
               ¬ (es = [] ∧ b = false) ∧ to = r.cfg.id ∧ e = "send: message should not be self-addressed"
             | .ok (.error _) => b = true ∧ (maybeSendSnapshot to pr).run r = .error e
             | .error _ => False
           else b = true ∧ to = r.cfg.id ∧ e = "send: message should not be self-addressed") := by
  rw [maybeSendAppend_run]
  cases hg : r.trk.getProgress to with
  | none =>
    simp only [Except.error.injEq, reduceCtorEq, false_and, exists_false, or_false, and_true]
    exact eq_comm
  | some pr =>
    simp only [reduceCtorEq, and_false, Option.some.injEq, exists_eq_left', false_or]
    by_cases hp : pr.isPaused = true
    · rw [if_pos hp]; simp [hp]
    · rw [if_neg hp]
      have hp' : pr.isPaused = false := by simpa using hp
      simp only [hp', true_and]
      cases ht : r.log.term (usub pr.next 1) with
      | error se => rfl
      | ok prevTerm =>
        simp only []
        by_cases hc : (pr.state != ProgressState.replicate || !pr.inflights.full) = true
        · rw [if_pos hc, if_pos hc]
          obtain ⟨res, hres⟩ := entries_no_panic hwf pr.next r.cfg.maxMsgSize
          rw [hres]
          cases res with
          | ok es =>
            simp only []
            rw [appTail_error_iff to b r pr prevTerm es false e hp' (by
              intro _ hx
              simp only [bne_iff_ne, ne_eq, Bool.or_eq_true, decide_eq_true_eq, Bool.not_eq_eq_eq_not,
                Bool.not_true] at hc
              rcases hc with hc | hc
              · exact hc hx.1
              · rw [hx.2] at hc; cases hc)]
            simp
          | error se =>
            simp only []
            rw [appTail_error_iff to b r pr prevTerm [] true e hp' (by intro h; exact absurd rfl h)]
            simp
        · rw [if_neg hc, if_neg hc]
          rw [appTail_error_iff to b r pr prevTerm [] false e hp' (by intro h; exact absurd rfl h)]
          simp

theorem sendHeartbeat_error_iff (to : Id) (ctx : Option Bytes) (r : Raft) (e : String) :
    (sendHeartbeat to ctx).run r = .error e ↔
      (e = "nil Progress dereference" ∧ r.trk.getProgress to = none) ∨
      (e = "send: message should not be self-addressed" ∧ r.trk.getProgress to ≠ none ∧ to = r.cfg.id) := by
  unfold sendHeartbeat
  simp only [StateT.run_bind, getPr_run]
  cases hg : r.trk.getProgress to with
  | none =>
    simp only [P_error_bind, Except.error.injEq, reduceCtorEq, ne_eq, not_true_eq_false, false_and, and_false,
      or_false, and_true]
    exact eq_comm
  | some pr =>
    simp only [P_ok_bind, StateT.run_get, P_pure_eq]
    rw [send_run_nonvote _ _ (by simp) (by simp) (by simp) (by simp) rfl]
    simp only [reduceCtorEq, ↓reduceIte, and_false, false_or, ne_eq, not_false_eq_true, true_and]
    by_cases hto : to = r.cfg.id
    · simp only [hto, ↓reduceIte, P_error_bind, Except.error.injEq, and_true]; exact eq_comm
    · simp only [hto, ↓reduceIte, P_ok_bind, and_false, iff_false]
      intro h; cases h

end RaftVerif.C14
