import RaftVerif.Props.C18
import RaftVerif.Proofs.SpecLogLemmas
import RaftVerif.Model.Raft
/-!
# Proofs/RefineAbs — the abstraction function from model states to Spec node states

* `Val`            — the payload encoding is a **parameter** of the whole development: any function of
                     an entry's `(Type, Data)`; no property of it is used by any theorem (the trace
                     checker instantiates it with a hash).  It does not look at `term`/`index`, so
                     stamping a proposed entry (`appendEntry`) does not change its value.
* `absEnt`         — `Entry ↦ Spec.Ent`
* `Uncompacted l`  — the logical log `RaftLog.abs` has base (index 0, term 0) — e.g. storage's dummy entry
                     is (index 0, term 0) and there is no unstable snapshot: the entry with index `i`
                     is at position `i - 1` of the logical log
* `absLogL l`      — the logical log of a `raftLog` (`RaftLog.abs`: storage below `unstable.offset`
                     followed by the unstable entries) mapped by `absEnt`
* `absRole`, `absVer`, `Abs r nd`

and the dictionary between the `raftLog` queries (under `RaftLog.WF` and `Uncompacted`) and the Spec's
ghost-log functions `length`, `termAt`, `lastTerm`, `upToDate`, `appendResult`, `keepsCommitted`.
-/
namespace RaftVerif.Refine

/-- payload encoding: any function of `(Entry.Type, Entry.Data)` -/
abbrev Val := Option EntryType → Option Bytes → Nat

def absEnt (val : Val) (e : Entry) : Spec.Ent := { term := e.term, val := val e.typ e.data }

@[simp] theorem absEnt_term (val : Val) (e : Entry) : (absEnt val e).term = e.term := rfl

/-- restamping term and index (what `appendEntry` does) keeps the value -/
theorem absEnt_stamp (val : Val) (e : Entry) (t i : Nat) :
    absEnt val { e with term := t, index := i } = { term := t, val := val e.typ e.data } := rfl

/-- the logical log starts at index 1: nothing is compacted (`RaftLog.abs` has base index 0 with term 0).
This is the case in particular when storage's dummy entry is (index 0, term 0) and no snapshot is pending
in `unstable` (`Uncompacted.of_storage`). -/
def Uncompacted (l : RaftLog) : Prop := l.abs.base = 0 ∧ l.abs.baseTerm = 0

instance (l : RaftLog) : Decidable (Uncompacted l) := by unfold Uncompacted; infer_instance

theorem Uncompacted.of_storage {l : RaftLog} (h1 : l.unstable.snapshot = none) (h2 : l.storage.offset = 0)
    (h3 : l.storage.dummyTerm = 0) : Uncompacted l := by
  unfold Uncompacted RaftLog.abs
  rw [h1]
  exact ⟨h2, h3⟩

/-- the logical log of a `raftLog`, abstracted entry by entry -/
def absLogL (val : Val) (l : RaftLog) : Spec.Log := l.abs.ents.map (absEnt val)

def absLog (val : Val) (r : Raft) : Spec.Log := absLogL val r.log

def absRole : Role → Spec.Role
  | .follower => .follower
  | .preCandidate => .follower
  | .candidate => .candidate
  | .leader => .leader

/-- the part of a Spec version that the model state determines (the promise lists are ghost) -/
def absVer (val : Val) (r : Raft) : Spec.Ver :=
  { term := r.term, vote := r.vote, commit := r.log.committed, log := absLog val r }

/-- **the abstraction relation**: the Spec node `nd` describes the model state `r`
(`vol.acks`, `vol.votes`, `dur`, `pending` are ghost / environment state and unconstrained) -/
structure Abs (val : Val) (r : Raft) (nd : Spec.Node) : Prop where
  term : nd.vol.term = r.term
  vote : nd.vol.vote = r.vote
  commit : nd.vol.commit = r.log.committed
  log : nd.vol.log = absLog val r
  role : nd.role = absRole r.state

theorem abs_iff_absVer (val : Val) (r : Raft) (nd : Spec.Node) :
    Abs val r nd ↔ ({ nd.vol with acks := [], votes := [] } : Spec.Ver) = absVer val r ∧ nd.role = absRole r.state := by
  constructor
  · rintro ⟨h1, h2, h3, h4, h5⟩
    refine ⟨?_, h5⟩
    simp only [absVer, ← h1, ← h2, ← h3, ← h4]
  · rintro ⟨h, h5⟩
    simp only [absVer, Spec.Ver.mk.injEq] at h
    exact ⟨h.1, h.2.1, h.2.2.1, h.2.2.2.1, h5⟩

/-- the canonical abstract node (no promises, nothing durable) -/
def absNode (val : Val) (r : Raft) : Spec.Node := { vol := absVer val r, role := absRole r.state }

theorem abs_absNode (val : Val) (r : Raft) : Abs val r (absNode val r) := ⟨rfl, rfl, rfl, rfl, rfl⟩

/-- `Abs` only looks at term, vote, log and role -/
theorem Abs.congr {val : Val} {r r' : Raft} {nd : Spec.Node} (h : Abs val r nd) (h1 : r'.term = r.term)
    (h2 : r'.vote = r.vote) (h3 : r'.log = r.log) (h4 : absRole r'.state = absRole r.state) : Abs val r' nd :=
  ⟨by rw [h1]; exact h.term, by rw [h2]; exact h.vote, by rw [h3]; exact h.commit,
   by rw [absLog, h3]; exact h.log, by rw [h4]; exact h.role⟩

theorem absRole_ne_leader {s : Role} (h : s ≠ .leader) : absRole s ≠ .leader := by
  cases s <;> simp_all [absRole]

theorem absRole_eq_leader {s : Role} : absRole s = .leader ↔ s = .leader := by
  cases s <;> simp [absRole]

theorem absRole_eq_candidate {s : Role} : absRole s = .candidate ↔ s = .candidate := by
  cases s <;> simp [absRole]

/-! ### the dictionary `raftLog` ↔ ghost log -/

section
variable (val : Val)

theorem Uncompacted.base {l : RaftLog} (hu : Uncompacted l) : l.abs.base = 0 ∧ l.abs.baseTerm = 0 := hu

/-- `Uncompacted` only looks at the base of the abstract log -/
theorem Uncompacted.of_abs {l l' : RaftLog} (hu : Uncompacted l) (h1 : l'.abs.base = l.abs.base)
    (h2 : l'.abs.baseTerm = l.abs.baseTerm) : Uncompacted l' := ⟨h1.trans hu.1, h2.trans hu.2⟩

/-- `Uncompacted` only looks at storage and the pending snapshot -/
theorem Uncompacted.congr {l l' : RaftLog} (hu : Uncompacted l) (h1 : l'.storage = l.storage)
    (h2 : l'.unstable.snapshot = l.unstable.snapshot) : Uncompacted l' := by
  refine hu.of_abs ?_ ?_ <;> (unfold RaftLog.abs; rw [h1, h2]; cases l.unstable.snapshot <;> rfl)

@[simp] theorem absLogL_length (l : RaftLog) : (absLogL val l).length = l.abs.ents.length := by
  simp [absLogL]

/-- the length of the ghost log is `lastIndex` -/
theorem absLogL_length_eq {l : RaftLog} (h : l.WF) (hu : Uncompacted l) :
    (absLogL val l).length = l.lastIndex := by
  rw [RaftLog.lastIndex_abs h, ALog.last, hu.base.1]; simp

theorem absLogL_last {l : RaftLog} (hu : Uncompacted l) : l.abs.last = (absLogL val l).length := by
  rw [ALog.last, hu.base.1]; simp

/-- `term?` of the logical log is the ghost log's `termAt` -/
theorem absLogL_termAt {l : RaftLog} (hu : Uncompacted l) (i : Nat) :
    (absLogL val l).termAt i = l.abs.term? i := by
  unfold Spec.Log.termAt ALog.term? ALog.entry?
  rw [hu.base.1, hu.base.2]
  by_cases hi : i = 0
  · simp [hi]
  · rw [if_neg hi, if_neg hi, if_pos (by omega)]
    simp only [absLogL, List.getElem?_map, Option.map_map]
    rfl

/-- `term(i)` of the model's `raftLog` is the ghost log's `termAt` -/
theorem term_ok_iff_termAt {l : RaftLog} (h : l.WF) (hu : Uncompacted l) (i t : Nat) :
    l.term i = .ok t ↔ (absLogL val l).termAt i = some t := by
  rw [RaftLog.term_ok_iff h, absLogL_termAt val hu]

theorem matchTerm_iff_termAt {l : RaftLog} (h : l.WF) (hu : Uncompacted l) (id : EntryID) :
    l.matchTerm id = true ↔ (absLogL val l).termAt id.index = some id.term := by
  rw [RaftLog.matchTerm_iff h, absLogL_termAt val hu]

/-- an entry agrees with the log iff the ghost log has its term at its index -/
theorem agrees_iff {l : RaftLog} (hu : Uncompacted l) (e : Entry) :
    RaftLog.Agrees l.abs e ↔ (absLogL val l).termAt e.index = some e.term := by
  unfold RaftLog.Agrees; rw [absLogL_termAt val hu]

theorem lastTerm_eq_termAt (L : Spec.Log) : L.termAt L.length = some L.lastTerm := by
  unfold Spec.Log.termAt Spec.Log.lastTerm
  by_cases h0 : L.length = 0
  · have : L = [] := List.length_eq_zero_iff.mp h0
    subst this; simp
  · rw [if_neg h0, List.getLast?_eq_getElem?]
    cases hx : L[L.length - 1]? with
    | none =>
      have := List.getElem?_eq_none_iff.mp hx
      omega
    | some e => simp

/-- the term of the last index is the ghost log's `lastTerm` -/
theorem term_last_eq {l : RaftLog} (hu : Uncompacted l) :
    l.abs.term? l.abs.last = some (absLogL val l).lastTerm := by
  rw [← absLogL_termAt val hu, absLogL_last val hu, lastTerm_eq_termAt]

/-- `lastEntryID()` is `(lastTerm, length)` of the ghost log -/
theorem lastEntryID_eq {l : RaftLog} (h : l.WF) (hu : Uncompacted l) :
    l.lastEntryID = .ok { term := (absLogL val l).lastTerm, index := (absLogL val l).length } := by
  obtain ⟨t, ht, he⟩ := RaftLog.lastEntryID_spec h
  rw [term_last_eq val hu] at ht
  injection ht with ht
  rw [he, ← ht, absLogL_last val hu]

/-- `isUpToDate` is the Spec's `upToDate` -/
theorem isUpToDate_eq {l : RaftLog} (h : l.WF) (hu : Uncompacted l) (their : EntryID) :
    l.isUpToDate their = .ok (Spec.upToDate their.term their.index (absLogL val l)) := by
  obtain ⟨t, ht, he⟩ := RaftLog.isUpToDate_spec h their
  rw [term_last_eq val hu] at ht
  injection ht with ht
  rw [he, ← ht, absLogL_last val hu]
  rfl

end

/-! ### `appendResult` -/

section
variable (val : Val)
open Spec

/-- entries that all agree: the agreement count is the whole length -/
theorem agree_all (L : Spec.Log) (i : Nat) (es : List Entry) (hc : Contig i es)
    (h : ∀ e ∈ es, L.termAt e.index = some e.term) :
    appendResult.agree L i (es.map (absEnt val)) = es.length := by
  induction es generalizing i with
  | nil => simp [agree_nil]
  | cons e es ih =>
    obtain ⟨h0, hc'⟩ := contig_cons.mp hc
    simp only [List.map_cons, agree_cons, List.length_cons]
    have he := h e List.mem_cons_self
    rw [h0] at he
    rw [if_pos (show L.termAt i = some (absEnt val e).term from he), ih (i + 1) hc' (fun x hx => h x (List.mem_cons_of_mem _ hx))]

/-- a first disagreeing entry after an agreeing prefix: the count is the length of the prefix -/
theorem agree_prefix (L : Spec.Log) (i : Nat) (pre : List Entry) (e : Entry) (post : List Entry)
    (hc : Contig i (pre ++ e :: post)) (h : ∀ x ∈ pre, L.termAt x.index = some x.term)
    (hne : L.termAt e.index ≠ some e.term) :
    appendResult.agree L i ((pre ++ e :: post).map (absEnt val)) = pre.length := by
  induction pre generalizing i with
  | nil =>
    obtain ⟨h0, _⟩ := contig_cons.mp hc
    simp only [List.nil_append, List.map_cons, agree_cons, List.length_nil]
    rw [h0] at hne
    rw [if_neg (show ¬ L.termAt i = some (absEnt val e).term from hne)]
  | cons p pre ih =>
    obtain ⟨h0, hc'⟩ := contig_cons.mp hc
    simp only [List.cons_append, List.map_cons, agree_cons, List.length_cons]
    have hp := h p List.mem_cons_self
    rw [h0] at hp
    rw [if_pos (show L.termAt i = some (absEnt val p).term from hp)]
    have := ih (i + 1) hc' (fun x hx => h x (List.mem_cons_of_mem _ hx))
    simp only [List.map_append, List.map_cons] at this ⊢
    rw [this]

/-- `appendResult` when the previous entry does not match -/
theorem appendResult_nomatch (L : Spec.Log) (prev pt : Nat) (ents : Spec.Log) (h : L.termAt prev ≠ some pt) :
    appendResult L prev pt ents = none := by
  unfold appendResult; rw [if_pos h]

/-- `appendResult` when everything is already there -/
theorem appendResult_all (L : Spec.Log) (prev pt : Nat) (es : List Entry) (hm : L.termAt prev = some pt)
    (hc : Contig (prev + 1) es) (h : ∀ e ∈ es, L.termAt e.index = some e.term) :
    appendResult L prev pt (es.map (absEnt val)) = some L := by
  unfold appendResult
  rw [if_neg (by simpa using hm)]
  simp only [agree_all val L (prev + 1) es hc h, List.length_map, if_true]

/-- `appendResult` with a conflict at `e` -/
theorem appendResult_conflict (L : Spec.Log) (prev pt : Nat) (pre : List Entry) (e : Entry) (post : List Entry)
    (hm : L.termAt prev = some pt) (hc : Contig (prev + 1) (pre ++ e :: post))
    (h : ∀ x ∈ pre, L.termAt x.index = some x.term) (hne : L.termAt e.index ≠ some e.term) :
    appendResult L prev pt ((pre ++ e :: post).map (absEnt val)) =
      some (L.take (prev + pre.length) ++ (e :: post).map (absEnt val)) := by
  unfold appendResult
  rw [if_neg (by simpa using hm)]
  simp only [agree_prefix val L (prev + 1) pre e post hc h hne, List.length_map, List.length_append,
    List.length_cons]
  rw [if_neg (by omega)]
  congr 2
  rw [List.map_append, List.drop_left' (by simp)]

/-- the ghost log after an overwrite from `e.index` (uncompacted log, `e.index ≥ 1`) -/
theorem overwrite_ents_map (a : ALog) (hb : a.base = 0) (e : Entry) (post : List Entry) (k : Nat)
    (hk : e.index = k + 1) :
    (a.overwrite (e :: post)).ents.map (absEnt val) =
      (a.ents.map (absEnt val)).take k ++ (e :: post).map (absEnt val) := by
  rw [ALog.overwrite_ents, hb, hk, List.map_append, List.map_take]
  congr 2

/-- `keepsCommitted` holds when nothing changes -/
theorem keepsCommitted_of_same (L : Spec.Log) (prev pt : Nat) (ents : Spec.Log) (c : Nat)
    (h : appendResult L prev pt ents = some L) : keepsCommitted L prev pt ents c = true := by
  unfold keepsCommitted; rw [h]; simp

/-- `keepsCommitted` holds when the overwrite starts above the commit index -/
theorem keepsCommitted_of_take (L : Spec.Log) (prev pt : Nat) (ents new : Spec.Log) (c p : Nat)
    (h : appendResult L prev pt ents = some (L.take p ++ new)) (hcp : c ≤ p) (hcl : c ≤ L.length) :
    keepsCommitted L prev pt ents c = true := by
  unfold keepsCommitted; rw [h]
  simp only [beq_iff_eq]
  rw [List.take_append_of_le_length (by rw [List.length_take]; omega), List.take_take,
    Nat.min_eq_left hcp]

end

end RaftVerif.Refine
