import RaftVerif.Proofs.FlowSend
/-!
# Proofs/FlowFrame — the frame relation `Flow` (messages only appended, every appended `MsgApp`
within the size limit, inflight windows keep `count ≤ size`) and inversion lemmas for symbolic
execution of the state monad.  Core Lean only.
-/
namespace RaftVerif

/-! ### inversion of successful runs -/

theorem bind_ok {α β : Type} {x : M α} {f : α → M β} {r r' : Raft} {b : β}
    (h : (x >>= f).run r = .ok (b, r')) :
    ∃ a r1, x.run r = .ok (a, r1) ∧ (f a).run r1 = .ok (b, r') := by
  simp only [StateT.run_bind] at h
  cases hx : x.run r with
  | error e => rw [hx] at h; cases h
  | ok p => rw [hx] at h; exact ⟨p.1, p.2, rfl, h⟩

theorem get_ok {r r1 a : Raft} (h : (get : M Raft).run r = .ok (a, r1)) : a = r ∧ r1 = r := by
  simp only [StateT.run_get, P_pure_eq] at h
  injection h with h; injection h with h1 h2; exact ⟨h1.symm, h2.symm⟩

theorem pure_ok {α : Type} {a b : α} {r r1 : Raft} (h : (pure a : M α).run r = .ok (b, r1)) :
    b = a ∧ r1 = r := by
  simp only [StateT.run_pure, P_pure_eq] at h
  injection h with h; injection h with h1 h2; exact ⟨h1.symm, h2.symm⟩

theorem set_ok {s r r1 : Raft} {u : PUnit} (h : (set s : M PUnit).run r = .ok (u, r1)) : r1 = s := by
  simp only [StateT.run_set, P_pure_eq] at h
  injection h with h; injection h with _ h2; exact h2.symm

theorem modify_ok {f : Raft → Raft} {r r1 : Raft} {u : PUnit}
    (h : (modify f : M PUnit).run r = .ok (u, r1)) : r1 = f r := by
  simp only [StateT.run_modify, P_pure_eq] at h
  injection h with h; injection h with _ h2; exact h2.symm

theorem liftP_ok {α : Type} {x : P α} {a : α} {r r1 : Raft} (h : (liftP x).run r = .ok (a, r1)) :
    x = .ok a ∧ r1 = r := by
  cases x with
  | error e => cases h
  | ok v =>
    simp only [liftP_run_ok] at h
    injection h with h; injection h with h1 h2
    exact ⟨by rw [h1], h2.symm⟩

theorem throw_ok {α : Type} {e : String} {a : α} {r r1 : Raft} (h : (throw e : M α).run r = .ok (a, r1)) :
    False := by
  cases h

theorem lookup_mem {β : Type} (l : List (Id × β)) (k : Id) (v : β) (h : Quorum.lookup l k = some v) :
    (k, v) ∈ l := by
  induction l with
  | nil => simp [Quorum.lookup] at h
  | cons a t ih =>
    obtain ⟨ka, va⟩ := a
    rw [Quorum.lookup] at h
    split at h
    · rename_i heq
      injection h with h
      have : ka = k := by simpa using heq
      subst this; subst h; simp
    · exact List.mem_cons_of_mem _ (ih h)

namespace Raft

theorem getPr_ok {id : Id} {pr : Progress} {r r1 : Raft} (h : (getPr id).run r = .ok (pr, r1)) :
    r1 = r ∧ r.trk.getProgress id = some pr := by
  rw [getPr_run] at h
  cases hg : r.trk.getProgress id with
  | none => rw [hg] at h; cases h
  | some p =>
    rw [hg] at h
    injection h with h; injection h with h1 h2
    exact ⟨h2.symm, by rw [h1]⟩

theorem setPr_ok {id : Id} {pr : Progress} {r r1 : Raft} {u : Unit}
    (h : (setPr id pr).run r = .ok (u, r1)) : r1 = { r with trk := r.trk.setProgress id pr } := by
  rw [setPr_run] at h
  injection h with h; injection h with _ h2; exact h2.symm

/-! ### the frame relation -/

/-- configuration untouched, messages only appended, every appended `MsgApp` within the size limit -/
def MsgsOK (r r' : Raft) : Prop :=
  r'.cfg = r.cfg ∧ ∃ new, r'.msgs = r.msgs ++ new ∧
    ∀ m ∈ new, m.typ = .app → entsSize m.entries ≤ r.cfg.maxMsgSize ∨ m.entries.length ≤ 1

def Flow (r r' : Raft) : Prop := MsgsOK r r' ∧ (WindowsOK r → WindowsOK r')

theorem MsgsOK.refl (r : Raft) : MsgsOK r r := ⟨rfl, [], by simp, by simp⟩

theorem MsgsOK.trans {r1 r2 r3 : Raft} (h12 : MsgsOK r1 r2) (h23 : MsgsOK r2 r3) : MsgsOK r1 r3 := by
  obtain ⟨c1, n1, hm1, hs1⟩ := h12
  obtain ⟨c2, n2, hm2, hs2⟩ := h23
  refine ⟨c2.trans c1, n1 ++ n2, by rw [hm2, hm1, List.append_assoc], ?_⟩
  intro m hm
  rcases List.mem_append.mp hm with h | h
  · exact hs1 m h
  · rw [c1] at hs2; exact hs2 m h

theorem Flow.refl (r : Raft) : Flow r r := ⟨MsgsOK.refl r, fun h => h⟩

theorem Flow.trans {r1 r2 r3 : Raft} (h12 : Flow r1 r2) (h23 : Flow r2 r3) : Flow r1 r3 :=
  ⟨h12.1.trans h23.1, fun h => h23.2 (h12.2 h)⟩

theorem AppStep.toFlow {r r' : Raft} (h : AppStep r r') : Flow r r' :=
  ⟨⟨h.1.1, h.2.1⟩, h.2.2⟩

/-- a change that touches neither the configuration, nor the outbox, nor the progress map -/
theorem Flow.frame {r r' : Raft} (hc : r'.cfg = r.cfg) (hm : r'.msgs = r.msgs)
    (hp : r'.trk.progress = r.trk.progress) : Flow r r' := by
  refine ⟨⟨hc, [], by simp [hm], by simp⟩, ?_⟩
  intro hw id pr hg
  apply hw id pr
  unfold Tracker.getProgress at *
  rw [← hp]; exact hg

theorem Flow.pushMsg (r : Raft) (m : Message) (hm : m.typ ≠ .app) :
    Flow r { r with msgs := r.msgs ++ [m] } := by
  refine ⟨⟨rfl, [m], rfl, ?_⟩, fun hw => hw⟩
  intro m' hm' happ
  simp only [List.mem_singleton] at hm'
  subst hm'
  exact absurd happ hm

theorem Flow.setProgress (r : Raft) (id : Id) (pr : Progress) (h : WindowsOK r → pr.inflights.WF) :
    Flow r { r with trk := r.trk.setProgress id pr } := by
  refine ⟨MsgsOK.refl r, ?_⟩
  intro hw id' pr' hg
  simp only [getProgress_setProgress] at hg
  split at hg
  · injection hg with hg; subst hg; exact h hw
  · exact hw id' pr' hg

/-- every successful `send` appends one message of the same type either to `msgs` or to
`msgsAfterAppend` -/
theorem send_outcome (m : Message) (r r1 : Raft) (u : Unit) (h : (send m).run r = .ok (u, r1)) :
    ∃ m', m'.typ = m.typ ∧
      (r1 = { r with msgs := r.msgs ++ [m'] } ∨ r1 = { r with msgsAfterAppend := r.msgsAfterAppend ++ [m'] }) := by
  unfold send at h
  simp only [StateT.run_bind, StateT.run_get, P_pure_eq, P_ok_bind] at h
  by_cases hf : (m.from == 0) = true <;>
  by_cases hv : (m.typ == MsgType.vote || m.typ == MsgType.voteResp || m.typ == MsgType.preVote ||
      m.typ == MsgType.preVoteResp) = true <;>
  by_cases ht : (m.term == 0) = true <;>
  by_cases hp : (!(m.typ == MsgType.prop) && !(m.typ == MsgType.readIndex)) = true <;>
  by_cases ha : (m.typ == MsgType.appResp || m.typ == MsgType.voteResp || m.typ == MsgType.preVoteResp) = true <;>
  by_cases hto : (m.to == r.cfg.id) = true <;>
  simp only [hf, hv, ht, hp, ha, hto, ↓reduceIte, Bool.false_eq_true, pure_bind, StateT.run_bind, M_run_throw,
    P_error_bind, StateT.run_modify, P_pure_eq, bne, Bool.not_true, Bool.not_false] at h <;>
  first
    | (cases h; done)
    | (injection h with h; injection h with _ h; subst h; refine ⟨_, ?_, Or.inl rfl⟩; rfl)
    | (injection h with h; injection h with _ h; subst h; refine ⟨_, ?_, Or.inr rfl⟩; rfl)

theorem send_flow (m : Message) (hm : m.typ ≠ .app) (r r1 : Raft) (u : Unit)
    (h : (send m).run r = .ok (u, r1)) : Flow r r1 := by
  obtain ⟨m', hty, h1 | h1⟩ := send_outcome m r r1 u h
  · subst h1; exact Flow.pushMsg r m' (by rw [hty]; exact hm)
  · subst h1; exact Flow.frame rfl rfl rfl

theorem send_keeps (m : Message) (r r1 : Raft) (u : Unit) (h : (send m).run r = .ok (u, r1)) :
    r1.trk = r.trk ∧ r1.log = r.log ∧ r1.cfg = r.cfg ∧ r1.readOnly = r.readOnly ∧ r1.term = r.term := by
  obtain ⟨m', _, e | e⟩ := send_outcome m r r1 u h <;> subst e <;> exact ⟨rfl, rfl, rfl, rfl, rfl⟩

theorem sendHeartbeat_flow (to : Id) (ctx : Option Bytes) (r r' : Raft) (u : Unit)
    (h : (sendHeartbeat to ctx).run r = .ok (u, r')) : Flow r r' := by
  unfold sendHeartbeat at h
  obtain ⟨pr, r1, h1, hA⟩ := bind_ok h
  obtain ⟨e1, hg⟩ := getPr_ok h1; subst e1
  obtain ⟨r0, r2, h2, hB⟩ := bind_ok hA
  obtain ⟨e0, e2⟩ := get_ok h2; subst e0 e2
  obtain ⟨u3, r3, h3, hC⟩ := bind_ok hB
  have f3 := send_flow _ (by simp) _ _ _ h3
  have e4 := setPr_ok hC; subst e4
  refine f3.trans (Flow.setProgress _ _ _ ?_)
  intro hw
  have := (send_keeps _ _ _ _ h3).1
  exact hw to pr (by rw [this]; exact hg)

theorem forIn_flow {α : Type} (f : α → PUnit → M (ForInStep PUnit))
    (hstep : ∀ a r s r', (f a PUnit.unit).run r = .ok (s, r') → Flow r r')
    (l : List α) (r r' : Raft) (u : PUnit)
    (h : (forIn l PUnit.unit f).run r = .ok (u, r')) : Flow r r' :=
  forIn_run_rel Flow Flow.refl (fun _ _ _ => Flow.trans) f hstep l r r' u h

theorem bcastHeartbeatWithCtx_flow (ctx : Option Bytes) (r r' : Raft) (u : Unit)
    (h : (bcastHeartbeatWithCtx ctx).run r = .ok (u, r')) : Flow r r' := by
  unfold bcastHeartbeatWithCtx progressIds at h
  obtain ⟨r0, r1, h1, hA⟩ := bind_ok h
  obtain ⟨e0, e1⟩ := get_ok h1; subst e0 e1
  obtain ⟨ids, r2, h2, hB⟩ := bind_ok hA
  obtain ⟨r0', r2', h2', h2''⟩ := bind_ok h2
  obtain ⟨e0, e1⟩ := get_ok h2'; subst e0 e1
  obtain ⟨e0, e1⟩ := pure_ok h2''; subst e0 e1
  obtain ⟨u4, r4, h4, hD⟩ := bind_ok hB
  obtain ⟨_, e⟩ := pure_ok hD; subst e
  refine forIn_flow _ ?_ _ _ _ _ h4
  intro id r1 s r2 hs
  split at hs
  · obtain ⟨u1, r3, h3, hC⟩ := bind_ok hs
    obtain ⟨_, e⟩ := pure_ok hC; subst e
    exact sendHeartbeat_flow _ _ _ _ _ h3
  · obtain ⟨_, e⟩ := pure_ok hs; subst e
    exact Flow.refl _

theorem bcastHeartbeat_flow (r r' : Raft) (u : Unit) (h : bcastHeartbeat.run r = .ok (u, r')) :
    Flow r r' := by
  unfold bcastHeartbeat at h
  obtain ⟨r0, r1, h1, hA⟩ := bind_ok h
  obtain ⟨e0, e1⟩ := get_ok h1; subst e0 e1
  exact bcastHeartbeatWithCtx_flow _ _ _ _ hA

theorem WindowsOK_of_forall_mem (r : Raft) (h : ∀ id pr, (id, pr) ∈ r.trk.progress → pr.inflights.WF) :
    WindowsOK r := fun id pr hg => h id pr (lookup_mem _ _ _ hg)

theorem reset_flow (term : Nat) (r r' : Raft) (u : Unit) (h : (reset term).run r = .ok (u, r')) :
    Flow r r' := by
  unfold reset resetRandomizedElectionTimeout abortLeaderTransfer at h
  simp only [StateT.run_bind, StateT.run_modify, StateT.run_get, P_pure_eq, P_ok_bind] at h
  by_cases ht : (r.term != term) = true
  all_goals
    simp only [ht, ↓reduceIte] at h
    split at h
    · cases h
    · simp only [StateT.run_set, P_pure_eq, P_ok_bind] at h
      injection h with h
      injection h with _ h
      subst h
      refine ⟨⟨rfl, [], by simp, by simp⟩, fun _ => WindowsOK_of_forall_mem _ ?_⟩
      intro id pr hmem
      simp only [List.mem_map] at hmem
      obtain ⟨⟨id0, pr0⟩, _, heq⟩ := hmem
      injection heq with _ heq
      subst heq
      exact Inflights.WF_of_empty _ rfl

theorem becomeFollower_flow (term lead : Nat) (r r' : Raft) (u : Unit)
    (h : (becomeFollower term lead).run r = .ok (u, r')) : Flow r r' := by
  unfold becomeFollower at h
  obtain ⟨u1, r1, h1, hA⟩ := bind_ok h
  have e := modify_ok hA; subst e
  exact (reset_flow _ _ _ _ h1).trans (Flow.frame rfl rfl rfl)

theorem appendEntry_flow (es : List Entry) (r r' : Raft) (b : Bool)
    (h : (appendEntry es).run r = .ok (b, r')) : Flow r r' := by
  rw [appendEntry_run] at h
  split at h
  · injection h with h; injection h with _ h; subst h; exact Flow.refl _
  · cases ha : r.log.append (cloneEntries r es) with
    | error e => rw [ha] at h; cases h
    | ok p =>
      rw [ha] at h
      injection h with h; injection h with _ h; subst h
      exact Flow.frame rfl rfl rfl

theorem maybeCommit_flow (r r' : Raft) (b : Bool) (h : maybeCommit.run r = .ok (b, r')) : Flow r r' := by
  unfold maybeCommit at h
  obtain ⟨r0, r1, h1, hA⟩ := bind_ok h
  obtain ⟨e0, e1⟩ := get_ok h1; subst e0 e1
  split at hA
  · obtain ⟨_, e⟩ := pure_ok hA; subst e; exact Flow.refl _
  · obtain ⟨p, r2, h2, hB⟩ := bind_ok hA
    obtain ⟨_, e⟩ := liftP_ok h2; subst e
    obtain ⟨u3, r3, h3, hC⟩ := bind_ok hB
    obtain ⟨_, e⟩ := pure_ok hC; subst e
    have e := modify_ok h3; subst e
    exact Flow.frame rfl rfl rfl

theorem sendTimeoutNow_flow (to : Id) (r r' : Raft) (u : Unit)
    (h : (sendTimeoutNow to).run r = .ok (u, r')) : Flow r r' :=
  send_flow _ (by simp) _ _ _ h

theorem sendReadIndexResp_flow (req : Message) (idx : Nat) (r r' : Raft) (u : Unit)
    (h : (sendReadIndexResp req idx).run r = .ok (u, r')) : Flow r r' := by
  unfold sendReadIndexResp responseToReadIndexReq at h
  obtain ⟨resp, r1, h1, hA⟩ := bind_ok h
  obtain ⟨r0, r2, h2, hB⟩ := bind_ok h1
  obtain ⟨e0, e1⟩ := get_ok h2; subst e0 e1
  split at hB
  · exact (throw_ok hB).elim
  · split at hB
    · obtain ⟨u3, r3, h3, hC⟩ := bind_ok hB
      have e := set_ok h3; subst e
      obtain ⟨e1, e2⟩ := pure_ok hC; subst e1 e2
      simp only at hA
      obtain ⟨_, e⟩ := pure_ok hA; subst e
      exact Flow.frame rfl rfl rfl
    · obtain ⟨e1, e2⟩ := pure_ok hB; subst e1 e2
      simp only at hA
      split at hA
      · exact send_flow _ (by simp) _ _ _ hA
      · obtain ⟨_, e⟩ := pure_ok hA; subst e; exact Flow.refl _

theorem committedEntryInCurrentTerm_ok {r r1 : Raft} {b : Bool}
    (h : committedEntryInCurrentTerm.run r = .ok (b, r1)) : r1 = r := by
  unfold committedEntryInCurrentTerm at h
  obtain ⟨r0, r2, h2, hB⟩ := bind_ok h
  obtain ⟨e0, e1⟩ := get_ok h2; subst e0 e1
  exact (pure_ok hB).2

theorem sendMsgReadIndexResponse_flow (m : Message) (r r' : Raft) (u : Unit)
    (h : (sendMsgReadIndexResponse m).run r = .ok (u, r')) : Flow r r' := by
  unfold sendMsgReadIndexResponse at h
  obtain ⟨r0, r1, h1, hA⟩ := bind_ok h
  obtain ⟨e0, e1⟩ := get_ok h1; subst e0 e1
  split at hA
  · exact sendReadIndexResp_flow _ _ _ _ _ hA
  · split at hA
    · obtain ⟨ro, r2, h2, hB⟩ := bind_ok hA
      obtain ⟨_, e⟩ := liftP_ok h2; subst e
      obtain ⟨u3, r3, h3, hC⟩ := bind_ok hB
      have e := set_ok h3; subst e
      refine Flow.trans ?_ (bcastHeartbeat_flow _ _ _ hC)
      exact Flow.frame rfl rfl rfl
    · exact sendReadIndexResp_flow _ _ _ _ _ hA

theorem releasePendingReadIndexMessages_flow (r r' : Raft) (u : Unit)
    (h : releasePendingReadIndexMessages.run r = .ok (u, r')) : Flow r r' := by
  unfold releasePendingReadIndexMessages at h
  obtain ⟨r0, r1, h1, hA⟩ := bind_ok h
  obtain ⟨e0, e1⟩ := get_ok h1; subst e0 e1
  split at hA
  · obtain ⟨_, e⟩ := pure_ok hA; subst e; exact Flow.refl _
  · obtain ⟨b, r2, h2, hB⟩ := bind_ok hA
    have e := committedEntryInCurrentTerm_ok h2; subst e
    split at hB
    · obtain ⟨_, e⟩ := pure_ok hB; subst e; exact Flow.refl _
    · obtain ⟨u3, r3, h3, hC⟩ := bind_ok hB
      have e := set_ok h3; subst e
      obtain ⟨u7, r7, h7, hE⟩ := bind_ok hC
      obtain ⟨_, e⟩ := pure_ok hE; subst e
      refine Flow.trans ?_ (forIn_flow _ ?_ _ _ _ _ h7)
      · exact Flow.frame rfl rfl rfl
      intro m r4 s r5 hs
      obtain ⟨u6, r6, h6, hD⟩ := bind_ok hs
      obtain ⟨_, e⟩ := pure_ok hD; subst e
      exact sendMsgReadIndexResponse_flow _ _ _ _ h6

end Raft
end RaftVerif
