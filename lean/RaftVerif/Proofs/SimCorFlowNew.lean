import RaftVerif.Proofs.SimCorFlow
/-!
# Proofs/SimCorFlowNew — a node built by `newRaft` / `RawNode.new` has well-formed inflight windows
-/
namespace RaftVerif.SimCorFlow
open Raft Sim Refine

theorem loadState_flow (hs : HardState) (r r' : Raft) (u : Unit) (h : (loadState hs).run r = .ok (u, r')) :
    Flow r r' := by
  unfold loadState at h
  obtain ⟨r0, r1, h1, hA⟩ := bind_ok h
  obtain ⟨e0, e1⟩ := get_ok h1; subst e0 e1
  split at hA
  · obtain ⟨u2, r2, h2, _⟩ := bind_ok hA
    exact (throw_ok h2).elim
  · have := set_ok hA; subst this
    exact Flow.frame rfl rfl rfl

theorem nrEnd_flow (r r' : Raft) (u : Unit)
    (h : (do let s ← get; becomeFollower s.term 0 : M Unit).run r = .ok (u, r')) : Flow r r' := by
  obtain ⟨r0, r1, h1, hA⟩ := bind_ok h
  obtain ⟨e0, e1⟩ := get_ok h1; subst e0 e1
  exact becomeFollower_flow _ _ _ _ _ hA

theorem nrApp_flow (c : Config) (r r' : Raft) (u : Unit)
    (h : (if c.applied > 0 then do
            let s ← get
            let l ← liftP (s.log.appliedTo c.applied 0)
            setLog l
            let s ← get
            becomeFollower s.term 0
          else do
            let s ← get
            becomeFollower s.term 0 : M Unit).run r = .ok (u, r')) : Flow r r' := by
  split at h
  · obtain ⟨r0, r1, h1, hA⟩ := bind_ok h
    obtain ⟨e0, e1⟩ := get_ok h1; subst e0 e1
    obtain ⟨l, r2, h2, hB⟩ := bind_ok hA
    obtain ⟨_, e⟩ := liftP_ok h2; subst e
    obtain ⟨u3, r3, h3, hC⟩ := bind_ok hB
    exact Flow.trans (setLog_flow _ _ _ _ h3) (nrEnd_flow _ _ _ hC)
  · exact nrEnd_flow _ _ _ h

theorem nrTail_flow (c : Config) (hs : Option HardState) (r r' : Raft) (u : Unit)
    (h : (C14.nrTail c hs).run r = .ok (u, r')) : Flow r r' := by
  unfold C14.nrTail at h
  dsimp only at h
  cases hs with
  | none => exact nrApp_flow c _ _ _ h
  | some hd =>
    dsimp only at h
    split at h
    · obtain ⟨u1, r1, h1, hA⟩ := bind_ok h
      exact Flow.trans (loadState_flow _ _ _ _ h1) (nrApp_flow c _ _ _ hA)
    · exact nrApp_flow c _ _ _ h

theorem newRaft_win {c : Config} {st : MemoryStorage} {draws : List Nat} {r : Raft}
    (h : newRaft c st draws = .ok r) : WindowsOK r := by
  rw [C14.newRaft_eq] at h
  obtain ⟨c', _, h⟩ := bind_eq_ok.1 h
  obtain ⟨⟨u, r1⟩, hrun, h⟩ := bind_eq_ok.1 h
  simp only [pure, Except.pure, Except.ok.injEq] at h
  subst h
  rw [C14.newRaftAct_run _ _ _ _ (C14.newRaftInit_state _ _ _)] at hrun
  have h0 : AllWF (C14.newRaftInit c' st draws).trk.progress := AllWF_nil
  split at hrun
  · cases hrun
  · split at hrun
    · cases hrun
    · rename_i cfg trk hrc
      split at hrun
      · cases hrun
      · have htrk : AllWF trk := restoreConf_AllWF _ _ (cfg, trk) h0 hrc
        exact (nrTail_flow _ _ _ _ _ hrun).2 htrk

theorem new_win {c : Config} {st : MemoryStorage} {draws : List Nat} {rn : RawNode}
    (h : RawNode.new c st draws = .ok rn) : WindowsOK rn.raft := by
  unfold RawNode.new at h
  obtain ⟨r, hr, h⟩ := bind_eq_ok.1 h
  simp only [pure, Except.pure, Except.ok.injEq] at h
  subst h
  exact newRaft_win hr

end RaftVerif.SimCorFlow
