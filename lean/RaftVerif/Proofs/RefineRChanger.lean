import RaftVerif.Proofs.RefineRConf
/-!
# Proofs/RefineRChanger — accepted Changer operations are `SpecR.Conf.allowed` transitions (item 2)
-/
namespace RaftVerif.RefineR
open RaftVerif.Quorum

/-- non-joint in the model (`outgoing = none`) is non-joint in the abstraction -/
theorem absConfC_snd_of_none {cfg : TrackerConfig} (h : cfg.outgoing = none) : (absConfC cfg).2 = [] := by
  simp [absConfC, h]

/-- **Simple**: the exact shape of the abstract transition -/
theorem simple_shape (c : Changer) (ccs : List ConfChangeSingle) (cfg' : TrackerConfig) (trk' : ProgressMap)
    (hs : ConfInvStrong c.tracker.cfg c.tracker.progress) (h : c.simple ccs = .ok (cfg', trk')) :
    (absConfC c.tracker.cfg).2 = [] ∧ (absConfC cfg').2 = [] ∧
    symdiff (absConfC c.tracker.cfg).1 (absConfC cfg').1 ≤ 1 ∧
    (absConfC cfg').1 ≠ [] ∧ (absConfC cfg').1.Nodup := by
  obtain ⟨h1, h2⟩ := simple_nonjoint c ccs cfg' trk' h
  have hs' := simple_preserves c ccs cfg' trk' hs h
  exact ⟨absConfC_snd_of_none h1, absConfC_snd_of_none h2, simple_symdiff_le_one c ccs cfg' trk' h,
    hs'.votersNe, hs'.wf.voters.nodup⟩

theorem simple_allowed (c : Changer) (ccs : List ConfChangeSingle) (cfg' : TrackerConfig) (trk' : ProgressMap)
    (hs : ConfInvStrong c.tracker.cfg c.tracker.progress) (h : c.simple ccs = .ok (cfg', trk')) :
    (absConfC c.tracker.cfg).allowed (absConfC cfg') = true := by
  obtain ⟨h1, h2, h3, h4, h5⟩ := simple_shape c ccs cfg' trk' hs h
  exact (allowed_iff _ _).mpr ⟨h4, h5, Or.inl ⟨h1, h2, h3⟩⟩

/-- **EnterJoint**: the result is `(V', V)` -/
theorem enterJoint_shape (c : Changer) (al : Bool) (ccs : List ConfChangeSingle) (cfg' : TrackerConfig)
    (trk' : ProgressMap) (hs : ConfInvStrong c.tracker.cfg c.tracker.progress)
    (h : c.enterJoint al ccs = .ok (cfg', trk')) :
    (absConfC c.tracker.cfg).2 = [] ∧ (absConfC cfg').2 = (absConfC c.tracker.cfg).1 ∧
    (absConfC cfg').2 ≠ [] ∧ (absConfC cfg').1 ≠ [] ∧ (absConfC cfg').1.Nodup := by
  have h1 := ((enterJoint_accepts_iff c al ccs (cfg', trk') hs).mp h).1
  have h2 := (enterJoint_outgoing_eq c al ccs cfg' trk' h).1
  have hs' := enterJoint_preserves c al ccs cfg' trk' hs h
  have e : (absConfC cfg').2 = (absConfC c.tracker.cfg).1 := by simp [absConfC, h2]
  exact ⟨absConfC_snd_of_none h1, e, by rw [e]; exact hs.votersNe, hs'.votersNe, hs'.wf.voters.nodup⟩

theorem enterJoint_allowed (c : Changer) (al : Bool) (ccs : List ConfChangeSingle) (cfg' : TrackerConfig)
    (trk' : ProgressMap) (hs : ConfInvStrong c.tracker.cfg c.tracker.progress)
    (h : c.enterJoint al ccs = .ok (cfg', trk')) :
    (absConfC c.tracker.cfg).allowed (absConfC cfg') = true := by
  obtain ⟨h1, h2, _, h4, h5⟩ := enterJoint_shape c al ccs cfg' trk' hs h
  exact (allowed_iff _ _).mpr ⟨h4, h5, Or.inr (Or.inl ⟨h1, h2⟩)⟩

/-- **LeaveJoint**: the result is `(V', ∅)` where `(V', V)` was the joint configuration -/
theorem leaveJoint_shape (c : Changer) (cfg' : TrackerConfig) (trk' : ProgressMap)
    (hs : ConfInvStrong c.tracker.cfg c.tracker.progress) (h : c.leaveJoint = .ok (cfg', trk')) :
    (absConfC c.tracker.cfg).2 ≠ [] ∧ (absConfC cfg').1 = (absConfC c.tracker.cfg).1 ∧
    (absConfC cfg').2 = [] ∧ (absConfC cfg').1 ≠ [] ∧ (absConfC cfg').1.Nodup := by
  obtain ⟨h1, h2, _⟩ := leaveJoint_voters_eq c cfg' trk' h
  have hj := ((leaveJoint_ok_iff c (cfg', trk')).mp h).2.1
  have e : (absConfC cfg').1 = (absConfC c.tracker.cfg).1 := h1
  refine ⟨?_, e, absConfC_snd_of_none h2, by rw [e]; exact hs.votersNe, by rw [e]; exact hs.wf.voters.nodup⟩
  intro h0
  have : (c.tracker.cfg.outgoing.getD []).length > 0 := by simpa [joint, TrackerConfig.clone] using hj
  rw [show c.tracker.cfg.outgoing.getD [] = [] from h0] at this
  exact Nat.lt_irrefl 0 this

theorem leaveJoint_allowed (c : Changer) (cfg' : TrackerConfig) (trk' : ProgressMap)
    (hs : ConfInvStrong c.tracker.cfg c.tracker.progress) (h : c.leaveJoint = .ok (cfg', trk')) :
    (absConfC c.tracker.cfg).allowed (absConfC cfg') = true := by
  obtain ⟨h1, h2, h3, h4, h5⟩ := leaveJoint_shape c cfg' trk' hs h
  exact (allowed_iff _ _).mpr ⟨h4, h5, Or.inr (Or.inr ⟨h1, h2, h3⟩)⟩

/-- whichever operation `applyConfChange` selects (`applyV2`), an accepted change is an allowed transition -/
theorem applyV2_allowed (c : Changer) (cc : ConfChangeV2) (cfg' : TrackerConfig) (trk' : ProgressMap)
    (hs : ConfInvStrong c.tracker.cfg c.tracker.progress) (h : applyV2 c cc = .ok (cfg', trk')) :
    (absConfC c.tracker.cfg).allowed (absConfC cfg') = true ∧ ConfInvStrong cfg' trk' := by
  unfold applyV2 at h
  split at h
  · exact ⟨leaveJoint_allowed c cfg' trk' hs h, leaveJoint_preserves c cfg' trk' hs h⟩
  · split at h
    · exact ⟨enterJoint_allowed c _ _ cfg' trk' hs h, enterJoint_preserves c _ _ cfg' trk' hs h⟩
    · exact ⟨simple_allowed c _ cfg' trk' hs h, simple_preserves c _ cfg' trk' hs h⟩

end RaftVerif.RefineR
