import RaftVerif.Proofs.SimInv
import RaftVerif.Proofs.NextSolo
/-!
# Proofs/SimVoteResp — a MsgVoteResp of the node's own term

* follower / leader / pre-candidate: ignored
* candidate: the vote is recorded; tally pending (or own vote missing): no Spec action; tally lost: Spec `stepDown`;
  tally won: Spec `becomeLeader n q`, `leaderAppend n (val none none)`, and one `sendApp` per MsgApp of `bcastAppend`
-/
namespace RaftVerif.Sim
open Refine Raft
set_option linter.unusedSimpArgs false

/-! ### the three outcomes of `stepCandidate` on a MsgVoteResp -/

/-- a candidate steps a MsgVoteResp: the vote is recorded (`polled`), then nothing, or `becomeFollower`, or
`becomeLeader; bcastAppend` -/
theorem vr_stepCandidate_cases (fuel : Nat) (m : Message) (s : Raft) (hs : s.state = .candidate)
    (ht : m.typ = .voteResp) :
    Spec (Raft.stepCandidate fuel m) s (fun _ s' =>
      s' = polled s m ∨
      (becomeFollower s.term 0).run (polled s m) = .ok ((), s') ∨
      ((tallyAfter s m).tallyVotes.2.2 = .won ∧ (mapGet (tallyAfter s m).votes s.cfg.id).isSome = true ∧
        ∃ s1, Raft.becomeLeader.run (polled s m) = .ok ((), s1) ∧ Raft.bcastAppend.run s1 = .ok ((), s'))) := by
  obtain ⟨typ, to, frm, term, logTerm, index, entries, commit, vote, snapshot, reject, rejectHint, context, responses⟩ := m
  simp only at ht
  subst ht
  rw [Raft.stepCandidate]
  have hpc : (s.state == Role.preCandidate) = false := by rw [hs]; rfl
  simp only [wp, hpc, Bool.false_and, Bool.false_eq_true, if_false, beq_self_eq_true, true_implies,
    not_true_eq_false, false_implies, and_true, not_false_eq_true, ↓reduceIte]
  refine ⟨trivial, ?_⟩
  split
  · rename_i hwon
    simp only [wp]
    refine ⟨fun _ => Or.inl rfl, fun hown => ?_⟩
    refine (Spec.runs Raft.becomeLeader _).mono (fun _ s1 hrun => ?_)
    refine (Spec.runs Raft.bcastAppend s1).mono (fun _ s' hf => ?_)
    refine Or.inr (Or.inr ⟨hwon, ?_, s1, hrun, hf⟩)
    cases ho : mapGet (s.trk.recordVote frm !reject).votes s.cfg.id with
    | none => rw [ho] at hown; simp at hown
    | some v => simp [tallyAfter, ho]
  · simp only [wp]
    refine (Spec.runs (Raft.becomeFollower _ _) _).mono (fun _ mid h => ?_)
    exact Or.inr (Or.inl h)
  · simp only [wp]
    exact Or.inl rfl

/-! ### ignored: the node is not a candidate -/

theorem vr_ignored (fuel : Nat) (m : Message) (r r' : Raft) (e : Option StepErr) (hs : r.state ≠ .candidate)
    (ht : m.typ = .voteResp) (hterm : m.term = r.term)
    (h : (Raft.step (fuel + 1) m).run r = .ok (e, r')) : r' = r := by
  rw [step_same_term_dispatch fuel m r (Or.inr hterm) (by rw [ht]; decide)] at h
  have key : (dispatch fuel m r).run r = .ok (none, r) := by
    unfold dispatch
    cases hst : r.state with
    | candidate => exact absurd hst hs
    | follower =>
      simp only []
      rw [Raft.stepFollower]
      simp [StateT.run_bind, StateT.run_get, P_pure_eq, P_ok_bind, ht, StateT.run_pure]
      rfl
    | preCandidate =>
      simp only []
      rw [Raft.stepCandidate]
      simp [StateT.run_bind, StateT.run_get, P_pure_eq, P_ok_bind, ht, hst, StateT.run_pure]
    | leader =>
      simp only []
      rw [Raft.stepLeader]
      cases hg : r.trk.getProgress m.from <;>
        simp [StateT.run_bind, StateT.run_get, P_pure_eq, P_ok_bind, ht, hg, StateT.run_pure]
  rw [key] at h
  injection h with h; injection h with _ h; exact h.symm

/-! ### the vote is recorded, nothing else -/

/-- a vote found in the map after `recordVote id b` was there before, or is the new one -/
theorem vr_mapGet_recordVote (t : Tracker) (id : Id) (b : Bool) (v : Id) (x : Bool)
    (h : mapGet (t.recordVote id b).votes v = some x) : mapGet t.votes v = some x ∨ (v = id ∧ x = b) := by
  unfold Tracker.recordVote at h
  split at h
  · exact Or.inl h
  · simp only [mapGet_mapInsert_flow] at h
    split at h
    · rename_i he
      injection h with h
      exact Or.inr ⟨he.symm, h.symm⟩
    · exact Or.inl h

theorem vr_recordVote_progress (t : Tracker) (id : Id) (b : Bool) : (t.recordVote id b).progress = t.progress := by
  unfold Tracker.recordVote; split <;> rfl

/-- the invariant after `poll` -/
theorem vr_polled_inv {val : Val} {voters : List Id} {n : Nat} {r : Raft} {nd : Spec.Node} {msgs : List Spec.Msg}
    {m : Message} (hinv : RaftInv val voters n r nd msgs) (hs : r.state = .candidate)
    (ht : m.typ = .voteResp) (hterm : m.term = r.term) (hin : InOK val n nd msgs m)
    (hself : m.from = n → m.reject = false) : RaftInv val voters n (polled r m) nd msgs := by
  unfold InOK at hin
  simp only [ht] at hin
  have hnl : (polled r m).state ≠ .leader := by
    show r.state ≠ .leader
    rw [hs]; intro h; cases h
  exact {
    abs := hinv.abs.congr rfl rfl rfl rfl
    st := hinv.st.congr rfl rfl rfl rfl (recordVote_cfg _ _ _) (vr_recordVote_progress _ _ _)
    wf := hinv.wf
    unc := hinv.unc
    leadInv := fun hl => absurd hl hnl
    candVote := hinv.candVote
    termPos := hinv.termPos
    logLe := hinv.logLe
    candLt := hinv.candLt
    pend := hinv.pend
    durV := hinv.durV
    durA := hinv.durA
    out := hinv.out
    prom := hinv.prom
    rvTerm := hinv.rvTerm
    rvCov := hinv.rvCov
    votes := by
      intro hc v hv
      rcases vr_mapGet_recordVote _ _ _ _ _ hv with h1 | ⟨h1, h2⟩
      · exact hinv.votes hc v h1
      · have hr : m.reject = false := by
          cases hmr : m.reject
          · rfl
          · rw [hmr] at h2; cases h2
        have := hin.2 hr
        rw [hterm] at this
        subst h1
        exact this
    selfVote := by
      intro hc hv
      rcases vr_mapGet_recordVote _ _ _ _ _ hv with h1 | ⟨h1, h2⟩
      · exact hinv.selfVote hc h1
      · rw [hself h1.symm] at h2
        cases h2
    matchO := fun hl => absurd hl hnl
    matchS := fun hl => absurd hl hnl }

/-! ### lost: `becomeFollower r.term 0`, Spec `stepDown` -/

theorem vr_lookup_map_keys {β γ : Type} (f : Id → β → γ) (l : List (Id × β)) (k : Id) :
    Quorum.lookup (l.map fun p => (p.1, f p.1 p.2)) k = (Quorum.lookup l k).map (f k) := by
  induction l with
  | nil => rfl
  | cons a t ih =>
    obtain ⟨i, b⟩ := a
    simp only [List.map_cons, Quorum.lookup]
    by_cases hk : i = k
    · subst hk; simp
    · have : (i == k) = false := by simpa using hk
      simp only [this, Bool.false_eq_true, ↓reduceIte]
      exact ih

/-- `reset` succeeds only if a draw is left, and then its result is explicit -/
theorem vr_reset_run_exact {t : Nat} {r r1 : Raft} (h : (Raft.reset t).run r = .ok ((), r1)) :
    ∃ d rest, r.draws = d :: rest ∧ r1 = Next.resetSt r t d rest := by
  cases hd : r.draws with
  | nil =>
    exfalso
    unfold Raft.reset Raft.resetRandomizedElectionTimeout at h
    by_cases ht : r.term = t
    · subst ht
      simp [StateT.run_bind, StateT.run_modify, StateT.run_get, StateT.run_set, hd] at h
    · have : (r.term != t) = true := by simpa using ht
      simp [StateT.run_bind, StateT.run_modify, StateT.run_get, StateT.run_set, hd, this, ht] at h
  | cons d rest =>
    refine ⟨d, rest, rfl, ?_⟩
    rw [Next.reset_run t r d rest hd] at h
    injection h with h; injection h with _ h; exact h.symm

theorem vr_becomeFollower_run_exact {t l : Nat} {r r1 : Raft} (h : (Raft.becomeFollower t l).run r = .ok ((), r1)) :
    ∃ d rest, r.draws = d :: rest ∧ r1 = { Next.resetSt r t d rest with lead := l, state := .follower } := by
  unfold Raft.becomeFollower at h
  rw [StateT.run_bind] at h
  cases hr : (Raft.reset t).run r with
  | error x => rw [hr] at h; cases h
  | ok p =>
    obtain ⟨u, mid⟩ := p
    obtain ⟨d, rest, hd, rfl⟩ := vr_reset_run_exact hr
    refine ⟨d, rest, hd, ?_⟩
    rw [hr] at h
    simp only [P_ok_bind, StateT.run_modify, P_pure_eq] at h
    injection h with h; injection h with _ h; exact h.symm

/-- the fresh `Progress` that `reset` installs for peer `id` -/
def vrResetPr (r : Raft) (id : Id) (pr : Progress) : Progress :=
  { match_ := if id == r.cfg.id then r.log.lastIndex else 0, next := r.log.lastIndex + 1,
    inflights := { size := r.trk.maxInflight, maxBytes := r.trk.maxInflightBytes }, isLearner := pr.isLearner }

theorem vr_resetSt_getProgress (r : Raft) (t d : Nat) (rest : List Nat) (v : Id) :
    (Next.resetSt r t d rest).trk.getProgress v = (r.trk.getProgress v).map (vrResetPr r v) :=
  vr_lookup_map_keys (vrResetPr r) r.trk.progress v

theorem vr_static_resetSt {voters : List Id} {n : Nat} {r : Raft} (h : RaftStatic voters n r) (t d : Nat)
    (rest : List Nat) : RaftStatic voters n (Next.resetSt r t d rest) where
  id := h.id
  idnz := h.idnz
  pv := h.pv
  xfer := rfl
  pri := h.pri
  ro := rfl
  tvoters := h.tvoters
  tout := h.tout
  tauto := h.tauto
  prog := fun v => by rw [vr_resetSt_getProgress, Option.isSome_map]; exact h.prog v
  nolearn := fun v pr hpr => by
    rw [vr_resetSt_getProgress] at hpr
    cases hq : r.trk.getProgress v with
    | none => rw [hq] at hpr; cases hpr
    | some pr0 =>
      rw [hq] at hpr
      injection hpr with hpr
      subst hpr
      exact h.nolearn v pr0 hq
  self := h.self

/-- `becomeFollower r.term l` (same term): Spec `stepDown` -/
theorem vr_stepDown {val : Val} {voters : List Id} {n : Nat} {s : Spec.State} {r : Raft} {l : Nat} {r1 : Raft}
    (hinv : RaftInv val voters n r (s.nodes n) s.msgs)
    (h : (Raft.becomeFollower r.term l).run r = .ok ((), r1)) : RaftSim val voters n s r1 := by
  obtain ⟨hen, habs, _, _, _, _, _⟩ := Refinement.stepDown_refines val (cfgOf voters) l r r1 s n hinv.abs h
  have hn : (Spec.apply s (.stepDown n)).nodes n = { (s.nodes n) with role := .follower } := by
    simp [Spec.apply, Spec.setNode]
  refine ⟨[.stepDown n], _, .single hen, by simp [Spec.Action.actor], ?_⟩
  show RaftInv val voters n r1 ((Spec.apply s (.stepDown n)).nodes n) s.msgs
  obtain ⟨d, rest, _, rfl⟩ := vr_becomeFollower_run_exact h
  rw [hn] at habs ⊢
  exact {
    abs := habs
    st := (vr_static_resetSt hinv.st r.term d rest).congr rfl rfl rfl rfl rfl rfl
    wf := hinv.wf
    unc := hinv.unc
    leadInv := fun hl => by cases hl
    candVote := fun hl => by cases hl
    termPos := fun hl => absurd rfl hl
    logLe := hinv.logLe
    candLt := fun hl => by cases hl
    pend := hinv.pend
    durV := hinv.durV
    durA := hinv.durA
    out := hinv.out
    prom := hinv.prom
    rvTerm := hinv.rvTerm
    rvCov := fun hl => by cases hl
    votes := fun hl => by cases hl
    selfVote := fun hl => by cases hl
    matchO := fun hl => by cases hl
    matchS := fun hl => by cases hl }

/-! ### won: `becomeLeader; bcastAppend` -/

/-- what `becomeLeader` leaves of the fields `RaftStatic`, `matchO`, `matchS` look at -/
structure VrLeaderFrame (p s1 : Raft) : Prop where
  xfer : s1.leadTransferee = 0
  pri : s1.pendingReadIndexMessages = p.pendingReadIndexMessages
  ro : s1.readOnly.unconfirmed = []
  none : ∀ v, p.trk.getProgress v = none → s1.trk.getProgress v = none
  some : ∀ v pr, p.trk.getProgress v = some pr → ∃ pr', s1.trk.getProgress v = some pr' ∧
    pr'.isLearner = pr.isLearner ∧ pr'.match_ = if v = p.cfg.id then p.log.lastIndex else 0

theorem vr_becomeLeader_frame (p : Raft) : Spec Raft.becomeLeader p (fun _ s1 => VrLeaderFrame p s1) := by
  unfold Raft.becomeLeader
  simp only [wp]
  refine ⟨fun _ => trivial, fun hne => ?_⟩
  refine (Spec.runs (Raft.reset p.term) p).mono ?_
  intro _ mid hrun
  obtain ⟨d, rest, _, rfl⟩ := vr_reset_run_exact hrun
  intro pr hpr
  have hcid : (Next.resetSt p p.term d rest).cfg.id = p.cfg.id := rfl
  rw [vr_resetSt_getProgress, hcid] at hpr
  rw [hcid]
  refine (appendEntry_spec_st _ _).mono ?_
  rintro ok s' (⟨rfl, rfl⟩ | ⟨rfl, q, _, rfl⟩)
  · exact ⟨fun _ => trivial, fun h => absurd h (by simp)⟩
  · refine ⟨fun h => absurd h (by simp), fun _ => ?_⟩
    cases hq : p.trk.getProgress p.cfg.id with
    | none => rw [hq] at hpr; cases hpr
    | some pr0 =>
      rw [hq] at hpr
      injection hpr with hpr
      refine ⟨rfl, rfl, rfl, ?_, ?_⟩
      · intro v hv
        show Tracker.getProgress (Tracker.setProgress _ _ _) v = none
        rw [getProgress_setProgress, if_neg (fun he => by rw [← he, hq] at hv; cases hv),
          vr_resetSt_getProgress, hv]
        rfl
      · intro v pv hv
        show ∃ pr', Tracker.getProgress (Tracker.setProgress _ _ _) v = some pr' ∧ _
        rw [getProgress_setProgress]
        by_cases he : p.cfg.id = v
        · subst he
          rw [if_pos rfl]
          refine ⟨_, rfl, ?_, ?_⟩
          · rw [hq] at hv; injection hv with hv
            rw [← hpr, ← hv]; rfl
          · rw [if_pos rfl, ← hpr]
            simp [Progress.becomeReplicate, Progress.resetState, vrResetPr]
        · rw [if_neg he, vr_resetSt_getProgress, hv]
          refine ⟨_, rfl, rfl, ?_⟩
          rw [if_neg (fun h => he h.symm)]
          simp only [vrResetPr, Option.map_some]
          have : (v == p.cfg.id) = false := by simpa using fun h => he (Eq.symm h)
          rw [this]; rfl

/-- the Spec `sendApp` actions for a list of queued messages (snapshots need none) -/
theorem vr_sendApps {val : Val} {voters : List Id} {n : Nat} {r : Raft} (hl : r.state = .leader)
    (added : List Message) : ∀ (s : Spec.State), Abs val r (s.nodes n) →
    (∀ x ∈ added, x.typ = .snap ∨ SendAppOK val r x) →
    ∃ as s', RunL (cfgOf voters) s as s' ∧ (∀ a ∈ as, a.actor = n) ∧ s'.nodes = s.nodes ∧
      (∀ x ∈ s.msgs, x ∈ s'.msgs) ∧ (∀ x ∈ added, x.typ = .app → absApp val x ∈ s'.msgs) ∧
      (∀ t c lt li, Spec.Msg.reqVote t c lt li ∈ s'.msgs → Spec.Msg.reqVote t c lt li ∈ s.msgs) := by
  induction added with
  | nil =>
    intro s _ _
    exact ⟨[], s, .nil s, by simp, rfl, fun _ h => h, by simp, fun _ _ _ _ h => h⟩
  | cons x rest ih =>
    intro s ha hok
    have hrest : ∀ y ∈ rest, y.typ = .snap ∨ SendAppOK val r y := fun y hy => hok y (List.mem_cons_of_mem _ hy)
    rcases hok x List.mem_cons_self with hx | hx
    · obtain ⟨as, s', h1, h2, h3, h4, h5, h6⟩ := ih s ha hrest
      refine ⟨as, s', h1, h2, h3, h4, ?_, h6⟩
      intro y hy hty
      rcases List.mem_cons.1 hy with rfl | hy
      · rw [hx] at hty; cases hty
      · exact h5 y hy hty
    · obtain ⟨hen, hmsgs, hnodes⟩ := sendApp_abs val (cfgOf voters) ha hl hx
      have ha' : Abs val r ((Spec.apply s (.sendApp n x.index x.entries.length x.commit)).nodes n) := by
        rw [hnodes]; exact ha
      obtain ⟨as, s', h1, h2, h3, h4, h5, h6⟩ := ih _ ha' hrest
      refine ⟨_ :: as, s', .cons hen h1, ?_, h3.trans hnodes, ?_, ?_, ?_⟩
      · intro a ha
        rcases List.mem_cons.1 ha with rfl | ha
        · rfl
        · exact h2 a ha
      · intro y hy
        exact h4 y (by rw [hmsgs]; exact List.mem_cons_of_mem _ hy)
      · intro y hy hty
        rcases List.mem_cons.1 hy with rfl | hy
        · exact h4 _ (by rw [hmsgs]; exact List.mem_cons_self)
        · exact h5 y hy hty
      · intro t c lt li hm
        have := h6 t c lt li hm
        rw [hmsgs] at this
        rcases List.mem_cons.1 this with h | h
        · unfold absApp at h; cases h
        · exact h

theorem vr_pk_get {r1 r' : Raft} (hpk : Live.PrKeep r1 r') (v : Id) (pr : Progress)
    (h : r'.trk.getProgress v = some pr) :
    ∃ pr0, r1.trk.getProgress v = some pr0 ∧ pr.match_ = pr0.match_ ∧ pr.isLearner = pr0.isLearner := by
  obtain ⟨new, _, hkeep⟩ := hpk
  cases hq : r1.trk.getProgress v with
  | none => rw [(hkeep v).1 hq] at h; cases h
  | some pr0 =>
    obtain ⟨pr', h1, h2, _, h3, _⟩ := (hkeep v).2 pr0 hq
    rw [h1] at h; injection h with h; subst h
    exact ⟨pr0, rfl, h2, h3⟩

theorem vr_pk_isSome {r1 r' : Raft} (hpk : Live.PrKeep r1 r') (v : Id) :
    (r'.trk.getProgress v).isSome = (r1.trk.getProgress v).isSome := by
  obtain ⟨new, _, hkeep⟩ := hpk
  cases hq : r1.trk.getProgress v with
  | none => rw [(hkeep v).1 hq]
  | some pr0 =>
    obtain ⟨pr', h1, _⟩ := (hkeep v).2 pr0 hq
    rw [h1]; rfl

/-- the entries of a `SendAppOK` message are entries of the log -/
theorem vr_sendApp_ents {val : Val} {r : Raft} {x : Message} (hx : SendAppOK val r x) (e : Entry)
    (he : e ∈ x.entries) : absEnt val e ∈ absLog val r := by
  have h1 : absEnt val e ∈ x.entries.map (absEnt val) := List.mem_map_of_mem he
  rw [hx.ents] at h1
  exact List.mem_of_mem_drop (List.mem_of_mem_take h1)

/-- **a leader queues MsgApp / MsgSnap** (`bcastAppend`, `sendAppend`, …): one Spec `sendApp` per MsgApp -/
theorem vr_sends_sim {val : Val} {voters : List Id} {n : Nat} {s : Spec.State} {r1 r' : Raft}
    (hinv : RaftInv val voters n r1 (s.nodes n) s.msgs) (hl : r1.state = .leader)
    (hok : SendsOK val r1 r') (hsf : SendFrame r1 r') (hpk : Live.PrKeep r1 r') : RaftSim val voters n s r' := by
  obtain ⟨added, hmsgs, hadd⟩ := hok.msgs
  obtain ⟨as, s', hrun, hact, hnodes, hsub, happ, hrv⟩ :=
    vr_sendApps (voters := voters) hl added s hinv.abs hadd
  refine ⟨as, s', hrun, hact, ?_⟩
  rw [hnodes]
  have hI := hinv.frame hsub (fun t lt li h => hrv t n lt li h)
  have hlog : absLog val r' = absLog val r1 := by unfold absLog; rw [hok.log]
  have hst : r'.state = r1.state := hok.state
  have htp : r1.term ≠ 0 := hinv.termPos (by rw [hl]; intro h; cases h)
  exact {
    abs := hI.abs.congr hok.term hsf.vote hok.log (by rw [hst])
    st := {
      id := by rw [hok.cfg]; exact hI.st.id
      idnz := hI.st.idnz
      pv := by rw [hok.cfg]; exact hI.st.pv
      xfer := hsf.leadTransferee.trans hI.st.xfer
      pri := hsf.pendingReadIndexMessages.trans hI.st.pri
      ro := by rw [hsf.readOnly]; exact hI.st.ro
      tvoters := by rw [hsf.trkCfg]; exact hI.st.tvoters
      tout := by rw [hsf.trkCfg]; exact hI.st.tout
      tauto := by rw [hsf.trkCfg]; exact hI.st.tauto
      prog := fun v => by rw [vr_pk_isSome hpk]; exact hI.st.prog v
      nolearn := fun v pr hp => by
        obtain ⟨pr0, h1, _, h3⟩ := vr_pk_get hpk v pr hp
        rw [h3]; exact hI.st.nolearn v pr0 h1
      self := hI.st.self }
    wf := by rw [hok.log]; exact hI.wf
    unc := by rw [hok.log]; exact hI.unc
    leadInv := by rw [hst, hsf.lead, hsf.vote]; exact hI.leadInv
    candVote := by rw [hst, hsf.vote]; exact hI.candVote
    termPos := by rw [hst, hok.term]; exact hI.termPos
    logLe := by rw [hlog, hok.term]; exact hI.logLe
    candLt := by rw [hlog, hok.term, hst]; exact hI.candLt
    pend := hI.pend
    durV := hI.durV
    durA := hI.durA
    out := by
      intro x hx
      rw [hmsgs] at hx
      rcases List.mem_append.1 hx with hx | hx
      · exact hI.out x hx
      · rcases hadd x hx with h1 | h1
        · unfold NetOK; rw [h1]; trivial
        · unfold NetOK
          rw [h1.typ]
          refine ⟨by rw [h1.term]; exact htp, happ x hx h1.typ, h1.contig, ?_⟩
          intro e he
          have := hinv.logLe _ (vr_sendApp_ents h1 e he)
          rw [h1.term]; exact this
    prom := by rw [hok.maa]; exact hI.prom
    rvTerm := by rw [hok.term]; exact hI.rvTerm
    rvCov := by rw [hlog, hok.term, hst]; exact hI.rvCov
    votes := by rw [hst, hl]; intro h; cases h
    selfVote := by rw [hst, hl]; intro h; cases h
    matchO := by
      intro _ v pr c hv hp h0 hc
      obtain ⟨pr0, h1, h2, _⟩ := vr_pk_get hpk v pr hp
      rw [hok.term]
      exact hI.matchO hl v pr0 c hv h1 h0 (by rw [← h2]; exact hc)
    matchS := by
      intro _ pr c hp hc hterm
      obtain ⟨pr0, h1, h2, _⟩ := vr_pk_get hpk n pr hp
      rw [hok.term]
      rw [hlog, hok.term] at hterm
      exact hI.matchS hl pr0 c h1 (by rw [← h2]; exact hc) hterm }

theorem vr_termAt_mem {l : Spec.Log} {c t : Nat} (h : l.termAt c = some t) :
    (c = 0 ∧ t = 0) ∨ ∃ e ∈ l, e.term = t := by
  by_cases hc : c = 0
  · subst hc
    rw [Spec.Log.termAt_zero] at h
    injection h with h
    exact Or.inl ⟨rfl, h.symm⟩
  · rw [Spec.Log.termAt_pos l (by omega)] at h
    cases hx : l[c - 1]? with
    | none => rw [hx] at h; cases h
    | some e =>
      rw [hx] at h
      injection h with h
      exact Or.inr ⟨e, List.mem_of_getElem? hx, h⟩

/-- a candidate's log has no entry of its term, so no index up to its end has that term -/
theorem vr_cand_termAt {val : Val} {voters : List Id} {n : Nat} {p : Raft} {nd : Spec.Node} {msgs : List Spec.Msg}
    (hinv : RaftInv val voters n p nd msgs) (hs : p.state = .candidate) (c : Nat) :
    (absLog val p).termAt c ≠ some p.term := by
  intro h
  have htp : p.term ≠ 0 := hinv.termPos (by rw [hs]; intro h; cases h)
  rcases vr_termAt_mem h with ⟨_, h0⟩ | ⟨e, he, het⟩
  · exact htp h0
  · have := hinv.candLt hs e he
    omega

/-- own vote recorded (and, by `selfVote`, a grant): it is durable -/
theorem vr_own_durable {val : Val} {voters : List Id} {n : Nat} {p : Raft} {nd : Spec.Node} {msgs : List Spec.Msg}
    (hinv : RaftInv val voters n p nd msgs) (hs : p.state = .candidate)
    (hown : (mapGet p.trk.votes n).isSome = true) : (p.term, n) ∈ nd.dur.votes := by
  cases hv : mapGet p.trk.votes n with
  | none => rw [hv] at hown; cases hown
  | some b =>
    cases b with
    | false => exact absurd hv (hinv.selfVote hs)
    | true =>
      rcases hinv.votes hs n hv with h | h
      · exact h.2
      · exact absurd rfl h.1

/-- the guard of Spec `becomeLeader n q` for `q` = the recorded grants -/
theorem vr_becomeLeader_enabled {val : Val} {voters : List Id} {n : Nat} {s : Spec.State} {p : Raft}
    (hinv : RaftInv val voters n p (s.nodes n) s.msgs) (hs : p.state = .candidate)
    (hwon : p.trk.tallyVotes.2.2 = .won) (hown : (mapGet p.trk.votes n).isSome = true) :
    Spec.enabled (cfgOf voters) s (.becomeLeader n (grantedBy p.trk)) := by
  have hq := won_isQuorum p.trk hwon
  have hout : p.trk.outgoingL = [] := by unfold Tracker.outgoingL; rw [hinv.st.tout]; rfl
  rw [hinv.st.tvoters, hout] at hq
  refine becomeLeader_enabled val (cfgOf voters) hinv.abs hs hq (vr_own_durable hinv hs hown) (hinv.rvCov hs) ?_
  intro v hv
  rcases hinv.votes hs v (mem_grantedBy.1 hv).2 with h | h
  · exact Or.inl h.1
  · exact Or.inr h.2

theorem vr_frame_get {p s1 : Raft} (hf : VrLeaderFrame p s1) (v : Id) (pr : Progress)
    (h : s1.trk.getProgress v = some pr) :
    ∃ pr0, p.trk.getProgress v = some pr0 ∧ pr.isLearner = pr0.isLearner ∧
      pr.match_ = if v = p.cfg.id then p.log.lastIndex else 0 := by
  cases hq : p.trk.getProgress v with
  | none => rw [hf.none v hq] at h; cases h
  | some pr0 =>
    obtain ⟨pr', h1, h2, h3⟩ := hf.some v pr0 hq
    rw [h1] at h; injection h with h; subst h
    exact ⟨pr0, rfl, h2, h3⟩

theorem vr_frame_isSome {p s1 : Raft} (hf : VrLeaderFrame p s1) (v : Id) :
    (s1.trk.getProgress v).isSome = (p.trk.getProgress v).isSome := by
  cases hq : p.trk.getProgress v with
  | none => rw [hf.none v hq]
  | some pr0 =>
    obtain ⟨pr', h1, _⟩ := hf.some v pr0 hq
    rw [h1]; rfl

/-- promises stay recorded when the version keeps its votes and its acknowledgements grow -/
theorem vr_promOK_mono {n : Nat} {v v' : Spec.Ver} {m : Message} (h : PromOK n v m)
    (hv : v'.votes = v.votes) (ha : ∀ x ∈ v.acks, x ∈ v'.acks) : PromOK n v' m := by
  obtain ⟨a, b, c⟩ := h
  refine ⟨a, b, ?_⟩
  revert c
  split
  · rw [hv]; exact id
  · exact fun c hr => (c hr).imp id (ha _)
  · exact id

/-- **the invariant right after `becomeLeader`** (before `bcastAppend`), in the Spec state after
`becomeLeader n q; leaderAppend n (val none none)` -/
theorem vr_becomeLeader_inv {val : Val} {voters : List Id} {n : Nat} {s : Spec.State} {p s1 : Raft} (q : List Nat)
    (hinv : RaftInv val voters n p (s.nodes n) s.msgs) (hs : p.state = .candidate)
    (hp : LeaderPost val p s1) (hf : VrLeaderFrame p s1) :
    RaftInv val voters n s1
      ((Spec.apply (Spec.apply s (.becomeLeader n q)) (.leaderAppend n (val none none))).nodes n) s.msgs := by
  have habs := becomeLeader_abs val q hinv.abs hp.term hp.vote hp.commit hp.state hp.log
  have hack := becomeLeader_ack val q hinv.abs
  have hpend : ((Spec.apply (Spec.apply s (.becomeLeader n q)) (.leaderAppend n (val none none))).nodes n).pending =
      (s.nodes n).pending := by rw [leaderAppend_nodes, becomeLeader_nodes]
  have hdur : ((Spec.apply (Spec.apply s (.becomeLeader n q)) (.leaderAppend n (val none none))).nodes n).dur =
      (s.nodes n).dur := by rw [leaderAppend_nodes, becomeLeader_nodes]
  have hvv : ((Spec.apply (Spec.apply s (.becomeLeader n q)) (.leaderAppend n (val none none))).nodes n).vol.votes =
      (s.nodes n).vol.votes := by rw [leaderAppend_nodes, becomeLeader_nodes]
  have htp : p.term ≠ 0 := hinv.termPos (by rw [hs]; intro h; cases h)
  have hid : p.cfg.id = n := hinv.st.id
  have hst := hp.state
  exact {
    abs := habs
    st := {
      id := by rw [hp.cfg]; exact hid
      idnz := hinv.st.idnz
      pv := by rw [hp.cfg]; exact hinv.st.pv
      xfer := hf.xfer
      pri := hf.pri.trans hinv.st.pri
      ro := hf.ro
      tvoters := by rw [hp.trkCfg]; exact hinv.st.tvoters
      tout := by rw [hp.trkCfg]; exact hinv.st.tout
      tauto := by rw [hp.trkCfg]; exact hinv.st.tauto
      prog := fun v => by rw [vr_frame_isSome hf]; exact hinv.st.prog v
      nolearn := fun v pr hpr => by
        obtain ⟨pr0, h1, h2, _⟩ := vr_frame_get hf v pr hpr
        rw [h2]; exact hinv.st.nolearn v pr0 h1
      self := hinv.st.self }
    wf := hp.wf
    unc := hp.unc
    leadInv := fun _ => ⟨hp.lead.trans hid, hp.vote.trans (hinv.candVote hs)⟩
    candVote := by rw [hst]; intro h; cases h
    termPos := fun _ => by rw [hp.term]; exact htp
    logLe := by
      intro e he
      rw [hp.log] at he
      rw [hp.term]
      rcases List.mem_append.1 he with he | he
      · exact hinv.logLe e he
      · simp only [List.mem_singleton] at he
        rw [he]; exact Nat.le_refl _
    candLt := by rw [hst]; intro h; cases h
    pend := hpend.trans hinv.pend
    durV := fun x hx => by rw [hvv]; rw [hdur] at hx; exact hinv.durV x hx
    durA := fun x hx => by rw [hack]; rw [hdur] at hx; exact List.mem_cons_of_mem _ (hinv.durA x hx)
    out := by rw [hp.msgs]; exact hinv.out
    prom := by
      intro x hx
      rw [hp.maa] at hx
      rcases List.mem_append.1 hx with hx | hx
      · exact vr_promOK_mono (hinv.prom x hx) hvv (fun y hy => by rw [hack]; exact List.mem_cons_of_mem _ hy)
      · simp only [List.mem_singleton] at hx
        subst hx
        refine ⟨hid, htp, ?_⟩
        show false = false → _ ∨ _
        intro _
        right
        rw [hack]
        exact List.mem_cons_self
    rvTerm := by rw [hp.term]; exact hinv.rvTerm
    rvCov := by rw [hst]; intro h; cases h
    votes := by rw [hst]; intro h; cases h
    selfVote := by rw [hst]; intro h; cases h
    matchO := by
      intro _ v pr c hv hpr h0 hc
      obtain ⟨pr0, _, _, hm⟩ := vr_frame_get hf v pr hpr
      rw [if_neg (by rw [hid]; exact hv)] at hm
      omega
    matchS := by
      intro _ pr c hpr hc hterm
      obtain ⟨pr0, _, _, hm⟩ := vr_frame_get hf n pr hpr
      rw [if_pos hid.symm] at hm
      have hlen : (absLog val p).length = p.log.lastIndex := absLogL_length_eq val hinv.wf hinv.unc
      rw [hp.log, hp.term, Spec.Log.termAt_append_left (by omega)] at hterm
      exact absurd hterm (vr_cand_termAt hinv hs c) }

/-- **a candidate with a won tally and its own vote recorded**: `becomeLeader; bcastAppend` is simulated by Spec
`becomeLeader n q`, `leaderAppend n (val none none)` and one `sendApp` per MsgApp sent -/
theorem vr_won_sim {val : Val} {voters : List Id} {n : Nat} {s : Spec.State} {p s1 r' : Raft}
    (hinv : RaftInv val voters n p (s.nodes n) s.msgs) (hs : p.state = .candidate)
    (hwon : p.trk.tallyVotes.2.2 = .won) (hown : (mapGet p.trk.votes n).isSome = true)
    (h1 : Raft.becomeLeader.run p = .ok ((), s1)) (h2 : Raft.bcastAppend.run s1 = .ok ((), r')) :
    RaftSim val voters n s r' := by
  have hp := (becomeLeader_refine val p hinv.wf hinv.unc).elim h1
  have hf := (vr_becomeLeader_frame p).elim h1
  have hen := vr_becomeLeader_enabled hinv hs hwon hown
  have hI := vr_becomeLeader_inv (grantedBy p.trk) hinv hs hp hf
  have hrun : RunL (cfgOf voters) s [.becomeLeader n (grantedBy p.trk), .leaderAppend n (val none none)]
      (Spec.apply (Spec.apply s (.becomeLeader n (grantedBy p.trk))) (.leaderAppend n (val none none))) :=
    .cons hen (.single (leaderAppend_enabled_after _ s n _ _))
  refine RaftSim.trans hrun (by simp [Spec.Action.actor]) ?_
  exact vr_sends_sim (s := Spec.apply (Spec.apply s (.becomeLeader n (grantedBy p.trk))) (.leaderAppend n (val none none)))
    hI hp.state ((bcastAppend_sendsOK val s1 hp.wf hp.unc).elim h2) ((bcastAppend_sf s1).elim h2)
    ((Live.bcastAppend_pk s1).elim h2)

/-- **MsgVoteResp at the node's own term** (from the network, or the node's own vote replayed by `Advance`).
Extra hypothesis `hself`: the node's own response is always a grant. Ignored unless the node is a candidate; a
candidate records the vote and then: nothing (tally pending, or own vote not yet recorded), Spec `stepDown` (lost),
or Spec `becomeLeader`, `leaderAppend`, `sendApp`* (won). `hreach` is not used. -/
theorem sim_voteResp_same {val : Val} {voters : List Id} {n : Nat} {s : Spec.State} {r r' : Raft} {m : Message}
    {e : Option StepErr} {fuel : Nat} (hinv : RaftInv val voters n r (s.nodes n) s.msgs)
    (_hreach : Spec.Reachable (cfgOf voters) s)
    (ht : m.typ = .voteResp) (hterm : m.term = r.term) (hin : InOK val n (s.nodes n) s.msgs m)
    (hself : m.from = n → m.reject = false)
    (h : (Raft.step (fuel + 1) m).run r = .ok (e, r')) : RaftSim val voters n s r' := by
  by_cases hs : r.state = .candidate
  · rw [step_same_term_dispatch fuel m r (Or.inr hterm) (by rw [ht]; decide)] at h
    have hd : dispatch fuel m r = Raft.stepCandidate fuel m := by unfold dispatch; rw [hs]
    rw [hd] at h
    have hpi := vr_polled_inv hinv hs ht hterm hin hself
    rcases (vr_stepCandidate_cases fuel m r hs ht).elim h with rfl | hlost | ⟨hwon, hown, s1, h1, h2⟩
    · exact RaftSim.refl hpi
    · exact vr_stepDown hpi hlost
    · exact vr_won_sim hpi hs hwon (by rw [← hinv.st.id]; exact hown) h1 h2
  · have := vr_ignored fuel m r r' e hs ht hterm h
    subst this
    exact RaftSim.refl hinv

end RaftVerif.Sim
