import RaftVerif.Proofs.RefineRPci
/-!
# Proofs/RefineRProp — MsgProp at a leader against `SpecR.leaderAppend` / `leaderAppendCfg` (item 5)

SpecR side: one action per appended entry — `leaderAppendCfg n v (cf e)` for a conf-change entry,
`leaderAppend n v` otherwise (`stepR`, `appendAllR`).
-/
namespace RaftVerif.RefineR
open RaftVerif.Raft RaftVerif.Refine RaftVerif.Conf10

/-- the SpecR action that appends (the abstraction of) the model entry `e` -/
def actR (val : Val) (cf : Entry → SpecR.Conf) (n : Nat) (e : Entry) : SpecR.Action :=
  if isConfChange e then .leaderAppendCfg n (val e.typ e.data) (cf e) else .leaderAppend n (val e.typ e.data)

def stepR (val : Val) (cf : Entry → SpecR.Conf) (n : Nat) (st : SpecR.State) (e : Entry) : SpecR.State :=
  SpecR.apply st (actR val cf n e)

/-- one SpecR action per entry -/
def appendAllR (val : Val) (cf : Entry → SpecR.Conf) (n : Nat) (es : List Entry) (s : SpecR.State) :
    SpecR.State := es.foldl (stepR val cf n) s

theorem appendAllR_append (val : Val) (cf : Entry → SpecR.Conf) (n : Nat) (A B : List Entry) (s : SpecR.State) :
    appendAllR val cf n (A ++ B) s = appendAllR val cf n B (appendAllR val cf n A s) := by
  simp [appendAllR, List.foldl_append]

/-- `pendingConf` after appending `es` to a log of length `len` -/
def pcFold : Nat → Nat → List Entry → Nat
  | _, pc, [] => pc
  | len, pc, e :: es => pcFold (len + 1) (if isConfChange e then len + 1 else pc) es

theorem pcFold_normal (len pc : Nat) (es : List Entry) (h : ∀ e ∈ es, isConfChange e = false) :
    pcFold len pc es = pc := by
  induction es generalizing len pc with
  | nil => rfl
  | cons e t ih =>
    have he : isConfChange e = false := h e (by simp)
    simp only [pcFold, he, Bool.false_eq_true, if_false]
    exact ih _ _ (fun x hx => h x (by simp [hx]))

theorem pcFold_one (len pc : Nat) (A B : List Entry) (x : Entry) (hx : isConfChange x = true)
    (hB : ∀ e ∈ B, isConfChange e = false) :
    pcFold len pc (A ++ x :: B) = len + A.length + 1 := by
  induction A generalizing len pc with
  | nil =>
    simp only [List.nil_append, pcFold, hx, if_true, List.length_nil, Nat.add_zero]
    exact pcFold_normal _ _ B hB
  | cons a t ih =>
    simp only [List.cons_append, pcFold, List.length_cons]
    rw [ih]; omega

/-- the acting node after one `stepR` (the entry carries the node's term) -/
theorem stepR_nodes (val : Val) (cf : Entry → SpecR.Conf) (n : Nat) (st : SpecR.State) (e : Entry)
    (ht : e.term = (st.nodes n).vol.term) :
    ((stepR val cf n st e).nodes n).vol.term = (st.nodes n).vol.term ∧
    ((stepR val cf n st e).nodes n).vol.vote = (st.nodes n).vol.vote ∧
    ((stepR val cf n st e).nodes n).vol.commit = (st.nodes n).vol.commit ∧
    ((stepR val cf n st e).nodes n).role = (st.nodes n).role ∧
    ((stepR val cf n st e).nodes n).applied = (st.nodes n).applied ∧
    ((stepR val cf n st e).nodes n).vol.log = (st.nodes n).vol.log ++ [absEntR val cf e] ∧
    ((stepR val cf n st e).nodes n).pendingConf =
      (if isConfChange e then (st.nodes n).vol.log.length + 1 else (st.nodes n).pendingConf) := by
  unfold stepR actR absEntR
  cases hc : isConfChange e <;>
    simp [SpecR.apply, SpecR.setNode, ht]

/-- the acting node after `appendAllR` of entries that all carry the node's term -/
theorem appendAllR_nodes (val : Val) (cf : Entry → SpecR.Conf) (n : Nat) (es : List Entry) (s : SpecR.State)
    (ht : ∀ e ∈ es, e.term = (s.nodes n).vol.term) :
    ((appendAllR val cf n es s).nodes n).vol.term = (s.nodes n).vol.term ∧
    ((appendAllR val cf n es s).nodes n).vol.vote = (s.nodes n).vol.vote ∧
    ((appendAllR val cf n es s).nodes n).vol.commit = (s.nodes n).vol.commit ∧
    ((appendAllR val cf n es s).nodes n).role = (s.nodes n).role ∧
    ((appendAllR val cf n es s).nodes n).applied = (s.nodes n).applied ∧
    ((appendAllR val cf n es s).nodes n).vol.log = (s.nodes n).vol.log ++ es.map (absEntR val cf) ∧
    ((appendAllR val cf n es s).nodes n).pendingConf =
      pcFold (s.nodes n).vol.log.length (s.nodes n).pendingConf es := by
  induction es generalizing s with
  | nil => simp [appendAllR, pcFold]
  | cons e rest ih =>
    obtain ⟨a1, a2, a3, a4, a5, a6, a7⟩ := stepR_nodes val cf n s e (ht e (by simp))
    have := ih (stepR val cf n s e) (fun x hx => by rw [a1]; exact ht x (by simp [hx]))
    simp only [appendAllR, List.foldl_cons] at this ⊢
    obtain ⟨t1, t2, t3, t4, t5, t6, t7⟩ := this
    refine ⟨t1.trans a1, t2.trans a2, t3.trans a3, t4.trans a4, t5.trans a5, ?_, ?_⟩
    · rw [t6, a6]; simp
    · rw [t7, a6, a7]; simp [pcFold]

/-- the active configuration is not affected by `appendAllR` (everything happens above `applied`) -/
theorem appendAllR_active (val : Val) (cf : Entry → SpecR.Conf) (c0 : SpecR.Conf) (n : Nat) (es : List Entry)
    (s : SpecR.State) (ht : ∀ e ∈ es, e.term = (s.nodes n).vol.term)
    (happ : (s.nodes n).applied ≤ (s.nodes n).vol.log.length) :
    ((appendAllR val cf n es s).nodes n).active c0 = (s.nodes n).active c0 := by
  obtain ⟨_, _, _, _, a5, a6, _⟩ := appendAllR_nodes val cf n es s ht
  exact active_of_prefix c0 _ _ a5 (by rw [a6]; exact List.prefix_append _ _) happ

/-! ### model side: stamped entries -/

theorem ccDecode_some_isCC {e : Entry} {cc : ConfChangeV2} (h : ccDecode e = .ok (some cc)) :
    isConfChange e = true := by
  unfold ccDecode at h
  unfold isConfChange
  cases ht : e.getType <;> rw [ht] at h <;> simp at h ⊢

theorem isCC_of_normal {e : Entry} (h : e.getType = .normal) : isConfChange e = false := by
  unfold isConfChange; rw [h]; rfl

theorem isCC_neutral : isConfChange neutral = false := rfl

theorem cloneEntries_length (r : Raft) (es : List Entry) : (cloneEntries r es).length = es.length := by
  simp [cloneEntries]

theorem cloneEntries_getElem (r : Raft) (es : List Entry) (i : Nat) (h1 : i < (cloneEntries r es).length)
    (h2 : i < es.length) :
    (cloneEntries r es)[i] = { es[i] with term := r.term, index := r.log.lastIndex + 1 + i } := by
  simp only [cloneEntries, List.getElem_map, List.getElem_zipIdx]
  simp

theorem cloneEntries_contig (r : Raft) (es : List Entry) : Contig (r.log.lastIndex + 1) (cloneEntries r es) := by
  intro k hk
  rw [cloneEntries_getElem r es k hk (by rw [← cloneEntries_length r es]; exact hk)]

theorem cloneEntries_term (r : Raft) (es : List Entry) : ∀ e ∈ cloneEntries r es, e.term = r.term := by
  intro e he
  obtain ⟨i, hi, rfl⟩ := List.getElem_of_mem he
  rw [cloneEntries_getElem r es i hi (by rw [← cloneEntries_length r es]; exact hi)]

/-- stamping term and index changes neither the kind nor the payload of an entry -/
theorem stamp_isCC (e : Entry) (t i : Nat) : isConfChange { e with term := t, index := i } = isConfChange e := rfl
theorem stamp_ccDecode (e : Entry) (t i : Nat) : ccDecode { e with term := t, index := i } = ccDecode e := rfl

/-- appending entries that continue the log exactly at its end: entry level -/
theorem append_at_end_ents {l : RaftLog} (hwf : l.WF) (hu : Uncompacted l) (ents : List Entry)
    (hc : Contig (l.lastIndex + 1) ents) {p : RaftLog × Nat} (h : l.append ents = .ok p) :
    p.1.abs.ents = l.abs.ents ++ ents ∧ p.1.applied = l.applied := by
  cases ents with
  | nil =>
    rw [RaftLog.append_nil] at h
    injection h with h; subst h
    exact ⟨by simp, rfl⟩
  | cons e0 rest =>
    have h0 : e0.index = l.lastIndex + 1 := (contig_cons.mp hc).1
    have hc' : Contig e0.index (e0 :: rest) := by rw [h0]; exact hc
    rcases C18.log_append hwf e0 rest hc' (by omega) with ⟨_, he⟩ | ⟨_, _, he⟩ |
      ⟨_, _, l', hok, _, habs, _, _, _, _, _, happ, _⟩
    · rw [he] at h; cases h
    · rw [he] at h; cases h
    · rw [hok] at h
      injection h with h; subst h
      refine ⟨?_, happ⟩
      rw [habs, ALog.overwrite_ents]
      congr 1
      rw [List.take_of_length_le]
      have := RaftLog.lastIndex_abs hwf
      rw [ALog.last, hu.base.1] at this
      rw [hu.base.1]
      omega

/-- **an accepted local MsgProp at a leader, entry level**: the gate produced `(ents, pci)`; the stamped
entries are appended; `pendingConfIndex := pci`; nothing else that the abstraction sees changes -/
theorem step_prop_entries (fuel : Nat) (m : Message) (r r' : Raft)
    (hm : m.typ = .prop) (h0 : m.term = 0) (hs : r.state = .leader) (hne : m.entries ≠ [])
    (hself : (r.trk.getProgress r.cfg.id).isNone = false) (hlt : r.leadTransferee = 0)
    (hwf : r.log.WF) (hu : Uncompacted r.log)
    (h : (step (fuel + 1) m).run r = .ok (none, r')) :
    ∃ ents pci, gate r r.pendingConfIndex m.entries.zipIdx = .ok (ents, pci) ∧
      r'.log.abs.ents = r.log.abs.ents ++ cloneEntries r ents ∧
      r'.log.applied = r.log.applied ∧ r'.log.committed = r.log.committed ∧
      r'.pendingConfIndex = pci ∧ r'.term = r.term ∧ r'.vote = r.vote ∧ r'.state = .leader ∧
      r'.trk.cfg = r.trk.cfg := by
  rw [Live.step_leader_dispatch fuel m r hs (Or.inl h0)
    (Or.inr (Or.inr (Or.inr (Or.inr (Or.inr (Or.inr (Or.inl hm)))))))] at h
  obtain ⟨ents, pci, hg, hcase⟩ := C10.propose_cc_outcome fuel m r r' none hm hne hself hlt h
  rcases hcase with ⟨hd, _⟩ | ⟨_, _, l, li, happ, hsf⟩
  · cases hd
  · obtain ⟨a1, a2⟩ := append_at_end_ents hwf hu _ (cloneEntries_contig r ents) (p := (l, li)) happ
    obtain ⟨_, _, a3, _⟩ := append_at_end (fun _ _ => 0) hwf hu _ (cloneEntries_contig r ents) (p := (l, li)) happ
    refine ⟨ents, pci, hg, ?_, ?_, ?_, hsf.pendingConfIndex, hsf.term, hsf.vote, ?_, hsf.trkCfg⟩
    · rw [hsf.log]; exact a1
    · rw [hsf.log]; exact a2
    · rw [hsf.log]; exact a3
    · rw [hsf.state]; exact hs

/-! ### the gate's trace of `pendingConfIndex` is SpecR's `pendingConf` -/

theorem pcFold_snoc (len pc : Nat) (A : List Entry) (x : Entry) :
    pcFold len pc (A ++ [x]) = if isConfChange x then len + A.length + 1 else pcFold len pc A := by
  induction A generalizing len pc with
  | nil => simp [pcFold]
  | cons a t ih =>
    simp only [List.cons_append, pcFold, List.length_cons]
    rw [ih]
    split <;> first | omega | rfl

/-- the per-entry description of the gate (`C10.propose_cc_gate`) -/
def GateTrace (r : Raft) (es ents : List Entry) (p : Nat → Nat) : Prop :=
  ∀ i (h1 : i < es.length) (h2 : i < ents.length),
    (es[i].getType = .normal ∧ ents[i] = es[i] ∧ p (i + 1) = p i) ∨
    (∃ cc, ccDecode es[i] = .ok (some cc) ∧
      (((p i ≤ r.log.applied ∧ (0 < r.trk.outgoingL.length ↔ cc.changes = []) ∧
            r.checkConfChange cc = true) ∧
          ents[i] = es[i] ∧ p (i + 1) = r.log.lastIndex + i + 1) ∨
       (¬ (p i ≤ r.log.applied ∧ (0 < r.trk.outgoingL.length ↔ cc.changes = []) ∧
            r.checkConfChange cc = true) ∧
          ents[i] = { typ := some .normal, data := none } ∧ p (i + 1) = p i)))

/-- a kept configuration change passed the gate with the `pendingConfIndex` of that moment -/
theorem gateTrace_kept {r : Raft} {es ents : List Entry} {p : Nat → Nat} (ht : GateTrace r es ents p)
    (hlen : ents.length = es.length) (i : Nat) (hi : i < ents.length) (hc : isConfChange ents[i] = true) :
    ∃ cc, ccDecode ents[i] = .ok (some cc) ∧ p i ≤ r.log.applied ∧
      (0 < r.trk.outgoingL.length ↔ cc.changes = []) ∧ r.checkConfChange cc = true ∧
      p (i + 1) = r.log.lastIndex + i + 1 := by
  rcases ht i (by omega) hi with ⟨h1, h2, _⟩ | ⟨cc, hd, ⟨⟨g1, g2, g3⟩, h2, h3⟩ | ⟨_, h2, _⟩⟩
  · rw [h2, isCC_of_normal h1] at hc; cases hc
  · exact ⟨cc, by rw [h2]; exact hd, g1, g2, g3, h3⟩
  · rw [h2] at hc; cases hc

/-- an entry that is not a configuration change leaves `pendingConfIndex` alone -/
theorem gateTrace_other {r : Raft} {es ents : List Entry} {p : Nat → Nat} (ht : GateTrace r es ents p)
    (hlen : ents.length = es.length) (i : Nat) (hi : i < ents.length) (hc : isConfChange ents[i] = false) :
    p (i + 1) = p i := by
  rcases ht i (by omega) hi with ⟨_, _, h3⟩ | ⟨cc, hd, ⟨_, h2, _⟩ | ⟨_, _, h3⟩⟩
  · exact h3
  · rw [h2, ccDecode_some_isCC hd] at hc; cases hc
  · exact h3

theorem cloneEntries_isCC (r : Raft) (ents : List Entry) (i : Nat) (h1 : i < (cloneEntries r ents).length)
    (h2 : i < ents.length) : isConfChange (cloneEntries r ents)[i] = isConfChange ents[i] := by
  rw [cloneEntries_getElem r ents i h1 h2]; rfl

theorem cloneEntries_ccDecode (r : Raft) (ents : List Entry) (i : Nat) (h1 : i < (cloneEntries r ents).length)
    (h2 : i < ents.length) : ccDecode (cloneEntries r ents)[i] = ccDecode ents[i] := by
  rw [cloneEntries_getElem r ents i h1 h2]; rfl

/-- **SpecR's `pendingConf` after the first `i` appends is the gate's `pendingConfIndex` at position `i`** -/
theorem pcFold_gateTrace {r : Raft} {es ents : List Entry} {p : Nat → Nat} (ht : GateTrace r es ents p)
    (hlen : ents.length = es.length) (i : Nat) (hi : i ≤ ents.length) :
    pcFold r.log.lastIndex (p 0) ((cloneEntries r ents).take i) = p i := by
  induction i with
  | zero => simp [pcFold]
  | succ i ih =>
    have hi' : i < ents.length := by omega
    have hic : i < (cloneEntries r ents).length := by rw [cloneEntries_length]; exact hi'
    rw [List.take_succ_eq_append_getElem hic, pcFold_snoc, cloneEntries_isCC r ents i hic hi']
    have hl : ((cloneEntries r ents).take i).length = i := by
      rw [List.length_take, cloneEntries_length]; omega
    cases hc : isConfChange ents[i] with
    | true =>
      obtain ⟨_, _, _, _, _, h5⟩ := gateTrace_kept ht hlen i hi' hc
      simp only [if_true]
      rw [hl, h5]
    | false =>
      simp only [Bool.false_eq_true, if_false]
      rw [ih (by omega), gateTrace_other ht hlen i hi' hc]

/-! ### assembling: the node after the appends -/

section
variable (val : Val) (cf : Entry → SpecR.Conf) (c0 : SpecR.Conf)

/-- facts about the abstract node that every lemma below needs -/
theorem prop_base {r : Raft} {s : SpecR.State} {n : Nat} (ha : AbsR val cf r (s.nodes n)) (hs : r.state = .leader)
    (hwf : r.log.WF) (hu : Uncompacted r.log) (ents : List Entry) :
    (∀ e ∈ cloneEntries r ents, e.term = (s.nodes n).vol.term) ∧
    (s.nodes n).vol.log.length = r.log.lastIndex ∧ (s.nodes n).pendingConf = r.pendingConfIndex ∧
    (s.nodes n).applied ≤ (s.nodes n).vol.log.length := by
  refine ⟨fun e he => by rw [ha.term]; exact cloneEntries_term r ents e he, ?_, ha.pendingConf hs, ?_⟩
  · rw [ha.log, absLogR_length, absLog, absLogL_length_eq val hwf hu]
  · rw [ha.applied, ha.log]; exact applied_le_length val cf r hwf hu

/-- the state after the first `i` appends -/
theorem prop_prefix_nodes {r : Raft} {s : SpecR.State} {n : Nat} (ha : AbsR val cf r (s.nodes n))
    (hs : r.state = .leader) (hwf : r.log.WF) (hu : Uncompacted r.log) {es ents : List Entry} {p : Nat → Nat}
    (ht : GateTrace r es ents p) (hlen : ents.length = es.length) (hp0 : p 0 = r.pendingConfIndex)
    (i : Nat) (hi : i ≤ ents.length) :
    let nd := (appendAllR val cf n ((cloneEntries r ents).take i) s).nodes n
    nd.role = .leader ∧ nd.applied = r.log.applied ∧ nd.pendingConf = p i ∧
    nd.active c0 = (s.nodes n).active c0 ∧ nd.vol.term = r.term := by
  intro nd
  obtain ⟨b1, b2, b3, b4⟩ := prop_base val cf ha hs hwf hu ents
  have hT : ∀ e ∈ (cloneEntries r ents).take i, e.term = (s.nodes n).vol.term :=
    fun e he => b1 e (List.mem_of_mem_take he)
  obtain ⟨a1, _, _, a4, a5, _, a7⟩ := appendAllR_nodes val cf n _ s hT
  refine ⟨?_, a5.trans ha.applied, ?_, appendAllR_active val cf c0 n _ s hT b4, a1.trans ha.term⟩
  · rw [a4, ha.role, hs]; rfl
  · rw [a7, b2, b3, ← hp0]; exact pcFold_gateTrace ht hlen i hi

end

end RaftVerif.RefineR
