import RaftVerif.Proofs.LogUnstable
/-!
# Proofs/LogQueries — `raftLog` read-only queries against the abstract log

Helper lemmas for C18 / C08.  Core Lean only.
-/
namespace RaftVerif
namespace RaftLog

/-- how the abstract log is assembled: a prefix `pre` (from storage; empty when a snapshot is pending)
followed by the unstable entries, the seam being at `unstable.offset` -/
theorem WF.shape {l : RaftLog} (h : l.WF) :
    ∃ pre, l.abs.ents = pre ++ l.unstable.entries ∧ l.abs.base + 1 + pre.length = l.unstable.offset ∧
      (l.unstable.snapshot = none → pre = l.storage.abs.ents.take (l.unstable.offset - (l.storage.offset + 1)) ∧
          l.abs.base = l.storage.offset ∧ l.abs.baseTerm = l.storage.dummyTerm) ∧
      (∀ s, l.unstable.snapshot = some s → pre = [] ∧ l.abs.base = s.index ∧ l.abs.baseTerm = s.term) := by
  have hs := h.snapOK
  have hu := h.unstable.snap
  unfold SnapOK at hs
  unfold abs
  cases hsn : l.unstable.snapshot with
  | some s =>
    rw [hsn] at hu
    simp only at hu
    refine ⟨[], by simp, by simp [hu], by simp, ?_⟩
    intro s' hs'; cases hs'; simp
  | none =>
    rw [hsn] at hs
    simp only at hs
    obtain ⟨h1, h2, _, _⟩ := hs
    have hl := MemoryStorage.lastIndex_abs h.storage
    simp only [ALog.last, MemoryStorage.abs_base] at hl
    refine ⟨l.storage.abs.ents.take (l.unstable.offset - (l.storage.offset + 1)), ?_, ?_, ?_, ?_⟩
    · simp [ALog.extend, ALog.truncateFrom, MemoryStorage.abs_base]
    · simp only [ALog.extend, ALog.truncateFrom, MemoryStorage.abs_base, List.length_take]; omega
    · intro _; exact ⟨rfl, rfl, rfl⟩
    · intro s hs'; cases hs'

theorem WF.abs_wf {l : RaftLog} (h : l.WF) : l.abs.WF := by
  obtain ⟨pre, he, hlen, hn, hs⟩ := h.shape
  unfold ALog.WF
  rw [he, contig_append]
  refine ⟨?_, by rw [hlen]; exact h.unstable.contig⟩
  cases hsn : l.unstable.snapshot with
  | some s => rw [(hs s hsn).1]; exact Contig.nil _
  | none =>
    obtain ⟨hp, hb, _⟩ := hn hsn
    rw [hp, hb]
    exact (MemoryStorage.WF.abs_wf h.storage).take _

/-- **firstIndex** -/
theorem firstIndex_abs {l : RaftLog} (h : l.WF) : l.firstIndex = l.abs.first := by
  obtain ⟨pre, he, hlen, hn, hs⟩ := h.shape
  unfold firstIndex Unstable.maybeFirstIndex ALog.first
  cases hsn : l.unstable.snapshot with
  | some s => simp [(hs s hsn).2.1]
  | none => simp [(hn hsn).2.1, MemoryStorage.firstIndex]

theorem abs_last_succ {l : RaftLog} (h : l.WF) : l.abs.last + 1 = l.unstable.next := by
  obtain ⟨pre, he, hlen, hn, hs⟩ := h.shape
  unfold ALog.last Unstable.next
  rw [he, List.length_append]; omega

/-- **lastIndex** -/
theorem lastIndex_abs {l : RaftLog} (h : l.WF) : l.lastIndex = l.abs.last := by
  have hl := abs_last_succ h
  obtain ⟨pre, he, hlen, hn, hs⟩ := h.shape
  have hso := h.snapOK
  have hu := h.unstable.snap
  unfold SnapOK at hso
  unfold Unstable.next at hl
  unfold lastIndex Unstable.maybeLastIndex
  by_cases hlen0 : l.unstable.entries.length = 0
  · simp only [hlen0, bne_self_eq_false, Bool.false_eq_true, ↓reduceIte]
    cases hsn : l.unstable.snapshot with
    | some s =>
      rw [hsn] at hu
      simp only at hu
      simp only [Option.map_some, Option.getD_some]
      omega
    | none =>
      rw [hsn] at hso
      simp only at hso
      have := hso.2.2.1 (List.length_eq_zero_iff.mp hlen0)
      simp only [Option.map_none, Option.getD_none]
      omega
  · simp only [bne_iff_ne, ne_eq, hlen0, not_false_eq_true, ↓reduceIte, Option.getD_some]
    omega

theorem abs_base_lt_offset {l : RaftLog} (h : l.WF) : l.abs.base < l.unstable.offset := by
  obtain ⟨pre, he, hlen, hn, hs⟩ := h.shape
  omega

/-- at and above `unstable.offset` the abstract log is the unstable log -/
theorem abs_entry?_of_ge {l : RaftLog} (h : l.WF) {i : Nat} (hi : l.unstable.offset ≤ i) :
    l.abs.entry? i = l.unstable.entry? i := by
  obtain ⟨pre, he, hlen, hn, hs⟩ := h.shape
  unfold ALog.entry? Unstable.entry?
  rw [if_pos (by omega), if_pos hi, he, List.getElem?_append_right (by omega)]
  congr 1; omega

/-- below `unstable.offset` (and with no pending snapshot) the abstract log is the storage's log -/
theorem abs_entry?_of_lt {l : RaftLog} (h : l.WF) (hsn : l.unstable.snapshot = none) {i : Nat}
    (hi : i < l.unstable.offset) : l.abs.entry? i = l.storage.abs.entry? i := by
  obtain ⟨pre, he, hlen, hn, hs⟩ := h.shape
  obtain ⟨hp, hb, _⟩ := hn hsn
  unfold ALog.entry?
  rw [hb, MemoryStorage.abs_base]
  split
  · rw [he, List.getElem?_append_left (by rw [hb] at hlen; omega), hp, List.getElem?_take]
    rw [if_pos (by omega)]
  · rfl

theorem abs_term?_of_lt {l : RaftLog} (h : l.WF) (hsn : l.unstable.snapshot = none) {i : Nat}
    (hi : i < l.unstable.offset) : l.abs.term? i = l.storage.abs.term? i := by
  obtain ⟨pre, he, hlen, hn, hs⟩ := h.shape
  obtain ⟨hp, hb, hbt⟩ := hn hsn
  unfold ALog.term?
  rw [abs_entry?_of_lt h hsn hi, hb, hbt]; rfl

/-- the answer of a `term(i)` query on an abstract log -/
def _root_.RaftVerif.ALog.termResult (a : ALog) (i : Nat) : Except StorageErr Nat :=
  if i < a.base then .error .compacted
  else if a.last < i then .error .unavailable
  else .ok ((a.term? i).getD 0)

theorem _root_.RaftVerif.ALog.termResult_of_lt (a : ALog) {i : Nat} (h : i < a.base) :
    a.termResult i = .error .compacted := by unfold ALog.termResult; rw [if_pos h]

theorem _root_.RaftVerif.ALog.termResult_of_gt (a : ALog) {i : Nat} (h : a.last < i) :
    a.termResult i = .error .unavailable := by
  have : a.base ≤ a.last := by simp [ALog.last]
  unfold ALog.termResult; rw [if_neg (by omega), if_pos h]

theorem _root_.RaftVerif.ALog.termResult_of_mid (a : ALog) {i : Nat} (h1 : a.base ≤ i) (h2 : i ≤ a.last) :
    a.termResult i = .ok ((a.term? i).getD 0) := by
  unfold ALog.termResult; rw [if_neg (by omega), if_neg (by omega)]

theorem _root_.RaftVerif.MemoryStorage.term_eq' {ms : MemoryStorage} (h : ms.WF) (i : Nat) :
    ms.term i = ms.abs.termResult i := MemoryStorage.term_eq h i

/-- **term**: `term(i)` in terms of the abstract log, one equation for all `i` -/
theorem term_eq' {l : RaftLog} (h : l.WF) (i : Nat) : l.term i = l.abs.termResult i := by
  have hfi := firstIndex_abs h
  have hli := lastIndex_abs h
  have hbo := abs_base_lt_offset h
  have hls := abs_last_succ h
  unfold Unstable.next at hls
  unfold ALog.first at hfi
  unfold term
  rw [hfi, hli]
  by_cases hge : l.unstable.offset ≤ i
  · -- unstable part
    rw [Unstable.maybeTerm_of_ge h.unstable hge, ← abs_entry?_of_ge h hge]
    cases he : l.abs.entry? i with
    | none =>
      have := (ALog.entry?_eq_none_iff _ _).mp he
      simp only [Option.map_none]
      rw [if_neg (by omega), if_pos (by omega), ALog.termResult_of_gt _ (by omega)]
    | some e =>
      have := (ALog.entry?_isSome_iff l.abs i).mp (by simp [he])
      simp only [Option.map_some]
      rw [ALog.termResult_of_mid _ (by omega) (by omega), ALog.term?_of_base_lt _ (by omega), he]; rfl
  · have hlt : i < l.unstable.offset := by omega
    rw [Unstable.maybeTerm_of_lt _ hlt]
    obtain ⟨pre, he, hlen, hn, hs⟩ := h.shape
    cases hsn : l.unstable.snapshot with
    | some s =>
      obtain ⟨hp, hb, hbt⟩ := hs s hsn
      have hu := h.unstable.snap
      rw [hsn] at hu
      simp only at hu
      simp only
      by_cases hi : s.index = i
      · rw [if_pos hi]
        have : i = l.abs.base := by omega
        rw [this, ALog.termResult_of_mid _ (by omega) (by simp [ALog.last]), ALog.term?_base, hbt]; rfl
      · rw [if_neg hi]
        simp only
        rw [if_pos (by omega), ALog.termResult_of_lt _ (by omega)]
    | none =>
      obtain ⟨hp, hb, hbt⟩ := hn hsn
      have hso := h.snapOK
      unfold SnapOK at hso
      rw [hsn] at hso
      simp only at hso
      simp only
      have hsl := MemoryStorage.lastIndex_abs h.storage
      by_cases h1 : i < l.abs.base
      · rw [if_pos (by omega), ALog.termResult_of_lt _ h1]
      · rw [if_neg (by omega), if_neg (by omega)]
        have hsb : l.storage.abs.base = l.storage.offset := rfl
        rw [MemoryStorage.term_eq' h.storage, ALog.termResult_of_mid l.abs (by omega) (by omega),
          ALog.termResult_of_mid l.storage.abs (by omega) (by omega),
          abs_term?_of_lt h hsn hlt]

theorem term_eq {l : RaftLog} (h : l.WF) (i : Nat) :
    l.term i =
      if i < l.abs.base then .error .compacted
      else if l.abs.last < i then .error .unavailable
      else .ok ((l.abs.term? i).getD 0) := term_eq' h i

theorem term_ok_iff {l : RaftLog} (h : l.WF) (i t : Nat) :
    l.term i = .ok t ↔ l.abs.term? i = some t := by
  rw [term_eq h]
  have hn := ALog.term?_eq_none_iff l.abs i
  split
  · rw [hn.mpr (by omega)]; simp
  · split
    · rw [hn.mpr (by omega)]; simp
    · cases ht : l.abs.term? i with
      | none => rw [ht] at hn; have := hn.mp rfl; omega
      | some t' => simp

theorem term_compacted_iff {l : RaftLog} (h : l.WF) (i : Nat) :
    l.term i = .error .compacted ↔ i < l.abs.base := by
  rw [term_eq h]
  split
  · simp [*]
  · split <;> simp [*]

theorem term_unavailable_iff {l : RaftLog} (h : l.WF) (i : Nat) :
    l.term i = .error .unavailable ↔ l.abs.last < i := by
  rw [term_eq h]
  split
  · have : l.abs.base ≤ l.abs.last := by simp [ALog.last]
    simp; omega
  · split <;> simp [*]

/-- **matchTerm** -/
theorem matchTerm_iff {l : RaftLog} (h : l.WF) (id : EntryID) :
    l.matchTerm id = true ↔ l.abs.term? id.index = some id.term := by
  unfold matchTerm
  cases ht : l.term id.index with
  | ok t =>
    rw [(term_ok_iff h _ _).mp ht]; simp
  | error e =>
    simp only [Bool.false_eq_true, false_iff]
    intro hc
    rw [(term_ok_iff h _ _).mpr hc] at ht
    cases ht

end RaftLog
end RaftVerif
