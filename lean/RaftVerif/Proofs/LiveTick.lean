import RaftVerif.Proofs.LiveLeader
/-!
# Proofs/LiveTick — timers (C15): `tickElection`, `tickHeartbeat`, `MsgCheckQuorum`, `MsgBeat`

* `step_leader_dispatch`   — a local (term 0) or same-term per-peer / timer message stepped by a leader
  is handled by `stepLeader`;
* `stepLeader_checkQuorum_run` — exact effect of `MsgCheckQuorum`;
* `tickElection_run_fire` / `tickElection_run_idle` — `tickElection` fires `MsgHup` exactly when the node is
  promotable and the randomized timeout has elapsed;
* `tickHeartbeat_timeout_inv` — what a leader's tick does once `electionTimeout` ticks have elapsed.
-/
namespace RaftVerif.Live
open Raft
set_option linter.unusedSimpArgs false

/-! ### dispatch -/

theorem step_leader_dispatch (fuel : Nat) (m : Message) (r : Raft) (hs : r.state = .leader)
    (hterm : m.term = 0 ∨ m.term = r.term)
    (ht : m.typ = .checkQuorum ∨ m.typ = .beat ∨ m.typ = .appResp ∨ m.typ = .heartbeatResp ∨
      m.typ = .snapStatus ∨ m.typ = .unreachable ∨ m.typ = .prop ∨ m.typ = .transferLeader) :
    (step (fuel + 1) m).run r = (stepLeader fuel m).run r := by
  rw [step]
  simp only [StateT.run_bind, StateT.run_get, P_pure_eq, P_ok_bind]
  by_cases h0 : m.term = 0
  · simp only [h0, beq_self_eq_true, ↓reduceIte, StateT.run_pure, P_pure_eq, P_ok_bind]
    rcases ht with h | h | h | h | h | h | h | h <;>
      simp only [h, StateT.run_bind, StateT.run_get, P_pure_eq, P_ok_bind, hs]
  · have h0' : (m.term == 0) = false := by simpa using h0
    have he : m.term = r.term := by omega
    have h0r : (r.term == 0) = false := by rw [← he]; exact h0'
    simp only [h0', he, h0r, gt_iff_lt, Nat.lt_irrefl, Bool.false_eq_true, ↓reduceIte, StateT.run_pure,
      P_pure_eq, P_ok_bind]
    rcases ht with h | h | h | h | h | h | h | h <;>
      simp only [h, StateT.run_bind, StateT.run_get, P_pure_eq, P_ok_bind, hs]

/-! ### `MsgCheckQuorum` -/

/-- last step of `MsgCheckQuorum`: every peer but the node itself is marked inactive -/
def clearRA (r : Raft) : Raft :=
  { r with trk := { r.trk with progress := r.trk.progress.map fun (id, pr) =>
      if id != r.cfg.id then (id, { pr with recentActive := false }) else (id, pr) } }

theorem stepLeader_checkQuorum_run (fuel : Nat) (m : Message) (r : Raft) (hm : m.typ = .checkQuorum) :
    (stepLeader fuel m).run r =
      if r.trk.quorumActive = true then .ok (none, clearRA r)
      else (becomeFollower r.term 0).run r >>= fun p => .ok (none, clearRA p.2) := by
  unfold stepLeader
  simp only [hm, StateT.run_bind, StateT.run_get, P_pure_eq, P_ok_bind]
  cases hq : r.trk.quorumActive
  · simp only [Bool.not_false, ↓reduceIte, Bool.false_eq_true, StateT.run_bind, StateT.run_get, P_pure_eq,
      P_ok_bind]
    cases hb : (becomeFollower r.term 0).run r with
    | error e => rfl
    | ok p => rfl
  · simp only [Bool.not_true, Bool.false_eq_true, ↓reduceIte, StateT.run_bind, StateT.run_pure, P_pure_eq,
      P_ok_bind]
    rfl

theorem lookup_map_snd {β : Type} (g : Id → β → β) (l : List (Id × β)) (k : Id) :
    Quorum.lookup (l.map fun p => (p.1, g p.1 p.2)) k = (Quorum.lookup l k).map (g k) := by
  induction l with
  | nil => rfl
  | cons a t ih =>
    obtain ⟨ka, va⟩ := a
    simp only [List.map_cons, Quorum.lookup]
    by_cases h : ka = k
    · subst h; simp
    · have h' : (ka == k) = false := by simpa using h
      simp only [h', Bool.false_eq_true, ↓reduceIte, ih]

/-- the progress map after `clearRA` -/
theorem getProgress_clearRA (r : Raft) (id : Id) :
    (clearRA r).trk.getProgress id =
      (r.trk.getProgress id).map fun pr => if id = r.cfg.id then pr else { pr with recentActive := false } := by
  unfold clearRA Tracker.getProgress mapGet
  have hf : (fun (x : Id × Progress) => match x with
      | (id, pr) => if (id != r.cfg.id) = true then (id, ({ pr with recentActive := false } : Progress)) else (id, pr)) =
      fun p => (p.1, (fun id pr => if id = r.cfg.id then pr else ({ pr with recentActive := false } : Progress)) p.1 p.2) := by
    funext ⟨a, b⟩
    by_cases h : a = r.cfg.id <;> simp [h]
  simp only [hf]
  exact lookup_map_snd (fun id pr => if id = r.cfg.id then pr else ({ pr with recentActive := false } : Progress)) _ _

/-- `reset` also zeroes `leadTransferee`, the timers; exact shape of what `becomeFollower` leaves -/
theorem becomeFollower_live (t l : Nat) (s : Raft) :
    Spec (becomeFollower t l) s (fun _ s' =>
      s'.term = t ∧ s'.vote = (if s.term = t then s.vote else 0) ∧ s'.lead = l ∧ s'.state = .follower ∧
      s'.log = s.log ∧ s'.cfg = s.cfg ∧ s'.msgs = s.msgs ∧ s'.msgsAfterAppend = s.msgsAfterAppend ∧
      s'.leadTransferee = 0 ∧ s'.electionElapsed = 0 ∧ s'.trk.cfg = s.trk.cfg) := by
  unfold becomeFollower
  simp only [wp]
  refine (reset_spec_st t s).mono ?_
  intro _ s' ⟨h1, h2, _, _, h3, h4, h5, h6, h7, _, h8, _, h9⟩
  exact ⟨h1, h2, trivial, trivial, h3, h4, h5, h6, h8, h9, h7⟩

/-! ### `MsgBeat` stepped by a leader only sends -/

theorem stepLeader_beat_frames (fuel : Nat) (m : Message) (r r' : Raft) (res : Option StepErr)
    (hm : m.typ = .beat) (h : (stepLeader fuel m).run r = .ok (res, r')) :
    SendFrame r r' ∧ PrKeep r r' := by
  unfold stepLeader at h
  simp only [hm] at h
  obtain ⟨u1, r1, h1, hA⟩ := bind_ok h
  obtain ⟨_, e⟩ := pure_ok hA; subst e
  exact ⟨(bcastHeartbeat_sf _).elim h1, (bcastHeartbeat_pk _).elim h1⟩

/-! ### `tickElection` -/

/-- `promotable()` as a pure predicate -/
def promotableB (r : Raft) : Bool :=
  match r.trk.getProgress r.cfg.id with
  | none => false
  | some pr => !pr.isLearner && !r.log.hasNextOrInProgressSnapshot

theorem promotable_run (r : Raft) : promotable.run r = .ok (promotableB r, r) := by
  unfold promotable promotableB
  simp only [StateT.run_bind, StateT.run_get, P_pure_eq, P_ok_bind]
  cases r.trk.getProgress r.cfg.id <;> rfl

/-- the `MsgHup` a tick steps -/
def hupMsg (r : Raft) : Message := { «from» := r.cfg.id, typ := .hup }

/-- **the election timer fires**: promotable and `electionElapsed + 1 ≥ randomizedElectionTimeout` -/
theorem tickElection_run_fire (r : Raft) (hp : promotableB r = true)
    (ht : r.randomizedElectionTimeout ≤ r.electionElapsed + 1) :
    tickElection.run r =
      ((step stepFuel (hupMsg r)).run { r with electionElapsed := 0 } >>= fun p => .ok ((), p.2)) := by
  unfold tickElection pastElectionTimeout
  simp only [StateT.run_bind, StateT.run_modify, StateT.run_get, StateT.run_pure, P_pure_eq, P_ok_bind, promotable_run]
  have hp' : promotableB { r with electionElapsed := r.electionElapsed + 1 } = true := hp
  have ht' : decide (r.electionElapsed + 1 ≥ r.randomizedElectionTimeout) = true := by simpa using ht
  simp only [hp', ht', Bool.and_self, ↓reduceIte, StateT.run_bind, StateT.run_modify, StateT.run_get, P_pure_eq,
    P_ok_bind]
  rfl

/-- otherwise the tick only advances `electionElapsed` -/
theorem tickElection_run_idle (r : Raft)
    (h : promotableB r = false ∨ r.electionElapsed + 1 < r.randomizedElectionTimeout) :
    tickElection.run r = .ok ((), { r with electionElapsed := r.electionElapsed + 1 }) := by
  unfold tickElection pastElectionTimeout
  simp only [StateT.run_bind, StateT.run_modify, StateT.run_get, StateT.run_pure, P_pure_eq, P_ok_bind, promotable_run]
  have hc : (promotableB { r with electionElapsed := r.electionElapsed + 1 } &&
      decide (r.electionElapsed + 1 ≥ r.randomizedElectionTimeout)) = false := by
    rcases h with h | h
    · have : promotableB { r with electionElapsed := r.electionElapsed + 1 } = false := h
      simp [this]
    · have : decide (r.electionElapsed + 1 ≥ r.randomizedElectionTimeout) = false := by
        simp only [ge_iff_le, decide_eq_false_iff_not]; omega
      simp [this]
  simp only [hc, Bool.false_eq_true, ↓reduceIte, StateT.run_pure, P_pure_eq]

end RaftVerif.Live
