import RaftVerif.Proofs.SimReadyFrame
import RaftVerif.Proofs.SimClusterAux
/-!
# Proofs/SimReadyRound — `syncRound` with both invariants, no hypothesis on the step lemmas

`sim_syncRound2`: from `NodeInv` and `RoundAux` (`AuxInv`, `LogSettled`, only promises in `msgsAfterAppend`) the round
`Ready; persist; Advance` is simulated, both are re-established, and the released messages satisfy `NetOK` and
`NetFrom` — what `RA.lift` asks for.  Uses `selfStepOK2` (no `SelfStepOK` hypothesis left).
-/
namespace RaftVerif.Sim
open Refine Raft
set_option linter.unusedSimpArgs false

theorem sim_syncRound2 {val : Val} {voters : List Id} {n : Nat} {s : Spec.State} {rn rn' : RawNode} {rd : Ready}
    {draws : List Nat} (hnode : NodeInv val voters n rn (s.nodes n) s.msgs) (hra : RoundAux n rn.raft)
    (hreach : Spec.Reachable (cfgOf voters) s) (h : syncRound rn draws = .ok (rd, rn')) :
    ∃ as s', RunL (cfgOf voters) s as s' ∧ (∀ a ∈ as, a.actor = n) ∧
      NodeInv val voters n rn' (s'.nodes n) s'.msgs ∧ (∀ m ∈ rd.messages, NetOK val s'.msgs m) ∧
      RoundAux n rn'.raft ∧ ∀ m ∈ rd.messages, NetFrom m := by
  obtain ⟨haux, hset, hprom⟩ := hra
  have hI := hnode.inv
  obtain ⟨eid, r2, r3, hsteps, hmsgs, hlast, hP, hterm2, hmaa2, ⟨hst2, htrk2, hmsgs2, _⟩, hinv2, hraft', hasy', hsoa'⟩ :=
    syncRound_model hnode hset h
  -- Spec: `write; persist`, then the release of the promises
  obtain ⟨s1, hrun1, hn1, hm1⟩ := write_persist_run (cfgOf voters) s n hI.pend
  have hI1 : RaftInv val voters n rn.raft (s1.nodes n) s1.msgs := by rw [hn1, hm1]; exact hI.persisted
  have hdur1 : (s1.nodes n).dur = (s.nodes n).vol := by rw [hn1]
  obtain ⟨s2, hrel, hnet⟩ := release_all (val := val) (cfgOf voters) n rn.raft.msgsAfterAppend s1
    (fun p hp => ⟨by rw [hdur1]; exact hI.prom p hp, hprom p hp⟩)
  obtain ⟨as2, hrun2, hact2, hnodes2, hsub2, hrv2⟩ := hrel
  have hI1' : RaftInv val voters n rn.raft (s2.nodes n) s2.msgs := by
    rw [hnodes2]; exact hI1.frame hsub2 (fun t lt li hx => hrv2 t n lt li hx)
  have hI2 : RaftInv val voters n r2 (s2.nodes n) s2.msgs := hinv2 _ _ hI1'
  have haux2 : AuxInv n r2 := haux.transfer hst2 htrk2 hterm2 (lastIndex_of_inv hI1' hI2)
    (by rw [hmsgs2]; exact fun _ hm => nomatch hm) (by rw [hmaa2]; exact fun _ hm => nomatch hm)
  have hreach2 := hrun2.reachable (hrun1.reachable hreach)
  have hdur2 : Spec.VerLe (s.nodes n).vol (s2.nodes n).dur := by
    rw [hnodes2, hdur1]; exact Spec.VerLe.refl _
  have hrouted : Routed r2 r3 := runSteps_routed _ r2 r3 hsteps
  -- the node's own promises
  unfold Next.soaOf at hsteps
  rw [runSteps_append, runSteps_append] at hsteps
  obtain ⟨rb, hsteps, hstepC⟩ := bind_eq_ok.1 hsteps
  obtain ⟨ra, hstepA, hstepB⟩ := bind_eq_ok.1 hsteps
  have hself : ∀ m ∈ rn.raft.msgsAfterAppend.filter (fun m => m.to == rn.raft.cfg.id),
      m.to = n ∧ PromOK n (s.nodes n).vol m ∧ SelfOK n r2 m := by
    intro m hm
    obtain ⟨hm1, hm2⟩ := List.mem_filter.1 hm
    have hto : m.to = n := by rw [← hI.st.id]; simpa using hm2
    exact ⟨hto, hI.prom m hm1, (haux.self m hm1).transfer hst2 hterm2 (lastIndex_of_inv hI1' hI2)⟩
  obtain ⟨as3, s3, hrun3, hact3, hI3, haux3, hg3, ht3⟩ :=
    self_steps2 (s.nodes n).vol _ (fun m hm => ⟨(hself m hm).1, (hself m hm).2.1⟩) s2 r2 ra hI2 haux2
      (fun m hm => (hself m hm).2.2) hreach2 hdur2 hstepA
  -- the two storage acknowledgements
  obtain ⟨hIb, hsetb, hsameb⟩ := appendResp_phase hI.wf hset.1 hP hI3 (ht3.trans hterm2) hg3.storage hg3.snap
    hg3.offset hg3.oip hg3.ents eid hlast hstepB
  obtain ⟨hIc, hsetc, hsamec⟩ := applyResp_phase hIb hsetb rd.committedEntries hstepC
  have hauxb : AuxInv n rb := haux3.same hsameb (lastIndex_of_inv hI3 hIb)
  have hauxc : AuxInv n r3 := hauxb.same hsamec (lastIndex_of_inv hIb hIc)
  have hprom3 : ∀ m ∈ r3.msgsAfterAppend, isPromise m.typ = true := by
    obtain ⟨suf, hsuf, hp⟩ := hrouted.maa
    rw [hmaa2, List.nil_append] at hsuf
    intro m hm
    rw [hsuf] at hm
    exact hp m hm
  refine ⟨[.write n, .persist n] ++ (as2 ++ as3), s3, hrun1.append (hrun2.append hrun3), ?_,
    ⟨hasy', hsoa', by rw [hraft']; exact hIc⟩, ?_, by rw [hraft']; exact ⟨hauxc, hsetc, hprom3⟩, ?_⟩
  · intro a ha
    rcases List.mem_append.1 ha with h1 | h1
    · simp only [List.mem_cons, List.not_mem_nil, or_false] at h1
      rcases h1 with rfl | rfl <;> rfl
    · rcases List.mem_append.1 h1 with h2 | h2
      · exact hact2 a h2
      · exact hact3 a h2
  · intro m hm
    rw [hmsgs] at hm
    have hsub3 : ∀ x ∈ s2.msgs, x ∈ s3.msgs := fun x hx => hrun3.msgs_mono x hx
    rcases List.mem_append.1 hm with h1 | h1
    · exact (hI.out m h1).mono (fun x hx => hsub3 x (hsub2 x (by rw [hm1]; exact hx)))
    · obtain ⟨h2, h3⟩ := List.mem_filter.1 h1
      have hto : m.to ≠ n := by rw [← hI.st.id]; simpa using h3
      exact (hnet m h2 hto).mono hsub3
  · intro m hm hty
    rw [hmsgs] at hm
    rcases List.mem_append.1 hm with h1 | h1
    · obtain ⟨hf, ht⟩ := haux.outFrom m h1 hty
      rw [hf]; exact fun h => ht h.symm
    · have hp := hprom m (List.mem_filter.1 h1).1
      rcases hty with hty | hty | hty <;> simp [isPromise, hty] at hp

end RaftVerif.Sim
