import RaftVerif.Proofs.SimInv
import RaftVerif.Proofs.NextSolo
import RaftVerif.Proofs.SimTerm
/-!
# Proofs/SimHb — heartbeats: MsgHeartbeat / MsgHeartbeatResp of the node's own term, a leader's tick

* `sim_hb_same`      — MsgHeartbeat of the own term: ignored (leader), Spec `handleHb` (others)
* `sim_hbResp_same`  — MsgHeartbeatResp of the own term: ignored (non-leader, unknown peer), at most one
                       Spec `sendApp` (leader)
* `sim_tick_leader`  — tick of a leader: nothing, or one Spec `sendHb` per peer
-/
namespace RaftVerif.Sim
open Refine Raft Live
set_option linter.unusedSimpArgs false

/-! ### a frame for the sending functions: everything `RaftInv` looks at, but `msgs` and the per-peer
fields other than `Match` / `IsLearner` -/

/-- the tracked peers, their `Match` and `IsLearner` are kept -/
def PrM (r r' : Raft) : Prop :=
  ∀ id, (r.trk.getProgress id = none → r'.trk.getProgress id = none) ∧
    ∀ pr, r.trk.getProgress id = some pr → ∃ pr', r'.trk.getProgress id = some pr' ∧
      pr'.match_ = pr.match_ ∧ pr'.isLearner = pr.isLearner

theorem PrM.refl (r : Raft) : PrM r r := fun _ => ⟨id, fun pr h => ⟨pr, h, rfl, rfl⟩⟩

theorem PrM.trans {a b c : Raft} (h1 : PrM a b) (h2 : PrM b c) : PrM a c := by
  intro id
  refine ⟨fun h => (h2 id).1 ((h1 id).1 h), fun pr hp => ?_⟩
  obtain ⟨p1, g1, e1, e2⟩ := (h1 id).2 pr hp
  obtain ⟨p2, g2, f1, f2⟩ := (h2 id).2 p1 g1
  exact ⟨p2, g2, f1.trans e1, f2.trans e2⟩

theorem PrM.of_prKeep {r r' : Raft} (h : PrKeep r r') : PrM r r' := by
  obtain ⟨_, _, k⟩ := h
  intro id
  refine ⟨(k id).1, fun pr hp => ?_⟩
  obtain ⟨p, g, e1, _, e3, _⟩ := (k id).2 pr hp
  exact ⟨p, g, e1, e3⟩

theorem PrM.of_eq {r r' : Raft} (h : r'.trk.progress = r.trk.progress) : PrM r r' := by
  intro id
  unfold Tracker.getProgress
  rw [h]
  exact ⟨fun h => h, fun pr hp => ⟨pr, hp, rfl, rfl⟩⟩

/-- going back: a peer tracked afterwards was tracked before -/
theorem PrM.back {r r' : Raft} (h : PrM r r') {v : Id} {pr' : Progress} (hg : r'.trk.getProgress v = some pr') :
    ∃ pr, r.trk.getProgress v = some pr ∧ pr'.match_ = pr.match_ ∧ pr'.isLearner = pr.isLearner := by
  cases hr : r.trk.getProgress v with
  | none => rw [(h v).1 hr] at hg; cases hg
  | some pr =>
    obtain ⟨p, g, e1, e2⟩ := (h v).2 pr hr
    rw [hg] at g; injection g with g; subst g
    exact ⟨pr, rfl, e1, e2⟩

theorem PrM.isSome {r r' : Raft} (h : PrM r r') (v : Id) :
    (r'.trk.getProgress v).isSome = (r.trk.getProgress v).isSome := by
  cases hr : r.trk.getProgress v with
  | none => rw [(h v).1 hr]
  | some pr => obtain ⟨p, g, _⟩ := (h v).2 pr hr; rw [g]; rfl

/-- overwriting the progress of `id` keeping `Match` and `IsLearner` -/
theorem PrM.setProgress (r : Raft) (id : Id) (pr0 X : Progress) (hg : r.trk.getProgress id = some pr0)
    (h1 : X.match_ = pr0.match_) (h2 : X.isLearner = pr0.isLearner) :
    PrM r { r with trk := r.trk.setProgress id X } := by
  intro id'
  simp only [getProgress_setProgress]
  by_cases hid : id = id'
  · subst hid
    simp only [↓reduceIte, reduceCtorEq, imp_false, Option.some.injEq]
    refine ⟨fun h => (by rw [hg] at h; cases h), fun pr hpr => ?_⟩
    rw [hg] at hpr; injection hpr with hpr; subst hpr
    exact ⟨X, rfl, h1, h2⟩
  · simp only [hid, ↓reduceIte]
    exact ⟨fun h => h, fun pr h => ⟨pr, h, rfl, rfl⟩⟩

/-- what the sending functions keep of the state, as far as `RaftInv` can see (`msgs` apart) -/
structure HbFrame (r r' : Raft) : Prop where
  cfg : r'.cfg = r.cfg
  term : r'.term = r.term
  vote : r'.vote = r.vote
  log : r'.log = r.log
  state : r'.state = r.state
  lead : r'.lead = r.lead
  xfer : r'.leadTransferee = r.leadTransferee
  pri : r'.pendingReadIndexMessages = r.pendingReadIndexMessages
  ro : r'.readOnly.unconfirmed = r.readOnly.unconfirmed
  tcfg : r'.trk.cfg = r.trk.cfg
  tvotes : r'.trk.votes = r.trk.votes
  maa : r'.msgsAfterAppend = r.msgsAfterAppend
  prm : PrM r r'

theorem HbFrame.refl (r : Raft) : HbFrame r r :=
  ⟨rfl, rfl, rfl, rfl, rfl, rfl, rfl, rfl, rfl, rfl, rfl, rfl, PrM.refl r⟩

theorem HbFrame.trans {a b c : Raft} (h1 : HbFrame a b) (h2 : HbFrame b c) : HbFrame a c :=
  ⟨h2.cfg.trans h1.cfg, h2.term.trans h1.term, h2.vote.trans h1.vote, h2.log.trans h1.log,
   h2.state.trans h1.state, h2.lead.trans h1.lead, h2.xfer.trans h1.xfer, h2.pri.trans h1.pri,
   h2.ro.trans h1.ro, h2.tcfg.trans h1.tcfg, h2.tvotes.trans h1.tvotes, h2.maa.trans h1.maa,
   h1.prm.trans h2.prm⟩

theorem HbFrame.of_sf {r r' : Raft} (hsf : SendFrame r r') (hpk : PrKeep r r')
    (hmaa : r'.msgsAfterAppend = r.msgsAfterAppend) : HbFrame r r' :=
  ⟨hsf.cfg, hsf.term, hsf.vote, hsf.log, hsf.state, hsf.lead, hsf.leadTransferee,
   hsf.pendingReadIndexMessages, by rw [hsf.readOnly], hsf.trkCfg, hsf.trkVotes, hmaa, PrM.of_prKeep hpk⟩

theorem RaftStatic.of_hbFrame {voters : List Id} {n : Nat} {r r' : Raft} (h : RaftStatic voters n r)
    (f : HbFrame r r') : RaftStatic voters n r' :=
  ⟨by rw [f.cfg]; exact h.id, h.idnz, by rw [f.cfg]; exact h.pv, f.xfer.trans h.xfer,
    f.pri.trans h.pri, f.ro.trans h.ro, by rw [f.tcfg]; exact h.tvoters, by rw [f.tcfg]; exact h.tout,
    by rw [f.tcfg]; exact h.tauto, fun v => by rw [f.prm.isSome]; exact h.prog v,
    fun v pr hp => by
      obtain ⟨p0, g0, _, e⟩ := f.prm.back hp
      rw [e]; exact h.nolearn v p0 g0,
    h.self⟩

/-- **the invariant survives a sending function** whose new messages are justified -/
theorem RaftInv.of_hbFrame {val : Val} {voters : List Id} {n : Nat} {r r' : Raft} {nd : Spec.Node}
    {msgs : List Spec.Msg} (h : RaftInv val voters n r nd msgs) (f : HbFrame r r')
    (hout : ∀ m ∈ r'.msgs, NetOK val msgs m) : RaftInv val voters n r' nd msgs := by
  have hl : absLog val r' = absLog val r := by unfold absLog; rw [f.log]
  exact {
    abs := h.abs.congr f.term f.vote f.log (by rw [f.state])
    st := h.st.of_hbFrame f
    wf := by rw [f.log]; exact h.wf
    unc := by rw [f.log]; exact h.unc
    leadInv := by rw [f.state, f.lead, f.vote]; exact h.leadInv
    candVote := by rw [f.state, f.vote]; exact h.candVote
    termPos := by rw [f.state, f.term]; exact h.termPos
    logLe := by rw [hl, f.term]; exact h.logLe
    candLt := by rw [hl, f.term, f.state]; exact h.candLt
    pend := h.pend
    durV := h.durV
    durA := h.durA
    out := hout
    prom := by rw [f.maa]; exact h.prom
    rvTerm := by rw [f.term]; exact h.rvTerm
    rvCov := by rw [hl, f.term, f.state]; exact h.rvCov
    votes := by rw [f.state, f.tvotes, f.term]; exact h.votes
    selfVote := by rw [f.state, f.tvotes]; exact h.selfVote
    matchO := by
      rw [f.state, f.term]
      intro hs v pr c hv hp h0 hc
      obtain ⟨p0, g0, e, _⟩ := f.prm.back hp
      exact h.matchO hs v p0 c hv g0 h0 (by rw [← e]; exact hc)
    matchS := by
      rw [f.state, f.term, hl]
      intro hs pr c hp hc
      obtain ⟨p0, g0, e, _⟩ := f.prm.back hp
      exact h.matchS hs p0 c g0 (by rw [← e]; exact hc) }

/-! ### MsgHeartbeat -/

/-- a leader ignores a MsgHeartbeat -/
theorem hb_stepLeader_run (fuel : Nat) (m : Message) (r : Raft) (ht : m.typ = .heartbeat) :
    (Raft.stepLeader fuel m).run r = .ok (none, r) := by
  unfold Raft.stepLeader
  cases hg : r.trk.getProgress m.from <;>
    simp only [ht, hg, StateT.run_bind, StateT.run_get, P_pure_eq, P_ok_bind, StateT.run_pure]

theorem hb_lookup_map {β γ : Type} (f : Id → β → γ) (l : List (Id × β)) (k : Id) :
    Quorum.lookup (l.map fun (i, b) => (i, f i b)) k = (Quorum.lookup l k).map (f k) := by
  induction l with
  | nil => rfl
  | cons a t ih =>
    obtain ⟨i, b⟩ := a
    simp only [List.map_cons, Quorum.lookup]
    by_cases hk : i = k
    · subst hk; simp
    · have : (i == k) = false := by simpa using hk
      simp only [this, Bool.false_eq_true, ↓reduceIte]
      exact ih

/-- the progress of `id` after `reset` -/
def hbResetPr (r : Raft) (id : Id) (pr : Progress) : Progress :=
  { match_ := if id == r.cfg.id then r.log.lastIndex else 0, next := r.log.lastIndex + 1,
    inflights := { size := r.trk.maxInflight, maxBytes := r.trk.maxInflightBytes }, isLearner := pr.isLearner }

/-- the progress map after `reset` -/
theorem hb_getProgress_reset (r : Raft) (t d : Nat) (rest : List Nat) (v : Id) :
    (Next.resetSt r t d rest).trk.getProgress v = (r.trk.getProgress v).map (hbResetPr r v) := by
  unfold Next.resetSt Tracker.getProgress mapGet
  exact hb_lookup_map (hbResetPr r) _ _

/-- `becomeFollower` succeeds only if a draw is left, and then its result is explicit -/
theorem hb_becomeFollower_exact {t l : Nat} {r r1 : Raft} (h : (Raft.becomeFollower t l).run r = .ok ((), r1)) :
    ∃ d rest, r1 = { Next.resetSt r t d rest with lead := l, state := .follower } := by
  cases hd : r.draws with
  | nil =>
    exfalso
    unfold Raft.becomeFollower Raft.reset Raft.resetRandomizedElectionTimeout at h
    by_cases ht : r.term = t
    · subst ht
      simp [StateT.run_bind, StateT.run_modify, StateT.run_get, StateT.run_set, hd] at h
    · have : (r.term != t) = true := by simpa using ht
      simp [StateT.run_bind, StateT.run_modify, StateT.run_get, StateT.run_set, hd, this, ht] at h
  | cons d rest =>
    refine ⟨d, rest, ?_⟩
    unfold Raft.becomeFollower at h
    simp only [StateT.run_bind, Next.reset_run t r d rest hd, P_ok_bind, StateT.run_modify, P_pure_eq] at h
    injection h with h; injection h with _ h; exact h.symm

/-- `becomeFollower` keeps the static part of the invariant -/
theorem hb_static_reset {voters : List Id} {n : Nat} {r : Raft} (h : RaftStatic voters n r)
    (t d : Nat) (rest : List Nat) (l : Nat) :
    RaftStatic voters n { Next.resetSt r t d rest with lead := l, state := .follower } := by
  have hg : ∀ v, ({ Next.resetSt r t d rest with lead := l, state := .follower } : Raft).trk.getProgress v =
      (Next.resetSt r t d rest).trk.getProgress v := fun _ => rfl
  refine ⟨h.id, h.idnz, h.pv, rfl, h.pri, rfl, h.tvoters, h.tout, h.tauto, ?_, ?_, h.self⟩
  · intro v
    rw [hg, hb_getProgress_reset, Option.isSome_map]
    exact h.prog v
  · intro v pr hp
    rw [hg, hb_getProgress_reset] at hp
    cases hr : r.trk.getProgress v with
    | none => rw [hr] at hp; cases hp
    | some p0 =>
      rw [hr] at hp
      simp only [Option.map_some, Option.some.injEq] at hp
      subst hp
      exact h.nolearn v p0 hr

/-- a non-leader that steps a MsgHeartbeat of its own term first becomes (or stays) a follower of the sender —
the static part of the invariant and the log are kept — and then runs `handleHeartbeat` -/
theorem hb_step_mid {voters : List Id} {n : Nat} {fuel : Nat} {m : Message} {r r' : Raft} {e : Option StepErr}
    (hst : RaftStatic voters n r) (ht : m.typ = .heartbeat) (hterm : m.term = r.term) (hs : r.state ≠ .leader)
    (h : (Raft.step (fuel + 1) m).run r = .ok (e, r')) :
    ∃ mid, RaftStatic voters n mid ∧ mid.log = r.log ∧ (Raft.handleHeartbeat m).run mid = .ok ((), r') := by
  rw [step_same_term_dispatch fuel m r (Or.inr hterm) (by rw [ht]; decide)] at h
  have hcand : (Raft.stepCandidate fuel m).run r = .ok (e, r') →
      ∃ mid, RaftStatic voters n mid ∧ mid.log = r.log ∧ (Raft.handleHeartbeat m).run mid = .ok ((), r') := by
    intro h
    rw [stepCandidate_hb_run fuel m ht] at h
    obtain ⟨_, mid, h1, h2⟩ := bind_ok h
    obtain ⟨_, r2, h3, h4⟩ := bind_ok h2
    obtain ⟨_, rfl⟩ := pure_ok h4
    obtain ⟨d, rest, rfl⟩ := hb_becomeFollower_exact h1
    exact ⟨_, hb_static_reset hst _ _ _ _, rfl, h3⟩
  unfold dispatch at h
  cases hstt : r.state with
  | leader => exact absurd hstt hs
  | candidate => rw [hstt] at h; exact hcand h
  | preCandidate => rw [hstt] at h; exact hcand h
  | follower =>
    rw [hstt] at h
    simp only at h
    rw [stepFollower_hb_run fuel m ht] at h
    obtain ⟨_, mid, h1, h2⟩ := bind_ok h
    obtain ⟨_, r2, h3, h4⟩ := bind_ok h2
    obtain ⟨_, rfl⟩ := pure_ok h4
    have := set_ok h1
    subst this
    exact ⟨{ r with electionElapsed := 0, lead := m.from }, hst.congr rfl rfl rfl rfl rfl rfl, rfl, h3⟩

/-- **MsgHeartbeat at the node's own term**: ignored by a leader; Spec `handleHb` otherwise -/
theorem sim_hb_same {val : Val} {voters : List Id} {n : Nat} {s : Spec.State} {r r' : Raft} {m : Message}
    {e : Option StepErr} {fuel : Nat}
    (hinv : RaftInv val voters n r (s.nodes n) s.msgs) (hreach : Spec.Reachable (cfgOf voters) s)
    (ht : m.typ = .heartbeat) (hterm : m.term = r.term) (hto : m.to = n) (hin : NetOK val s.msgs m)
    (h : (Raft.step (fuel + 1) m).run r = .ok (e, r')) : RaftSim val voters n s r' := by
  have _ := hreach
  unfold NetOK at hin
  simp only [ht] at hin
  obtain ⟨ht0, hctx, hsoup⟩ := hin
  by_cases hs : r.state = .leader
  · have : r' = r := by
      rw [step_same_term_dispatch fuel m r (Or.inr hterm) (by rw [ht]; decide)] at h
      unfold dispatch at h
      rw [hs] at h
      simp only at h
      rw [hb_stepLeader_run fuel m r ht] at h
      injection h with h; injection h with _ h; exact h.symm
    subst this
    exact RaftSim.refl hinv
  · obtain ⟨mid, hstm, hlog, hrun⟩ := hb_step_mid hinv.st ht hterm hs h
    have hwf' : mid.log.WF := by rw [hlog]; exact hinv.wf
    obtain ⟨_, hr'⟩ := (handleHeartbeat_refine m mid hwf').elim hrun
    have hst' : RaftStatic voters n r' := by rw [hr']; exact hstm.congr rfl rfl rfl rfl rfl rfl
    obtain ⟨_, hf, hle, hl, hmsgs, hmaa⟩ := step_hb_refine fuel m r r' e ht hterm hs hinv.wf h
    have hen := handleHb_enabled (m := m) val (cfgOf voters) hinv.abs hs hinv.wf hinv.unc hle
      (by rw [← hterm, ← hto]; exact hsoup)
    have habs := hb_abs val hinv.abs hf hl
    refine ⟨[.handleHb n r.term m.commit], _, .single hen, by simp [Spec.Action.actor], ?_⟩
    have hm : (Spec.apply s (.handleHb n r.term m.commit)).msgs = s.msgs := rfl
    have hn := handleHb_nodes s n r.term m.commit
    rw [hn] at habs
    rw [hm, hn]
    have hl' : absLog val r' = absLog val r := by unfold absLog; rw [hl]; rfl
    have hnl : r'.state ≠ .leader := by rw [hf.state]; intro hh; cases hh
    have hnc : r'.state ≠ .candidate := by rw [hf.state]; intro hh; cases hh
    exact {
      abs := habs
      st := hst'
      wf := by
        rw [hl]
        exact wf_commit hinv.wf (Nat.le_max_left _ _) (Nat.max_le.2 ⟨hinv.wf.committedLeLast, hle⟩)
      unc := by rw [hl]; exact hinv.unc.of_abs rfl rfl
      leadInv := fun hh => absurd hh hnl
      candVote := fun hh => absurd hh hnc
      termPos := fun hh => absurd hf.state hh
      logLe := by rw [hl', hf.term]; exact hinv.logLe
      candLt := fun hh => absurd hh hnc
      pend := hinv.pend
      durV := hinv.durV
      durA := hinv.durA
      out := by
        rw [hmsgs]
        intro x hx
        rcases List.mem_append.1 hx with hx | hx
        · exact hinv.out x hx
        · simp only [List.mem_singleton] at hx
          subst hx
          simp only [NetOK, hbRespMsg]
          exact ⟨by rw [← hterm]; exact ht0, hctx⟩
      prom := by rw [hmaa]; exact hinv.prom
      rvTerm := by rw [hf.term]; exact hinv.rvTerm
      rvCov := fun hh => absurd hh hnc
      votes := fun hh => absurd hh hnc
      selfVote := fun hh => absurd hh hnc
      matchO := fun hh => absurd hh hnl
      matchS := fun hh => absurd hh hnl }

/-! ### MsgHeartbeatResp -/

/-- **one `maybeSendAppend` of a leader** is simulated by at most one Spec `sendApp` -/
theorem sim_maybeSendAppend {val : Val} {voters : List Id} {n : Nat} {s : Spec.State} {r r' : Raft} {to : Id}
    {b res : Bool} (hinv : RaftInv val voters n r (s.nodes n) s.msgs) (hs : r.state = .leader)
    (h : (Raft.maybeSendAppend to b).run r = .ok (res, r')) : RaftSim val voters n s r' := by
  have hsf := (maybeSendAppend_sf to b r).elim h
  have hpk := (maybeSendAppend_pk to b r).elim h
  have hso := (maybeSendAppend_sendsOK val to b r hinv.wf hinv.unc).elim h
  have f : HbFrame r r' := HbFrame.of_sf hsf hpk hso.maa
  rcases maybeSendAppend_refine val to b r r' res hinv.wf hinv.unc h with hm | ⟨x, hm, hx⟩ | ⟨x, hm, _, _, hx⟩
  · exact RaftSim.refl (hinv.of_hbFrame f (by rw [hm]; exact hinv.out))
  · refine RaftSim.refl (hinv.of_hbFrame f ?_)
    rw [hm]; intro y hy
    rcases List.mem_append.1 hy with hy | hy
    · exact hinv.out y hy
    · simp only [List.mem_singleton] at hy; subst hy
      simp only [NetOK, hx]
  · obtain ⟨hen, hmsgs, hnodes⟩ := sendApp_abs val (cfgOf voters) hinv.abs hs hx
    refine ⟨[.sendApp n x.index x.entries.length x.commit], _, .single hen, by simp [Spec.Action.actor], ?_⟩
    rw [hmsgs, hnodes]
    have hinv1 : RaftInv val voters n r (s.nodes n) (absApp val x :: s.msgs) :=
      hinv.frame (fun y hy => List.mem_cons_of_mem _ hy) (by
        intro t lt li hy
        rcases List.mem_cons.1 hy with hy | hy
        · unfold absApp at hy; cases hy
        · exact hy)
    refine hinv1.of_hbFrame f ?_
    rw [hm]; intro y hy
    rcases List.mem_append.1 hy with hy | hy
    · exact hinv1.out y hy
    · rw [List.mem_singleton.1 hy]
      simp only [NetOK, hx.typ]
      refine ⟨?_, List.mem_cons_self, hx.contig, ?_⟩
      · rw [hx.term]; exact hinv.termPos (by rw [hs]; intro hh; cases hh)
      · intro e he
        have h1 : absEnt val e ∈ x.entries.map (absEnt val) := List.mem_map_of_mem he
        rw [hx.ents] at h1
        have h2 := hinv.logLe _ (List.mem_of_mem_drop (List.mem_of_mem_take h1))
        rw [hx.term]; exact h2

theorem hbResp_stepFollower_run (fuel : Nat) (m : Message) (r : Raft) (ht : m.typ = .heartbeatResp) :
    (Raft.stepFollower fuel m).run r = .ok (none, r) := by
  rw [Raft.stepFollower]
  simp only [ht, StateT.run_bind, StateT.run_get, P_pure_eq, P_ok_bind, StateT.run_pure]

theorem hbResp_stepCandidate_run (fuel : Nat) (m : Message) (r : Raft) (ht : m.typ = .heartbeatResp) :
    (Raft.stepCandidate fuel m).run r = .ok (none, r) := by
  rw [Raft.stepCandidate]
  by_cases hp : r.state = Role.preCandidate <;>
    simp [ht, hp, StateT.run_bind, StateT.run_get, P_pure_eq, P_ok_bind, StateT.run_pure]

/-- **`MsgHeartbeatResp` without a read-index context**: the sender is marked active and un-paused (`hbMid`);
then possibly one `maybeSendAppend(from, sendIfEmpty = true)` -/
theorem hbResp_stepLeader_inv (fuel : Nat) (m : Message) (r r' : Raft) (res : Option StepErr)
    (pr : Progress) (hm : m.typ = .heartbeatResp) (hctx : m.context = none)
    (hg : r.trk.getProgress m.from = some pr)
    (h : (Raft.stepLeader fuel m).run r = .ok (res, r')) :
    r' = hbMid r m pr ∨ ∃ b, (Raft.maybeSendAppend m.from true).run (hbMid r m pr) = .ok (b, r') := by
  have hc0 : m.ctxLen = 0 := by simp [Message.ctxLen, hctx]
  unfold Raft.stepLeader at h
  simp only [hm] at h
  obtain ⟨r0, r1, h1, hA⟩ := bind_ok h
  obtain ⟨e0, e1⟩ := get_ok h1; subst r0 r1
  split at hA
  case h_2 hnone => rw [hg] at hnone; cases hnone
  rename_i pr' hg'
  have epr : pr' = pr := by rw [hg] at hg'; injection hg' with hg'; exact hg'.symm
  subst pr'
  obtain ⟨pr'', r2, h2, hB⟩ := bind_ok hA
  obtain ⟨e0, e1⟩ := pure_ok h2; subst pr'' r2
  obtain ⟨u3, r3, h3, hC⟩ := bind_ok hB
  have e := setPr_ok h3; subst r3
  obtain ⟨r0, r4, h4, hD⟩ := bind_ok hC
  obtain ⟨e0, e1⟩ := get_ok h4; subst r0 r4
  split at hD
  · obtain ⟨u5, r5, h5, hE⟩ := bind_ok hD
    unfold Raft.sendAppend at h5
    obtain ⟨b, r6, h6, hF⟩ := bind_ok h5
    obtain ⟨_, e⟩ := pure_ok hF; subst r5
    split at hE
    · obtain ⟨_, e⟩ := pure_ok hE; subst e; exact Or.inr ⟨b, h6⟩
    · rename_i hc; simp [hc0] at hc
  · split at hD
    · obtain ⟨_, e⟩ := pure_ok hD; subst e; exact Or.inl rfl
    · rename_i hc; simp [hc0] at hc

/-- **MsgHeartbeatResp at the node's own term**: ignored by a non-leader and from an unknown peer; a leader
un-pauses the sender and possibly sends it one MsgApp (Spec `sendApp`) -/
theorem sim_hbResp_same {val : Val} {voters : List Id} {n : Nat} {s : Spec.State} {r r' : Raft} {m : Message}
    {e : Option StepErr} {fuel : Nat}
    (hinv : RaftInv val voters n r (s.nodes n) s.msgs) (hreach : Spec.Reachable (cfgOf voters) s)
    (ht : m.typ = .heartbeatResp) (hterm : m.term = r.term) (hin : NetOK val s.msgs m)
    (h : (Raft.step (fuel + 1) m).run r = .ok (e, r')) : RaftSim val voters n s r' := by
  have _ := hreach
  unfold NetOK at hin
  simp only [ht] at hin
  obtain ⟨_, hctx⟩ := hin
  have hign : ∀ {x : Option StepErr}, .ok (x, r) = (Except.ok (e, r') : Except String _) →
      RaftSim val voters n s r' := by
    intro x hx
    injection hx with hx; injection hx with _ hx; subst hx
    exact RaftSim.refl hinv
  by_cases hs : r.state = .leader
  · rw [step_leader_dispatch fuel m r hs (Or.inr hterm) (Or.inr (Or.inr (Or.inr (Or.inl ht))))] at h
    cases hg : r.trk.getProgress m.from with
    | none =>
      rw [stepLeader_noProgress_run fuel m r (Or.inr (Or.inr (Or.inl ht))) hg] at h
      exact hign h
    | some pr =>
      have f : HbFrame r (hbMid r m pr) :=
        ⟨rfl, rfl, rfl, rfl, rfl, rfl, rfl, rfl, rfl, rfl, rfl, rfl, PrM.setProgress r m.from pr _ hg rfl rfl⟩
      have hmid : RaftInv val voters n (hbMid r m pr) (s.nodes n) s.msgs := hinv.of_hbFrame f hinv.out
      rcases hbResp_stepLeader_inv fuel m r r' e pr ht hctx hg h with rfl | ⟨b, hb⟩
      · exact RaftSim.refl hmid
      · exact sim_maybeSendAppend hmid hs hb
  · rw [step_same_term_dispatch fuel m r (Or.inr hterm) (by rw [ht]; decide)] at h
    unfold dispatch at h
    cases hstt : r.state with
    | leader => exact absurd hstt hs
    | candidate => rw [hstt] at h; simp only at h; rw [hbResp_stepCandidate_run fuel m r ht] at h; exact hign h
    | preCandidate => rw [hstt] at h; simp only at h; rw [hbResp_stepCandidate_run fuel m r ht] at h; exact hign h
    | follower => rw [hstt] at h; simp only at h; rw [hbResp_stepFollower_run fuel m r ht] at h; exact hign h

/-! ### a leader's tick -/

theorem PrM.congr {r a b : Raft} (h : PrM r a) (e : b.trk = a.trk) : PrM r b := by
  intro id; rw [e]; exact h id

/-- the MsgHeartbeat `sendHeartbeat to none` queues -/
def hbMsgOut (r : Raft) (to : Id) (c : Nat) : Message :=
  { typ := .heartbeat, to := to, «from» := r.cfg.id, term := r.term, commit := c, context := none }

/-- `sendHeartbeat`, exactly -/
theorem sendHeartbeat_exact {r r' : Raft} {to : Id} (h : (Raft.sendHeartbeat to none).run r = .ok ((), r')) :
    ∃ pr, r.trk.getProgress to = some pr ∧
      r' = { r with msgs := r.msgs ++ [hbMsgOut r to (min pr.match_ r.log.committed)],
                    trk := r.trk.setProgress to { pr with sentCommit := min pr.match_ r.log.committed } } := by
  unfold Raft.sendHeartbeat at h
  obtain ⟨pr, r1, h1, hA⟩ := bind_ok h
  obtain ⟨e1, hg⟩ := getPr_ok h1; subst e1
  obtain ⟨r0, r2, h2, hB⟩ := bind_ok hA
  obtain ⟨e0, e2⟩ := get_ok h2; subst e0 e2
  obtain ⟨u3, r3, h3, hC⟩ := bind_ok hB
  have e4 := setPr_ok hC
  refine ⟨pr, hg, ?_⟩
  rcases (send_spec _ _).elim h3 with ⟨hp, _⟩ | ⟨_, e3⟩
  · simp [isPromise] at hp
  · subst e3
    rw [e4]
    simp [stamped, hbMsgOut]

/-- **one `sendHeartbeat` of a leader** to another node is Spec `sendHb` -/
theorem sim_sendHeartbeat {val : Val} {voters : List Id} {n : Nat} {s : Spec.State} {r r' : Raft} {to : Id}
    (hinv : RaftInv val voters n r (s.nodes n) s.msgs) (hs : r.state = .leader) (hto : to ≠ n)
    (h : (Raft.sendHeartbeat to none).run r = .ok ((), r')) :
    RaftSim val voters n s r' ∧ r'.state = .leader ∧ r'.cfg = r.cfg := by
  obtain ⟨pr, hg, rfl⟩ := sendHeartbeat_exact h
  refine ⟨?_, hs, rfl⟩
  generalize hc : min pr.match_ r.log.committed = c
  have hc1 : c ≤ pr.match_ := by rw [← hc]; exact Nat.min_le_left _ _
  have hc2 : c ≤ r.log.committed := by rw [← hc]; exact Nat.min_le_right _ _
  have hen : Spec.enabled (cfgOf voters) s (.sendHb n to c) := by
    refine ⟨by rw [hinv.abs.role, hs]; rfl, by rw [hinv.abs.commit]; exact hc2, ?_⟩
    by_cases h0 : c = 0
    · exact Or.inl h0
    · right
      rw [hinv.abs.term]
      exact hinv.matchO hs to pr c hto hg (Nat.pos_of_ne_zero h0) hc1
  refine ⟨[.sendHb n to c], _, .single hen, by simp [Spec.Action.actor], ?_⟩
  have hm : (Spec.apply s (.sendHb n to c)).msgs = Spec.Msg.hb r.term to c :: s.msgs := by
    show Spec.Msg.hb (s.nodes n).vol.term to c :: s.msgs = _
    rw [hinv.abs.term]
  have hn : (Spec.apply s (.sendHb n to c)).nodes = s.nodes := rfl
  rw [hm, hn]
  have hinv1 : RaftInv val voters n r (s.nodes n) (Spec.Msg.hb r.term to c :: s.msgs) :=
    hinv.frame (fun y hy => List.mem_cons_of_mem _ hy) (by
      intro t lt li hy
      rcases List.mem_cons.1 hy with hy | hy
      · cases hy
      · exact hy)
  have f : HbFrame r { r with msgs := r.msgs ++ [hbMsgOut r to c],
                              trk := r.trk.setProgress to { pr with sentCommit := c } } :=
    ⟨rfl, rfl, rfl, rfl, rfl, rfl, rfl, rfl, rfl, rfl, rfl, rfl,
     (PrM.setProgress r to pr { pr with sentCommit := c } hg rfl rfl).congr rfl⟩
  refine hinv1.of_hbFrame f ?_
  intro y hy
  rcases List.mem_append.1 hy with hy | hy
  · exact hinv1.out y hy
  · rw [List.mem_singleton.1 hy]
    simp only [NetOK, hbMsgOut]
    exact ⟨hinv.termPos (by rw [hs]; intro hh; cases hh), trivial, List.mem_cons_self⟩

/-- **a round of heartbeats** is one Spec `sendHb` per peer -/
theorem sim_bcastHeartbeat {val : Val} {voters : List Id} {n : Nat} {s : Spec.State} {r : Raft}
    (hinv : RaftInv val voters n r (s.nodes n) s.msgs) (hs : r.state = .leader) :
    Spec Raft.bcastHeartbeat r (fun _ r' => RaftSim val voters n s r') := by
  have hctx : r.readOnly.heartbeatCtx = none := by simp [ReadOnly.heartbeatCtx, hinv.st.ro]
  unfold Raft.bcastHeartbeat Raft.bcastHeartbeatWithCtx Raft.progressIds
  simp only [wp]
  rw [hctx]
  refine (Spec.forIn_list _ _ _ (fun _ r1 => RaftSim val voters n s r1 ∧ r1.state = .leader ∧ r1.cfg = r.cfg) r
    ⟨RaftSim.refl hinv, hs, rfl⟩ ?_).mono (fun _ _ h => h.1)
  intro id _ u mid ⟨hsim, hsl, hcfg⟩
  simp only [wp]
  refine ⟨fun hne => ?_, fun _ => ⟨hsim, hsl, hcfg⟩⟩
  have hidn : id ≠ n := by
    rw [← hinv.st.id]
    simpa using hne
  obtain ⟨as, s1, hrun, hact, hinv1⟩ := hsim
  rw [Spec.iff_runs]
  intro u' r2 hr2
  obtain ⟨h1, h2, h3⟩ := sim_sendHeartbeat hinv1 hsl hidn hr2
  exact ⟨RaftSim.trans hrun hact h1, h2, h3.trans hcfg⟩

theorem tick_leader_run (r : Raft) (hs : r.state = .leader) : Raft.tick.run r = Raft.tickHeartbeat.run r := by
  unfold Raft.tick
  simp [StateT.run_bind, StateT.run_get, P_pure_eq, P_ok_bind, hs]

/-- **`tickHeartbeat` of a leader without a leadership transfer**: the timers advance (`ra`); with CheckQuorum, when
the election timeout has elapsed, either the leader steps down (`becomeFollower` of the same term; then every peer is
marked inactive) or every peer is marked inactive (`rb = clearRA ra`); a leader then possibly steps a `MsgBeat` -/
theorem tickHeartbeat_leader_inv (r r' : Raft) (hs : r.state = .leader)
    (hx : r.leadTransferee = 0) (h : Raft.tickHeartbeat.run r = .ok ((), r')) :
    ∃ ra, (∃ he ee, ra = { r with heartbeatElapsed := he, electionElapsed := ee }) ∧
      ((∃ rb, (rb = ra ∨ rb = clearRA ra) ∧
        (r' = rb ∨ ∃ res, (Raft.stepLeader 2 { «from» := rb.cfg.id, typ := .beat }).run rb = .ok (res, r'))) ∨
       (∃ r1, (Raft.becomeFollower ra.term 0).run ra = .ok ((), r1) ∧ r' = clearRA r1)) := by
  unfold Raft.tickHeartbeat at h
  obtain ⟨u0, r0, h0, hA⟩ := bind_ok h
  have e := modify_ok h0; subst r0
  obtain ⟨r0, r1, h1, hB⟩ := bind_ok hA
  obtain ⟨e0, e1⟩ := get_ok h1; subst r0 r1
  extract_lets jTail jMid at hB
  have hTailL : ∀ (x : Unit) (ra : Raft), ra.state = .leader → (jTail x).run ra = .ok ((), r') →
      (r' = ra ∨ ∃ res, (Raft.stepLeader 2 { «from» := ra.cfg.id, typ := .beat }).run
        { ra with heartbeatElapsed := 0 } = .ok (res, r')) := by
    intro x ra hsa hx
    simp only [jTail] at hx
    obtain ⟨r0, r6, h6, hH⟩ := bind_ok hx
    obtain ⟨e0, e1⟩ := get_ok h6; subst r0 r6
    rw [if_neg (by simp [hsa])] at hH
    obtain ⟨r0, r7, h7, hI⟩ := bind_ok hH
    obtain ⟨e0, e1⟩ := get_ok h7; subst r0 r7
    split at hI
    · obtain ⟨u8, r8, h8, hJ⟩ := bind_ok hI
      have e := modify_ok h8; subst r8
      obtain ⟨y, r9, h9, hK⟩ := bind_ok hJ
      obtain ⟨_, e⟩ := pure_ok hK; subst r9
      have h9' := (step_leader_dispatch 2 { «from» := ra.cfg.id, typ := .beat } { ra with heartbeatElapsed := 0 }
        hsa (Or.inl rfl) (Or.inr (Or.inl rfl))).symm.trans h9
      exact Or.inr ⟨y, h9'⟩
    · obtain ⟨_, e⟩ := pure_ok hI; subst e
      exact Or.inl rfl
  have hMidL : ∀ (x : Unit) (ra : Raft), ra.state = .leader → ra.leadTransferee = 0 →
      (jMid x).run ra = .ok ((), r') →
      (r' = ra ∨ ∃ res, (Raft.stepLeader 2 { «from» := ra.cfg.id, typ := .beat }).run
        { ra with heartbeatElapsed := 0 } = .ok (res, r')) := by
    intro x ra hsa hz hx
    simp only [jMid] at hx
    obtain ⟨r0, r5, h5, hG⟩ := bind_ok hx
    obtain ⟨e0, e1⟩ := get_ok h5; subst r0 r5
    split at hG
    · rename_i hc; simp [hsa, hz] at hc
    · exact hTailL () _ hsa hG
  split at hB
  · obtain ⟨u2, r2, h2, hC⟩ := bind_ok hB
    have e := modify_ok h2; subst r2
    split at hC
    · obtain ⟨y, r3, h3, hD⟩ := bind_ok hC
      have h3' := (step_leader_dispatch 2 { «from» := r.cfg.id, typ := .checkQuorum }
        { r with heartbeatElapsed := r.heartbeatElapsed + 1, electionElapsed := 0 }
        hs (Or.inl rfl) (Or.inl rfl)).symm.trans h3
      rw [stepLeader_checkQuorum_run _ _ _ rfl] at h3'
      split at h3'
      · injection h3' with h3'; injection h3' with _ h3'; subst h3'
        rcases hMidL () _ (by exact hs) (by exact hx) hD with h | ⟨res, h⟩
        · exact ⟨{ r with heartbeatElapsed := r.heartbeatElapsed + 1, electionElapsed := 0 }, ⟨_, _, rfl⟩,
            Or.inl ⟨_, Or.inr rfl, Or.inl h⟩⟩
        · exact ⟨{ r with heartbeatElapsed := 0, electionElapsed := 0 }, ⟨_, _, rfl⟩,
            Or.inl ⟨_, Or.inr rfl, Or.inr ⟨res, h⟩⟩⟩
      · cases hb : (Raft.becomeFollower r.term 0).run
            { r with heartbeatElapsed := r.heartbeatElapsed + 1, electionElapsed := 0 } with
        | error e => rw [hb] at h3'; cases h3'
        | ok p =>
          rw [hb] at h3'
          obtain ⟨u, r1⟩ := p
          injection h3' with h3'; injection h3' with _ h3'; subst h3'
          have hf : r1.state = .follower := ((becomeFollower_live r.term 0 _).elim hb).2.2.2.1
          refine ⟨{ r with heartbeatElapsed := r.heartbeatElapsed + 1, electionElapsed := 0 }, ⟨_, _, rfl⟩,
            Or.inr ⟨r1, hb, ?_⟩⟩
          simp only [jMid] at hD
          obtain ⟨r0, r5, h5, hG⟩ := bind_ok hD
          obtain ⟨e0, e1⟩ := get_ok h5; subst r0 r5
          have hcs : (clearRA r1).state = .follower := hf
          rw [if_neg (by simp [hcs])] at hG
          simp only [jTail] at hG
          obtain ⟨r0, r6, h6, hH⟩ := bind_ok hG
          obtain ⟨e0, e1⟩ := get_ok h6; subst r0 r6
          rw [if_pos (by simp [hcs])] at hH
          obtain ⟨_, e⟩ := pure_ok hH
          exact e
    · rcases hMidL () _ (by exact hs) (by exact hx) hC with h | ⟨res, h⟩
      · exact ⟨_, ⟨_, _, rfl⟩, Or.inl ⟨_, Or.inl rfl, Or.inl h⟩⟩
      · exact ⟨_, ⟨_, _, rfl⟩, Or.inl ⟨_, Or.inl rfl, Or.inr ⟨res, h⟩⟩⟩
  · rcases hTailL () _ (by exact hs) hB with h | ⟨res, h⟩
    · exact ⟨_, ⟨_, _, rfl⟩, Or.inl ⟨_, Or.inl rfl, Or.inl h⟩⟩
    · exact ⟨_, ⟨_, _, rfl⟩, Or.inl ⟨_, Or.inl rfl, Or.inr ⟨res, h⟩⟩⟩

theorem stepLeader_beat_bcast (fuel : Nat) (m : Message) (r r' : Raft) (res : Option StepErr)
    (hm : m.typ = .beat) (h : (Raft.stepLeader fuel m).run r = .ok (res, r')) :
    ∃ u, Raft.bcastHeartbeat.run r = .ok (u, r') := by
  unfold Raft.stepLeader at h
  simp only [hm] at h
  obtain ⟨u1, r1, h1, hA⟩ := bind_ok h
  obtain ⟨_, e⟩ := pure_ok hA; subst e
  exact ⟨u1, h1⟩

/-- marking the peers inactive (`recentActive`) is invisible to the invariant -/
theorem RaftInv.clearRA {val : Val} {voters : List Id} {n : Nat} {r : Raft} {nd : Spec.Node}
    {msgs : List Spec.Msg} (hinv : RaftInv val voters n r nd msgs) :
    RaftInv val voters n (clearRA r) nd msgs := by
  have hg := getProgress_clearRA r
  have hm : ∀ v pr, (Live.clearRA r).trk.getProgress v = some pr →
      ∃ pr0, r.trk.getProgress v = some pr0 ∧ pr.match_ = pr0.match_ ∧ pr.isLearner = pr0.isLearner := by
    intro v pr hp
    rw [hg] at hp
    cases hq : r.trk.getProgress v with
    | none => rw [hq] at hp; cases hp
    | some pr0 =>
      rw [hq] at hp
      injection hp with hp
      subst hp
      refine ⟨pr0, rfl, ?_, ?_⟩ <;> split <;> rfl
  exact {
    abs := hinv.abs.congr rfl rfl rfl rfl
    st := {
      id := hinv.st.id, idnz := hinv.st.idnz, pv := hinv.st.pv, xfer := hinv.st.xfer
      pri := hinv.st.pri, ro := hinv.st.ro, tvoters := hinv.st.tvoters, tout := hinv.st.tout
      tauto := hinv.st.tauto
      prog := fun v => by rw [hg, Option.isSome_map]; exact hinv.st.prog v
      nolearn := fun v pr hpr => by
        obtain ⟨pr0, h0, _, h2⟩ := hm v pr hpr
        rw [h2]; exact hinv.st.nolearn v pr0 h0
      self := hinv.st.self }
    wf := hinv.wf
    unc := hinv.unc
    leadInv := hinv.leadInv
    candVote := hinv.candVote
    termPos := hinv.termPos
    logLe := hinv.logLe
    candLt := hinv.candLt
    pend := hinv.pend
    durV := hinv.durV
    durA := hinv.durA
    out := hinv.out
    prom := hinv.prom
    rvTerm := hinv.rvTerm
    rvCov := hinv.rvCov
    votes := hinv.votes
    selfVote := hinv.selfVote
    matchO := fun hl v pr c hv hp h0 hc => by
      obtain ⟨pr0, h1, h2, _⟩ := hm v pr hp
      exact hinv.matchO hl v pr0 c hv h1 h0 (h2 ▸ hc)
    matchS := fun hl pr c hp hc ht => by
      obtain ⟨pr0, h1, h2, _⟩ := hm n pr hp
      exact hinv.matchS hl pr0 c h1 (h2 ▸ hc) ht }

/-- **tick of a leader** (`tickHeartbeat`): the timers advance; when the heartbeat timeout fires, one Spec
`sendHb` per peer -/
theorem sim_tick_leader {val : Val} {voters : List Id} {n : Nat} {s : Spec.State} {r r' : Raft}
    (hinv : RaftInv val voters n r (s.nodes n) s.msgs) (hreach : Spec.Reachable (cfgOf voters) s)
    (hs : r.state = .leader) (h : Raft.tick.run r = .ok ((), r')) : RaftSim val voters n s r' := by
  have _ := hreach
  rw [tick_leader_run r hs] at h
  obtain ⟨ra, ⟨he, ee, rfl⟩, hcase⟩ := tickHeartbeat_leader_inv r r' hs hinv.st.xfer h
  have hra : RaftInv val voters n { r with heartbeatElapsed := he, electionElapsed := ee } (s.nodes n) s.msgs :=
    hinv.congr rfl rfl rfl rfl rfl rfl rfl rfl rfl rfl rfl rfl
  rcases hcase with ⟨rb, hrb, hcase⟩ | ⟨r1, hbf, rfl⟩
  · have hrb' : RaftInv val voters n rb (s.nodes n) s.msgs ∧ rb.state = .leader := by
      rcases hrb with rfl | rfl
      · exact ⟨hra, hs⟩
      · exact ⟨hra.clearRA, hs⟩
    rcases hcase with rfl | ⟨res, hb⟩
    · exact RaftSim.refl hrb'.1
    · obtain ⟨u, hu⟩ := stepLeader_beat_bcast _ _ _ _ _ rfl hb
      exact (sim_bcastHeartbeat hrb'.1 hrb'.2).elim hu
  · obtain ⟨s1, hrun, _, _, hinv1, _⟩ := sim_stepDown hra hbf
    exact RaftSim.trans hrun (by simp [Spec.Action.actor]) (RaftSim.refl hinv1.clearRA)

end RaftVerif.Sim
