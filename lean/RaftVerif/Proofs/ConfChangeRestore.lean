import RaftVerif.Proofs.ConfChangeViews
/-!
# Proofs/ConfChangeRestore — `restoreConf` as folds (`restore_eq`), single accepted `simple` steps on
the states `Restore` goes through, and the two `simple`-driven phases (add voters, add learners)
-/
namespace RaftVerif
set_option linter.unusedSimpArgs false
set_option linter.unusedVariables false

/-- the changer `Restore` continues with after an accepted step -/
def chgWith (c : Changer) (r : CS) : Changer :=
  { c with tracker := { c.tracker with cfg := r.1, progress := r.2 } }

def simpleStep (chg : Changer) (cc : ConfChangeSingle) : CE Changer :=
  chg.simple [cc] >>= fun r => pure (chgWith chg r)

def simpleFold (chg : Changer) (ccs : List ConfChangeSingle) : CE Changer := ccs.foldlM simpleStep chg

theorem forIn_eq_foldlM_of {α σ : Type} (l : List α) (step : σ → α → CE σ) (init : σ)
    (body : α → σ → CE (ForInStep σ))
    (h : ∀ a s, body a s = (step s a >>= fun s' => pure (ForInStep.yield s'))) :
    forIn l init body = l.foldlM step init := by
  induction l generalizing init with
  | nil => rfl
  | cons a t ih =>
    rw [List.forIn_cons, List.foldlM_cons, h]
    cases step init a with
    | error e => rfl
    | ok s' => simp only [ok_bind, pure_eq]; exact ih s'

theorem restore_eq (c : Changer) (cs : ConfState) :
    restoreConf c cs =
      if cs.votersOutgoing = [] then
        simpleFold c (cs.votersOutgoing.map (mkCC .removeNode) ++ cs.voters.map (mkCC .addNode) ++
            cs.learners.map (mkCC .addLearnerNode) ++ cs.learnersNext.map (mkCC .addLearnerNode)) >>=
          fun chg => pure (chg.tracker.cfg, chg.tracker.progress)
      else
        simpleFold c (cs.votersOutgoing.map (mkCC .addNode)) >>= fun chg =>
          chg.enterJoint cs.autoLeave
            (cs.votersOutgoing.map (mkCC .removeNode) ++ cs.voters.map (mkCC .addNode) ++
              cs.learners.map (mkCC .addLearnerNode) ++ cs.learnersNext.map (mkCC .addLearnerNode)) := by
  unfold restoreConf
  simp only []
  have e1 : (fun id : Id => ({ typ := .removeNode, nodeId := id } : ConfChangeSingle)) = mkCC .removeNode := rfl
  have e2 : (fun id : Id => ({ nodeId := id } : ConfChangeSingle)) = mkCC .addNode := rfl
  have e3 : (fun id : Id => ({ typ := .addLearnerNode, nodeId := id } : ConfChangeSingle)) =
      mkCC .addLearnerNode := rfl
  simp only [e1, e2, e3]
  have hbody : ∀ (a : ConfChangeSingle) (s : Changer),
      (do let __x ← s.simple [a]
          match __x with
          | (cfg, trk) =>
            pure (ForInStep.yield
              ({ s with tracker := { s.tracker with cfg := cfg, progress := trk } } : Changer))) =
      (simpleStep s a >>= fun s' => pure (ForInStep.yield s')) := by
    intro a s
    unfold simpleStep
    cases s.simple [a] with
    | error e => rfl
    | ok r => rfl
  by_cases h : cs.votersOutgoing = []
  · rw [if_pos h, if_pos (by simp [h])]
    rw [forIn_eq_foldlM_of _ simpleStep _ _ hbody]
    rfl
  · rw [if_neg h, if_neg (by simp [h])]
    rw [forIn_eq_foldlM_of _ simpleStep _ _ hbody]
    unfold simpleFold
    cases List.foldlM simpleStep c (List.map (mkCC ConfChangeType.addNode) cs.votersOutgoing) with
    | error e => rfl
    | ok chg =>
      simp only [ok_bind]
      cases chg.enterJoint cs.autoLeave _ with
      | error e => rfl
      | ok r => rfl
/-! ### one accepted `simple [cc]` step on a non-joint state -/

/-- invariant of the changer between the `simple` calls of `Restore` -/
structure RInv (chg : Changer) : Prop where
  rsem : RSem chg.tracker.cfg chg.tracker.progress
  wf : ConfWF chg.tracker.cfg
  ks : Sorted (keys chg.tracker.progress)
  nj : chg.tracker.cfg.outgoing = none

theorem clone_eq_self {cfg : TrackerConfig} (h : cfg.autoLeave = false) : cfg.clone = cfg := by
  cases cfg; simp_all [TrackerConfig.clone]

theorem RInv.autoLeave {chg : Changer} (h : RInv chg) : chg.tracker.cfg.autoLeave = false :=
  (h.rsem.sem.nonJoint (by rw [h.nj]; rfl)).2.2

theorem applyStep_rsem (c : Changer) (s : CS) (cc : ConfChangeSingle) (h : RSem s.1 s.2) :
    RSem (applyStep c s cc).1 (applyStep c s cc).2 :=
  applyStep_cases c s cc (fun r => RSem r.1 r.2) h (fun _ => op_rsem c s.1 s.2 cc.nodeId h)

theorem simple_single (chg : Changer) (cc : ConfChangeSingle) (h : RInv chg)
    (hv : (applyStep chg (chg.tracker.cfg, chg.tracker.progress) cc).1.voters ≠ [])
    (hsd : symdiff chg.tracker.cfg.voters
      (applyStep chg (chg.tracker.cfg, chg.tracker.progress) cc).1.voters ≤ 1) :
    simpleStep chg cc = .ok (chgWith chg (applyStep chg (chg.tracker.cfg, chg.tracker.progress) cc)) ∧
    RInv (chgWith chg (applyStep chg (chg.tracker.cfg, chg.tracker.progress) cc)) := by
  have hcl := clone_eq_self h.autoLeave
  have hsem := applyStep_sem chg (chg.tracker.cfg, chg.tracker.progress) cc h.rsem.sem
  have hok : chg.simple [cc] = .ok (applyStep chg (chg.tracker.cfg, chg.tracker.progress) cc) := by
    rw [simple_ok_iff, hcl]
    refine ⟨(checkInvariants_ok_iff _ _).mpr ((semInv_iff _ _).mp h.rsem.sem).1, ?_, rfl, hv, hsd,
      (checkInvariants_ok_iff _ _).mpr ((semInv_iff _ _).mp hsem).1⟩
    rw [joint_eq_false_iff, h.nj]; rfl
  refine ⟨by unfold simpleStep; rw [hok]; rfl, ?_⟩
  have hwf := applyStep_wf chg (chg.tracker.cfg, chg.tracker.progress) cc ⟨h.wf, h.ks⟩
  exact ⟨applyStep_rsem chg _ cc h.rsem, hwf.1, hwf.2,
    (applyStep_outgoing chg (chg.tracker.cfg, chg.tracker.progress) cc).1.trans h.nj⟩

theorem simpleFold_cons (chg : Changer) (cc : ConfChangeSingle) (ccs : List ConfChangeSingle) :
    simpleFold chg (cc :: ccs) = simpleStep chg cc >>= fun c' => simpleFold c' ccs := by
  unfold simpleFold; rw [List.foldlM_cons]

theorem simpleFold_append (chg : Changer) (l1 l2 : List ConfChangeSingle) :
    simpleFold chg (l1 ++ l2) = simpleFold chg l1 >>= fun c' => simpleFold c' l2 := by
  unfold simpleFold; rw [List.foldlM_append]

theorem countP_beq_le_one {l : List Id} (h : l.Nodup) (a : Id) : l.countP (fun x => x == a) ≤ 1 := by
  have := List.nodup_iff_count.mp h a
  rw [List.count_eq_countP] at this
  exact this

theorem symdiff_setInsert {l : List Id} (h : Sorted l) (a : Id) : symdiff l (setInsert a l) ≤ 1 := by
  unfold symdiff
  have h1 : l.countP (fun id => !(setInsert a l).contains id) = 0 := by
    rw [List.countP_eq_zero]
    intro x hx
    have : x ∈ setInsert a l := mem_setInsert.mpr (Or.inr hx)
    simp [this]
  have h2 : (setInsert a l).countP (fun id => !l.contains id) ≤ (setInsert a l).countP (fun x => x == a) := by
    apply List.countP_mono_left
    intro x hx hnx
    rcases mem_setInsert.mp hx with e | hm
    · simp [e]
    · simp [hm] at hnx
  have h3 := countP_beq_le_one (sorted_setInsert (a := a) h).nodup a
  omega

theorem makeVoter_voters (c : Changer) (cfg : TrackerConfig) (trk : ProgressMap) (id : Id) :
    (c.makeVoter cfg trk id).1.voters = setInsert id cfg.voters := by
  cases hg : mapGet trk id with
  | none => rw [makeVoter_none c hg]
  | some pr => rw [makeVoter_some c hg]

/-! ### phases of `Restore` carried out by repeated `simple` -/

theorem simpleFold_adds (l : List Id) (chg : Changer) (h : RInv chg) (hz : ∀ id ∈ l, id ≠ 0) :
    ∃ chg', simpleFold chg (l.map (mkCC .addNode)) = .ok chg' ∧ RInv chg' ∧
      ∀ x, (x ∈ chg'.tracker.cfg.voters ↔ x ∈ l ∨ x ∈ chg.tracker.cfg.voters) ∧
        (x ∈ chg'.tracker.cfg.learners.getD [] ↔ x ∈ chg.tracker.cfg.learners.getD [] ∧ x ∉ l) ∧
        (x ∈ chg'.tracker.cfg.learnersNext.getD [] ↔ x ∈ chg.tracker.cfg.learnersNext.getD [] ∧ x ∉ l) := by
  induction l generalizing chg with
  | nil => exact ⟨chg, rfl, h, fun x => by simp⟩
  | cons a t ih =>
    have ha : a ≠ 0 := hz a (by simp)
    have hstep := applyStep_add chg (chg.tracker.cfg, chg.tracker.progress) ha
    have hvot := makeVoter_voters chg chg.tracker.cfg chg.tracker.progress a
    obtain ⟨h1, h2⟩ := simple_single chg (mkCC .addNode a) h
      (by rw [hstep, hvot]; exact setInsert_ne_nil _ _)
      (by rw [hstep, hvot]; exact symdiff_setInsert h.wf.voters a)
    obtain ⟨chg', i1, i2, i3⟩ := ih _ h2 (fun id hid => hz id (List.mem_cons_of_mem _ hid))
    refine ⟨chg', ?_, i2, fun x => ?_⟩
    · rw [List.map_cons, simpleFold_cons, h1]; exact i1
    · have v := makeVoter_view chg a h.rsem x
      have := i3 x
      simp only [chgWith, hstep] at this
      simp only [List.mem_cons]
      grind

theorem simpleFold_learners (l : List Id) (chg : Changer) (h : RInv chg) (hz : ∀ id ∈ l, id ≠ 0)
    (hv : chg.tracker.cfg.voters ≠ []) (hd : ∀ id ∈ l, id ∉ chg.tracker.cfg.voters) :
    ∃ chg', simpleFold chg (l.map (mkCC .addLearnerNode)) = .ok chg' ∧ RInv chg' ∧
      chg'.tracker.cfg.voters = chg.tracker.cfg.voters ∧
      ∀ x, (x ∈ chg'.tracker.cfg.learners.getD [] ↔ x ∈ l ∨ x ∈ chg.tracker.cfg.learners.getD []) ∧
        (x ∈ chg'.tracker.cfg.learnersNext.getD [] ↔ x ∈ chg.tracker.cfg.learnersNext.getD []) := by
  induction l generalizing chg with
  | nil => exact ⟨chg, rfl, h, rfl, fun x => by simp⟩
  | cons a t ih =>
    have ha : a ≠ 0 := hz a (by simp)
    have hstep := applyStep_learner chg (chg.tracker.cfg, chg.tracker.progress) ha
    have hno : a ∉ chg.tracker.cfg.outgoing.getD [] := by rw [h.nj]; simp
    have hwf := (makeLearner_wf chg chg.tracker.cfg chg.tracker.progress a h.wf h.ks).1
    have hvot : (chg.makeLearner chg.tracker.cfg chg.tracker.progress a).1.voters = chg.tracker.cfg.voters := by
      apply sorted_ext hwf.voters h.wf.voters
      intro x
      rw [(makeLearner_view_not_out chg a h.rsem hno x).1]
      constructor
      · exact fun hx => hx.1
      · intro hx; exact ⟨hx, fun e => hd a (by simp) (e ▸ hx)⟩
    obtain ⟨h1, h2⟩ := simple_single chg (mkCC .addLearnerNode a) h
      (by rw [hstep, hvot]; exact hv)
      (by rw [hstep, hvot, symdiff_self]; omega)
    obtain ⟨chg', i1, i2, i3, i4⟩ := ih _ h2 (fun id hid => hz id (List.mem_cons_of_mem _ hid))
      (by simp only [chgWith, hstep, hvot]; exact hv)
      (by simp only [chgWith, hstep, hvot]; exact fun id hid => hd id (List.mem_cons_of_mem _ hid))
    refine ⟨chg', ?_, i2, ?_, fun x => ?_⟩
    · rw [List.map_cons, simpleFold_cons, h1]; exact i1
    · rw [i3]; simp only [chgWith, hstep, hvot]
    · have v := makeLearner_view_not_out chg a h.rsem hno x
      have := i4 x
      simp only [chgWith, hstep] at this
      simp only [List.mem_cons]
      grind

end RaftVerif
