import Lean.Meta.Tactic.Simp.RegisterCommand
/-!
# Proofs/NoPanicAttr — the `np` simp set (no-panic rewriting for the model's state monad)
-/
/-- rewriting rules for `C14.NoErr` -/
register_simp_attr np
