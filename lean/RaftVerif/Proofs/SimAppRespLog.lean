import RaftVerif.Proofs.SimAppRespAux
import RaftVerif.Proofs.SimLog
/-!
# Proofs/SimAppRespLog — a same-term MsgAppResp leaves `unstable` alone (`Settled` is kept)
-/
namespace RaftVerif.Sim
open Refine
open Raft

/-- a same-term MsgAppResp only moves `log.committed`: `unstable` is what it was -/
theorem unstable_appResp_same {val : Val} {voters : List Id} {n : Nat} {s : Spec.State} {r r' : Raft} {m : Message}
    {e : Option StepErr} {fuel : Nat} (hinv : RaftInv val voters n r (s.nodes n) s.msgs)
    (ht : m.typ = .appResp) (hterm : m.term = r.term)
    (h : (Raft.step (fuel + 1) m).run r = .ok (e, r')) : r'.log.unstable = r.log.unstable := by
  by_cases hl : r.state = .leader
  · rw [Live.step_leader_dispatch fuel m r hl (Or.inr hterm) (Or.inr (Or.inr (Or.inl ht)))] at h
    cases hg : r.trk.getProgress m.from with
    | none =>
      rw [Live.stepLeader_noProgress_run fuel m r (Or.inr (Or.inr (Or.inr (Or.inl ht)))) hg] at h
      injection h with h; injection h with _ h; subst h
      rfl
    | some pr =>
      obtain ⟨X, a, _, ha, hs⟩ := appResp_leader_shape val hinv.wf hinv.unc hinv.st.pri ht hg h
      have ha1 : a.log.unstable = r.log.unstable := by
        rcases ha with rfl | ⟨idx, rfl⟩ <;> rfl
      rw [hs.sf.log, ha1]
  · rw [step_appResp_nonleader_run fuel m r ht hterm hl] at h
    injection h with h; injection h with _ h; subst h
    rfl

theorem settled_appResp_same {val : Val} {voters : List Id} {n : Nat} {s : Spec.State} {r r' : Raft} {m : Message}
    {e : Option StepErr} {fuel : Nat} (hinv : RaftInv val voters n r (s.nodes n) s.msgs) (hs : Settled r)
    (ht : m.typ = .appResp) (hterm : m.term = r.term)
    (h : (Raft.step (fuel + 1) m).run r = .ok (e, r')) : Settled r' :=
  hs.congr (unstable_appResp_same hinv ht hterm h)

end RaftVerif.Sim
