import RaftVerif.Proofs.LiveLeader
/-!
# Proofs/LiveAppResp — `stepLeader` on `MsgAppResp` (C15)

* rejecting response: exact run equation (`stepLeader_appResp_reject_run`);
* acknowledging response: the progress transformation (`ackTransition`) that is installed before the
  commit / send tail, and the frame `PrKeep` of that tail (`stepLeader_appResp_ack_inv`).
-/
namespace RaftVerif.Live
open Raft
set_option linter.unusedSimpArgs false

/-! ### rejection -/

/-- the probe index computed from a rejection (raft.go:1485-1495) -/
def probeHint (r : Raft) (m : Message) : Nat :=
  if m.logTerm > 0 then (r.log.findConflictByTerm m.rejectHint m.logTerm).1 else m.rejectHint

/-- progress installed by a rejecting `MsgAppResp` that `MaybeDecrTo` accepted -/
def afterReject (pr : Progress) (idx hint : Nat) : Progress :=
  if ((({ pr with recentActive := true } : Progress).maybeDecrTo idx hint).1.state == .replicate) = true then
    (({ pr with recentActive := true } : Progress).maybeDecrTo idx hint).1.becomeProbe
  else (({ pr with recentActive := true } : Progress).maybeDecrTo idx hint).1

theorem stepLeader_appResp_reject_run (fuel : Nat) (m : Message) (r : Raft) (pr : Progress)
    (hm : m.typ = .appResp) (hg : r.trk.getProgress m.from = some pr) (hrej : m.reject = true) :
    (stepLeader fuel m).run r =
      if (({ pr with recentActive := true } : Progress).maybeDecrTo m.index (probeHint r m)).2 = true then
        (maybeSendAppend m.from true).run
          { r with trk := r.trk.setProgress m.from (afterReject pr m.index (probeHint r m)) } >>=
          fun p => .ok (none, p.2)
      else .ok (none, { r with trk := r.trk.setProgress m.from { pr with recentActive := true } }) := by
  unfold stepLeader
  simp only [hm, StateT.run_bind, StateT.run_get, P_pure_eq, P_ok_bind, hg, StateT.run_pure, setPr_run, hrej,
    ↓reduceIte]
  have hh : (if m.logTerm > 0 then (r.log.findConflictByTerm m.rejectHint m.logTerm).fst else m.rejectHint) =
      probeHint r m := rfl
  simp only [hh]
  unfold afterReject
  by_cases hd : (({ pr with recentActive := true } : Progress).maybeDecrTo m.index (probeHint r m)).2 = true
  · rw [if_pos hd, if_pos hd]
    simp only [StateT.run_bind, setPr_run, P_ok_bind, sendAppend, StateT.run_pure, P_pure_eq,
      setProgress_setProgress]
    generalize (maybeSendAppend m.from true).run _ = x
    cases x <;> rfl
  · rw [if_neg hd, if_neg hd]
    rfl

/-! ### acknowledgement -/

/-- progress installed by an acknowledging `MsgAppResp` before the commit / send tail
(raft.go:1533-1548); `fi` is the leader's `firstIndex`, `idx` the acknowledged index -/
def ackTransition (pr : Progress) (fi idx : Nat) : Progress :=
  if pr.state == .probe then pr.becomeReplicate
  else if pr.state == .snapshot && pr.match_ + 1 ≥ fi then pr.becomeProbe.becomeReplicate
  else if pr.state == .replicate then { pr with inflights := pr.inflights.freeLE idx }
  else pr

theorem pk_step_and {cur mid r' : Raft} {P : Prop} (h1 : PrKeep cur mid) (h2 : P ∧ PrKeep mid r') :
    P ∧ PrKeep cur r' := ⟨h2.1, h1.trans h2.2⟩

theorem sendTimeoutNow_pk (to : Id) (s : Raft) : Spec (sendTimeoutNow to) s (fun _ s' => PrKeep s s') := by
  unfold sendTimeoutNow
  exact send_pk _ _

theorem sendAppend_pk (to : Id) (s : Raft) : Spec (sendAppend to) s (fun _ s' => PrKeep s s') := by
  unfold sendAppend
  rel_start
  wp_auto [pk_step]

/-- the common tail of the `MsgAppResp` handler: maybe tell the transferee to campaign -/
macro "pk_tl1 " h:ident : tactic => `(tactic| (
  obtain ⟨_, _, hq1, hq2⟩ := bind_ok $h
  obtain ⟨eq0, eq1⟩ := get_ok hq1; subst eq0 eq1
  obtain ⟨_, _, hq3, hq4⟩ := bind_ok hq2
  obtain ⟨eq2, _⟩ := getPr_ok hq3; subst eq2
  split at hq4
  · obtain ⟨_, _, hq5, hq6⟩ := bind_ok hq4
    obtain ⟨eq3a, eq3⟩ := pure_ok hq6; subst eq3
    exact ⟨eq3a, (sendTimeoutNow_pk _ _).elim hq5⟩
  · obtain ⟨eq3a, eq3⟩ := pure_ok hq4; subst eq3; exact ⟨eq3a, PrKeep.refl _⟩))

/-- `for maybeSendAppend {}` followed by `pk_tl1`, or just `pk_tl1` -/
macro "pk_tl2 " h:ident : tactic => `(tactic| (
  split at $h:ident
  · obtain ⟨_, _, hp1, hp2⟩ := bind_ok $h
    obtain ⟨ep0, ep1⟩ := get_ok hp1; subst ep0 ep1
    obtain ⟨_, _, hp3, hp4⟩ := bind_ok hp2
    refine pk_step_and ((sendAppendLoop_pk _ _ _).elim hp3) ?_
    pk_tl1 hp4
  · pk_tl1 $h))

/-- the sender's progress after it was marked active and `MaybeUpdate(idx)` ran, with the "updated" flag -/
def ackUpd (pr : Progress) (idx : Nat) : Progress × Bool :=
  ({ pr with recentActive := true } : Progress).maybeUpdate idx

/-- the condition under which the acknowledgement is processed further (raft.go:1533) -/
def ackCond (pr : Progress) (idx : Nat) : Prop :=
  (ackUpd pr idx).2 = true ∨ ((ackUpd pr idx).1.match_ = idx ∧ (ackUpd pr idx).1.state = .probe)

instance (pr : Progress) (idx : Nat) : Decidable (ackCond pr idx) := by unfold ackCond; infer_instance

/-- the state in which the commit / send tail of the handler starts -/
def ackMid (r : Raft) (m : Message) (pr : Progress) : Raft :=
  { r with trk := r.trk.setProgress m.from (ackTransition (ackUpd pr m.index).1 r.log.firstIndex m.index) }

/-- the final state when the acknowledgement brings nothing new -/
def ackSkip (r : Raft) (m : Message) (pr : Progress) : Raft :=
  { r with trk := r.trk.setProgress m.from (ackUpd pr m.index).1 }

def ackMid3 (r : Raft) (m : Message) (pr : Progress) : Raft :=
  { r with
    trk :=
      Tracker.setProgress
        (Tracker.setProgress (r.trk.setProgress m.from { pr with recentActive := true }) m.from (ackUpd pr m.index).1)
        m.from (ackTransition (ackUpd pr m.index).1 r.log.firstIndex m.index) }

theorem ackMid3_eq (r : Raft) (m : Message) (pr : Progress) : ackMid3 r m pr = ackMid r m pr := by
  simp only [ackMid3, ackMid, setProgress_setProgress]

def ackSkip2 (r : Raft) (m : Message) (pr : Progress) : Raft :=
  { r with
    trk := Tracker.setProgress (r.trk.setProgress m.from { pr with recentActive := true }) m.from (ackUpd pr m.index).1 }

theorem ackSkip2_eq (r : Raft) (m : Message) (pr : Progress) : ackSkip2 r m pr = ackSkip r m pr := by
  simp only [ackSkip2, ackSkip, setProgress_setProgress]

/-- **acknowledging `MsgAppResp`**: after marking the sender active and `MaybeUpdate(m.Index)`, if the
index is new (or the follower was probing at exactly that index) the progress `ackTransition …` is
installed (`ackMid`), and the rest of the handler (`maybeCommit`, broadcasts, the `maybeSendAppend` loop,
`MsgTimeoutNow`) keeps `PrKeep`; otherwise nothing else happens (`ackSkip`) -/
theorem stepLeader_appResp_ack_inv (fuel : Nat) (m : Message) (r r' : Raft) (res : Option StepErr)
    (pr : Progress) (hm : m.typ = .appResp) (hg : r.trk.getProgress m.from = some pr)
    (hrej : m.reject = false) (h : (stepLeader fuel m).run r = .ok (res, r')) :
    res = none ∧ (ackCond pr m.index → PrKeep (ackMid r m pr) r') ∧ (¬ ackCond pr m.index → r' = ackSkip r m pr) := by
  rw [← ackMid3_eq, ← ackSkip2_eq]
  unfold stepLeader at h
  simp only [hm] at h
  obtain ⟨r0, r1, h1, hA⟩ := bind_ok h
  obtain ⟨e0, e1⟩ := get_ok h1; subst r0 r1
  split at hA
  case h_2 hnone => rw [hg] at hnone; cases hnone
  rename_i pr' hg'
  have epr : pr' = pr := by rw [hg] at hg'; injection hg' with hg'; exact hg'.symm
  subst pr'
  obtain ⟨pr'', r2, h2, hB⟩ := bind_ok hA
  obtain ⟨e0, e1⟩ := pure_ok h2; subst pr'' r2
  obtain ⟨u3, r3, h3, hC⟩ := bind_ok hB
  have e := setPr_ok h3; subst r3
  simp only [hrej, Bool.false_eq_true, ↓reduceIte] at hC
  obtain ⟨u4, r4, h4, hD⟩ := bind_ok hC
  have e := setPr_ok h4; subst r4
  split at hD
  case isFalse hcond =>
    obtain ⟨e1, e2⟩ := pure_ok hD
    refine ⟨e1, fun hc => absurd (by simpa [ackCond, ackUpd] using hc) hcond, fun _ => e2⟩
  rename_i hcond
  have hcond' : ackCond pr m.index := by
    simpa [ackCond, ackUpd] using hcond
  obtain ⟨r0, r5, h5, hE⟩ := bind_ok hD
  obtain ⟨e0, e1⟩ := get_ok h5; subst r0 r5
  obtain ⟨u6, r6, h6, hF⟩ := bind_ok hE
  have e := setPr_ok h6; subst r6
  suffices hk : res = none ∧ PrKeep (ackMid3 r m pr) r' from ⟨hk.1, fun _ => hk.2, fun hn => absurd hcond' hn⟩
  obtain ⟨b7, r7, h7, hG⟩ := bind_ok hF
  refine pk_step_and ((maybeCommit_pk _).elim h7) ?_
  split at hG
  · obtain ⟨u8, r8, h8, hH⟩ := bind_ok hG
    refine pk_step_and ((releasePendingReadIndexMessages_pk _).elim h8) ?_
    obtain ⟨u9, r9, h9, hI⟩ := bind_ok hH
    refine pk_step_and ((bcastAppend_pk _).elim h9) ?_
    pk_tl2 hI
  · obtain ⟨pr8, r8, h8, hH⟩ := bind_ok hG
    obtain ⟨e8, _⟩ := getPr_ok h8; subst e8
    obtain ⟨r0, r9, h9, hI⟩ := bind_ok hH
    obtain ⟨e0, e1⟩ := get_ok h9; subst e0 e1
    split at hI
    · obtain ⟨u10, r10, h10, hJ⟩ := bind_ok hI
      refine pk_step_and ((sendAppend_pk _ _).elim h10) ?_
      pk_tl2 hJ
    · pk_tl2 hI

end RaftVerif.Live
