import RaftVerif.Proofs.NextStep
import RaftVerif.Proofs.FlowTracker
import RaftVerif.Props.C12
/-!
# Proofs/NextVotes — who writes `trk.votes` (C17)

`VS s s'`: the recorded votes are what they were, or have been cleared.  Every function of
`Model/Raft.lean` keeps it except `poll` (`recordVote`), which only `stepCandidate` calls.
-/
namespace RaftVerif

/-- the vote map is kept (and so is the term), or it has been cleared -/
def VS (s s' : Raft) : Prop := (s'.trk.votes = s.trk.votes ∧ s'.term = s.term) ∨ s'.trk.votes = []

theorem VS.refl (s : Raft) : VS s s := Or.inl ⟨rfl, rfl⟩
theorem VS.trans {a b c : Raft} (h1 : VS a b) (h2 : VS b c) : VS a c := by
  rcases h2 with h2 | h2
  · rcases h1 with h1 | h1
    · exact Or.inl ⟨h2.1.trans h1.1, h2.2.trans h1.2⟩
    · exact Or.inr (h2.1.trans h1)
  · exact Or.inr h2
instance : RelOK VS := ⟨VS.refl, VS.trans⟩

theorem SendFrame.vs {s s' : Raft} (h : SendFrame s s') : VS s s' := Or.inl ⟨h.trkVotes, h.term⟩

theorem VS.keep {s x : Raft} (h : x.trk.votes = s.trk.votes) (ht : x.term = s.term) : VS s x := Or.inl ⟨h, ht⟩
theorem VS.clear {s x : Raft} (h : x.trk.votes = []) : VS s x := Or.inr h

macro_rules | `(tactic| rel_fields) => `(tactic| first | exact VS.keep rfl rfl | exact VS.clear rfl)

namespace Next
open Raft
set_option linter.unusedSimpArgs false

/-- registered `VS` call rules -/
syntax "vs_step" : tactic

theorem send_vs (m : Message) (s : Raft) : Spec (send m) s (fun _ s' => VS s s') :=
  (send_sf m s).mono fun _ _ h => h.vs
theorem maybeSendAppend_vs (to : Id) (b : Bool) (s : Raft) :
    Spec (maybeSendAppend to b) s (fun _ s' => VS s s') := (maybeSendAppend_sf to b s).mono fun _ _ h => h.vs
theorem sendAppendLoop_vs (n : Nat) (to : Id) (s : Raft) :
    Spec (sendAppendLoop n to) s (fun _ s' => VS s s') := (sendAppendLoop_sf n to s).mono fun _ _ h => h.vs
theorem sendHeartbeat_vs (to : Id) (c : Option Bytes) (s : Raft) :
    Spec (sendHeartbeat to c) s (fun _ s' => VS s s') := (sendHeartbeat_sf to c s).mono fun _ _ h => h.vs
theorem bcastAppend_vs (s : Raft) : Spec bcastAppend s (fun _ s' => VS s s') :=
  (bcastAppend_sf s).mono fun _ _ h => h.vs
theorem bcastHeartbeat_vs (s : Raft) : Spec bcastHeartbeat s (fun _ s' => VS s s') :=
  (bcastHeartbeat_sf s).mono fun _ _ h => h.vs

macro_rules | `(tactic| vs_step) => `(tactic| rel_call (send_vs ..))
macro_rules | `(tactic| vs_step) => `(tactic| rel_call (maybeSendAppend_vs ..))
macro_rules | `(tactic| vs_step) => `(tactic| rel_call (sendAppendLoop_vs ..))
macro_rules | `(tactic| vs_step) => `(tactic| rel_call (sendHeartbeat_vs ..))
macro_rules | `(tactic| vs_step) => `(tactic| rel_call (bcastAppend_vs ..))
macro_rules | `(tactic| vs_step) => `(tactic| rel_call (bcastHeartbeat_vs ..))
macro_rules | `(tactic| vs_step) => `(tactic| same_call (hasUnappliedConfChanges_same ..))
macro_rules | `(tactic| vs_step) => `(tactic| same_call (decodeCC_same ..))

theorem reset_vs (t : Nat) (s : Raft) : Spec (reset t) s (fun _ s' => VS s s') :=
  (reset_spec_st t s).mono fun _ _ h => Or.inr h.2.2.2.2.2.2.2.2.2.1
macro_rules | `(tactic| vs_step) => `(tactic| rel_call (reset_vs ..))

theorem becomeFollower_vs (t l : Nat) (s : Raft) : Spec (becomeFollower t l) s (fun _ s' => VS s s') := by
  unfold becomeFollower
  rel_start
  wp_auto [vs_step]
macro_rules | `(tactic| vs_step) => `(tactic| rel_call (becomeFollower_vs ..))

theorem becomeCandidate_vs (s : Raft) : Spec becomeCandidate s (fun _ s' => VS s s') := by
  unfold becomeCandidate
  rel_start
  wp_auto [vs_step]
macro_rules | `(tactic| vs_step) => `(tactic| rel_call (becomeCandidate_vs ..))

theorem becomePreCandidate_vs (s : Raft) : Spec becomePreCandidate s (fun _ s' => VS s s') := by
  unfold becomePreCandidate
  rel_start
  wp_auto [vs_step]
macro_rules | `(tactic| vs_step) => `(tactic| rel_call (becomePreCandidate_vs ..))

theorem maybeCommit_vs (s : Raft) : Spec maybeCommit s (fun _ s' => VS s s') := by
  unfold maybeCommit
  rel_start
  wp_auto [vs_step]
macro_rules | `(tactic| vs_step) => `(tactic| rel_call (maybeCommit_vs ..))

theorem increaseUncommittedSize_vs (es : List Entry) (s : Raft) : Spec (increaseUncommittedSize es) s (fun _ s' => VS s s') := by
  unfold increaseUncommittedSize
  rel_start
  wp_auto [vs_step]
macro_rules | `(tactic| vs_step) => `(tactic| rel_call (increaseUncommittedSize_vs ..))

theorem appendEntry_vs (es : List Entry) (s : Raft) : Spec (appendEntry es) s (fun _ s' => VS s s') := by
  unfold appendEntry
  rel_start
  wp_auto [vs_step]
macro_rules | `(tactic| vs_step) => `(tactic| rel_call (appendEntry_vs ..))

theorem appliedToLog_vs (i sz : Nat) (s : Raft) : Spec (appliedToLog i sz) s (fun _ s' => VS s s') := by
  unfold appliedToLog
  rel_start
  wp_auto [vs_step]
macro_rules | `(tactic| vs_step) => `(tactic| rel_call (appliedToLog_vs ..))

theorem becomeLeader_vs (s : Raft) : Spec becomeLeader s (fun _ s' => VS s s') := by
  unfold becomeLeader
  rel_start
  wp_auto [vs_step]
macro_rules | `(tactic| vs_step) => `(tactic| rel_call (becomeLeader_vs ..))

theorem campaign_vs (t : CampaignType) (s : Raft) : Spec (campaign t) s (fun _ s' => VS s s') := by
  unfold campaign
  rel_start
  wp_auto [first | vs_step | rel_loop VS]
macro_rules | `(tactic| vs_step) => `(tactic| rel_call (campaign_vs ..))

theorem hup_vs (t : CampaignType) (s : Raft) : Spec (hup t) s (fun _ s' => VS s s') := by
  unfold hup
  rel_start
  wp_auto [vs_step]
macro_rules | `(tactic| vs_step) => `(tactic| rel_call (hup_vs ..))

theorem responseToReadIndexReq_vs (req : Message) (i : Nat) (s : Raft) : Spec (responseToReadIndexReq req i) s (fun _ s' => VS s s') := by
  unfold responseToReadIndexReq
  rel_start
  wp_auto [vs_step]
macro_rules | `(tactic| vs_step) => `(tactic| rel_call (responseToReadIndexReq_vs ..))

theorem sendReadIndexResp_vs (req : Message) (i : Nat) (s : Raft) : Spec (sendReadIndexResp req i) s (fun _ s' => VS s s') := by
  unfold sendReadIndexResp
  rel_start
  wp_auto [vs_step]
macro_rules | `(tactic| vs_step) => `(tactic| rel_call (sendReadIndexResp_vs ..))

theorem sendMsgReadIndexResponse_vs (m : Message) (s : Raft) : Spec (sendMsgReadIndexResponse m) s (fun _ s' => VS s s') := by
  unfold sendMsgReadIndexResponse
  rel_start
  wp_auto [vs_step]
macro_rules | `(tactic| vs_step) => `(tactic| rel_call (sendMsgReadIndexResponse_vs ..))

theorem releasePendingReadIndexMessages_vs (s : Raft) : Spec releasePendingReadIndexMessages s (fun _ s' => VS s s') := by
  unfold releasePendingReadIndexMessages
  rel_start
  wp_auto [first | vs_step | rel_loop VS]
macro_rules | `(tactic| vs_step) => `(tactic| rel_call (releasePendingReadIndexMessages_vs ..))

theorem handleAppendEntries_vs (m : Message) (s : Raft) : Spec (handleAppendEntries m) s (fun _ s' => VS s s') := by
  unfold handleAppendEntries
  rel_start
  wp_auto [vs_step]
macro_rules | `(tactic| vs_step) => `(tactic| rel_call (handleAppendEntries_vs ..))

theorem handleHeartbeat_vs (m : Message) (s : Raft) : Spec (handleHeartbeat m) s (fun _ s' => VS s s') := by
  unfold handleHeartbeat
  rel_start
  wp_auto [vs_step]
macro_rules | `(tactic| vs_step) => `(tactic| rel_call (handleHeartbeat_vs ..))

theorem switchToConfig_vs (cfg : TrackerConfig) (trk : ProgressMap) (s : Raft) : Spec (switchToConfig cfg trk) s (fun _ s' => VS s s') := by
  unfold switchToConfig
  rel_start
  wp_auto [first | vs_step | rel_loop VS]
macro_rules | `(tactic| vs_step) => `(tactic| rel_call (switchToConfig_vs ..))

theorem restore_vs (snap : Snapshot) (s : Raft) : Spec (restore snap) s (fun _ s' => VS s s') := by
  unfold restore
  rel_start
  wp_auto [vs_step]
macro_rules | `(tactic| vs_step) => `(tactic| rel_call (restore_vs ..))

theorem handleSnapshot_vs (m : Message) (s : Raft) : Spec (handleSnapshot m) s (fun _ s' => VS s s') := by
  unfold handleSnapshot
  rel_start
  wp_auto [vs_step]
macro_rules | `(tactic| vs_step) => `(tactic| rel_call (handleSnapshot_vs ..))

theorem applyConfChange_vs (cc : ConfChangeV2) (s : Raft) : Spec (applyConfChange cc) s (fun _ s' => VS s s') := by
  unfold applyConfChange
  rel_start
  wp_auto [vs_step]
macro_rules | `(tactic| vs_step) => `(tactic| rel_call (applyConfChange_vs ..))

theorem stepFollower_vs (fuel : Nat) (m : Message) (s : Raft) : Spec (stepFollower fuel m) s (fun _ s' => VS s s') := by
  rw [stepFollower]
  rel_start
  wp_auto [vs_step]
macro_rules | `(tactic| vs_step) => `(tactic| rel_call (stepFollower_vs ..))

theorem stepLeader_vs (fuel : Nat) (m : Message) (s : Raft) : Spec (stepLeader fuel m) s (fun _ s' => VS s s') := by
  rw [stepLeader]
  rel_start
  wp_auto [first | vs_step | rel_loop VS]
macro_rules | `(tactic| vs_step) => `(tactic| rel_call (stepLeader_vs ..))


/-! ### the one writer: `stepCandidate` on its own kind of vote response -/

/-- the response type a (pre-)candidate counts -/
def myVoteRespType (s : Raft) : MsgType := if s.state = .preCandidate then .preVoteResp else .voteResp

/-- `m` is a vote response of the kind `s` counts — for a pre-candidate a granting one only if it was
issued for `term + 1` — and afterwards the vote map is the one with `m.from ↦ ¬m.reject` recorded
(`recordVote` never overwrites) and the term is kept, or the map has been cleared -/
def RecordSite (s : Raft) (m : Message) (s' : Raft) : Prop :=
  m.typ = myVoteRespType s ∧ (s.state = .preCandidate → m.reject = false → m.term = s.term + 1) ∧
  VS { s with trk := afterVote s m } s'

theorem stepCandidate_votes (fuel : Nat) (m : Message) (s : Raft) :
    Spec (stepCandidate fuel m) s (fun _ s' => VS s s' ∨ RecordSite s m s') := by
  rw [stepCandidate]
  simp only [wp]
  have hvs : ∀ {act : M (Option StepErr)}, Spec act s (fun _ s' => VS s s') →
      Spec act s (fun _ s' => VS s s' ∨ RecordSite s m s') := fun h => h.mono (fun _ _ h => Or.inl h)
  split
  · simp only [wp]; exact Or.inl (VS.refl _)
  · refine hvs ?_; rel_start; wp_auto [vs_step]
  · refine hvs ?_; rel_start; wp_auto [vs_step]
  · refine hvs ?_; rel_start; wp_auto [vs_step]
  · simp only [wp]; exact Or.inl (VS.refl _)
  · simp only [wp]
    refine ⟨fun htyp => ⟨fun _ => Or.inl (VS.refl _), fun hcond => ?_⟩, fun _ => Or.inl (VS.refl _)⟩
    have h1 : m.typ = myVoteRespType s := by
      unfold myVoteRespType
      by_cases hp : s.state = .preCandidate
      · simpa [hp] using htyp
      · have : (s.state == Role.preCandidate) = false := by simpa using hp
        simpa [hp, this] using htyp
    have h2 : s.state = .preCandidate → m.reject = false → m.term = s.term + 1 := by
      intro hpc hrej
      simp only [hpc, hrej, Bool.and_eq_true, beq_iff_eq, Bool.not_eq_true', bne_iff_ne, ne_eq, not_and,
        Decidable.not_not, beq_self_eq_true, true_and, Bool.not_false, forall_const] at hcond
      exact hcond
    refine Spec.mono (Q := fun _ s' => VS { s with trk := afterVote s m } s') ?_ ?_
    · rel_start
      wp_auto [vs_step]
    · intro _ s' h
      exact Or.inr ⟨h1, h2, h⟩

/-- a local MsgProp (term 0) never records a vote -/
theorem step_prop_vs (fuel : Nat) (m : Message) (s : Raft) (ht : m.typ = .prop) (h0 : m.term = 0) :
    Spec (step fuel m) s (fun _ s' => VS s s') := by
  cases fuel with
  | zero => rw [step]; simp only [wp]
  | succ fuel =>
    refine step_prop_local fuel m s _ ht h0 (fun _ => stepLeader_vs ..) (fun _ => ?_) (fun _ => stepFollower_vs ..)
    exact (stepCandidate_prop_spec fuel m s ht).mono (fun _ _ h => by rw [h.2]; exact VS.refl _)

theorem appliedTo_vs (fuel i sz : Nat) (s : Raft) : Spec (appliedTo fuel i sz) s (fun _ s' => VS s s') := by
  rw [appliedTo]
  rel_start
  wp_auto [first | vs_step | rel_call (step_prop_vs _ _ _ rfl rfl)]

theorem appliedSnap_vs (fuel : Nat) (snap : Snapshot) (s : Raft) :
    Spec (appliedSnap fuel snap) s (fun _ s' => VS s s') := by
  rw [appliedSnap]
  rel_start
  wp_auto [first | vs_step | rel_call (appliedTo_vs ..)]

/-- what `step` does to the vote map: kept or cleared, or the node is a (pre-)candidate and `RecordSite` -/
abbrev VotesPost (r : Raft) (m : Message) (r' : Raft) : Prop :=
  VS r r' ∨ ((r.state = .candidate ∨ r.state = .preCandidate) ∧ RecordSite r m r')

theorem step_votes_succ (fuel : Nat) (m : Message) (r : Raft) :
    Spec (step (fuel + 1) m) r (fun _ r' => VotesPost r m r') := by
  rw [step]
  simp (config := {zeta := false}) only [wp]
  spec_jp (fun mid => mid = r ∨ (VS r mid ∧ mid.state = .follower))
  · intro u mid hmid
    refine Spec.mono (Q := fun _ s' => VotesPost mid m s') ?_ ?_
    · have hvs : ∀ {act : M (Option StepErr)}, Spec act mid (fun _ s' => VS mid s') →
          Spec act mid (fun _ s' => VotesPost mid m s') := fun h => h.mono (fun _ _ h => Or.inl h)
      split
      · refine hvs ?_
        rel_start
        wp_auto [first | vs_step]
      · refine hvs ?_
        rel_start
        wp_auto [first | vs_step | rel_call (appliedSnap_vs ..)]
      · refine hvs ?_
        rel_start
        wp_auto [first | vs_step | rel_call (appliedTo_vs ..)]
      · refine hvs ?_
        rel_start
        wp_auto [first | vs_step]
      · refine hvs ?_
        rel_start
        wp_auto [first | vs_step]
      · simp only [wp]
        split
        · exact hvs (stepLeader_vs ..)
        · exact (stepCandidate_votes ..).mono (fun _ _ h => h.imp id (fun h => ⟨Or.inl (by assumption), h⟩))
        · exact (stepCandidate_votes ..).mono (fun _ _ h => h.imp id (fun h => ⟨Or.inr (by assumption), h⟩))
        · exact hvs (stepFollower_vs ..)
    · intro _ s' h
      rcases hmid with rfl | ⟨hv, hs⟩
      · exact h
      · rcases h with h | ⟨h, _⟩
        · exact Or.inl (hv.trans h)
        · rw [hs] at h; rcases h with h | h <;> cases h
  · intro body hbody
    simp (config := {zeta := false}) only [wp]
    refine ⟨fun h0 => ?_, fun h0 => ⟨fun hgt => ?_, fun hgt => ⟨fun hlt => ?_, fun hlt => ?_⟩⟩⟩
    · exact hbody () r (Or.inl rfl)
    · spec_jp (fun mid => mid = r)
      · intro _ mid hmid
        subst hmid
        simp only [wp]
        refine ⟨fun _ => hbody _ _ (Or.inl rfl), fun _ => ⟨fun _ => hbody _ _ (Or.inl rfl), fun _ => ⟨fun _ => ?_, fun _ => ?_⟩⟩⟩
        all_goals (
          refine ((becomeFollower_vs _ _ _).and (becomeFollower_spec _ _ _)).mono ?_
          intro _ mid2 ⟨hv, _, _, _, h4, _⟩
          exact hbody _ _ (Or.inr ⟨hv, h4⟩))
      · intro jp1 hjp1
        simp (config := {zeta := false}) only [wp]
        refine ⟨fun _ => ?_, fun _ => hjp1 _ _ rfl⟩
        spec_zeta
        spec_zeta
        simp (config := {zeta := false}) only [wp]
        exact ⟨fun _ => Or.inl (VS.refl _), fun _ => hjp1 _ _ rfl⟩
    · refine Spec.mono (Q := fun _ s' => VS r s') ?_ (fun _ _ h => Or.inl h)
      rel_start
      wp_auto [first | vs_step | rel_call (appliedSnap_vs ..)]
    · exact hbody () r (Or.inl rfl)

/-- **who writes the vote map in a `Step`** (any fuel, role, message) -/
theorem step_votes (fuel : Nat) (m : Message) (r : Raft) : Spec (step fuel m) r (fun _ r' => VotesPost r m r') := by
  cases fuel with
  | zero => rw [step]; simp only [wp]
  | succ fuel => exact step_votes_succ fuel m r

/-- `recordVote` never overwrites, and writes exactly one key -/
theorem recordVote_get (t : Tracker) (id : Id) (v : Bool) (k : Id) :
    mapGet (t.recordVote id v).votes k =
      if k = id ∧ mapGet t.votes id = none then some v else mapGet t.votes k := by
  unfold Tracker.recordVote
  cases h : mapGet t.votes id with
  | some b => simp
  | none =>
    simp only [mapGet_mapInsert_flow, and_true]
    by_cases hk : id = k
    · subst hk; simp
    · have : ¬ k = id := fun e => hk e.symm
      simp [hk, this]

/-- what `campaign(campaignPreElection)` queues after `becomePreCandidate`: pre-vote requests for term `t`
to `msgs`, and to `msgsAfterAppend` only the node's own granting MsgPreVoteResp for term `t` -/
structure PreCamp (t : Nat) (me : Id) (s s' : Raft) : Prop where
  frame : SendFrame s s'
  maa : ListExt (fun x => x.typ = .preVoteResp ∧ x.from = me ∧ x.to = me ∧ x.term = t ∧ x.reject = false)
    s.msgsAfterAppend s'.msgsAfterAppend
  msgs : ListExt (fun x => x.typ = .preVote ∧ x.from = me ∧ x.term = t ∧ x.reject = false) s.msgs s'.msgs

theorem PreCamp.refl (t : Nat) (me : Id) (s : Raft) : PreCamp t me s s :=
  ⟨SendFrame.refl s, ListExt.refl _, ListExt.refl _⟩
theorem PreCamp.trans {t : Nat} {me : Id} {a b c : Raft} (h1 : PreCamp t me a b) (h2 : PreCamp t me b c) :
    PreCamp t me a c := ⟨h1.frame.trans h2.frame, h1.maa.trans h2.maa, h1.msgs.trans h2.msgs⟩

theorem send_precamp_self (t me : Nat) (mid : Raft) (hme : mid.cfg.id = me) :
    Spec (send { typ := .preVoteResp, to := me, term := t }) mid (fun _ s' => PreCamp t me mid s') := by
  refine ((send_spec _ mid).and (send_sf _ mid)).mono ?_
  rintro _ s' ⟨⟨hp, rfl⟩ | ⟨hp, _⟩, hsf⟩
  · refine ⟨hsf, ListExt.snoc _ _ ?_, ListExt.refl _⟩
    by_cases h0 : me = 0 <;> simp [stamped, hme, h0]
  · simp [isPromise] at hp

theorem send_precamp_req (t me to li lt : Nat) (mid : Raft) (hme : mid.cfg.id = me) :
    Spec (send { typ := .preVote, to := to, term := t, logTerm := lt, index := li, context := none }) mid
      (fun _ s' => PreCamp t me mid s') := by
  refine ((send_spec _ mid).and (send_sf _ mid)).mono ?_
  rintro _ s' ⟨⟨hp, _⟩ | ⟨hp, rfl⟩, hsf⟩
  · simp [isPromise] at hp
  · refine ⟨hsf, ListExt.refl _, ListExt.snoc _ _ ?_⟩
    by_cases h0 : me = 0 <;> simp [stamped, hme, h0]

theorem campaign_preElection_detail (s : Raft) :
    Spec (campaign .preElection) s (fun _ s' =>
      PreCamp (s.term + 1) s.cfg.id { s with trk := s.trk.resetVotes, lead := 0, state := .preCandidate } s') := by
  unfold campaign
  simp (config := {decide := true}) only [wp, beq_iff_eq, reduceCtorEq, false_implies, true_implies,
    not_false_eq_true, true_and]
  refine ⟨(becomePreCandidate_spec s).mono ?_, trivial⟩
  intro _ mid ⟨_, hmid⟩
  subst hmid
  refine Spec.forIn_list _ _ _ (fun _ s' => PreCamp (s.term + 1) s.cfg.id
    { s with trk := s.trk.resetVotes, lead := 0, state := .preCandidate } s') _ (PreCamp.refl _ _ _) ?_
  intro id _ _ mid hInv
  have hme : mid.cfg.id = s.cfg.id := by rw [hInv.frame.cfg]
  simp only [wp]
  refine ⟨fun hid => ?_, fun hid => ?_⟩
  · subst hid
    exact (send_precamp_self _ _ mid hme).mono (fun _ _ h => hInv.trans h)
  · intro last _
    exact (send_precamp_req _ _ _ _ _ mid hme).mono (fun _ _ h => hInv.trans h)

/-! ### a rejection never wins an election -/

theorem majorityVote_won_mono (c : List Id) (v v' : Id → Option Bool)
    (h : ∀ k, v' k = some true → v k = some true) (hw : Quorum.majorityVote c v' = .won) :
    Quorum.majorityVote c v = .won := by
  rw [(Quorum.majority_vote_spec c v').1] at hw
  rw [(Quorum.majority_vote_spec c v).1]
  rcases hw with hw | hw
  · exact Or.inl hw
  · refine Or.inr (Nat.lt_of_lt_of_le hw (Nat.mul_le_mul_left 2 ?_))
    unfold Quorum.yesCount
    apply List.countP_mono_left
    intro x _ hx
    simp only [beq_iff_eq] at hx ⊢
    exact h x hx

theorem jointVote_won_mono (c0 c1 : List Id) (v v' : Id → Option Bool)
    (h : ∀ k, v' k = some true → v k = some true) (hw : Quorum.jointVote c0 c1 v' = .won) :
    Quorum.jointVote c0 c1 v = .won := by
  rw [(Quorum.joint_vote_spec c0 c1 v').1] at hw
  rw [(Quorum.joint_vote_spec c0 c1 v).1]
  exact ⟨majorityVote_won_mono c0 v v' h hw.1, majorityVote_won_mono c1 v v' h hw.2⟩

/-- recording a rejection cannot turn the tally into `won` -/
theorem reject_cannot_win (t : Tracker) (id : Id) (hw : (t.recordVote id false).tallyVotes.2.2 = .won) :
    t.tallyVotes.2.2 = .won := by
  unfold Tracker.tallyVotes at hw ⊢
  simp only at hw ⊢
  have hcfg : (t.recordVote id false).cfg = t.cfg := by unfold Tracker.recordVote; split <;> rfl
  have hout : (t.recordVote id false).outgoingL = t.outgoingL := by unfold Tracker.outgoingL; rw [hcfg]
  rw [hcfg, hout] at hw
  refine jointVote_won_mono _ _ _ _ ?_ hw
  intro k hk
  have := recordVote_get t id false k
  unfold mapGet at this
  rw [this] at hk
  split at hk
  · cases hk
  · exact hk

/-- the state right after `becomePreCandidate` -/
abbrev preCand (s : Raft) : Raft := { s with trk := s.trk.resetVotes, lead := 0, state := .preCandidate }

/-- `hup(campaignPreElection)`: nothing at all, or the node becomes pre-candidate (`becomePreCandidate`)
and queues its pre-vote requests -/
theorem hup_preElection_spec (s : Raft) :
    Spec (hup .preElection) s (fun _ s' =>
      s' = s ∨ (s.state ≠ .leader ∧ PreCamp (s.term + 1) s.cfg.id (preCand s) s')) := by
  unfold hup
  simp only [wp]
  refine ⟨fun _ => Or.inl trivial, fun hnl => ?_⟩
  have hnl' : s.state ≠ .leader := by simpa using hnl
  have key : Spec hasUnappliedConfChanges s (fun b mid =>
      (b = true → mid = s ∨ s.state ≠ Role.leader ∧ PreCamp (s.term + 1) s.cfg.id (preCand s) mid) ∧
      (¬b = true → Spec (campaign CampaignType.preElection) mid fun x s' =>
        s' = s ∨ s.state ≠ Role.leader ∧ PreCamp (s.term + 1) s.cfg.id (preCand s) s')) := by
    refine Spec.call_same (hasUnappliedConfChanges_same s) (fun b => ?_)
    exact ⟨fun _ => Or.inl rfl, fun _ => (campaign_preElection_detail s).mono (fun _ _ h => Or.inr ⟨hnl', h⟩)⟩
  split
  · simp [wp]
  · simp only [wp]
    exact ⟨fun _ => Or.inl trivial, fun _ => key⟩

end Next
end RaftVerif
