import RaftVerif.Proofs.ConfChangeStrong
/-!
# Proofs/ConfChangeQuorum — counting lemmas: voter lists that differ by at most one element have
intersecting majorities
-/
namespace RaftVerif
set_option linter.unusedSimpArgs false
set_option linter.unusedVariables false

/-! ### symdiff and quorum intersection across a simple change -/

theorem countP_le_filter_add {α : Type} (p f : α → Bool) (l : List α) :
    l.countP p ≤ (l.filter f).countP p + l.countP (fun a => !f a) := by
  induction l with
  | nil => simp
  | cons a t ih =>
    simp only [List.filter_cons, List.countP_cons]
    cases hf : f a <;> cases hp : p a <;> simp [List.countP_cons, hp] <;> omega

theorem length_filter_add {α : Type} (f : α → Bool) (l : List α) :
    l.length = (l.filter f).length + l.countP (fun a => !f a) := by
  induction l with
  | nil => simp
  | cons a t ih =>
    simp only [List.filter_cons, List.countP_cons, List.length_cons]
    cases hf : f a <;> simp <;> omega

theorem inter_perm {a b : List Id} (ha : a.Nodup) (hb : b.Nodup) :
    (a.filter (fun x => b.contains x)).Perm (b.filter (fun x => a.contains x)) := by
  apply (List.perm_ext_iff_of_nodup (ha.filter _) (hb.filter _)).mpr
  intro x
  simp only [List.mem_filter, List.contains_iff_mem]
  constructor <;> (rintro ⟨h1, h2⟩; exact ⟨h2, h1⟩)

theorem countP_and_ge {α : Type} (p q : α → Bool) (l : List α) :
    l.countP p + l.countP q ≤ l.length + l.countP (fun v => p v && q v) := by
  induction l with
  | nil => simp
  | cons a t ih =>
    simp only [List.countP_cons, List.length_cons]
    cases p a <;> cases q a <;> simp <;> omega

/-- two duplicate-free voter lists that differ by at most one element: any two majorities intersect
(in a common voter) -/
theorem symdiff_quorums_intersect (a b : List Id) (ha : a.Nodup) (hb : b.Nodup)
    (hsd : symdiff a b ≤ 1) (p q : Id → Bool)
    (hp : a.length < 2 * a.countP p) (hq : b.length < 2 * b.countP q) :
    ∃ v, v ∈ a ∧ v ∈ b ∧ p v = true ∧ q v = true := by
  unfold symdiff at hsd
  have hperm := inter_perm ha hb
  have la := length_filter_add (fun x => b.contains x) a
  have lb := length_filter_add (fun x => a.contains x) b
  have ca := countP_le_filter_add p (fun x => b.contains x) a
  have cb := countP_le_filter_add q (fun x => a.contains x) b
  rw [← hperm.countP_eq] at cb
  rw [← hperm.length_eq] at lb
  have key := countP_and_ge p q (a.filter (fun x => b.contains x))
  have hpos : 0 < (a.filter (fun x => b.contains x)).countP (fun v => p v && q v) := by omega
  obtain ⟨v, hv, hpq⟩ := List.countP_pos_iff.mp hpos
  simp only [List.mem_filter, List.contains_iff_mem] at hv
  simp only [Bool.and_eq_true] at hpq
  exact ⟨v, hv.1, hv.2, hpq.1, hpq.2⟩

theorem symdiff_self (a : List Id) : symdiff a a = 0 := by
  unfold symdiff
  have : a.countP (fun id => !a.contains id) = 0 := by
    rw [List.countP_eq_zero]
    intro x hx
    simp [hx]
  omega

end RaftVerif
