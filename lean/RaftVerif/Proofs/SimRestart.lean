import RaftVerif.Proofs.SimDur
import RaftVerif.Proofs.SimLog
import RaftVerif.Proofs.SimTerm
import RaftVerif.Proofs.RefineLeader2
/-!
# Proofs/SimRestart — crash + restart: rebuilding a node from its own storage (`RawNode.new c storage draws`)
matches the Spec action `crash n` (`vol := dur; pending := []; role := follower`)
-/
namespace RaftVerif.Sim
open Refine C14
set_option linter.unusedVariables false

/-! ### the fresh `raftLog` over a storage -/

theorem newLog_abs {st : MemoryStorage} (h : st.WF) (m : Nat) : (RaftLog.new st m).abs = st.abs := by
  show (st.abs.truncateFrom (st.lastIndex + 1)).extend [] = st.abs
  rw [MemoryStorage.lastIndex_abs h]
  unfold ALog.truncateFrom ALog.extend ALog.last
  simp

theorem newLog_lastIndex (st : MemoryStorage) (m : Nat) : (RaftLog.new st m).lastIndex = st.lastIndex := by
  simp [RaftLog.new, RaftLog.lastIndex, Unstable.maybeLastIndex]

/-- what an uncompacted, settled log says about its storage -/
theorem storage_of_uncompacted {l : RaftLog} (hu : Uncompacted l) (hs : l.unstable.snapshot = none) :
    l.storage.offset = 0 ∧ l.storage.dummyTerm = 0 := by
  unfold Uncompacted RaftLog.abs at hu
  rw [hs] at hu
  exact hu

/-! ### the run of `newRaft` on a storage that carries the bootstrap membership -/

/-- the state `newRaft` has reached before the final `becomeFollower`: configuration restored, hard state loaded -/
def loadedRaft (c : Config) (voters : List Id) (st : MemoryStorage) (trk : ProgressMap) (draws : List Nat) : Raft :=
  let r := swCfg (newRaftInit (cfgFill c) st draws) { voters := voters } trk
  let h := st.hardState.getD {}
  { r with log := { r.log with committed := h.commit }, term := h.term, vote := h.vote }

theorem hardState_empty {h : HardState} (he : h.isEmpty = true) : h = {} := by
  unfold HardState.isEmpty at he
  simp only [Bool.and_eq_true, beq_iff_eq] at he
  obtain ⟨⟨h1, h2⟩, h3⟩ := he
  cases h; simp_all

theorem load_eq_self (r : Raft) (h : HardState) (h1 : r.term = h.term) (h2 : r.vote = h.vote)
    (h3 : r.log.committed = h.commit) :
    ({ r with log := { r.log with committed := h.commit }, term := h.term, vote := h.vote } : Raft) = r := by
  rw [← h1, ← h2, ← h3]

/-- **the run of `newRaft`** on a storage with the bootstrap ConfState and nothing compacted: up to the final
`becomeFollower` it reaches `loadedRaft`; the stored commit index is within the stored log -/
theorem newRaft_restart {voters : List Id} {c : Config} {draws : List Nat} {st : MemoryStorage} {r : Raft}
    (hsn : st.snapshot.conf = { voters := voters }) (hoff : st.offset = 0)
    (hs : Sorted voters) (h0 : 0 ∉ voters) (happ : c.applied = 0)
    (h : newRaft c st draws = .ok r) :
    c.id ≠ 0 ∧ ∃ trk, (st.hardState.getD {}).commit ≤ st.lastIndex ∧
      (Raft.becomeFollower (loadedRaft c voters st trk draws).term 0).run (loadedRaft c voters st trk draws) =
        .ok ((), r) ∧
      (∀ v, v ∈ voters ↔ (mapGet trk v).isSome = true) ∧
      (∀ v pr, mapGet trk v = some pr → pr.isLearner = false) := by
  rw [newRaft_eq] at h
  obtain ⟨c', hv, h⟩ := bind_eq_ok.1 h
  obtain ⟨p, hrun, h⟩ := bind_eq_ok.1 h
  obtain ⟨u, r1⟩ := p
  simp only [pure, Except.pure, Except.ok.injEq] at h
  subst h
  obtain ⟨hc', hid⟩ := validate_ok hv
  subst hc'
  refine ⟨hid, ?_⟩
  rw [newRaftAct_run _ _ _ _ (newRaftInit_state _ _ _)] at hrun
  cases hle : (newRaftInit (cfgFill c) st draws).log.lastEntryID with
  | error e => rw [hle] at hrun; cases hrun
  | ok id =>
    rw [hle] at hrun
    obtain ⟨trk, hres, hk, hl⟩ :=
      restore_init voters hs h0 (cfgFill c).maxInflightMsgs (cfgFill c).maxInflightBytes id.index
    have hres' : restoreConf { tracker := (newRaftInit (cfgFill c) st draws).trk, lastIndex := id.index }
        st.initialState.2 = .ok ({ voters := voters }, trk) := by
      show restoreConf (restoreStart _ _ id.index) st.snapshot.conf = _
      rw [hsn]; exact hres
    simp only [hres'] at hrun
    have heq : ConfState.equivalent st.initialState.2
        (swCfg (newRaftInit (cfgFill c) st draws) { voters := voters } trk).trk.confState = true := by
      show ConfState.equivalent st.snapshot.conf { voters := voters } = true
      rw [hsn]; exact confState_equivalent_refl _
    rw [heq] at hrun
    simp only [Bool.true_eq_false, if_false] at hrun
    rw [nrTail_run] at hrun
    refine ⟨trk, ?_⟩
    have happ' : (cfgFill c).applied = 0 := (cfgFill_fields c).1.trans happ
    have hap : ∀ r2, nrApplied (cfgFill c) r2 = .ok r2 := fun r2 => by unfold nrApplied; rw [if_pos happ']
    have hc0 : (swCfg (newRaftInit (cfgFill c) st draws) { voters := voters } trk).log.committed = 0 := by
      show st.firstIndex - 1 = 0
      unfold MemoryStorage.firstIndex; omega
    -- the case of an empty (or absent) hard state
    have hempty : st.hardState.getD {} = {} →
        loadedRaft c voters st trk draws = swCfg (newRaftInit (cfgFill c) st draws) { voters := voters } trk := by
      intro he
      unfold loadedRaft
      simp only [he]
      exact load_eq_self _ {} rfl rfl hc0
    cases hhs : st.hardState with
    | none =>
      have hload : nrLoad st.initialState.1 (swCfg (newRaftInit (cfgFill c) st draws) { voters := voters } trk) =
          .ok (swCfg (newRaftInit (cfgFill c) st draws) { voters := voters } trk) := by
        show nrLoad st.hardState _ = _; rw [hhs]; rfl
      simp only [hload, hap] at hrun
      have he := hempty (by rw [hhs]; rfl)
      rw [he]
      exact ⟨Nat.zero_le _, hrun, hk, hl⟩
    | some hh =>
      by_cases he : hh.isEmpty = true
      · have hload : nrLoad st.initialState.1 (swCfg (newRaftInit (cfgFill c) st draws) { voters := voters } trk) =
            .ok (swCfg (newRaftInit (cfgFill c) st draws) { voters := voters } trk) := by
          show nrLoad st.hardState _ = _; rw [hhs]
          show (if hh.isEmpty = true then _ else _) = _
          rw [if_pos he]
        simp only [hload, hap] at hrun
        rw [hempty (by rw [hhs]; exact hardState_empty he)]
        refine ⟨?_, hrun, hk, hl⟩
        show hh.commit ≤ _
        rw [hardState_empty he]; exact Nat.zero_le _
      · have hld : loadedRaft c voters st trk draws =
            { swCfg (newRaftInit (cfgFill c) st draws) { voters := voters } trk with
              log := { (swCfg (newRaftInit (cfgFill c) st draws) { voters := voters } trk).log with
                        committed := hh.commit },
              term := hh.term, vote := hh.vote } := by
          unfold loadedRaft; rw [hhs]; rfl
        by_cases hc : hh.commit < (swCfg (newRaftInit (cfgFill c) st draws) { voters := voters } trk).log.committed ∨
            (swCfg (newRaftInit (cfgFill c) st draws) { voters := voters } trk).log.lastIndex < hh.commit
        · have hload : nrLoad st.initialState.1
              (swCfg (newRaftInit (cfgFill c) st draws) { voters := voters } trk) =
              .error "loadState: state.commit out of range" := by
            show nrLoad st.hardState _ = _; rw [hhs]
            show (if hh.isEmpty = true then _ else _) = _
            rw [if_neg he, if_pos hc]
          simp only [hload] at hrun
          cases hrun
        · have hload : nrLoad st.initialState.1
              (swCfg (newRaftInit (cfgFill c) st draws) { voters := voters } trk) =
              .ok (loadedRaft c voters st trk draws) := by
            show nrLoad st.hardState _ = _; rw [hhs, hld]
            show (if hh.isEmpty = true then _ else _) = _
            rw [if_neg he, if_neg hc]
          simp only [hload, hap] at hrun
          refine ⟨?_, hrun, hk, hl⟩
          show hh.commit ≤ _
          have hli : (swCfg (newRaftInit (cfgFill c) st draws) { voters := voters } trk).log.lastIndex =
              st.lastIndex := newLog_lastIndex st _
          rw [hli] at hc
          omega

/-! ### the invariants of `loadedRaft` -/

section loaded
variable {c : Config} {voters : List Id} {st : MemoryStorage} {trk : ProgressMap} {draws : List Nat}

theorem loadedRaft_wf (hst : st.WF) (hoff : st.offset = 0) (hc : (st.hardState.getD {}).commit ≤ st.lastIndex) :
    (loadedRaft c voters st trk draws).log.WF := by
  have hw := (C08.newLog_wf hst (cfgFill c).maxCommittedSizePerReady).2 (cfgFill_pos c)
  refine wf_commit hw ?_ ?_
  · show st.firstIndex - 1 ≤ _
    unfold MemoryStorage.firstIndex; omega
  · rw [newLog_lastIndex]; exact hc

theorem loadedRaft_unc (hoff : st.offset = 0) (hdt : st.dummyTerm = 0) :
    Uncompacted (loadedRaft c voters st trk draws).log :=
  Uncompacted.of_storage rfl hoff hdt

theorem loadedRaft_absLog (val : Val) (hst : st.WF) :
    absLog val (loadedRaft c voters st trk draws) = st.abs.ents.map (absEnt val) := by
  show (RaftLog.new st (cfgFill c).maxCommittedSizePerReady).abs.ents.map (absEnt val) = _
  rw [newLog_abs hst]

theorem loadedRaft_static {n : Nat} (hid : c.id = n) (hnz : c.id ≠ 0) (hmem : n ∈ voters)
    (hpv : c.preVote = false)
    (hk : ∀ v, v ∈ voters ↔ (mapGet trk v).isSome = true)
    (hl : ∀ v pr, mapGet trk v = some pr → pr.isLearner = false) :
    RaftStatic voters n (loadedRaft c voters st trk draws) where
  id := (cfgFill_id c).trans hid
  idnz := hid ▸ hnz
  pv := (cfgFill_fields c).2.1.trans hpv
  xfer := rfl
  pri := rfl
  ro := rfl
  tvoters := rfl
  tout := rfl
  tauto := rfl
  prog := hk
  nolearn := hl
  self := hmem

theorem loadedRaft_state : (loadedRaft c voters st trk draws).state = .follower := rfl

end loaded

/-- the Spec node after `crash` -/
abbrev crashed (nd : Spec.Node) : Spec.Node := { nd with vol := nd.dur, pending := [], role := .follower }

/-- the state before the final `becomeFollower` satisfies the invariant w.r.t. the crashed Spec node -/
theorem loadedRaft_inv (val : Val) {c : Config} {voters : List Id} {st : MemoryStorage} {trk : ProgressMap}
    {draws : List Nat} {n : Nat} {nd : Spec.Node} {msgs : List Spec.Msg}
    (hstat : RaftStatic voters n (loadedRaft c voters st trk draws))
    (hwf : (loadedRaft c voters st trk draws).log.WF) (hunc : Uncompacted (loadedRaft c voters st trk draws).log)
    (hlog : absLog val (loadedRaft c voters st trk draws) = nd.dur.log)
    (ht : nd.dur.term = (st.hardState.getD {}).term) (hvo : nd.dur.vote = (st.hardState.getD {}).vote)
    (hco : nd.dur.commit = (st.hardState.getD {}).commit)
    (hle : ∀ e ∈ nd.dur.log, e.term ≤ nd.dur.term)
    (hrv : ∀ t lt li, Spec.Msg.reqVote t n lt li ∈ msgs → t ≤ nd.dur.term) :
    RaftInv val voters n (loadedRaft c voters st trk draws) (crashed nd) msgs where
  abs := ⟨ht, hvo, hco, hlog.symm, rfl⟩
  st := hstat
  wf := hwf
  unc := hunc
  leadInv := fun h => by cases h
  candVote := fun h => by cases h
  termPos := fun h => absurd rfl h
  logLe := fun e he => by
    rw [hlog] at he
    show e.term ≤ (st.hardState.getD {}).term
    rw [← ht]; exact hle e he
  candLt := fun h => by cases h
  pend := rfl
  durV := fun p hp => hp
  durA := fun p hp => hp
  out := fun m hm => (List.not_mem_nil hm).elim
  prom := fun m hm => (List.not_mem_nil hm).elim
  rvTerm := fun t lt li hx => by
    show t ≤ (st.hardState.getD {}).term
    rw [← ht]; exact hrv t lt li hx
  rvCov := fun h => by cases h
  votes := fun h => by cases h
  selfVote := fun h => by cases h
  matchO := fun h => by cases h
  matchS := fun h => by cases h

/-- **Spec `crash n` (`vol := dur; pending := []; role := follower`) matches rebuilding the node from its storage** -/
theorem restart_nodeInv {val : Val} {voters : List Id} {n : Nat} {rn rn' : RawNode} {nd : Spec.Node}
    {msgs : List Spec.Msg} {c : Config} {draws : List Nat}
    (hinv : NodeInv val voters n rn nd msgs) (hset : Settled rn.raft) (hdur : DurInv val voters rn nd)
    (hsorted : voters.Pairwise (· < ·)) (h0 : 0 ∉ voters)
    (hid : c.id = n) (hpv : c.preVote = false) (hasync : c.asyncStorageWrites = false)
    (happ : c.applied = 0)
    (hle : ∀ e ∈ nd.dur.log, e.term ≤ nd.dur.term)
    (hrv : ∀ t lt li, Spec.Msg.reqVote t n lt li ∈ msgs → t ≤ nd.dur.term)
    (h : RawNode.new c rn.raft.log.storage draws = .ok rn') :
    NodeInv val voters n rn' { nd with vol := nd.dur, pending := [], role := .follower } msgs ∧
    AuxInv n rn'.raft ∧ Settled rn'.raft ∧ rn'.raft.msgs = [] ∧ rn'.raft.msgsAfterAppend = [] ∧
    DurInv val voters rn' { nd with vol := nd.dur, pending := [], role := .follower } := by
  unfold RawNode.new at h
  obtain ⟨r, hr, h⟩ := bind_eq_ok.1 h
  simp only [pure, Except.pure, Except.ok.injEq] at h
  subst h
  obtain ⟨hoff, hdt⟩ := storage_of_uncompacted hinv.inv.unc hset.1
  have hstw := hinv.inv.wf.storage
  have hsn : rn.raft.log.storage.snapshot.conf = { voters := voters } := by rw [hdur.snap]; rfl
  obtain ⟨hnz, trk, hc, hrun, hk, hl⟩ := newRaft_restart hsn hoff hsorted h0 happ hr
  have hL := loadedRaft_inv val (nd := nd) (msgs := msgs) (draws := draws)
    (loadedRaft_static hid hnz hinv.inv.st.self hpv hk hl) (loadedRaft_wf hstw hoff hc)
    (loadedRaft_unc hoff hdt) ((loadedRaft_absLog val hstw).trans hdur.log.symm) hdur.term hdur.vote hdur.commit
    hle hrv
  obtain ⟨d, rest, hd, hr'⟩ := becomeFollower_run_exact hrun
  have habs : Abs val r (crashed nd) := by
    rw [hr']
    exact hL.abs.congr rfl (if_pos rfl) rfl rfl
  have hI := RaftInv.becomeFollower hL (Nat.le_refl _) hrun habs rfl rfl rfl rfl
  subst hr'
  refine ⟨⟨hasync, rfl, hI⟩, ⟨fun h => (by cases h), fun m hm => (List.not_mem_nil hm).elim,
    fun m hm => (List.not_mem_nil hm).elim⟩, ⟨rfl, rfl⟩, rfl, rfl, ?_⟩
  refine ⟨hdur.term, hdur.vote, hdur.commit, hdur.log, ?_, hdur.snap⟩
  show ({ term := (rn.raft.log.storage.hardState.getD {}).term,
          vote := if (rn.raft.log.storage.hardState.getD {}).term = (rn.raft.log.storage.hardState.getD {}).term
            then (rn.raft.log.storage.hardState.getD {}).vote else 0,
          commit := (rn.raft.log.storage.hardState.getD {}).commit } : HardState) = _
  rw [if_pos rfl]
  rfl

end RaftVerif.Sim
