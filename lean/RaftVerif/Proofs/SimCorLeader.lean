import RaftVerif.Proofs.SimCorLog
/-!
# Proofs/SimCorLeader — one leader per term and leader completeness for the nodes of a reachable cluster
-/
namespace RaftVerif.SimCorP
open Sim Refine Simulation

/-- a live model leader is a Spec leader of its term: elected, and its log is the ghost log of the term -/
theorem leader_facts {val : Val} {voters : List Id} {c0 c : Cluster} (h : Setting voters c0 c)
    {s : Spec.State} (hs : Spec.Reachable (cfgOf voters) s) (hR : RSD val voters c s)
    {l : Nat} {rl : RawNode} (hl : c.nodes l = some rl) (hlead : rl.raft.state = .leader) :
    (rl.raft.term, l) ∈ s.elected ∧ s.glog rl.raft.term = (entsOf rl false).map (absEnt val) := by
  have A := (hR.rs.ra.base.nodes l rl hl).inv.abs
  have hrole : (s.nodes l).role = .leader := by rw [A.role, hlead]; rfl
  have h1 := (Spec.inv1_reachable _ h.cfgOK s hs).leader_elected l hrole
  have h2 := Spec.committed_is_leader_log _ h.cfgOK s hs l hrole
  rw [A.term] at h1 h2
  rw [A.log] at h2
  exact ⟨h1, h2.symm⟩

/-- **leader completeness, abstract form**: the log of a live leader of term `T` holds, at every index at or below
the commit index of any view (current or stored, of any node) whose term is `≤ T`, the entry of that view -/
theorem leader_complete_abs {val : Val} {voters : List Id} {c0 c : Cluster} (h : Setting voters c0 c)
    {s : Spec.State} (hs : Spec.Reachable (cfgOf voters) s) (hR : RSD val voters c s)
    {l b : Nat} {rl rb : RawNode} (hl : c.nodes l = some rl) (hb : c.nodes b = some rb) (sb : Bool)
    (hlead : rl.raft.state = .leader) (hterm : (hsOf rb sb).term ≤ rl.raft.term)
    {i : Nat} (hic : i ≤ (hsOf rb sb).commit) :
    Spec.Log.at? ((entsOf rl false).map (absEnt val)) i = Spec.Log.at? ((entsOf rb sb).map (absEnt val)) i := by
  have VB := viewOK hR hb sb
  obtain ⟨hel, hglog⟩ := leader_facts h hs hR hl hlead
  have hi3 := Spec.inv3_reachable _ h.cfgOK s hs
  have hpc := hi3.ver_commit b _ (verOf_mem (s.nodes b) sb)
  rw [VB.commit, VB.log, VB.term] at hpc
  rcases hpc with h0 | ⟨t, j, ht, hj, hch, htk⟩
  · have : i = 0 := by omega
    subst this
    simp [Spec.Log.at?]
  · have e1 : Spec.Log.at? ((entsOf rb sb).map (absEnt val)) i = (s.glog t).at? i := by
      rw [← Spec.Log.at?_take hic, htk, Spec.Log.at?_take hic]
    rw [e1, ← hglog]
    rcases Nat.lt_or_ge t rl.raft.term with hlt | hge
    · rcases hi3.safe_at _ l hel t j hlt hch.2.1 with h' | h'
      · rw [← Spec.Log.at?_take (Nat.le_trans hic hj), h', Spec.Log.at?_take (Nat.le_trans hic hj)]
      · exact absurd h' (fun hd => Spec.chosen_not_dead h.cfgOK hch (Nat.le_refl _) hd)
    · have : t = rl.raft.term := by omega
      rw [this]

/-- **leader completeness, concrete form** -/
theorem leader_complete_views {voters : List Id} {c0 c : Cluster} (h : Setting voters c0 c)
    {l b : Nat} {rl rb : RawNode} (hl : c.nodes l = some rl) (hb : c.nodes b = some rb) (sb : Bool)
    (hlead : rl.raft.state = .leader) (hterm : (hsOf rb sb).term ≤ rl.raft.term)
    {i : Nat} (hi : 1 ≤ i) (hic : i ≤ (hsOf rb sb).commit) :
    ∃ x y, rl.raft.log.abs.ents[i - 1]? = some x ∧ (entsOf rb sb)[i - 1]? = some y ∧
      x.term = y.term ∧ x.typ = y.typ ∧ x.data = y.data ∧ x.index = i ∧ y.index = i := by
  have hlen := commit_within_views h hb sb
  have hlb : i - 1 < (entsOf rb sb).length := by omega
  obtain ⟨y, hy⟩ : ∃ y, (entsOf rb sb)[i - 1]? = some y := ⟨_, List.getElem?_eq_getElem hlb⟩
  obtain ⟨s, hs, hR⟩ := h.related (valFor y)
  have key := leader_complete_abs h hs hR hl hb sb hlead hterm hic
  rw [at?_map hi, at?_map hi, hy] at key
  cases hx : (entsOf rl false)[i - 1]? with
  | none => rw [hx] at key; simp at key
  | some x =>
    rw [hx] at key
    simp only [Option.map_some, Option.some.injEq] at key
    obtain ⟨k1, k2, k3⟩ := valFor_sep key.symm
    have ix := ents_index hR hl false hx
    have iy := ents_index hR hb sb hy
    exact ⟨x, y, hx, hy, k1.symm, k2.symm, k3.symm, by omega, by omega⟩

end RaftVerif.SimCorP
