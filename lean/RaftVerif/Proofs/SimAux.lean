import RaftVerif.Proofs.SimInv
/-!
# Proofs/SimAux — an auxiliary invariant of the model node alone (no Spec state)

`RaftInv.matchS` justifies the leader's own `Match` by durable acknowledgements *for the indexes whose entry has the
leader's term*.  When the leader appends, new such indexes appear; they must lie above the leader's own `Match`.
That is a fact about the model only: the leader's own `Match` comes from its own MsgAppResp, queued by
`appendEntry` with the then last index, and a leader's log only grows.
-/
namespace RaftVerif.Sim

/-- a self-addressed promise (queued in `msgsAfterAppend`, or kept in `stepsOnAdvance`) is a grant, of a term that
is not ahead of the node, and — the leader's own acknowledgement of the current term — within the log of a
node that still leads -/
def SelfOK (n : Nat) (r : Raft) (m : Message) : Prop :=
  m.to = n → (m.typ = .voteResp ∨ m.typ = .appResp) ∧ m.reject = false ∧ m.from = n ∧ m.term ≤ r.term ∧
    (m.typ = .appResp → m.term = r.term →
      r.state = .follower ∨ (r.state = .leader ∧ m.index ≤ r.log.lastIndex))

/-- the auxiliary invariant of node `n` -/
structure AuxInv (n : Nat) (r : Raft) : Prop where
  matchLe : r.state = .leader → ∀ pr, r.trk.getProgress n = some pr → pr.match_ ≤ r.log.lastIndex
  self : ∀ m ∈ r.msgsAfterAppend, SelfOK n r m
  /-- appends, heartbeats and vote requests are sent by the node to others -/
  outFrom : ∀ m ∈ r.msgs, m.typ = .app ∨ m.typ = .heartbeat ∨ m.typ = .vote → m.from = n ∧ m.to ≠ n

/-- default proof of `AuxFrame.fol` from the context -/
macro "aux_fol" : tactic =>
  `(tactic| (intro hfolT hfolS; first | exact hfolS | (simp_all; done) | (exfalso; simp_all; done) | (exfalso; omega)))

/-- what every step guarantees about term, leadership and the end of the log -/
structure AuxFrame (r r' : Raft) : Prop where
  term : r.term ≤ r'.term
  lead : r'.term = r.term → r.state = .leader → r'.state = .leader ∧ r.log.lastIndex ≤ r'.log.lastIndex
  /-- within a term a follower stays a follower (so an acknowledgement of a leader that stepped down in its own term
  — CheckQuorum — is never counted) -/
  fol : r'.term = r.term → r.state = .follower → r'.state = .follower := by aux_fol

theorem AuxFrame.refl (r : Raft) : AuxFrame r r := ⟨Nat.le_refl _, fun _ h => ⟨h, Nat.le_refl _⟩, fun _ h => h⟩

theorem AuxFrame.trans {a b c : Raft} (h1 : AuxFrame a b) (h2 : AuxFrame b c) : AuxFrame a c := by
  refine ⟨Nat.le_trans h1.term h2.term, fun ht hl => ?_, ?_⟩
  · have hab : b.term = a.term := Nat.le_antisymm (ht ▸ h2.term) h1.term
    obtain ⟨hb, hle⟩ := h1.lead hab hl
    obtain ⟨hc, hle'⟩ := h2.lead (ht.trans hab.symm) hb
    · exact ⟨hc, Nat.le_trans hle hle'⟩
  · intro ht hf
    have hab : b.term = a.term := Nat.le_antisymm (ht ▸ h2.term) h1.term
    exact h2.fol (ht.trans hab.symm) (h1.fol hab hf)

/-- a pending self-addressed promise stays fine across a step -/
theorem SelfOK.frame {n : Nat} {r r' : Raft} {m : Message} (h : SelfOK n r m) (hf : AuxFrame r r') :
    SelfOK n r' m := by
  intro hto
  obtain ⟨h1, h2, h3, h4, h5⟩ := h hto
  refine ⟨h1, h2, h3, Nat.le_trans h4 hf.term, fun ha ht => ?_⟩
  have hterm : r'.term = r.term := Nat.le_antisymm (ht ▸ h4) hf.term
  rcases h5 ha (ht.trans hterm) with hfo | ⟨hl, hi⟩
  · exact Or.inl (hf.fol hterm hfo)
  · obtain ⟨hl', hle⟩ := hf.lead hterm hl
    exact Or.inr ⟨hl', Nat.le_trans hi hle⟩

end RaftVerif.Sim
