import RaftVerif.Proofs.NoPanicRaw
/-!
# Proofs/NoPanicVote — a MsgVote of the node's own term never throws (C14 end to end)

Throw sites on the path: `lastEntryID` / `isUpToDate` (excluded by `r.log.WF`), `send` of the MsgVoteResp
("term should be set": excluded by `m.term ≠ 0`; a voteResp goes to `msgsAfterAppend`, so no self-address check).
-/
set_option linter.unusedSimpArgs false
namespace RaftVerif.NoPanicP
open Raft C14 Sim Refine

/-- a MsgVoteResp (granted or rejected) with a non-zero term can always be sent -/
theorem send_noErr_voteResp' (m : Message) (r : Raft) (hty : m.typ = .voteResp) (hterm : m.term ≠ 0) :
    NoErr (send m) r := by
  intro e h
  rcases (send_error_iff _ r e).mp h with ⟨_, _, h0⟩ | ⟨_, hv', _⟩ | ⟨_, _, ha, _⟩
  · exact hterm h0
  · simp [hty, isVoteTyp] at hv'
  · simp [hty, isAfterAppendTyp] at ha

theorem lastEntryID_noErr (r : Raft) (hwf : r.log.WF) : NoErr lastEntryID r := by
  unfold Raft.lastEntryID
  simp only [np, wp]
  exact ⟨True.intro, (no_panic_log_layer hwf).1⟩

theorem noErr_step_vote_same' {r : Raft} (hwf : r.log.WF) (fuel : Nat) (m : Message) (ht : m.typ = .vote)
    (hterm : m.term = r.term) (h0 : m.term ≠ 0) : NoErr (Raft.step (fuel + 1) m) r := by
  have e0 : (m.term == 0) = false := by simpa using h0
  have e1 : ¬ m.term > r.term := by omega
  have e2 : ¬ m.term < r.term := by omega
  rw [step]
  simp (config := {decide := true}) only [np, wp, e0, e1, e2, ht, Bool.false_eq_true, false_implies, true_implies,
    implies_true, not_false_eq_true, not_true_eq_false, true_and, and_true, voteRespMsgType, beq_self_eq_true,
    reduceCtorEq, Bool.and_false, Bool.or_false, decide_false, ↓reduceIte]
  refine ⟨lastEntryID_noErr r hwf, fun _ _ => ⟨(no_panic_log_layer hwf).2.1 _, fun a _ => ⟨fun _ => ?_, fun _ => ?_⟩⟩⟩
  · exact ⟨send_noErr_voteResp' _ r rfl h0, Spec.trivial _ _⟩
  · exact ⟨send_noErr_voteResp' _ r rfl (hterm ▸ h0), Spec.trivial _ _⟩

/-- **MsgVote of the node's own term never throws** (simulation-invariant form) -/
theorem noErr_step_vote_same {val : Val} {voters : List Id} {n : Nat} {r : Raft} {nd : Spec.Node} {msgs}
    (hinv : RaftInv val voters n r nd msgs) (fuel : Nat) (m : Message) (ht : m.typ = .vote)
    (hterm : m.term = r.term) (h0 : m.term ≠ 0) : NoErr (Raft.step (fuel + 1) m) r :=
  noErr_step_vote_same' hinv.wf fuel m ht hterm h0

end RaftVerif.NoPanicP
