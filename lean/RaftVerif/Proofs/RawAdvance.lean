import RaftVerif.Proofs.RawNodeInv
/-!
# Proofs/RawAdvance — `RawNode.advance` (sync mode: replay of `stepsOnAdvance`) keeps `Prom` when every
replayed message satisfies `StepHyp` in the state in which it is stepped
-/
namespace RaftVerif.Raw
open RaftVerif Raft

/-- every message of the list satisfies `StepHyp` in the state reached by stepping its predecessors -/
def StepsOK (fuel : Nat) : Raft → List Message → Prop
  | _, [] => True
  | s, m :: ms => StepHyp s m ∧ ∀ e s', (Raft.step fuel m).run s = .ok (e, s') → StepsOK fuel s' ms

theorem forIn_steps_prom (fuel : Nat) (ms : List Message) (body : Message → PUnit → M (ForInStep PUnit))
    (hb : ∀ m b s (K : ForInStep PUnit → Raft → Prop),
      Spec (Raft.step fuel m) s (fun _ s' => K (ForInStep.yield PUnit.unit) s') → Spec (body m b) s K)
    (init : PUnit) (s : Raft) (h : StepsOK fuel s ms) :
    Spec (forIn ms init body) s (fun _ s' => Prom s s') := by
  induction ms generalizing s init with
  | nil => simp only [List.forIn_nil, Spec.pure_iff]; exact Prom.refl s
  | cons m ms ih =>
    simp only [List.forIn_cons, Spec.bind_iff]
    refine hb _ _ _ _ ?_
    refine ((step_prom fuel m s h.1).and (Spec.runs _ _)).mono ?_
    intro e s' ⟨hp, hr⟩
    exact (ih PUnit.unit s' (h.2 e s' hr)).mono (fun _ _ h2 => hp.trans h2)

theorem advance_prom (rn rn' : RawNode) (draws : List Nat)
    (hok : StepsOK Raft.stepFuel { rn.raft with draws := draws } rn.stepsOnAdvance)
    (h : rn.advance draws = .ok rn') : Prom rn.raft rn'.raft := by
  unfold RawNode.advance at h
  by_cases ha : rn.async = true
  · simp [ha, throw, throwThe, MonadExceptOf.throw, bind, Except.bind] at h
  · simp only [ha, Bool.false_eq_true, if_false] at h
    obtain ⟨⟨u, rn1⟩, hrun, h⟩ := bind_eq_ok.1 h
    simp only [pure, Except.pure, Except.ok.injEq] at h
    subst h
    refine runM_prom rn rn1 draws _ u ?_ hrun
    clear hrun
    simp (config := {zeta := false}) only [wp]
    refine (forIn_steps_prom _ _ _ ?_ _ _ hok).mono ?_
    · intro m b s K hk
      simp (config := {zeta := false}) only [wp]
      exact hk
    · intro _ s' hp
      exact hp

end RaftVerif.Raw
